import Qv.Proofs.KernelValue
/-!
# Helper lemmas for the Python front ends of the annealers (C11)
-/
namespace Qv.Anneal
open Qv Qv.Kernel

/-! ## `mapM` in `Except` -/

theorem mapM_ok {β γ : Type} (f : β → Except Err γ) : ∀ (l : List β) (rs : List γ), l.mapM f = .ok rs →
    rs.length = l.length ∧ ∀ r ∈ rs, ∃ a ∈ l, f a = .ok r
  | [], rs, h => by
    simp only [List.mapM_nil, pure, Except.pure] at h
    injection h with h; subst h; simp
  | a :: l, rs, h => by
    simp only [List.mapM_cons, bind_ok_iff, pure, Except.pure] at h
    obtain ⟨b, hb, bs, hbs, h⟩ := h
    injection h with h; subst h
    obtain ⟨h1, h2⟩ := mapM_ok f l bs hbs
    refine ⟨by simp [h1], ?_⟩
    intro r hr
    rcases List.mem_cons.mp hr with e | hr
    · exact ⟨a, List.mem_cons_self, e ▸ hb⟩
    · obtain ⟨a', ha', hf⟩ := h2 r hr
      exact ⟨a', List.mem_cons_of_mem _ ha', hf⟩

theorem mapM_guard {β γ : Type} (p : β → Prop) [DecidablePred p] (g : β → γ) (e : Err) :
    ∀ (l : List β) (rs : List γ), l.mapM (fun k => if p k then Except.ok (g k) else Except.error e) = .ok rs →
      rs = l.map g
  | [], rs, h => by
    simp only [List.mapM_nil, pure, Except.pure] at h
    injection h with h; subst h; rfl
  | a :: l, rs, h => by
    simp only [List.mapM_cons, bind_ok_iff, pure, Except.pure] at h
    obtain ⟨b, hb, bs, hbs, h⟩ := h
    injection h with h; subst h
    rw [mapM_guard p g e l bs hbs]
    split at hb
    · injection hb with hb; subst hb; rfl
    · cases hb

/-! ## packaging -/

/-- the state dict of a result: `{reverse_mapping[k]: v for k, v in enumerate(state)}` -/
def relabelState (rev : List Var) (s : List Int) : List (Var × Int) :=
  (List.range s.length).map (fun k => (rev.getD k 0, s.getD k 0))

theorem package_spec {α : Type} (ofNum : α → Rat) (rev : List Var) (offset : Rat) (out : List (List Int × α))
    (rs : List Res) (h : package ofNum rev offset out = .ok rs) :
    rs.length = out.length ∧
    ∀ r ∈ rs, ∃ sv ∈ out, r.state = relabelState rev sv.1 ∧ r.value = ofNum sv.2 + offset ∧ r.spin = true := by
  unfold package at h
  obtain ⟨h1, h2⟩ := mapM_ok _ out rs h
  refine ⟨h1, ?_⟩
  intro r hr
  obtain ⟨sv, hsv, hf⟩ := h2 r hr
  simp only [bind_ok_iff, pure, Except.pure] at hf
  obtain ⟨st, hst, hf⟩ := hf
  injection hf with hf; subst hf
  refine ⟨sv, hsv, ?_, rfl, rfl⟩
  exact mapM_guard (fun k => k < rev.length) (fun k => (rev.getD k 0, sv.1.getD k 0)) Err.key _ _ hst

theorem emptyResults_spec (n : Nat) (offset : Rat) :
    (emptyResults n offset).length = n ∧
    ∀ r ∈ emptyResults n offset, r.state = [] ∧ r.value = offset ∧ r.spin = true := by
  unfold emptyResults
  refine ⟨by simp, ?_⟩
  intro r hr
  have := List.eq_of_mem_replicate hr
  subst this; exact ⟨rfl, rfl, rfl⟩

/-! ## the initial state -/

theorem lookupInit_mem (d : List (Var × Int)) (l : Var) (x : Int) (h : lookupInit d l = .ok x) :
    ∃ p ∈ d, p.2 = x := by
  unfold lookupInit at h
  split at h
  · rename_i p hp
    injection h with h
    exact ⟨p, List.mem_of_find?_eq_some hp, h⟩
  · cases h

theorem relabelInit_good (N : Nat) (rev : List Var) (init : Option (List (Var × Int))) (st : List Int)
    (hv : ∀ d, init = some d → ∀ p ∈ d, p.2 = 1 ∨ p.2 = -1) (h : relabelInit N rev init = .ok st) :
    GoodInit N st := by
  cases init with
  | none =>
    simp only [relabelInit] at h
    injection h with h; subst h; exact Or.inl rfl
  | some d =>
    right
    simp only [relabelInit] at h
    have hv' := hv d rfl
    have key : ∀ (ks : List Nat) (s0 s1 : List Int), GoodState N s0 →
        ks.foldlM (fun st k => do
          let x ← lookupInit d (rev.getD k 0)
          if k < N then pure (st.set k x) else Except.error Err.index) s0 = .ok s1 → GoodState N s1 := by
      intro ks
      induction ks with
      | nil =>
        intro s0 s1 hg hf
        simp only [List.foldlM_nil, pure, Except.pure] at hf
        injection hf with hf; subst hf; exact hg
      | cons k ks ih =>
        intro s0 s1 hg hf
        simp only [List.foldlM_cons, bind_ok_iff, pure, Except.pure] at hf
        obtain ⟨s2, ⟨x, hx, hs2⟩, hf⟩ := hf
        refine ih s2 s1 ?_ hf
        split at hs2
        · injection hs2 with hs2; subst hs2
          obtain ⟨p, hp, hpx⟩ := lookupInit_mem d _ x hx
          refine ⟨by simp [hg.1], ?_⟩
          intro y hy
          rcases List.mem_or_eq_of_mem_set hy with h' | h'
          · exact hg.2 y h'
          · rw [h', ← hpx]; exact hv' p hp
        · cases hs2
    refine key _ _ st ⟨by simp, ?_⟩ h
    intro y hy
    exact Or.inl (List.eq_of_mem_replicate hy)

/-! ## the front end up to the C call -/

theorem prep_cases {ρ α : Type} (dispatch : Obj → Except Err (Nat × Poly × List Var)) (L : Obj)
    (P : Params ρ α) (pr : Prep α) (h : prep dispatch L P = .ok pr) :
    (P.numAnneals ≤ 0 ∧ pr = .done []) ∨
    (0 < P.numAnneals ∧ ∃ Ts N model rev, createSchedule P.schedule = .ok Ts ∧ dispatch L = .ok (N, model, rev) ∧
      ((N = 0 ∧ pr = .done (emptyResults P.numAnneals.toNat (get model []))) ∨
       (N ≠ 0 ∧ ∃ init, relabelInit N rev P.init = .ok init ∧
          pr = .call { N := N, model := model, rev := rev, Ts := Ts, init := init }))) := by
  unfold prep at h
  simp only [pure, Except.pure] at h
  split at h
  · rename_i hle
    injection h with h
    exact Or.inl ⟨hle, h.symm⟩
  · rename_i hle
    right
    refine ⟨by omega, ?_⟩
    simp only [bind_ok_iff] at h
    obtain ⟨Ts, hTs, ⟨N, model, rev⟩, hd, h⟩ := h
    refine ⟨Ts, N, model, rev, hTs, hd, ?_⟩
    split at h
    · rename_i hN
      injection h with h
      exact Or.inl ⟨hN, h.symm⟩
    · rename_i hN
      simp only [bind_ok_iff] at h
      obtain ⟨init, hi, h⟩ := h
      injection h with h
      exact Or.inr ⟨hN, init, hi, h.symm⟩

/-! ## `to_boolean`, `boolean_to_spin` -/

theorem booleanToSpinInit_vals (i : Option (List (Var × Int))) (o : Option (List (Var × Int)))
    (h : booleanToSpinInit i = .ok o) : ∀ d, o = some d → ∀ p ∈ d, p.2 = 1 ∨ p.2 = -1 := by
  cases i with
  | none =>
    simp only [booleanToSpinInit] at h
    injection h with h; subst h
    intro d hd; cases hd
  | some d0 =>
    simp only [booleanToSpinInit, bind_ok_iff, pure, Except.pure] at h
    obtain ⟨d', hd', h⟩ := h
    injection h with h; subst h
    intro d hd p hp
    injection hd with hd; subst hd
    obtain ⟨_, h2⟩ := mapM_ok _ d0 d' hd'
    obtain ⟨a, _, hf⟩ := h2 p hp
    split at hf
    · injection hf with hf; subst hf; exact Or.inl rfl
    · split at hf
      · injection hf with hf; subst hf; exact Or.inr rfl
      · cases hf

theorem toBoolean_spec (rs bs : List Res) (h : toBoolean rs = .ok bs) :
    bs.length = rs.length ∧
    ∀ b ∈ bs, ∃ r ∈ rs, b.spin = false ∧ b.value = r.value ∧ b.state.map Prod.fst = r.state.map Prod.fst ∧
      ∀ p ∈ b.state, p.2 = 0 ∨ p.2 = 1 := by
  unfold toBoolean at h
  obtain ⟨h1, h2⟩ := mapM_ok _ rs bs h
  refine ⟨h1, ?_⟩
  intro b hb
  obtain ⟨r, hr, hf⟩ := h2 b hb
  simp only [bind_ok_iff, pure, Except.pure] at hf
  obtain ⟨st, hst, hf⟩ := hf
  injection hf with hf; subst hf
  refine ⟨r, hr, rfl, rfl, ?_, ?_⟩
  · -- the labels are kept
    clear h2 hb hr h h1
    show st.map Prod.fst = r.state.map Prod.fst
    generalize r.state = l at hst
    induction l generalizing st with
    | nil =>
      simp only [List.mapM_nil, pure, Except.pure] at hst
      injection hst with hst; subst hst; rfl
    | cons a l ih =>
      simp only [List.mapM_cons, bind_ok_iff, pure, Except.pure] at hst
      obtain ⟨b, hb, bs', hbs, hst⟩ := hst
      injection hst with hst; subst hst
      simp only [List.map_cons, ih bs' hbs]
      congr 1
      split at hb
      · injection hb with hb; subst hb; rfl
      · split at hb
        · injection hb with hb; subst hb; rfl
        · cases hb
  · intro p hp
    obtain ⟨_, h3⟩ := mapM_ok _ r.state st hst
    obtain ⟨a, _, hf⟩ := h3 p hp
    split at hf
    · injection hf with hf; subst hf; exact Or.inl rfl
    · split at hf
      · injection hf with hf; subst hf; exact Or.inr rfl
      · cases hf

/-! ## `best` -/

theorem best_spec : ∀ (rs : List Res) (b0 : Option Res),
    (∀ b, b0 = some b → True) →
    match rs.foldl (fun b r => match b with
        | none => some r
        | some b' => if r.value < b'.value then some r else some b') b0 with
    | none => rs = [] ∧ b0 = none
    | some b => (b ∈ rs ∨ b0 = some b) ∧ (∀ r ∈ rs, b.value ≤ r.value) ∧ (∀ b', b0 = some b' → b.value ≤ b'.value)
  | [], b0, _ => by
    cases b0 with
    | none => simp
    | some b => simp
  | r :: rs, b0, _ => by
    simp only [List.foldl_cons]
    cases b0 with
    | none =>
      have ih := best_spec rs (some r) (fun _ _ => trivial)
      revert ih
      simp only
      cases hfold : rs.foldl _ (some r) with
      | none => intro ih; simp at ih
      | some b =>
        intro ih
        simp only at ih ⊢
        obtain ⟨hm, hle, hb0⟩ := ih
        refine ⟨?_, ?_, by intro b' hb'; cases hb'⟩
        · rcases hm with h | h
          · exact Or.inl (List.mem_cons_of_mem _ h)
          · injection h with h; subst h; exact Or.inl List.mem_cons_self
        · intro x hx
          rcases List.mem_cons.mp hx with e | hx
          · subst e; exact hb0 _ rfl
          · exact hle x hx
    | some b1 =>
      by_cases hlt : r.value < b1.value
      · simp only [hlt, if_true]
        have ih := best_spec rs (some r) (fun _ _ => trivial)
        revert ih
        cases hfold : rs.foldl _ (some r) with
        | none => intro ih; simp at ih
        | some b =>
          intro ih
          simp only at ih ⊢
          obtain ⟨hm, hle, hb0⟩ := ih
          have hbr := hb0 _ rfl
          refine ⟨?_, ?_, ?_⟩
          · rcases hm with h | h
            · exact Or.inl (List.mem_cons_of_mem _ h)
            · injection h with h; subst h; exact Or.inl List.mem_cons_self
          · intro x hx
            rcases List.mem_cons.mp hx with e | hx
            · subst e; exact hbr
            · exact hle x hx
          · intro b' hb'
            injection hb' with hb'; subst hb'
            exact le_of_lt (lt_of_le_of_lt hbr hlt)
      · simp only [hlt, if_false]
        have ih := best_spec rs (some b1) (fun _ _ => trivial)
        revert ih
        cases hfold : rs.foldl _ (some b1) with
        | none => intro ih; simp at ih
        | some b =>
          intro ih
          simp only at ih ⊢
          obtain ⟨hm, hle, hb0⟩ := ih
          have hb1 := hb0 _ rfl
          refine ⟨?_, ?_, ?_⟩
          · rcases hm with h | h
            · exact Or.inl (List.mem_cons_of_mem _ h)
            · exact Or.inr h
          · intro x hx
            rcases List.mem_cons.mp hx with e | hx
            · subst e; exact le_trans hb1 (not_lt.mp hlt)
            · exact hle x hx
          · intro b' hb'
            injection hb' with hb'; subst hb'
            exact hb1

/-! ## the C call and the packaging -/

/-- exact arithmetic: `float(v)` and reading a `double` back are the identity on `Rat` -/
def ratCfg {ρ : Type} (src : Src ρ Rat) : Cfg ρ Rat := { src := src, toNum := fun v => v, ofNum := fun v => v }

theorem relabelState_fst (rev : List Var) (s : List Int) :
    (relabelState rev s).map Prod.fst = (List.range s.length).map (fun k => rev.getD k 0) := by
  simp [relabelState]

theorem relabelState_vals (rev : List Var) (s : List Int) (hs : SpinList s) :
    ∀ p ∈ relabelState rev s, p.2 = 1 ∨ p.2 = -1 := by
  intro p hp
  simp only [relabelState, List.mem_map, List.mem_range] at hp
  obtain ⟨k, hk, rfl⟩ := hp
  exact hs _ (getD_mem 0 hk)

section
variable {ρ α : Type} [Add α] [Mul α] [OfInt α]

theorem annealLoop_length (src : Src ρ α) (N : Nat) (init : List Int)
    (single : List Int → ρ → List Int × ρ) (value : List Int → α) :
    ∀ (k : Nat) (rng : ρ), (annealLoop src N init single value k rng).length = k
  | 0, _ => rfl
  | k + 1, rng => by simp [annealLoop, annealLoop_length src N init single value k]

theorem runQuso_length (cfg : Cfg ρ α) (P : Params ρ α) (c : Call α) (rs : List Res)
    (h : runQuso cfg P c = .ok rs) : rs.length = P.numAnneals.toNat := by
  unfold runQuso at h
  simp only [bind_ok_iff] at h
  obtain ⟨⟨hh, adj⟩, _, h⟩ := h
  rw [(package_spec _ _ _ _ _ h).1]
  exact annealLoop_length _ _ _ _ _ _ _

theorem runPuso_ok (cfg : Cfg ρ α) (P : Params ρ α) (c : Call α) (rs : List Res)
    (h : runPuso cfg P c = .ok rs) :
    package cfg.ofNum c.rev (get c.model [])
      (Kernel.annealPuso cfg.src (flattenPuso cfg.toNum c.model) c.N c.Ts P.inOrder c.init
        P.numAnneals.toNat P.rng) = .ok rs := by
  unfold runPuso at h
  simp only [pure, Except.pure] at h
  split at h
  · exact absurd h (by simp [bind, Except.bind, throw, throwThe, MonadExceptOf.throw])
  · exact h

theorem runPuso_length (cfg : Cfg ρ α) (P : Params ρ α) (c : Call α) (rs : List Res)
    (h : runPuso cfg P c = .ok rs) : rs.length = P.numAnneals.toNat := by
  have h := runPuso_ok cfg P c rs h
  rw [(package_spec _ _ _ _ _ h).1]
  exact annealLoop_length _ _ _ _ _ _ _

theorem runQuso_states (cfg : Cfg ρ α) (P : Params ρ α) (c : Call α) (rs : List Res)
    (h : runQuso cfg P c = .ok rs) (hi : GoodInit c.N c.init) :
    ∀ r ∈ rs, r.spin = true ∧ ∃ s, GoodState c.N s ∧ r.state = relabelState c.rev s := by
  unfold runQuso at h
  simp only [bind_ok_iff] at h
  obtain ⟨⟨hh, adj⟩, _, h⟩ := h
  intro r hr
  obtain ⟨sv, hsv, hst, _, hsp⟩ := (package_spec _ _ _ _ _ h).2 r hr
  exact ⟨hsp, sv.1, ((annealQuso_spec _ _ _ _ _ _ _ _ hi).2 sv hsv).1, hst⟩

theorem runPuso_states (cfg : Cfg ρ α) (P : Params ρ α) (c : Call α) (rs : List Res)
    (h : runPuso cfg P c = .ok rs) (hi : GoodInit c.N c.init) :
    ∀ r ∈ rs, r.spin = true ∧ ∃ s, GoodState c.N s ∧ r.state = relabelState c.rev s := by
  have h := runPuso_ok cfg P c rs h
  intro r hr
  obtain ⟨sv, hsv, hst, _, hsp⟩ := (package_spec _ _ _ _ _ h).2 r hr
  exact ⟨hsp, sv.1, ((annealPuso_spec _ _ _ _ _ _ _ _ hi).2 sv hsv).1, hst⟩

end

theorem runQuso_value {ρ : Type} (src : Src ρ Rat) (P : Params ρ Rat) (c : Call Rat) (rs : List Res)
    (h : runQuso (ratCfg src) P c = .ok rs) (hi : GoodInit c.N c.init) (hd : (keys c.model).Nodup)
    (hk : ∀ kv ∈ c.model, SSorted kv.1 ∧ kv.1.length ≤ 2) :
    ∀ r ∈ rs, ∃ s, GoodState c.N s ∧ r.state = relabelState c.rev s ∧ r.value = eval (assign s) c.model := by
  unfold runQuso at h
  simp only [bind_ok_iff] at h
  obtain ⟨⟨hh, adj⟩, hflat, h⟩ := h
  intro r hr
  obtain ⟨sv, hsv, hst, hval, _⟩ := (package_spec _ _ _ _ _ h).2 r hr
  obtain ⟨hg, hv⟩ := (annealQuso_spec _ _ _ _ _ _ _ _ hi).2 sv hsv
  refine ⟨sv.1, hg, hst, ?_⟩
  have := flattenQuso_value c.N c.model hh adj hflat hd hk sv.1
  simp only [ratCfg] at hval hv
  rw [hval, hv]
  show qusoValueC (qusoArgs (fun v => v) hh adj) (mkIndex (adj.map List.length)) c.N sv.1 + get c.model [] = _
  rw [this]; ring

theorem runPuso_value {ρ : Type} (src : Src ρ Rat) (P : Params ρ Rat) (c : Call Rat) (rs : List Res)
    (h : runPuso (ratCfg src) P c = .ok rs) (hi : GoodInit c.N c.init) (hd : (keys c.model).Nodup) :
    ∀ r ∈ rs, ∃ s, GoodState c.N s ∧ r.state = relabelState c.rev s ∧ r.value = eval (assign s) c.model := by
  have h := runPuso_ok (ratCfg src) P c rs h
  intro r hr
  obtain ⟨sv, hsv, hst, hval, _⟩ := (package_spec _ _ _ _ _ h).2 r hr
  obtain ⟨hg, hv⟩ := (annealPuso_spec _ _ _ _ _ _ _ _ hi).2 sv hsv
  refine ⟨sv.1, hg, hst, ?_⟩
  have := flattenPuso_value c.model hd sv.1
  simp only [ratCfg] at hval hv
  rw [hval, hv, this]; ring

/-! ## canonical form of the relabelled models -/

theorem toQuso_canonical (o : Obj) (model : Poly) (h : toQuso o = .ok model) :
    (keys model).Nodup ∧ ∀ kv ∈ model, SSorted kv.1 ∧ kv.1.length ≤ 2 := by
  unfold toQuso at h
  simp only [bind_ok_iff] at h
  obtain ⟨ops, _, hc⟩ := h
  have wf := wf_construct (squash_idem .qusom) hc
  refine ⟨wf.nodup, ?_⟩
  intro kv hkv
  have hfix := wf.fixed kv.1 (by simp only [keys]; exact List.mem_map_of_mem hkv)
  rcases squash_canon hfix with hdict | ⟨hs, hl⟩
  · cases hdict
  · exact ⟨hs, hl rfl⟩

theorem toPuso_canonical (o : Obj) (model : Poly) (h : toPuso o = .ok model) : (keys model).Nodup := by
  unfold toPuso at h
  split at h
  · simp only [bind_ok_iff] at h
    obtain ⟨q, _, hc⟩ := h
    exact (wf_construct (squash_idem .pusom) hc).nodup
  · simp only [bind_ok_iff] at h
    obtain ⟨ops, _, hc⟩ := h
    exact (wf_construct (squash_idem .pusom) hc).nodup

/-! ## a concrete instance (non-vacuity of the C11 theorems) -/

namespace Ex

/-- a deterministic source with a counter as state: it accepts downhill moves, and uphill moves at `T > 0`
on every third draw -/
def src : Src Nat Rat where
  coin r := (r + 1, r % 2 = 0)
  index r n := (r + 1, (7 * r + 3) % n)
  accept dE T r := if dE ≤ 0 then (r, true) else if T > 0 then (r + 1, r % 3 = 0) else (r, false)

/-- `QUSOMatrix({(0,1): 1, (1,): -1/2, (): 3, (0,2): -2})` built by `+=` with an unsorted key -/
def L : Obj := { kind := .qusom, terms := [([0, 1], 1), ([1], -1/2), ([], 3), ([0, 2], -2)], vars := [0, 1, 2] }

/-- the labelled `QUSO({(5,7): 1, (7,): -1/2, (): 3, (5,9): -2})` -/
def Lq : Obj := { kind := .quso, terms := [([5, 7], 1), ([7], -1/2), ([], 3), ([5, 9], -2)], vars := [5, 7, 9],
                  mapping := [5, 7, 9] }

/-- `PUSOMatrix({(0,1,2): 1, (1,): -1/2, (): 3})` -/
def H : Obj := { kind := .pusom, terms := [([0, 1, 2], 1), ([1], -1/2), ([], 3)], vars := [0, 1, 2] }

/-- `{(0,1): 2, (1,): -1, (): 1/2}` as a plain dict for the boolean functions -/
def Q : Obj := Obj.ofDict [([0, 1], 2), ([1], -1), ([], 1/2)]

def P (inOrder : Bool) (init : Option (List (Var × Int))) : Params Nat Rat :=
  { numAnneals := 2, schedule := .explicit [2, 1, 0], init := init, inOrder := inOrder, rng := 0 }

end Ex

end Qv.Anneal
