import Qv.Proofs.SymbolicSim
/-!
# C16, T16.0 for the six comparison builders: each builder preserves the simulation relation
-/
namespace Qv.Sym
open Qv Qv.PcboP

variable {lam : Rat} {st s s1 : St}

theorem specialEq_sim (h : Sim lam st s s1) (hl : lam ≠ 0) (P : Poly) :
    OSim lam st (specialEq s P lam) (specialEq s1 P 1) := by
  unfold specialEq
  split
  · split
    · split
      · rw [scaleB_smap hl]; exact ((h.plus _).tag _)
      · rw [scaleB_smap hl]; exact ((h.plus _).tag _)
      · trivial
    · trivial
  · trivial

theorem addEqZero_sim (h : Sim lam st s s1) (hl : lam ≠ 0) (P : Poly) (b : Option Rat × Option Rat) (sup : Bool) :
    Sim lam st (addEqZero s P lam b sup) (addEqZero s1 P 1 b sup) := by
  have hs := specialEq_sim (h.append .eq P) hl P
  unfold addEqZero
  simp only [hl, one_ne_zero, if_false]
  cases e1 : specialEq (s.append .eq P) P lam <;> cases e2 : specialEq (s1.append .eq P) P 1 <;>
    rw [e1, e2] at hs <;> simp only [OSim] at hs
  · simp only []
    split_ifs
    · exact ((h.append _ _).warn _ _).tag _
    · rw [scaleB_smap hl]; exact (((h.append _ _).warn _ _).plus _).tag _
    · rw [scaleB_smap hl]; exact (((h.append _ _).warn _ _).minus _).tag _
    · rw [scaleB_smap hl]; exact ((h.append _ _).plus _).tag _
    · rw [scaleB_smap hl]; exact ((h.append _ _).minus _).tag _
    · rw [scaleB_smap hl, mulB_smap hl]; exact ((h.append _ _).plus _).tag _
  · exact hs

theorem unaryAncillas_sim (h : Sim lam st s s1) (n : Nat) :
    Sim lam st (unaryAncillas s n).1 (unaryAncillas s1 n).1 ∧ (unaryAncillas s n).2 = (unaryAncillas s1 n).2 := by
  induction n with
  | zero => exact ⟨h, rfl⟩
  | succ n ih =>
    obtain ⟨ih1, ih2⟩ := ih
    obtain ⟨h1, h2⟩ := ih1.nextAnc
    simp only [unaryAncillas]
    exact ⟨h1, by rw [ih2, h2]⟩

theorem specialLe_sim (h : Sim lam st s s1) (hl : lam ≠ 0) (P : Poly) (lt : Bool) (bnd : Rat × Rat) :
    OSim lam st (specialLe s P lam lt bnd) (specialLe s1 P 1 lt bnd) := by
  unfold specialLe
  simp only []
  split_ifs
  · rw [scaleB_smap hl, mulB_smap hl, scaleB_of_smap hl]; exact (h.plus _).tag _
  · obtain ⟨h1, h2⟩ := unaryAncillas_sim h (numBits (-offsetOf P) false)
    rw [h2, scaleB_smap hl, mulB_smap hl]; exact (h1.plus _).tag _
  · split
    · rw [scaleB_smap hl]; exact (h.plus _).tag _
    · trivial
  · split
    · rw [scaleB_smap hl, mulB_smap hl]; exact (h.plus _).tag _
    · trivial
  · trivial

theorem slackLoop_sim (lt : Bool) (n : Nat) : ∀ {s s1 : St}, Sim lam st s s1 → ∀ (P : Poly) (hi : Rat) (i : Nat),
    Sim lam st (slackLoop lt s P hi i n).1 (slackLoop lt s1 P hi i n).1 ∧
      (slackLoop lt s P hi i n).2 = (slackLoop lt s1 P hi i n).2 := by
  induction n with
  | zero => intro s s1 h P hi i; exact ⟨h, rfl⟩
  | succ n ih =>
    intro s s1 h P hi i
    obtain ⟨h1, h2⟩ := h.nextAnc
    simp only [slackLoop]
    rw [h2]
    exact ih h1 _ _ _

theorem addLeZero_sim (h : Sim lam st s s1) (hl : lam ≠ 0) (P : Poly) (lt : Bool) (b : Option Rat × Option Rat)
    (sup : Bool) : Sim lam st (addLeZero s P lam lt b sup) (addLeZero s1 P 1 lt b sup) := by
  have h0 := h.append .le P
  have hs := specialLe_sim h0 hl P lt ((getBounds P b).1, (getBounds P b).2)
  unfold addLeZero
  simp only [hl, one_ne_zero, if_false]
  cases e1 : specialLe (s.append .le P) P lam lt ((getBounds P b).1, (getBounds P b).2) <;>
    cases e2 : specialLe (s1.append .le P) P 1 lt ((getBounds P b).1, (getBounds P b).2) <;>
    rw [e1, e2] at hs <;> simp only [OSim] at hs
  · simp only []
    by_cases c1 : (getBounds P b).1 > 0
    · rw [if_pos c1, if_pos c1, scaleB_smap hl]; exact ((h0.warn _ _).plus _).tag _
    · rw [if_neg c1, if_neg c1]
      by_cases c2 : (getBounds P b).2 ≤ 0
      · rw [if_pos c2, if_pos c2]; exact (h0.warn _ _).tag _
      · rw [if_neg c2, if_neg c2]
        by_cases c3 : (getBounds P b).1 ≠ 0
        · rw [if_pos c3, if_pos c3]
          obtain ⟨l1, l2⟩ := slackLoop_sim lt (numBits (-(getBounds P b).1) lt) h0 P (getBounds P b).2 0
          have l21 := congrArg Prod.fst l2
          have l22 := congrArg Prod.snd l2
          simp only [l21, l22]
          exact ((addEqZero_sim l1 hl _ _ _).pop _).tag _
        · rw [if_neg c3, if_neg c3]
          exact ((addEqZero_sim h0 hl _ _ _).pop _).tag _
  · exact hs

theorem addLtZero_sim (h : Sim lam st s s1) (hl : lam ≠ 0) (P : Poly) (lt : Bool) (b : Option Rat × Option Rat)
    (sup : Bool) : Sim lam st (addLtZero s P lam lt b sup) (addLtZero s1 P 1 lt b sup) := by
  have h0 := h.append .lt P
  unfold addLtZero
  simp only [hl, one_ne_zero, if_false]
  split_ifs
  · rw [scaleB_smap hl]; exact ((h0.warn _ _).plus _).tag _
  · exact (h0.warn _ _).tag _
  · exact ((addLeZero_sim h0 hl _ _ _ _).pop _).tag _

theorem addGtZero_sim (h : Sim lam st s s1) (hl : lam ≠ 0) (P : Poly) (lt : Bool) (b : Option Rat × Option Rat)
    (sup : Bool) : Sim lam st (addGtZero s P lam lt b sup) (addGtZero s1 P 1 lt b sup) := by
  have h0 := h.append .gt P
  unfold addGtZero
  simp only [hl, one_ne_zero, if_false]
  exact (addLtZero_sim h0 hl _ _ _ _).pop _

theorem addGeZero_sim (h : Sim lam st s s1) (hl : lam ≠ 0) (P : Poly) (lt : Bool) (b : Option Rat × Option Rat)
    (sup : Bool) : Sim lam st (addGeZero s P lam lt b sup) (addGeZero s1 P 1 lt b sup) := by
  have h0 := h.append .ge P
  unfold addGeZero
  simp only [hl, one_ne_zero, if_false]
  exact (addLeZero_sim h0 hl _ _ _ _).pop _

theorem neLoop_sim (lt : Bool) (sign : Poly) (n : Nat) : ∀ {s s1 : St}, Sim lam st s s1 →
    ∀ (P : Poly) (lo hi : Rat) (i : Nat),
    Sim lam st (neLoop lt sign s P lo hi i n).1 (neLoop lt sign s1 P lo hi i n).1 ∧
      (neLoop lt sign s P lo hi i n).2 = (neLoop lt sign s1 P lo hi i n).2 := by
  induction n with
  | zero => intro s s1 h P lo hi i; exact ⟨h, rfl⟩
  | succ n ih =>
    intro s s1 h P lo hi i
    obtain ⟨h1, h2⟩ := h.nextAnc
    simp only [neLoop]
    rw [h2]
    exact ih h1 _ _ _ _

theorem addNeZero_sim (h : Sim lam st s s1) (hl : lam ≠ 0) (P : Poly) (lt : Bool) (b : Option Rat × Option Rat)
    (sup : Bool) : Sim lam st (addNeZero s P lam lt b sup) (addNeZero s1 P 1 lt b sup) := by
  have h0 := h.append .ne P
  unfold addNeZero
  simp only [hl, one_ne_zero, if_false]
  split_ifs
  · rw [addConstB_smap hl]; exact ((h0.warn _ _).plus _).tag _
  · exact (h0.warn _ _).tag _
  · exact (h0.warn _ _).tag _
  · exact ((addGtZero_sim h0 hl _ _ _ _).pop _).tag _
  · exact ((addLtZero_sim h0 hl _ _ _ _).pop _).tag _
  · obtain ⟨h1, h2⟩ := h0.nextAnc
    rw [h2]
    obtain ⟨l1, l2⟩ := neLoop_sim lt (addConstB (addTermB [] [(s1.append .ne P).nextAnc.2] 2) (-1))
      (numBits ((getBounds P b).2 + 1 - ((getBounds P b).1 - 1) - 1) lt) h1
      (iaddB P (addConstB (addTermB [] [(s1.append .ne P).nextAnc.2] 2) (-1))) ((getBounds P b).1 - 1) ((getBounds P b).2 + 1) 0
    have l21 := congrArg Prod.fst l2
    have l22 := congrArg (fun x => x.2.1) l2
    have l23 := congrArg (fun x => x.2.2) l2
    simp only [l21, l22, l23]
    exact ((addEqZero_sim l1 hl _ _ _).pop _).tag _

/-- all six relations -/
theorem addConstraint_sim (h : Sim lam st s s1) (hl : lam ≠ 0) (r : Rel) (P : Poly) (lt : Bool)
    (b : Option Rat × Option Rat) (sup : Bool) :
    Sim lam st (addConstraint r s P lam lt b sup) (addConstraint r s1 P 1 lt b sup) := by
  cases r <;> simp only [addConstraint]
  · exact addEqZero_sim h hl _ _ _
  · exact addNeZero_sim h hl _ _ _ _
  · exact addLtZero_sim h hl _ _ _ _
  · exact addLeZero_sim h hl _ _ _ _
  · exact addGtZero_sim h hl _ _ _ _
  · exact addGeZero_sim h hl _ _ _ _

end Qv.Sym
