import Qv.Proofs.Canon
import Qv.Proofs.Expr
import Mathlib.Data.List.Perm.Subperm
/-!
# Canonical boolean dicts denoting the same function are equal (T5.4)
-/
namespace Qv

theorem ssorted_head_lt {a : Var} {l : Key} (h : SSorted (a :: l)) : ∀ b ∈ l, a < b := by
  induction l generalizing a with
  | nil => intro b hb; cases hb
  | cons c r ih =>
    intro b hb
    rcases List.mem_cons.1 hb with rfl | hb
    · exact h.1
    · exact Nat.lt_trans h.1 (ih h.2 b hb)

theorem ssorted_pairwise {l : Key} (h : SSorted l) : l.Pairwise (· < ·) := by
  induction l with
  | nil => exact List.Pairwise.nil
  | cons a r ih => exact List.Pairwise.cons (ssorted_head_lt h) (ih h.tail)

theorem ssorted_nodup {l : Key} (h : SSorted l) : l.Nodup :=
  (ssorted_pairwise h).imp (fun hab => Nat.ne_of_lt hab)

/-- two strictly sorted keys, the first contained in the second and not shorter, are equal -/
theorem ssorted_eq_of_subset {k k0 : Key} (hk : SSorted k) (hk0 : SSorted k0)
    (hsub : ∀ i ∈ k, i ∈ k0) (hlen : k0.length ≤ k.length) : k = k0 := by
  have sp : k.Subperm k0 := List.subperm_of_subset (ssorted_nodup hk) hsub
  have pm : k.Perm k0 := sp.perm_of_length_le hlen
  exact pm.eq_of_pairwise (fun a b _ _ h1 h2 => absurd h1 (Nat.lt_asymm h2))
    (ssorted_pairwise hk) (ssorted_pairwise hk0)

/-- indicator assignment of a key -/
def indicator (k0 : Key) : Var → Rat := fun i => if i ∈ k0 then 1 else 0

theorem indicator_bool (k0 : Key) : IsBool (indicator k0) := by
  intro i; unfold indicator; by_cases h : i ∈ k0 <;> simp [h]

theorem mon_indicator_self (k0 k : Key) (h : ∀ i ∈ k, i ∈ k0) : mon (indicator k0) k = 1 := by
  induction k with
  | nil => rfl
  | cons a r ih =>
    have ha : a ∈ k0 := h a List.mem_cons_self
    simp only [mon_cons, indicator, ha, if_true, one_mul]
    exact ih (fun i hi => h i (List.mem_cons_of_mem _ hi))

theorem mon_indicator_zero (k0 k : Key) (h : ∃ i ∈ k, i ∉ k0) : mon (indicator k0) k = 0 := by
  induction k with
  | nil => obtain ⟨i, hi, _⟩ := h; cases hi
  | cons a r ih =>
    obtain ⟨i, hi, hn⟩ := h
    simp only [mon_cons]
    rcases List.mem_cons.1 hi with rfl | hi
    · simp [indicator, hn]
    · rw [ih ⟨i, hi, hn⟩]; simp

/-- if only the entry at `k0` has a non-vanishing monomial, evaluation picks its coefficient -/
theorem eval_single (x : Var → Rat) {r : Poly} (hn : (keys r).Nodup) {k0 : Key} {v0 : Rat}
    (hm : (k0, v0) ∈ r) (h1 : mon x k0 = 1) (h0 : ∀ kv ∈ r, kv.1 ≠ k0 → mon x kv.1 = 0) :
    eval x r = v0 := by
  induction r with
  | nil => cases hm
  | cons kv rest ih =>
    obtain ⟨k, v⟩ := kv
    simp only [keys, List.map_cons, List.nodup_cons] at hn
    rcases List.mem_cons.1 hm with heq | hm'
    · injection heq with hk hv; subst hk; subst hv
      have : eval x rest = 0 := by
        clear ih hm
        induction rest with
        | nil => rfl
        | cons kv2 rest2 ih2 =>
          obtain ⟨k2, v2⟩ := kv2
          simp only [List.map_cons, List.mem_cons, not_or, List.nodup_cons] at hn
          have hne : k2 ≠ k0 := fun e => hn.1.1 e.symm
          have hz := h0 (k2, v2) (List.mem_cons_of_mem _ List.mem_cons_self) hne
          simp only [eval_cons, hz, mul_zero, zero_add]
          exact ih2 ⟨hn.1.2, hn.2.2⟩ (fun kv hkv hne' =>
            h0 kv (by
              rcases List.mem_cons.1 hkv with h | h
              · exact h ▸ List.mem_cons_self
              · exact List.mem_cons_of_mem _ (List.mem_cons_of_mem _ h)) hne')
      simp [eval_cons, h1, this]
    · have hne : k ≠ k0 := fun e => hn.1 (e ▸ List.mem_map_of_mem (f := Prod.fst) hm')
      have hz := h0 (k, v) List.mem_cons_self hne
      simp only [eval_cons, hz, mul_zero, zero_add]
      exact ih hn.2 hm' (fun kv hkv => h0 kv (List.mem_cons_of_mem _ hkv))

/-- **a canonical boolean dict that vanishes on every boolean assignment is empty** -/
theorem wf_eq_nil_of_eval_zero {r : Poly} (hn : (keys r).Nodup) (hs : ∀ k ∈ keys r, SSorted k)
    (hnz : ∀ kv ∈ r, kv.2 ≠ 0) (h : ∀ x, IsBool x → eval x r = 0) : r = [] := by
  -- no entry of any key length can exist (strong induction on the length)
  have key : ∀ n, ∀ kv ∈ r, kv.1.length = n → False := by
    intro n
    induction n using Nat.strong_induction_on with
    | _ n ih =>
      intro kv hkv hlen
      obtain ⟨k0, v0⟩ := kv
      have hk0s : SSorted k0 := hs k0 (List.mem_map_of_mem (f := Prod.fst) hkv)
      have h1 : mon (indicator k0) k0 = 1 := mon_indicator_self k0 k0 (fun i hi => hi)
      have h0 : ∀ kv ∈ r, kv.1 ≠ k0 → mon (indicator k0) kv.1 = 0 := by
        intro kv' hkv' hne
        apply mon_indicator_zero
        by_contra hcon
        have hsub : ∀ i ∈ kv'.1, i ∈ k0 := by
          intro i hi
          by_contra hni
          exact hcon ⟨i, hi, hni⟩
        have hlen' : k0.length ≤ kv'.1.length := by
          by_contra hlt
          exact ih kv'.1.length (by simp only [] at hlen; omega) kv' hkv' rfl
        exact hne (ssorted_eq_of_subset (hs kv'.1 (List.mem_map_of_mem (f := Prod.fst) hkv')) hk0s hsub hlen')
      have := eval_single (indicator k0) hn hkv h1 h0
      rw [h _ (indicator_bool k0)] at this
      exact hnz (k0, v0) hkv this.symm
  cases r with
  | nil => rfl
  | cons kv rest => exact (key kv.1.length kv List.mem_cons_self rfl).elim

/-! ### coefficients of a difference -/

theorem get_eq_zero_of_not_mem {p : Poly} {k : Key} (h : k ∉ keys p) : get p k = 0 := by
  induction p with
  | nil => rfl
  | cons kv r ih =>
    obtain ⟨k', v⟩ := kv
    simp only [keys, List.map_cons, List.mem_cons, not_or] at h
    simp only [get]
    rw [if_neg (fun e => h.1 e.symm)]
    exact ih h.2

theorem mem_of_get_ne_zero {p : Poly} {k : Key} (h : get p k ≠ 0) : k ∈ keys p := by
  by_contra hn; exact h (get_eq_zero_of_not_mem hn)

theorem not_mem_keys_erase {p : Poly} (hn : (keys p).Nodup) (k : Key) : k ∉ keys (erase p k) := by
  induction p with
  | nil => simp [erase, keys]
  | cons kv r ih =>
    obtain ⟨k', v⟩ := kv
    simp only [keys, List.map_cons, List.nodup_cons] at hn
    unfold erase
    split
    · rename_i hk; subst hk; exact hn.1
    · rename_i hk
      simp only [keys, List.map_cons, List.mem_cons, not_or]
      exact ⟨fun e => hk e.symm, ih hn.2⟩

theorem get_set_eq {p : Poly} (hn : (keys p).Nodup) (k : Key) (v : Rat) : get (set p k v) k = v := by
  unfold set
  split
  · rename_i hv; subst hv
    exact get_eq_zero_of_not_mem (not_mem_keys_erase hn k)
  · exact get_put_eq p k v

/-- coefficient of `isubD p q` at a canonical key (pubo kind) -/
theorem get_isubD_pubo {q p r : Poly} (hp : WF (squash .pubo) p) (hq : WF (squash .pubo) q)
    (h : isubD (squash .pubo) p q = .ok r) {k : Key} (hk : squash .pubo k = .ok k) :
    get r k = get p k - get q k := by
  induction q generalizing p with
  | nil => simp [isubD] at h; subst h; simp [get]
  | cons kv rest ih =>
    obtain ⟨k1, v1⟩ := kv
    simp only [isubD, bind_ok_iff] at h
    obtain ⟨p1, h1, h2⟩ := h
    have hk1 : squash .pubo k1 = .ok k1 := hq.fixed k1 (by simp [keys])
    have hq' : WF (squash .pubo) rest :=
      ⟨(List.nodup_cons.1 hq.nodup).2, fun k' hk' => hq.fixed k' (List.mem_cons_of_mem _ hk'),
       fun kv hkv => hq.nonzero kv (List.mem_cons_of_mem _ hkv)⟩
    have hp1 : WF (squash .pubo) p1 := wf_addTerm (squash_idem .pubo) hp h1
    rw [ih hp1 hq' h2]
    unfold addTerm at h1
    simp [hk1, bind, Except.bind, pure, Except.pure] at h1
    subst h1
    by_cases hkk : k = k1
    · subst hkk
      have : get rest k = 0 := get_eq_zero_of_not_mem (List.nodup_cons.1 hq.nodup).1
      rw [get_set_eq hp.nodup, this]; simp [get]; ring
    · rw [get_set_ne p _ hkk]
      simp [get, Ne.symm hkk]

theorem isubD_pubo_ok (p q : Poly) : ∃ r, isubD (squash .pubo) p q = .ok r := by
  induction q generalizing p with
  | nil => exact ⟨p, rfl⟩
  | cons kv rest ih =>
    obtain ⟨k1, v1⟩ := kv
    have : ∃ p1, addTerm (squash .pubo) p k1 (-v1) = .ok p1 := by
      unfold addTerm squash
      simp [Kind.isSpin, Kind.isDeg2, bind, Except.bind, pure, Except.pure]
    obtain ⟨p1, h1⟩ := this
    obtain ⟨r, hr⟩ := ih p1
    exact ⟨r, by simp [isubD, h1, hr, bind, Except.bind]⟩

/-- **T5.4** two canonical boolean dicts that agree on every boolean assignment have equal coefficients -/
theorem coeff_eq_of_eval_eq {p q : Poly} (hp : WF (squash .pubo) p) (hq : WF (squash .pubo) q)
    (h : ∀ x, IsBool x → eval x p = eval x q) : ∀ k, get p k = get q k := by
  obtain ⟨r, hr⟩ := isubD_pubo_ok p q
  have wr : WF (squash .pubo) r := wf_isubD (squash_idem .pubo) hp hr
  have sorted_of_fixed : ∀ {k : Key}, squash .pubo k = .ok k → SSorted k := by
    intro k hk
    rcases squash_canon hk with h' | h'
    · cases h'
    · exact h'.1
  have hz : r = [] := by
    apply wf_eq_nil_of_eval_zero wr.nodup (fun k hk => sorted_of_fixed (wr.fixed k hk)) wr.nonzero
    intro x hx
    rw [eval_isubD (sqOK_bool rfl hx) hr, h x hx]; ring
  subst hz
  intro k
  by_cases hkp : k ∈ keys p
  · have := get_isubD_pubo hp hq hr (hp.fixed k hkp)
    simp [get] at this; linarith
  · by_cases hkq : k ∈ keys q
    · have := get_isubD_pubo hp hq hr (hq.fixed k hkq)
      simp [get] at this; linarith
    · rw [get_eq_zero_of_not_mem hkp, get_eq_zero_of_not_mem hkq]

end Qv
