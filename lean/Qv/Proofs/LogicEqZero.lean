import Qv.Proofs.Canon
import Qv.Model.Pcbo
import Mathlib.Tactic.NormNum
import Mathlib.Tactic.SplitIfs
import Mathlib.Tactic.Linarith
/-!
# L6.0 — correctness of `addEqZero` (`add_constraint_eq_zero`) including its shortcut

Local to C06 (namespace `Qv.Logic`): evaluation lemmas for the total boolean arithmetic of
`Qv.Model.BoolArith`, the analysis of `specialEq`, and the two facts the logic methods need:

* `addEqZero_point`  — pointwise: for `P` integer-valued at `x` with the bounds valid at `x`,
  the added terms vanish iff `P x = 0` and are `≥ lam` otherwise (all six branches + shortcut);
* `addEqZero_exact`  — with lower bound `0` valid everywhere and upper bound `> 0`, the added terms
  are exactly `lam * P` (the shortcut cannot fire): this is what makes
  `PCBO().add_constraint_OR(…)` usable as a polynomial.
-/
namespace Qv.Logic
open Qv

/-! ### evaluation of the total boolean arithmetic -/

section
variable {x : Var → Rat} (hx : IsBool x)
include hx

theorem eval_addTermB (p : Poly) (k : Key) (v : Rat) :
    eval x (addTermB p k v) = eval x p + v * mon x k := by
  unfold addTermB
  simp only []
  rw [eval_set, mon_squashB hx]; ring

theorem eval_iaddB (p q : Poly) : eval x (iaddB p q) = eval x p + eval x q := by
  unfold iaddB
  induction q generalizing p with
  | nil => simp
  | cons kv r ih =>
    simp only [List.foldl_cons]
    rw [ih, eval_addTermB hx, eval_cons]; ring

theorem eval_isubB (p q : Poly) : eval x (isubB p q) = eval x p - eval x q := by
  unfold isubB
  induction q generalizing p with
  | nil => simp
  | cons kv r ih =>
    simp only [List.foldl_cons]
    rw [ih, eval_addTermB hx, eval_cons]; ring

theorem eval_scaleFold (c : Rat) (q acc : Poly) :
    eval x (q.foldl (fun acc kv => addTermB acc kv.1 (c * kv.2)) acc) = eval x acc + c * eval x q := by
  induction q generalizing acc with
  | nil => simp
  | cons kv r ih =>
    simp only [List.foldl_cons]
    rw [ih, eval_addTermB hx, eval_cons]; ring

theorem eval_scaleB (c : Rat) (q : Poly) : eval x (scaleB c q) = c * eval x q := by
  unfold scaleB
  rw [eval_scaleFold hx]; simp

theorem eval_mulInner (k : Key) (v : Rat) (q acc : Poly) :
    eval x (q.foldl (fun acc2 kv2 => addTermB acc2 (k ++ kv2.1) (v * kv2.2)) acc)
      = eval x acc + v * mon x k * eval x q := by
  induction q generalizing acc with
  | nil => simp
  | cons kv r ih =>
    simp only [List.foldl_cons]
    rw [ih, eval_addTermB hx, eval_cons, mon_append]; ring

theorem eval_mulOuter (p q acc : Poly) :
    eval x (p.foldl (fun acc kv => q.foldl (fun acc2 kv2 => addTermB acc2 (kv.1 ++ kv2.1) (kv.2 * kv2.2)) acc) acc)
      = eval x acc + eval x p * eval x q := by
  induction p generalizing acc with
  | nil => simp
  | cons kv r ih =>
    simp only [List.foldl_cons]
    rw [ih, eval_mulInner hx, eval_cons]; ring

theorem eval_mulB (p q : Poly) : eval x (mulB p q) = eval x p * eval x q := by
  unfold mulB
  rw [eval_mulOuter hx]; simp

theorem eval_gadget (a b c : Var) :
    eval x (gadget a b c) = 3 * x a + x b * x c - 2 * (x a * x b) - 2 * (x a * x c) := by
  unfold gadget
  simp only [List.foldl_cons, List.foldl_nil, eval_addTermB hx, eval_nil, mon_cons, mon_nil]
  ring

end

/-! ### the gadget and integrality facts -/

/-- `3a + bc - 2ab - 2ac ∈ {0, 1, 3}` on booleans, and it is `0` exactly when `a = bc` -/
theorem gadget_fact {a b c : Rat} (ha : a = 0 ∨ a = 1) (hb : b = 0 ∨ b = 1) (hc : c = 0 ∨ c = 1) :
    (3 * a + b * c - 2 * (a * b) - 2 * (a * c) = 0 ∨ 3 * a + b * c - 2 * (a * b) - 2 * (a * c) = 1 ∨
      3 * a + b * c - 2 * (a * b) - 2 * (a * c) = 3) ∧
    (3 * a + b * c - 2 * (a * b) - 2 * (a * c) = 0 ↔ a = b * c) := by
  rcases ha with rfl | rfl <;> rcases hb with rfl | rfl <;> rcases hc with rfl | rfl <;> norm_num

/-- a non-negative integer is `0` or at least `1` -/
theorem int_nonneg_cases {r : Rat} (hz : ∃ z : Int, r = z) (h : 0 ≤ r) : r = 0 ∨ 1 ≤ r := by
  obtain ⟨z, rfl⟩ := hz
  have h' : (0 : Int) ≤ z := by exact_mod_cast h
  rcases (by omega : z = 0 ∨ 1 ≤ z) with h0 | h1
  · left; rw [h0]; simp
  · right; exact_mod_cast h1

/-- the square of a non-zero integer is at least `1` -/
theorem int_sq_cases {r : Rat} (hz : ∃ z : Int, r = z) : r = 0 ∨ 1 ≤ r * r := by
  obtain ⟨z, rfl⟩ := hz
  by_cases h0 : z = 0
  · left; simp [h0]
  · right
    have : (1 : Int) ≤ z * z := by
      rcases Int.lt_or_gt_of_ne h0 with h | h
      · nlinarith
      · nlinarith
    exact_mod_cast this

/-! ### frame: what `addEqZero` does to the other fields -/

theorem warn_terms (s : St) (sup : Bool) (w : String) : (s.warn sup w).terms = s.terms := by
  unfold St.warn; split <;> rfl
theorem tag_terms (s : St) (t : String) : (s.tag t).terms = s.terms := rfl
theorem plus_terms (s : St) (p : Poly) : (s.plus p).terms = iaddB s.terms p := rfl
theorem minus_terms (s : St) (p : Poly) : (s.minus p).terms = isubB s.terms p := rfl
theorem append_terms (s : St) (r : Rel) (p : Poly) : (s.append r p).terms = s.terms := rfl


theorem specialEq_frame {s s' : St} {P : Poly} {lam : Rat} (h : specialEq s P lam = some s') :
    s'.cons = s.cons ∧ s'.anc = s.anc := by
  unfold specialEq at h
  split at h
  · split at h
    · split at h <;> first | (injection h with h; subst h; exact ⟨rfl, rfl⟩) | cases h
    · cases h
  · cases h

theorem addEqZero_frame (s : St) (P : Poly) (lam : Rat) (b : Option Rat × Option Rat) (sup : Bool) :
    (addEqZero s P lam b sup).cons = s.cons ++ [(.eq, P)] ∧ (addEqZero s P lam b sup).anc = s.anc := by
  unfold addEqZero
  simp only []
  split
  · exact ⟨rfl, rfl⟩
  · split
    · rename_i s' hs
      have := specialEq_frame hs
      exact ⟨this.1.trans rfl, this.2.trans rfl⟩
    · cases sup <;> simp only [St.warn, St.tag, St.plus, St.minus, St.append] <;>
        (split_ifs <;> exact ⟨rfl, rfl⟩)

/-! ### the shortcut -/

theorem insertU_len (a : Var) (l : Key) : (insertU a l).length ≤ l.length + 1 := by
  induction l with
  | nil => simp [insertU]
  | cons b r ih => unfold insertU; split_ifs <;> simp <;> omega

theorem insertU_self_cons (a : Var) (l : Key) : insertU a (a :: l) = a :: l := by simp [insertU]

theorem insertU_idem (a : Var) (l : Key) : insertU a (insertU a l) = insertU a l := by
  induction l with
  | nil => simp [insertU]
  | cons b r ih =>
    by_cases h1 : a < b
    · simp [insertU, h1]
    · by_cases h2 : a = b
      · simp [insertU, h2]
      · simp [insertU, h1, h2, ih]

theorem insert3_distinct {a b c : Var} (h : (insertU c (insertU b (insertU a []))).length = 3) :
    a ≠ b ∧ a ≠ c ∧ b ≠ c := by
  have e0 : insertU a [] = [a] := rfl
  rw [e0] at h
  refine ⟨?_, ?_, ?_⟩
  · rintro rfl
    rw [insertU_self_cons] at h
    have := insertU_len c [a]
    simp at this; omega
  · rintro rfl
    by_cases hb : b < a
    · simp [insertU, hb] at h
      have : ¬ a < b := Nat.lt_asymm hb
      have h2 : ¬ a = b := fun e => Nat.lt_irrefl _ (e ▸ hb)
      simp [this] at h
    · by_cases h2 : b = a
      · simp [insertU, h2] at h
      · simp [insertU, hb, h2] at h
  · rintro rfl
    rw [insertU_idem] at h
    have := insertU_len b [a]
    simp at this; omega

/-- when the shortcut fires, `P = v * (a - b*c)` with `v ≠ 0`, `a` distinct from `b` and `c`, and the
terms added are `lam * gadget a b c` -/
theorem specialEq_some {s s' : St} {P : Poly} {lam : Rat} (hnz : ∀ kv ∈ P, kv.2 ≠ 0)
    (h : specialEq s P lam = some s') :
    ∃ a b c v, v ≠ 0 ∧ a ≠ b ∧ a ≠ c ∧ (∀ x : Var → Rat, eval x P = v * (x a - x b * x c)) ∧
      s'.terms = iaddB s.terms (scaleB lam (gadget a b c)) := by
  rcases P with _ | ⟨⟨k0, v0⟩, _ | ⟨⟨k1, v1⟩, _ | ⟨_, _⟩⟩⟩
  · simp [specialEq] at h
  · simp [specialEq] at h
  · simp only [specialEq] at h
    split_ifs at h with hc
    obtain ⟨_, hvars, hv⟩ := hc
    have hv0 : v0 ≠ 0 := hnz (k0, v0) (by simp)
    have hv1 : v1 ≠ 0 := hnz (k1, v1) (by simp)
    rcases k0 with _ | ⟨a0, _ | ⟨a1, _ | ⟨_, _⟩⟩⟩ <;> rcases k1 with _ | ⟨b0, _ | ⟨b1, _ | ⟨_, _⟩⟩⟩ <;>
      simp only [reduceCtorEq] at h
    · injection h with h; subst h
      have hd := insert3_distinct (a := a0) (b := b0) (c := b1) (by simpa [varsOf] using hvars)
      refine ⟨a0, b0, b1, v0, hv0, hd.1, hd.2.1, fun x => ?_, rfl⟩
      simp only [eval_cons, eval_nil, mon_cons, mon_nil]
      have : v1 = -v0 := by rw [hv]; ring
      rw [this]; ring
    · injection h with h; subst h
      have hd := insert3_distinct (a := a0) (b := a1) (c := b0) (by simpa [varsOf] using hvars)
      refine ⟨b0, a0, a1, v1, hv1, fun e => hd.2.1 e.symm, fun e => hd.2.2 e.symm, fun x => ?_, rfl⟩
      simp only [eval_cons, eval_nil, mon_cons, mon_nil, hv]
      ring
  · simp [specialEq] at h

/-! ### L6.0 -/

/-- **L6.0 (pointwise).**  `P` has no zero coefficient (it is a `PUBO`), `lam > 0`; at the boolean
assignment `x` the value `P x` is an integer within the bounds the constraint was declared with
(`getBounds` = the declared ones, or the computed ones where `None`).  Then the terms added by
`add_constraint_eq_zero` vanish at `x` iff `P x = 0`, and are at least `lam` otherwise — in the shortcut
branch and in each of the six bounds branches. -/
theorem addEqZero_point {s : St} {P : Poly} {lam : Rat} {b : Option Rat × Option Rat} {sup : Bool}
    {x : Var → Rat} (hx : IsBool x) (hnz : ∀ kv ∈ P, kv.2 ≠ 0) (hlam : 0 < lam)
    (hint : ∃ z : Int, eval x P = z)
    (hlo : (getBounds P b).1 ≤ eval x P) (hhi : eval x P ≤ (getBounds P b).2) :
    (eval x (addEqZero s P lam b sup).terms - eval x s.terms = 0 ↔ eval x P = 0) ∧
    (eval x P ≠ 0 → lam ≤ eval x (addEqZero s P lam b sup).terms - eval x s.terms) := by
  have hl : lam ≠ 0 := ne_of_gt hlam
  unfold addEqZero
  simp only [hl, if_false]
  split
  · rename_i s' hs
    obtain ⟨a, b', c, v, hv, _, _, hP, ht⟩ := specialEq_some hnz hs
    rw [ht, hP x]
    simp only [St.append, eval_iaddB hx, eval_scaleB hx, eval_gadget hx]
    obtain ⟨hg, hz⟩ := gadget_fact (hx a) (hx b') (hx c)
    have e1 : ∀ t : Rat, eval x s.terms + lam * t - eval x s.terms = lam * t := fun t => by ring
    rw [e1]
    have hP0 : v * (x a - x b' * x c) = 0 ↔ x a = x b' * x c := by
      rw [mul_eq_zero]; constructor
      · rintro (h | h); exact absurd h hv; linarith
      · intro h; right; linarith
    rw [hP0, ← hz]
    constructor
    · rw [mul_eq_zero]; constructor
      · rintro (h | h); exact absurd h hl; exact h
      · intro h; right; exact h
    · intro hne
      have hne : ¬ (3 * x a + x b' * x c - 2 * (x a * x b') - 2 * (x a * x c) = 0) :=
        fun h => hne (hP0.mpr (hz.mp h))
      rcases hg with h | h | h
      · exact absurd h hne
      · rw [h]; linarith
      · rw [h]; linarith
  · generalize getBounds P b = bd at hlo hhi
    obtain ⟨lo, hi⟩ := bd
    simp only [] at hlo hhi
    have e1 : ∀ t : Rat, eval x s.terms + t - eval x s.terms = t := fun t => by ring
    have e2 : ∀ t : Rat, eval x s.terms - t - eval x s.terms = -t := fun t => by ring
    have hmz : ∀ t : Rat, lam * t = 0 ↔ t = 0 := fun t => by
      rw [mul_eq_zero]; constructor
      · rintro (h | h); exact absurd h hl; exact h
      · intro h; right; exact h
    simp only []
    split_ifs with h1 h2 h3 h4 h5 <;>
      simp only [warn_terms, tag_terms, plus_terms, minus_terms, append_terms, eval_iaddB hx, eval_isubB hx,
        eval_scaleB hx, eval_mulB hx, e1, e2, sub_self]
    · -- always satisfied: lo = hi = 0
      obtain ⟨rfl, rfl⟩ := h1
      have : eval x P = 0 := le_antisymm hhi hlo
      exact ⟨⟨fun _ => this, fun _ => trivial⟩, fun h => absurd this h⟩
    · -- lo > 0
      have hp : 0 < eval x P := lt_of_lt_of_le h2 hlo
      rcases int_nonneg_cases hint (le_of_lt hp) with h0 | h1'
      · exact absurd h0 (ne_of_gt hp)
      · exact ⟨by rw [hmz], fun _ => by nlinarith⟩
    · -- hi < 0
      have hp : eval x P < 0 := lt_of_le_of_lt hhi h3
      have hint' : ∃ z : Int, -eval x P = z := by
        obtain ⟨z, hz⟩ := hint; exact ⟨-z, by rw [hz]; simp⟩
      rcases int_nonneg_cases hint' (by linarith) with h0 | h1'
      · exact absurd (by linarith) (ne_of_lt hp)
      · exact ⟨by rw [neg_eq_zero, hmz], fun _ => by nlinarith⟩
    · -- lo = 0
      subst h4
      rcases int_nonneg_cases hint hlo with h0 | h1'
      · exact ⟨by rw [hmz], fun h => absurd h0 h⟩
      · exact ⟨by rw [hmz], fun _ => by nlinarith⟩
    · -- hi = 0
      subst h5
      have hint' : ∃ z : Int, -eval x P = z := by
        obtain ⟨z, hz⟩ := hint; exact ⟨-z, by rw [hz]; simp⟩
      rcases int_nonneg_cases hint' (by linarith) with h0 | h1'
      · exact ⟨by rw [neg_eq_zero, hmz], fun h => absurd (by linarith) h⟩
      · exact ⟨by rw [neg_eq_zero, hmz], fun _ => by nlinarith⟩
    · -- squared
      rcases int_sq_cases hint with h0 | h1'
      · exact ⟨by rw [h0]; simp, fun h => absurd h0 h⟩
      · refine ⟨?_, fun _ => by nlinarith⟩
        rw [mul_eq_zero, hmz]
        constructor
        · rintro (h | h) <;> exact h
        · intro h; exact Or.inl h

/-- **L6.0 (exact form for the `(0, hi)` bounds).**  If `0` is a valid lower bound of `P` on all boolean
assignments and the declared upper bound is positive, the shortcut cannot fire and the added terms are
exactly `lam * P`. -/
theorem addEqZero_exact {s : St} {P : Poly} {lam hi : Rat} {sup : Bool}
    (hnz : ∀ kv ∈ P, kv.2 ≠ 0) (hl : lam ≠ 0) (hhi : 0 < hi)
    (hpos : ∀ y : Var → Rat, IsBool y → 0 ≤ eval y P) {x : Var → Rat} (hx : IsBool x) :
    eval x (addEqZero s P lam (some 0, some hi) sup).terms = eval x s.terms + lam * eval x P := by
  unfold addEqZero
  simp only [hl, if_false]
  split
  · rename_i s' hs
    exfalso
    obtain ⟨a, b', c, v, hv, hab, hac, hP, _⟩ := specialEq_some hnz hs
    have h1 := hpos (fun i => if i = a then 1 else 0) (by intro i; by_cases h : i = a <;> simp [h])
    have h2 := hpos (fun i => if i = a then 0 else 1) (by intro i; by_cases h : i = a <;> simp [h])
    rw [hP] at h1 h2
    simp [Ne.symm hab, Ne.symm hac] at h1 h2
    exact hv (le_antisymm h2 h1)
  · have hh : hi ≠ 0 := ne_of_gt hhi
    have hh2 : ¬ hi < 0 := not_lt.mpr (le_of_lt hhi)
    simp [getBounds, hh, hh2, tag_terms, plus_terms, append_terms, eval_iaddB hx, eval_scaleB hx]

end Qv.Logic
