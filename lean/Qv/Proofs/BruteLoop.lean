import Qv.Proofs.Brute
/-!
# Helper lemmas for C09, part 2: the `best` / `all_sols` loop (induction over the enumeration list)
-/
namespace Qv.Brute
open Qv

/-! ## `all_sols` -/

theorem lookupA_sdAppend_self (m : AllSols) (k : Option Rat) (x : Assign) :
    lookupA (sdAppend m k x) k = some ((lookupA m k).getD [] ++ [x]) := by
  induction m with
  | nil => simp [sdAppend, lookupA]
  | cons p r ih =>
    obtain ⟨k', l⟩ := p
    by_cases h : k' = k
    · simp [sdAppend, lookupA, h]
    · simp [sdAppend, lookupA, h, ih]

theorem lookupA_sdAppend_ne (m : AllSols) {k k' : Option Rat} (x : Assign) (hne : k' ≠ k) :
    lookupA (sdAppend m k x) k' = lookupA m k' := by
  induction m with
  | nil =>
    have : ¬ k = k' := fun e => hne e.symm
    simp [sdAppend, lookupA, this]
  | cons p r ih =>
    obtain ⟨k'', l⟩ := p
    by_cases h : k'' = k
    · subst h
      have : ¬ k'' = k' := fun e => hne e.symm
      simp [sdAppend, lookupA, this]
    · by_cases h' : k'' = k'
      · subst h'
        simp [sdAppend, lookupA, hne]
      · simp [sdAppend, lookupA, h, h', ih]

/-! ## the loop without exceptions -/

/-- the loop when `value(x, D)` is the total function `f` -/
def loop (f : Assign → Rat) (allS : Bool) (valid : Assign → Bool) : List Assign → St → St
  | [], st => st
  | x :: r, st => loop f allS valid r (if valid x then update allS st x (f x) else st)

theorem loopM_eq_loop {value : Assign → Except Err Rat} {f : Assign → Rat} {allS : Bool}
    {valid : Assign → Bool} (xs : List Assign) (st : St)
    (h : ∀ x ∈ xs, valid x = true → value x = .ok (f x)) :
    loopM value allS valid xs st = .ok (loop f allS valid xs st) := by
  induction xs generalizing st with
  | nil => rfl
  | cons x r ih =>
    have ihr := fun st => ih st (fun y hy => h y (List.mem_cons_of_mem _ hy))
    by_cases hv : valid x = true
    · simp [loopM, loop, hv, h x List.mem_cons_self hv, ihr, bind, Except.bind]
    · simp [loopM, loop, hv, ihr]

/-- The loop invariant.  `vs` = the valid assignments processed so far (in order). -/
structure Inv (f : Assign → Rat) (allS : Bool) (vs : List Assign) (st : St) : Prop where
  none_case : st.bestV = none → vs = [] ∧ st = St.init
  some_case : ∀ b, st.bestV = some b → st.bestX ∈ vs ∧ f st.bestX = b ∧ ∀ y ∈ vs, b ≤ f y
  all_case : allS = true → ∀ b, st.bestV = some b →
    lookupA st.allSols (some b) = some (vs.filter (fun y => decide (f y = b))) ∧
    ∀ w, w < b → lookupA st.allSols (some w) = none

theorem Inv.init (f : Assign → Rat) (allS : Bool) : Inv f allS [] St.init :=
  ⟨fun _ => ⟨rfl, rfl⟩, fun b h => by simp [St.init] at h, fun _ b h => by simp [St.init] at h⟩

theorem filter_append_singleton_pos {α : Type} (p : α → Bool) (l : List α) (x : α) (h : p x = true) :
    (l ++ [x]).filter p = l.filter p ++ [x] := by simp [List.filter_append, h]

theorem filter_append_singleton_neg {α : Type} (p : α → Bool) (l : List α) (x : α) (h : p x = false) :
    (l ++ [x]).filter p = l.filter p := by simp [List.filter_append, h]

/-- one iteration with a valid `x` keeps the invariant -/
theorem Inv.step {f : Assign → Rat} {allS : Bool} {vs : List Assign} {st : St}
    (I : Inv f allS vs st) (x : Assign) : Inv f allS (vs ++ [x]) (update allS st x (f x)) := by
  cases hb : st.bestV with
  | none =>
    obtain ⟨hvs, hst⟩ := I.none_case hb
    subst hvs; subst hst
    cases allS with
    | true =>
      have hu : update true St.init x (f x) = ⟨some (f x), x, sdAppend St.init.allSols (some (f x)) x⟩ := by
        simp [update, St.init, leBest]
      rw [hu]
      refine ⟨fun h => by simp at h, ?_, ?_⟩
      · intro b h
        simp only [Option.some.injEq] at h
        subst h
        simp
      · intro _ b h
        simp only [Option.some.injEq] at h
        subst h
        refine ⟨?_, ?_⟩
        · rw [lookupA_sdAppend_self]; simp [St.init, lookupA]
        · intro w hw
          rw [lookupA_sdAppend_ne _ _ (by intro e; injection e with e; exact absurd e (ne_of_lt hw))]
          simp [St.init, lookupA]
    | false =>
      have hu : update false St.init x (f x) = ⟨some (f x), x, St.init.allSols⟩ := by
        simp [update, St.init, ltBest]
      rw [hu]
      refine ⟨fun h => by simp at h, ?_, fun h => by simp at h⟩
      intro b h
      simp only [Option.some.injEq] at h
      subst h
      simp
  | some b =>
    obtain ⟨hmem, hfb, hmin⟩ := I.some_case b hb
    cases allS with
    | true =>
      obtain ⟨hL1, hL2⟩ := I.all_case rfl b hb
      by_cases hle : f x ≤ b
      · have hu : update true st x (f x) = ⟨some (f x), x, sdAppend st.allSols (some (f x)) x⟩ := by
          simp [update, hb, leBest, hle]
        rw [hu]
        refine ⟨fun h => by simp at h, ?_, ?_⟩
        · intro b' h
          simp only [Option.some.injEq] at h
          subst h
          refine ⟨by simp, rfl, ?_⟩
          intro y hy
          rcases List.mem_append.mp hy with hy | hy
          · exact le_trans hle (hmin y hy)
          · simp only [List.mem_singleton] at hy; subst hy; exact le_refl _
        · intro _ b' h
          simp only [Option.some.injEq] at h
          subst h
          rcases lt_or_eq_of_le hle with hlt | heq
          · -- a new, strictly smaller value: its list starts here
            refine ⟨?_, ?_⟩
            · rw [lookupA_sdAppend_self, hL2 _ hlt]
              rw [filter_append_singleton_pos _ _ _ (by simp)]
              have : vs.filter (fun y => decide (f y = f x)) = [] := by
                rw [List.filter_eq_nil_iff]
                intro y hy
                have := hmin y hy
                simp only [decide_eq_true_eq]
                intro e
                rw [e] at this
                exact absurd hlt (not_lt.mpr this)
              simp [this]
            · intro w hw
              rw [lookupA_sdAppend_ne _ _ (by intro e; injection e with e; exact absurd e (ne_of_lt hw))]
              exact hL2 w (lt_trans hw hlt)
          · -- a tie with the current best: appended to its list
            refine ⟨?_, ?_⟩
            · rw [lookupA_sdAppend_self, heq, hL1]
              rw [filter_append_singleton_pos _ _ _ (by simp [heq])]
              simp
            · intro w hw
              rw [lookupA_sdAppend_ne _ _ (by intro e; injection e with e; exact absurd e (ne_of_lt hw))]
              exact hL2 w (heq ▸ hw)
      · have hlt : b < f x := not_le.mp hle
        have hu : update true st x (f x) = st := by
          simp [update, hb, leBest, ltBest, hle, not_lt.mpr (le_of_lt hlt)]
        rw [hu]
        refine ⟨fun h => by simp [hb] at h, ?_, ?_⟩
        · intro b' h
          rw [hb] at h; simp only [Option.some.injEq] at h; subst h
          refine ⟨List.mem_append_left _ hmem, hfb, ?_⟩
          intro y hy
          rcases List.mem_append.mp hy with hy | hy
          · exact hmin y hy
          · simp only [List.mem_singleton] at hy; subst hy; exact le_of_lt hlt
        · intro _ b' h
          rw [hb] at h; simp only [Option.some.injEq] at h; subst h
          refine ⟨?_, hL2⟩
          rw [filter_append_singleton_neg _ _ _ (by simp [ne_of_gt hlt])]
          exact hL1
    | false =>
      by_cases hlt : f x < b
      · have hu : update false st x (f x) = ⟨some (f x), x, st.allSols⟩ := by
          simp [update, hb, ltBest, hlt]
        rw [hu]
        refine ⟨fun h => by simp at h, ?_, fun h => by simp at h⟩
        intro b' h
        simp only [Option.some.injEq] at h
        subst h
        refine ⟨by simp, rfl, ?_⟩
        intro y hy
        rcases List.mem_append.mp hy with hy | hy
        · exact le_trans (le_of_lt hlt) (hmin y hy)
        · simp only [List.mem_singleton] at hy; subst hy; exact le_refl _
      · have hu : update false st x (f x) = st := by
          simp [update, hb, ltBest, hlt]
        rw [hu]
        refine ⟨fun h => by simp [hb] at h, ?_, fun h => by simp at h⟩
        intro b' h
        rw [hb] at h; simp only [Option.some.injEq] at h; subst h
        refine ⟨List.mem_append_left _ hmem, hfb, ?_⟩
        intro y hy
        rcases List.mem_append.mp hy with hy | hy
        · exact hmin y hy
        · simp only [List.mem_singleton] at hy; subst hy; exact not_lt.mp hlt

/-- the invariant after the whole loop: induction over the enumeration list -/
theorem loop_inv {f : Assign → Rat} {allS : Bool} {valid : Assign → Bool} (xs : List Assign)
    {vs : List Assign} {st : St} (I : Inv f allS vs st) :
    Inv f allS (vs ++ xs.filter valid) (loop f allS valid xs st) := by
  induction xs generalizing vs st with
  | nil => simpa [loop] using I
  | cons x r ih =>
    by_cases hv : valid x = true
    · have := ih (I.step x)
      simpa [loop, hv, List.filter_cons, List.append_assoc] using this
    · have := ih I
      simpa [loop, hv, List.filter_cons] using this

end Qv.Brute
