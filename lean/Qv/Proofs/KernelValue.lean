import Qv.Proofs.Kernel
import Mathlib.Algebra.BigOperators.Group.Finset.Basic
import Mathlib.Algebra.BigOperators.Group.Finset.Piecewise
import Mathlib.Tactic.NormNum
/-!
# The C value functions compute the model's value (T11.3)

`quso_value` on the arrays produced by the flattening loop of `anneal_quso` equals `eval` of the Matrix
model minus its offset; likewise `puso_value` on the arrays of `anneal_puso`.
-/
namespace Qv.Kernel
open Qv Qv.Anneal

@[simp] theorem ofInt_rat (i : Int) : (ofInt i : Rat) = (i : Rat) := rfl

/-- the assignment a C state array denotes -/
def assign (s : List Int) : Var → Rat := fun i => ((s.getD i 0 : Int) : Rat)

/-! ## loops as sums / folds -/

theorem forFrom_congr {σ : Type} (f g : Nat → σ → σ) :
    ∀ k a s, (∀ j, a ≤ j → j < a + k → ∀ s, f j s = g j s) → forFrom f a k s = forFrom g a k s
  | 0, _, _, _ => rfl
  | k + 1, a, s, h => by
    simp only [forFrom]
    rw [h a (Nat.le_refl a) (by omega) s]
    exact forFrom_congr f g k (a + 1) _ (fun j hj hj' => h j (by omega) (by omega))

theorem forFrom_sum (g : Nat → Rat) : ∀ k a v,
    forFrom (fun i v => v + g i) a k v = v + ∑ i ∈ Finset.range k, g (a + i)
  | 0, _, _ => by simp [forFrom]
  | k + 1, a, v => by
    simp only [forFrom]
    rw [forFrom_sum g k (a + 1) (v + g a), Finset.sum_range_succ']
    have : ∀ i, g (a + 1 + i) = g (a + (i + 1)) := fun i => by rw [Nat.add_assoc, Nat.add_comm 1 i]
    simp only [this, Nat.add_zero]
    ring

/-- a counted loop reading the `j`-th element of a list is the fold over the list -/
theorem forFrom_eq_foldl {β σ : Type} (d : β) (G : Nat → σ → σ) (F : β → σ → σ) :
    ∀ (L : List β) (a : Nat) (e : σ), (∀ j, j < L.length → ∀ e, G (a + j) e = F (L.getD j d) e) →
      forFrom G a L.length e = L.foldl (fun e x => F x e) e
  | [], _, _, _ => rfl
  | x :: L, a, e, h => by
    simp only [List.length_cons, forFrom, List.foldl_cons]
    have h0 := h 0 (by simp) e
    simp only [Nat.add_zero, List.getD_cons_zero] at h0
    rw [h0]
    apply forFrom_eq_foldl d G F L (a + 1)
    intro j hj e
    have := h (j + 1) (by simp; omega) e
    simp only [List.getD_cons_succ] at this
    rw [← this]; congr 1; omega

/-! ## segments of a flattened list of lists -/

theorem getD_append_left' {β : Type} (l r : List β) (j : Nat) (d : β) (h : j < l.length) :
    (l ++ r).getD j d = l.getD j d := by
  simp [List.getD, List.getElem?_append_left h]

theorem getD_append_right' {β : Type} (l r : List β) (j : Nat) (d : β) :
    (l ++ r).getD (l.length + j) d = r.getD j d := by
  simp [List.getD, List.getElem?_append_right (Nat.le_add_right l.length j)]

/-- `index[i] + j` addresses the `j`-th entry of the `i`-th segment -/
theorem segment {β : Type} (d : β) : ∀ (adj : List (List β)) (acc i j : Nat),
    i < adj.length → j < (adj.getD i []).length →
    ∃ off, (prefixSums (adj.map List.length) acc).getD i 0 = acc + off ∧
      adj.flatten.getD (off + j) d = (adj.getD i []).getD j d
  | [], _, _, _, hi, _ => by simp at hi
  | a :: r, acc, 0, j, _, hj => by
    refine ⟨0, by simp [prefixSums], ?_⟩
    simp only [List.getD_cons_zero] at hj
    simp only [List.flatten_cons, Nat.zero_add, List.getD_cons_zero]
    exact getD_append_left' a _ j d hj
  | a :: r, acc, i + 1, j, hi, hj => by
    simp only [List.getD_cons_succ] at hj
    obtain ⟨off, h1, h2⟩ := segment d r (acc + a.length) i j (by simpa using hi) hj
    refine ⟨a.length + off, ?_, ?_⟩
    · simp only [List.map_cons, prefixSums, List.getD_cons_succ, h1]; omega
    · simp only [List.flatten_cons, List.getD_cons_succ]
      rw [Nat.add_assoc, getD_append_right', h2]

theorem getD_map' {β γ : Type} (f : β → γ) (l : List β) (n : Nat) (d : β) :
    (l.map f).getD n (f d) = f (l.getD n d) := by
  simp only [List.getD, List.getElem?_map]
  cases l[n]? <;> rfl

/-! ## quso_value -/

/-- contribution of the adjacency list of spin `i` that `quso_value` keeps (`neighbor >= i`) -/
def rowSum (σ : Var → Rat) (i : Nat) (L : List (Nat × Rat)) : Rat :=
  (L.map (fun p => if p.1 ≥ i then p.2 * σ p.1 else 0)).sum

theorem foldl_rowSum (σ : Var → Rat) (i : Nat) : ∀ (L : List (Nat × Rat)) (e : Rat),
    L.foldl (fun e p => if p.1 ≥ i then e + p.2 * σ p.1 else e) e = e + rowSum σ i L
  | [], e => by simp [rowSum]
  | p :: L, e => by
    simp only [List.foldl_cons, rowSum, List.map_cons, List.sum_cons]
    rw [foldl_rowSum σ i L]
    simp only [rowSum]
    split <;> ring

/-- what `quso_value` computes, as a sum over spins -/
def qusoSpec (σ : Var → Rat) (N : Nat) (h : List Rat) (adj : List (List (Nat × Rat))) : Rat :=
  ∑ i ∈ Finset.range N, σ i * (h.getD i 0 + rowSum σ i (adj.getD i []))

theorem qusoValueC_eq_spec (N : Nat) (h : List Rat) (adj : List (List (Nat × Rat))) (hadj : adj.length = N)
    (s : List Int) :
    qusoValueC (qusoArgs (fun v => v) h adj) (mkIndex (adj.map List.length)) N s = qusoSpec (assign s) N h adj := by
  unfold qusoValueC qusoSpec forN
  have key : ∀ i, 0 ≤ i → i < 0 + N → ∀ value : Rat,
      (fun i value =>
        value + ofInt (s.getD i 0) *
          forFrom (fun j e =>
            if (qusoArgs (fun v => v) h adj).nb.getD ((mkIndex (adj.map List.length)).getD i 0 + j) 0 ≥ i then
              e + (qusoArgs (fun v => v) h adj).J.getD ((mkIndex (adj.map List.length)).getD i 0 + j) (ofInt 0) *
                ofInt (s.getD ((qusoArgs (fun v => v) h adj).nb.getD ((mkIndex (adj.map List.length)).getD i 0 + j) 0) 0)
            else e) 0 ((qusoArgs (fun v => v) h adj).nn.getD i 0) ((qusoArgs (fun v => v) h adj).h.getD i (ofInt 0)))
        i value =
      (fun i value => value + assign s i * (h.getD i 0 + rowSum (assign s) i (adj.getD i []))) i value := by
    intro i _ hi value
    have hi' : i < adj.length := by omega
    simp only [qusoArgs, ofInt_rat, Int.cast_zero, List.map_id']
    have hnn : (adj.map List.length).getD i 0 = (adj.getD i []).length := by
      have := getD_map' List.length adj i []
      simpa using this
    rw [hnn]
    rw [forFrom_eq_foldl (0, (0 : Rat))
      (fun j e => if (adj.flatten.map Prod.fst).getD ((mkIndex (adj.map List.length)).getD i 0 + j) 0 ≥ i then
              e + (adj.flatten.map (fun p => p.2)).getD ((mkIndex (adj.map List.length)).getD i 0 + j) 0 *
                ((s.getD ((adj.flatten.map Prod.fst).getD ((mkIndex (adj.map List.length)).getD i 0 + j) 0) 0 : Int) : Rat)
            else e)
      (fun p e => if p.1 ≥ i then e + p.2 * assign s p.1 else e) (adj.getD i []) 0]
    · rw [foldl_rowSum]; rfl
    · intro j hj e
      obtain ⟨off, h1, h2⟩ := segment (0, (0 : Rat)) adj 0 i j hi' hj
      simp only [Nat.zero_add] at h1 ⊢
      have hidx : (mkIndex (adj.map List.length)).getD i 0 = off := by simpa [mkIndex] using h1
      rw [hidx]
      have e1 : (adj.flatten.map Prod.fst).getD (off + j) 0 = ((adj.getD i []).getD j (0, 0)).1 := by
        have := getD_map' Prod.fst adj.flatten (off + j) (0, (0 : Rat))
        rw [h2] at this; simpa using this
      have e2 : (adj.flatten.map (fun p => p.2)).getD (off + j) 0 = ((adj.getD i []).getD j (0, 0)).2 := by
        have := getD_map' (fun p : Nat × Rat => p.2) adj.flatten (off + j) (0, (0 : Rat))
        rw [h2] at this; simpa using this
      rw [e1, e2]; rfl
  rw [forFrom_congr _ _ N 0 _ key, forFrom_sum]
  simp

/-! ## the flattening loop of `anneal_quso` -/

theorem getD_set_self' {β : Type} (l : List β) (i : Nat) (a d : β) (h : i < l.length) :
    (l.set i a).getD i d = a := by
  simp [List.getD, List.getElem?_set_self h]

theorem getD_set_ne' {β : Type} (l : List β) (i j : Nat) (a d : β) (h : i ≠ j) :
    (l.set i a).getD j d = l.getD j d := by
  simp [List.getD, List.getElem?_set_ne h]

theorem sum_point (N a : Nat) (ha : a < N) (f g : Nat → Rat) (h : ∀ i, i ≠ a → g i = f i) :
    ∑ i ∈ Finset.range N, g i = ∑ i ∈ Finset.range N, f i + (g a - f a) := by
  have : ∀ i ∈ Finset.range N, g i = f i + (if i = a then g a - f a else 0) := by
    intro i _
    by_cases hi : i = a
    · subst hi; simp
    · simp [hi, h i hi]
  rw [Finset.sum_congr rfl this, Finset.sum_add_distrib, Finset.sum_ite_eq']
  simp [ha]

theorem rowSum_append_single (σ : Var → Rat) (i : Nat) (L : List (Nat × Rat)) (p : Nat × Rat) :
    rowSum σ i (L ++ [p]) = rowSum σ i L + (if p.1 ≥ i then p.2 * σ p.1 else 0) := by
  simp [rowSum]

theorem qusoSpec_set_h (σ : Var → Rat) (N : Nat) (h : List Rat) (adj : List (List (Nat × Rat)))
    (a : Nat) (v : Rat) (ha : a < N) (hl : h.length = N) :
    qusoSpec σ N (h.set a v) adj = qusoSpec σ N h adj + σ a * (v - h.getD a 0) := by
  unfold qusoSpec
  rw [sum_point N a ha (fun i => σ i * (h.getD i 0 + rowSum σ i (adj.getD i [])))
    (fun i => σ i * ((h.set a v).getD i 0 + rowSum σ i (adj.getD i [])))
    (fun i hi => by simp only [getD_set_ne' h a i v 0 (Ne.symm hi)])]
  simp only [getD_set_self' h a v 0 (by omega)]
  ring

theorem qusoSpec_set_adj (σ : Var → Rat) (N : Nat) (h : List Rat) (adj : List (List (Nat × Rat)))
    (a : Nat) (p : Nat × Rat) (ha : a < N) (hl : adj.length = N) :
    qusoSpec σ N h (adj.set a (adj.getD a [] ++ [p])) =
      qusoSpec σ N h adj + σ a * (if p.1 ≥ a then p.2 * σ p.1 else 0) := by
  unfold qusoSpec
  rw [sum_point N a ha (fun i => σ i * (h.getD i 0 + rowSum σ i (adj.getD i [])))
    (fun i => σ i * (h.getD i 0 + rowSum σ i ((adj.set a (adj.getD a [] ++ [p])).getD i [])))
    (fun i hi => by simp only [getD_set_ne' adj a i _ [] (Ne.symm hi)])]
  simp only [getD_set_self' adj a _ [] (by omega), rowSum_append_single]
  ring

/-- value of the non-constant terms -/
def evalNE (x : Var → Rat) (p : Poly) : Rat := eval x (p.filter (fun kv => !kv.1.isEmpty))

/-- one iteration of the loop over `model.items()` in `anneal_quso` -/
def qstep (N : Nat) (s : List Rat × List (List (Nat × Rat))) (kv : Key × Rat) :
    Except Err (List Rat × List (List (Nat × Rat))) :=
  match kv.1 with
  | [a] => if a < N then .ok (s.1.set a kv.2, s.2) else .error .index
  | [i, j] =>
    if i < N ∧ j < N then
      let adj := s.2.set i (s.2.getD i [] ++ [(j, kv.2)])
      let adj := adj.set j (adj.getD j [] ++ [(i, kv.2)])
      .ok (s.1, adj)
    else .error .index
  | _ => .ok s

theorem flattenQuso_eq (N : Nat) (model : Poly) :
    flattenQuso N model = model.foldlM (qstep N) (List.replicate N 0, List.replicate N []) := rfl

theorem qstep_fold (σ : Var → Rat) (N : Nat) : ∀ (items : Poly) (h : List Rat) (adj : List (List (Nat × Rat)))
    (h' : List Rat) (adj' : List (List (Nat × Rat))),
    h.length = N → adj.length = N → (keys items).Nodup →
    (∀ kv ∈ items, SSorted kv.1 ∧ kv.1.length ≤ 2) →
    (∀ a, [a] ∈ keys items → h.getD a 0 = 0) →
    items.foldlM (qstep N) (h, adj) = .ok (h', adj') →
    qusoSpec σ N h' adj' = qusoSpec σ N h adj + evalNE σ items
  | [], h, adj, h', adj', _, _, _, _, _, hf => by
    simp only [List.foldlM_nil, pure, Except.pure] at hf
    injection hf with hf; injection hf with h1 h2; subst h1; subst h2
    simp [evalNE]
  | (k, v) :: rest, h, adj, h', adj', hl, hal, hd, hk, hz, hf => by
    simp only [List.foldlM_cons, bind_ok_iff] at hf
    obtain ⟨⟨h1, adj1⟩, hs, hf⟩ := hf
    have hd' : (keys rest).Nodup := by
      simp only [keys, List.map_cons, List.nodup_cons] at hd; exact hd.2
    have hnot : k ∉ keys rest := by
      simp only [keys, List.map_cons, List.nodup_cons] at hd; exact hd.1
    have hk' : ∀ kv ∈ rest, SSorted kv.1 ∧ kv.1.length ≤ 2 := fun kv hkv => hk kv (List.mem_cons_of_mem _ hkv)
    have hkk := hk (k, v) (List.mem_cons_self)
    match k, hkk, hs, hnot, hz with
    | [], _, hs, _, hz =>
      simp only [qstep] at hs
      injection hs with hs; injection hs with e1 e2; subst e1; subst e2
      rw [qstep_fold σ N rest h adj h' adj' hl hal hd' hk'
        (fun a ha => hz a (by simp only [keys, List.map_cons] at ha ⊢; exact List.mem_cons_of_mem _ ha)) hf]
      simp [evalNE]
    | [a], _, hs, hnot, hz =>
      simp only [qstep] at hs
      split at hs
      · rename_i haN
        injection hs with hs; injection hs with e1 e2; subst e1; subst e2
        have hza : h.getD a 0 = 0 := hz a (by simp [keys])
        rw [qstep_fold σ N rest (h.set a v) adj h' adj' (by simp [hl]) hal hd' hk'
          (fun b hb => by
            have hne : a ≠ b := fun e => hnot (e ▸ hb)
            rw [getD_set_ne' h a b v 0 hne]
            exact hz b (by simp only [keys, List.map_cons] at hb ⊢; exact List.mem_cons_of_mem _ hb)) hf,
          qusoSpec_set_h σ N h adj a v haN hl, hza]
        simp [evalNE]; ring
      · cases hs
    | [i, j], hkk, hs, _, hz =>
      simp only [qstep] at hs
      split at hs
      · rename_i hij
        injection hs with hs; injection hs with e1 e2; subst e1; subst e2
        have hlt : i < j := hkk.1.1
        have hne : i ≠ j := Nat.ne_of_lt hlt
        rw [qstep_fold σ N rest h _ h' adj' hl (by simp [hal]) hd' hk'
          (fun a ha => hz a (by simp only [keys, List.map_cons] at ha ⊢; exact List.mem_cons_of_mem _ ha)) hf,
          qusoSpec_set_adj σ N h _ j (i, v) hij.2 (by simp [hal]),
          qusoSpec_set_adj σ N h adj i (j, v) hij.1 hal]
        have h1 : ¬ (i ≥ j) := Nat.not_le.mpr hlt
        have h2 : j ≥ i := Nat.le_of_lt hlt
        simp [evalNE, h1, h2]; ring
      · cases hs
    | _ :: _ :: _ :: _, hkk, _, _, _ =>
      exfalso
      have := hkk.2
      simp at this

theorem eval_split_offset (x : Var → Rat) : ∀ (p : Poly), (keys p).Nodup →
    eval x p = get p [] + evalNE x p
  | [], _ => by simp [evalNE, get]
  | (k, v) :: r, hd => by
    have hd' : (keys r).Nodup := by
      simp only [keys, List.map_cons, List.nodup_cons] at hd; exact hd.2
    have hnot : k ∉ keys r := by
      simp only [keys, List.map_cons, List.nodup_cons] at hd; exact hd.1
    have ih := eval_split_offset x r hd'
    cases k with
    | nil =>
      have hg : get r [] = 0 := by
        clear ih hd hd'
        induction r with
        | nil => rfl
        | cons kv r ihr =>
          obtain ⟨k', v'⟩ := kv
          simp only [keys, List.map_cons, List.mem_cons, not_or] at hnot
          simp only [get]
          rw [if_neg (fun e => hnot.1 e.symm)]
          exact ihr hnot.2
      simp only [evalNE, eval_cons, mon_nil, get] at ih ⊢
      simp only [List.filter_cons, List.isEmpty_nil, Bool.not_true, if_true]
      simp [ih, hg]
    | cons a k' =>
      simp only [evalNE, eval_cons, get] at ih ⊢
      simp [ih]; ring

theorem qusoSpec_init (σ : Var → Rat) (N : Nat) :
    qusoSpec σ N (List.replicate N 0) (List.replicate N []) = 0 := by
  unfold qusoSpec
  apply Finset.sum_eq_zero
  intro i _
  have h1 : (List.replicate N (0 : Rat)).getD i 0 = 0 := by
    simp only [List.getD, List.getElem?_replicate]; split <;> rfl
  have h2 : (List.replicate N ([] : List (Nat × Rat))).getD i [] = [] := by
    simp only [List.getD, List.getElem?_replicate]; split <;> rfl
  rw [h1, h2]; simp [rowSum]

/-- **the flattened arrays carry the model**: `quso_value` on them is `eval - offset` -/
theorem flattenQuso_value (N : Nat) (model : Poly) (h : List Rat) (adj : List (List (Nat × Rat)))
    (hflat : flattenQuso N model = .ok (h, adj)) (hd : (keys model).Nodup)
    (hk : ∀ kv ∈ model, SSorted kv.1 ∧ kv.1.length ≤ 2) (s : List Int) :
    qusoValueC (qusoArgs (fun v => v) h adj) (mkIndex (adj.map List.length)) N s =
      eval (assign s) model - get model [] := by
  rw [flattenQuso_eq] at hflat
  have hlen : ∀ (items : Poly) (h0 : List Rat) (a0 : List (List (Nat × Rat))) h1 a1,
      a0.length = N → items.foldlM (qstep N) (h0, a0) = .ok (h1, a1) → a1.length = N := by
    intro items
    induction items with
    | nil =>
      intro h0 a0 h1 a1 hl hf
      simp only [List.foldlM_nil, pure, Except.pure] at hf
      injection hf with hf; injection hf with e1 e2; subst e2; exact hl
    | cons kv rest ih =>
      intro h0 a0 h1 a1 hl hf
      simp only [List.foldlM_cons, bind_ok_iff] at hf
      obtain ⟨⟨h2, a2⟩, hs, hf⟩ := hf
      refine ih h2 a2 h1 a1 ?_ hf
      unfold qstep at hs
      split at hs
      · split at hs
        · injection hs with hs; injection hs with e1 e2; subst e2; exact hl
        · cases hs
      · split at hs
        · injection hs with hs; injection hs with e1 e2; subst e2; simp [hl]
        · cases hs
      · injection hs with hs; injection hs with e1 e2; subst e2; exact hl
  have hadj := hlen model _ _ h adj (by simp) hflat
  rw [qusoValueC_eq_spec N h adj hadj s,
    qstep_fold (assign s) N model _ _ h adj (by simp) (by simp) hd hk
      (fun a _ => by simp only [List.getD, List.getElem?_replicate]; split <;> rfl) hflat,
    qusoSpec_init, eval_split_offset (assign s) model hd]
  ring

/-! ## puso_value and the flattening loop of `anneal_puso` -/

/-- the C `int` product of the spins of a term -/
def iprod (s : List Int) : Key → Int
  | [] => 1
  | i :: k => s.getD i 0 * iprod s k

theorem iprod_cast (s : List Int) : ∀ k : Key, ((iprod s k : Int) : Rat) = mon (assign s) k
  | [] => by simp [iprod]
  | i :: k => by simp [iprod, assign, iprod_cast s k]

/-- the inner loop of `puso_value` walks through one term of the flat `terms` array -/
theorem puso_inner (s : List Int) : ∀ (k : Key) (pre post : List Nat) (a : Nat) (acc : Int),
    forFrom (fun _ (t : Nat × Int) => (t.1 + 1, t.2 * s.getD ((pre ++ k ++ post).getD t.1 0) 0)) a k.length
      (pre.length, acc) = (pre.length + k.length, acc * iprod s k)
  | [], pre, post, a, acc => by simp [forFrom, iprod]
  | x :: k, pre, post, a, acc => by
    simp only [List.length_cons, forFrom]
    have hx : (pre ++ x :: k ++ post).getD pre.length 0 = x := by
      have := getD_append_right' pre (x :: k ++ post) 0 0
      simpa using this
    rw [hx]
    have e : pre ++ x :: k ++ post = (pre ++ [x]) ++ k ++ post := by simp
    have := puso_inner s k (pre ++ [x]) post (a + 1) (acc * s.getD x 0)
    simp only [List.length_append, List.length_cons, List.length_nil, Nat.zero_add] at this
    rw [e, this]
    simp only [iprod]
    refine Prod.ext (by simp; omega) (by simp; ring)

/-- the outer loop of `puso_value` on the arrays of a term list -/
theorem puso_outer (s : List Int) : ∀ (items : Poly) (preN : List Nat) (preT : List Nat) (preC : List Rat)
    (val : Rat), preN.length = preC.length →
    forFrom (fun term (st : Nat × Rat) =>
        let r := forFrom (fun _ (t : Nat × Int) =>
            (t.1 + 1, t.2 * s.getD ((preT ++ (items.map Prod.fst).flatten).getD t.1 0) 0)) 0
          ((preN ++ items.map (fun kv => kv.1.length)).getD term 0) (st.1, (1 : Int))
        (r.1, st.2 + (preC ++ items.map Prod.snd).getD term 0 * ((r.2 : Int) : Rat)))
      preN.length items.length (preT.length, val) =
    (preT.length + ((items.map Prod.fst).flatten).length, val + eval (assign s) items)
  | [], preN, preT, preC, val, _ => by simp [forFrom]
  | (k, v) :: rest, preN, preT, preC, val, hl => by
    simp only [List.length_cons, forFrom, List.map_cons, List.flatten_cons]
    have h1 : (preN ++ k.length :: rest.map (fun kv => kv.1.length)).getD preN.length 0 = k.length := by
      have := getD_append_right' preN (k.length :: rest.map (fun kv => kv.1.length)) 0 0
      simpa using this
    have h2 : (preC ++ v :: rest.map Prod.snd).getD preN.length 0 = v := by
      have := getD_append_right' preC (v :: rest.map Prod.snd) 0 0
      rw [hl]; simpa using this
    rw [h1, h2]
    have hin := puso_inner s k preT ((rest.map Prod.fst).flatten) 0 1
    have e0 : preT ++ (k ++ (rest.map Prod.fst).flatten) = preT ++ k ++ (rest.map Prod.fst).flatten := by simp
    rw [e0, hin]
    have ih := puso_outer s rest (preN ++ [k.length]) (preT ++ k) (preC ++ [v])
      (val + v * ((1 * iprod s k : Int) : Rat)) (by simp [hl])
    simp only [List.length_append, List.length_cons, List.length_nil, Nat.zero_add, List.append_assoc,
      List.singleton_append] at ih
    simp only [List.append_assoc]
    rw [ih]
    refine Prod.ext (by simp; omega) ?_
    simp only [eval_cons, one_mul, iprod_cast]
    ring

/-- **`puso_value` on the arrays of `anneal_puso` is `eval - offset`** -/
theorem flattenPuso_value (model : Poly) (hd : (keys model).Nodup) (s : List Int) :
    pusoValueC (flattenPuso (fun v => v) model) s = eval (assign s) model - get model [] := by
  have h := puso_outer s (model.filter (fun kv => !kv.1.isEmpty)) [] [] [] 0 rfl
  simp only [List.nil_append, List.length_nil, Nat.zero_add, zero_add] at h
  unfold pusoValueC flattenPuso forN
  simp only [ofInt_rat, Int.cast_zero, List.length_map]
  have e : (List.map (fun kv : Key × Rat => kv.2) (model.filter (fun kv => !kv.1.isEmpty))) =
      List.map Prod.snd (model.filter (fun kv => !kv.1.isEmpty)) := rfl
  rw [e, h, eval_split_offset (assign s) model hd]
  simp [evalNE]

end Qv.Kernel
