import Qv.Proofs.DynamicsQuso
/-!
# C12, part E — the PUSO kernel (T12.1 PUSO, and T12.2 / T12.3 for `anneal_puso`)

`puso_subgraph_value(state, i)` on the arrays `num_couplings, terms, couplings, index, subgraphs` that
`anneal_puso` builds is the value of the terms containing spin `i` (`subgraph_value_eq`), hence
`-2 * puso_subgraph_value = E(flip i s) - E(s)` (`puso_dE_eq_energy`): all terms containing `i` change sign,
the others do not.  The PUSO kernel is then an instance of the abstract sweep of `DynamicsSweep`.
-/
namespace Qv.Kernel
open Qv Qv.Anneal

theorem eval_append' (x : Var → Rat) : ∀ (p q : Poly), eval x (p ++ q) = eval x p + eval x q
  | [], q => by simp [eval]
  | (k, v) :: p, q => by simp only [List.cons_append, eval_cons, eval_append' x p q]; ring

/-! ## segments of the flat `terms` array -/

/-- a counted loop over term `t` of the flat `terms` array is the fold over the `t`-th key -/
theorem key_loop {σ : Type} (ks : List Key) (t : Nat) (ht : t < ks.length) (F : Nat → σ → σ) (e : σ) :
    forN ((ks.map List.length).getD t 0) e
      (fun j e => F (ks.flatten.getD ((mkIndex (ks.map List.length)).getD t 0 + j) 0) e)
    = (ks.getD t []).foldl (fun e a => F a e) e := by
  have hnn : (ks.map List.length).getD t 0 = (ks.getD t []).length := by
    have := getD_map' List.length ks t []
    simpa using this
  rw [hnn]
  unfold forN
  apply forFrom_eq_foldl 0 _ F (ks.getD t []) 0 e
  intro j hj e
  obtain ⟨off, h1, h2⟩ := segment (0 : Nat) ks 0 t j ht hj
  simp only [Nat.zero_add] at h1 ⊢
  have hidx : (mkIndex (ks.map List.length)).getD t 0 = off := by simpa [mkIndex] using h1
  rw [hidx, h2]

theorem foldl_iprod (s : List Int) : ∀ (k : Key) (acc : Int),
    k.foldl (fun pr a => pr * s.getD a 0) acc = acc * iprod s k
  | [], acc => by simp [iprod]
  | a :: k, acc => by
    simp only [List.foldl_cons, iprod]
    rw [foldl_iprod s k]; ring

/-- the arrays of `anneal_puso` for a list of non-constant terms -/
def pOf (items : Poly) : Puso Rat :=
  { nc := (items.map Prod.fst).map List.length, terms := (items.map Prod.fst).flatten, cs := items.map Prod.snd }

theorem flattenPuso_id (model : Poly) :
    flattenPuso (fun v => v) model = pOf (model.filter (fun kv => !kv.1.isEmpty)) := by
  simp only [flattenPuso, pOf, List.map_map]
  rfl

/-- `product` in `puso_subgraph_value` is the product of the spins of the term -/
theorem termProduct_eq (items : Poly) (s : List Int) (t : Nat) (ht : t < items.length) :
    termProduct (pOf items) (mkIndex (pOf items).nc) s t = iprod s ((items.map Prod.fst).getD t []) := by
  unfold termProduct
  simp only [pOf]
  have := key_loop (items.map Prod.fst) t (by simpa using ht) (fun a (pr : Int) => pr * s.getD a 0) 1
  rw [this, foldl_iprod]; ring

/-! ## `subgraphs` -/

/-- `subgraphs[a].append(t)` for every label `a` of one key -/
theorem foldl_subgraph (t : Nat) : ∀ (k : Key) (sg : List (List Nat)) (j : Nat), k.Nodup → (∀ a ∈ k, a < sg.length) →
    j < sg.length →
    (k.foldl (fun sg a => sg.set a (sg.getD a [] ++ [t])) sg).length = sg.length ∧
    (k.foldl (fun sg a => sg.set a (sg.getD a [] ++ [t])) sg).getD j [] =
      sg.getD j [] ++ (if j ∈ k then [t] else [])
  | [], sg, j, _, _, _ => by simp
  | a :: k, sg, j, hnd, hlt, hj => by
    obtain ⟨hak, hk⟩ := List.nodup_cons.mp hnd
    simp only [List.foldl_cons]
    obtain ⟨h1, h2⟩ := foldl_subgraph t k (sg.set a (sg.getD a [] ++ [t])) j hk
      (fun b hb => by simpa using hlt b (List.mem_cons_of_mem _ hb)) (by simpa using hj)
    refine ⟨by rw [h1]; simp, ?_⟩
    rw [h2]
    by_cases hja : j = a
    · subst hja
      rw [getD_set_self' sg j _ [] hj]
      simp [hak]
    · rw [getD_set_ne' sg a j _ [] (fun e => hja e.symm)]
      have : (j ∈ a :: k) ↔ j ∈ k := by simp [hja]
      simp only [this]

/-- the value `puso_subgraph_value` accumulates over a list of term indices -/
def sgVal (p : Puso Rat) (index : List Nat) (s : List Int) (L : List Nat) : Rat :=
  L.foldl (fun value term => value + p.cs.getD term (ofInt 0) * ofInt (termProduct p index s term)) (ofInt 0)

theorem sgVal_append (p : Puso Rat) (index : List Nat) (s : List Int) (L : List Nat) (t : Nat) :
    sgVal p index s (L ++ [t]) = sgVal p index s L + p.cs.getD t 0 * ((termProduct p index s t : Int) : Rat) := by
  simp [sgVal, List.foldl_append]

theorem touching_single_pos (σ : Var → Rat) (j : Var) (x : Key × Rat) (h : j ∈ x.1) :
    eval σ (touching j [x]) = x.2 * mon σ x.1 := by
  simp [touching, h, eval]

theorem touching_single_neg (σ : Var → Rat) (j : Var) (x : Key × Rat) (h : j ∉ x.1) :
    eval σ (touching j [x]) = 0 := by
  simp [touching, h]

theorem touching_append (j : Var) (A B : Poly) : touching j (A ++ B) = touching j A ++ touching j B := by
  simp [touching]

/-- **`subgraphs[j]` lists the terms containing `j`**, in the form needed: the value accumulated over it is the
value of those terms -/
theorem subgraph_value_eq (items : Poly) (N : Nat) (hnd : ∀ kv ∈ items, kv.1.Nodup)
    (hlt : ∀ kv ∈ items, ∀ a ∈ kv.1, a < N) (s : List Int) (j : Nat) (hj : j < N) :
    pusoSubgraphValue (pOf items) (mkIndex (pOf items).nc) (mkSubgraphs (pOf items) (mkIndex (pOf items).nc) N) s j =
      eval (assign s) (touching j items) := by
  have hinv := forFrom_inv_idx
    (fun t (sg : List (List Nat)) => sg.length = N ∧ ∀ j, j < N →
      sgVal (pOf items) (mkIndex (pOf items).nc) s (sg.getD j []) = eval (assign s) (touching j (items.take t)))
    (fun term sg => forN ((pOf items).nc.getD term 0) sg fun i sg =>
      sg.set ((pOf items).terms.getD ((mkIndex (pOf items).nc).getD term 0 + i) 0)
        (sg.getD ((pOf items).terms.getD ((mkIndex (pOf items).nc).getD term 0 + i) 0) [] ++ [term]))
    (pOf items).cs.length 0 (List.replicate N [])
    ⟨by simp, by
      intro j _
      have h2 : (List.replicate N ([] : List Nat)).getD j [] = [] := by
        simp only [List.getD, List.getElem?_replicate]; split <;> rfl
      rw [h2]; simp [sgVal, touching]⟩
    (by
      intro t sg _ ht hP
      obtain ⟨hlen, hval⟩ := hP
      have htl : t < items.length := by simpa [pOf] using ht
      have hmem : items.getD t ([], 0) ∈ items := getD_mem _ htl
      have hkey : (items.map Prod.fst).getD t [] = (items.getD t ([], 0)).1 := by
        have := getD_map' Prod.fst items t ([], 0)
        simpa using this
      have hloop := key_loop (items.map Prod.fst) t (by simpa using htl)
        (fun a (sg : List (List Nat)) => sg.set a (sg.getD a [] ++ [t])) sg
      simp only [pOf] at hloop ⊢
      rw [hloop, hkey]
      have hfs := fun j hj => foldl_subgraph t (items.getD t ([], 0)).1 sg j (hnd _ hmem)
        (fun a ha => by rw [hlen]; exact hlt _ hmem a ha) (by rw [hlen]; exact hj)
      refine ⟨by rw [(hfs 0 (by omega)).1]; exact hlen, ?_⟩
      · intro j hj
        rw [(hfs j hj).2]
        have htake : items.take (t + 1) = items.take t ++ [items.getD t ([], 0)] := by
          rw [List.take_add_one, List.getD, List.getElem?_eq_getElem htl]; simp
        rw [htake, touching_append, eval_append']
        have hv := hval j hj
        simp only [pOf] at hv
        by_cases hjk : j ∈ (items.getD t ([], 0)).1
        · rw [if_pos hjk]
          have hsa := sgVal_append (pOf items) (mkIndex (pOf items).nc) s (sg.getD j []) t
          simp only [pOf] at hsa
          rw [hsa, hv]
          have htp := termProduct_eq items s t htl
          simp only [pOf] at htp
          rw [htp, hkey, iprod_cast]
          have hcs : (items.map Prod.snd).getD t 0 = (items.getD t ([], 0)).2 := by
            have := getD_map' Prod.snd items t ([], 0)
            simpa using this
          rw [hcs, touching_single_pos _ j _ hjk]
        · rw [if_neg hjk, List.append_nil, hv, touching_single_neg _ j _ hjk, add_zero])
  have hfin := hinv.2 j hj
  simp only [Nat.zero_add] at hfin
  have hT : items.take (pOf items).cs.length = items := by
    have : (pOf items).cs.length = items.length := by simp [pOf]
    rw [this, List.take_length]
  rw [hT] at hfin
  unfold pusoSubgraphValue mkSubgraphs
  exact hfin

theorem touching_filter (j : Var) (model : Poly) :
    touching j (model.filter (fun kv => !kv.1.isEmpty)) = touching j model := by
  simp only [touching, List.filter_filter]
  apply List.filter_congr
  intro kv _
  by_cases h : j ∈ kv.1
  · have : kv.1 ≠ [] := List.ne_nil_of_mem h
    simp [h, this]
  · simp [h]

/-- **T12.1 (PUSO)**: `-2 * puso_subgraph_value(state, i) = E(flip i s) - E(s)` on the arrays `anneal_puso` builds
from a model whose keys are duplicate-free with labels below `N` -/
theorem puso_dE_eq_energy (model : Poly) (N : Nat) (hnd : ∀ kv ∈ model, kv.1.Nodup)
    (hlt : ∀ kv ∈ model, ∀ a ∈ kv.1, a < N) (s : List Int) (hs : s.length = N) (i : Nat) (hi : i < N) :
    ofInt (-2) * pusoSubgraphValue (flattenPuso (fun v => v) model) (mkIndex (flattenPuso (fun v => v) model).nc)
        (mkSubgraphs (flattenPuso (fun v => v) model) (mkIndex (flattenPuso (fun v => v) model).nc) N) s i =
      eval (assign (flipAt s i)) model - eval (assign s) model := by
  rw [flattenPuso_id]
  rw [subgraph_value_eq _ N (fun kv hkv => hnd kv (List.mem_of_mem_filter hkv))
    (fun kv hkv => hlt kv (List.mem_of_mem_filter hkv)) s i hi, touching_filter]
  have hflip := eval_flip (assign s) (assign (flipAt s i)) i
    (fun x hx => assign_flipAt_ne s i (by omega) x hx) (assign_flipAt_self s i (by omega)) model hnd
  rw [hflip, ofInt_rat]
  push_cast
  ring

/-! ## the PUSO kernel as an instance of the abstract sweep -/

section
variable {ρ : Type} (src : Src ρ Rat)

theorem pusoStep_cases (p : Puso Rat) (index : List Nat) (sg : List (List Nat)) (N : Nat) (inOrder : Bool) (T : Rat)
    (j : Nat) (s : List Int × ρ) :
    ∃ (i : Nat) (r0 : ρ), (inOrder = true → i = j) ∧
      (pusoStep src p index sg N inOrder T j s).1 =
        if (src.accept (ofInt (-2) * pusoSubgraphValue p index sg s.1 i) T r0).2 then flipAt s.1 i else s.1 := by
  obtain ⟨st, r⟩ := s
  cases inOrder with
  | true =>
    refine ⟨j, r, fun _ => rfl, ?_⟩
    simp only [pusoStep, if_true]
    by_cases hacc : (src.accept (ofInt (-2) * pusoSubgraphValue p index sg st j) T r).2 = true
    · rw [if_pos hacc, if_pos hacc]
    · rw [if_neg hacc, if_neg hacc]
  | false =>
    refine ⟨(src.index r N).2, (src.index r N).1, (fun h => by cases h), ?_⟩
    simp only [pusoStep, Bool.false_eq_true, if_false]
    by_cases hacc : (src.accept (ofInt (-2) * pusoSubgraphValue p index sg st (src.index r N).2) T (src.index r N).1).2 = true
    · rw [if_pos hacc, if_pos hacc]
    · rw [if_neg hacc, if_neg hacc]

theorem pusoStep_spec (hm : Metropolis src) (p : Puso Rat) (index : List Nat) (sg : List (List Nat)) (N : Nat)
    (E : List Int → Rat)
    (hE : ∀ s i, s.length = N → i < N → ofInt (-2) * pusoSubgraphValue p index sg s i = E (flipAt s i) - E s)
    (inOrder : Bool) (T : Rat) (j : Nat) (s : List Int × ρ) (hs : s.1.length = N) :
    (pusoStep src p index sg N inOrder T j s).1.length = N ∧
    StepSpec E N T inOrder j s.1 (pusoStep src p index sg N inOrder T j s).1 := by
  obtain ⟨i, r0, hij, hstep⟩ := pusoStep_cases src p index sg N inOrder T j s
  constructor
  · rw [hstep]; split
    · rw [flipAt_length]; exact hs
    · exact hs
  · refine ⟨i, (src.accept (ofInt (-2) * pusoSubgraphValue p index sg s.1 i) T r0).2, hij, ?_, hstep⟩
    intro hi
    rw [← hE s.1 i hs hi]
    exact ⟨fun hle => hm.down _ _ _ hle, fun hT hgt => hm.frozen _ _ _ hT hgt⟩

/-- **T12.2** for `single_anneal_puso` -/
theorem singleAnnealPuso_le (hm : Metropolis src) (p : Puso Rat) (index : List Nat) (sg : List (List Nat)) (N : Nat)
    (E : List Int → Rat)
    (hE : ∀ s i, s.length = N → i < N → ofInt (-2) * pusoSubgraphValue p index sg s i = E (flipAt s i) - E s)
    (Ts : List Rat) (hT : ∀ T ∈ Ts, T = 0) (inOrder : Bool) (s0 : List Int) (hs0 : s0.length = N) (rng : ρ) :
    E (singleAnnealPuso src p index sg N Ts inOrder s0 rng).1 ≤ E s0 :=
  run_le (fun s : List Int × ρ => s.1) (fun s => s.1.length = N) E N inOrder
    (fun T j s => pusoStep src p index sg N inOrder T j s)
    (fun _ hs => hs)
    (fun T j s hs => pusoStep_spec src hm p index sg N E hE inOrder T j s hs)
    Ts hT (s0, rng) hs0

/-- **T12.3** for `single_anneal_puso` -/
theorem singleAnnealPuso_ref (hm : Metropolis src) (p : Puso Rat) (index : List Nat) (sg : List (List Nat)) (N : Nat)
    (E : List Int → Rat)
    (hE : ∀ s i, s.length = N → i < N → ofInt (-2) * pusoSubgraphValue p index sg s i = E (flipAt s i) - E s)
    (Ts : List Rat) (hT : ∀ T ∈ Ts, T = 0) (s0 : List Int) (hs0 : s0.length = N) (rng : ρ) :
    (singleAnnealPuso src p index sg N Ts true s0 rng).1 = refRun E N Ts.length s0 :=
  run_ref (fun s : List Int × ρ => s.1) (fun s => s.1.length = N) E N
    (fun T j s => pusoStep src p index sg N true T j s)
    (fun T j s hs => pusoStep_spec src hm p index sg N E hE true T j s hs)
    Ts hT (s0, rng) hs0

/-- C `anneal_puso` with a supplied initial state at `T = 0`: values never exceed the C value of the initial state -/
theorem annealPuso_le (hm : Metropolis src) (N : Nat) (model : Poly) (hd : (keys model).Nodup)
    (hnd : ∀ kv ∈ model, kv.1.Nodup) (hlt : ∀ kv ∈ model, ∀ a ∈ kv.1, a < N)
    (Ts : List Rat) (hT : ∀ T ∈ Ts, T = 0) (inOrder : Bool) (init : List Int) (hl : init.length = N)
    (k : Nat) (rng : ρ) :
    ∀ sv ∈ Kernel.annealPuso src (flattenPuso (fun v => v) model) N Ts inOrder init k rng,
      sv.2 ≤ pusoValueC (flattenPuso (fun v => v) model) init := by
  intro sv hsv
  unfold Kernel.annealPuso at hsv
  obtain ⟨r, h1, h2⟩ := annealLoop_provided src N init _ _ hl k rng sv hsv
  have hle := singleAnnealPuso_le src hm _ _ _ N (energy model)
    (fun s i hs hi => puso_dE_eq_energy model N hnd hlt s hs i hi) Ts hT inOrder init hl r
  rw [h2, flattenPuso_value model hd, flattenPuso_value model hd, h1]
  simp only [energy] at hle
  linarith

/-- C `anneal_puso`, in order, `T = 0`, supplied initial state: the iterated reference sweep -/
theorem annealPuso_ref (hm : Metropolis src) (N : Nat) (model : Poly)
    (hnd : ∀ kv ∈ model, kv.1.Nodup) (hlt : ∀ kv ∈ model, ∀ a ∈ kv.1, a < N)
    (Ts : List Rat) (hT : ∀ T ∈ Ts, T = 0) (init : List Int) (hl : init.length = N) (k : Nat) (rng : ρ) :
    ∀ sv ∈ Kernel.annealPuso src (flattenPuso (fun v => v) model) N Ts true init k rng,
      sv.1 = refRun (energy model) N Ts.length init := by
  intro sv hsv
  unfold Kernel.annealPuso at hsv
  obtain ⟨r, h1, _⟩ := annealLoop_provided src N init _ _ hl k rng sv hsv
  rw [h1]
  exact singleAnnealPuso_ref src hm _ _ _ N (energy model)
    (fun s i hs hi => puso_dE_eq_energy model N hnd hlt s hs i hi) Ts hT init hl r

end

end Qv.Kernel

namespace Qv.Anneal
open Qv Qv.Kernel

section
variable {ρ : Type} (src : Src ρ Rat)

/-- the guard of `runPuso` (labels below `N`, what the C code needs to stay inside `subgraphs`) -/
theorem runPuso_labels (cfg : Cfg ρ Rat) (P : Params ρ Rat) (c : Call Rat) (rs : List Res)
    (h : runPuso cfg P c = .ok rs) : ∀ kv ∈ c.model, ∀ a ∈ kv.1, a < c.N := by
  unfold runPuso at h
  dsimp only at h
  split at h
  · exact absurd h (by simp [bind, Except.bind, throw, throwThe, MonadExceptOf.throw])
  · rename_i hany
    intro kv hkv a ha
    by_contra hge
    apply hany
    simp only [flattenPuso, List.any_eq_true, List.mem_flatten, List.mem_map, decide_eq_true_eq]
    refine ⟨a, ⟨kv.1, ⟨kv, List.mem_filter.mpr ⟨hkv, ?_⟩, rfl⟩, ha⟩, Nat.le_of_not_lt hge⟩
    have : kv.1 ≠ [] := List.ne_nil_of_mem ha
    simp [this]

theorem runPuso_le (hm : Metropolis src) (P : Params ρ Rat) (c : Call Rat) (rs : List Res)
    (h : runPuso (ratCfg src) P c = .ok rs) (hl : c.init.length = c.N) (hd : (keys c.model).Nodup)
    (hnd : ∀ kv ∈ c.model, kv.1.Nodup) (hT : ∀ T ∈ c.Ts, T = 0) :
    ∀ r ∈ rs, r.value ≤ eval (assign c.init) c.model := by
  have hlt := runPuso_labels (ratCfg src) P c rs h
  have h := runPuso_ok (ratCfg src) P c rs h
  intro r hr
  obtain ⟨sv, hsv, _, hval, _⟩ := (package_spec _ _ _ _ _ h).2 r hr
  simp only [ratCfg] at hval hsv
  have hle := annealPuso_le src hm c.N c.model hd hnd hlt c.Ts hT P.inOrder c.init hl _ _ sv hsv
  rw [flattenPuso_value c.model hd c.init] at hle
  rw [hval]
  linarith

theorem runPuso_ref (hm : Metropolis src) (P : Params ρ Rat) (c : Call Rat) (rs : List Res)
    (h : runPuso (ratCfg src) P c = .ok rs) (hl : c.init.length = c.N)
    (hnd : ∀ kv ∈ c.model, kv.1.Nodup) (hT : ∀ T ∈ c.Ts, T = 0) (hio : P.inOrder = true) :
    ∀ r ∈ rs, r.state = relabelState c.rev (refRun (energy c.model) c.N c.Ts.length c.init) := by
  have hlt := runPuso_labels (ratCfg src) P c rs h
  have h := runPuso_ok (ratCfg src) P c rs h
  intro r hr
  obtain ⟨sv, hsv, hst, _, _⟩ := (package_spec _ _ _ _ _ h).2 r hr
  simp only [ratCfg, hio] at hsv
  rw [hst, annealPuso_ref src hm c.N c.model hnd hlt c.Ts hT c.init hl _ _ sv hsv]

end

end Qv.Anneal
