import Qv.Gen.SourceReduce
import Mathlib.Tactic.SplitIfs
/-!
# GenEq.ReduceKey — part (c) of `PUBO._reduce_degree`: the key rewrite generated from the statements
`old_key, key, z_inserted = key, (), False … if not z_inserted: key += (z,)` equals the model's `Reduce.rekey` (C01)
-/
set_option linter.unusedTactic false
set_option linter.unusedSimpArgs false
namespace Qv.Gen
open Qv Qv.Reduce

/-- the loop `for i in old_key: …` with any body that (i) skips `x` and `y`, (ii) appends `z, i` at the first larger
label and sets the flag, (iii) appends `i` otherwise — followed by the final `if not z_inserted: key += (z,)` — builds
`acc ++ rekeyGo x y z l ins` -/
theorem rekey_fold (x y z : Var) (g : Key × Bool → Var → Key × Bool)
    (hg : ∀ acc ins i, g (acc, ins) i =
      if i = x ∨ i = y then (acc, ins)
      else if ins = false ∧ z < i then (acc ++ [z, i], true) else (acc ++ [i], ins)) :
    ∀ (l : Key) (acc : Key) (ins : Bool),
      (l.foldl g (acc, ins)).1 ++ (if (l.foldl g (acc, ins)).2 = false then [z] else []) =
        acc ++ rekeyGo x y z l ins := by
  intro l
  induction l with
  | nil => intro acc ins; cases ins <;> simp [rekeyGo]
  | cons i r ih =>
    intro acc ins
    rw [List.foldl_cons, hg]
    by_cases hxy : i = x ∨ i = y
    · rw [if_pos hxy, ih]; simp [rekeyGo, hxy]
    · rw [if_neg hxy]
      by_cases hz : ins = false ∧ z < i
      · rw [if_pos hz, ih]
        obtain ⟨h1, h2⟩ := hz
        subst h1
        simp [rekeyGo, hxy, h2]
      · rw [if_neg hz, ih]
        have : (!ins && decide (z < i)) = false := by
          cases ins <;> simp_all
        simp [rekeyGo, hxy, this]

/-- **(c)** the generated key rewrite is the model's `rekey`: `x` and `y` are dropped and `z` goes right before the first
remaining label that is greater than it (at the end if there is none) -/
theorem rd_rekey_eq_model (key : Key) (x y z : Var) : rd_rekey key x y z = rekey key x y z := by
  unfold rd_rekey rekey
  simp only []
  generalize hG : List.foldl _ ([], false) key = r
  have h : r.1 ++ (if r.2 = false then [z] else []) = rekeyGo x y z key false := by
    rw [← hG]
    refine (rekey_fold x y z _ ?_ key [] false).trans (by simp)
    intro acc ins i
    first
      | (simp only []; split_ifs <;> first | rfl | simp_all)
      | (by_cases h1 : i = x ∨ i = y <;> by_cases h2 : ins = false ∧ z < i <;> simp_all)
  rw [← h]
  first
    | (split_ifs <;> simp_all)
    | (cases hb : r.2 <;> simp_all)

example : rd_rekey [1, 2, 5, 9] 2 9 7 = [1, 5, 7] := by decide
example : rd_rekey [1, 2, 5, 9] 1 2 7 = [5, 7, 9] := by decide
example : rd_rekey [1, 2, 5, 9] 1 2 3 = [3, 5, 9] := by decide

end Qv.Gen
