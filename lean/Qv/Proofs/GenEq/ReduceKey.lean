import Qv.Gen.SourceReduce
import Mathlib.Tactic.SplitIfs
/-!
# GenEq.ReduceKey — part (c) of `PUBO._reduce_degree`: the key rewrite generated from the statements
`old_key, key, z_inserted = key, (), False … if not z_inserted: key += (z,)` equals the model's `Reduce.rekey` (C01)
-/
set_option linter.unusedTactic false
set_option linter.unusedSimpArgs false
namespace Qv.Gen
open Qv Qv.Reduce

/-- the loop `for i in old_key: …` with any body that (i) skips `x` and `y`, (ii) appends `z, i` at the first larger
label and sets the flag, (iii) appends `i` otherwise — followed by the final `if not z_inserted: key += (z,)` — builds
`acc ++ rekeyGo x y z l ins` -/
theorem rekey_fold (x y z : Var) (g : Key × Bool → Var → Key × Bool)
    (hg : ∀ acc ins i, g (acc, ins) i =
      if i = x ∨ i = y then (acc, ins)
      else if ins = false ∧ z < i then (acc ++ [z, i], true) else (acc ++ [i], ins)) :
    ∀ (l : Key) (acc : Key) (ins : Bool),
      (l.foldl g (acc, ins)).1 ++ (if (l.foldl g (acc, ins)).2 = false then [z] else []) =
        acc ++ rekeyGo x y z l ins := by
  intro l
  induction l with
  | nil => intro acc ins; cases ins <;> simp [rekeyGo]
  | cons i r ih =>
    intro acc ins
    rw [List.foldl_cons, hg]
    by_cases hxy : i = x ∨ i = y
    · rw [if_pos hxy, ih]; simp [rekeyGo, hxy]
    · rw [if_neg hxy]
      by_cases hz : ins = false ∧ z < i
      · rw [if_pos hz, ih]
        obtain ⟨h1, h2⟩ := hz
        subst h1
        simp [rekeyGo, hxy, h2]
      · rw [if_neg hz, ih]
        have : (!ins && decide (z < i)) = false := by
          cases ins <;> simp_all
        simp [rekeyGo, hxy, this]

/-! ### the list-based shape: filter out `x`, `y`; find the position of the first larger label; insert `z` there -/

/-- `z` inserted before the first label greater than it, at the end if there is none -/
def rekeyInsAt (z : Var) : List Var → List Var
  | [] => [z]
  | i :: r => if z < i then z :: i :: r else i :: rekeyInsAt z r

/-- index of the first label greater than `z` (the length if there is none) -/
def rekeyPos (z : Var) : List Var → Nat
  | [] => 0
  | i :: r => if z < i then 0 else rekeyPos z r + 1

theorem rekeyGo_true (x y z : Var) : ∀ l : Key,
    rekeyGo x y z l true = l.filter (fun i => decide (¬ (i = x ∨ i = y))) := by
  intro l
  induction l with
  | nil => simp [rekeyGo]
  | cons i r ih =>
    rw [List.filter_cons]
    by_cases h : i = x ∨ i = y
    · rw [if_neg (by rw [decide_eq_true_eq]; exact fun hn => hn h)]; simp only [rekeyGo, if_pos h, ih]
    · rw [if_pos (by simpa using h)]; simp [rekeyGo, if_neg h, ih]

theorem rekeyGo_false (x y z : Var) : ∀ l : Key,
    rekeyGo x y z l false = rekeyInsAt z (l.filter (fun i => decide (¬ (i = x ∨ i = y)))) := by
  intro l
  induction l with
  | nil => simp [rekeyGo, rekeyInsAt]
  | cons i r ih =>
    rw [List.filter_cons]
    by_cases h : i = x ∨ i = y
    · rw [if_neg (by rw [decide_eq_true_eq]; exact fun hn => hn h)]; simp only [rekeyGo, if_pos h, ih]
    · rw [if_pos (by simpa using h)]
      by_cases hz : z < i
      · simp [rekeyGo, if_neg h, hz, rekeyInsAt, rekeyGo_true]
      · simp [rekeyGo, if_neg h, hz, rekeyInsAt, ih]

theorem rekeyInsAt_pos (z : Var) : ∀ l : List Var,
    l.take (rekeyPos z l) ++ z :: l.drop (rekeyPos z l) = rekeyInsAt z l := by
  intro l
  induction l with
  | nil => simp [rekeyPos, rekeyInsAt]
  | cons i r ih => by_cases hz : z < i <;> simp [rekeyPos, rekeyInsAt, hz, ih]

/-- the search loop `position = len(rest); for index, i in enumerate(rest): if z < i: position = index; break` -/
theorem rekey_forB (z : Var) (g : Nat → Nat × Var → Brk Nat)
    (hg : ∀ acc idx i, g acc (idx, i) = if z < i then Brk.brk idx else Brk.next acc) :
    ∀ (l : List Var) (n : Nat), pyForB (pyEnumerateFrom n l) (n + l.length) g = n + rekeyPos z l := by
  intro l
  induction l with
  | nil => intro n; simp [pyEnumerateFrom, pyForB, rekeyPos]
  | cons i r ih =>
    intro n
    by_cases hz : z < i
    · simp [pyEnumerateFrom, pyForB, hg, hz, rekeyPos]
    · have := ih (n + 1)
      simp only [pyEnumerateFrom, pyForB, hg, hz, if_false, rekeyPos, List.length_cons]
      rw [show n + (r.length + 1) = n + 1 + r.length by omega, this]; omega

theorem rekey_forB0 (z : Var) (g : Nat → Nat × Var → Brk Nat)
    (hg : ∀ acc idx i, g acc (idx, i) = if z < i then Brk.brk idx else Brk.next acc) (l : List Var) :
    pyForB (pyEnumerateFrom 0 l) l.length g = rekeyPos z l := by
  have h := rekey_forB z g hg l 0
  simpa using h

/-- `next((n for n, i in enumerate(rest) if z < i), len(rest))` -/
theorem rekey_next (z : Var) (f : Nat × Var → Nat) (p : Nat × Var → Bool)
    (hf : ∀ idx i, f (idx, i) = idx) (hp : ∀ idx i, p (idx, i) = decide (z < i)) :
    ∀ (l : List Var) (n : Nat),
      pyRNextD (List.map f (List.filter p (pyEnumerateFrom n l))) (n + l.length) = n + rekeyPos z l := by
  intro l
  induction l with
  | nil => intro n; simp [pyEnumerateFrom, pyRNextD, rekeyPos]
  | cons i r ih =>
    intro n
    by_cases hz : z < i
    · simp [pyEnumerateFrom, List.filter_cons, hp, hf, hz, pyRNextD, rekeyPos]
    · have := ih (n + 1)
      simp only [pyEnumerateFrom, List.filter_cons, hp, hz, decide_false, rekeyPos, List.length_cons, if_false,
        Bool.false_eq_true]
      rw [show n + (r.length + 1) = n + 1 + r.length by omega, this]; omega

theorem rekey_next0 (z : Var) (f : Nat × Var → Nat) (p : Nat × Var → Bool)
    (hf : ∀ idx i, f (idx, i) = idx) (hp : ∀ idx i, p (idx, i) = decide (z < i)) (l : List Var) :
    pyRNextD (List.map f (List.filter p (pyEnumerateFrom 0 l))) l.length = rekeyPos z l := by
  have h := rekey_next z f p hf hp l 0
  simpa using h

theorem rekeyPos_le (z : Var) : ∀ l : List Var, rekeyPos z l ≤ l.length := by
  intro l
  induction l with
  | nil => simp [rekeyPos]
  | cons i r ih => by_cases hz : z < i <;> simp [rekeyPos, hz]; omega

/-- `l[:n]` and `l[n:]` for a natural number `n` -/
theorem rekey_slice_to {α : Type} (l : List α) (n : Nat) : pySlice l none (some (n : Int)) = l.take n := by
  simp only [pySlice, pyClamp, List.drop_zero]
  rw [if_neg (by omega)]
  simp only [Int.toNat_natCast]
  rcases Nat.le_total n l.length with h | h
  · rw [Nat.min_eq_left h]
  · rw [Nat.min_eq_right h, List.take_of_length_le h, List.take_of_length_le (Nat.le_refl _)]

theorem rekey_slice_from {α : Type} (l : List α) (n : Nat) : pySlice l (some (n : Int)) none = l.drop n := by
  simp only [pySlice, pyClamp]
  rw [if_neg (by omega), List.take_of_length_le (Nat.le_refl _)]
  simp only [Int.toNat_natCast]
  rcases Nat.le_total n l.length with h | h
  · rw [Nat.min_eq_left h]
  · rw [Nat.min_eq_right h, List.drop_of_length_le h, List.drop_of_length_le (Nat.le_refl _)]

/-- **(c)** the generated key rewrite is the model's `rekey`: `x` and `y` are dropped and `z` goes right before the first
remaining label that is greater than it (at the end if there is none) -/
theorem rd_rekey_eq_model (key : Key) (x y z : Var) : rd_rekey key x y z = rekey key x y z := by
  unfold rd_rekey rekey
  simp only []
  first
  | -- the shape of the original source: one fold that rebuilds the key
    generalize hG : List.foldl _ ([], false) key = r
    have h : r.1 ++ (if r.2 = false then [z] else []) = rekeyGo x y z key false := by
      rw [← hG]
      refine (rekey_fold x y z _ ?_ key [] false).trans (by simp)
      intro acc ins i
      first
        | (simp only []; split_ifs <;> first | rfl | simp_all)
        | (by_cases h1 : i = x ∨ i = y <;> by_cases h2 : ins = false ∧ z < i <;> simp_all)
    rw [← h]
    first
      | (split_ifs <;> simp_all)
      | (cases hb : r.2 <;> simp_all)
  | -- the list-based shape: filter, search loop with `break`, `insert`
    (rw [rekeyGo_false, ← rekeyInsAt_pos]
     simp only [List.map_id', pyRListInsert, pyREnumerate]
     rw [rekey_forB0 z]
     intro acc idx i
     first
       | (simp only []; done)
       | (simp only []; split_ifs <;> rfl)
       | (split_ifs <;> simp_all))
  | -- the slicing shape: filter, `next(… enumerate …, len(rest))`, `rest[:position] + (z,) + rest[position:]`
    (rw [rekeyGo_false, ← rekeyInsAt_pos]
     simp only [List.map_id', pyREnumerate, rekey_slice_to, rekey_slice_from]
     rw [rekey_next0 z]
     · simp only [List.append_assoc, List.singleton_append, List.cons_append, List.nil_append]
     · intro idx i; first | (simp only []; done) | simp
     · intro idx i; first | (simp only []; done) | simp)

example : rd_rekey [1, 2, 5, 9] 2 9 7 = [1, 5, 7] := by decide
example : rd_rekey [1, 2, 5, 9] 1 2 7 = [5, 7, 9] := by decide
example : rd_rekey [1, 2, 5, 9] 1 2 3 = [3, 5, 9] := by decide

end Qv.Gen
