import Qv.Gen.SourceProblems5
import Qv.Proofs.GenEq.ProblemsLib
import Qv.Proofs.Canon
/-!
# GenEq.Problems5Lib — lemmas shared by the second-wave ties of the problem classes (C10)

The compositional "loop = list of item statements" lemma set: `iaddD sq Q ops` of an `ops` list built with `::`, `++`, `flatMap`
*is* the program of item statements / sequences / `for` loops (`pb2_iaddD_*`, all unconditional, so `simp only` turns the model's
`Ops` list into the loop program and the generated loops can be compared with it statement by statement); lazy `filter` loops and
raising comprehension filters against their pure counterparts when the test cannot raise on the elements visited.
-/
set_option linter.unusedTactic false
set_option linter.unreachableTactic false
set_option linter.unusedSimpArgs false
set_option linter.unusedVariables false
namespace Qv.Gen
open Qv Qv.Prob

theorem pb2_iaddD_nil (sq : Sq) (Q : Poly) : iaddD sq Q [] = .ok Q := rfl

theorem pb2_iaddD_cons (sq : Sq) (Q : Poly) (k : Key) (v : Rat) (r : Poly) :
    iaddD sq Q ((k, v) :: r) = (addTerm sq Q k v >>= fun Q' => iaddD sq Q' r) := rfl

theorem pb2_iaddD_append (sq : Sq) (Q : Poly) (a b : Poly) :
    iaddD sq Q (a ++ b) = (iaddD sq Q a >>= fun Q' => iaddD sq Q' b) := by
  induction a generalizing Q with
  | nil => rfl
  | cons kv r ih =>
    obtain ⟨k, v⟩ := kv
    simp only [List.cons_append, pb2_iaddD_cons, bind_assocP, ih]

/-- a `for` loop whose body runs the statements `f a` -/
theorem pb2_iaddD_flatMap {α : Type} (sq : Sq) (l : List α) (f : α → Poly) (Q : Poly) :
    iaddD sq Q (l.flatMap f) = pyForM l Q (fun acc a => iaddD sq acc (f a)) := by
  induction l generalizing Q with
  | nil => rfl
  | cons a r ih =>
    simp only [List.flatMap_cons, pb2_iaddD_append, pyForM, ih]

theorem pb2_iaddD_map {α : Type} (sq : Sq) (l : List α) (f : α → Key × Rat) (Q : Poly) :
    iaddD sq Q (l.map f) = pyForM l Q (fun acc a => addTerm sq acc (f a).1 (f a).2) := by
  induction l generalizing Q with
  | nil => rfl
  | cons a r ih =>
    simp only [List.map_cons, pyForM, ← ih]
    rfl

theorem pb2_iaddD_ite (sq : Sq) (Q : Poly) (c : Prop) [Decidable c] (a b : Poly) :
    iaddD sq Q (if c then a else b) = if c then iaddD sq Q a else iaddD sq Q b := by
  split <;> rfl

/-- a loop over a `filter` object whose test does not raise on the source -/
theorem pb2_forLazy_ok {α σ : Type} (src : List α) (test : α → Except Err Bool) (q : α → Bool)
    (h : ∀ a ∈ src, test a = .ok (q a)) (s : σ) (body : σ → α → Except Err σ) :
    pb2ForLazyM (pb2LazyFilter src test) s body = pyForM (src.filter q) s body := by
  induction src generalizing s with
  | nil => rfl
  | cons a r ih =>
    have ha := h a (List.mem_cons_self ..)
    have hr := fun s => ih (fun b hb => h b (List.mem_cons_of_mem _ hb)) s
    unfold pb2LazyFilter at hr ⊢
    simp only [List.map_cons, pb2ForLazyM, ha, ok_bindP, List.filter_cons]
    cases q a
    · simpa using hr s
    · simp only [if_true, pyForM]
      cases body s a with
      | error e => rfl
      | ok s' => simpa using hr s'

/-- a comprehension with a raising filter whose test does not raise on the source and whose element is pure -/
theorem pb2_compM_ok {α β : Type} (src : List α) (test : α → Except Err Bool) (q : α → Bool) (elt : α → Except Err β) (g : α → β)
    (h : ∀ a ∈ src, test a = .ok (q a)) (he : ∀ a ∈ src, elt a = .ok (g a)) :
    pb2CompM src test elt = .ok ((src.filter q).map g) := by
  induction src with
  | nil => rfl
  | cons a r ih =>
    have hr := ih (fun b hb => h b (List.mem_cons_of_mem _ hb)) (fun b hb => he b (List.mem_cons_of_mem _ hb))
    simp only [pb2CompM, h a (List.mem_cons_self ..), he a (List.mem_cons_self ..), hr, ok_bindP, List.filter_cons]
    cases q a <;> simp

theorem pb2_mem_pyRange2 (a b k : Nat) : k ∈ pyRange2 a b ↔ a ≤ k ∧ k < b := by
  unfold pyRange2
  simp only [List.mem_map, List.mem_range]
  constructor
  · rintro ⟨i, hi, rfl⟩
    omega
  · rintro ⟨h1, h2⟩
    exact ⟨k - a, by omega, by omega⟩

theorem pb2_pyRange2_zero (b : Nat) : pyRange2 0 b = List.range b := by
  unfold pyRange2
  simp

theorem pb2_pyRange2_succ_map (a b : Nat) : pyRange2 (a + 1) (b + 1) = (pyRange2 a b).map (· + 1) := by
  unfold pyRange2
  simp only [List.map_map]
  have : b + 1 - (a + 1) = b - a := by omega
  rw [this]
  apply List.map_congr_left
  intro i _
  simp only [Function.comp]
  omega

theorem pb2_pyRange2_cons (a b : Nat) (h : a < b) : pyRange2 a b = a :: pyRange2 (a + 1) b := by
  unfold pyRange2
  have : b - a = (b - (a + 1)) + 1 := by omega
  rw [this, List.range_succ_eq_map]
  simp only [List.map_cons, List.map_map, Nat.add_zero]
  congr 1
  apply List.map_congr_left
  intro i _
  simp only [Function.comp]
  omega

theorem pb2_pyRange2_empty (a b : Nat) (h : b ≤ a) : pyRange2 a b = [] := by
  unfold pyRange2
  have : b - a = 0 := by omega
  simp [this]

/-- `pyRange2 a b` filtered by a test that also asks for `s ≤ k` -/
theorem pb2_pyRange2_filter_ge (a b s : Nat) (q : Nat → Bool) (h : a ≤ s) :
    (pyRange2 a b).filter (fun k => decide (s ≤ k) && q k) = (pyRange2 s b).filter q := by
  induction hd : s - a generalizing a with
  | zero =>
    have : a = s := by omega
    subst this
    apply List.filter_congr
    intro k hk
    have := (pb2_mem_pyRange2 a b k).1 hk
    simp [this.1]
  | succ d ih =>
    by_cases hab : a < b
    · rw [pb2_pyRange2_cons a b hab, List.filter_cons]
      have : ¬ s ≤ a := by omega
      simp only [this, decide_false, Bool.false_and, if_false, Bool.false_eq_true]
      exact ih (a + 1) (by omega) (by omega)
    · rw [pb2_pyRange2_empty a b (by omega), pb2_pyRange2_empty s b (by omega)]
      rfl

end Qv.Gen
