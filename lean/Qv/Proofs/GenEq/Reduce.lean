import Qv.Proofs.GenEq.ReduceKey
import Qv.Proofs.GenEq.ReduceScan
import Qv.Proofs.GenEq.ReduceStep
import Qv.Proofs.GenEq.ReduceTerm
/-!
# GenEq.Reduce — the degree-reduction core `PUBO._reduce_degree`, generated part by part from the source
(`Qv/Gen/SourceReduce.lean`), against the model `Qv.Reduce.reduceTerm` (C01, C08)

| part of the source | generated | theorem | model |
|---|---|---|---|
| (c) key rewrite | `rd_rekey` | `rd_rekey_eq_model` (ReduceKey) | `rekey` |
| (b) scan for the pair | `rd_scan` | `rd_scan_eq_model` (ReduceScan) | `scan … (pairsOf key) none` |
| (b) reuse / fresh ancilla | `rd_choose` | `rd_choose_eq_model` (ReduceStep) | the `used` / `pick` branches |
| (d) penalty per use + body of the `while` | `rd_step` | `rd_step_eq_model` (ReduceStep) | `stepM` (`Qv/Model/ReduceStep.lean`) |
| (e) `while` + `D[key] += v` | `rd_term` | `rd_term_eq_model` (ReduceTerm) | `reduceTerm` |
-/
