import Qv.Proofs.GenEq.Reduce2Whole
import Qv.Proofs.GenEq.Conv2Meth
/-!
# GenEq.Reduce2Chain — the `to_*` entry points of `PUBO` composed with the whole `_reduce_degree` (C01, C08)

`harness/tie_ext/conv.py` ties `PUBO.to_pubo` / `PUBO.to_qubo` (and the `Conversions` defaults `to_puso` / `to_quso`) with
`self._reduce_degree` as a *parameter* `reduce_degree` of the generated definitions (`PUBO_to_pubo_eq_model`, …: for every
such function).  Here that parameter is instantiated with the function generated from the source of `_reduce_degree`
(`rd2_whole`, on the explicit object state: `rd2ReduceFn`), and `rd2_whole_eq_model` carries the composition to the model's
routes `Reduce.routeBoolC` / `Reduce.route` — the functions the C01 / C08 theorems are about:

  generated `PUBO.to_pubo` ∘ generated `_reduce_degree`  =  `routeBoolC .pubo`     (`PUBO_to_pubo_rd2_chain`)
  generated `PUBO.to_qubo` ∘ generated `_reduce_degree`  =  `routeBoolC .qubo`     (`PUBO_to_qubo_rd2_chain`)
  refreshed state (`self.degree` exact)                   =  `route false .pubo/.qubo` (`…_route`)
  `to_puso` / `to_quso` (`Conversions` defaults)          =  the route above followed by the C04 model of
                                                             `pubo_to_puso` / `qubo_to_quso` (`PUBO_to_puso_rd2_chain`, …)
-/
set_option linter.unusedTactic false
set_option linter.unusedSimpArgs false
namespace Qv.Gen
open Qv Qv.Reduce

/-- where the ancilla labels start: `ancilla = self.num_binary_variables` (the statement of the source, on its own) -/
theorem rd2_ancilla_eq_model (n : Var) : rd2_ancilla n = n := by
  unfold rd2_ancilla
  first | rfl | simp | omega

/-- `self._reduce_degree(D, deg, lam, pairs)` as generated from the source, on the explicit object state of the conversion
methods: `D` keeps its type and gets the new terms; `self.degree` is `-inf` (read as 0) for a model without terms; a
negative `deg` is `< 2` like 0 -/
def rd2ReduceFn (lam : Option PyRd2Lam) (pairs : Option (List Key)) (x0 y0 : Var)
    (self : ConvModel) (D : ConvObj) (deg : Option Int) : Except Err ConvObj :=
  rd2_whole D.items (deg.map Int.toNat) lam pairs self.mapping self.items self.nvars ((pyDegree self).getD 0) x0 y0 >>=
    fun t => .ok ⟨D.kind, t⟩

theorem rd2_pyDegree_getD (self : ConvModel) : (pyDegree self).getD 0 = degree self.items := by
  unfold pyDegree
  by_cases h : self.items = []
  · rw [if_pos h, h]; rfl
  · rw [if_neg h]; rfl

theorem rd2_optmap_toNat (deg : Option Nat) : (deg.map Int.ofNat).map Int.toNat = deg := by
  cases deg <;> simp

/-- `PUBO.to_pubo(deg, lam, pairs)`, both generated from the source, is the model's route to a PUBO: the matrix is a
`PUBOMatrix` with the terms of `reduceDegreeC` -/
theorem PUBO_to_pubo_rd2_chain (self : ConvModel) (deg : Option Nat) (lam : Lam) (pairs : Option (List Key)) (x0 y0 : Var)
    (cdeg : Nat) (hc : cdeg = (pyDegree self).getD 0) (hdeg : deg = none → (1 ≤ cdeg ∨ shortKeys cdeg self.items)) :
    PUBO_to_pubo self (deg.map Int.ofNat) (rd2ReduceFn (rd2LamArg lam) pairs x0 y0) =
      (routeBoolC .pubo self.items self.mapping self.nvars cdeg deg lam (pairs.getD [])).map
        (fun o => (⟨.pubom, o.res⟩ : ConvObj)) := by
  subst hc
  rw [PUBO_to_pubo_eq_model]
  unfold rd2ReduceFn routeBoolC
  rw [rd2_optmap_toNat, rd2_whole_eq_model self.items self.mapping self.nvars _ deg lam pairs x0 y0 hdeg]
  cases reduceDegreeC self.items self.mapping self.nvars ((pyDegree self).getD 0) deg lam (pairs.getD []) <;> rfl

/-- `PUBO.to_qubo(lam, pairs)`: the route to a QUBO (`deg = 2`, a `QUBOMatrix`) -/
theorem PUBO_to_qubo_rd2_chain (self : ConvModel) (deg : Option Nat) (lam : Lam) (pairs : Option (List Key)) (x0 y0 : Var)
    (cdeg : Nat) :
    PUBO_to_qubo self (rd2ReduceFn (rd2LamArg lam) pairs x0 y0) =
      (routeBoolC .qubo self.items self.mapping self.nvars cdeg deg lam (pairs.getD [])).map
        (fun o => (⟨.qubom, o.res⟩ : ConvObj)) := by
  rw [PUBO_to_qubo_eq_model]
  unfold rd2ReduceFn routeBoolC
  have h2 : (some (2 : Int)).map Int.toNat = some 2 := rfl
  rw [h2, rd2_whole_eq_model self.items self.mapping self.nvars _ (some 2) lam pairs x0 y0 (fun h => by cases h)]
  show (Except.map _ (reduceDegreeC _ _ _ _ (some 2) _ _) >>= _) = Except.map _ (match reduceDegreeC _ _ _ cdeg (some 2) _ _ with | .error e => _ | .ok o => _)
  have hc : ∀ c, reduceDegreeC self.items self.mapping self.nvars c (some 2) lam (pairs.getD []) =
      reduceDegreeC self.items self.mapping self.nvars cdeg (some 2) lam (pairs.getD []) := fun c => rfl
  rw [hc]
  cases reduceDegreeC self.items self.mapping self.nvars cdeg (some 2) lam (pairs.getD []) <;> rfl

theorem rd2_routeBoolC_refreshed (t : Reduce.Target) (terms : Poly) (m : Reduce.Mapping) (n : Nat) (deg : Option Nat) (lam : Lam)
    (pairs : List Key) : routeBoolC t terms m n (degree terms) deg lam pairs = routeBool t terms m n deg lam pairs := by
  have h : ∀ d, reduceDegreeC terms m n (degree terms) d lam pairs = reduceDegree terms m n d lam pairs := by
    intro d; cases d <;> rfl
  unfold routeBoolC routeBool
  simp only [h]

/-- the refreshed-state form (every state C14's bookkeeping produces has `self.degree` = the degree of the terms): the
composition reaches `Reduce.route false .pubo`, without a hypothesis -/
theorem PUBO_to_pubo_rd2_route (self : ConvModel) (deg : Option Nat) (lam : Lam) (pairs : Option (List Key)) (x0 y0 : Var) :
    PUBO_to_pubo self (deg.map Int.ofNat) (rd2ReduceFn (rd2LamArg lam) pairs x0 y0) =
      (route false .pubo self.items self.mapping self.nvars deg lam (pairs.getD [])).map
        (fun o => (⟨.pubom, o.res⟩ : ConvObj)) := by
  rw [PUBO_to_pubo_rd2_chain self deg lam pairs x0 y0 (degree self.items) (rd2_pyDegree_getD self).symm
    (fun _ => Or.inr (degree_ge self.items)), rd2_routeBoolC_refreshed]
  rfl

theorem PUBO_to_qubo_rd2_route (self : ConvModel) (deg : Option Nat) (lam : Lam) (pairs : Option (List Key)) (x0 y0 : Var) :
    PUBO_to_qubo self (rd2ReduceFn (rd2LamArg lam) pairs x0 y0) =
      (route false .qubo self.items self.mapping self.nvars deg lam (pairs.getD [])).map
        (fun o => (⟨.qubom, o.res⟩ : ConvObj)) := by
  rw [PUBO_to_qubo_rd2_chain self deg lam pairs x0 y0 (degree self.items), rd2_routeBoolC_refreshed]
  rfl

/-- `PUBO.to_puso(deg, lam, pairs)` (the `Conversions` default `pubo_to_puso(self.to_pubo(…))`): the route to a PUBO
followed by the C04 model of `pubo_to_puso` on the `PUBOMatrix` -/
theorem PUBO_to_puso_rd2_chain (self : ConvModel) (deg : Option Nat) (lam : Lam) (pairs : Option (List Key)) (x0 y0 : Var) :
    Conversions_to_puso (PUBO_to_pubo self (deg.map Int.ofNat) (rd2ReduceFn (rd2LamArg lam) pairs x0 y0)) =
      ((route false .pubo self.items self.mapping self.nvars deg lam (pairs.getD [])) >>= fun o =>
        asObj .pusom (Qv.puboToPuso .pubom o.res)) := by
  rw [Conversions_to_puso_eq_model, PUBO_to_pubo_rd2_route]
  cases route false .pubo self.items self.mapping self.nvars deg lam (pairs.getD []) <;> rfl

/-- `PUBO.to_quso(lam, pairs)` (the `Conversions` default `qubo_to_quso(self.to_qubo(…))`) -/
theorem PUBO_to_quso_rd2_chain (self : ConvModel) (deg : Option Nat) (lam : Lam) (pairs : Option (List Key)) (x0 y0 : Var) :
    Conversions_to_quso (PUBO_to_qubo self (rd2ReduceFn (rd2LamArg lam) pairs x0 y0)) =
      ((route false .qubo self.items self.mapping self.nvars deg lam (pairs.getD [])) >>= fun o =>
        asObj .qusom (Qv.quboToQuso .qubom o.res)) := by
  rw [Conversions_to_quso_eq_model, PUBO_to_qubo_rd2_route self deg]
  cases route false .qubo self.items self.mapping self.nvars deg lam (pairs.getD []) <;> rfl

end Qv.Gen
