import Qv.Gen.SourceSimplify
import Qv.Proofs.GenEq.PyList
import Mathlib.Tactic.Ring
/-!
# GenEq.Simplify — `DictArithmetic.simplify` generated from the source as a whole function (C16)

* `dict_simplify_u2_eq_model`: for an ARBITRARY `simplify` function on expressions the generated procedure never raises and
  leaves the dict `simplifyItems simp items` — per snapshot item, an expression is simplified, multiplied by `1.` and stored
  (`try` branch), a number makes `v.simplify()` raise `AttributeError` and the CURRENT value under the key is multiplied by
  `1.` and stored (`except` branch); a falsy result removes the key; positions are kept.
* `subs_simplifyItems_u2` (the bridge "subs after simplify = subs"): if `simplify` and `* 1.` preserve the value of every
  expression under the substitution `φ`, and a falsy expression has value `0`, then on a dict (distinct keys)
  `subsItems (coefVal φ) (simplifyItems simp items) = subsItems (coefVal φ) items` — `subsItems` being the model of
  `DictArithmetic.subs` (`dict_subs_eq_model`, `subsItems_ofPolyR` in `GenEq/Subs.lean`), i.e. the function the C16 theorems
  about `subs` are stated for.
-/
set_option linter.unusedTactic false
set_option linter.unreachableTactic false
set_option linter.unusedSimpArgs false
set_option linter.unusedVariables false
set_option linter.unusedSectionVars false
namespace Qv.Gen
open Qv Qv.Sym

variable {R : Type} [Coef R]

/-! ## the prelude's dict primitives are the model's -/

theorem put_eq_u2 (d : CoefItems R) (k : Key) (v : PyCoef R) : pyDictPut d k v = putCoef d k v := by
  induction d with
  | nil => rfl
  | cons a t ih => obtain ⟨k', w⟩ := a; simp only [pyDictPut, putCoef, ih]

theorem erase_eq_u2 (d : CoefItems R) (k : Key) : pyDictErase d k = eraseCoef d k := by
  induction d with
  | nil => rfl
  | cons a t ih => obtain ⟨k', w⟩ := a; simp only [pyDictErase, eraseCoef, ih]

theorem truthy_eq_u2 (v : PyCoef R) : pyCoefTruthy v = truthyCoef v := by cases v <;> rfl

theorem setItem_eq_u2 (d : CoefItems R) (k : Key) (v : PyCoef R) : pyCoefSetItem d k v = setCoef d k v := by
  simp only [pyCoefSetItem, setCoef, put_eq_u2, erase_eq_u2, truthy_eq_u2]

theorem getItem_eq_u2 (d : CoefItems R) (k : Key) : pyCoefGetItemU2 d k = getCoef d k := by
  induction d with
  | nil => rfl
  | cons a t ih => obtain ⟨k', w⟩ := a; simp only [pyCoefGetItemU2, getCoef, ih]

theorem mulOne_eq_u2 (x : PyCoef R) : pyCoefMulU2 x (1 : Rat) = mulOneCoef x := by cases x <;> rfl

theorem forM_pure_u2 {α σ : Type} (step : σ → α → σ) (body : σ → α → Except Err σ) (hb : ∀ s a, body s a = .ok (step s a)) :
    ∀ (l : List α) (s : σ), pyForM l s body = .ok (l.foldl step s) := by
  intro l
  induction l with
  | nil => intro s; rfl
  | cons a r ih => intro s; simp only [pyForM, hb, ok_bind', ih, List.foldl_cons]

/-- **`DictArithmetic.simplify` = the model's `simplifyItems`**, for every `simplify` function on expressions -/
theorem dict_simplify_u2_eq_model (items : CoefItems R) (simp : R → R) :
    dict_simplify_u2 items simp = .ok (simplifyItems simp items) := by
  unfold dict_simplify_u2 simplifyItems
  rw [forM_pure_u2 (simplifyStep simp) _ ?_ items items]
  · rfl
  · intro d it
    obtain ⟨k, v⟩ := it
    cases v with
    | num r =>
      simp only [pySimplifyU2, error_bind', pyTryHandlers, List.find?, setItem_eq_u2, getItem_eq_u2, mulOne_eq_u2, ok_bind',
        simplifyStep]
      first | rfl | (simp; done) | decide
    | sym e =>
      simp only [pySimplifyU2, ok_bind', pyTryHandlers, setItem_eq_u2, getItem_eq_u2, mulOne_eq_u2, simplifyStep, pyExprMulU2]

/-! ## the bridge: `subs` after `simplify` = `subs` -/

/-- what `simplify` stores for a coefficient when the value under its key is still the snapshot's -/
def simpCoefU2 (simp : R → R) : PyCoef R → PyCoef R
  | .num r => .num (r * 1)
  | .sym e => .sym (Coef.mul (simp e) (Coef.ofRat 1))

/-- the items `simplify` leaves for a list of snapshot items -/
def simpKeepU2 (simp : R → R) : CoefItems R → CoefItems R
  | [] => []
  | (k, v) :: r => if truthyCoef (simpCoefU2 simp v) then (k, simpCoefU2 simp v) :: simpKeepU2 simp r else simpKeepU2 simp r

theorem put_mid_u2 (pre suf : CoefItems R) (k : Key) (v c : PyCoef R) (h : k ∉ pre.map Prod.fst) :
    putCoef (pre ++ (k, v) :: suf) k c = pre ++ (k, c) :: suf := by
  induction pre with
  | nil => simp [putCoef]
  | cons a t ih =>
    obtain ⟨k', w⟩ := a
    have hk : k' ≠ k := fun e => h (by simp [e])
    simp only [List.cons_append, putCoef, hk, if_false]
    rw [ih (fun hm => h (by simp [hm]))]

theorem erase_mid_u2 (pre suf : CoefItems R) (k : Key) (v : PyCoef R) (h : k ∉ pre.map Prod.fst) :
    eraseCoef (pre ++ (k, v) :: suf) k = pre ++ suf := by
  induction pre with
  | nil => simp [eraseCoef]
  | cons a t ih =>
    obtain ⟨k', w⟩ := a
    have hk : k' ≠ k := fun e => h (by simp [e])
    simp only [List.cons_append, eraseCoef, hk, if_false]
    rw [ih (fun hm => h (by simp [hm]))]

theorem get_mid_u2 (pre suf : CoefItems R) (k : Key) (v : PyCoef R) (h : k ∉ pre.map Prod.fst) :
    getCoef (pre ++ (k, v) :: suf) k = v := by
  induction pre with
  | nil => simp [getCoef]
  | cons a t ih =>
    obtain ⟨k', w⟩ := a
    have hk : k' ≠ k := fun e => h (by simp [e])
    simp only [List.cons_append, getCoef, hk, if_false]
    exact ih (fun hm => h (by simp [hm]))

theorem step_mid_u2 (simp : R → R) (pre suf : CoefItems R) (k : Key) (v : PyCoef R) (h : k ∉ pre.map Prod.fst) :
    simplifyStep simp (pre ++ (k, v) :: suf) (k, v) =
      (if truthyCoef (simpCoefU2 simp v) then pre ++ (k, simpCoefU2 simp v) :: suf else pre ++ suf) := by
  cases v with
  | num r =>
    simp only [simplifyStep, get_mid_u2 pre suf k _ h, mulOneCoef, simpCoefU2, setCoef, put_mid_u2 pre suf k _ _ h,
      erase_mid_u2 pre suf k _ h]
    first | done | rfl | (split_ifs <;> rfl)
  | sym e =>
    simp only [simplifyStep, simpCoefU2, setCoef, put_mid_u2 pre suf k _ _ h, erase_mid_u2 pre suf k _ h]
    first | done | rfl | (split_ifs <;> rfl)

/-- on a dict (distinct keys) `simplify` rewrites every item in place, or removes it when the result is falsy -/
theorem foldl_simplify_u2 (simp : R → R) :
    ∀ (suf pre : CoefItems R), ((pre ++ suf).map Prod.fst).Nodup →
      suf.foldl (simplifyStep simp) (pre ++ suf) = pre ++ simpKeepU2 simp suf := by
  intro suf
  induction suf with
  | nil => intro pre _; rfl
  | cons a t ih =>
    intro pre hnd
    obtain ⟨k, v⟩ := a
    have hsplit := List.nodup_append.mp (by simpa only [List.map_append] using hnd)
    have hk : k ∉ pre.map Prod.fst := fun hm => hsplit.2.2 k hm k (by simp) rfl
    have hkt : k ∉ t.map Prod.fst := by
      have := hsplit.2.1
      simp only [List.map_cons, List.nodup_cons] at this
      exact this.1
    rw [List.foldl_cons, step_mid_u2 simp pre t k v hk]
    by_cases ht : truthyCoef (simpCoefU2 simp v) = true
    · simp only [ht, if_true, simpKeepU2]
      have := ih (pre ++ [(k, simpCoefU2 simp v)]) (by
        simp only [List.map_append, List.map_cons, List.map_nil, List.append_assoc, List.cons_append, List.nil_append]
        simpa only [List.map_append, List.map_cons] using hnd)
      simpa only [List.append_assoc, List.cons_append, List.nil_append] using this
    · simp only [ht, if_false, simpKeepU2, Bool.false_eq_true]
      exact ih pre (by
        simp only [List.map_append] at hnd ⊢
        have h1 := hsplit.1
        have h2 : (t.map Prod.fst).Nodup := by
          have := hsplit.2.1; simp only [List.map_cons, List.nodup_cons] at this; exact this.2
        exact List.nodup_append.mpr ⟨h1, h2, fun a ha b hb => hsplit.2.2 a ha b (by simp [hb])⟩)

theorem simplifyItems_keep_u2 (simp : R → R) (items : CoefItems R) (hnd : (items.map Prod.fst).Nodup) :
    simplifyItems simp items = simpKeepU2 simp items := by
  have := foldl_simplify_u2 simp items [] (by simpa using hnd)
  simpa [simplifyItems] using this

/-- the values `subs` stores for the items of a dict -/
def subsKeepU2 (ψ : PyCoef R → Rat) : CoefItems R → Poly
  | [] => []
  | (k, v) :: r => if ψ v = 0 then subsKeepU2 ψ r else (k, ψ v) :: subsKeepU2 ψ r

theorem keys_subsKeep_u2 (ψ : PyCoef R → Rat) (items : CoefItems R) (k : Key) (h : k ∉ items.map Prod.fst) :
    k ∉ (subsKeepU2 ψ items).map Prod.fst := by
  induction items with
  | nil => simp [subsKeepU2]
  | cons a t ih =>
    obtain ⟨k', v⟩ := a
    have hk : k ≠ k' := fun e => h (by simp [e])
    have ht : k ∉ t.map Prod.fst := fun hm => h (by simp [hm])
    simp only [subsKeepU2]
    split_ifs
    · exact ih ht
    · simp only [List.map_cons, List.mem_cons, not_or]; exact ⟨hk, ih ht⟩

theorem erase_fresh_u2 (p : Poly) (k : Key) (h : k ∉ p.map Prod.fst) : erase p k = p := by
  induction p with
  | nil => rfl
  | cons a t ih =>
    obtain ⟨k', w⟩ := a
    have hk : k' ≠ k := fun e => h (by simp [e])
    simp only [erase, hk, if_false]
    rw [ih (fun hm => h (by simp [hm]))]

theorem put_fresh_u2 (p : Poly) (k : Key) (v : Rat) (h : k ∉ p.map Prod.fst) : put p k v = p ++ [(k, v)] := by
  induction p with
  | nil => rfl
  | cons a t ih =>
    obtain ⟨k', w⟩ := a
    have hk : k' ≠ k := fun e => h (by simp [e])
    simp only [put, hk, if_false, List.cons_append]
    rw [ih (fun hm => h (by simp [hm]))]

theorem foldl_subs_u2 (ψ : PyCoef R → Rat) :
    ∀ (items : CoefItems R) (acc : Poly), ((acc.map Prod.fst) ++ (items.map Prod.fst)).Nodup →
      items.foldl (fun d kv => set d kv.1 (ψ kv.2)) acc = acc ++ subsKeepU2 ψ items := by
  intro items
  induction items with
  | nil => intro acc _; simp [subsKeepU2]
  | cons a t ih =>
    intro acc hnd
    obtain ⟨k, v⟩ := a
    have hsplit := List.nodup_append.mp hnd
    have hk : k ∉ acc.map Prod.fst := fun hm => hsplit.2.2 k hm k (by simp) rfl
    have ht : (t.map Prod.fst).Nodup := by
      have := hsplit.2.1; simp only [List.map_cons, List.nodup_cons] at this; exact this.2
    have hkt : k ∉ t.map Prod.fst := by
      have := hsplit.2.1; simp only [List.map_cons, List.nodup_cons] at this; exact this.1
    have hs : set acc k (ψ v) = (if ψ v = 0 then acc else acc ++ [(k, ψ v)]) := by
      unfold set
      split_ifs
      · exact erase_fresh_u2 acc k hk
      · exact put_fresh_u2 acc k _ hk
    rw [List.foldl_cons]
    show List.foldl (fun d kv => set d kv.1 (ψ kv.2)) (set acc k (ψ v)) t = _
    rw [hs]
    by_cases hz : ψ v = 0
    · simp only [hz, if_true, subsKeepU2]
      exact ih acc (List.nodup_append.mpr ⟨hsplit.1, ht, fun a ha b hb => hsplit.2.2 a ha b (by simp [hb])⟩)
    · simp only [hz, if_false, subsKeepU2]
      rw [ih (acc ++ [(k, ψ v)]) (by
        simp only [List.map_append, List.map_cons, List.map_nil, List.append_assoc, List.cons_append, List.nil_append]
        simpa only [List.map_cons] using hnd)]
      simp

theorem subsItems_keep_u2 (ψ : PyCoef R → Rat) (items : CoefItems R) (hnd : (items.map Prod.fst).Nodup) :
    subsItems ψ items = subsKeepU2 ψ items := by
  have := foldl_subs_u2 ψ items [] (by simpa using hnd)
  simpa [subsItems] using this

theorem keys_simpKeep_u2 (simp : R → R) (items : CoefItems R) (k : Key) (h : k ∉ items.map Prod.fst) :
    k ∉ (simpKeepU2 simp items).map Prod.fst := by
  induction items with
  | nil => simp [simpKeepU2]
  | cons a t ih =>
    obtain ⟨k', v⟩ := a
    have hk : k ≠ k' := fun e => h (by simp [e])
    have ht : k ∉ t.map Prod.fst := fun hm => h (by simp [hm])
    simp only [simpKeepU2]
    split_ifs
    · simp only [List.map_cons, List.mem_cons, not_or]; exact ⟨hk, ih ht⟩
    · exact ih ht

theorem nodup_simpKeep_u2 (simp : R → R) (items : CoefItems R) (hnd : (items.map Prod.fst).Nodup) :
    ((simpKeepU2 simp items).map Prod.fst).Nodup := by
  induction items with
  | nil => simp [simpKeepU2]
  | cons a t ih =>
    obtain ⟨k, v⟩ := a
    simp only [List.map_cons, List.nodup_cons] at hnd
    simp only [simpKeepU2]
    split_ifs
    · simp only [List.map_cons, List.nodup_cons]; exact ⟨keys_simpKeep_u2 simp t k hnd.1, ih hnd.2⟩
    · exact ih hnd.2

/-- **`subs` after `simplify` = `subs`.**  If sympy's `simplify` followed by `* 1.` preserves the value of every expression
under the substitution `φ` (`hφ`) and a falsy expression has value `0` (`hz`), then for every dict (distinct keys)
substituting into the simplified dict gives what substituting into the original gives. -/
theorem subs_simplifyItems_u2 (φ : R → Rat) (simp : R → R)
    (hφ : ∀ e, φ (Coef.mul (simp e) (Coef.ofRat 1)) = φ e)
    (hz : ∀ e, Coef.isZero e = true → φ e = 0)
    (items : CoefItems R) (hnd : (items.map Prod.fst).Nodup) :
    subsItems (coefVal φ) (simplifyItems simp items) = subsItems (coefVal φ) items := by
  rw [simplifyItems_keep_u2 simp items hnd, subsItems_keep_u2 _ _ (nodup_simpKeep_u2 simp items hnd),
    subsItems_keep_u2 _ _ hnd]
  clear hnd
  induction items with
  | nil => rfl
  | cons a t ih =>
    obtain ⟨k, v⟩ := a
    have hval : coefVal φ (simpCoefU2 simp v) = coefVal φ v := by
      cases v with
      | num r => simp [simpCoefU2, coefVal]
      | sym e => simp [simpCoefU2, coefVal, hφ]
    have hfalsy : truthyCoef (simpCoefU2 simp v) = false → coefVal φ v = 0 := by
      intro h
      cases v with
      | num r =>
        simp only [simpCoefU2, truthyCoef, decide_eq_false_iff_not, not_not] at h
        simpa [coefVal] using h
      | sym e =>
        simp only [simpCoefU2, truthyCoef, Bool.not_eq_false'] at h
        rw [← hval]
        exact hz _ h
    simp only [simpKeepU2]
    by_cases ht : truthyCoef (simpCoefU2 simp v) = true
    · simp only [ht, if_true, subsKeepU2, hval, ih]
    · have ht' : truthyCoef (simpCoefU2 simp v) = false := by simpa using ht
      simp only [ht', subsKeepU2, hfalsy ht', if_true, ih, Bool.false_eq_true, if_false]

/-! ## non-vacuity -/

example : (dict_simplify_u2 [([0], PyCoef.sym RatPoly.X), ([1], .num 3), ([2], .sym ⟨[]⟩), ([3], .sym ⟨[0, 0, 1/2]⟩)]
    (fun e => e)).toOption.map (fun d => d.map (fun kv => (kv.1, coefVal (RatPoly.evalAt 2) kv.2)))
      = some [([0], 2), ([1], 3), ([3], 2)] := by
  decide +kernel

end Qv.Gen
