import Qv.Proofs.GenEq.Problems5
/-!
# GenEq.Problems6Ops — step (C) of `SetCover.to_qubo` (C10), both `log_trick` modes: the definition generated from
`np/covering/_set_cover.py` (with its helpers `_x`, `_filtered_range`) equals the model's `SC.toQubo` for every instance whose
weights have the length of `V` (what `__init__` checks) and whose `U` has no repeated element (it is a set).

Two steps: (C) the generated loops run exactly the item statements `pb2_scOps` (the loop structure of the source written as a list:
`::`, `++`, `flatMap` — unfolded into the loop program by the unconditional `pb2_iaddD_*` lemmas and compared statement by statement);
(D) that list is the model's `SC.ops` (pure list reasoning: `triOps` over an ascending list, ranges, the running index of `alpha`).
-/
set_option linter.unusedTactic false
set_option linter.unreachableTactic false
set_option linter.unusedSimpArgs false
set_option linter.unusedVariables false
namespace Qv.Gen
open Qv Qv.Prob

/-- the label `_x(alpha, m)` as the generated code computes it (in `Int`, then read as a natural number) -/
def pb2_xg (p : SC) (ia m : Nat) : Nat :=
  Int.toNat (((p.N + ia : Nat) : Int) + (p.n : Int) * (if p.logTrick = true then (m : Int) else (m : Int) - ((1 : Nat) : Int)))

def pb2_F (p : SC) (alpha : Var) (s : Nat) : List Nat :=
  (pyRange2 s p.N).filter (fun k => (p.V.getD k []).contains alpha)

/-- the item statements of one pass of `for alpha in self._U`, in the loop structure of the source -/
def pb2_alphaOps (p : SC) (A : Rat) (alpha : Var) (ia : Nat) : Ops :=
  (if p.logTrick = false then
    (pyRange2 1 (p.M + 1)).flatMap (fun m =>
      ([pb2_xg p ia m, pb2_xg p ia m], -A) ::
      (pyRange2 (m + 1) (p.M + 1)).flatMap (fun mp => [([pb2_xg p ia m, pb2_xg p ia mp], 2 * A)])) ++
    (pyRange2 1 (p.M + 1)).flatMap (fun m =>
      ([pb2_xg p ia m, pb2_xg p ia m], A * (m : Rat) * (m : Rat)) ::
      ((pyRange2 (m + 1) (p.M + 1)).flatMap (fun mp => [([pb2_xg p ia m, pb2_xg p ia mp], 2 * A * (m : Rat) * (mp : Rat))]) ++
       (pb2_F p alpha 0).flatMap (fun j => [([j, pb2_xg p ia m], -(2 * A * (m : Rat)))])))
  else
    (List.range (p.logM + 1)).flatMap (fun m =>
      ([pb2_xg p ia m, pb2_xg p ia m], A * ((2 : Rat) ^ (2 * m) + 2 * (2 : Rat) ^ m)) ::
      ((pyRange2 (m + 1) (p.logM + 1)).flatMap (fun mp => [([pb2_xg p ia m, pb2_xg p ia mp], 2 * A * (2 : Rat) ^ (m + mp))]) ++
       (pb2_F p alpha 0).flatMap (fun j => [([j, pb2_xg p ia m], -(2 * A * (2 : Rat) ^ m))])))) ++
  (pb2_F p alpha 0).flatMap (fun i =>
    ([i], if p.logTrick = false then A else -A) :: (pb2_F p alpha (i + 1)).flatMap (fun j => [([i, j], 2 * A)]))

def pb2_scOps (p : SC) (A B : Rat) : Ops :=
  ([], (p.n : Rat) * A) ::
  ((List.range p.N).flatMap (fun i => [([i], p.weights.getD i 0 * B)]) ++
   p.U.flatMap (fun alpha => pb2_alphaOps p A alpha (p.U.idxOf alpha)))

theorem pb2_x_gen (p : SC) (alpha : Var) (m : Nat) (h : alpha ∈ p.U) :
    SetCover__x p.U p.V p.weights p.logTrick p.M p.logM p.N p.n alpha m = .ok
      (((p.N + p.U.idxOf alpha : Nat) : Int) + (p.n : Int) * (if p.logTrick = true then (m : Int) else (m : Int) - ((1 : Nat) : Int))) := by
  unfold SetCover__x
  simp only [pb2_pyIndexOf_mem p.U alpha h, ok_bindP]

theorem pb2_lazy_gen (p : SC) (alpha : Var) (s : Nat) (Q : Poly) (body : Poly → Nat → Except Err Poly) :
    (SetCover__filtered_range p.U p.V p.weights p.logTrick p.M p.logM p.N p.n alpha s >>= fun F => pb2ForLazyM F Q body)
      = pyForM (pb2_F p alpha s) Q body := by
  rw [SetCover__filtered_range_eq_model, pb2_filtered_eq]
  rfl

/-- (C) the generated loops run the statements `pb2_scOps` -/
theorem pb2_to_qubo_ops (p : SC) (hw : p.weights.length = p.N) (A B : Rat) :
    SetCover_to_qubo p.U p.V p.weights p.logTrick p.M p.logM p.N p.n A B = iaddD (squash .qubom) [] (pb2_scOps p A B) := by
  unfold SetCover_to_qubo pb2_scOps
  simp only [pb2_iaddD_cons, pb2_iaddD_append, pb2_iaddD_flatMap, pb2_iaddD_nil, pyMatIAddNum, iaddC, pyMatIAddItem, bind_ok_id,
    bind_assocP]
  apply bind_congrP
  intro Q0
  rw [pyForM_congr (List.range p.N) _ (fun acc a => addTerm (squash .qubom) acc [a] (p.weights.getD a 0 * B)) (by
    intro i hi acc
    have hi' : i < p.weights.length := by rw [hw]; exact List.mem_range.1 hi
    simp [pyListAt, List.getElem?_eq_getElem hi', List.getD_eq_getElem?_getD])]
  apply bind_congrP
  intro Q1
  apply pyForM_congr
  intro alpha ha Q
  unfold pb2_alphaOps
  simp only [pb2_x_gen p alpha _ ha, pb2_lazy_gen, ok_bindP, pb2_iaddD_cons, pb2_iaddD_append, pb2_iaddD_flatMap, pb2_iaddD_nil,
    pb2_iaddD_ite, bind_ok_id, bind_assocP, pb2_xg]
  cases hl : p.logTrick
  all_goals simp only [if_true, if_false, Bool.false_eq_true, reduceCtorEq]
  all_goals first
  | rfl
  | (simp only [bind_assocP]; done)
  | (simp only [bind_assocP, bind_ok_id]; rfl)

end Qv.Gen
