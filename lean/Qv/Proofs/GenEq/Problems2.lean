import Qv.Proofs.GenEq.ProblemsLib
/-!
# GenEq.Problems2 — `VertexCover` (C10): the definitions generated from `np/covering/_vertex_cover.py` equal the hand-written
model `Qv.Prob.VC` for every instance.

Instance data: `_edges = p.edges` (ANY enumeration order of the edge set: the model's results are stated for the list as given),
`_vertex_to_index` / `_index_to_vertex` = the sorted vertex list `p.vertices`, `_N = len(vertices)`.
-/
set_option linter.unusedTactic false
set_option linter.unreachableTactic false
set_option linter.unusedSimpArgs false
set_option linter.unusedVariables false
namespace Qv.Gen
open Qv Qv.Prob

/-! ## VertexCover -/

theorem pyForM_edgeLoop (vs : List Var) (A : Rat) (body : Poly → Var × Var → Except Err Poly)
    (h : ∀ Q u v, body Q (u, v) =
      (indexIn vs u >>= fun iu => indexIn vs v >>= fun iv => consOR St.fresh [.lbl iu, .lbl iv] A >>= fun st =>
        iaddD (squash .qubom) Q st.terms))
    (edges : List (Var × Var)) (Q : Poly) : pyForM edges Q body = VC.edgeLoop vs A Q edges := by
  induction edges generalizing Q with
  | nil => rfl
  | cons e r ih =>
    obtain ⟨u, v⟩ := e
    simp only [pyForM, VC.edgeLoop, h, bind_assocP, ih]
    all_goals first | rfl | (simp only [bind, pure, Except.bind, Except.pure]; done)

theorem VertexCover_to_qubo_eq_model (p : VC) (A B : Rat) :
    VertexCover_to_qubo p.edges p.vertices p.numVars A B = p.toQubo A B := by
  unfold VertexCover_to_qubo VC.toQubo Prob.build
  simp only []
  rw [pyForM_iadd (squash .qubom) _ (fun i => [i]) (fun _ => B) _ (by
    intro i _ acc
    simp only [pyMatIAddItem, bind_ok_id])]
  simp only [bind_ok_id]
  apply bind_congrP
  intro Q
  exact pyForM_edgeLoop p.vertices A _ (by
    intro Q u v
    simp only [pyIndexOf_eq_indexIn, pyPcboOR, pyMatIAdd, bind_ok_id, bind_assocP, ok_bindP]) p.edges Q

/-- `to_qubo()` with the default weights `A = 2`, `B = 1` -/
theorem VertexCover_to_qubo_default_eq_model (p : VC) :
    VertexCover_to_qubo_default p.edges p.vertices p.numVars = p.toQubo 2 1 := by
  unfold VertexCover_to_qubo_default
  exact VertexCover_to_qubo_eq_model p 2 1

/-- `set(inv[i] for i, x in solution.items() if x)` -/
theorem pyMapM_filter_vcPick (vs : List Var) (q : Nat × Rat → Bool) (f : Nat × Rat → Except Err Var)
    (hq : ∀ it, q it = decide (it.2 ≠ 0)) (hf : ∀ it, f it = vertexAt vs it.1) (s : Sol) :
    (pyMapM (List.filter q s) f >>= fun l => .ok (pySortedSet l)) = VC.pick vs s := by
  induction s with
  | nil => rfl
  | cons a r ih =>
    obtain ⟨i, x⟩ := a
    have hqa : q (i, x) = decide (x ≠ 0) := hq (i, x)
    by_cases hx : x = 0
    · subst hx
      have hq0 : q (i, 0) = false := by simpa using hq (i, 0)
      simp [List.filter_cons, hq0, VC.pick, ih]
    · have hq1 : q (i, x) = true := by simpa [hx] using hq (i, x)
      simp only [List.filter_cons, hq1, hx, VC.pick, pyMapM, hf, ← ih, if_true, ne_eq, not_false_eq_true, decide_true]
      cases vertexAt vs i with
      | error e => rfl
      | ok a =>
        cases pyMapM (List.filter q r) f with
        | error e => rfl
        | ok l => simp [bind, pure, Except.bind, Except.pure, pySortedSet, squashB]

theorem VertexCover_convert_solution_eq_model (p : VC) (s : Sol) (isDict spin : Bool) :
    VertexCover_convert_solution p.edges p.vertices p.numVars s isDict spin = p.convert s spin := by
  unfold VertexCover_convert_solution VC.convert toBoolSol solValues pySpinToBoolean
  have key : ∀ s' : Sol, (pyMapM (List.filter (fun it => decide (it.2 ≠ 0)) s') (fun it => pyDictAt p.vertices it.1)
      >>= fun l => .ok (pySortedSet l)) = VC.pick p.vertices s' :=
    fun s' => pyMapM_filter_vcPick p.vertices _ _ (by intro it; rfl) (by intro it; simp [pyDictAt_eq_vertexAt]) s'
  simp only [is_solution_spin_eq_model, bind_ok_id, ok_bindP]
  split <;> split <;>
  · simp only [← key]
    all_goals first
    | rfl
    | (simp only [bind_assocP, bind_ok_id, ok_bindP]; done)
    | (simp only [bind, pure, Except.bind, Except.pure]; done)
    | (cases solMap s2bVal s <;> simp [bind, pure, Except.bind, Except.pure])

theorem VertexCover_is_solution_valid_converted_eq_model (p : VC) (c : List Var) (spin : Bool) :
    VertexCover_is_solution_valid_converted p.edges p.vertices p.numVars c spin = .ok (p.validConv c) := by
  unfold VertexCover_is_solution_valid_converted VC.validConv
  congr 1
  apply List.all_congr rfl
  intro e
  all_goals first
  | rfl
  | (simp; done)
  | (cases h1 : c.contains e.1 <;> cases h2 : c.contains e.2 <;> simp_all)

theorem VertexCover_is_solution_valid_eq_model (p : VC) (s : Sol) (isDict spin : Bool) :
    VertexCover_is_solution_valid p.edges p.vertices p.numVars s isDict spin = p.valid s spin := by
  unfold VertexCover_is_solution_valid VC.valid
  rw [VertexCover_convert_solution_eq_model]
  cases p.convert s spin with
  | error e => rfl
  | ok c =>
    have := VertexCover_is_solution_valid_converted_eq_model p c spin
    unfold VertexCover_is_solution_valid_converted at this
    simpa [bind, pure, Except.bind, Except.pure] using this

end Qv.Gen
