import Qv.Gen.SourceLogic
import Qv.Proofs.GenEq.Sat
import Mathlib.Algebra.Order.Ring.Rat
/-!
# GenEq.Logic — the sixteen logic-constraint methods of `PCBO` generated from `qubovert/_pcbo.py` equal the
model's `consNOT`, …, `consEqNOT` (`Qv/Model/PcboLogic.lean`) (C06)

Whole method bodies, for operand lists of any length, under the operand scope of the sat builders
(`BoolOperand`: labels, plain dicts, models of the five boolean classes).  The call
`self.add_constraint_eq_zero(P, lam, bounds=…)` at the end of every method is the prelude's `pyAddEqZero`
(= the model's `eqZeroV`).
-/
set_option linter.unusedTactic false
set_option linter.unreachableTactic false
set_option linter.unusedSimpArgs false
set_option linter.unusedVariables false
namespace Qv.Gen

theorem ve_leaf (v : Val) : VE.run (VE.leaf v) = .ok v := rfl
theorem ve_coe (v : Val) : VE.run (↑v : VE) = .ok v := rfl
theorem ve_num (n : Nat) : VE.run (OfNat.ofNat n : VE) = .ok (.num (n : Rat)) := rfl
theorem ve_add (a b : VE) : VE.run (a + b) = (a.run >>= fun x => b.run >>= fun y => Val.add x y) := rfl
theorem ve_sub (a b : VE) : VE.run (a - b) = (a.run >>= fun x => b.run >>= fun y => Val.sub x y) := rfl
theorem ve_mul (a b : VE) : VE.run (a * b) = (a.run >>= fun x => b.run >>= fun y => Val.mul x y) := rfl

theorem do_bind {α β : Type} (a : Except Err α) (f : α → Except Err β) : (do let x ← a; f x) = (a >>= f) := rfl

/-- normal form used on both sides -/
macro "ve_norm" : tactic =>
  `(tactic| simp only [ve_add, ve_sub, ve_mul, ve_num, ve_coe, ve_leaf, ok_bind', bind_ok_self, bind_assoc',
      pyAddEqZero, pyNewPCBO, Nat.cast_ofNat, Nat.cast_one, Nat.cast_zero])

macro "ve_done" : tactic => `(tactic| ((try ve_norm) <;> (try rfl)))

/-- a generated `for v in vs: acc *= BUFFER(v)` loop is the model's `andLoop` -/
theorem half_loop (f : Val → SVal → Except Err Val) (vs : List SVal) (h : ∀ v ∈ vs, BoolOperand v) (acc : Val)
    (hf : ∀ a v, f a v = (BUFFER v >>= fun b => Val.mul a b)) : pyForM vs acc f = andLoop acc vs := by
  refine and_loop f vs acc ?_
  intro w hw a
  rw [hf, BUFFER_eq_model w (h w hw)]

theorem andV_of_ne_nil (l : List SVal) (h : l ≠ []) : andV l = andLoop (.num 1) l := by
  cases l with
  | nil => exact absurd rfl h
  | cons v r => rfl

theorem take_half_ne_nil {α : Type} (l : List α) (h : ¬ l.length < 2) : List.take (l.length / 2) l ≠ [] := by
  intro h0
  have h1 := congrArg List.length h0
  rw [List.length_take, List.length_nil] at h1
  omega

theorem drop_half_ne_nil {α : Type} (l : List α) (h : ¬ l.length < 2) : List.drop (l.length / 2) l ≠ [] := by
  intro h0
  have h1 := congrArg List.length h0
  rw [List.length_drop, List.length_nil] at h1
  omega

/-- `AND(*variables[:n // 2])` / `AND(*variables[n // 2:])` for `n ≥ 2` are the two `andLoop`s of `halves` -/
theorem and_take_half (vs : List SVal) (h : ∀ v ∈ vs, BoolOperand v) (hn : ¬ vs.length < 2) :
    AND (List.take (vs.length / 2) vs) = andLoop (.num 1) (List.take (vs.length / 2) vs) := by
  rw [AND_eq_model _ (fun v hv => h v (List.mem_of_mem_take hv)), andV_of_ne_nil _ (take_half_ne_nil vs hn)]

theorem and_drop_half (vs : List SVal) (h : ∀ v ∈ vs, BoolOperand v) (hn : ¬ vs.length < 2) :
    AND (List.drop (vs.length / 2) vs) = andLoop (.num 1) (List.drop (vs.length / 2) vs) := by
  rw [AND_eq_model _ (fun v hv => h v (List.mem_of_mem_drop hv)), andV_of_ne_nil _ (drop_half_ne_nil vs hn)]

theorem guard_bind {β : Type} (c : Prop) [Decidable c] (e : Err) (rest : Except Err β) :
    (do
      if c then throw e
      rest) = if c then .error e else rest := by
  by_cases hc : c <;> simp [hc] <;> rfl

/-! ## `add_constraint_G` -/

theorem add_constraint_NOT_eq_model (s : St) (a : SVal) (lam : Rat) (ha : BoolOperand a) :
    add_constraint_NOT s a lam = consNOT s a lam := by
  unfold add_constraint_NOT consNOT
  rw [BUFFER_eq_model a ha]
  ve_done

theorem add_constraint_BUFFER_eq_model (s : St) (a : SVal) (lam : Rat) (ha : BoolOperand a) :
    add_constraint_BUFFER s a lam = consBUFFER s a lam := by
  unfold add_constraint_BUFFER consBUFFER
  rw [NOT_eq_model a ha]
  ve_done

theorem add_constraint_AND_eq_model (s : St) (vs : List SVal) (lam : Rat) (h : ∀ v ∈ vs, BoolOperand v) :
    add_constraint_AND s vs lam = consAND s vs lam := by
  unfold add_constraint_AND consAND
  rw [AND_eq_model vs h]
  try ve_norm
  refine bind_congr' _ _ _ (fun g hg => ?_)
  exact add_constraint_BUFFER_eq_model s _ lam (boolOperand_of_kind h (andV_kind hg))

theorem add_constraint_NAND_eq_model (s : St) (vs : List SVal) (lam : Rat) (h : ∀ v ∈ vs, BoolOperand v) :
    add_constraint_NAND s vs lam = consNAND s vs lam := by
  unfold add_constraint_NAND consNAND
  rw [AND_eq_model vs h]
  try ve_norm
  refine bind_congr' _ _ _ (fun g hg => ?_)
  exact add_constraint_NOT_eq_model s _ lam (boolOperand_of_kind h (andV_kind hg))

theorem add_constraint_OR_eq_model (s : St) (vs : List SVal) (lam : Rat) (h : ∀ v ∈ vs, BoolOperand v) :
    add_constraint_OR s vs lam = consOR s vs lam := by
  unfold add_constraint_OR consOR
  rw [OR_eq_model vs h]
  ve_done

theorem add_constraint_XOR_eq_model (s : St) (vs : List SVal) (lam : Rat) (h : ∀ v ∈ vs, BoolOperand v) :
    add_constraint_XOR s vs lam = consXOR s vs lam := by
  unfold add_constraint_XOR consXOR
  rw [XOR_eq_model vs h]
  ve_done

theorem add_constraint_NOR_eq_model (s : St) (vs : List SVal) (lam : Rat) (h : ∀ v ∈ vs, BoolOperand v) :
    add_constraint_NOR s vs lam = consNOR s vs lam := by
  unfold add_constraint_NOR consNOR
  simp only [pyNewPCBO]
  rw [add_constraint_OR_eq_model _ vs 1 h]
  ve_done

theorem add_constraint_XNOR_eq_model (s : St) (vs : List SVal) (lam : Rat) (h : ∀ v ∈ vs, BoolOperand v) :
    add_constraint_XNOR s vs lam = consXNOR s vs lam := by
  unfold add_constraint_XNOR consXNOR
  simp only [pyNewPCBO]
  rw [add_constraint_XOR_eq_model _ vs 1 h]
  ve_done

/-! ## `add_constraint_eq_G` -/

theorem add_constraint_eq_BUFFER_eq_model (s : St) (a b : SVal) (lam : Rat) (ha : BoolOperand a) (hb : BoolOperand b) :
    add_constraint_eq_BUFFER s a b lam = consEqBUFFER s a b lam := by
  unfold add_constraint_eq_BUFFER consEqBUFFER
  rw [BUFFER_eq_model a ha, BUFFER_eq_model b hb]
  ve_done

theorem add_constraint_eq_NOT_eq_model (s : St) (a b : SVal) (lam : Rat) (ha : BoolOperand a) (hb : BoolOperand b) :
    add_constraint_eq_NOT s a b lam = consEqNOT s a b lam := by
  unfold add_constraint_eq_NOT consEqNOT
  simp only [pyNewPCBO]
  rw [add_constraint_BUFFER_eq_model _ a 1 ha, BUFFER_eq_model b hb]
  ve_done

theorem add_constraint_eq_XOR_eq_model (s : St) (a : SVal) (vs : List SVal) (lam : Rat) (ha : BoolOperand a)
    (h : ∀ v ∈ vs, BoolOperand v) : add_constraint_eq_XOR s a vs lam = consEqXOR s a vs lam := by
  unfold add_constraint_eq_XOR consEqXOR
  simp only [pyNewPCBO]
  rw [add_constraint_XNOR_eq_model _ vs 1 h, BUFFER_eq_model a ha]
  ve_done

theorem add_constraint_eq_XNOR_eq_model (s : St) (a : SVal) (vs : List SVal) (lam : Rat) (ha : BoolOperand a)
    (h : ∀ v ∈ vs, BoolOperand v) : add_constraint_eq_XNOR s a vs lam = consEqXNOR s a vs lam := by
  unfold add_constraint_eq_XNOR consEqXNOR
  simp only [pyNewPCBO]
  rw [add_constraint_XOR_eq_model _ vs 1 h, BUFFER_eq_model a ha]
  ve_done

theorem add_constraint_eq_AND_eq_model (s : St) (a : SVal) (vs : List SVal) (lam : Rat) (ha : BoolOperand a)
    (h : ∀ v ∈ vs, BoolOperand v) : add_constraint_eq_AND s a vs lam = consEqAND s a vs lam := by
  unfold add_constraint_eq_AND consEqAND halves
  rw [guard_bind]
  simp only []
  split_ifs with hn
  · rfl
  · rw [BUFFER_eq_model a ha]
    simp only [pySlice_to_nat, pySlice_from_nat]
    first
    | (rw [half_loop _ _ (fun v hv => h v (List.mem_of_mem_take hv)) _ (fun _ _ => by simp only [bind_ok_self]),
        half_loop _ _ (fun v hv => h v (List.mem_of_mem_drop hv)) _ (fun _ _ => by simp only [bind_ok_self])]
       ve_done)
    -- the two halves written as `AND(*variables[:n // 2])`, `AND(*variables[n // 2:])`
    | (simp only [and_take_half vs h hn, and_drop_half vs h hn]
       ve_done)

theorem add_constraint_eq_NAND_eq_model (s : St) (a : SVal) (vs : List SVal) (lam : Rat) (ha : BoolOperand a)
    (h : ∀ v ∈ vs, BoolOperand v) : add_constraint_eq_NAND s a vs lam = consEqNAND s a vs lam := by
  unfold add_constraint_eq_NAND consEqNAND halves
  rw [guard_bind]
  simp only []
  split_ifs with hn
  · rfl
  · simp only [pySlice_to_nat, pySlice_from_nat, NOT_eq_model a ha]
    first
    | (rw [half_loop _ _ (fun v hv => h v (List.mem_of_mem_take hv)) _ (fun _ _ => by simp only [bind_ok_self]),
        half_loop _ _ (fun v hv => h v (List.mem_of_mem_drop hv)) _ (fun _ _ => by simp only [bind_ok_self])]
       ve_done)
    | (simp only [and_take_half vs h hn, and_drop_half vs h hn]
       ve_done)

theorem two_of_length {α : Type} (l : List α) (h : l.length = 2) : ∃ a b, l = [a, b] := by
  match l, h with
  | [a, b], _ => exact ⟨a, b, rfl⟩

theorem add_constraint_eq_OR_eq_model (s : St) (a : SVal) (vs : List SVal) (lam : Rat) (ha : BoolOperand a)
    (h : ∀ v ∈ vs, BoolOperand v) : add_constraint_eq_OR s a vs lam = consEqOR s a vs lam := by
  unfold add_constraint_eq_OR consEqOR
  rw [guard_bind]
  simp only []
  split_ifs with hn h2
  · rfl
  · obtain ⟨v0, v1, rfl⟩ := two_of_length vs (by omega)
    rw [BUFFER_eq_model a ha]
    simp only [pyIndex_zero_cons, pyIndex_one_cons, ok_bind', BUFFER_eq_model v0 (h v0 (by simp)),
      BUFFER_eq_model v1 (h v1 (by simp))]
    ve_done
  · rw [BUFFER_eq_model a ha]
    simp only [pyNewPCBO, add_constraint_NOR_eq_model _ vs 1 h]
    split
    · exfalso; revert h2; simp
    · ve_done

theorem add_constraint_eq_NOR_eq_model (s : St) (a : SVal) (vs : List SVal) (lam : Rat) (ha : BoolOperand a)
    (h : ∀ v ∈ vs, BoolOperand v) : add_constraint_eq_NOR s a vs lam = consEqNOR s a vs lam := by
  unfold add_constraint_eq_NOR consEqNOR
  rw [guard_bind]
  simp only []
  split_ifs with hn h2
  · rfl
  · obtain ⟨v0, v1, rfl⟩ := two_of_length vs (by omega)
    rw [BUFFER_eq_model a ha]
    simp only [pyIndex_zero_cons, pyIndex_one_cons, ok_bind', BUFFER_eq_model v0 (h v0 (by simp)),
      BUFFER_eq_model v1 (h v1 (by simp))]
    ve_done
  · rw [BUFFER_eq_model a ha]
    simp only [pyNewPCBO, add_constraint_OR_eq_model _ vs 1 h]
    split
    · exfalso; revert h2; simp
    · ve_done

/-! ### Non-vacuity -/

example : (add_constraint_eq_AND {} (.lbl 0) [.lbl 1, .lbl 2] 2).toOption.map (fun s => s.terms) =
    some [([0], 6), ([1, 2], 2), ([0, 1], -4), ([0, 2], -4)] := by decide +kernel
example : (consEqAND {} (.lbl 0) [.lbl 1, .lbl 2] 2).toOption.map (fun s => s.terms) =
    some [([0], 6), ([1, 2], 2), ([0, 1], -4), ([0, 2], -4)] := by decide +kernel
example : (add_constraint_eq_AND {} (.lbl 0) [.lbl 1] 2).toOption.isNone = true := by decide +kernel
example : (add_constraint_NAND {} [.lbl 1, .val (.mdl .pcbo [([2], 1)])] 1).toOption.map (fun s => s.terms) =
    some [([1, 2], 1)] := by decide +kernel

end Qv.Gen
