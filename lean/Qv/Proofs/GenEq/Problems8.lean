import Qv.Proofs.GenEq.Problems8Lib
/-!
# GenEq.Problems8 — `JobSequencing.convert_solution` / `is_solution_valid` (C10): the definitions generated from
`np/coloring/_job_sequencing.py` equal the model's `JS.convert` / `JS.valid` / `JS.validConv` for every instance whose job labels
are distinct (keys of a dict).  The code fills a tuple of sets by `res[worker].add(job)` in worker-major order; the model builds
one sorted list per worker — the same sets, because insertion order does not matter for sorted duplicate-free lists.
-/
set_option linter.unusedTactic false
set_option linter.unreachableTactic false
set_option linter.unusedSimpArgs false
set_option linter.unusedVariables false
namespace Qv.Gen
open Qv Qv.Prob

/-- the inner loop of `convert_solution` for one worker, on that worker's set -/
def pb2_fwd (p : JS) (s : Sol) (d : Bool) (w : Nat) : List Var → List Var → Except Err (List Var)
  | acc, [] => .ok acc
  | acc, job :: r => solGet s d (p.x (pb2_idx p job) w) >>= fun v => pb2_fwd p s d w (if v = 1 then insertU job acc else acc) r

theorem pb2_js_inner (p : JS) (s : Sol) (d : Bool) (w : Nat) (body : List (List Var) → Var → Except Err (List (List Var)))
    (hb : ∀ res job, job ∈ pb2_keys p → body res job = (pySolGet s d (p.x (pb2_idx p job) w) >>= fun v =>
      if v = 1 then pb2TupSetAdd res w job else .ok res))
    (jobs : List Var) (hj : ∀ j ∈ jobs, j ∈ pb2_keys p) (res : List (List Var)) (hw : w < res.length) :
    pyForM jobs res body = (pb2_fwd p s d w (res.getD w []) jobs >>= fun sw => .ok (res.set w sw)) := by
  induction jobs generalizing res with
  | nil =>
    simp [pyForM, pb2_fwd, List.getD_eq_getElem?_getD, List.getElem?_eq_getElem hw]
  | cons job r ih =>
    have hjr : ∀ j ∈ r, j ∈ pb2_keys p := fun j hjm => hj j (List.mem_cons_of_mem _ hjm)
    simp only [pyForM, pb2_fwd, hb res job (hj job (List.mem_cons_self ..)), pySolGet, bind_assocP]
    cases solGet s d (p.x (pb2_idx p job) w) with
    | error e => rfl
    | ok v =>
      simp only [ok_bindP]
      by_cases hv : v = 1
      · have hadd : pb2TupSetAdd res w job = .ok (res.set w (insertU job (res.getD w []))) := by
          simp [pb2TupSetAdd, List.getElem?_eq_getElem hw, List.getD_eq_getElem?_getD]
        simp only [hv, if_true, hadd, ok_bindP]
        rw [ih hjr (res.set w (insertU job (res.getD w []))) (by simpa using hw)]
        simp [List.getD_eq_getElem?_getD, hw]
      · simp only [hv, if_false, ok_bindP]
        exact ih hjr res hw

theorem pb2_pick_sorted (p : JS) (s : Sol) (d : Bool) (w : Nat) (zs : List (Nat × Var)) (r : List Var)
    (h : JS.pickWorker p s d w zs = .ok r) : SSorted r := by
  induction zs generalizing r with
  | nil =>
    simp only [JS.pickWorker] at h
    cases h
    trivial
  | cons z t ih =>
    obtain ⟨ij, job⟩ := z
    simp only [JS.pickWorker] at h
    cases hv : solGet s d (p.x ij w) with
    | error e => simp [hv, bind, Except.bind] at h
    | ok v =>
      cases hr : JS.pickWorker p s d w t with
      | error e => simp [hv, hr, bind, Except.bind] at h
      | ok rest =>
        have hs := ih rest hr
        simp only [hv, hr, bind, Except.bind, pure, Except.pure] at h
        by_cases hv1 : v = 1
        · simp only [hv1, if_true] at h
          cases h
          exact (insertU_sorted job hs).1
        · simp only [hv1, if_false] at h
          cases h
          exact hs

/-- forward insertion into the worker's set = the model's backward construction -/
theorem pb2_fwd_pick (p : JS) (s : Sol) (d : Bool) (w : Nat) (zs : List (Nat × Var)) (hz : ∀ z ∈ zs, z.1 = pb2_idx p z.2)
    (acc : List Var) (ha : SSorted acc) :
    pb2_fwd p s d w acc (zs.map Prod.snd) = (JS.pickWorker p s d w zs >>= fun r => .ok (pb2_union acc r)) := by
  induction zs generalizing acc with
  | nil => rfl
  | cons z t ih =>
    obtain ⟨ij, job⟩ := z
    have hij : ij = pb2_idx p job := hz (ij, job) (List.mem_cons_self ..)
    have ht : ∀ z ∈ t, z.1 = pb2_idx p z.2 := fun z hzm => hz z (List.mem_cons_of_mem _ hzm)
    simp only [List.map_cons, pb2_fwd, JS.pickWorker, ← hij, bind_assocP]
    cases solGet s d (p.x ij w) with
    | error e => rfl
    | ok v =>
      simp only [ok_bindP]
      by_cases hv : v = 1
      · simp only [hv, if_true]
        rw [ih ht (insertU job acc) (insertU_sorted job ha).1]
        cases hr : JS.pickWorker p s d w t with
        | error e => rfl
        | ok rest =>
          simp only [ok_bindP, bind, Except.bind, pure, Except.pure]
          rw [pb2_union_insert acc rest job ha (pb2_pick_sorted p s d w t rest hr)]
      · simp only [hv, if_false]
        rw [ih ht acc ha]
        cases JS.pickWorker p s d w t <;> rfl

theorem pb2_zip_idx (p : JS) (hk : (pb2_keys p).Nodup) :
    ∀ z ∈ (List.range p.N).zip (p.lengths.map Prod.fst), z.1 = pb2_idx p z.2 := by
  intro z hz
  obtain ⟨i, hi1, hi2⟩ := List.mem_iff_getElem.1 hz
  have hlen : i < (pb2_keys p).length := by
    simp [JS.N, pb2_keys] at hi1 ⊢
    omega
  subst hi2
  simp only [List.getElem_zip, List.getElem_range]
  exact (hk.idxOf_getElem i hlen).symm

/-- one worker of the model = the forward loop from the empty set -/
theorem pb2_fwd_worker (p : JS) (hk : (pb2_keys p).Nodup) (s : Sol) (d : Bool) (w : Nat) :
    pb2_fwd p s d w [] (pb2_keys p) = JS.pickWorker p s d w ((List.range p.N).zip (p.lengths.map Prod.fst)) := by
  have hmap : ((List.range p.N).zip (p.lengths.map Prod.fst)).map Prod.snd = pb2_keys p := by
    rw [List.map_snd_zip]
    · rfl
    · simp [JS.N]
  rw [← hmap, pb2_fwd_pick p s d w _ (pb2_zip_idx p hk) [] trivial]
  cases hr : JS.pickWorker p s d w ((List.range p.N).zip (p.lengths.map Prod.fst)) with
  | error e => rfl
  | ok r =>
    have : pb2_union [] r = r := squashB_of_sorted (pb2_pick_sorted p s d w _ r hr)
    simp [this]

/-- the outer loop over the workers `a, …, m-1`, the sets of the workers before `a` being `pre` -/
theorem pb2_js_outer (p : JS) (s : Sol) (d : Bool) (step : List (List Var) → Nat → Except Err (List (List Var)))
    (f : Nat → Except Err (List Var))
    (hs : ∀ res w, w < res.length → res.getD w [] = [] → step res w = (f w >>= fun sw => .ok (res.set w sw)))
    (m a : Nat) (pre : List (List Var)) (hp : pre.length = a) (ham : a ≤ m) :
    pyForM (pyRange2 a m) (pre ++ List.replicate (m - a) []) step =
      ((pyRange2 a m).mapM f >>= fun tail => .ok (pre ++ tail)) := by
  induction hd : m - a generalizing a pre with
  | zero =>
    rw [pb2_pyRange2_empty a m (by omega)]
    simp [pyForM, hd]
  | succ k ih =>
    have hlt : a < m := by omega
    rw [pb2_pyRange2_cons a m hlt, List.mapM_cons]
    simp only [pyForM, hd, List.replicate_succ]
    have hlen : a < (pre ++ ([] :: List.replicate k ([] : List Var))).length := by simp [hp]
    have hget : (pre ++ ([] :: List.replicate k ([] : List Var))).getD a [] = [] := by
      simp [List.getD_eq_getElem?_getD, List.getElem?_append_right (Nat.le_of_eq hp), hp]
    rw [hs _ a hlen hget, bind_assocP]
    cases f a with
    | error e => rfl
    | ok sw =>
      have hset : (pre ++ ([] :: List.replicate k ([] : List Var))).set a sw = (pre ++ [sw]) ++ List.replicate k [] := by
        rw [List.set_append_right _ _ (by omega)]
        simp [hp]
      have hk' : m - (a + 1) = k := by omega
      simp only [ok_bindP, hset]
      rw [ih (a + 1) (pre ++ [sw]) (by simp [hp]) (by omega) hk']
      simp only [bind, Except.bind, pure, Except.pure]
      cases (pyRange2 (a + 1) m).mapM f <;> simp

theorem pb2_mapM_congr {α β : Type} (l : List α) (f g : α → Except Err β) (h : ∀ a ∈ l, f a = g a) : l.mapM f = l.mapM g := by
  induction l with
  | nil => rfl
  | cons a r ih =>
    rw [List.mapM_cons, List.mapM_cons, h a (List.mem_cons_self ..), ih (fun b hb => h b (List.mem_cons_of_mem _ hb))]

/-- the two nested loops of `convert_solution` on a boolean solution `s` -/
theorem pb2_js_loops (p : JS) (hk : (pb2_keys p).Nodup) (s : Sol) (d : Bool)
    (step : List (List Var) → Nat → Except Err (List (List Var)))
    (hstep : ∀ res w, w < res.length → step res w = pyForM (pb2_keys p) res (fun res job =>
      pySolGet s d (p.x (pb2_idx p job) w) >>= fun v => if v = 1 then pb2TupSetAdd res w job else .ok res)) :
    pyForM (List.range p.m) (List.map (fun (_ : Nat) => ([] : List Var)) (List.range p.m)) step =
      (List.range p.m).mapM (fun w => JS.pickWorker p s d w ((List.range p.N).zip (p.lengths.map Prod.fst))) := by
  have h0 : List.map (fun (_ : Nat) => ([] : List Var)) (List.range p.m) = [] ++ List.replicate (p.m - 0) [] := by
    simp [List.map_const']
  rw [h0, ← pb2_pyRange2_zero,
    pb2_js_outer p s d step (fun w => pb2_fwd p s d w [] (pb2_keys p)) (by
      intro res w hw hget
      rw [hstep res w hw, pb2_js_inner p s d w _ (fun _ _ _ => rfl) (pb2_keys p) (fun _ h => h) res hw, hget]) p.m 0 [] rfl
      (Nat.zero_le _)]
  simp only [List.nil_append, bind_ok_id]
  apply pb2_mapM_congr
  intro w _
  exact pb2_fwd_worker p hk s d w

theorem JobSequencing_convert_solution_eq_model (p : JS) (hk : (p.lengths.map Prod.fst).Nodup) (s : Sol) (isDict spin : Bool) :
    JobSequencing_convert_solution p.lengths (p.lengths.map Prod.fst) p.m p.logTrick p.maxL p.N p.M p.logM s isDict spin
      = p.convert s isDict spin := by
  unfold JobSequencing_convert_solution JS.convert toBoolSol solValues pySpinToBoolean
  have hkeys : List.map Prod.fst p.lengths = pb2_keys p := rfl
  have key : ∀ s' : Sol, ∀ step, (∀ res w, step res w = pyForM (pb2_keys p) res (fun res job =>
        JobSequencing__x p.lengths (pb2_keys p) p.m p.logTrick p.maxL p.N p.M p.logM job w >>= fun i =>
        pySolGet s' isDict i >>= fun v => if v = 1 then pb2TupSetAdd res w job else .ok res)) →
      pyForM (List.range p.m) (List.map (fun (_ : Nat) => ([] : List Var)) (List.range p.m)) step =
      (List.range p.m).mapM (fun w => JS.pickWorker p s' isDict w ((List.range p.N).zip (p.lengths.map Prod.fst))) := by
    intro s' step hstep
    apply pb2_js_loops p hk s' isDict step
    intro res w _
    rw [hstep res w]
    apply pyForM_congr
    intro job hjob res'
    rw [JobSequencing__x_eq_model p job w hjob, ok_bindP]
  simp only [is_solution_spin_eq_model, bind_ok_id, ok_bindP, hkeys]
  split
  · cases solMap s2bVal s with
    | error e => rfl
    | ok s' =>
      simp only [ok_bindP]
      rw [key s' _ (by
        intro res w
        first
        | rfl
        | (simp only [bind_ok_id]; done)
        | (simp only [bind_ok_id]; apply pyForM_congr; intro job _ res'; simp only [bind_ok_id, bind_assocP]; done))]
      rfl
  · rw [key s _ (by
      intro res w
      first
      | rfl
      | (simp only [bind_ok_id]; done)
      | (simp only [bind_ok_id]; apply pyForM_congr; intro job _ res'; simp only [bind_ok_id, bind_assocP]; done))]
    rfl

/-! ## `is_solution_valid` -/

/-- the state of the model's `scan` as the state of the generated loops -/
def pb2_scanRet (o : Option (List Var)) : Pb2Ret Bool (List Var) :=
  match o with
  | none => .ret false
  | some d => .run d

theorem pb2_scan_inner (body : List Var → Var → Except Err (Pb2Ret Bool (List Var)))
    (hb : ∀ acc job, body acc job = if List.contains acc job = true then .ok (.ret false) else .ok (.run (pb2SetAdd acc job)))
    (worker : List Var) (acc : List Var) :
    pb2ForRetM worker acc body = .ok (pb2_scanRet (JS.scan acc worker)) := by
  induction worker generalizing acc with
  | nil => rfl
  | cons j r ih =>
    simp only [pb2ForRetM, hb, JS.scan]
    cases hc : acc.contains j
    · simp only [Bool.false_eq_true, if_false, ok_bindP, pb2SetAdd]
      exact ih (insertU j acc)
    · simp only [if_true, ok_bindP]
      rfl

theorem pb2_scan_append (acc : List Var) (a b : List Var) :
    JS.scan acc (a ++ b) = (JS.scan acc a).bind (fun d => JS.scan d b) := by
  induction a generalizing acc with
  | nil => rfl
  | cons j r ih =>
    simp only [List.cons_append, JS.scan]
    cases acc.contains j
    · simp only [Bool.false_eq_true, if_false]
      exact ih (insertU j acc)
    · rfl

theorem pb2_scan_outer (body : List Var → List Var → Except Err (Pb2Ret Bool (List Var)))
    (hb : ∀ acc worker, body acc worker = .ok (pb2_scanRet (JS.scan acc worker)))
    (c : List (List Var)) (acc : List Var) :
    pb2ForRetM c acc body = .ok (pb2_scanRet (JS.scan acc (c.flatMap id))) := by
  induction c generalizing acc with
  | nil => rfl
  | cons w r ih =>
    simp only [pb2ForRetM, hb, List.flatMap_cons, id, pb2_scan_append, ok_bindP]
    cases JS.scan acc w with
    | none => rfl
    | some d => exact ih d

/-- `is_solution_valid` on an already converted solution (a tuple of sets of job labels) -/
theorem JobSequencing_is_solution_valid_converted_eq_model (p : JS) (c : List (List Var)) (spin : Bool) :
    JobSequencing_is_solution_valid_converted p.lengths (p.lengths.map Prod.fst) p.m p.logTrick p.maxL p.N p.M p.logM c spin
      = .ok (p.validConv c) := by
  unfold JobSequencing_is_solution_valid_converted JS.validConv
  simp only []
  rw [pb2_scan_outer _ (by
    intro acc worker
    rw [pb2_scan_inner _ (by intro acc job; first | rfl | (split <;> rfl)) worker acc]
    simp only [ok_bindP]
    cases JS.scan acc worker <;> rfl) c []]
  simp only [ok_bindP]
  cases JS.scan [] (c.flatMap id) with
  | none => rfl
  | some d =>
    simp only [pb2_scanRet, pySortedSet]
    congr 1
    all_goals first
    | rfl
    | (rw [Bool.eq_iff_iff]; simp; done)
    | (rw [Bool.eq_iff_iff]; simp only [beq_iff_eq]; exact decide_eq_true_iff)

theorem JobSequencing_is_solution_valid_eq_model (p : JS) (hk : (p.lengths.map Prod.fst).Nodup) (s : Sol) (isDict spin : Bool) :
    JobSequencing_is_solution_valid p.lengths (p.lengths.map Prod.fst) p.m p.logTrick p.maxL p.N p.M p.logM s isDict spin
      = p.valid s isDict spin := by
  unfold JobSequencing_is_solution_valid JS.valid
  rw [JobSequencing_convert_solution_eq_model p hk]
  cases p.convert s isDict spin with
  | error e => rfl
  | ok c =>
    have := JobSequencing_is_solution_valid_converted_eq_model p c spin
    unfold JobSequencing_is_solution_valid_converted at this
    simpa [bind, pure, Except.bind, Except.pure] using this

end Qv.Gen
