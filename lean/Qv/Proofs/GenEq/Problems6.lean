import Qv.Proofs.GenEq.Problems6Ops
/-!
# GenEq.Problems6 — `SetCover.to_qubo` (C10), both `log_trick` modes: the definition generated from
`np/covering/_set_cover.py` (with its helpers `_x`, `_filtered_range`) equals the model's `SC.toQubo` for every instance whose
weights have the length of `V` (what `__init__` checks) and whose `U` has no repeated element (it is a set).

Two steps: (C) the generated loops run exactly the item statements `pb2_scOps` (the loop structure of the source written as a list:
`::`, `++`, `flatMap` — unfolded into the loop program by the unconditional `pb2_iaddD_*` lemmas and compared statement by statement);
(D) that list is the model's `SC.ops` (pure list reasoning: `triOps` over an ascending list, ranges, the running index of `alpha`).
-/
set_option linter.unusedTactic false
set_option linter.unreachableTactic false
set_option linter.unusedSimpArgs false
set_option linter.unusedVariables false
namespace Qv.Gen
open Qv Qv.Prob

/-! ## (D) the statement list of the source is the model's `SC.ops` -/

theorem pb2_flatMap_single {α β : Type} (l : List α) (f : α → β) : l.flatMap (fun a => [f a]) = l.map f := by
  induction l with
  | nil => rfl
  | cons a r ih => simp [ih]

theorem pb2_flatMap_congr {α β : Type} (l : List α) (f g : α → List β) (h : ∀ a ∈ l, f a = g a) : l.flatMap f = l.flatMap g := by
  induction l with
  | nil => rfl
  | cons a r ih =>
    simp only [List.flatMap_cons, h a (List.mem_cons_self ..), ih (fun b hb => h b (List.mem_cons_of_mem _ hb))]

/-- `for a in L: head a; for b in (the later elements of L): pair a b` over the ascending list `L = [k ∈ range(a, b) | q k]`: the
later elements of `L` after `i` are `[k ∈ range(i+1, b) | q k]` -/
theorem pb2_triOps_filter (head : Nat → Ops) (pair : Nat → Nat → Ops) (q : Nat → Bool) (a b : Nat) :
    triOps head pair ((pyRange2 a b).filter q) =
      ((pyRange2 a b).filter q).flatMap (fun i => head i ++ ((pyRange2 (i + 1) b).filter q).flatMap (pair i)) := by
  induction hd : b - a generalizing a with
  | zero =>
    rw [pb2_pyRange2_empty a b (by omega)]
    rfl
  | succ d ih =>
    rw [pb2_pyRange2_cons a b (by omega), List.filter_cons]
    have ih' := ih (a + 1) (by omega)
    cases q a
    · simpa using ih'
    · simp only [if_true, triOps, List.flatMap_cons, ih', List.append_assoc]

theorem pb2_triOps_range (head : Nat → Ops) (pair : Nat → Nat → Ops) (a b : Nat) :
    triOps head pair (pyRange2 a b) =
      (pyRange2 a b).flatMap (fun i => head i ++ (pyRange2 (i + 1) b).flatMap (pair i)) := by
  have h := pb2_triOps_filter head pair (fun _ => true) a b
  simpa using h

theorem pb2_range_filter_gt (L m : Nat) : (List.range L).filter (fun mp => decide (m < mp)) = pyRange2 (m + 1) L := by
  have h := pb2_pyRange2_filter_ge 0 L (m + 1) (fun _ => true) (Nat.zero_le _)
  rw [pb2_pyRange2_zero] at h
  simpa [Nat.lt_iff_add_one_le] using h

theorem pb2_range1_filter_gt (M m : Nat) :
    ((List.range M).map (· + 1)).filter (fun mp => decide (m < mp)) = pyRange2 (m + 1) (M + 1) := by
  have h0 : (List.range M).map (· + 1) = pyRange2 1 (M + 1) := by
    rw [← pb2_pyRange2_zero, ← pb2_pyRange2_succ_map]
  have h := pb2_pyRange2_filter_ge 1 (M + 1) (m + 1) (fun _ => true) (by omega)
  rw [h0]
  simpa [Nat.lt_iff_add_one_le] using h

theorem pb2_xg_log (p : SC) (hl : p.logTrick = true) (ia m : Nat) : pb2_xg p ia m = p.x ia m := by
  unfold pb2_xg SC.x
  simp only [hl, if_true]
  have : ((p.N + ia : Nat) : Int) + (p.n : Int) * (m : Int) = ((p.N + ia + p.n * m : Nat) : Int) := by push_cast; rfl
  rw [this, Int.toNat_natCast]

theorem pb2_xg_unary (p : SC) (hl : p.logTrick = false) (ia m : Nat) (hm : 1 ≤ m) : pb2_xg p ia m = p.x ia m := by
  unfold pb2_xg SC.x
  simp only [hl, if_false, Bool.false_eq_true]
  have : ((p.N + ia : Nat) : Int) + (p.n : Int) * ((m : Int) - ((1 : Nat) : Int)) = ((p.N + ia + p.n * (m - 1) : Nat) : Int) := by
    have hm1 : ((m - 1 : Nat) : Int) = (m : Int) - 1 := by omega
    simp only [Nat.cast_add, Nat.cast_mul, hm1, Nat.cast_one]
  rw [this, Int.toNat_natCast]

theorem pb2_F_eq (p : SC) (alpha : Var) (s : Nat) : pb2_F p alpha s = p.filtered alpha s := (pb2_filtered_eq p alpha s).symm

theorem pb2_alphaOps_eq (p : SC) (A : Rat) (alpha : Var) (ia : Nat) : pb2_alphaOps p A alpha ia = p.alphaOps A alpha ia := by
  unfold pb2_alphaOps SC.alphaOps
  have hF0 : p.filtered alpha 0 = (pyRange2 0 p.N).filter (fun k => (p.V.getD k []).contains alpha) := pb2_filtered_eq p alpha 0
  have htail : triOps (fun i => [([i], if (!p.logTrick) = true then A else -A)]) (fun i j => [([i, j], 2 * A)]) (p.filtered alpha 0)
      = (pb2_F p alpha 0).flatMap (fun i => ([i], if p.logTrick = false then A else -A) ::
          (pb2_F p alpha (i + 1)).flatMap (fun j => [([i, j], 2 * A)])) := by
    rw [hF0, pb2_triOps_filter]
    unfold pb2_F
    apply pb2_flatMap_congr
    intro i _
    cases p.logTrick <;> simp
  simp only [htail]
  congr 1
  cases hl : p.logTrick
  · -- Equation 45: unary counter, m = 1 .. M
    have h0 : (List.range p.M).map (· + 1) = pyRange2 1 (p.M + 1) := by
      rw [← pb2_pyRange2_zero, ← pb2_pyRange2_succ_map]
    simp only [Bool.not_false, if_true, Bool.false_eq_true, if_false, h0, pb2_triOps_range]
    congr 1
    · apply pb2_flatMap_congr
      intro m hm
      have hm1 := ((pb2_mem_pyRange2 _ _ _).1 hm).1
      rw [pb2_xg_unary p hl ia m hm1]
      simp only [List.singleton_append, List.cons.injEq, true_and]
      apply pb2_flatMap_congr
      intro mp hmp
      have hmp1 := ((pb2_mem_pyRange2 _ _ _).1 hmp).1
      rw [pb2_xg_unary p hl ia mp (by omega)]
    · apply pb2_flatMap_congr
      intro m hm
      have hm1 := ((pb2_mem_pyRange2 _ _ _).1 hm).1
      rw [pb2_xg_unary p hl ia m hm1, ← h0, pb2_range1_filter_gt, ← pb2_flatMap_single, ← pb2_flatMap_single, pb2_F_eq]
      simp only [List.singleton_append, List.cons_append, List.cons.injEq, true_and]
      congr 1
      apply pb2_flatMap_congr
      intro mp hmp
      have hmp1 := ((pb2_mem_pyRange2 _ _ _).1 hmp).1
      rw [pb2_xg_unary p hl ia mp (by omega)]
  · -- the log trick: m = 0 .. log_M
    simp only [Bool.not_true, Bool.false_eq_true, if_false, reduceCtorEq]
    apply pb2_flatMap_congr
    intro m _
    rw [pb2_range_filter_gt, ← pb2_flatMap_single, ← pb2_flatMap_single, pb2_F_eq]
    simp only [pb2_xg_log p hl, List.singleton_append, List.cons_append, List.nil_append]

theorem pb2_allAlpha (p : SC) (A : Rat) (r : List Var) (k : Nat) (hn : r.Nodup) :
    SC.allAlphaOps p A r k = r.flatMap (fun a => p.alphaOps A a (k + r.idxOf a)) := by
  induction r generalizing k with
  | nil => rfl
  | cons a t ih =>
    have hn' := List.nodup_cons.1 hn
    simp only [SC.allAlphaOps, List.flatMap_cons, ih (k + 1) hn'.2, List.idxOf_cons_self, Nat.add_zero]
    congr 1
    apply pb2_flatMap_congr
    intro b hb
    have hab : (a == b) = false := by
      have : a ≠ b := fun h => hn'.1 (h ▸ hb)
      simpa using this
    simp only [List.idxOf_cons, hab, cond_false]
    congr 1
    omega

/-- (D) -/
theorem pb2_scOps_eq (p : SC) (hw : p.weights.length = p.N) (hU : p.U.Nodup) (A B : Rat) : pb2_scOps p A B = p.ops A B := by
  unfold pb2_scOps SC.ops
  rw [linOps_eq_map0 (fun w => w * B) p.weights, hw, pb2_allAlpha p A p.U 0 hU, pb2_flatMap_single]
  simp only [List.singleton_append, List.cons.injEq, true_and, Nat.zero_add, pb2_alphaOps_eq]
  trivial

theorem SetCover_to_qubo_eq_model (p : SC) (hw : p.weights.length = p.N) (hU : p.U.Nodup) (A B : Rat) :
    SetCover_to_qubo p.U p.V p.weights p.logTrick p.M p.logM p.N p.n A B = p.toQubo A B := by
  rw [pb2_to_qubo_ops p hw, pb2_scOps_eq p hw hU]
  rfl

/-- `to_qubo()` with the default weights `A = 2`, `B = 1` -/
theorem SetCover_to_qubo_default_eq_model (p : SC) (hw : p.weights.length = p.N) (hU : p.U.Nodup) :
    SetCover_to_qubo_default p.U p.V p.weights p.logTrick p.M p.logM p.N p.n = p.toQubo 2 1 := by
  unfold SetCover_to_qubo_default
  exact SetCover_to_qubo_eq_model p hw hU 2 1

end Qv.Gen
