import Qv.Gen.SourceResults
import Qv.Proofs.ResultsX
import Mathlib.Tactic.SplitIfs
/-!
# GenEq.Results — the definitions generated from `qubovert/sim/_anneal_results.py` equal the model `Qv.ResX` (C13)

`Qv.ResX` (`Qv/Model/ResultsX.lean`) is `Qv.Res` — the model of the theorems of `Qv/Props/C13.lean` — over values that
may be `±inf`; `Qv/Proofs/ResultsX.lean` proves `ResX.f (emb x) = emb (Res.f x)` for every function, so each theorem
here reaches the C13 theorems on finite values.  A method `m` is generated as `self → args → ArOut τ` (returned value or
exception, receiver after the call): the theorems say which value / exception and which receiver.
-/
set_option linter.unusedTactic false
set_option linter.unusedSimpArgs false
set_option linter.unusedVariables false
namespace Qv.Gen
open Qv Qv.ResX

/-- finishing tactic shared by the proofs: robust against harmless reshaping of the generated term -/
macro "py_close" : tactic =>
  `(tactic| first | rfl | (simp_all; done) | (split <;> simp_all; done) | (split_ifs <;> simp_all; done) | grind)

attribute [local simp] arRet arEval arSeq arOrE arAndE arAttr arLt arLe arOptOp arAll arDictCopy arSetBest
  arSuperInit arSuperAppend arSuperInsert arSuperRemove arSuperPop arSuperClear arSuperExtend arSuperIAdd
  arSuperSetItemInt arSuperDelItemInt arSuperSetItemSlice arSuperDelItemSlice arSuperGetItemInt arSuperGetItemSlice
  arSuperAdd arSuperMul arFilter arMapE arNew arConstruct arSpinToBoolean arBooleanToSpin
  bind Except.bind pure Except.pure

/-! ## AnnealResult -/

theorem res_eq_eq_model (r : ArRes) (o : Option ArRes) : res_eq r o = Result.eq r o := by
  cases o with
  | none => rfl
  | some b =>
    obtain ⟨s, v, f⟩ := r
    obtain ⟨s', v', f'⟩ := b
    simp [res_eq, Result.eq, Result.mk.injEq]

theorem res_lt_eq_model (r : ArRes) (o : Option ArRes) : res_lt r o = Result.lt r o := by
  cases o <;> simp [res_lt, Result.lt] <;> rfl

theorem res_le_eq_model (r : ArRes) (o : Option ArRes) : res_le r o = Result.le r o := by
  cases o <;> simp [res_le, Result.le] <;> rfl

theorem res_copy_eq_model (r : ArRes) : res_copy r = Result.copy r := by
  simp [res_copy, Result.copy]

theorem res_to_boolean_eq_model (r : ArRes) : res_to_boolean r = Result.toBoolean r := by
  unfold res_to_boolean Result.toBoolean
  cases h : r.spin <;> simp [res_copy_eq_model, Result.copy] <;> (try cases Res.spinToBool r.state) <;> (try py_close)

theorem res_to_spin_eq_model (r : ArRes) : res_to_spin r = Result.toSpin r := by
  unfold res_to_spin Result.toSpin
  cases h : r.spin <;> simp [res_copy_eq_model, Result.copy] <;> (try cases Res.boolToSpin r.state) <;> (try py_close)

/-! ## `_recompute_best`, `append`, the constructor -/

theorem arForE_upd (l : List ArRes) (b : Option ArRes)
    (body : Option ArRes → ArRes → Except Err (Option ArRes)) (h : ∀ b r, body b r = .ok (upd b r)) :
    arForE l b body = .ok (l.foldl upd b) := by
  induction l generalizing b with
  | nil => rfl
  | cons x xs ih => simp [arForE, h, ih]

theorem recompute_best_eq_model (s : ArObj) : recompute_best s = .ok (recompute s.items) := by
  unfold recompute_best recompute
  simp only []
  rw [arForE_upd]
  · simp
  · intro b r
    cases b with
    | none => simp [upd, better]
    | some b => cases h : Num.lt r.value b.value <;> simp [upd, better, h]

theorem ar_append_eq_model (s : ArObj) (r : ArRes) : ar_append s r = (.ok (), s.append r) := by
  unfold ar_append
  cases hb : s.best with
  | none => simp [Coll.append, upd, better, hb]
  | some b => cases h : Num.lt r.value b.value <;> simp [Coll.append, upd, better, hb, h]

theorem arForM_append (l : List ArRes) (s : ArObj) (body : ArObj → ArRes → ArOut Unit)
    (h : ∀ s r, body s r = (.ok (), s.append r)) : arForM l s body = (.ok (), l.foldl Coll.append s) := by
  induction l generalizing s with
  | nil => rfl
  | cons x xs ih => simp [arForM, h, ih]

theorem ar_init_eq_model (s : ArObj) (l : List ArRes) : ar_init s l = (.ok (), construct l) := by
  unfold ar_init
  simp only [arSuperInit, arSeq, arSetBest]
  rw [arForM_append]
  · simp [construct, Coll.empty]
  · intro s r
    simp [ar_append_eq_model]

/-- `AnnealResults(l)` -/
theorem construct_eq (l : List ArRes) : arConstruct (fun o => ar_init o l) = .ok (construct l) := by
  simp [ar_init_eq_model]

theorem ar_add_state_eq_model (s : ArObj) (st : Res.PState) (v : ArNum) (sp : Bool) :
    ar_add_state s st v sp = (.ok (), s.append ⟨st, v, sp⟩) := by
  simp [ar_add_state, ar_append_eq_model]

/-! ## the other mutators -/

theorem ar_insert_eq_model (s : ArObj) (i : Int) (r : ArRes) : ar_insert s i r = (.ok (), s.insert i r) := by
  unfold ar_insert
  cases hb : s.best with
  | none => simp [Coll.insert, upd, better, hb, insertAt]
  | some b => cases h : Num.lt r.value b.value <;> simp [Coll.insert, upd, better, hb, h, insertAt]

/-- `remove`: `ValueError` leaves the receiver; a late `AttributeError` (`result == None`) leaves the shortened list -/
theorem ar_remove_eq_model (s : ArObj) (r : ArRes) :
    ar_remove s r = match s.remove r with
      | .error e => (.error e, s)
      | .ok (c, none) => (.ok (), c)
      | .ok (c, some e) => (.error e, c) := by
  unfold ar_remove Coll.remove
  by_cases hm : r ∈ s.items
  · simp only [arSuperRemove, hm, if_true, arSeq, res_eq_eq_model, recompute_best_eq_model]
    cases hb : s.best with
    | none => simp [Result.eq, throw, throwThe, MonadExceptOf.throw]
    | some b =>
      by_cases hrb : r = b <;> simp [Result.eq, hrb]
  · simp [arSuperRemove, hm, throw, throwThe, MonadExceptOf.throw]

theorem ar_pop_eq_model (s : ArObj) (i : Int) :
    ar_pop s i = match s.pop i with
      | .error e => (.error e, s)
      | .ok (c, x, none) => (.ok x, c)
      | .ok (c, x, some e) => (.error e, c) := by
  unfold ar_pop Coll.pop
  cases hn : Res.normIndex s.items.length i with
  | none => simp [hn, throw, throwThe, MonadExceptOf.throw]
  | some k =>
    cases hx : s.items[k]? with
    | none => simp [hn, hx, throw, throwThe, MonadExceptOf.throw]
    | some x =>
      cases hb : s.best with
      | none => simp [hn, hx, hb, res_eq_eq_model, Result.eq, removeAt, throw, throwThe, MonadExceptOf.throw]
      | some b =>
        by_cases hrb : x = b <;>
          simp [hn, hx, hb, hrb, res_eq_eq_model, recompute_best_eq_model, Result.eq, removeAt]

theorem ar_extend_list_eq_model (s : ArObj) (l : List ArRes) : ar_extend_list s l = (.ok (), s.extendList l) := by
  unfold ar_extend_list
  rw [arForM_append]
  · simp [Coll.extendList]
  · intro s r
    simp [ar_append_eq_model]

theorem ar_extend_ar_eq_model (s o : ArObj) : ar_extend_ar s o = (.ok (), s.extendAR o) := by
  unfold ar_extend_ar
  cases ho : o.best with
  | none => simp [Coll.extendAR, ho]
  | some ob =>
    cases hs : s.best with
    | none => simp [Coll.extendAR, ho, hs, upd, better]
    | some b =>
      cases h : Num.lt ob.value b.value <;>
        simp [Coll.extendAR, ho, hs, upd, better, res_lt_eq_model, Result.lt, h]

theorem ar_iadd_ar_eq_model (s o : ArObj) : ar_iadd_ar s o = (.ok .self, s.extendAR o) := by
  first
  | (unfold ar_iadd_ar
     cases ho : o.best with
     | none => simp [Coll.extendAR, ho]
     | some ob =>
       cases hs : s.best with
       | none => simp [Coll.extendAR, ho, hs, upd, better]
       | some b =>
         cases h : Num.lt ob.value b.value <;>
           simp [Coll.extendAR, ho, hs, upd, better, res_lt_eq_model, Result.lt, h])
  | simp [ar_iadd_ar, ar_extend_ar_eq_model]      -- `+=` written through `extend`

theorem ar_iadd_list_eq_model (s : ArObj) (l : List ArRes) : ar_iadd_list s l = (.ok .self, s.extendList l) := by
  simp [ar_iadd_list, ar_extend_list_eq_model]

/-- an `Except Err Coll` as the outcome of a mutator that raises before changing anything -/
def outOf (s : ArObj) (r : Except Err Coll) : ArOut Unit :=
  match r with
  | .ok c => (.ok (), c)
  | .error e => (.error e, s)

theorem ar_setitem_int_eq_model (s : ArObj) (i : Int) (r : ArRes) : ar_setitem_int s i r = outOf s (s.setItem i r) := by
  unfold ar_setitem_int Coll.setItem outOf
  cases hn : Res.normIndex s.items.length i <;>
    simp [hn, recompute_best_eq_model, Coll.fixup, replaceAt, throw, throwThe, MonadExceptOf.throw]

theorem ar_delitem_int_eq_model (s : ArObj) (i : Int) : ar_delitem_int s i = outOf s (s.delItem i) := by
  unfold ar_delitem_int Coll.delItem outOf
  cases hn : Res.normIndex s.items.length i <;>
    simp [hn, recompute_best_eq_model, Coll.fixup, removeAt, throw, throwThe, MonadExceptOf.throw]

theorem ar_setitem_slice_eq_model (s : ArObj) (sl : ArSlice) (v : List ArRes) :
    ar_setitem_slice s sl v = outOf s (s.setSlice sl v) := by
  unfold ar_setitem_slice Coll.setSlice outOf
  cases h : listSetSlice s.items sl v <;> simp [h, recompute_best_eq_model, Coll.fixup]

theorem ar_delitem_slice_eq_model (s : ArObj) (sl : ArSlice) : ar_delitem_slice s sl = outOf s (s.delSlice sl) := by
  unfold ar_delitem_slice Coll.delSlice outOf
  cases h : listDelSlice s.items sl <;> simp [h, recompute_best_eq_model, Coll.fixup]

theorem ar_clear_eq_model (s : ArObj) : ar_clear s = (.ok (), s.clear) := by
  simp [ar_clear, Coll.clear, Coll.empty]

/-! ## derived collections (the receiver is unchanged) -/

theorem ar_copy_eq_model (s : ArObj) : ar_copy s = (.ok s.copy, s) := by
  simp [ar_copy, ar_init_eq_model, Coll.copy]

theorem ar_getitem_int_eq_model (s : ArObj) (i : Int) : ar_getitem_int s i = (s.getItem i, s) := by
  unfold ar_getitem_int Coll.getItem
  cases hn : Res.normIndex s.items.length i with
  | none => simp [hn, throw, throwThe, MonadExceptOf.throw]
  | some k => cases hx : s.items[k]? <;> simp [hn, hx, throw, throwThe, MonadExceptOf.throw]

theorem ar_getitem_slice_eq_model (s : ArObj) (sl : ArSlice) : ar_getitem_slice s sl = (s.getSlice sl, s) := by
  unfold ar_getitem_slice Coll.getSlice
  cases h : listGetSlice s.items sl <;> simp [h, ar_init_eq_model]

theorem ar_add_eq_model (s : ArObj) (l : List ArRes) : ar_add s l = (.ok (s.add l), s) := by
  simp [ar_add, ar_init_eq_model, Coll.add]

theorem ar_mul_eq_model (s : ArObj) (n : Int) : ar_mul s n = (.ok (s.mul n), s) := by
  simp [ar_mul, ar_init_eq_model, Coll.mul]

theorem ar_rmul_eq_model (s : ArObj) (n : Int) : ar_rmul s n = (.ok (s.mul n), s) := by
  simp [ar_rmul, ar_init_eq_model, Coll.mul]

theorem ar_filter_eq_model (s : ArObj) (f : ArRes → Bool) : ar_filter s f = (.ok (s.filter f), s) := by
  simp [ar_filter, ar_init_eq_model, Coll.filter]

theorem ar_filter_states_eq_model (s : ArObj) (f : Res.PState → Bool) :
    ar_filter_states s f = (.ok (s.filterStates f), s) := by
  simp [ar_filter_states, ar_init_eq_model, Coll.filterStates]

theorem ar_apply_function_eq_model (s : ArObj) (f : ArRes → ArRes) :
    ar_apply_function s f = (.ok (s.applyFunction f), s) := by
  simp [ar_apply_function, ar_init_eq_model, Coll.applyFunction]

theorem ar_convert_states_eq_model (s : ArObj) (f : Res.PState → Res.PState) :
    ar_convert_states s f = (.ok (s.convertStates f), s) := by
  simp [ar_convert_states, ar_apply_function_eq_model, ar_init_eq_model, Coll.convertStates, Coll.applyFunction]

theorem ar_to_boolean_eq_model (s : ArObj) : ar_to_boolean s = (s.toBoolean, s) := by
  unfold ar_to_boolean Coll.toBoolean
  have : (fun (r : ArRes) => (res_to_boolean r >>= fun (m : ArRes) => pure m)) = Result.toBoolean := by
    funext r; rw [res_to_boolean_eq_model]; cases Result.toBoolean r <;> rfl
  rw [this]
  cases h : mapE Result.toBoolean s.items <;> simp [h, ar_init_eq_model]

theorem ar_to_spin_eq_model (s : ArObj) : ar_to_spin s = (s.toSpin, s) := by
  unfold ar_to_spin Coll.toSpin
  have : (fun (r : ArRes) => (res_to_spin r >>= fun (m : ArRes) => pure m)) = Result.toSpin := by
    funext r; rw [res_to_spin_eq_model]; cases Result.toSpin r <;> rfl
  rw [this]
  cases h : mapE Result.toSpin s.items <;> simp [h, ar_init_eq_model]

/-! ## The chain to `Qv.Res`, the model of the theorems of `Qv/Props/C13.lean`

On finite values (`emb`, `embC`) every generated definition is the function of `Qv.Res` that `Res.step` runs
(`Res.impl = Impl.fixed` for the operations of D3): composition of the theorems above with `Qv/Proofs/ResultsX.lean`. -/

theorem recompute_best_eq_res (s : Res.Coll) : recompute_best (embC s) = .ok ((Res.recompute s.items).map emb) := by
  rw [recompute_best_eq_model]; simp [embC, recompute_emb]

theorem ar_append_eq_res (s : Res.Coll) (r : Res.Result) : ar_append (embC s) (emb r) = (.ok (), embC (s.append r)) := by
  rw [ar_append_eq_model, append_emb]

theorem ar_init_eq_res (o : ArObj) (l : List Res.Result) : ar_init o (l.map emb) = (.ok (), embC (Res.construct l)) := by
  rw [ar_init_eq_model, construct_emb]

theorem ar_add_state_eq_res (s : Res.Coll) (st : Res.PState) (v : Rat) (sp : Bool) :
    ar_add_state (embC s) st (.fin v) sp = (.ok (), embC (s.append ⟨st, v, sp⟩)) := by
  rw [ar_add_state_eq_model]; exact congrArg _ (append_emb s ⟨st, v, sp⟩)

theorem ar_insert_eq_res (s : Res.Coll) (i : Int) (r : Res.Result) :
    ar_insert (embC s) i (emb r) = (.ok (), embC (s.insert i r)) := by
  rw [ar_insert_eq_model, insert_emb]

/-- as `Res.step` reads `Coll.remove`: `ValueError` before any change, or the new collection with a possible late error -/
theorem ar_remove_eq_res (s : Res.Coll) (r : Res.Result) :
    ar_remove (embC s) (emb r) = match Res.Coll.remove s r with
      | .error e => (.error e, embC s)
      | .ok (c, none) => (.ok (), embC c)
      | .ok (c, some e) => (.error e, embC c) := by
  rw [ar_remove_eq_model, remove_emb]
  cases Res.Coll.remove s r with
  | error e => rfl
  | ok p => obtain ⟨c, oe⟩ := p; cases oe <;> rfl

theorem ar_pop_eq_res (s : Res.Coll) (i : Int) :
    ar_pop (embC s) i = match Res.Coll.pop s i with
      | .error e => (.error e, embC s)
      | .ok (c, x, none) => (.ok (emb x), embC c)
      | .ok (c, _, some e) => (.error e, embC c) := by
  rw [ar_pop_eq_model, pop_emb]
  cases Res.Coll.pop s i with
  | error e => rfl
  | ok p => obtain ⟨c, x, oe⟩ := p; cases oe <;> rfl

theorem ar_extend_list_eq_res (s : Res.Coll) (l : List Res.Result) :
    ar_extend_list (embC s) (l.map emb) = (.ok (), embC (s.extendList l)) := by
  rw [ar_extend_list_eq_model, extendList_emb]

theorem ar_iadd_list_eq_res (s : Res.Coll) (l : List Res.Result) :
    ar_iadd_list (embC s) (l.map emb) = (.ok .self, embC (s.extendList l)) := by
  rw [ar_iadd_list_eq_model, extendList_emb]

/-- `mutate` of `Res.step`: the outcome of a D3 operation of the table `Res.impl` -/
def outOfRes (s : Res.Coll) (r : Except Err Res.Coll) : ArOut Unit :=
  match r with
  | .ok c => (.ok (), embC c)
  | .error e => (.error e, embC s)

theorem outOf_map (s : Res.Coll) (r : Except Err Res.Coll) : outOf (embC s) (embC <$> r) = outOfRes s r := by
  cases r <;> rfl

theorem ar_extend_ar_eq_res (s o : Res.Coll) :
    ar_extend_ar (embC s) (embC o) = outOfRes s (Res.impl.extendAR s o) := by
  rw [ar_extend_ar_eq_model]
  have := extendAR_emb s o
  simp only [Res.impl, Res.Impl.fixed]
  cases h : Res.extendARFixed s o with
  | error e => rw [h] at this; cases this
  | ok c => rw [h] at this; simp only [outOfRes]; injection this with this; rw [this]

theorem ar_iadd_ar_eq_res (s o : Res.Coll) :
    ar_iadd_ar (embC s) (embC o) = match Res.impl.iaddAR s o with
      | .ok c => (.ok .self, embC c)
      | .error e => (.error e, embC s) := by
  rw [ar_iadd_ar_eq_model]
  have := extendAR_emb s o
  simp only [Res.impl, Res.Impl.fixed]
  cases h : Res.extendARFixed s o with
  | error e => rw [h] at this; cases this
  | ok c => rw [h] at this; injection this with this; simp only [this]

theorem ar_setitem_int_eq_res (s : Res.Coll) (i : Int) (r : Res.Result) :
    ar_setitem_int (embC s) i (emb r) = outOfRes s (Res.impl.setItem s i r) := by
  rw [ar_setitem_int_eq_model, setItem_emb, outOf_map]; rfl

theorem ar_delitem_int_eq_res (s : Res.Coll) (i : Int) :
    ar_delitem_int (embC s) i = outOfRes s (Res.impl.delItem s i) := by
  rw [ar_delitem_int_eq_model, delItem_emb, outOf_map]; rfl

theorem ar_setitem_slice_eq_res (s : Res.Coll) (sl : Res.Slice) (v : List Res.Result) :
    ar_setitem_slice (embC s) sl (v.map emb) = outOfRes s (Res.impl.setSlice s sl v) := by
  rw [ar_setitem_slice_eq_model, setSlice_emb, outOf_map]; rfl

theorem ar_delitem_slice_eq_res (s : Res.Coll) (sl : Res.Slice) :
    ar_delitem_slice (embC s) sl = outOfRes s (Res.impl.delSlice s sl) := by
  rw [ar_delitem_slice_eq_model, delSlice_emb, outOf_map]; rfl

theorem ar_clear_eq_res (s : Res.Coll) : ar_clear (embC s) = (.ok (), embC s.clear) := by
  rw [ar_clear_eq_model, clear_emb]

theorem ar_copy_eq_res (s : Res.Coll) : ar_copy (embC s) = (.ok (embC s.copy), embC s) := by
  rw [ar_copy_eq_model, copy_emb]

theorem ar_getitem_int_eq_res (s : Res.Coll) (i : Int) : ar_getitem_int (embC s) i = (emb <$> s.getItem i, embC s) := by
  rw [ar_getitem_int_eq_model, getItem_emb]

theorem ar_getitem_slice_eq_res (s : Res.Coll) (sl : Res.Slice) :
    ar_getitem_slice (embC s) sl = (embC <$> s.getSlice sl, embC s) := by
  rw [ar_getitem_slice_eq_model, getSlice_emb]

theorem ar_add_eq_res (s : Res.Coll) (l : List Res.Result) : ar_add (embC s) (l.map emb) = (.ok (embC (s.add l)), embC s) := by
  rw [ar_add_eq_model, add_emb]

theorem ar_mul_eq_res (s : Res.Coll) (n : Int) : ar_mul (embC s) n = (.ok (embC (s.mul n)), embC s) := by
  rw [ar_mul_eq_model, mul_emb]

theorem ar_rmul_eq_res (s : Res.Coll) (n : Int) : ar_rmul (embC s) n = (.ok (embC (s.mul n)), embC s) := by
  rw [ar_rmul_eq_model, mul_emb]

theorem ar_filter_eq_res (s : Res.Coll) (f : ArRes → Bool) :
    ar_filter (embC s) f = (.ok (embC (s.filter (fun r => f (emb r)))), embC s) := by
  rw [ar_filter_eq_model, filter_emb]

theorem ar_filter_states_eq_res (s : Res.Coll) (f : Res.PState → Bool) :
    ar_filter_states (embC s) f = (.ok (embC (s.filterStates f)), embC s) := by
  rw [ar_filter_states_eq_model, filterStates_emb]

theorem ar_convert_states_eq_res (s : Res.Coll) (f : Res.PState → Res.PState) :
    ar_convert_states (embC s) f = (.ok (embC (s.convertStates f)), embC s) := by
  rw [ar_convert_states_eq_model, convertStates_emb]

theorem ar_to_boolean_eq_res (s : Res.Coll) : ar_to_boolean (embC s) = (embC <$> s.toBoolean, embC s) := by
  rw [ar_to_boolean_eq_model, toBoolean_emb]

theorem ar_to_spin_eq_res (s : Res.Coll) : ar_to_spin (embC s) = (embC <$> s.toSpin, embC s) := by
  rw [ar_to_spin_eq_model, toSpin_emb]

theorem res_to_boolean_eq_res (r : Res.Result) : res_to_boolean (emb r) = emb <$> r.toBoolean := by
  rw [res_to_boolean_eq_model, result_toBoolean_emb]

theorem res_to_spin_eq_res (r : Res.Result) : res_to_spin (emb r) = emb <$> r.toSpin := by
  rw [res_to_spin_eq_model, result_toSpin_emb]

theorem res_copy_eq_res (r : Res.Result) : res_copy (emb r) = emb r := by
  rw [res_copy_eq_model]; rfl

theorem res_eq_eq_res (r : Res.Result) (b : Option Res.Result) : res_eq (emb r) (b.map emb) = Res.eqBest r b := by
  rw [res_eq_eq_model, eq_emb]

theorem res_lt_eq_res (r b : Res.Result) : res_lt (emb r) (some (emb b)) = .ok (decide (r.value < b.value)) := by
  rw [res_lt_eq_model, lt_emb]

theorem res_le_eq_res (r b : Res.Result) : res_le (emb r) (some (emb b)) = .ok (decide (r.value ≤ b.value)) := by
  rw [res_le_eq_model, le_emb]

/-- the headline of C13 read on the generated constructor: the object `AnnealResults(l)` builds (by the generated
`__init__`, which calls the generated `append`) satisfies the invariant of `Qv/Props/C13.lean` -/
theorem ar_init_inv (o : ArObj) (l : List Res.Result) :
    ∃ c, ar_init o (l.map emb) = (.ok (), embC c) ∧ Res.Inv c :=
  ⟨Res.construct l, ar_init_eq_res o l, Res.inv_construct l⟩

end Qv.Gen
