import Qv.Gen.Source
import Qv.Model.Pcbo
import Mathlib.Tactic.Ring
import Mathlib.Tactic.Linarith
import Mathlib.Algebra.Order.Ring.Rat
/-!
# GenEq.Bits — the generated `num_bits` equals the model's `numBits` (C02, C03, C06)
-/
-- alternatives kept for robustness against equivalent reshapings of the generated term
set_option linter.unusedTactic false
set_option linter.unreachableTactic false
namespace Qv.Gen

/-! ## `num_bits` -/

/-- on the domain the callers use (`val ≥ 0`) the generated `num_bits` returns the model's `numBits`
(a Python `int`; the model keeps it as a `Nat`) -/
theorem num_bits_eq_model (val : Rat) (logTrick : Bool) (h : 0 ≤ val) :
    num_bits val logTrick = .ok ((numBits val logTrick : Nat) : Int) := by
  have hc : (0 : Int) ≤ Rat.ceil val := by
    have : (0 : Rat) ≤ ((Rat.ceil val : Int) : Rat) := le_trans h Rat.le_ceil
    exact_mod_cast this
  obtain ⟨n, hn⟩ := Int.eq_ofNat_of_zero_le hc
  unfold num_bits
  rw [if_neg (not_lt.mpr h)]
  cases logTrick <;> simp [numBits, ceilNat, bitLength, pyCeil, pyBitLength, hn]

/-- below zero the source raises `ValueError` (the model's `numBits` is only called with `val ≥ 0`) -/
theorem num_bits_neg (val : Rat) (logTrick : Bool) (h : val < 0) : num_bits val logTrick = .error .value := by
  unfold num_bits
  rw [if_pos h]

example : num_bits (7 / 2) true = .ok 3 := by decide +kernel
example : numBits (7 / 2) true = 3 := by decide +kernel
example : num_bits (7 / 2) false = .ok 4 := by decide +kernel
example : numBits (7 / 2) false = 4 := by decide +kernel
example : num_bits 0 true = .ok 0 := by decide +kernel

end Qv.Gen
