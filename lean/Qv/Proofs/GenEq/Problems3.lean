import Qv.Proofs.GenEq.ProblemsLib
/-!
# GenEq.Problems3 — `BILP` (C10): the definitions generated from `np/bilp/_bilp.py` equal the hand-written model `Qv.Prob.BILP`
for every instance.

Instance data: `_c, _S, _b = p.c, p.S, p.b`, `_N = p.N`, `_m = len(S)` under the shape invariant `BILP.Shape` that `BILP.new`
(the model of `__init__`) establishes (`BILP.new_shape`): every row of `S` has `N` entries, `len(c) = N`, `len(b) = len(S)`.
-/
set_option linter.unusedTactic false
set_option linter.unreachableTactic false
set_option linter.unusedSimpArgs false
set_option linter.unusedVariables false
namespace Qv.Gen
open Qv Qv.Prob

/-- what `BILP.__init__` checks (`np.array(S).shape == (m, N)`, `c.shape == (N,)`, `b.shape == (m,)`) -/
structure BILPShape (p : BILP) : Prop where
  rows : ∀ r ∈ p.S, r.length = p.N
  c : p.c.length = p.N
  b : p.b.length = p.S.length

theorem BILP.new_shape {c : List Rat} {S : List (List Rat)} {b : List Rat} {p : BILP} (h : BILP.new c S b = .ok p) :
    BILPShape p := by
  unfold BILP.new at h
  cases S with
  | nil => simp at h
  | cons row rs =>
    simp only at h
    split_ifs at h with h1 h2
    injection h with h
    subst h
    simp only [List.any_eq_true, not_exists, not_and, bne_iff_ne, ne_eq, not_not, not_or] at h1 h2
    exact ⟨fun r hr => by simpa using h1 r hr, h2.1, h2.2⟩

theorem pyForM_map {α β σ : Type} (l : List α) (f : α → β) (s : σ) (body : σ → β → Except Err σ) :
    pyForM (l.map f) s body = pyForM l s (fun s a => body s (f a)) := by
  induction l generalizing s with
  | nil => rfl
  | cons a r ih =>
    simp only [List.map_cons, pyForM]
    apply bind_congrP
    intro s'
    exact ih s'

/-- `for j in range(m): <body reading S[j], b[j]>` is the model's recursion over the rows -/
theorem pyForM_range_rows (A : Rat) (S : List (List Rat)) (b : List Rat) (hb : b.length = S.length)
    (body : Poly → Nat → Except Err Poly)
    (h : ∀ j (h1 : j < S.length) (h2 : j < b.length) Q, body Q j = BILP.rowStep A Q S[j] b[j]) (Q : Poly) :
    pyForM (List.range S.length) Q body = BILP.rows A Q S b := by
  induction S generalizing b body Q with
  | nil => rfl
  | cons row rs ih =>
    cases b with
    | nil => simp at hb
    | cons bj bs =>
      simp only [List.length_cons, List.range_succ_eq_map, pyForM, BILP.rows]
      rw [h 0 (by simp) (by simp) Q]
      simp only [List.getElem_cons_zero]
      apply bind_congrP
      intro Q'
      rw [pyForM_map]
      exact ih bs (by simpa using hb) _ (fun j h1 h2 Q => by
        have := h (j + 1) (by simpa using h1) (by simpa using h2) Q
        simp only [List.getElem_cons_succ] at this
        exact this) Q'

theorem BILP_to_qubo_eq_model (p : BILP) (hp : BILPShape p) (A : Option Rat) (B : Rat) :
    BILP_to_qubo p.c p.S p.b p.N p.S.length A B = p.toQubo A B := by
  unfold BILP_to_qubo BILP.toQubo Prob.build
  have hc := hp.c
  cases A <;>
  · simp only []
    try simp only [mul_comm (p.N : Rat) B]
    rw [pyForM_iadd (squash .qubom) _ (fun i => [i]) (fun i => B * p.c.getD i 0) _ (by
      intro i hi acc
      have hi' : i < p.c.length := by rw [hc]; exact List.mem_range.mp hi
      simp only [pyListAt_lt _ _ hi', pyMatIAddItem, bind_ok_id, ok_bindP, List.getD_eq_getElem?_getD,
        List.getElem?_eq_getElem hi', Option.getD_some]
      all_goals first | rfl | (congr 1; ring))]
    have e1 := linOps_eq_map0 (fun v => B * v) p.c
    rw [hc] at e1
    rw [← e1]
    simp only [bind_ok_id]
    apply bind_congrP
    intro Q
    refine pyForM_range_rows _ p.S p.b hp.b _ ?_ Q
    intro j h1 h2 Q
    have hrow : p.S[j].length = p.N := hp.rows _ (List.getElem_mem h1)
    simp only [pyListAt_lt _ _ h2, ok_bindP, pyMatIAddNum, iaddC, pyMatMulNum, pyMatIMul, pyMatIAdd, bind_ok_id, bind_assocP]
    unfold BILP.rowStep Prob.build
    apply bind_congrP
    intro T0
    rw [pyForM_iadd (squash .qubom) _ (fun i => [i]) (fun i => -(p.S[j].getD i 0)) _ (by
      intro i hi acc
      have hi' : i < p.S[j].length := by rw [hrow]; exact List.mem_range.mp hi
      simp only [pyListAt_lt _ _ h1, pyListAt_lt _ _ hi', pyMatIAddItem, bind_ok_id, ok_bindP,
        List.getD_eq_getElem?_getD, List.getElem?_eq_getElem hi', Option.getD_some]
      all_goals first | rfl | (congr 1; ring))]
    have e2 := linOps_eq_map0 (fun v => -v) p.S[j]
    rw [hrow] at e2
    rw [← e2]
    all_goals first
    | rfl
    | (simp only [bind_assocP, bind_ok_id]; done)
    | (simp only [bind, pure, Except.bind, Except.pure]; done)

/-- `to_qubo()` with the defaults `A = None` (i.e. `B·N`) and `B = 1` -/
theorem BILP_to_qubo_default_eq_model (p : BILP) (hp : BILPShape p) :
    BILP_to_qubo_default p.c p.S p.b p.N p.S.length = p.toQubo none 1 := by
  unfold BILP_to_qubo_default
  exact BILP_to_qubo_eq_model p hp none 1

/-- `[int(bool(solution[i])) for i in range(N)]` -/
theorem pyMapM_bits (s : Sol) (d : Bool) (f : Nat → Except Err Rat)
    (h : ∀ i, f i = (solGet s d i >>= fun v => .ok (if v ≠ 0 then 1 else 0))) (l : List Nat) :
    pyMapM l f = BILP.bits s d l := by
  induction l with
  | nil => rfl
  | cons i r ih =>
    simp only [pyMapM, BILP.bits, h, ih, bind_assocP, ok_bindP]
    all_goals first | rfl | (simp only [bind, pure, Except.bind, Except.pure]; done)

theorem BILP_convert_solution_eq_model (p : BILP) (s : Sol) (isDict spin : Bool) :
    BILP_convert_solution p.c p.S p.b p.N p.S.length s isDict spin = p.convert s isDict spin := by
  unfold BILP_convert_solution BILP.convert toBoolSol solValues pySpinToBoolean
  have key : ∀ s' : Sol, pyMapM (List.range p.N) (fun i => pySolGet s' isDict i >>= fun v =>
      (.ok (if v ≠ 0 then (1 : Rat) else 0) : Except Err Rat)) = BILP.bits s' isDict (List.range p.N) :=
    fun s' => pyMapM_bits s' isDict _ (fun i => rfl) _
  simp only [is_solution_spin_eq_model, bind_ok_id, ok_bindP]
  split <;>
  · simp only [← key]
    all_goals first
    | rfl
    | (simp only [bind_assocP, bind_ok_id, ok_bindP]; done)
    | (simp only [bind, pure, Except.bind, Except.pure]; done)

theorem arrayEqual_zip (f : List Rat → Rat) (S : List (List Rat)) (b : List Rat) (hb : b.length = S.length) :
    pyArrayEqual (S.map f) b = (S.zip b).all (fun rb => decide (f rb.1 = rb.2)) := by
  unfold pyArrayEqual
  induction S generalizing b with
  | nil => cases b with
    | nil => simp
    | cons _ _ => simp at hb
  | cons row rs ih =>
    cases b with
    | nil => simp at hb
    | cons bj bs =>
      have := ih bs (by simpa using hb)
      simp only [List.map_cons, List.zip_cons_cons, List.all_cons, ← this, List.cons.injEq]
      by_cases h1 : f row = bj <;> by_cases h2 : List.map f rs = bs <;> simp [h1, h2]

theorem allClose_zip (f : List Rat → Rat) (S : List (List Rat)) (b : List Rat) :
    pyAllClose (S.map f) b = (S.zip b).all (fun rb => closeTo (f rb.1) rb.2) := by
  unfold pyAllClose
  induction S generalizing b with
  | nil => simp
  | cons row rs ih =>
    cases b with
    | nil => simp
    | cons bj bs => simp [ih bs]

theorem BILP_is_solution_valid_converted_eq_model (p : BILP) (hp : BILPShape p) (x : List Rat) (spin exact : Bool) :
    BILP_is_solution_valid_converted p.c p.S p.b p.N p.S.length x spin exact = .ok (p.validConv x exact) := by
  unfold BILP_is_solution_valid_converted BILP.validConv pyMatVec
  simp only [arrayEqual_zip _ _ _ hp.b, allClose_zip]
  cases exact <;> simp

theorem BILP_is_solution_valid_eq_model (p : BILP) (hp : BILPShape p) (s : Sol) (isDict spin exact : Bool) :
    BILP_is_solution_valid p.c p.S p.b p.N p.S.length s isDict spin exact = p.valid s isDict spin exact := by
  unfold BILP_is_solution_valid BILP.valid
  rw [BILP_convert_solution_eq_model]
  cases p.convert s isDict spin with
  | error e => rfl
  | ok c =>
    have := BILP_is_solution_valid_converted_eq_model p hp c spin exact
    unfold BILP_is_solution_valid_converted at this
    simpa [bind, pure, Except.bind, Except.pure] using this

end Qv.Gen
