import Qv.Gen.SourceProblems11
import Qv.Proofs.GenEq.Problems
import Qv.Proofs.GenEq.Problems5
import Qv.Proofs.GenEq.Problems9Lib
/-!
# GenEq.Problems11 — `SetCover.solve_bruteforce` (C10, C09; it overrides `Problem.solve_bruteforce`): the definitions generated from
`np/covering/_set_cover.py` (one per value of `all_solutions`) equal the model's `SC.solveBruteforce` for every instance whose
weights have the length of `V`: the objective dict `{(i,): w_i}`, the solver call with `valid = self.is_solution_valid`, the
`ValueError` when nothing is valid, `convert_solution` of the dict / of every dict.
-/
set_option linter.unusedTactic false
set_option linter.unreachableTactic false
set_option linter.unusedSimpArgs false
set_option linter.unusedVariables false
namespace Qv.Gen
open Qv Qv.Prob

theorem pb2_sc_objective (p : SC) (hw : p.weights.length = p.N) :
    pyMapM (List.range p.N) (fun i => pyListAt p.weights i >>= fun x => (.ok ([i], x) : Except Err (Key × Rat)))
      = .ok (linOps p.weights 0) := by
  rw [← hw]
  apply pyMapM_linOps
  intro i hi
  simp [pyListAt, List.getElem?_eq_getElem hi, List.getD_eq_getElem?_getD]

theorem pb2_sc_valid (p : SC) :
    (fun (x : Sol) => SetCover_is_solution_valid p.U p.V p.weights p.logTrick p.M p.logM p.N p.n x true false)
      = fun x => p.valid x true false := by
  funext x
  exact SetCover_is_solution_valid_eq_model p x true false

theorem pb2_solve_shape' (fn : Brute.Fn) (D : Brute.Model) (allS : Bool) (valid : Brute.Assign → Bool) (order : List Var)
    (out : Brute.Out) (h : Brute.solve fn D allS valid order = .ok out) :
    (allS = true → ∃ xs, out.sol = .many xs) ∧ (allS = false → ∃ x, out.sol = .one x) := by
  apply pb2_solve_shape fn D allS valid order out.sol
  simp [Brute.solveMethod, h, Except.map]

/-- `solve_bruteforce(all_solutions=True)` -/
theorem SetCover_solve_bruteforce_all_eq_model (p : SC) (hw : p.weights.length = p.N) (order : List Var) :
    SetCover_solve_bruteforce_all p.U p.V p.weights p.logTrick p.M p.logM p.N p.n true order = p.solveBruteforce true order := by
  unfold SetCover_solve_bruteforce_all SC.solveBruteforce pb2SolveQuboValid Brute.ofDict
  simp only [pb2_sc_objective p hw, ok_bindP, SetCover_is_solution_valid_eq_model, SetCover_convert_solution_eq_model, bind_ok_id]
  cases hs : Brute.solve .qubo ⟨.dict, linOps p.weights 0, none⟩ true
      (fun x => match p.valid x true false with | .ok b => b | .error _ => false) order with
  | error e => rfl
  | ok out =>
    obtain ⟨xs, hx⟩ := (pb2_solve_shape' _ _ _ _ _ out hs).1 rfl
    simp only [Except.map, ok_bindP, bind, Except.bind, pure, Except.pure]
    cases hobj : out.obj with
    | none => simp [throw, throwThe, MonadExceptOf.throw, hobj]
    | some v =>
      first
      | (simp only [hx, pb2SolIter, hobj, pb2_pyMapM_eq_mapM]; done)
      | (simp only [hx, pb2SolIter, hobj, pb2_pyMapM_eq_mapM]; rfl)
      | (simp only [hx, pb2SolIter, hobj, pb2_pyMapM_eq_mapM]; cases xs.mapM (fun s => p.convert s true false) <;> rfl)

/-- `solve_bruteforce()`: the one converted solution (as a one-element list, the model's form) -/
theorem SetCover_solve_bruteforce_one_eq_model (p : SC) (hw : p.weights.length = p.N) (order : List Var) :
    (SetCover_solve_bruteforce_one p.U p.V p.weights p.logTrick p.M p.logM p.N p.n false order >>= fun r => .ok [r])
      = p.solveBruteforce false order := by
  unfold SetCover_solve_bruteforce_one SC.solveBruteforce pb2SolveQuboValid Brute.ofDict
  simp only [pb2_sc_objective p hw, ok_bindP, SetCover_is_solution_valid_eq_model, SetCover_convert_solution_eq_model, bind_ok_id]
  cases hs : Brute.solve .qubo ⟨.dict, linOps p.weights 0, none⟩ false
      (fun x => match p.valid x true false with | .ok b => b | .error _ => false) order with
  | error e => rfl
  | ok out =>
    obtain ⟨x, hx⟩ := (pb2_solve_shape' _ _ _ _ _ out hs).2 rfl
    simp only [Except.map, ok_bindP, bind, Except.bind, pure, Except.pure]
    cases hobj : out.obj with
    | none => simp [throw, throwThe, MonadExceptOf.throw, hobj]
    | some v =>
      first
      | (simp only [hx, pb2SolDict, hobj]; done)
      | (simp only [hx, pb2SolDict, hobj]; rfl)
      | (simp only [hx, pb2SolDict, hobj]; cases p.convert x true false <;> rfl)

end Qv.Gen
