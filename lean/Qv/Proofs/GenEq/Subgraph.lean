import Qv.Gen.SourceSubgraph
import Qv.Proofs.GenEq.PyList
import Mathlib.Tactic.Ring
/-!
# GenEq.Subgraph — `qubovert.utils.subgraph` and `subvalue`, generated from the source as whole functions, equal the
model's `subgraphRaw` / `subvalueRaw` (C18)

Covered by the generated text: the `connections=None` default, `D = type(G)()`, the `isinstance(k, tuple)` check with its
`ValueError`, `if not k: continue` (subgraph only), the two `filter`s that split a key, the product of the substituted
values (`connections.get(i, 0)` resp. `values[i]`), `value += D.get(key, 0)`, and the store-or-pop tail.
-/
set_option linter.unusedTactic false
set_option linter.unreachableTactic false
set_option linter.unusedSimpArgs false
set_option linter.unusedVariables false
namespace Qv.Gen
open Qv

theorem pyProd_eq_prodL (l : List Rat) : pyProd l = prodL l := by
  induction l with
  | nil => rfl
  | cons a r ih => simp only [pyProd, prodL, ih]

theorem get_of_not_hasKey (p : Poly) (k : Key) (h : hasKey p k = false) : get p k = 0 := by
  induction p with
  | nil => rfl
  | cons a r ih =>
    obtain ⟨k', v⟩ := a
    by_cases hk : k' = k
    · simp [hasKey, hk] at h
    · simp only [hasKey, hk, if_false] at h
      simp only [get, hk, if_false]
      exact ih h

theorem pyContGet_zero (D : PyCont) (k : Key) : pyContGet D k 0 = get D.items k := by
  unfold pyContGet
  split_ifs with h
  · rfl
  · exact (get_of_not_hasKey _ _ (by simpa using h)).symm

/-- the common tail `value += D.get(key, 0); if value: D[key] = value else: D.pop(key, 0)` -/
def accumC (D : PyCont) (key : Key) (value : Rat) : Except Err PyCont :=
  (accum D.ty D.items key value).map (PyCont.mk D.ty)

theorem tail_eq_accumC (D : PyCont) (key : Key) (value : Rat) :
    (if value + pyContGet D key 0 ≠ 0 then pyContSetItem D key (value + pyContGet D key 0)
     else Except.ok (pyContPopDefault D key)) = accumC D key value := by
  simp only [accumC, accum, pyContGet_zero, pyContSetItem, pyContPopDefault]
  split_ifs <;> rfl

/-! ## subgraph -/

def sgStep (nodes : List Var) (conn : Assoc) (D : PyCont) (it : RawItem) : Except Err PyCont :=
  match it.1 with
  | none => .error .value
  | some k => if k = [] then .ok D else accumC D (sgKey nodes k) (it.2 * prodL (sgVals nodes conn k))

theorem sg_loop (nodes : List Var) (conn : Assoc) (τ : Ty) : ∀ (items : List RawItem) (p : Poly),
    pyForM items (⟨τ, p⟩ : PyCont) (sgStep nodes conn) = (subgraphLoop τ nodes conn p items).map (PyCont.mk τ) := by
  intro items
  induction items with
  | nil => intro p; rfl
  | cons it r ih =>
    intro p
    obtain ⟨k, v⟩ := it
    cases k with
    | none => rfl
    | some k =>
      by_cases hk : k = []
      · subst hk
        simp only [pyForM, sgStep, if_true, ok_bind', ih, subgraphLoop, List.isEmpty_nil]
      · have hk' : k.isEmpty = false := by cases k <;> simp_all
        simp only [pyForM, sgStep, hk, if_false, subgraphLoop, hk', accumC, Bool.false_eq_true]
        cases accum τ p (sgKey nodes k) (v * prodL (sgVals nodes conn k)) with
        | error e => rfl
        | ok p' => exact ih p'

theorem pyForM_ext {α σ : Type} (f g : σ → α → Except Err σ) (h : ∀ s a, f s a = g s a) (l : List α) (s : σ) :
    pyForM l s f = pyForM l s g := by
  have : f = g := by funext s a; exact h s a
  rw [this]

theorem sg_filters (nodes : List Var) (conn : Assoc) (k : Key) :
    List.filter (fun x => decide (pyUIn nodes x = true)) k = sgKey nodes k ∧
    List.map (fun i => pyAssocGet conn i 0) (List.filter (fun x => decide (pyUIn nodes x = false)) k) = sgVals nodes conn k := by
  constructor
  · unfold sgKey pyUIn; congr 1; funext x; simp
  · unfold sgVals pyUIn pyAssocGet
    congr 1
    · funext i; cases lookup conn i <;> rfl
    · congr 1; funext x; cases nodes.contains x <;> simp

/-- the loop body generated from `subgraph` is the model's step, for either value of `connections` -/
theorem subgraph_fn_eq_model (G : PyRawCont) (nodes : List Var) (connections : Option Assoc) :
    subgraph_fn G nodes connections =
      (subgraphRaw G.ty nodes (connections.getD []) G.items).map (PyCont.mk G.ty) := by
  unfold subgraph_fn subgraphRaw
  cases connections with
  | none =>
    simp only [Option.getD_none, pyNewLike, pyRawItems, bind_ok_self]
    rw [← sg_loop]
    apply pyForM_ext
    intro D it
    obtain ⟨k, v⟩ := it
    cases k with
    | none => rfl
    | some k =>
      simp only [Bool.not_eq_true, Bool.not_eq_false, List.map_id', sgStep, (sg_filters nodes [] k).1, (sg_filters nodes [] k).2, pyProd_eq_prodL, tail_eq_accumC]
      try (first
        | rfl
        | (split_ifs <;> first | rfl | simp_all))
  | some conn =>
    simp only [Option.getD_some, pyNewLike, pyRawItems, bind_ok_self]
    rw [← sg_loop]
    apply pyForM_ext
    intro D it
    obtain ⟨k, v⟩ := it
    cases k with
    | none => rfl
    | some k =>
      simp only [Bool.not_eq_true, Bool.not_eq_false, List.map_id', sgStep, (sg_filters nodes conn k).1, (sg_filters nodes conn k).2, pyProd_eq_prodL, tail_eq_accumC]
      try (first
        | rfl
        | (split_ifs <;> first | rfl | simp_all))

/-! ## subvalue -/

def svStep (vals : Assoc) (D : PyCont) (it : RawItem) : Except Err PyCont :=
  match it.1 with
  | none => .error .value
  | some k => accumC D (svKey vals k) (it.2 * prodL (svVals vals k))

theorem sv_loop (vals : Assoc) (τ : Ty) : ∀ (items : List RawItem) (p : Poly),
    pyForM items (⟨τ, p⟩ : PyCont) (svStep vals) = (subvalueLoop τ vals p items).map (PyCont.mk τ) := by
  intro items
  induction items with
  | nil => intro p; rfl
  | cons it r ih =>
    intro p
    obtain ⟨k, v⟩ := it
    cases k with
    | none => rfl
    | some k =>
      simp only [pyForM, svStep, subvalueLoop, accumC]
      cases accum τ p (svKey vals k) (v * prodL (svVals vals k)) with
      | error e => rfl
      | ok p' => exact ih p'

/-- `[values[i] for i in filter(lambda x: x in values, k)]` never raises: every `i` it reads is a key of `values` -/
theorem sv_mapM (vals : Assoc) (f : Var → Except Err Rat) (hf : ∀ i, f i = pyAssocGetItem vals i) (k : Key) :
    List.mapM f (List.filter (fun x => decide (pyAssocIn vals x = true)) k) = .ok (svVals vals k) := by
  unfold svVals
  have hfil : (fun x => decide (pyAssocIn vals x = true)) = (fun x => inDict vals x) := by
    funext x; unfold pyAssocIn inDict; cases (lookup vals x).isSome <;> rfl
  rw [hfil]
  induction k with
  | nil => rfl
  | cons i r ih =>
    by_cases hi : inDict vals i = true
    · simp only [List.filter_cons, hi, if_true, List.mapM_cons, List.map_cons, hf, ih]
      unfold inDict at hi
      unfold pyAssocGetItem
      cases hl : lookup vals i with
      | none => rw [hl] at hi; cases hi
      | some v => rfl
    · simp only [List.filter_cons, hi, if_false, ih, Bool.false_eq_true]

theorem sv_key (vals : Assoc) (k : Key) :
    List.filter (fun x => decide (pyAssocIn vals x = false)) k = svKey vals k := by
  unfold svKey pyAssocIn inDict; congr 1; funext x; cases (lookup vals x).isSome <;> rfl

theorem subvalue_fn_eq_model (values : Assoc) (G : PyRawCont) :
    subvalue_fn values G = (subvalueRaw G.ty values G.items).map (PyCont.mk G.ty) := by
  unfold subvalue_fn subvalueRaw
  simp only [pyNewLike, pyRawItems, bind_ok_self]
  rw [← sv_loop]
  apply pyForM_ext
  intro D it
  obtain ⟨k, v⟩ := it
  cases k with
  | none => rfl
  | some k =>
    simp only [Bool.not_eq_true, Bool.not_eq_false, svStep, sv_key, List.map_id']
    rw [sv_mapM values _ (fun i => by simp only [bind_ok_self]) k]
    simp only [ok_bind', pyProd_eq_prodL, tail_eq_accumC, List.map_id']
    try (first
      | rfl
      | (split_ifs <;> first | rfl | simp_all))

/-- on a dict whose keys are all tuples: the model functions `subgraph` / `subvalue` the C18 theorems are stated about -/
theorem subgraph_fn_on_dict (τ : Ty) (G : Poly) (nodes : List Var) (connections : Option Assoc) :
    subgraph_fn ⟨τ, liftItems G⟩ nodes connections = (subgraph τ nodes (connections.getD []) G).map (PyCont.mk τ) :=
  subgraph_fn_eq_model _ _ _

theorem subvalue_fn_on_dict (τ : Ty) (values : Assoc) (G : Poly) :
    subvalue_fn values ⟨τ, liftItems G⟩ = (subvalue τ values G).map (PyCont.mk τ) :=
  subvalue_fn_eq_model _ _

example : ((subgraph_fn ⟨.builtin, [(some [0, 1], -4), (some [0, 2], -1), (some [0], 3), (some [1], 2), (some [], 2)]⟩
    [0, 2] (some [(1, 5)])).map (·.items)).toOption = some [([0], -17), ([0, 2], -1), ([], 10)] := by decide +kernel
example : ((subvalue_fn [(0, 2)] ⟨.builtin, [(some [0, 1], -4), (some [0, 2], -1), (some [0], 3), (some [1], 2), (some [], 2)]⟩).map
    (·.items)).toOption = some [([1], -6), ([2], -2), ([], 8)] := by decide +kernel
example : ((subvalue_fn [] ⟨.builtin, [(some [0], 1), (none, 1)]⟩).map (·.items)) = .error .value := by decide +kernel

end Qv.Gen
