import Qv.Gen.SourceReduce2Sol
/-!
# GenEq.Reduce2Sol — `PCBO.remove_ancilla_from_solution`, generated from the source (`Qv/Gen/SourceReduce2Sol.lean`), equals
the model's `Workflow.removeAncilla` — the function T8.4 (`T8_4_removeAncilla`) and the workflow theorems of C08 are about
-/
namespace Qv.Gen
open Qv

theorem rd2_not_ancilla_iff (k : Var) : (pyRd2IsAncilla k = false) ↔ k < ANC := by
  unfold pyRd2IsAncilla
  simp

/-- `{k: v for k, v in solution.items() if str(k)[:3] != "__a"}`: the entries whose label is not a constraint ancilla, in the
order of the dict -/
theorem rd2_remove_ancilla_eq_model (s : Brute.Assign) : rd2_remove_ancilla s = Workflow.removeAncilla s := by
  unfold rd2_remove_ancilla Workflow.removeAncilla
  congr 1
  funext p
  have h1 : (pyRd2IsAncilla p.1 = false) ↔ p.1 < ANC := rd2_not_ancilla_iff p.1
  have h2 : (¬ pyRd2IsAncilla p.1 = true) ↔ p.1 < ANC := by rw [← h1]; simp
  first
    | (simp only [h1]; done)
    | (simp only [h1, h2]; done)
    | (simp [h1, h2]; done)
    | (by_cases h : p.1 < ANC <;> simp_all [pyRd2IsAncilla] <;> omega)

end Qv.Gen
