import Qv.Gen.SourceConv3Enum
import Qv.Proofs.GenEq.Conv2Meth
/-!
# GenEq.Conv3Enum — `BO.to_enumerated` generated from `qubovert/utils/_bo_parentclass.py` selects the method the
model's `enumTarget` names (C04), and the chains that compose it — and the conversions PCBO / PCSO inherit — with the
methods tied in `GenEq.Conv2Meth` reach the model's `toEnumerated` / `toMethod`.

`to_enumerated` computes a method NAME: `"to_" + self.__class__.__name__.lower().replace('c', 'u')`, and calls
`getattr(self, name)()`.  The generated text contains that string arithmetic; the theorem evaluates it for every
class: QUBO → `to_qubo`, QUSO → `to_quso`, PUBO and PCBO → `to_pubo`, PUSO and PCSO → `to_puso`; a Matrix type or a
plain dict (which have no `to_enumerated`; the model says `AttributeError`) would compute a name that is no method.
Which definition `self.to_X` is for each class (Python's MRO) is checked by the translator against the class
statements (registry `mro_expect` in harness/tie_ext/conv3.py) and spelled out in the chain theorems below.
-/
set_option linter.unusedTactic false
set_option linter.unreachableTactic false
set_option linter.unusedSimpArgs false
namespace Qv.Gen

/-- the method `to_enumerated` dispatches to, by the type of `self` -/
def cv3EnumPick (κ : Kind) (q s p u : Except Err ConvObj) : Except Err ConvObj :=
  match enumTarget κ with
  | some .qubo => q
  | some .quso => s
  | some .pubo => p
  | some .puso => u
  | none => .error .attr

/-- `self.to_enumerated()` is `self.to_qubo()` for a QUBO, `self.to_quso()` for a QUSO, `self.to_pubo()` for a PUBO /
PCBO, `self.to_puso()` for a PUSO / PCSO (the four values are the parameters `q s p u`) -/
theorem cv3_BO_to_enumerated_eq_model (self : ConvModel) (q s p u : Except Err ConvObj) :
    cv3_BO_to_enumerated self q s p u = cv3EnumPick self.kind q s p u := by
  obtain ⟨κ, items, m, rev, n⟩ := self
  unfold cv3_BO_to_enumerated
  simp only [bind_ok_self, pyType, ConvModel.obj]
  cases κ <;> first | rfl | decide | (simp [cv3EnumPick, enumTarget, cv3GetattrCall0, cv3ClassName, cv3StrLower, cv3StrReplaceChar]; done)

/-- the values of `self.to_qubo()`, `self.to_quso()`, `self.to_pubo()`, `self.to_puso()` (default arguments) for a
labelled model, as tied in `GenEq.Conv2Meth` (QUBO / QUSO: own relabelling methods and `Conversions` defaults; PUBO /
PCBO: `PUBO.to_pubo` with the no-op reduction and the defaults; PUSO / PCSO: the `deg=None` shortcut of `PUSO.to_puso`) -/
def cv3MethodValue (self : ConvModel) (t : Target) : Except Err ConvObj :=
  asObj t.kind (toMethod self.kind t self.mapping none self.items)

/-- **chain.**  With `self.to_X()` as the tied methods give them, `to_enumerated()` returns the Matrix object of the
model's `toEnumerated` (type `enumTarget`'s Matrix type; a type without `to_enumerated` raises `AttributeError`) -/
theorem cv3_to_enumerated_chain (self : ConvModel) :
    cv3_BO_to_enumerated self (cv3MethodValue self .qubo) (cv3MethodValue self .quso) (cv3MethodValue self .pubo)
        (cv3MethodValue self .puso) =
      (match enumTarget self.kind with
       | some t => asObj t.kind (toEnumerated self.kind self.mapping self.items)
       | none => .error .attr) := by
  rw [cv3_BO_to_enumerated_eq_model]
  obtain ⟨κ, items, m, rev, n⟩ := self
  cases κ <;> rfl

/-- the method values used above are the generated methods: QUBO -/
theorem cv3_value_QUBO_to_qubo (self : ConvModel) (h : self.kind = .qubo) :
    QUBO_to_qubo self = cv3MethodValue self .qubo := by
  rw [QUBO_to_qubo_eq_model, cv3MethodValue, h]; rfl

theorem cv3_value_QUSO_to_quso (self : ConvModel) (h : self.kind = .quso) :
    QUSO_to_quso self = cv3MethodValue self .quso := by
  rw [QUSO_to_quso_eq_model, cv3MethodValue, h]; rfl

/-- PUBO and PCBO (`PCBO` inherits `PUBO.to_pubo`): `to_pubo()` with the no-op reduction -/
theorem cv3_value_PUBO_to_pubo (self : ConvModel) (h : self.kind = .pubo ∨ self.kind = .pcbo) :
    PUBO_to_pubo self none noopReduce = cv3MethodValue self .pubo := by
  rw [PUBO_to_pubo_chain, cv3MethodValue]
  rcases h with h | h <;> rw [h] <;> rfl

/-- PUSO and PCSO (`PCSO` inherits `PUSO.to_puso`): `to_puso()` takes the `deg is None` shortcut, whatever the route -/
theorem cv3_value_PUSO_to_puso (self : ConvModel) (route : Except Err ConvObj) (h : self.kind = .puso ∨ self.kind = .pcso) :
    PUSO_to_puso self none route = cv3MethodValue self .puso := by
  rw [PUSO_to_puso_eq_model, cv3MethodValue]
  rcases h with h | h <;> rw [h] <;> rfl

/-! ## conversions PCBO / PCSO inherit (item: `PCBO(PUBO)`, `PCSO(PUSO)` define no `to_*` of their own) -/

/-- `PCBO.to_puso(deg)` is `Conversions.to_puso` over `PUBO.to_pubo`: the model's `toMethod .pcbo .puso` -/
theorem cv3_PCBO_to_puso_chain (self : ConvModel) (deg : Option Int) :
    Conversions_to_puso (PUBO_to_pubo self deg noopReduce) = asObj .pusom (toMethod .pcbo .puso self.mapping deg self.items) :=
  PUBO_to_puso_chain self deg

/-- `PCBO.to_quso()` is `Conversions.to_quso` over `PUBO.to_qubo`: the model's `toMethod .pcbo .quso` -/
theorem cv3_PCBO_to_quso_chain (self : ConvModel) :
    Conversions_to_quso (PUBO_to_qubo self noopReduce) = asObj .qusom (toMethod .pcbo .quso self.mapping none self.items) :=
  PUBO_to_quso_chain self

/-- `PCSO.to_puso(deg)` is `PUSO.to_puso` with `type(self) = PCSO` (the route converts through `puso_to_pubo(self)`, whose
result type depends on `type(self)`): the model's `toMethod .pcso .puso` -/
theorem cv3_PCSO_to_puso_chain (self : ConvModel) (deg : Option Int) (h : self.kind = .pcso) :
    PUSO_to_puso self deg (asObj .pusom (pusoToPubo .pcso self.items >>= fun P => puboTo .puso self.mapping deg P)) =
      asObj .pusom (toMethod .pcso .puso self.mapping deg self.items) := by
  have := PUSO_to_puso_chain self deg
  rw [h] at this
  exact this

/-- `PCSO.to_quso()` is `PUSO.to_quso`: the model's `toMethod .pcso .quso` -/
theorem cv3_PCSO_to_quso_chain (self : ConvModel) (h : self.kind = .pcso) :
    PUSO_to_quso self (asObj .qusom (pusoToPubo .pcso self.items >>= fun P =>
        puboTo .qubo self.mapping none P >>= fun Q => quboToQuso .qubom Q)) =
      asObj .qusom (toMethod .pcso .quso self.mapping none self.items) := by
  have := PUSO_to_quso_chain self
  rw [h] at this
  exact this

example : cv3_BO_to_enumerated ⟨.pcso, [], [], [], 0⟩ (.error .key) (.error .value) (.error .type) (.ok ⟨.pusom, []⟩) =
    .ok ⟨.pusom, []⟩ := by decide +kernel
example : cv3_BO_to_enumerated ⟨.qubom, [], [], [], 0⟩ (.ok ⟨.qubom, []⟩) (.ok ⟨.qubom, []⟩) (.ok ⟨.qubom, []⟩) (.ok ⟨.qubom, []⟩) =
    .error .attr := by decide +kernel

end Qv.Gen
