import Qv.Proofs.GenEq.ArithOps
/-!
# GenEq.ArithWrap — the copying operators `__add__`, `__radd__`, `__sub__`, `__rsub__`, `__mul__`, `__rmul__`,
`__truediv__`, `__pow__`, `__pos__`, `__neg__` of `DictArithmetic`, generated from the source as whole functions, equal
`Qv.ArithOps.add … neg` (C05, C07, C19)

What the generated text fixes: it is `self` that is copied (never `other`), the in-place operator runs on the COPY with
`other` resolved against the caller's `self` (`a + a`, `a * a`: the copy is combined with the unchanged original), the copy
is what is returned (so the result has the receiver's class), `self` itself is never written (the generated functions
return a fresh `Obj` and have no access to the caller's binding of `self`), the reflected forms delegate to the plain ones
with the operands in the same roles, `-self` is `self.__rmul__(-1)`, `other - self` is `(-1 * self) + other`.
-/
set_option linter.unusedTactic false
set_option linter.unreachableTactic false
set_option linter.unusedSimpArgs false
set_option linter.unusedVariables false
namespace Qv.Gen
open Qv Qv.Book Qv.ArithOps

theorem copy_props_ar2 {s d : State} (hg : Good_ar2 s) (hc : ConsOK_ar2 s) (h : ArithOps.copy Fix.fixed s = .ok d) :
    Good_ar2 d ∧ ConsOK_ar2 d ∧ d.kind = s.kind := by
  have hk := copy_kind Fix.fixed s d h
  unfold ArithOps.copy Book.copy at h
  have hgl : Good_ar2 (iaddLoop Fix.fixed (init s.kind) s.terms).1 :=
    loop_good_ar2 _ (fun t a t' ht h => augitem_good_ar2 ht h) _ _ (init_good_ar2 hg.1)
  generalize iaddLoop Fix.fixed (init s.kind) s.terms = r at h hgl
  obtain ⟨t, e⟩ := r
  cases e with
  | some e => simp [toExcept] at h
  | none =>
    simp only [toExcept] at h
    injection h with h
    subst h
    exact ⟨⟨hgl.1, hgl.2⟩, fun hh => hc (hk ▸ hh), hk⟩

theorem resolve_ar2 (s : Obj) (o : ArOperand_ar2) : toModel_ar2 (pyResolve_ar2 s o) = (toModel_ar2 o).resolve s := by
  cases o <;> rfl

theorem resolve_ne_self_ar2 (s : Obj) (o : Operand) : o.resolve s ≠ .self := by
  cases o <;> intro h <;> cases h

/-- `d = self.copy(); d <op>= other; return d` against `copy >>= in-place model` -/
theorem wrap_ar2 (s : Obj) (hg : Good_ar2 s) (hc : ConsOK_ar2 s) (f g : Obj → Except Err Obj)
    (h : ∀ d, Good_ar2 d → ConsOK_ar2 d → f d = g d) :
    (modelMethods_ar2.copy s >>= fun d => f d >>= fun d => Except.ok d) = (ArithOps.copy Fix.fixed s >>= g) := by
  show (ArithOps.copy Fix.fixed s >>= _) = _
  cases hcp : ArithOps.copy Fix.fixed s with
  | error e => rfl
  | ok d =>
    obtain ⟨h1, h2, _⟩ := copy_props_ar2 hg hc hcp
    simp only [bind_ok', bind_ok_right_ar2]
    exact h d h1 h2

/-- **`DictArithmetic.__add__`** -/
theorem DictArithmetic_add_ar2_eq_model (s : Obj) (hg : Good_ar2 s) (hc : ConsOK_ar2 s) (o : ArOperand_ar2) :
    DictArithmetic_add_ar2 modelMethods_ar2 s o = ArithOps.add Fix.fixed s (toModel_ar2 o) := by
  unfold DictArithmetic_add_ar2 ArithOps.add
  refine wrap_ar2 s hg hc _ _ (fun d h1 _ => ?_)
  rw [DictArithmetic_iadd_ar2_eq_model d h1 _ (by rw [resolve_ar2]; exact resolve_ne_self_ar2 _ _), resolve_ar2]

/-- **`DictArithmetic.__radd__`**: `other + self` is `self + other` -/
theorem DictArithmetic_radd_ar2_eq_model (s : Obj) (hg : Good_ar2 s) (hc : ConsOK_ar2 s) (o : ArOperand_ar2) :
    DictArithmetic_radd_ar2 modelMethods_ar2 s o = ArithOps.radd Fix.fixed s (toModel_ar2 o) := by
  unfold DictArithmetic_radd_ar2 ArithOps.radd
  rw [bind_ok_right_ar2]
  exact DictArithmetic_add_ar2_eq_model s hg hc o

/-- **`DictArithmetic.__sub__`** -/
theorem DictArithmetic_sub_ar2_eq_model (s : Obj) (hg : Good_ar2 s) (hc : ConsOK_ar2 s) (o : ArOperand_ar2) :
    DictArithmetic_sub_ar2 modelMethods_ar2 s o = ArithOps.sub Fix.fixed s (toModel_ar2 o) := by
  unfold DictArithmetic_sub_ar2 ArithOps.sub
  refine wrap_ar2 s hg hc _ _ (fun d h1 _ => ?_)
  rw [DictArithmetic_isub_ar2_eq_model d h1, resolve_ar2]

/-- **`DictArithmetic.__mul__`**: the copy is multiplied in place by its class's own `__imul__` (PCBO / PCSO keep the
constraints of the copy, which are the receiver's) -/
theorem DictArithmetic_mul_ar2_eq_model (s : Obj) (hg : Good_ar2 s) (hc : ConsOK_ar2 s) (o : ArOperand_ar2) :
    DictArithmetic_mul_ar2 modelMethods_ar2 s o = ArithOps.mul Fix.fixed s (toModel_ar2 o) := by
  unfold DictArithmetic_mul_ar2 ArithOps.mul
  refine wrap_ar2 s hg hc _ _ (fun d h1 h2 => ?_)
  rw [cls_imul_ar2_eq_model d h1 h2, resolve_ar2]

/-- **`DictArithmetic.__rmul__`**: `other * self` is `self * other` -/
theorem DictArithmetic_rmul_ar2_eq_model (s : Obj) (hg : Good_ar2 s) (hc : ConsOK_ar2 s) (o : ArOperand_ar2) :
    DictArithmetic_rmul_ar2 modelMethods_ar2 s o = ArithOps.rmul Fix.fixed s (toModel_ar2 o) := by
  unfold DictArithmetic_rmul_ar2 ArithOps.rmul
  rw [bind_ok_right_ar2]
  exact DictArithmetic_mul_ar2_eq_model s hg hc o

theorem scale_good_ar2 {d t : State} (hd : Good_ar2 d) (hc : ConsOK_ar2 d) (c : Rat)
    (h : toExcept (scaleLoop Fix.fixed d .mul c) = .ok t) : Good_ar2 t ∧ ConsOK_ar2 t := by
  have hgl : Good_ar2 (scaleLoop Fix.fixed d .mul c).1 := loop_good_ar2 _ (fun t a t' ht h => augitem_good_ar2 ht h) _ _ hd
  have hk : (scaleLoop Fix.fixed d .mul c).1.kind = d.kind := loop_kind _ (fun s x s' h => augitem_kind h) _ d
  have hw := loop_withAC (fun s k => augitem Fix.fixed s k .mul c) d.ancilla d.constraints
    (fun s k => augitem_withAC Fix.fixed _ _ s k .mul c) (d.terms.map Prod.fst) d
  rw [withAC_self] at hw
  change scaleLoop Fix.fixed d .mul c = _ at hw
  have ha : (scaleLoop Fix.fixed d .mul c).1.ancilla = d.ancilla ∧ (scaleLoop Fix.fixed d .mul c).1.constraints = d.constraints := by
    rw [hw]; exact ⟨rfl, rfl⟩
  generalize scaleLoop Fix.fixed d .mul c = r at h hgl hk ha
  obtain ⟨u, e⟩ := r
  cases e with
  | some e => simp [toExcept] at h
  | none =>
    simp only [toExcept] at h
    injection h with h
    subst h
    exact ⟨hgl, fun hh => by rw [ha.1, ha.2]; exact hc (hk ▸ hh)⟩

/-- **`DictArithmetic.__rsub__`**: `other - self` is `(-1 * self) + other` — `__rmul__(-1)` on a copy of `self`, then
`__add__` on that fresh object with `other` resolved against `self` -/
theorem DictArithmetic_rsub_ar2_eq_model (s : Obj) (hg : Good_ar2 s) (hc : ConsOK_ar2 s) (o : ArOperand_ar2) :
    DictArithmetic_rsub_ar2 modelMethods_ar2 s o = ArithOps.rsub Fix.fixed s (toModel_ar2 o) := by
  unfold DictArithmetic_rsub_ar2 ArithOps.rsub
  have e1 := DictArithmetic_rmul_ar2_eq_model s hg hc (pyOfNum_ar2 (-1))
  simp only [pyOfNum_ar2, toModel_ar2] at e1
  simp only [pyOfNum_ar2, bind_ok_right_ar2]
  rw [e1]
  cases hm : ArithOps.rmul Fix.fixed s (.num (-1)) with
  | error e => rfl
  | ok t =>
    simp only [bind_ok']
    -- the intermediate object is a scaled copy: it satisfies the hypotheses of `__add__`
    have ht : Good_ar2 t ∧ ConsOK_ar2 t := by
      unfold ArithOps.rmul ArithOps.mul at hm
      cases hcp : ArithOps.copy Fix.fixed s with
      | error e => rw [hcp] at hm; cases hm
      | ok d =>
        rw [hcp] at hm
        obtain ⟨h1, h2, _⟩ := copy_props_ar2 hg hc hcp
        exact scale_good_ar2 h1 h2 (-1) hm
    rw [DictArithmetic_add_ar2_eq_model t ht.1 ht.2, resolve_ar2]

/-- **`DictArithmetic.__truediv__`** by a number -/
theorem DictArithmetic_truediv_ar2_eq_model (s : Obj) (hg : Good_ar2 s) (hc : ConsOK_ar2 s) (c : Rat) :
    DictArithmetic_truediv_ar2 modelMethods_ar2 s (.num c) = ArithOps.div Fix.fixed s c := by
  unfold DictArithmetic_truediv_ar2 ArithOps.div
  refine wrap_ar2 s hg hc _ _ (fun d h1 _ => ?_)
  exact DictArithmetic_itruediv_ar2_eq_model d h1 c

/-- **`DictArithmetic.__pow__`** -/
theorem DictArithmetic_pow_ar2_eq_model (s : Obj) (hg : Good_ar2 s) (hc : ConsOK_ar2 s) (r : Rat) (n : Int) (isInt : Bool)
    (he : isInt = true → r = (n : Rat)) :
    DictArithmetic_pow_ar2 modelMethods_ar2 s ⟨r, isInt⟩ = ArithOps.pow Fix.fixed s (if isInt then some n else none) := by
  unfold DictArithmetic_pow_ar2 ArithOps.pow
  refine wrap_ar2 s hg hc _ _ (fun d h1 h2 => ?_)
  exact DictArithmetic_ipow_ar2_eq_model d h1 h2 r n isInt he

/-- **`DictArithmetic.__pos__`**: `+self` is a copy -/
theorem DictArithmetic_pos_ar2_eq_model (s : Obj) :
    DictArithmetic_pos_ar2 modelMethods_ar2 s = ArithOps.pos Fix.fixed s := by
  unfold DictArithmetic_pos_ar2 ArithOps.pos
  rw [bind_ok_right_ar2]
  rfl

/-- **`DictArithmetic.__neg__`**: `-self` is `-1 * self` -/
theorem DictArithmetic_neg_ar2_eq_model (s : Obj) (hg : Good_ar2 s) (hc : ConsOK_ar2 s) :
    DictArithmetic_neg_ar2 modelMethods_ar2 s = ArithOps.neg Fix.fixed s := by
  unfold DictArithmetic_neg_ar2 ArithOps.neg
  rw [bind_ok_right_ar2]
  first
    | exact DictArithmetic_rmul_ar2_eq_model s hg hc (pyOfNum_ar2 (-1))
    | exact DictArithmetic_mul_ar2_eq_model s hg hc (pyOfNum_ar2 (-1))      -- `self * -1`: the same function

/-! ## the chain to C05: the objects the generated `__add__`, `__sub__`, `__mul__` return are the values `run` computes -/

/-- the generated `__add__` returns an object of the receiver's class whose terms are those of `Val.add` (`Qv/Model/Expr.lean`),
or raises the same exception: C05's `tree_value`, `tree_canonical`, `add_kind`, `add_keyerror_iff`, … speak about this code -/
theorem DictArithmetic_add_ar2_val (s : Obj) (hg : Good_ar2 s) (hc : ConsOK_ar2 s) (o : ArOperand_ar2) :
    (DictArithmetic_add_ar2 modelMethods_ar2 s o).map (fun d => Val.mdl s.kind d.terms)
      = Val.add (.mdl s.kind s.terms) ((toModel_ar2 o).toVal s) := by
  rw [DictArithmetic_add_ar2_eq_model s hg hc, add_val]

theorem DictArithmetic_sub_ar2_val (s : Obj) (hg : Good_ar2 s) (hc : ConsOK_ar2 s) (o : ArOperand_ar2) :
    (DictArithmetic_sub_ar2 modelMethods_ar2 s o).map (fun d => Val.mdl s.kind d.terms)
      = Val.sub (.mdl s.kind s.terms) ((toModel_ar2 o).toVal s) := by
  rw [DictArithmetic_sub_ar2_eq_model s hg hc, sub_val]

theorem DictArithmetic_mul_ar2_val (s : Obj) (hg : Good_ar2 s) (hc : ConsOK_ar2 s) (o : ArOperand_ar2) :
    (DictArithmetic_mul_ar2 modelMethods_ar2 s o).map (fun d => Val.mdl s.kind d.terms)
      = Val.mul (.mdl s.kind s.terms) ((toModel_ar2 o).toVal s) := by
  rw [DictArithmetic_mul_ar2_eq_model s hg hc, mul_val]

/-- reflected forms: a number or plain dict on the left — `Val.add a (.mdl …)`, `Val.mul a (.mdl …)` of `run` -/
theorem DictArithmetic_radd_ar2_val (s : Obj) (hg : Good_ar2 s) (hc : ConsOK_ar2 s) (o : ArOperand_ar2)
    (ho : toModel_ar2 o ≠ .self) :
    (DictArithmetic_radd_ar2 modelMethods_ar2 s o).map (fun d => Val.mdl s.kind d.terms)
      = Val.add ((toModel_ar2 o).toVal s) (.mdl s.kind s.terms) := by
  rw [DictArithmetic_radd_ar2_eq_model s hg hc]
  unfold ArithOps.radd
  rw [add_val]
  cases o <;> first | rfl | exact absurd rfl ho

theorem DictArithmetic_rmul_ar2_val (s : Obj) (hg : Good_ar2 s) (hc : ConsOK_ar2 s) (o : ArOperand_ar2)
    (ho : toModel_ar2 o ≠ .self) :
    (DictArithmetic_rmul_ar2 modelMethods_ar2 s o).map (fun d => Val.mdl s.kind d.terms)
      = Val.mul ((toModel_ar2 o).toVal s) (.mdl s.kind s.terms) := by
  rw [DictArithmetic_rmul_ar2_eq_model s hg hc]
  unfold ArithOps.rmul
  rw [mul_val]
  cases o <;> first | rfl | exact absurd rfl ho

/-- `other - self` for a number / plain dict `other`: `Val.sub other (.mdl …)` of `run` (`1 - x` in the sat gates) -/
theorem DictArithmetic_rsub_ar2_val (s : Obj) (hg : Good_ar2 s) (hc : ConsOK_ar2 s) (o : ArOperand_ar2)
    (ho : toModel_ar2 o ≠ .self) :
    (DictArithmetic_rsub_ar2 modelMethods_ar2 s o).map (fun d => Val.mdl s.kind d.terms)
      = Val.sub ((toModel_ar2 o).toVal s) (.mdl s.kind s.terms) := by
  rw [DictArithmetic_rsub_ar2_eq_model s hg hc, rsub_val s _ ho]

/-- **C19 reading (no aliasing, argument untouched)**: the copying operators are functions `Obj → operand → Except Err Obj`
of the generated text — the caller's `self` is an immutable value in them, so `self` after the call IS `self` before it; and
the result of `a + a` / `a * a` combines the copy with the ORIGINAL items of `a` (`pyResolve_ar2`), never with the
half-updated copy.  The second fact as a theorem: an aliased operand gives the same result as a distinct dict with the same
items. -/
theorem DictArithmetic_add_ar2_alias (s : Obj) (hg : Good_ar2 s) (hc : ConsOK_ar2 s) :
    DictArithmetic_add_ar2 modelMethods_ar2 s .self = DictArithmetic_add_ar2 modelMethods_ar2 s (.dict s.terms) := by
  rw [DictArithmetic_add_ar2_eq_model s hg hc, DictArithmetic_add_ar2_eq_model s hg hc]; rfl

theorem DictArithmetic_mul_ar2_alias (s : Obj) (hg : Good_ar2 s) (hc : ConsOK_ar2 s) :
    DictArithmetic_mul_ar2 modelMethods_ar2 s .self = DictArithmetic_mul_ar2 modelMethods_ar2 s (.dict s.terms) := by
  rw [DictArithmetic_mul_ar2_eq_model s hg hc, DictArithmetic_mul_ar2_eq_model s hg hc]; rfl

theorem DictArithmetic_sub_ar2_alias (s : Obj) (hg : Good_ar2 s) (hc : ConsOK_ar2 s) :
    DictArithmetic_sub_ar2 modelMethods_ar2 s .self = DictArithmetic_sub_ar2 modelMethods_ar2 s (.dict s.terms) := by
  rw [DictArithmetic_sub_ar2_eq_model s hg hc, DictArithmetic_sub_ar2_eq_model s hg hc]; rfl

end Qv.Gen
