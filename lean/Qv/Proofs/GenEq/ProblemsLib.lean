import Qv.Gen.SourceProblems
import Qv.Proofs.GenEq.Convert
import Mathlib.Tactic.Ring
/-!
# GenEq.ProblemsLib — lemmas shared by the ties of the problem classes (C10): the loop / comprehension primitives of
`Qv/Gen/PreludeProblems.lean` against the recursions the hand-written model `Qv/Model/Problems*.lean` uses
-/
set_option linter.unusedTactic false
set_option linter.unreachableTactic false
set_option linter.unusedSimpArgs false
set_option linter.unusedVariables false
namespace Qv.Gen
open Qv Qv.Prob

@[simp] theorem bind_ok_id {α : Type} (x : Except Err α) : (x >>= fun a => (Except.ok a : Except Err α)) = x := by
  cases x <;> rfl

@[simp] theorem ok_bindP {α β : Type} (a : α) (f : α → Except Err β) : ((Except.ok a : Except Err α) >>= f) = f a := rfl
@[simp] theorem error_bindP {α β : Type} (e : Err) (f : α → Except Err β) :
    ((Except.error e : Except Err α) >>= f) = Except.error e := rfl

theorem bind_assocP {α β γ : Type} (x : Except Err α) (f : α → Except Err β) (g : β → Except Err γ) :
    ((x >>= f) >>= g) = (x >>= fun a => f a >>= g) := by
  cases x <;> rfl

theorem bind_congrP {α β : Type} (x : Except Err α) (f g : α → Except Err β) (h : ∀ a, f a = g a) :
    (x >>= f) = (x >>= g) := by
  cases x <;> simp [h]

/-- a comprehension whose element never raises on the elements visited -/
theorem pyMapM_ok {α β : Type} (l : List α) (f : α → Except Err β) (g : α → β) (h : ∀ a ∈ l, f a = .ok (g a)) :
    pyMapM l f = .ok (l.map g) := by
  induction l with
  | nil => rfl
  | cons a r ih =>
    have ha := h a (List.mem_cons_self ..)
    have hr := ih (fun b hb => h b (List.mem_cons_of_mem _ hb))
    simp [pyMapM, ha, hr]

theorem pyMapM_congr {α β : Type} (l : List α) (f g : α → Except Err β) (h : ∀ a ∈ l, f a = g a) :
    pyMapM l f = pyMapM l g := by
  induction l with
  | nil => rfl
  | cons a r ih =>
    simp only [pyMapM, h a (List.mem_cons_self ..), ih (fun b hb => h b (List.mem_cons_of_mem _ hb))]

/-- a loop whose body is one item statement `M[k a] += v a` -/
theorem pyForM_iadd {α : Type} (sq : Sq) (l : List α) (k : α → Key) (v : α → Rat)
    (body : Poly → α → Except Err Poly) (h : ∀ a ∈ l, ∀ acc, body acc a = addTerm sq acc (k a) (v a)) (acc : Poly) :
    pyForM l acc body = iaddD sq acc (l.map (fun a => (k a, v a))) := by
  induction l generalizing acc with
  | nil => rfl
  | cons a r ih =>
    simp only [pyForM, List.map_cons, iaddD, h a (List.mem_cons_self ..)]
    cases addTerm sq acc (k a) (v a) with
    | error e => rfl
    | ok p => exact ih (fun b hb => h b (List.mem_cons_of_mem _ hb)) p

theorem pyForM_congr {α σ : Type} (l : List α) (f g : σ → α → Except Err σ) (h : ∀ a ∈ l, ∀ s, f s a = g s a) (s : σ) :
    pyForM l s f = pyForM l s g := by
  induction l generalizing s with
  | nil => rfl
  | cons a r ih =>
    simp only [pyForM, h a (List.mem_cons_self ..)]
    cases g s a with
    | error e => rfl
    | ok p => exact ih (fun b hb => h b (List.mem_cons_of_mem _ hb)) p

theorem pyListAt_lt {α : Type} (l : List α) (i : Nat) (h : i < l.length) : pyListAt l i = .ok l[i] := by
  simp [pyListAt, List.getElem?_eq_getElem h]

theorem pyListAt_eq_listGet (l : List Rat) (i : Nat) : pyListAt l i = listGet l i := by
  unfold pyListAt listGet
  cases l[i]? <;> rfl

theorem pyDictAt_eq_vertexAt (l : List Var) (i : Nat) : pyDictAt l i = vertexAt l i := by
  unfold pyDictAt vertexAt
  cases l[i]? <;> rfl

theorem pyIndexOf_eq_indexIn (l : List Var) (x : Var) : pyIndexOf l x = indexIn l x := by
  induction l with
  | nil => rfl
  | cons a r ih =>
    simp only [pyIndexOf, indexIn, ih]
    rfl

/-- `linOps` as a comprehension over `range(len(c))` -/
theorem linOps_eq_map (f : Rat → Rat) (c : List Rat) (off : Nat) :
    linOps (c.map f) off = (List.range c.length).map (fun i => ([off + i], f (c.getD i 0))) := by
  induction c generalizing off with
  | nil => rfl
  | cons a r ih =>
    simp only [List.map_cons, linOps, List.length_cons, List.range_succ_eq_map, List.map_map, ih]
    refine congrArg₂ _ (by simp) ?_
    apply List.map_congr_left
    intro i _
    simp [Nat.add_assoc, Nat.add_comm 1 i]

theorem linOps_eq_map0 (f : Rat → Rat) (c : List Rat) :
    linOps (c.map f) 0 = (List.range c.length).map (fun i => ([i], f (c.getD i 0))) := by
  simpa using linOps_eq_map f c 0

theorem pySum_eq_sumL (l : List Rat) : pySum l = sumL l := by
  have h : ∀ (l : List Rat) (a : Rat), l.foldl (fun acc x => acc + x) a = a + sumL l := by
    intro l
    induction l with
    | nil => intro a; simp [sumL]
    | cons b r ih => intro a; simp only [List.foldl_cons, ih, sumL]; ring
  simp [pySum, h]

end Qv.Gen
