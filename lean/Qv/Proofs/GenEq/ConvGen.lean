import Qv.Gen.SourceConv
import Qv.Proofs.GenEq.Convert
import Qv.Proofs.GenEq.PyList
/-!
# GenEq.ConvGen — the expansion generators of `pubo_to_puso` / `puso_to_pubo` and the updates one term
produces, generated from `qubovert/utils/_conversions.py`, equal the model's `genB2S`, `genS2B`, `addGen` (C04)

`generate_new_key_value` (a recursive generator nested in each conversion) is rendered as the list of the
pairs it yields, in order; the recursion on `k[1:]` is well-founded recursion on `len(k)`.
-/
set_option linter.unusedTactic false
set_option linter.unreachableTactic false
set_option linter.unusedSimpArgs false
namespace Qv.Gen

/-- a loop that appends two items per element -/
theorem foldl_two {α β : Type} (g : List β → α → List β) (a b : α → β)
    (hg : ∀ acc it, g acc it = acc ++ [a it] ++ [b it]) :
    ∀ (l : List α) (acc : List β), l.foldl g acc = acc ++ l.flatMap (fun it => [a it, b it]) := by
  intro l
  induction l with
  | nil => intro acc; simp
  | cons x r ih => intro acc; simp [List.foldl_cons, hg, ih]

/-- a loop that appends one item per element -/
theorem foldl_one {α β : Type} (g : List β → α → List β) (a : α → β)
    (hg : ∀ acc it, g acc it = acc ++ [a it]) :
    ∀ (l : List α) (acc : List β), l.foldl g acc = acc ++ l.map a := by
  intro l
  induction l with
  | nil => intro acc; simp
  | cons x r ih => intro acc; simp [List.foldl_cons, hg, ih]

theorem pySlice_from_one_cons {α : Type} (a : α) (r : List α) : pySlice (a :: r) (some (1 : Int)) none = r := by
  rw [pySlice_from_one]; rfl

/-- `generate_new_key_value(k)` of `pubo_to_puso` yields the model's `genB2S k`, for keys of any length -/
theorem pubo_to_puso_generate_eq_model : ∀ (k : Key), pubo_to_puso_generate k = genB2S k := by
  intro k
  induction k with
  | nil => rw [pubo_to_puso_generate]; simp [genB2S]
  | cons i r ih =>
    rw [pubo_to_puso_generate]
    have hne : ¬ (i :: r = []) := by simp
    first
    | simp only [hne, dif_neg, not_false_eq_true, pySlice_from_one_cons, ih, genB2S]
    | simp [pySlice_from_one_cons, ih, genB2S]
    rw [foldl_two _ (fun kv => (i :: kv.1, -kv.2 / 2)) (fun kv => (kv.1, kv.2 / 2))]
    · simp
    · intro acc it; simp [pyGet]

/-- `generate_new_key_value(k)` of `puso_to_pubo` yields the model's `genS2B k` -/
theorem puso_to_pubo_generate_eq_model : ∀ (k : Key), puso_to_pubo_generate k = genS2B k := by
  intro k
  induction k with
  | nil => rw [puso_to_pubo_generate]; simp [genS2B]
  | cons i r ih =>
    rw [puso_to_pubo_generate]
    have hne : ¬ (i :: r = []) := by simp
    first
    | simp only [hne, dif_neg, not_false_eq_true, pySlice_from_one_cons, ih, genS2B]
    | simp [pySlice_from_one_cons, ih, genS2B]
    rw [foldl_two _ (fun kv => (i :: kv.1, -2 * kv.2)) (fun kv => (kv.1, kv.2))]
    · simp
    · intro acc it; simp [pyGet]

theorem addGen_eq_applyUpdates (sq : Sq) (v : Rat) : ∀ (g : List (Key × Rat)) (acc : Poly),
    addGen sq acc g v = applyUpdates sq acc (g.map (fun kv => (kv.1, kv.2 * v))) := by
  intro g
  induction g with
  | nil => intro acc; rfl
  | cons kv r ih =>
    intro acc
    obtain ⟨key, value⟩ := kv
    simp only [addGen, List.map_cons, applyUpdates]
    cases addTerm sq acc key (value * v) with
    | error e => rfl
    | ok acc' => exact ih acc'

/-- body of the loop of `pubo_to_puso`: the model's `addGen … (genB2S k) v` performs exactly the updates
`H[key] += value * v` the generated body lists, in the same order -/
theorem pubo_to_puso_term_eq_model (sq : Sq) (acc : Poly) (k : Key) (v : Rat) :
    addGen sq acc (genB2S k) v = applyUpdates sq acc (pubo_to_puso_term k v) := by
  unfold pubo_to_puso_term
  rw [pubo_to_puso_generate_eq_model, addGen_eq_applyUpdates]
  simp only []
  congr 1
  refine (Eq.trans (foldl_one _ (fun kv => (kv.1, kv.2 * v)) ?_ _ _) (by simp)).symm
  intro acc it
  first | rfl | simp

theorem puso_to_pubo_term_eq_model (sq : Sq) (acc : Poly) (k : Key) (v : Rat) :
    addGen sq acc (genS2B k) v = applyUpdates sq acc (puso_to_pubo_term k v) := by
  unfold puso_to_pubo_term
  rw [puso_to_pubo_generate_eq_model, addGen_eq_applyUpdates]
  simp only []
  congr 1
  refine (Eq.trans (foldl_one _ (fun kv => (kv.1, kv.2 * v)) ?_ _ _) (by simp)).symm
  intro acc it
  first | rfl | simp

example : genB2S [3, 5] = [([3, 5], 1/4), ([5], -1/4), ([3], -1/4), ([], 1/4)] := by decide +kernel
example : pubo_to_puso_generate [3, 5] = genB2S [3, 5] := pubo_to_puso_generate_eq_model _
example : genS2B [3] = [([3], -2), ([], 1)] := by decide +kernel

end Qv.Gen
