import Qv.Gen.Source
import Qv.Model.Reduce
import Mathlib.Tactic.Ring
/-!
# GenEq.Lam — the generated `PUBO.default_lam` equals the model's default penalty (C01)
-/
-- alternatives kept for robustness against equivalent reshapings of the generated term
set_option linter.unusedTactic false
set_option linter.unreachableTactic false
namespace Qv.Gen

theorem pyAbs_eq_reduce_absR (v : Rat) : pyAbs v = Qv.Reduce.absR v := rfl

/-- `PUBO.default_lam(v) = 1 + abs(v)` (generated) is the model's `Reduce.defaultLam`, hence `Lam.default.app` -/
theorem default_lam_eq_model (v : Rat) : default_lam v = Qv.Reduce.defaultLam v := by
  unfold default_lam Qv.Reduce.defaultLam
  simp only [pyAbs_eq_reduce_absR] <;> ring

theorem default_lam_eq_app (v : Rat) : default_lam v = Qv.Reduce.Lam.default.app v :=
  default_lam_eq_model v

example : default_lam (-5 / 2) = 7 / 2 := by decide +kernel
example : Qv.Reduce.defaultLam (-5 / 2) = 7 / 2 := by decide +kernel

end Qv.Gen
