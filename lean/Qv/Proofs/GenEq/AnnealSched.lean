import Qv.Gen.SourceAnneal
import Qv.Proofs.GenEq.AnnealLib
/-!
# GenEq.AnnealSched — the validation generated from `_create_spin_schedule` (its first statement; the numpy grid is data)
equals the model's `createSchedule` (C11, C12)
-/
set_option linter.unusedTactic false
set_option linter.unreachableTactic false
set_option linter.unusedSimpArgs false
namespace Qv.Gen
open Qv.Gen.Ann
open Qv Qv.Anneal

/-- `_create_spin_schedule`: a non-string schedule is returned as `list(schedule)`; a string that is not in `SCHEDULES`
raises `ValueError`; otherwise the grid (data) — exactly `createSchedule` -/
theorem create_spin_schedule_eq_model {α : Type} (s : Schedule α) :
    pySegFinish (create_spin_schedule s) pyNamedGrid = createSchedule s := by
  unfold create_spin_schedule pySegFinish createSchedule
  cases s with
  | explicit Ts => simp [pyIsStr, pyListOfSchedule, pyStrIn, pyNamedGrid] <;> rfl
  | named n g =>
    by_cases h : n = "linear" ∨ n = "geometric"
    · rcases h with h | h <;> subst h <;> simp [pyIsStr, pyListOfSchedule, pyStrIn, pyNamedGrid] <;>
        first | rfl | (cases g <;> rfl) | simp_all
    · have h1 : ¬ n = "linear" := fun e => h (Or.inl e)
      have h2 : ¬ n = "geometric" := fun e => h (Or.inr e)
      simp [pyIsStr, pyListOfSchedule, pyStrIn, pyNamedGrid, h, h1, h2, Ne.symm h1, Ne.symm h2] <;>
        first | rfl | simp_all | grind

example : pySegFinish (create_spin_schedule (Schedule.named "cubic" (.ok [1, (2 : Rat)]))) pyNamedGrid = .error .value := by
  decide +kernel
example : pySegFinish (create_spin_schedule (Schedule.explicit [1, (0 : Rat)])) pyNamedGrid = .ok [1, 0] := by decide +kernel

end Qv.Gen
