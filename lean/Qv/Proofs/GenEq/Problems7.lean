import Qv.Proofs.GenEq.Problems7Ops
import Qv.Proofs.GenEq.Problems6
/-!
# GenEq.Problems7 — `JobSequencing.to_qubo` (C10): the definition generated from `np/coloring/_job_sequencing.py` equals the
model's `JS.toQubo` for every instance whose job labels are distinct (they are the keys of a dict).  Step (D): the statement
list of the source (`pb2_jsOps`, Problems7Ops) is the model's `JS.ops`.
-/
set_option linter.unusedTactic false
set_option linter.unreachableTactic false
set_option linter.unusedSimpArgs false
set_option linter.unusedVariables false
namespace Qv.Gen
open Qv Qv.Prob

theorem pb2_jobs_map (p : JS) (hk : (pb2_keys p).Nodup) :
    p.lengths.map (fun it => (pb2_idx p it.1, it.2)) = p.jobs := by
  unfold JS.jobs JS.N pb2_idx
  apply List.ext_getElem
  · simp
  · intro i h1 h2
    have hi : i < (pb2_keys p).length := by simpa [pb2_keys] using h1
    have hl : i < p.lengths.length := by simpa using h1
    have hkey : (p.lengths[i]'hl).1 = (pb2_keys p)[i] := by simp [pb2_keys]
    simp only [List.getElem_map, List.getElem_zip, List.getElem_range, hkey, hk.idxOf_getElem i hi]

theorem pb2_range_drop1 (m : Nat) : (List.range m).drop 1 = pyRange2 1 m := by
  cases m with
  | zero => rfl
  | succ k =>
    rw [List.range_succ_eq_map, List.drop_one, List.tail_cons, ← pb2_pyRange2_zero, ← pb2_pyRange2_succ_map]

theorem pb2_yg_eq (p : JS) (n w : Nat) (hw : 1 ≤ w) (hm : w < p.m) : pb2_yg p n w = p.y n w := by
  unfold pb2_yg JS.y
  have h1 : ((p.m - 1 : Nat) : Int) = (p.m : Int) - 1 := by omega
  have : ((((p.N * p.m : Nat) : Int) + ((n : Int) * ((p.m : Int) - ((1 : Nat) : Int)))) + (w : Int)) - (1 : Int)
      = ((p.N * p.m + n * (p.m - 1) + w - 1 : Nat) : Int) := by
    have h2 : ((p.N * p.m + n * (p.m - 1) + w - 1 : Nat) : Int) = ((p.N * p.m + n * (p.m - 1) + w : Nat) : Int) - 1 := by omega
    rw [h2]
    simp only [Nat.cast_add, Nat.cast_mul, h1, Nat.cast_one]
  rw [this, Int.toNat_natCast]

theorem pb2_coef (p : JS) (n : Nat) : (((if p.logTrick = true then 2 ^ n else n + 1 : Nat)) : Rat) = p.coef n := by
  unfold JS.coef
  cases p.logTrick <;> simp

/-- `_y(i, worker)` for a worker `1 ≤ worker < m` (the ones `to_qubo` uses): the model's slack label -/
theorem JobSequencing__y_eq_model (p : JS) (i w : Nat) (hw : 1 ≤ w) (hm : w < p.m) :
    JobSequencing__y p.lengths (p.lengths.map Prod.fst) p.m p.logTrick p.maxL p.N p.M p.logM i w = .ok ((p.y i w : Nat) : Int) := by
  have h := pb2_jsy_gen p i w
  have h2 := pb2_yg_eq p i w hw hm
  unfold pb2_yg at h2
  rw [show pb2_keys p = p.lengths.map Prod.fst from rfl] at h
  rw [h, ← h2]
  congr 1
  rw [Int.toNat_of_nonneg]
  have h1 : (1 : Int) ≤ (w : Int) := by exact_mod_cast hw
  have h3 : (0 : Int) ≤ (i : Int) * ((p.m : Int) - ((1 : Nat) : Int)) := by
    apply Int.mul_nonneg (Int.natCast_nonneg _)
    have : (1 : Int) ≤ (p.m : Int) := by exact_mod_cast (Nat.le_of_lt (Nat.lt_of_le_of_lt hw hm))
    simpa using this
  have h4 : (0 : Int) ≤ ((p.N * p.m : Nat) : Int) := Int.natCast_nonneg _
  omega

/-- (D) -/
theorem pb2_jsOps_eq (p : JS) (hk : (pb2_keys p).Nodup) (A B : Rat) : pb2_jsOps p A B = p.ops A B := by
  unfold pb2_jsOps JS.ops
  have hkeys : pb2_keys p = p.lengths.map Prod.fst := rfl
  simp only [← pb2_jobs_map p hk, hkeys, pb2_range_drop1, List.flatMap_map, List.map_map, pb2_flatMap_single, Function.comp_def,
    List.singleton_append, List.cons_append, List.append_assoc, List.cons.injEq, true_and, List.append_cancel_left_eq,
    pb2_coef, List.nil_append, Nat.cast_add, Nat.cast_one]
  apply pb2_flatMap_congr
  intro w hw
  have h := (pb2_mem_pyRange2 _ _ _).1 hw
  simp only [pb2_yg_eq p _ w h.1 h.2]

theorem JobSequencing_to_qubo_eq_model (p : JS) (hk : (p.lengths.map Prod.fst).Nodup) (A : Option Rat) (B : Rat) :
    JobSequencing_to_qubo p.lengths (p.lengths.map Prod.fst) p.m p.logTrick p.maxL p.N p.M p.logM A B = p.toQubo A B := by
  have h := pb2_js_to_qubo_ops p A B
  rw [pb2_jsOps_eq p hk] at h
  exact h

/-- `to_qubo()` with the defaults `A = None` (i.e. `B * max(lengths)`), `B = 1` -/
theorem JobSequencing_to_qubo_default_eq_model (p : JS) (hk : (p.lengths.map Prod.fst).Nodup) :
    JobSequencing_to_qubo_default p.lengths (p.lengths.map Prod.fst) p.m p.logTrick p.maxL p.N p.M p.logM = p.toQubo none 1 := by
  unfold JobSequencing_to_qubo_default
  exact JobSequencing_to_qubo_eq_model p hk none 1

end Qv.Gen
