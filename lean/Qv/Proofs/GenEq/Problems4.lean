import Qv.Proofs.GenEq.ProblemsLib
import Mathlib.Tactic.NormNum
/-!
# GenEq.Problems4 — `AlternatingSectorsChain.to_quso` (C10): the definition generated from
`benchmarking/_alternating_sectors_chain.py` equals the model's `ASC.toQuso` for every instance with `N ≥ 1` (what `__init__`
checks; `self._min_strength`, `self._max_strength` are the stored, negated strengths `p.negMin`, `p.negMax`).
-/
set_option linter.unusedTactic false
set_option linter.unreachableTactic false
set_option linter.unusedSimpArgs false
set_option linter.unusedVariables false
namespace Qv.Gen
open Qv Qv.Prob

/-- `for q in range(N - 1): L[(q, q+1)] = …` -/
theorem pyForM_chain (p : ASC) (body : Poly → Nat → Except Err Poly)
    (h : ∀ L q, body L q = setItem (squash .qusom) L [q, q + 1] (p.coupling q)) (l : List Nat) (L : Poly) :
    pyForM l L body = ASC.chain p L l := by
  induction l generalizing L with
  | nil => rfl
  | cons q r ih =>
    simp only [pyForM, ASC.chain, h, ih]
    all_goals first | rfl | (simp only [bind, pure, Except.bind, Except.pure]; done)

theorem asc_last_sector (N len : Nat) (hN : 1 ≤ N) :
    ((((N : Int) - ((1 : Nat) : Int)) / (len : Int)) % (2 : Int) ≠ 0) ↔ (((N - 1) / len) % 2 ≠ 0) := by
  have h : (N : Int) - ((1 : Nat) : Int) = ((N - 1 : Nat) : Int) := by omega
  rw [h]
  norm_cast

theorem AlternatingSectorsChain_to_quso_eq_model (p : ASC) (hN : 1 ≤ p.N) (pbc : Bool) :
    AlternatingSectorsChain_to_quso p.N p.len p.negMin p.negMax pbc = p.toQuso pbc := by
  unfold AlternatingSectorsChain_to_quso ASC.toQuso
  have hr : pyRangeNat ((p.N : Int) - ((1 : Nat) : Int)) = List.range (p.N - 1) := by
    unfold pyRangeNat
    congr 1
    omega
  have hl : Int.toNat ((p.N : Int) - ((1 : Nat) : Int)) = p.N - 1 := by omega
  simp only [hr, hl, bind_ok_id]
  rw [pyForM_chain p _ (by
    intro L q
    simp only [pyMatSetItem, bind_ok_id, ASC.coupling]
    all_goals first | rfl | (simp only [Nat.add_comm 1 q]; done)) (List.range (p.N - 1)) []]
  apply bind_congrP
  intro L
  simp only [asc_last_sector p.N p.len hN, pyMatSetItem, ASC.coupling, bind_ok_id]
  all_goals first
  | rfl
  | (cases pbc <;> simp [pure, Except.pure]; done)
  | (cases pbc <;> rfl)

/-- `to_quso()` with the default `pbc = False` -/
theorem AlternatingSectorsChain_to_quso_default_eq_model (p : ASC) (hN : 1 ≤ p.N) :
    AlternatingSectorsChain_to_quso_default p.N p.len p.negMin p.negMax = p.toQuso false := by
  unfold AlternatingSectorsChain_to_quso_default
  exact AlternatingSectorsChain_to_quso_eq_model p hN false

end Qv.Gen
