import Qv.Gen.SourcePcso
import Qv.Model.Pcso
import Qv.Proofs.GenEq.Cons
import Qv.Gen.Interp
/-!
# GenEq.PcsoCons — the bodies generated from the six `PCSO.add_constraint_*_zero` methods equal the model's
`Pcso.addConstraint` (C03)

Every statement of these methods but `if not lam: return self` acts on opaque objects and is named (`SEff`,
`Qv/Gen/PreludeCons.lean`); `runSEff` says what each does.  The theorems: for each relation, running the
generated statement list — which statements, in which order, with which relation name in
`_append_constraint` and in the helper's method name, and the `lam` guard — is `Pcso.addConstraint` of that
relation.
-/
set_option linter.unusedTactic false
set_option linter.unreachableTactic false
set_option linter.unusedSimpArgs false
set_option linter.unusedVariables false
namespace Qv.Gen
open Qv.Pcso

theorem body_eq (r : Rel) (name : String) (hr : relOf name = r) (s : PSt) (H : Poly) (lam : Rat) (lt : Bool)
    (b : Option Rat × Option Rat) (sup : Bool) (body : Rat → List SEff)
    (hb : body lam = if lam = 0 then [.spinCopy, .append name]
      else [.spinCopy, .append name, .helper name, .copyAncilla, .iaddConverted]) :
    runBody lam lt b sup s H (body lam) = Pcso.addConstraint r s H lam lt b sup := by
  rw [hb]
  unfold runBody Pcso.addConstraint
  by_cases hl : lam = 0
  · simp only [hl, if_true, List.foldlM_cons, List.foldlM_nil, runSEff, hr]
    cases spinCopy H <;> rfl
  · simp only [hl, if_false, List.foldlM_cons, List.foldlM_nil, runSEff, hr]
    cases spinCopy H with
    | error e => rfl
    | ok H' =>
      simp only [ok_bind', pure, Except.pure, bind, Except.bind]
      cases boolImage H' with
      | error e => rfl
      | ok P =>
        simp only [absorb, PSt.append, pure, Except.pure, bind, Except.bind]
        cases puboToPuso .pcbo (Pcso.helper r { s with cons := s.cons ++ [(r, H')] } P lam lt b sup).terms with
        | error e => rfl
        | ok F =>
          simp only []
          cases iaddD (squash .pcso) s.terms F <;> rfl

theorem pcso_add_constraint_eq_zero_eq_model (s : PSt) (H : Poly) (lam : Rat) (lt : Bool)
    (b : Option Rat × Option Rat) (sup : Bool) :
    runBody lam lt b sup s H (pcso_add_constraint_eq_zero lam) = Pcso.addConstraint .eq s H lam lt b sup :=
  body_eq .eq "eq" rfl s H lam lt b sup pcso_add_constraint_eq_zero (by unfold pcso_add_constraint_eq_zero; split_ifs <;> rfl)

theorem pcso_add_constraint_ne_zero_eq_model (s : PSt) (H : Poly) (lam : Rat) (lt : Bool)
    (b : Option Rat × Option Rat) (sup : Bool) :
    runBody lam lt b sup s H (pcso_add_constraint_ne_zero lam) = Pcso.addConstraint .ne s H lam lt b sup :=
  body_eq .ne "ne" rfl s H lam lt b sup pcso_add_constraint_ne_zero (by unfold pcso_add_constraint_ne_zero; split_ifs <;> rfl)

theorem pcso_add_constraint_lt_zero_eq_model (s : PSt) (H : Poly) (lam : Rat) (lt : Bool)
    (b : Option Rat × Option Rat) (sup : Bool) :
    runBody lam lt b sup s H (pcso_add_constraint_lt_zero lam) = Pcso.addConstraint .lt s H lam lt b sup :=
  body_eq .lt "lt" rfl s H lam lt b sup pcso_add_constraint_lt_zero (by unfold pcso_add_constraint_lt_zero; split_ifs <;> rfl)

theorem pcso_add_constraint_le_zero_eq_model (s : PSt) (H : Poly) (lam : Rat) (lt : Bool)
    (b : Option Rat × Option Rat) (sup : Bool) :
    runBody lam lt b sup s H (pcso_add_constraint_le_zero lam) = Pcso.addConstraint .le s H lam lt b sup :=
  body_eq .le "le" rfl s H lam lt b sup pcso_add_constraint_le_zero (by unfold pcso_add_constraint_le_zero; split_ifs <;> rfl)

theorem pcso_add_constraint_gt_zero_eq_model (s : PSt) (H : Poly) (lam : Rat) (lt : Bool)
    (b : Option Rat × Option Rat) (sup : Bool) :
    runBody lam lt b sup s H (pcso_add_constraint_gt_zero lam) = Pcso.addConstraint .gt s H lam lt b sup :=
  body_eq .gt "gt" rfl s H lam lt b sup pcso_add_constraint_gt_zero (by unfold pcso_add_constraint_gt_zero; split_ifs <;> rfl)

theorem pcso_add_constraint_ge_zero_eq_model (s : PSt) (H : Poly) (lam : Rat) (lt : Bool)
    (b : Option Rat × Option Rat) (sup : Bool) :
    runBody lam lt b sup s H (pcso_add_constraint_ge_zero lam) = Pcso.addConstraint .ge s H lam lt b sup :=
  body_eq .ge "ge" rfl s H lam lt b sup pcso_add_constraint_ge_zero (by unfold pcso_add_constraint_ge_zero; split_ifs <;> rfl)

example : pcso_add_constraint_le_zero 2 = [.spinCopy, .append "le", .helper "le", .copyAncilla, .iaddConverted] := by
  decide +kernel
example : pcso_add_constraint_le_zero 0 = [.spinCopy, .append "le"] := by decide +kernel

end Qv.Gen
