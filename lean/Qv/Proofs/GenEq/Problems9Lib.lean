import Qv.Proofs.GenEq.Problems5Lib
/-!
# GenEq.Problems9Lib — facts about the model's brute-force solver shared by the ties of `Problem.solve_bruteforce` and
`SetCover.solve_bruteforce` (C10, C09): the output contract (a dict without, a list of dicts with `all_solutions`), pure loops as folds
-/
set_option linter.unusedTactic false
set_option linter.unreachableTactic false
set_option linter.unusedSimpArgs false
set_option linter.unusedVariables false
namespace Qv.Gen
open Qv Qv.Prob

/-- a loop whose body cannot raise is the left fold -/
theorem pb2_forM_pure {α σ : Type} (l : List α) (s : σ) (body : σ → α → Except Err σ) (f : σ → α → σ)
    (h : ∀ s a, body s a = .ok (f s a)) : pyForM l s body = .ok (l.foldl f s) := by
  induction l generalizing s with
  | nil => rfl
  | cons a r ih => simp only [pyForM, h, ok_bindP, List.foldl_cons, ih]

/-- the output contract of the solver: a dict without, a list of dicts with `all_solutions` -/
theorem pb2_solve_shape (fn : Brute.Fn) (D : Brute.Model) (allS : Bool) (valid : Brute.Assign → Bool) (order : List Var)
    (sol : Brute.Sol) (h : Brute.solveMethod fn D allS valid order = .ok sol) :
    (allS = true → ∃ xs, sol = .many xs) ∧ (allS = false → ∃ x, sol = .one x) := by
  unfold Brute.solveMethod at h
  cases ho : Brute.solve fn D allS valid order with
  | error e => simp [ho, Except.map] at h
  | ok out =>
    simp only [ho, Except.map, Except.ok.injEq] at h
    subst h
    unfold Brute.solve Brute.solveCore at ho
    have hempty : (allS = true → ∃ xs, Brute.emptySol allS = .many xs) ∧ (allS = false → ∃ x, Brute.emptySol allS = .one x) := by
      cases allS <;> simp [Brute.emptySol]
    have hmain : ∀ terms, Brute.solveCore.solveMain D terms allS valid fn.spin fn.valueP order = .ok out →
        (allS = true → ∃ xs, out.sol = .many xs) ∧ (allS = false → ∃ x, out.sol = .one x) := by
      intro terms hm
      unfold Brute.solveCore.solveMain at hm
      cases hv : D.vars order with
      | error e => simp [hv, bind, Except.bind] at hm
      | ok vars =>
        simp only [hv, bind, Except.bind] at hm
        split at hm
        · cases hm
        · rename_i st _
          cases allS
          · simp only [Bool.false_eq_true, if_false, pure, Except.pure, Except.ok.injEq] at hm
            subst hm
            simp
          · simp only [if_true] at hm
            split at hm
            · simp only [pure, Except.pure, Except.ok.injEq] at hm
              subst hm
              simp
            · cases hm
    split at ho
    · cases ho
      exact hempty
    · split at ho
      · simp only [] at ho
        split at ho
        · cases ho
          exact hempty
        · exact hmain _ ho
      · exact hmain _ ho

theorem pb2_pyMapM_eq_mapM {α β : Type} (l : List α) (f : α → Except Err β) : pyMapM l f = l.mapM f := by
  induction l with
  | nil => rfl
  | cons a r ih =>
    rw [List.mapM_cons, pyMapM, ih]
    cases f a with
    | error e => rfl
    | ok b => cases r.mapM f <;> rfl

end Qv.Gen
