import Qv.Gen.SourceConv2Meth
import Qv.Proofs.GenEq.Conv2Free
/-!
# GenEq.Conv2Meth — the `to_*` methods generated from `_qubo.py`, `_quso.py`, `_puso.py`, `_pubo.py` and the
`Conversions` defaults of `_conversions.py` equal the model's `relabel`, `quboTo`, `qusoTo`, `pusoTo`, `puboTo` (C04)

* relabelling through `_mapping` with `+=` accumulation (`QUBO.to_qubo`, `QUSO.to_quso`, `PUSO._to_puso`);
* `QUBO.to_pubo` / `QUSO.to_puso` (`PUBOMatrix(self.to_qubo())`);
* the shortcuts of `PUSO.to_puso` / `PUSO.to_quso` (degree already small enough → plain relabelling);
* `PUBO.to_pubo` / `PUBO.to_qubo`: result type and the degree handed to `_reduce_degree` (not followed: C01);
* the four `Conversions` defaults; the `*_chain` theorems compose them with the methods above, following Python's
  method resolution for each labelled class, and reach the model's `toMethod`.
-/
set_option linter.unusedTactic false
set_option linter.unreachableTactic false
set_option linter.unusedSimpArgs false
namespace Qv.Gen

theorem pyMapGet_eq_mapGet' (m : PyMap) (i : Var) : pyMapGet m i = mapGet m i := by
  induction m with
  | nil => rfl
  | cons ab r ih => obtain ⟨a, b⟩ := ab; simp only [pyMapGet, mapGet, ih]

theorem pyListMapM_mapKey (m : PyMap) (f : Var → Except Err Var) (hf : ∀ i, f i = mapGet m i) :
    ∀ k : Key, pyListMapM k f = mapKey m k := by
  intro k
  induction k with
  | nil => rfl
  | cons i r ih =>
    simp only [pyListMapM, mapKey, hf, ih]
    cases mapGet m i with
    | error e => rfl
    | ok a => simp only [ok_bind']; cases mapKey m r <;> rfl

theorem pyInsortNat_eq (a : Nat) (l : List Nat) : pyInsortNat a l = insSorted a l := by
  induction l with
  | nil => rfl
  | cons b bs ih => simp only [pyInsortNat, insSorted, ih]

theorem pySortedNat_eq (l : List Nat) : pySortedNat l = sortKey l := by
  induction l with
  | nil => rfl
  | cons a r ih =>
    simp only [pySortedNat, sortKey, List.foldr_cons] at ih ⊢
    rw [ih, pyInsortNat_eq]

/-- a loop `key = tuple([sorted](self._mapping[i] for i in k)); D[key] += v` is the model's `relabel` -/
theorem forM_relabel (κ : Kind) (m : PyMap) (srt : Bool) (body : ConvObj → Key × Rat → Except Err ConvObj)
    (hbody : ∀ (t : Poly) (it : Key × Rat), body ⟨κ, t⟩ it =
      asObj κ (mapKey m it.1 >>= fun key => addTerm (squash κ) t (if srt then sortKey key else key) it.2)) :
    ∀ (p t : Poly), pyForM p ⟨κ, t⟩ body = asObj κ (relabel (squash κ) m srt t p) := by
  intro p
  induction p with
  | nil => intro t; rfl
  | cons kv r ih =>
    intro t
    obtain ⟨k, v⟩ := kv
    simp only [pyForM, hbody, relabel]
    cases mapKey m k with
    | error e => rfl
    | ok key =>
      simp only [ok_bind']
      cases addTerm (squash κ) t (if srt then sortKey key else key) v with
      | error e => rfl
      | ok t' => simp only [asObj_ok, ok_bind']; exact ih t'

/-- finishing tactic for the body of a relabelling loop -/
macro "relabel_body" : tactic =>
  `(tactic| (
    intro t it
    obtain ⟨k, v⟩ := it
    simp only [bind_ok_self, ConvModel.obj]
    rw [pyListMapM_mapKey _ _ (fun i => by first | exact pyMapGet_eq_mapGet' _ i | (simp only [bind_ok_self]; exact pyMapGet_eq_mapGet' _ i))]
    cases mapKey _ k with
    | error e => rfl
    | ok key => simp [pyItemIAdd_eq, pySortedNat_eq, ok_bind', asObj]))

theorem relabel_core (self : ConvModel) (κ : Kind) (srt : Bool) (body : ConvObj → Key × Rat → Except Err ConvObj)
    (hbody : ∀ (t : Poly) (it : Key × Rat), body ⟨κ, t⟩ it =
      asObj κ (mapKey self.mapping it.1 >>= fun key => addTerm (squash κ) t (if srt then sortKey key else key) it.2)) :
    pyForM (pyObjItems (ConvModel.obj self)) (pyNewObj κ) body = asObj κ (relabel (squash κ) self.mapping srt [] self.items) :=
  forM_relabel κ self.mapping srt body hbody self.items []

/-- `QUBO.to_qubo()`: a `QUBOMatrix` with the terms of the model's `quboTo .qubo` (relabelling through `_mapping`,
values of keys that coincide after relabelling accumulate) -/
theorem QUBO_to_qubo_eq_model (self : ConvModel) :
    QUBO_to_qubo self = asObj .qubom (quboTo .qubo self.mapping self.items) := by
  have hm : quboTo .qubo self.mapping self.items = relabel (squash .qubom) self.mapping false [] self.items := by
    simp only [quboTo]; cases relabel (squash .qubom) self.mapping false [] self.items <;> rfl
  rw [hm]
  unfold QUBO_to_qubo
  simp only [bind_ok_self]
  refine relabel_core self .qubom false _ ?_
  relabel_body

/-- `QUSO.to_quso()` -/
theorem QUSO_to_quso_eq_model (self : ConvModel) :
    QUSO_to_quso self = asObj .qusom (qusoTo .quso self.mapping self.items) := by
  have hm : qusoTo .quso self.mapping self.items = relabel (squash .qusom) self.mapping false [] self.items := by
    simp only [qusoTo]; cases relabel (squash .qusom) self.mapping false [] self.items <;> rfl
  rw [hm]
  unfold QUSO_to_quso
  simp only [bind_ok_self]
  refine relabel_core self .qusom false _ ?_
  relabel_body

/-- `PUSO._to_puso()`: relabelled keys are sorted -/
theorem PUSO_to_puso_enum_eq_model (self : ConvModel) :
    PUSO_to_puso_enum self = asObj .pusom (relabel (squash .pusom) self.mapping true [] self.items) := by
  unfold PUSO_to_puso_enum
  simp only [bind_ok_self]
  refine relabel_core self .pusom true _ ?_
  relabel_body

/-- `C(d)`: the constructor loop is the model's `construct` -/
theorem forM_iaddD (κ : Kind) : ∀ (d t : Poly),
    pyForM d (⟨κ, t⟩ : ConvObj) (fun o kv => pyItemIAdd o kv.1 kv.2) = asObj κ (iaddD (squash κ) t d) := by
  intro d
  induction d with
  | nil => intro t; rfl
  | cons kv r ih =>
    intro t
    obtain ⟨k, v⟩ := kv
    simp only [pyForM, iaddD, pyItemIAdd_eq]
    cases addTerm (squash κ) t k v with
    | error e => rfl
    | ok t' => simp only [asObj_ok, ok_bind']; exact ih t'

theorem pyObjConstruct_eq (κ : Kind) (d : ConvObj) : pyObjConstruct κ d = asObj κ (construct (squash κ) d.items) :=
  forM_iaddD κ d.items []

theorem asObj_bind {β : Type} (κ : Kind) (r : Except Err Poly) (f : ConvObj → Except Err β) :
    (asObj κ r >>= f) = (r >>= fun t => f ⟨κ, t⟩) := by
  cases r <;> rfl

/-- `QUBO.to_pubo()` is `PUBOMatrix(self.to_qubo())` -/
theorem QUBO_to_pubo_eq_model (self : ConvModel) :
    QUBO_to_pubo self = asObj .pubom (quboTo .pubo self.mapping self.items) := by
  unfold QUBO_to_pubo
  simp only [bind_ok_self, QUBO_to_qubo_eq_model, pyObjConstruct_eq, asObj_bind, quboTo]
  cases relabel (squash .qubom) self.mapping false [] self.items <;> first | rfl | simp [asObj, ok_bind', bind_assoc']

/-- `QUSO.to_puso()` is `PUSOMatrix(self.to_quso())` -/
theorem QUSO_to_puso_eq_model (self : ConvModel) :
    QUSO_to_puso self = asObj .pusom (qusoTo .puso self.mapping self.items) := by
  unfold QUSO_to_puso
  simp only [bind_ok_self, QUSO_to_quso_eq_model, pyObjConstruct_eq, asObj_bind, qusoTo]
  cases relabel (squash .qusom) self.mapping false [] self.items <;> first | rfl | simp [asObj, ok_bind', bind_assoc']

theorem pyGeDegree_eq (d : Int) (self : ConvModel) : pyGeDegree d (pyDegree self) = degGe d self.items := by
  unfold pyDegree degGe
  cases h : self.items with
  | nil => rfl
  | cons a r => simp [pyGeDegree]

/-- `PUSO.to_puso(deg, lam, pairs)`: plain relabelling when `deg is None or deg >= self.degree`; otherwise whatever
`self._create_pubo().to_puso(deg, lam, pairs)` returns (`route`, the degree-reduction route, C01) -/
theorem PUSO_to_puso_eq_model (self : ConvModel) (deg : Option Int) (route : Except Err ConvObj) :
    PUSO_to_puso self deg route =
      (match deg with
       | none => asObj .pusom (relabel (squash .pusom) self.mapping true [] self.items)
       | some d => if degGe d self.items then asObj .pusom (relabel (squash .pusom) self.mapping true [] self.items)
                   else route) := by
  unfold PUSO_to_puso
  cases deg with
  | none => simp only [bind_ok_self, PUSO_to_puso_enum_eq_model]
  | some d =>
    simp only [bind_ok_self, PUSO_to_puso_enum_eq_model, pyGeDegree_eq]

/-- … with the route the model takes (`puso_to_pubo(self)` carrying `self`'s mapping, then `PUBO.to_puso`) this is the
model's `pusoTo κ .puso` -/
theorem PUSO_to_puso_chain (self : ConvModel) (deg : Option Int) :
    PUSO_to_puso self deg (asObj .pusom (pusoToPubo self.kind self.items >>= fun P => puboTo .puso self.mapping deg P)) =
      asObj .pusom (pusoTo self.kind .puso self.mapping deg self.items) := by
  rw [PUSO_to_puso_eq_model]
  cases deg with
  | none => rfl
  | some d => simp only [pusoTo]; split <;> rfl

/-- `PUSO.to_quso(lam, pairs)`: `QUSOMatrix(self._to_puso())` when `self.degree <= 2`; otherwise the reduction route -/
theorem PUSO_to_quso_eq_model (self : ConvModel) (route : Except Err ConvObj) :
    PUSO_to_quso self route =
      (if degGe 2 self.items then
        asObj .qusom (relabel (squash .pusom) self.mapping true [] self.items >>= fun H => construct (squash .qusom) H)
       else route) := by
  unfold PUSO_to_quso
  simp only [bind_ok_self, PUSO_to_puso_enum_eq_model, pyGeDegree_eq, pyObjConstruct_eq, asObj_bind]
  split
  · cases relabel (squash .pusom) self.mapping true [] self.items <;> rfl
  · rfl

theorem PUSO_to_quso_chain (self : ConvModel) :
    PUSO_to_quso self (asObj .qusom (pusoToPubo self.kind self.items >>= fun P =>
        puboTo .qubo self.mapping none P >>= fun Q => quboToQuso .qubom Q)) =
      asObj .qusom (pusoTo self.kind .quso self.mapping none self.items) := by
  rw [PUSO_to_quso_eq_model]
  simp only [pusoTo]
  split <;> rfl

/-- `PUBO.to_pubo(deg, lam, pairs)`: `_reduce_degree` is run on a fresh `PUBOMatrix` with `deg` (lam, pairs passed through) -/
theorem PUBO_to_pubo_eq_model (self : ConvModel) (deg : Option Int) (red : ConvModel → ConvObj → Option Int → Except Err ConvObj) :
    PUBO_to_pubo self deg red = red self ⟨.pubom, []⟩ deg := by
  unfold PUBO_to_pubo
  simp only [bind_ok_self, pyNewObj]

/-- `PUBO.to_qubo(lam, pairs)`: `_reduce_degree` on a fresh `QUBOMatrix` with degree 2 -/
theorem PUBO_to_qubo_eq_model (self : ConvModel) (red : ConvModel → ConvObj → Option Int → Except Err ConvObj) :
    PUBO_to_qubo self red = red self ⟨.qubom, []⟩ (some 2) := by
  unfold PUBO_to_qubo
  simp only [bind_ok_self, pyNewObj]

/-- `_reduce_degree(D, deg, …)` on inputs that need no reduction, as the model reads it (`reduceNoop`) -/
def noopReduce (self : ConvModel) (D : ConvObj) (deg : Option Int) : Except Err ConvObj :=
  asObj D.kind (reduceNoop (squash D.kind) self.mapping deg self.items)

theorem PUBO_to_pubo_chain (self : ConvModel) (deg : Option Int) :
    PUBO_to_pubo self deg noopReduce = asObj .pubom (puboTo .pubo self.mapping deg self.items) := by
  rw [PUBO_to_pubo_eq_model]; rfl

theorem PUBO_to_qubo_chain (self : ConvModel) :
    PUBO_to_qubo self noopReduce = asObj .qubom (puboTo .qubo self.mapping none self.items) := by
  rw [PUBO_to_qubo_eq_model]; rfl

/-! ## `Conversions` defaults -/

/-- `Conversions.to_qubo(*args, **kwargs)` is `quso_to_qubo(self.to_quso(*args, **kwargs))` -/
theorem Conversions_to_qubo_eq_model (r : Except Err ConvObj) :
    Conversions_to_qubo r = (r >>= fun L => asObj (kindQusoToQubo L.kind) (qusoToQubo L.kind L.items)) := by
  unfold Conversions_to_qubo
  simp only [bind_ok_self, quso_to_qubo_eq_model]

theorem Conversions_to_quso_eq_model (r : Except Err ConvObj) :
    Conversions_to_quso r = (r >>= fun Q => asObj (kindQuboToQuso Q.kind) (quboToQuso Q.kind Q.items)) := by
  unfold Conversions_to_quso
  simp only [bind_ok_self, qubo_to_quso_eq_model]

theorem Conversions_to_pubo_eq_model (r : Except Err ConvObj) :
    Conversions_to_pubo r = (r >>= fun H => asObj (kindPusoToPubo H.kind) (pusoToPubo H.kind H.items)) := by
  unfold Conversions_to_pubo
  simp only [bind_ok_self, puso_to_pubo_eq_model]

theorem Conversions_to_puso_eq_model (r : Except Err ConvObj) :
    Conversions_to_puso r = (r >>= fun P => asObj (kindPuboToPuso P.kind) (puboToPuso P.kind P.items)) := by
  unfold Conversions_to_puso
  simp only [bind_ok_self, pubo_to_puso_eq_model]

/-! ## chains: the inherited methods of each labelled class reach the model's `toMethod`
(`QUBO.to_quso` / `to_puso` and `QUSO.to_qubo` / `to_pubo` are the `Conversions` defaults; so are `PUBO.to_puso` /
`to_quso`, also for PCBO) -/

theorem QUBO_to_quso_chain (self : ConvModel) :
    Conversions_to_quso (QUBO_to_qubo self) = asObj .qusom (toMethod .qubo .quso self.mapping none self.items) := by
  rw [Conversions_to_quso_eq_model, QUBO_to_qubo_eq_model, asObj_bind]
  simp only [toMethod, quboTo]
  cases relabel (squash .qubom) self.mapping false [] self.items <;> rfl

theorem QUBO_to_puso_chain (self : ConvModel) :
    Conversions_to_puso (QUBO_to_pubo self) = asObj .pusom (toMethod .qubo .puso self.mapping none self.items) := by
  rw [Conversions_to_puso_eq_model, QUBO_to_pubo_eq_model, asObj_bind]
  simp only [toMethod, quboTo]
  cases relabel (squash .qubom) self.mapping false [] self.items with
  | error e => rfl
  | ok Q => simp only [ok_bind']; cases construct (squash .pubom) Q <;> rfl

theorem QUSO_to_qubo_chain (self : ConvModel) :
    Conversions_to_qubo (QUSO_to_quso self) = asObj .qubom (toMethod .quso .qubo self.mapping none self.items) := by
  rw [Conversions_to_qubo_eq_model, QUSO_to_quso_eq_model, asObj_bind]
  simp only [toMethod, qusoTo]
  cases relabel (squash .qusom) self.mapping false [] self.items <;> rfl

theorem QUSO_to_pubo_chain (self : ConvModel) :
    Conversions_to_pubo (QUSO_to_puso self) = asObj .pubom (toMethod .quso .pubo self.mapping none self.items) := by
  rw [Conversions_to_pubo_eq_model, QUSO_to_puso_eq_model, asObj_bind]
  simp only [toMethod, qusoTo]
  cases relabel (squash .qusom) self.mapping false [] self.items with
  | error e => rfl
  | ok L => simp only [ok_bind']; cases construct (squash .pusom) L <;> rfl

theorem PUBO_to_puso_chain (self : ConvModel) (deg : Option Int) :
    Conversions_to_puso (PUBO_to_pubo self deg noopReduce) = asObj .pusom (toMethod .pubo .puso self.mapping deg self.items) := by
  rw [Conversions_to_puso_eq_model, PUBO_to_pubo_chain, asObj_bind]
  simp only [toMethod, puboTo]
  cases reduceNoop (squash .pubom) self.mapping deg self.items <;> rfl

theorem PUBO_to_quso_chain (self : ConvModel) :
    Conversions_to_quso (PUBO_to_qubo self noopReduce) = asObj .qusom (toMethod .pubo .quso self.mapping none self.items) := by
  rw [Conversions_to_quso_eq_model, PUBO_to_qubo_chain, asObj_bind]
  simp only [toMethod, puboTo]
  cases reduceNoop (squash .qubom) self.mapping (some 2) self.items <;> rfl

example : QUBO_to_qubo ⟨.qubo, [([5, 7], 2), ([7], 1)], [(5, 0), (7, 1)], [(0, 5), (1, 7)], 2⟩ =
    .ok ⟨.qubom, [([0, 1], 2), ([1], 1)]⟩ := by decide +kernel
example : PUSO_to_puso_enum ⟨.puso, [([7, 5], 2)], [(5, 1), (7, 0)], [(1, 5), (0, 7)], 2⟩ = .ok ⟨.pusom, [([0, 1], 2)]⟩ := by
  decide +kernel

end Qv.Gen
