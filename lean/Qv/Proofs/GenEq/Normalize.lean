import Qv.Gen.SourceStore
import Qv.Model.Subst
import Qv.Proofs.GenEq.ArithTerms
import Mathlib.Algebra.Order.Ring.Rat
import Mathlib.Tactic.Linarith
import Qv.Gen.Interp
/-!
# GenEq.Normalize — `qubovert.utils.normalize` and `DictArithmetic.normalize`, generated from the source,
equal the model's `normalizeFn` and `normalizeM` (C18)

Whole bodies (after `res = type(D)()` for the function): `max(abs(v) for v in D.values())` with its
`ValueError` on an empty dict, `value / max` with its `ZeroDivisionError`, the `if self:` guard of the method,
and the item statements of the loop in order.
-/
set_option linter.unusedTactic false
set_option linter.unreachableTactic false
set_option linter.unusedSimpArgs false
namespace Qv.Gen

theorem step_max (m x : Rat) : (if m < x then x else m) = max m x := by
  rw [max_def]; split_ifs <;> first | rfl | linarith | (exfalso; linarith)

theorem absV_nonneg (v : Rat) : 0 ≤ absV v := by
  unfold absV; split_ifs <;> linarith

theorem pyAbs_eq_absV (v : Rat) : pyAbs v = absV v := rfl

/-- right-nested maximum with base `0` -/
def maxR (l : List Rat) : Rat := l.foldr max 0

theorem maxR_nonneg (l : List Rat) : 0 ≤ maxR l := by
  induction l with
  | nil => exact le_refl 0
  | cons a r ih => exact le_trans ih (le_max_right a _)

theorem foldl_max (r : List Rat) : ∀ (a : Rat), 0 ≤ a → r.foldl (fun m x => if m < x then x else m) a = max a (maxR r) := by
  induction r with
  | nil => intro a ha; simp [maxR, max_eq_left ha]
  | cons x r ih =>
    intro a ha
    rw [List.foldl_cons, step_max, ih (max a x) (le_trans ha (le_max_left a x))]
    simp [maxR, max_assoc]

theorem maxAbs_eq (D : Poly) : maxAbs D = maxR ((List.map Prod.snd D).map absV) := by
  induction D with
  | nil => rfl
  | cons kv r ih =>
    obtain ⟨k, v⟩ := kv
    simp only [maxAbs, List.map_cons, maxR, List.foldr_cons]
    rw [step_max, ih, max_comm]
    rfl

/-- `max(abs(v) for v in D.values())`: `ValueError` on an empty dict, else the model's `maxAbs` -/
theorem pyMax_abs (D : Poly) :
    pyMax (List.map (fun v => pyAbs v) (List.map Prod.snd D)) = if D = [] then .error .value else .ok (maxAbs D) := by
  cases D with
  | nil => rfl
  | cons kv r =>
    obtain ⟨k, v⟩ := kv
    simp only [List.map_cons, pyMax, pyAbs_eq_absV, reduceCtorEq, if_false]
    rw [foldl_max _ _ (absV_nonneg v), maxAbs_eq]
    simp [maxR, List.map_map] <;> rfl

theorem set_loop (mult : Rat) (f : List SOp → Key × Rat → Except Err (List SOp))
    (hf : ∀ acc it, f acc it = .ok (acc ++ [SOp.set it.1 (mult * it.2)])) :
    ∀ (D : Poly) (effs : List SOp), pyForM D effs f = .ok (effs ++ D.map (fun kv => SOp.set kv.1 (mult * kv.2))) := by
  intro D
  induction D with
  | nil => intro effs; simp [pyForM]
  | cons kv r ih => intro effs; simp only [pyForM, hf, ok_bind', ih]; simp

theorem runSets_normLoop (τ : Ty) (mult : Rat) : ∀ (D res : Poly),
    runSets τ res (D.map (fun kv => SOp.set kv.1 (mult * kv.2))) = normLoop τ mult res D := by
  intro D
  induction D with
  | nil => intro res; rfl
  | cons kv r ih =>
    intro res
    obtain ⟨k, v⟩ := kv
    simp only [List.map_cons, runSets, normLoop]
    cases τ.store res k (mult * v) with
    | error e => rfl
    | ok res' => exact ih res'

/-- the function `normalize(D, value)` with result type `τ = type(D)` -/
theorem normalize_fn_eq_model (τ : Ty) (D : Poly) (c : Rat) :
    (normalize_fn D c >>= runSets τ []) = normalizeFn τ D c := by
  unfold normalize_fn normalizeFn
  rw [pyMax_abs]
  cases D with
  | nil => rfl
  | cons kv r =>
    simp only [reduceCtorEq, if_false, ok_bind', pyDiv, List.isEmpty_cons, Bool.false_eq_true]
    by_cases hm : maxAbs (kv :: r) = 0
    · simp only [hm, if_true]; rfl
    · simp only [hm, if_false, ok_bind']
      rw [set_loop (c / maxAbs (kv :: r)) _ (fun _ _ => rfl)]
      simp only [ok_bind', List.nil_append, bind_ok_self]
      exact runSets_normLoop τ _ _ _

theorem mul_loop (mult : Rat) (f : List SOp → Key → Except Err (List SOp))
    (hf : ∀ acc k, f acc k = .ok (acc ++ [SOp.mul k mult])) :
    ∀ (ks : List Key) (effs : List SOp), pyForM ks effs f = .ok (effs ++ ks.map (fun k => SOp.mul k mult)) := by
  intro ks
  induction ks with
  | nil => intro effs; simp [pyForM]
  | cons k r ih => intro effs; simp only [pyForM, hf, ok_bind', ih]; simp

theorem applySOps_scaleKeys (sq : Sq) (c : Rat) : ∀ (ks : List Key) (p : Poly),
    applySOps sq p (ks.map (fun k => SOp.mul k c)) = scaleKeys sq p ks c := by
  intro ks
  induction ks with
  | nil => intro p; rfl
  | cons k r ih =>
    intro p
    simp only [List.map_cons, applySOps, applySOp, scaleKeys]
    cases mulItem sq p k c with
    | error e => rfl
    | ok p' => exact ih p'

/-- the method `D.normalize(value)` of a container of type `κ` -/
theorem normalize_method_eq_model (κ : Kind) (D : Poly) (c : Rat) :
    (normalize_method D c >>= applySOps (squash κ) D) = normalizeM κ D c := by
  unfold normalize_method normalizeM
  cases D with
  | nil =>
    first
    | rfl
    | (simp [pyMax, applySOps, ok_bind'] <;> rfl)
  | cons kv r =>
    have hne : (kv :: r) ≠ [] := by simp
    have hne' : ¬ ((kv :: r) = []) := hne
    have hmap : ∀ (l : List Rat), List.map (fun (x : Rat) => pyAbs x) l = List.map (fun v => pyAbs v) l := fun _ => rfl
    simp only [hne, hne', ne_eq, not_false_eq_true, not_true_eq_false, if_true, if_false, reduceCtorEq]
    rw [pyMax_abs]
    simp only [hne, hne', ne_eq, not_false_eq_true, if_true, reduceCtorEq, if_false, ok_bind', pyDiv, List.isEmpty_cons,
      Bool.false_eq_true]
    by_cases hm : maxAbs (kv :: r) = 0
    · simp only [hm, if_true]; rfl
    · simp only [hm, if_false, ok_bind']
      rw [mul_loop (c / maxAbs (kv :: r)) _ (fun _ _ => rfl)]
      simp only [ok_bind', List.nil_append, bind_ok_self]
      exact applySOps_scaleKeys _ _ _ _

example : (normalize_fn [([0, 1], 1), ([2], -4)] 1).toOption = some [SOp.set [0, 1] (1/4), SOp.set [2] (-1)] := by
  decide +kernel
example : (normalize_fn [] 1).toOption = none := by decide +kernel
example : normalize_fn [([0], 0)] 1 = .error .zerodiv := by decide +kernel
example : (normalize_method [([0, 1], 1), ([2], -4)] 2).toOption = some [SOp.mul [0, 1] (1/2), SOp.mul [2] (1/2)] := by
  decide +kernel
example : (normalize_method [] 2).toOption = some [] := by decide +kernel

end Qv.Gen
