import Qv.Proofs.GenEq.Problems5Lib
/-!
# GenEq.Problems5 — `SetCover` (C10), the small methods: the definitions generated from `np/covering/_set_cover.py`
(`num_binary_variables`, `_x`, `_filtered_range`, `convert_solution`, `is_solution_valid` on both paths) equal the hand-written
model `Qv.Prob.SC` for every instance.

Instance data: `_U` / `_alpha_to_index` = `p.U` (the iteration order of the set), `_V = p.V`, `_weights = p.weights`,
`_log_trick = p.logTrick`, `_M = p.M`, `_log_M = p.logM`, `_N = p.N = len(V)`, `_n = p.n = len(U)`.
-/
set_option linter.unusedTactic false
set_option linter.unreachableTactic false
set_option linter.unusedSimpArgs false
set_option linter.unusedVariables false
namespace Qv.Gen
open Qv Qv.Prob

theorem SetCover_num_binary_variables_eq_model (p : SC) :
    SetCover_num_binary_variables p.U p.V p.weights p.logTrick p.M p.logM p.N p.n = .ok p.numVars := by
  unfold SetCover_num_binary_variables SC.numVars
  cases p.logTrick <;> first | rfl | simp

theorem pb2_pyIndexOf_mem (l : List Var) (x : Var) (h : x ∈ l) : pyIndexOf l x = .ok (l.idxOf x) := by
  induction l with
  | nil => cases h
  | cons a r ih =>
    by_cases hax : a = x
    · subst hax
      simp [pyIndexOf]
    · have hx : x ∈ r := by
        rcases List.mem_cons.1 h with h | h
        · exact absurd h.symm hax
        · exact h
      have hne : (a == x) = false := by simpa using hax
      simp only [pyIndexOf, hax, if_false, ih hx, ok_bindP, List.idxOf_cons, hne, cond_false]

/-- `_x(alpha, m)` for `alpha ∈ U` (and `m ≥ 1` without the log trick, where the code computes `m - 1`): the model's label -/
theorem SetCover__x_eq_model (p : SC) (alpha : Var) (m : Nat) (h : alpha ∈ p.U) (hm : p.logTrick = false → 1 ≤ m) :
    SetCover__x p.U p.V p.weights p.logTrick p.M p.logM p.N p.n alpha m = .ok ((p.x (p.U.idxOf alpha) m : Nat) : Int) := by
  unfold SetCover__x SC.x
  simp only [pb2_pyIndexOf_mem p.U alpha h, ok_bindP]
  cases hl : p.logTrick
  · have := hm hl
    have hm1 : ((m - 1 : Nat) : Int) = (m : Int) - 1 := by omega
    simp only [Bool.false_eq_true, if_false]
    congr 1
    simp only [Nat.cast_add, Nat.cast_mul, hm1, Nat.cast_one]
  · simp only [if_true]
    congr 1

theorem pb2_filtered_eq (p : SC) (alpha : Var) (start : Nat) :
    p.filtered alpha start = (pyRange2 start p.N).filter (fun k => (p.V.getD k []).contains alpha) := by
  unfold SC.filtered
  rw [← pb2_pyRange2_zero, pb2_pyRange2_filter_ge 0 p.N start _ (Nat.zero_le _)]

theorem pb2_filtered_test (p : SC) (alpha : Var) (k : Nat) (hk : k < p.N) :
    (pyListAt p.V k >>= fun (m : List Var) => (Except.ok (decide (List.contains m alpha = true)) : Except Err Bool))
      = .ok ((p.V.getD k []).contains alpha) := by
  have hk' : k < p.V.length := hk
  simp [pyListAt, List.getElem?_eq_getElem hk', List.getD_eq_getElem?_getD]

/-- `_filtered_range(alpha, start)` as it is consumed by a `for` loop: the loop over the model's `filtered` list -/
theorem SetCover__filtered_range_eq_model (p : SC) (alpha : Var) (start : Nat) {σ : Type} (s : σ)
    (body : σ → Nat → Except Err σ) :
    (SetCover__filtered_range p.U p.V p.weights p.logTrick p.M p.logM p.N p.n alpha start >>= fun F => pb2ForLazyM F s body)
      = pyForM (p.filtered alpha start) s body := by
  unfold SetCover__filtered_range
  rw [ok_bindP, pb2_filtered_eq]
  apply pb2_forLazy_ok
  intro k hk
  exact pb2_filtered_test p alpha k ((pb2_mem_pyRange2 _ _ _).1 hk).2

theorem pb2_ssorted_of_pairwise : ∀ {l : List Var}, l.Pairwise (· < ·) → SSorted l
  | [], _ => trivial
  | [_], _ => trivial
  | a :: b :: r, h => by
    have h' := List.pairwise_cons.1 h
    exact ⟨h'.1 b (List.mem_cons_self ..), pb2_ssorted_of_pairwise h'.2⟩

/-- `set(i for i in l if solution[i])` over an ascending `l` -/
theorem pb2_compM_pick (s : Sol) (d : Bool) (test : Nat → Except Err Bool) (elt : Nat → Except Err Nat)
    (ht : ∀ i, test i = (pySolGet s d i >>= fun v => .ok (decide (v ≠ 0)))) (he : ∀ i, elt i = .ok i) (l : List Nat) :
    pb2CompM l test elt = SC.pick s d l := by
  induction l with
  | nil => rfl
  | cons i r ih =>
    simp only [pb2CompM, SC.pick, ht, he, ih, pySolGet, bind_assocP, ok_bindP]
    cases solGet s d i with
    | error e => rfl
    | ok v =>
      simp only [ok_bindP]
      cases SC.pick s d r with
      | error e => by_cases hv : v = 0 <;> simp [hv, bind, pure, Except.bind, Except.pure]
      | ok rest => by_cases hv : v = 0 <;> simp [hv, bind, pure, Except.bind, Except.pure]

theorem pb2_pick_sub (s : Sol) (d : Bool) (l r : List Nat) (h : SC.pick s d l = .ok r) : r.Sublist l := by
  induction l generalizing r with
  | nil =>
    simp only [SC.pick] at h
    cases h
    exact List.Sublist.refl _
  | cons i t ih =>
    simp only [SC.pick] at h
    cases hv : solGet s d i with
    | error e => simp [hv, bind, Except.bind] at h
    | ok v =>
      cases hr : SC.pick s d t with
      | error e => simp [hv, hr, bind, Except.bind] at h
      | ok rest =>
        have hs := ih rest hr
        simp only [hv, hr, bind, Except.bind, pure, Except.pure] at h
        by_cases hv0 : v = 0
        · simp only [hv0, ne_eq, not_true_eq_false, if_false] at h
          cases h
          exact List.Sublist.cons _ hs
        · simp only [hv0, ne_eq, not_false_eq_true, if_true] at h
          cases h
          exact List.Sublist.cons₂ _ hs

theorem pb2_range_pairwise (n : Nat) : (List.range n).Pairwise (· < ·) := List.pairwise_lt_range

theorem SetCover_convert_solution_eq_model (p : SC) (s : Sol) (isDict spin : Bool) :
    SetCover_convert_solution p.U p.V p.weights p.logTrick p.M p.logM p.N p.n s isDict spin = p.convert s isDict spin := by
  unfold SetCover_convert_solution SC.convert toBoolSol solValues pySpinToBoolean
  have key : ∀ s' : Sol, (pb2CompM (List.range p.N) (fun i => pySolGet s' isDict i >>= fun v => .ok (decide (v ≠ 0)))
      (fun i => .ok i) >>= fun l => (.ok (pySortedSet l) : Except Err (List Var))) = SC.pick s' isDict (List.range p.N) := by
    intro s'
    rw [pb2_compM_pick s' isDict _ _ (fun _ => rfl) (fun _ => rfl)]
    cases h : SC.pick s' isDict (List.range p.N) with
    | error e => rfl
    | ok r =>
      have hs := (pb2_range_pairwise p.N).sublist (pb2_pick_sub s' isDict _ r h)
      simp only [ok_bindP, pySortedSet, squashB_of_sorted (pb2_ssorted_of_pairwise hs)]
  simp only [is_solution_spin_eq_model, bind_ok_id, ok_bindP]
  split
  · simp only [← key]
    all_goals first
    | rfl
    | (simp only [bind_assocP, bind_ok_id, ok_bindP]; done)
    | (cases solMap s2bVal s <;> simp [bind, pure, Except.bind, Except.pure])
  · simp only [← key]
    all_goals first
    | rfl
    | (simp only [bind_assocP, bind_ok_id, ok_bindP]; done)
    | (simp only [bind, pure, Except.bind, Except.pure]; done)

/-- `is_solution_valid` on an already converted solution (a set of indices of `V`; `IndexError` outside) -/
theorem SetCover_is_solution_valid_converted_eq_model (p : SC) (c : List Var) (spin : Bool) (h : ∀ i ∈ c, i < p.N) :
    SetCover_is_solution_valid_converted p.U p.V p.weights p.logTrick p.M p.logM p.N p.n c spin = .ok (p.validConv c) := by
  unfold SetCover_is_solution_valid_converted SC.validConv
  rw [pyMapM_ok c _ (fun i => p.V.getD i []) (by
    intro i hi
    have hk' : i < p.V.length := h i hi
    simp [pyListAt, List.getElem?_eq_getElem hk', List.getD_eq_getElem?_getD])]
  have hf : List.flatMap id (List.map (fun i => p.V.getD i []) c) = List.flatMap (fun i => p.V.getD i []) c := by
    simp [List.flatMap_map]
  simp only [ok_bindP, pb2Flatten, pySortedSet, hf]
  congr 1
  all_goals first
  | rfl
  | (simp; done)
  | (rw [Bool.eq_iff_iff]; simp; done)

theorem pb2_pick_lt (s : Sol) (d : Bool) (n : Nat) (r : List Nat) (h : SC.pick s d (List.range n) = .ok r) : ∀ i ∈ r, i < n := by
  intro i hi
  exact List.mem_range.1 ((pb2_pick_sub s d _ r h).subset hi)

theorem SetCover_is_solution_valid_eq_model (p : SC) (s : Sol) (isDict spin : Bool) :
    SetCover_is_solution_valid p.U p.V p.weights p.logTrick p.M p.logM p.N p.n s isDict spin = p.valid s isDict spin := by
  unfold SetCover_is_solution_valid SC.valid
  rw [SetCover_convert_solution_eq_model]
  cases hc : p.convert s isDict spin with
  | error e => rfl
  | ok c =>
    have hlt : ∀ i ∈ c, i < p.N := by
      unfold SC.convert at hc
      cases ht : toBoolSol s spin with
      | error e => simp [ht, bind, Except.bind] at hc
      | ok s' =>
        simp only [ht, bind, Except.bind] at hc
        exact pb2_pick_lt s' isDict p.N c hc
    have := SetCover_is_solution_valid_converted_eq_model p c spin hlt
    unfold SetCover_is_solution_valid_converted at this
    simpa [bind, pure, Except.bind, Except.pure] using this

end Qv.Gen
