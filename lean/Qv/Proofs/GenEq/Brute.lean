import Qv.Gen.SourceBrute
import Mathlib.Tactic.Ring
/-!
# GenEq.Brute — the bookkeeping generated from the enumeration loop of `_solve_bruteforce` (the statements
after `v = value(x, D)`) equals the model's `Brute.update` (C09)
-/
set_option linter.unusedTactic false
set_option linter.unreachableTactic false
set_option linter.unusedSimpArgs false
namespace Qv.Gen
open Qv.Brute

theorem pySetdefaultAppend_eq_sdAppend (m : AllSols) (k : Option Rat) (x : Assign) :
    pySetdefaultAppend m k x = sdAppend m k x := by
  induction m with
  | nil => rfl
  | cons a r ih =>
    obtain ⟨k', l⟩ := a
    simp only [pySetdefaultAppend, sdAppend, ih]

/-- one visited assignment `x` with objective value `v`: the generated `if all_solutions and (best[0] is None
or v <= best[0]) … elif best[0] is None or v < best[0] …` updates `best` and `all_sols` exactly as the model's
`update` does (`<=` with `all_solutions`, `<` without; `setdefault(v, []).append(x)` only with) -/
theorem solve_bruteforce_update_eq_model (allS : Bool) (st : St) (x : Assign) (v : Rat) :
    solve_bruteforce_update allS (st.bestV, st.bestX) st.allSols x v =
      (((update allS st x v).bestV, (update allS st x v).bestX), (update allS st x v).allSols) := by
  obtain ⟨bv, bx, as⟩ := st
  unfold solve_bruteforce_update update
  simp only [pySetdefaultAppend_eq_sdAppend]
  cases allS <;> cases bv <;> simp [leBest, ltBest] <;> split_ifs <;> simp_all

example : solve_bruteforce_update true (some 3, []) [(none, [[]]), (some 3, [[(0, 1)]])] [(0, 0)] 3 =
    ((some 3, [(0, 0)]), [(none, [[]]), (some 3, [[(0, 1)], [(0, 0)]])]) := by decide +kernel
example : solve_bruteforce_update false (some 3, [(0, 1)]) [(none, [[]])] [(0, 0)] 3 =
    ((some 3, [(0, 1)]), [(none, [[]])]) := by decide +kernel

end Qv.Gen
