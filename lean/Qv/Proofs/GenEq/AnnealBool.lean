import Qv.Gen.SourceAnneal
import Qv.Proofs.GenEq.AnnealLib
/-!
# GenEq.AnnealBool — the bodies generated from `anneal_qubo` / `anneal_pubo` equal the model's `annealQubo` /
`annealPubo` (C11): the model is converted with `qubo_to_quso` / `pubo_to_puso`, a given initial state with
`boolean_to_spin`, every other argument is passed on unchanged and in position, and the results are converted back with
`to_boolean()`.  The spin annealer called is a parameter of the generated definition; it is instantiated with the model
function.
-/
set_option linter.unusedTactic false
set_option linter.unreachableTactic false
set_option linter.unusedSimpArgs false
namespace Qv.Gen
open Qv.Gen.Ann
open Qv Qv.Anneal

section
variable {ρ α : Type} [Add α] [Mul α] [Kernel.OfInt α]

/-- the spin annealers as Python sees them: `(model, num_anneals, initial_state, schedule, in_order, seed)` -/
def pyAnnealQuso (cfg : Cfg ρ α) (rngOf : Int → ρ) (L : Obj) (n : Int) (init : Option (List (Var × Int)))
    (s : Schedule α) (io : Bool) (seed : Option Int) : Except Err (List Res) :=
  annealQuso cfg L { numAnneals := n, schedule := s, init := init, inOrder := io, rng := rngOf (seedArg seed) }

def pyAnnealPuso (cfg : Cfg ρ α) (rngOf : Int → ρ) (H : Obj) (n : Int) (init : Option (List (Var × Int)))
    (s : Schedule α) (io : Bool) (seed : Option Int) : Except Err (List Res) :=
  annealPuso cfg H { numAnneals := n, schedule := s, init := init, inOrder := io, rng := rngOf (seedArg seed) }

theorem ann_boolInit_eq (init : Option (List (Var × Int))) :
    (match init with
      | none => (Except.ok none : Except Err (Option (List (Var × Int))))
      | some d => (pyAnnBooleanToSpin d >>= fun d' => (Except.ok (some d') : Except Err (Option (List (Var × Int)))))) =
    booleanToSpinInit init := by
  cases init <;> rfl

theorem anneal_qubo_eq_model (cfg : Cfg ρ α) (rngOf : Int → ρ) (Q : Obj) (n : Int) (init : Option (List (Var × Int)))
    (s : Schedule α) (io : Bool) (seed : Option Int) :
    anneal_qubo (pyAnnealQuso cfg rngOf) Q n init s io seed =
      annealQubo cfg Q { numAnneals := n, schedule := s, init := init, inOrder := io, rng := rngOf (seedArg seed) } := by
  unfold anneal_qubo annealQubo pyAnnealQuso
  simp only [ann_boolInit_eq, pyQuboToQuso, pyToBoolean, bind_ok_self]
  first | rfl | (cases Anneal.quboToQuso Q <;> first | rfl | (rename_i L; cases booleanToSpinInit init <;> rfl))

theorem anneal_pubo_eq_model (cfg : Cfg ρ α) (rngOf : Int → ρ) (Pm : Obj) (n : Int) (init : Option (List (Var × Int)))
    (s : Schedule α) (io : Bool) (seed : Option Int) :
    anneal_pubo (pyAnnealPuso cfg rngOf) Pm n init s io seed =
      annealPubo cfg Pm { numAnneals := n, schedule := s, init := init, inOrder := io, rng := rngOf (seedArg seed) } := by
  unfold anneal_pubo annealPubo pyAnnealPuso
  simp only [ann_boolInit_eq, pyPuboToPuso, pyToBoolean, bind_ok_self]
  first | rfl | (cases Anneal.puboToPuso Pm <;> first | rfl | (rename_i L; cases booleanToSpinInit init <;> rfl))

end
end Qv.Gen
