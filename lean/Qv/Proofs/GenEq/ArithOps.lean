import Qv.Gen.SourceArith
import Qv.Model.ArithOps
import Qv.Proofs.GenEq.Book
import Qv.Proofs.ArithOpsBridge
import Mathlib.Tactic.NormNum
import Mathlib.Tactic.Linarith
import Mathlib.Algebra.Order.Floor.Ring
/-!
# GenEq.ArithOps — the in-place operators `__iadd__`, `__isub__`, `__imul__`, `__itruediv__`, `__ipow__` of
`DictArithmetic` (and `PCBO.__imul__`, `PCSO.__imul__`, the method-resolution table of `*=`) generated from the source as
WHOLE functions equal the model's whole-operator functions `Qv.ArithOps.iadd … ipow` (C05, C07, C14)

`Qv/Gen/SourceArith.lean` is regenerated from `/repo` on every run (`harness/tie_ext/arith.py`).  The untied methods
`self.clear()` / `self.copy()` are the parameter `M`, instantiated here with the model's (`modelMethods_ar2`).
Hypotheses: the object is of one of the ten model classes (`s.kind ≠ .dict`) and satisfies `RevFresh` (part of C14's
invariant I2, `revFresh_of_I2`) — the hypotheses of `cls_setitem_eq_model`.
-/
set_option linter.unusedTactic false
set_option linter.unreachableTactic false
set_option linter.unusedSimpArgs false
set_option linter.unusedVariables false
namespace Qv.Gen
open Qv Qv.Book Qv.ArithOps

/-- the model's reading of the untied methods -/
def modelMethods_ar2 : ArMethods_ar2 := { clear := Book.clear, copy := ArithOps.copy Fix.fixed }

/-- operands of the generated definitions as operands of the model -/
def toModel_ar2 : ArOperand_ar2 → Operand
  | .num c => .num c
  | .dict q => .dict q
  | .self => .self

/-- the invariant under which item stores agree with the model -/
def Good_ar2 (s : Obj) : Prop := s.kind ≠ .dict ∧ RevFresh s

theorem foldl_inv_ar2 {α σ : Type} (P : σ → Prop) (f : σ → α → σ) (hP : ∀ s a, P s → P (f s a)) :
    ∀ (l : List α) (s : σ), P s → P (l.foldl f s) := by
  intro l
  induction l with
  | nil => intro s h; exact h
  | cons a r ih => intro s h; exact ih _ (hP s a h)

theorem setitem_good_ar2 {s s' : State} {k : Key} {v : Rat} (hg : Good_ar2 s) (h : setitem Fix.fixed s k v = .ok s') :
    Good_ar2 s' := by
  refine ⟨by rw [setitem_kind h]; exact hg.1, ?_⟩
  obtain ⟨m, hm, rfl⟩ := setitem_ok h
  have hmr := matSet_rev hm
  have hrm : RevFresh m := by
    intro p hp
    rw [hmr.2]; exact hg.2 p (hmr.1 ▸ hp)
  split
  · unfold regLabels
    exact foldl_inv_ar2 RevFresh _ (fun t i ht => regStep_revFresh t i ht) k m hrm
  · exact hrm

theorem init_good_ar2 {κ : Kind} (h : κ ≠ .dict) : Good_ar2 (init κ) := ⟨h, by intro p hp; cases hp⟩

theorem clear_good_ar2 {s : State} (h : Good_ar2 s) : Good_ar2 (Book.clear s) := init_good_ar2 h.1

/-- `self[k] = f(self[k])` through the generated method tables is the model's squash / get / `setitem` -/
theorem augstep_ar2 (s : Obj) (hg : Good_ar2 s) (k : Key) (f : Rat → Except Err Rat) :
    (cls_getitem s.kind s k >>= fun old => f old >>= fun new => cls_setitem s.kind s k new >>= fun self => Except.ok self)
      = (squash s.kind k >>= fun k' => f (get s.terms k') >>= fun new => setitem Fix.fixed s k new) := by
  rw [cls_getitem_eq_model s hg.1]
  unfold getItem
  cases squash s.kind k with
  | error e => rfl
  | ok k' =>
    simp only [bind, Except.bind, pure, Except.pure]
    cases f (get s.terms k') with
    | error e => rfl
    | ok new =>
      simp only []
      rw [cls_setitem_eq_model s hg.1 hg.2]
      cases setitem Fix.fixed s k new <;> rfl

theorem augitem_unfold_ar2 (s : State) (k : Key) (a : Aug) (d : Rat) :
    augitem Fix.fixed s k a d = (squash s.kind k >>= fun k' => augVal a (get s.terms k') d >>= fun new => setitem Fix.fixed s k new) := rfl

theorem augitem_good_ar2 {s s' : State} {k : Key} {a : Aug} {d : Rat} (hg : Good_ar2 s)
    (h : augitem Fix.fixed s k a d = .ok s') : Good_ar2 s' := by
  simp only [augitem, bind_ok_iff] at h
  obtain ⟨k', _, new, _, h⟩ := h
  exact setitem_good_ar2 hg h

/-- a Python `for` loop of raising, mutating steps is the model's `loop`, seen by the caller -/
theorem forM_loop_ar2 {α : Type} (f g : State → α → Except Err State)
    (hfg : ∀ s a, Good_ar2 s → f s a = g s a) (hP : ∀ s a s', Good_ar2 s → g s a = .ok s' → Good_ar2 s') :
    ∀ (l : List α) (s : State), Good_ar2 s → pyForM l s f = toExcept (Book.loop g s l) := by
  intro l
  induction l with
  | nil => intro s _; rfl
  | cons a r ih =>
    intro s hs
    simp only [pyForM, Book.loop]
    rw [hfg s a hs]
    cases hga : g s a with
    | error e => rfl
    | ok s' => exact ih s' (hP s a s' hs hga)

theorem loop_good_ar2 {α : Type} (g : State → α → Except Err State)
    (hP : ∀ s a s', Good_ar2 s → g s a = .ok s' → Good_ar2 s') :
    ∀ (l : List α) (s : State), Good_ar2 s → Good_ar2 (Book.loop g s l).1 := by
  intro l
  induction l with
  | nil => intro s h; exact h
  | cons a r ih =>
    intro s hs
    simp only [Book.loop]
    cases hga : g s a with
    | error e => exact hs
    | ok s' => exact ih s' (hP s a s' hs hga)

/-- the body `self[k] += v` / `-=` / `*=` / `/=` with a pure right-hand side -/
theorem body_add_ar2 (s : Obj) (hg : Good_ar2 s) (k : Key) (v : Rat) :
    (cls_getitem s.kind s k >>= fun old => cls_setitem s.kind s k (old + v) >>= fun self => Except.ok self)
      = augitem Fix.fixed s k .add v := by
  have := augstep_ar2 s hg k (fun old => .ok (old + v))
  simpa [augitem_unfold_ar2, augVal, bind, Except.bind] using this

theorem body_sub_ar2 (s : Obj) (hg : Good_ar2 s) (k : Key) (v : Rat) :
    (cls_getitem s.kind s k >>= fun old => cls_setitem s.kind s k (old - v) >>= fun self => Except.ok self)
      = augitem Fix.fixed s k .sub v := by
  have := augstep_ar2 s hg k (fun old => .ok (old - v))
  simpa [augitem_unfold_ar2, augVal, bind, Except.bind] using this

theorem body_mul_ar2 (s : Obj) (hg : Good_ar2 s) (k : Key) (v : Rat) :
    (cls_getitem s.kind s k >>= fun old => cls_setitem s.kind s k (old * v) >>= fun self => Except.ok self)
      = augitem Fix.fixed s k .mul v := by
  have := augstep_ar2 s hg k (fun old => .ok (old * v))
  simpa [augitem_unfold_ar2, augVal, bind, Except.bind] using this

theorem body_div_ar2 (s : Obj) (hg : Good_ar2 s) (k : Key) (v : Rat) :
    (cls_getitem s.kind s k >>= fun old => pyDiv_ar2 old v >>= fun new => cls_setitem s.kind s k new >>= fun self => Except.ok self)
      = augitem Fix.fixed s k .div v := by
  have := augstep_ar2 s hg k (fun old => pyDiv_ar2 old v)
  rw [this, augitem_unfold_ar2]
  unfold pyDiv_ar2 augVal
  rfl

theorem bind_ok_right_ar2 {α : Type} (a : Except Err α) : (a >>= fun m => (Except.ok m : Except Err α)) = a := by
  cases a <;> rfl

theorem pyForM_append_ar2 {α σ : Type} (f : σ → α → Except Err σ) : ∀ (a b : List α) (s : σ),
    pyForM (a ++ b) s f = (pyForM a s f >>= fun s' => pyForM b s' f) := by
  intro a
  induction a with
  | nil => intro b s; rfl
  | cons x r ih =>
    intro b s
    simp only [List.cons_append, pyForM]
    cases f s x with
    | error e => rfl
    | ok s' => exact ih b s'

theorem pyForM_map_ar2 {α β σ : Type} (f : σ → β → Except Err σ) (h : α → β) : ∀ (l : List α) (s : σ),
    pyForM (l.map h) s f = pyForM l s (fun s a => f s (h a)) := by
  intro l
  induction l with
  | nil => intro s; rfl
  | cons x r ih =>
    intro s
    simp only [List.map_cons, pyForM]
    cases f s (h x) with
    | error e => rfl
    | ok s' => exact ih s'

/-- the double loop of `__imul__` visits the pairs of `Book.products` in order -/
theorem forM_products_ar2 {σ : Type} (body : σ → Key × Rat → Except Err σ) (q : Poly) : ∀ (items : Poly) (s : σ),
    pyForM items s (fun s kv => pyForM q s (fun s kvo => body s (kv.1 ++ kvo.1, kv.2 * kvo.2)))
      = pyForM (products items q) s body := by
  intro items
  induction items with
  | nil => intro s; rfl
  | cons kv r ih =>
    intro s
    have e : products (kv :: r) q = q.map (fun kvo => (kv.1 ++ kvo.1, kv.2 * kvo.2)) ++ products r q := by
      simp [products, List.flatMap_cons]
    rw [e, pyForM_append_ar2, pyForM_map_ar2]
    simp only [pyForM]
    cases pyForM q s (fun s kvo => body s (kv.1 ++ kvo.1, kv.2 * kvo.2)) with
    | error e => rfl
    | ok s' => exact ih s'

theorem iaddLoop_eq_ar2 (s : State) (hg : Good_ar2 s) (q : Poly) :
    pyForM q s (fun s kv => cls_getitem s.kind s kv.1 >>= fun old => cls_setitem s.kind s kv.1 (old + kv.2) >>= fun self => Except.ok self)
      = toExcept (iaddLoop Fix.fixed s q) :=
  forM_loop_ar2 _ _ (fun t a ht => body_add_ar2 t ht a.1 a.2) (fun t a t' ht h => augitem_good_ar2 ht h) q s hg

theorem isubLoop_eq_ar2 (s : State) (hg : Good_ar2 s) (q : Poly) :
    pyForM q s (fun s kv => cls_getitem s.kind s kv.1 >>= fun old => cls_setitem s.kind s kv.1 (old - kv.2) >>= fun self => Except.ok self)
      = toExcept (isubLoop Fix.fixed s q) :=
  forM_loop_ar2 _ _ (fun t a ht => body_sub_ar2 t ht a.1 a.2) (fun t a t' ht h => augitem_good_ar2 ht h) q s hg

theorem scaleMul_eq_ar2 (s : State) (hg : Good_ar2 s) (c : Rat) :
    pyForM (pySelfKeys_ar2 s) s (fun s k => cls_getitem s.kind s k >>= fun old => cls_setitem s.kind s k (old * c) >>= fun self => Except.ok self)
      = toExcept (scaleLoop Fix.fixed s .mul c) :=
  forM_loop_ar2 _ _ (fun t a ht => body_mul_ar2 t ht a c) (fun t a t' ht h => augitem_good_ar2 ht h) _ s hg

theorem scaleDiv_eq_ar2 (s : State) (hg : Good_ar2 s) (c : Rat) :
    pyForM (pySelfKeys_ar2 s) s (fun s k => cls_getitem s.kind s k >>= fun old => pyDiv_ar2 old c >>= fun new =>
        cls_setitem s.kind s k new >>= fun self => Except.ok self)
      = toExcept (scaleLoop Fix.fixed s .div c) :=
  forM_loop_ar2 _ _ (fun t a ht => body_div_ar2 t ht a c) (fun t a t' ht h => augitem_good_ar2 ht h) _ s hg

/-- **`DictArithmetic.__iadd__`** (whole function): the `isinstance(other, dict)` split, the loop `self[k] += v` over the
operand's items in dict order resp. `self[()] += other`, `return self` — is `ArithOps.iadd`, for every operand other than
the receiver itself (the live view of `d += d` is `pyForLive_ar2`; C14's correspondence covers it) -/
theorem DictArithmetic_iadd_ar2_eq_model (s : Obj) (hg : Good_ar2 s) (o : ArOperand_ar2) (ho : toModel_ar2 o ≠ .self) :
    DictArithmetic_iadd_ar2 modelMethods_ar2 s o = ArithOps.iadd Fix.fixed s (toModel_ar2 o) := by
  unfold DictArithmetic_iadd_ar2
  cases o with
  | num c =>
    simp only [pyIsDict_ar2, pyNum_ar2, bind_ok', Bool.false_eq_true, if_false, toModel_ar2, ArithOps.iadd]
    first | exact body_add_ar2 s hg [] c | (simp only [bind_ok_right_ar2]; exact body_add_ar2 s hg [] c)
  | dict q =>
    simp only [pyIsDict_ar2, pyForLive_ar2, if_true, bind_ok_right_ar2, toModel_ar2, ArithOps.iadd]
    first | exact iaddLoop_eq_ar2 s hg q | (rw [← iaddLoop_eq_ar2 s hg q]; simp [bind_ok_right_ar2])
  | self => exact absurd rfl ho

/-- **`DictArithmetic.__isub__`** (whole function) is `ArithOps.isub` for EVERY operand, the receiver included: the items of
`other` are snapshotted (`tuple(other.items())`) before the loop, so `d -= d` visits all its items (1dd08ee) -/
theorem DictArithmetic_isub_ar2_eq_model (s : Obj) (hg : Good_ar2 s) (o : ArOperand_ar2) :
    DictArithmetic_isub_ar2 modelMethods_ar2 s o = ArithOps.isub Fix.fixed s (toModel_ar2 o) := by
  unfold DictArithmetic_isub_ar2
  cases o with
  | num c =>
    simp only [pyIsDict_ar2, pyNum_ar2, bind_ok', Bool.false_eq_true, if_false, toModel_ar2, ArithOps.isub]
    first | exact body_sub_ar2 s hg [] c | (simp only [bind_ok_right_ar2]; exact body_sub_ar2 s hg [] c)
  | dict q =>
    simp only [pyIsDict_ar2, pyItems_ar2, bind_ok', if_true, bind_ok_right_ar2, toModel_ar2, ArithOps.isub]
    first | exact isubLoop_eq_ar2 s hg q | (rw [← isubLoop_eq_ar2 s hg q]; simp [bind_ok_right_ar2])
  | self =>
    simp only [pyIsDict_ar2, pyItems_ar2, bind_ok', if_true, bind_ok_right_ar2, toModel_ar2, ArithOps.isub]
    first | exact isubLoop_eq_ar2 s hg s.terms | (rw [← isubLoop_eq_ar2 s hg s.terms]; simp [bind_ok_right_ar2])

theorem imul_dict_ar2 (s : State) (hg : Good_ar2 s) (q : Poly) :
    pyForM (pySelfItems_ar2 s) (Book.clear s) (fun self it => pyForM q self (fun self it2 =>
        cls_getitem self.kind self (it.1 ++ it2.1) >>= fun old =>
        cls_setitem self.kind self (it.1 ++ it2.1) (old + it.2 * it2.2) >>= fun self => Except.ok self))
      = toExcept (iaddLoop Fix.fixed (Book.clear s) (products s.terms q)) := by
  rw [← iaddLoop_eq_ar2 _ (clear_good_ar2 hg)]
  exact forM_products_ar2 (fun s kv => cls_getitem s.kind s kv.1 >>= fun old =>
    cls_setitem s.kind s kv.1 (old + kv.2) >>= fun self => Except.ok self) q s.terms (Book.clear s)

/-- **`DictArithmetic.__imul__`** (whole function) is `ArithOps.imulBase` for EVERY operand: a dict operand's items AND the
receiver's own items are snapshotted BEFORE `self.clear()` (so `a *= a` squares `a`), then the double loop
`self[kp + kop] += v * vo` in item order; a number scales every stored key through `self[k] *= other` (zeros dropped by
`__setitem__`) -/
theorem DictArithmetic_imul_ar2_eq_model (s : Obj) (hg : Good_ar2 s) (o : ArOperand_ar2) :
    DictArithmetic_imul_ar2 modelMethods_ar2 s o = ArithOps.imulBase Fix.fixed s (toModel_ar2 o) := by
  unfold DictArithmetic_imul_ar2
  cases o with
  | num c =>
    simp only [pyIsDict_ar2, pyNum_ar2, bind_ok', Bool.false_eq_true, if_false, toModel_ar2, ArithOps.imulBase, bind_ok_right_ar2]
    first | exact scaleMul_eq_ar2 s hg c | (rw [← scaleMul_eq_ar2 s hg c]; simp [bind_ok_right_ar2])
  | dict q =>
    simp only [pyIsDict_ar2, pyItems_ar2, bind_ok', if_true, bind_ok_right_ar2, toModel_ar2, ArithOps.imulBase, modelMethods_ar2]
    first | exact imul_dict_ar2 s hg q | (rw [← imul_dict_ar2 s hg q]; simp [bind_ok_right_ar2])
  | self =>
    simp only [pyIsDict_ar2, pyItems_ar2, bind_ok', if_true, bind_ok_right_ar2, toModel_ar2, ArithOps.imulBase, modelMethods_ar2]
    first | exact imul_dict_ar2 s hg s.terms | (rw [← imul_dict_ar2 s hg s.terms]; simp [bind_ok_right_ar2])

/-- **`DictArithmetic.__itruediv__`** (whole function) by a number is `ArithOps.idiv`: `self[k] /= other` over the keys
snapshotted at entry, `ZeroDivisionError` at the first key when `other == 0` -/
theorem DictArithmetic_itruediv_ar2_eq_model (s : Obj) (hg : Good_ar2 s) (c : Rat) :
    DictArithmetic_itruediv_ar2 modelMethods_ar2 s (.num c) = ArithOps.idiv Fix.fixed s c := by
  unfold DictArithmetic_itruediv_ar2
  simp only [pyNum_ar2, bind_ok', ArithOps.idiv, bind_ok_right_ar2]
  first | exact scaleDiv_eq_ar2 s hg c | (rw [← scaleDiv_eq_ar2 s hg c]; simp [bind_ok_right_ar2])

/-- **`PCBO.__imul__`** (whole function): `DictArithmetic.__imul__` between saving and restoring `_ancilla` / `_constraints`
is `ArithOps.imul` — for a dict operand `Book.imulD Fix.fixed` (the D2 repair 8d2eba8) -/
theorem PCBO_imul_ar2_eq_model (s : Obj) (hg : Good_ar2 s) (o : ArOperand_ar2) :
    PCBO_imul_ar2 modelMethods_ar2 s o = ArithOps.imul Fix.fixed s (toModel_ar2 o) := by
  unfold PCBO_imul_ar2
  rw [imul_eq_base]
  simp only [DictArithmetic_imul_ar2_eq_model s hg]
  cases imulBase Fix.fixed s (toModel_ar2 o) <;> first | rfl | simp [Except.map, withAC, bind, Except.bind]

/-- **`PCSO.__imul__`** delegates to `PCBO.__imul__` -/
theorem PCSO_imul_ar2_eq_model (s : Obj) (hg : Good_ar2 s) (o : ArOperand_ar2) :
    PCSO_imul_ar2 modelMethods_ar2 s o = ArithOps.imul Fix.fixed s (toModel_ar2 o) := by
  unfold PCSO_imul_ar2
  first
    | (rw [bind_ok_right_ar2]; exact PCBO_imul_ar2_eq_model s hg o)
    | (simp only [bind_ok_right_ar2, PCBO_imul_ar2_eq_model s hg o])

/-- an object of a class without constraints has no `_ancilla` / `_constraints`: the record's fields are at their defaults -/
def ConsOK_ar2 (s : Obj) : Prop := hasCons s.kind = false → s.ancilla = 0 ∧ s.constraints = []

theorem withAC_default_ar2 (s : State) (h : s.ancilla = 0 ∧ s.constraints = []) : withAC 0 [] s = s := by
  cases s; simp_all [withAC]

theorem imulBase_noCons_ar2 (s : State) (h : s.ancilla = 0 ∧ s.constraints = []) (o : Operand) :
    imul Fix.fixed s o = imulBase Fix.fixed s o := by
  rw [imul_eq_base, h.1, h.2]
  cases o with
  | num c =>
    show (toExcept (scaleLoop Fix.fixed s .mul c)).map (withAC 0 []) = toExcept (scaleLoop Fix.fixed s .mul c)
    rw [← scaleLoop_withAC, withAC_default_ar2 s h]
  | dict q =>
    show (toExcept (iaddLoop Fix.fixed (Book.clear s) _)).map (withAC 0 []) = toExcept (iaddLoop Fix.fixed (Book.clear s) _)
    rw [← iaddLoop_withAC]; rfl
  | self =>
    show (toExcept (iaddLoop Fix.fixed (Book.clear s) _)).map (withAC 0 []) = toExcept (iaddLoop Fix.fixed (Book.clear s) _)
    rw [← iaddLoop_withAC]; rfl

/-- **`x *= y`** on an object of any of the ten model classes (method resolution computed from the source: `PCBO.__imul__`
for PCBO, `PCSO.__imul__` for PCSO, `DictArithmetic.__imul__` for the other eight) is `ArithOps.imul` -/
theorem cls_imul_ar2_eq_model (s : Obj) (hg : Good_ar2 s) (hc : ConsOK_ar2 s) (o : ArOperand_ar2) :
    cls_imul_ar2 s.kind modelMethods_ar2 s o = ArithOps.imul Fix.fixed s (toModel_ar2 o) := by
  by_cases hk : hasCons s.kind = true
  · have e : cls_imul_ar2 s.kind modelMethods_ar2 s o = PCBO_imul_ar2 modelMethods_ar2 s o
        ∨ cls_imul_ar2 s.kind modelMethods_ar2 s o = PCSO_imul_ar2 modelMethods_ar2 s o := by
      revert hk; cases s.kind <;> intro hk <;> first | exact Or.inl rfl | exact Or.inr rfl | exact absurd hk (by decide)
    rcases e with e | e
    · rw [e, PCBO_imul_ar2_eq_model s hg]
    · rw [e, PCSO_imul_ar2_eq_model s hg]
  · have hk' : hasCons s.kind = false := by simpa using hk
    have e : cls_imul_ar2 s.kind modelMethods_ar2 s o = DictArithmetic_imul_ar2 modelMethods_ar2 s o := by
      revert hk'; cases s.kind <;> intro hk' <;> first | rfl | exact absurd hk' (by decide)
    rw [e, DictArithmetic_imul_ar2_eq_model s hg, imulBase_noCons_ar2 s (hc hk')]

theorem clearForMul_good_ar2 {s : State} (h : Good_ar2 s) : Good_ar2 (clearForMul Fix.fixed s) :=
  ⟨h.1, by intro p hp; cases hp⟩

theorem imulD_good_ar2 {s : State} (h : Good_ar2 s) (q : Poly) : Good_ar2 (Book.imulD Fix.fixed s q).1 :=
  loop_good_ar2 _ (fun t a t' ht h => augitem_good_ar2 ht h) _ _ (clearForMul_good_ar2 h)

theorem imulD_consOK_ar2 {s : State} (h : ConsOK_ar2 s) (q : Poly) : ConsOK_ar2 (Book.imulD Fix.fixed s q).1 := by
  obtain ⟨h1, h2, h3⟩ := imulD_fields s q
  intro hk
  rw [h1] at hk
  rw [h2, h3]
  exact h hk

/-- `for _ in range(n): self *= old` is the model's `powLoop` -/
theorem powLoop_eq_ar2 (old : Obj) : ∀ (l : List Nat) (s : State), Good_ar2 s → ConsOK_ar2 s →
    pyForM l s (fun self _ => cls_imul_ar2 self.kind modelMethods_ar2 self (pyOfObj_ar2 old))
      = toExcept (Book.powLoop Fix.fixed s old.terms l.length) := by
  intro l
  induction l with
  | nil => intro s _ _; rfl
  | cons a r ih =>
    intro s hg hc
    simp only [pyForM, List.length_cons, Book.powLoop]
    rw [cls_imul_ar2_eq_model s hg hc]
    show (toExcept (Book.imulD Fix.fixed s old.terms) >>= _) = _
    have hg' := imulD_good_ar2 hg old.terms
    have hc' := imulD_consOK_ar2 hc old.terms
    revert hg' hc'
    cases Book.imulD Fix.fixed s old.terms with
    | mk s' e =>
      cases e with
      | none => intro hg' hc'; exact ih s' hg' hc'
      | some er => intro _ _; rfl

theorem range_ar2 (n : Int) (h : 1 < n) :
    pyRange_ar2 (pyExpSub_ar2 ⟨(n : Rat), true⟩ 1) = .ok (List.range (n.toNat - 1)) := by
  unfold pyRange_ar2 pyExpSub_ar2
  simp only [if_true]
  have : ((n : Rat) - ((1 : Nat) : Rat)) = ((n - 1 : Int) : Rat) := by push_cast; ring
  rw [this, Rat.floor_intCast]
  congr 2
  omega

/-- `range(1, n)` (the shape `for _ in range(1, exponent)`): as many elements as `range(n - 1)` -/
theorem rangeFrom_ar2 (n : Int) (h : 1 < n) :
    pyRangeFrom_ar2 1 ⟨(n : Rat), true⟩ = .ok (List.range' 1 (n.toNat - 1)) := by
  unfold pyRangeFrom_ar2
  simp only [if_true]
  rw [Rat.floor_intCast]

/-- **`DictArithmetic.__ipow__`** (whole function): `ValueError` unless the exponent is an `int` and positive; exponent 1
returns `self` untouched; otherwise `old = self.copy()` once and `exponent - 1` times `self *= old` (the class's own
`__imul__`) — is `ArithOps.ipow` (= `Book.ipow Fix.fixed` for an int exponent) -/
theorem DictArithmetic_ipow_ar2_eq_model (s : Obj) (hg : Good_ar2 s) (hc : ConsOK_ar2 s) (r : Rat) (n : Int) (isInt : Bool)
    (he : isInt = true → r = (n : Rat)) :
    DictArithmetic_ipow_ar2 modelMethods_ar2 s ⟨r, isInt⟩ = ArithOps.ipow Fix.fixed s (if isInt then some n else none) := by
  unfold DictArithmetic_ipow_ar2
  cases isInt with
  | false => simp [pyExpIsInt_ar2, ArithOps.ipow]
  | true =>
    have hv : r = (n : Rat) := he rfl
    subst hv
    simp only [pyExpIsInt_ar2, not_true_eq_false, false_or, if_true, ArithOps.ipow, Book.ipow]
    by_cases hn : n ≤ 0
    · have : ((n : Rat) ≤ 0) := by exact_mod_cast hn
      simp [this, hn, toExcept]
    · have h0 : ¬ ((n : Rat) ≤ 0) := by exact_mod_cast hn
      simp only [h0, hn, if_false]
      by_cases h1 : n = 1
      · subst h1
        simp [toExcept]
      · have hgt : 1 < n := by omega
        have hgt' : ((n : Rat) > 1) := by exact_mod_cast hgt
        -- the shape `if exponent == 1: return self` (instead of `if exponent > 1: …`) tests this
        have h1' : ¬ ((n : Rat) = 1) := by exact_mod_cast h1
        simp only [hgt', h1, h1', if_true, if_false, modelMethods_ar2, ArithOps.copy]
        cases hcp : Book.copy Fix.fixed s with
        | mk old eo =>
          cases eo with
          | some er => rfl
          | none =>
            simp only [toExcept, bind_ok', range_ar2 n hgt, rangeFrom_ar2 n hgt, bind_ok_right_ar2]
            have := powLoop_eq_ar2 old (List.range (n.toNat - 1)) s hg hc
            rw [List.length_range] at this
            -- `for _ in range(1, exponent)`: another list of the same length (the loop variable is not read)
            have this' := powLoop_eq_ar2 old (List.range' 1 (n.toNat - 1)) s hg hc
            rw [List.length_range'] at this'
            first | exact this | (rw [← this]; simp [bind_ok_right_ar2, modelMethods_ar2]; done)
                  | exact this' | (rw [← this']; simp [bind_ok_right_ar2, modelMethods_ar2])

/-! ## the chain to C05's term-level operators (`Qv/Model/Arith.lean`) -/

/-- the terms `self += dict` leaves are `iaddD`'s (same exception otherwise) -/
theorem DictArithmetic_iadd_ar2_terms (s : Obj) (hg : Good_ar2 s) (q : Poly) :
    (DictArithmetic_iadd_ar2 modelMethods_ar2 s (.dict q)).map (·.terms) = iaddD (squash s.kind) s.terms q := by
  rw [DictArithmetic_iadd_ar2_eq_model s hg _ (by intro h; cases h)]
  exact iaddLoop_terms Fix.fixed q s

/-- the terms `self -= dict` leaves are `isubD`'s; **`d -= d`** runs `isubD` over `d`'s own items (and so empties `d`
instead of raising `RuntimeError`, 1dd08ee) -/
theorem DictArithmetic_isub_ar2_terms (s : Obj) (hg : Good_ar2 s) (q : Poly) :
    (DictArithmetic_isub_ar2 modelMethods_ar2 s (.dict q)).map (·.terms) = isubD (squash s.kind) s.terms q
    ∧ (DictArithmetic_isub_ar2 modelMethods_ar2 s .self).map (·.terms) = isubD (squash s.kind) s.terms s.terms := by
  rw [DictArithmetic_isub_ar2_eq_model s hg, DictArithmetic_isub_ar2_eq_model s hg]
  exact ⟨isubLoop_terms Fix.fixed q s, isubLoop_terms Fix.fixed s.terms s⟩

/-- the terms `self *= dict` leaves (any model class) are the term-level `imulD`'s; **`a *= a`** multiplies `a`'s items by
`a`'s items as they were BEFORE `self.clear()` -/
theorem cls_imul_ar2_terms (s : Obj) (hg : Good_ar2 s) (hc : ConsOK_ar2 s) (q : Poly) :
    (cls_imul_ar2 s.kind modelMethods_ar2 s (.dict q)).map (·.terms) = Qv.imulD (squash s.kind) s.terms q
    ∧ (cls_imul_ar2 s.kind modelMethods_ar2 s .self).map (·.terms) = Qv.imulD (squash s.kind) s.terms s.terms
    ∧ ∀ c, (cls_imul_ar2 s.kind modelMethods_ar2 s (.num c)).map (·.terms) = imulC (squash s.kind) s.terms c := by
  refine ⟨?_, ?_, fun c => ?_⟩ <;> rw [cls_imul_ar2_eq_model s hg hc]
  · exact imulD_terms s q
  · exact imulD_terms s s.terms
  · exact scaleLoop_terms Fix.fixed s c

/-! ## getters -/

/-- `num_terms` is `len(self)`: the number of stored terms -/
theorem DictArithmetic_num_terms_ar2_eq_model (M : ArMethods_ar2) (s : Obj) :
    DictArithmetic_num_terms_ar2 M s = .ok s.terms.length := rfl

/-- `offset` is `self[()]`: C05's `getItem` at the empty key (the coefficient of the constant term, 0 when absent) -/
theorem PUBOMatrix_offset_ar2_eq_model (M : ArMethods_ar2) (s : Obj) (hκ : s.kind ≠ .dict) :
    PUBOMatrix_offset_ar2 M s = getItem (squash s.kind) s.terms [] := by
  unfold PUBOMatrix_offset_ar2
  rw [bind_ok_right_ar2, cls_getitem_eq_model s hκ]

end Qv.Gen
