import Qv.Gen.SourceStore
import Qv.Model.Arith
import Qv.Proofs.GenEq.PyList
import Qv.Gen.Interp
/-!
# GenEq.ArithTerms — the item statements generated from the loops of `DictArithmetic.__iadd__`, `__isub__`,
`__imul__` equal the per-term steps of the model's `iaddD`, `isubD`, `mulRow`, `scaleKeys` (C05)
-/
set_option linter.unusedTactic false
set_option linter.unreachableTactic false
set_option linter.unusedSimpArgs false
namespace Qv.Gen

theorem applySOps_append (sq : Sq) : ∀ (a b : List SOp) (p : Poly),
    applySOps sq p (a ++ b) = (applySOps sq p a >>= fun p' => applySOps sq p' b) := by
  intro a
  induction a with
  | nil => intro b p; rfl
  | cons o r ih =>
    intro b p
    simp only [List.cons_append, applySOps]
    cases applySOp sq p o with
    | error e => rfl
    | ok p' => exact ih b p'

/-- `for k, v in other.items(): self[k] += v` — one step of `iaddD` -/
theorem dict_iadd_term_eq_model (sq : Sq) (p : Poly) (k : Key) (v : Rat) :
    applySOps sq p (dict_iadd_term k v) = addTerm sq p k v := by
  unfold dict_iadd_term
  simp only [List.nil_append, applySOps, applySOp, bind_ok_self]

/-- `for k, v in tuple(other.items()): self[k] -= v` — one step of `isubD` -/
theorem dict_isub_term_eq_model (sq : Sq) (p : Poly) (k : Key) (v : Rat) :
    applySOps sq p (dict_isub_term k v) = addTerm sq p k (-v) := by
  unfold dict_isub_term
  simp only [List.nil_append, applySOps, applySOp, bind_ok_self]

/-- `for k in tuple(self.keys()): self[k] *= other` — one step of `scaleKeys` -/
theorem dict_imul_const_term_eq_model (sq : Sq) (p : Poly) (k : Key) (c : Rat) :
    applySOps sq p (dict_imul_const_term k c) = mulItem sq p k c := by
  unfold dict_imul_const_term
  simp only [List.nil_append, applySOps, applySOp, bind_ok_self]

theorem foldl_snoc_ops (g : List SOp → Key × Rat → List SOp) (a : Key × Rat → SOp)
    (hg : ∀ acc it, g acc it = acc ++ [a it]) :
    ∀ (l : List (Key × Rat)) (acc : List SOp), l.foldl g acc = acc ++ l.map a := by
  intro l
  induction l with
  | nil => intro acc; simp
  | cons x r ih => intro acc; simp [List.foldl_cons, hg, ih]

theorem mulRow_ops (sq : Sq) (k : Key) (v : Rat) : ∀ (q : Poly) (acc : Poly),
    mulRow sq acc k v q = applySOps sq acc (q.map (fun kv => SOp.add (k ++ kv.1) (v * kv.2))) := by
  intro q
  induction q with
  | nil => intro acc; rfl
  | cons kv r ih =>
    intro acc
    obtain ⟨ko, vo⟩ := kv
    simp only [mulRow, List.map_cons, applySOps, applySOp]
    cases addTerm sq acc (k ++ ko) (v * vo) with
    | error e => rfl
    | ok acc' => exact ih acc'

/-- body of the outer loop of `__imul__` for a dict: `for ko, vo in oitems: self[kp + kop] += v * vo` is the
model's `mulRow` -/
theorem dict_imul_row_eq_model (sq : Sq) (acc : Poly) (k : Key) (v : Rat) (q : Poly) :
    applySOps sq acc (dict_imul_row k v q) = mulRow sq acc k v q := by
  unfold dict_imul_row
  rw [mulRow_ops]
  simp only []
  congr 1
  refine (Eq.trans (foldl_snoc_ops _ (fun kv => SOp.add (k ++ kv.1) (v * kv.2)) ?_ _ _) (by simp))
  intro acc it
  first | rfl | simp

example : dict_imul_row [1] 2 [([3], 5), ([], 7)] = [SOp.add [1, 3] 10, SOp.add [1] 14] := by decide +kernel
example : dict_isub_term [1, 2] 3 = [SOp.add [1, 2] (-3)] := by decide +kernel

end Qv.Gen
