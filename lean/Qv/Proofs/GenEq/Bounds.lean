import Qv.Proofs.GenEq.Extrema
import Qv.Model.Pcbo
import Mathlib.Tactic.Ring
import Mathlib.Tactic.Linarith
import Mathlib.Algebra.Order.Ring.Rat
import Qv.Gen.Interp
/-!
# GenEq.Bounds — generated `_get_bounds` and the decision structure of `add_constraint_eq_zero` equal
the model's `getBounds` and the branch structure of `addEqZero` (C02, C03, C06)
-/
-- alternatives kept for robustness against equivalent reshapings of the generated term
set_option linter.unusedTactic false
set_option linter.unreachableTactic false
namespace Qv.Gen

/-! ## `_get_bounds` -/

/-- `_get_bounds(P, bounds)` with `bounds` a pair: the generated function returns the model's `getBounds`
(its static result type is `Rat × Option Rat` because `bounds[1]` is passed through in one branch) -/
theorem get_bounds_eq_model (P : Poly) (b : Option Rat × Option Rat) :
    get_bounds P (some b) = ((getBounds P b).1, some (getBounds P b).2) := by
  unfold get_bounds
  simp only [approximate_pubo_extrema_eq_model]
  rcases b with ⟨_ | lo, _ | hi⟩ <;> simp [getBounds]

/-- `_get_bounds(P, None)` is `_get_bounds(P, (None, None))` -/
theorem get_bounds_none_eq_model (P : Poly) :
    get_bounds P none = ((getBounds P (none, none)).1, some (getBounds P (none, none)).2) := by
  unfold get_bounds
  simp only [approximate_pubo_extrema_eq_model]
  simp [getBounds]

example : get_bounds [([], 2), ([0], -3), ([0, 1], 5)] (some (none, some 4)) = (-1, some 4) := by decide +kernel
example : getBounds [([], 2), ([0], -3), ([0, 1], 5)] (none, some 4) = (-1, 4) := by decide +kernel

/-! ## decision structure of `add_constraint_eq_zero` -/

/-- after the `lam = 0` and special-shape shortcuts, `addEqZero` does exactly what the generated
if/elif chain of `add_constraint_eq_zero` says, on the bounds `_get_bounds` returns: same branch
conditions in the same order, same warning, same one of `lam*P`, `-lam*P`, `lam*P*P` added -/
theorem add_constraint_eq_zero_decision_eq_model (s : St) (P : Poly) (lam : Rat)
    (b : Option Rat × Option Rat) (sup : Bool) (hlam : lam ≠ 0)
    (hsp : specialEq (s.append .eq P) P lam = none) :
    untag (addEqZero s P lam b sup) =
      untag ((add_constraint_eq_zero_decision sup (getBounds P b).1 (getBounds P b).2).foldl
        (runEff P lam) (s.append .eq P)) := by
  unfold addEqZero
  simp only [hlam, if_false, hsp]
  generalize getBounds P b = bd
  obtain ⟨lo, hi⟩ := bd
  unfold add_constraint_eq_zero_decision
  cases sup <;> simp only [] <;> split_ifs <;>
    first
    | rfl
    | (exfalso; grind)
    | (exfalso; simp_all; done)
    | (exfalso; simp_all; linarith)
    | (simp_all [untag, runEff, St.warn, St.tag, St.plus, St.minus]; done)

example : add_constraint_eq_zero_decision false (-1) 3 = [Eff.iaddLamPP] := by decide +kernel
example : add_constraint_eq_zero_decision false 2 3 = [Eff.warn "unsat", Eff.iaddLamP] := by decide +kernel
example : add_constraint_eq_zero_decision true (-2) 0 = [Eff.isubLamP] := by decide +kernel

end Qv.Gen
