import Qv.Gen.SourceConv2Sol
import Qv.Proofs.GenEq.Convert
import Qv.Proofs.GenEq.PyList
/-!
# GenEq.Conv2Sol — `boolean_to_spin` / `spin_to_boolean` on containers and the four `convert_solution` methods,
generated from `_conversions.py`, `_qubo.py`, `_quso.py`, `_pubo.py`, `_puso.py`, equal the model's `solMap b2sVal`,
`solMap s2bVal` and `convertSolution` (C04): the spin/boolean decision through `is_solution_spin`, which way the
container is converted, that only the labels `0 … num_binary_variables-1` are read, and the mapping back through
`_reverse_mapping`.
-/
set_option linter.unusedTactic false
set_option linter.unreachableTactic false
set_option linter.unusedSimpArgs false
namespace Qv.Gen

/-- a converted container: the same kind of container with the new items -/
def asSol (isDict : Bool) (r : Except Err Sol) : Except Err SolC := r >>= fun l => .ok ⟨isDict, l⟩

theorem pyListMapM_solMap (f : Rat → Except Err Rat) (g : Nat × Rat → Except Err (Nat × Rat))
    (hg : ∀ iv, g iv = (f iv.2 >>= fun v => .ok (iv.1, v))) :
    ∀ (s : Sol), pyListMapM s g = solMap f s := by
  intro s
  induction s with
  | nil => rfl
  | cons iv r ih =>
    obtain ⟨i, v⟩ := iv
    simp only [pyListMapM, solMap, hg, ih]
    cases f v with
    | error e => rfl
    | ok v' =>
      simp only [ok_bind']
      cases solMap f r <;> rfl

theorem pyNumDictGet_b2s (v : Rat) : pyNumDictGet [((0 : Rat), (1 : Rat)), ((1 : Rat), (-1 : Rat))] v = b2sVal v := by
  rw [pyNumDictGet, pyNumDictGet, pyNumDictGet, b2sVal]
  by_cases h0 : v = 0
  · subst h0; decide +kernel
  · by_cases h1 : v = 1
    · subst h1; decide +kernel
    · have h0' : ¬ (0 : Rat) = v := fun h => h0 h.symm
      have h1' : ¬ (1 : Rat) = v := fun h => h1 h.symm
      simp only [if_neg h0, if_neg h1, if_neg h0', if_neg h1']

theorem pyNumDictGet_s2b (v : Rat) : pyNumDictGet [((-1 : Rat), (1 : Rat)), ((1 : Rat), (0 : Rat))] v = s2bVal v := by
  rw [pyNumDictGet, pyNumDictGet, pyNumDictGet, s2bVal]
  by_cases h0 : v = -1
  · subst h0; decide +kernel
  · by_cases h1 : v = 1
    · subst h1; decide +kernel
    · have h0' : ¬ (-1 : Rat) = v := fun h => h0 h.symm
      have h1' : ¬ (1 : Rat) = v := fun h => h1 h.symm
      simp only [if_neg h0, if_neg h1, if_neg h0', if_neg h1']

/-- both container branches apply `f` to every value, keeping keys / positions -/
theorem sol_map_both (z : SolC) (f g : Rat → Except Err Rat) (hf : ∀ v, f v = g v) :
    (if z.isDict = true then pySolItemsMapM z f else pySolSeqMapM z f) = asSol z.isDict (solMap g z.items) := by
  obtain ⟨d, s⟩ := z
  have hff : f = g := funext hf
  subst hff
  cases d <;>
    simp only [pySolItemsMapM, pySolSeqMapM, asSol, if_true, if_false, Bool.false_eq_true] <;>
    rw [pyListMapM_solMap f _ (fun _ => rfl)]

/-- `boolean_to_spin(x)` on a dict / list / tuple `x`: every value through `{0: 1, 1: -1}` (`KeyError` otherwise) -/
theorem boolean_to_spin_eq_model (x : SolC) : boolean_to_spin x = asSol x.isDict (solMap b2sVal x.items) := by
  unfold boolean_to_spin
  simp only [bind_ok_self, pySolIsDict]
  refine sol_map_both x _ b2sVal ?_
  intro v
  first | exact pyNumDictGet_b2s v | (simp only [bind_ok_self]; exact pyNumDictGet_b2s v) | (simp [pyNumDictGet, b2sVal]; split_ifs <;> simp_all)

/-- `spin_to_boolean(z)`: every value through `{-1: 1, 1: 0}` -/
theorem spin_to_boolean_eq_model (z : SolC) : spin_to_boolean z = asSol z.isDict (solMap s2bVal z.items) := by
  unfold spin_to_boolean
  simp only [bind_ok_self, pySolIsDict]
  refine sol_map_both z _ s2bVal ?_
  intro v
  first | exact pyNumDictGet_s2b v | (simp only [bind_ok_self]; exact pyNumDictGet_s2b v) | (simp [pyNumDictGet, s2bVal]; split_ifs <;> simp_all)

theorem pyMapGet_eq_mapGet (m : PyMap) (i : Var) : pyMapGet m i = mapGet m i := by
  induction m with
  | nil => rfl
  | cons ab r ih => obtain ⟨a, b⟩ := ab; simp only [pyMapGet, mapGet, ih]

theorem pySolItem_go_eq (s : SolC) (i : Nat) : ∀ l, pySolItem.go s i l = solGet l s.isDict i := by
  intro l
  induction l with
  | nil => rfl
  | cons jv r ih => obtain ⟨j, v⟩ := jv; simp only [pySolItem.go, solGet, ih]

theorem pySolItem_eq_solGet (s : SolC) (i : Nat) : pySolItem s i = solGet s.items s.isDict i := pySolItem_go_eq s i _

theorem pyDictSet_eq_aput (d : Assign) (k : Var) (v : Rat) : pyDictSet d k v = aput d k v := by
  induction d with
  | nil => rfl
  | cons kv r ih => obtain ⟨k', v'⟩ := kv; simp only [pyDictSet, aput, ih]

/-- the loop of the final dict comprehension `{self._reverse_mapping[i]: solution[i] for i in …}` is the model's
`solLoop` -/
theorem forM_solLoop (rev : PyMap) (s : SolC) (body : Assign → Nat → Except Err Assign)
    (hbody : ∀ d i, body d i =
      (mapGet rev i >>= fun l => solGet s.items s.isDict i >>= fun v => .ok (aput d l v))) :
    ∀ (is : List Nat) (acc : Assign), pyForM is acc body = solLoop rev s.items s.isDict acc is := by
  intro is
  induction is with
  | nil => intro acc; rfl
  | cons i r ih =>
    intro acc
    simp only [pyForM, solLoop, hbody]
    cases mapGet rev i with
    | error e => rfl
    | ok l =>
      simp only [ok_bind']
      cases solGet s.items s.isDict i with
      | error e => rfl
      | ok v => simp only [ok_bind']; exact ih _

theorem pyRangeNat_cast (n : Nat) : pyRangeNat (Nat.cast n : Int) = List.range n := by
  simp [pyRangeNat]

theorem comp_eq (rev : PyMap) (n : Nat) (s : SolC) (f : Nat → Except Err (Var × Rat))
    (hf : ∀ i, f i = (pyMapGet rev i >>= fun l => pySolItem s i >>= fun v => .ok (l, v))) :
    pyDictCompM (pyRangeNat (Nat.cast n : Int)) f = solLoop rev s.items s.isDict [] (List.range n) := by
  rw [pyRangeNat_cast]
  unfold pyDictCompM
  refine forM_solLoop rev s _ ?_ _ _
  intro d i
  rw [hf]
  simp only [bind_assoc', pyMapGet_eq_mapGet, pySolItem_eq_solGet, pyDictSet_eq_aput, ok_bind']

/-- `QUBO.convert_solution(solution, spin)` on the object state `self` (`_reverse_mapping`, `num_binary_variables`)
and a dict / list / tuple `solution`: the model's `convertSolution` for a boolean model -/
theorem QUBO_convert_solution_eq_model (self : ConvModel) (solution : SolC) (spin : Bool) :
    QUBO_convert_solution self solution spin =
      convertSolution false self.rev self.nvars solution.items solution.isDict spin := by
  unfold QUBO_convert_solution convertSolution
  simp only [bind_ok_self, is_solution_spin_eq_model, pySolValues, pySolIsDict, spin_to_boolean_eq_model,
    Bool.false_eq_true, if_false]
  cases hsp : isSolutionSpin (List.map Prod.snd solution.items) spin <;>
    simp only [Bool.false_eq_true, if_false, if_true, Bool.not_false, Bool.not_true]
  · first
    | exact comp_eq _ _ solution _ (fun _ => rfl)
    | (simp only [pure, Except.pure, ok_bind']; exact comp_eq _ _ solution _ (fun _ => rfl))
  · simp only [asSol]
    cases solMap s2bVal solution.items with
    | error e => rfl
    | ok l => exact comp_eq _ _ ⟨solution.isDict, l⟩ _ (fun _ => rfl)

/-- `QUSO.convert_solution(solution, spin)`: the model's `convertSolution` for a spin model -/
theorem QUSO_convert_solution_eq_model (self : ConvModel) (solution : SolC) (spin : Bool) :
    QUSO_convert_solution self solution spin =
      convertSolution true self.rev self.nvars solution.items solution.isDict spin := by
  unfold QUSO_convert_solution convertSolution
  simp only [bind_ok_self, is_solution_spin_eq_model, pySolValues, pySolIsDict, boolean_to_spin_eq_model, if_true]
  cases hsp : isSolutionSpin (List.map Prod.snd solution.items) spin <;>
    simp only [Bool.false_eq_true, if_false, if_true, Bool.not_false, Bool.not_true]
  · simp only [asSol]
    cases solMap b2sVal solution.items with
    | error e => rfl
    | ok l => exact comp_eq _ _ ⟨solution.isDict, l⟩ _ (fun _ => rfl)
  · first
    | exact comp_eq _ _ solution _ (fun _ => rfl)
    | (simp only [pure, Except.pure, ok_bind']; exact comp_eq _ _ solution _ (fun _ => rfl))

/-- `PUBO.convert_solution` (also PCBO) delegates to `QUBO.convert_solution` with the same arguments -/
theorem PUBO_convert_solution_eq_model (self : ConvModel) (solution : SolC) (spin : Bool) :
    PUBO_convert_solution self solution spin =
      convertSolution false self.rev self.nvars solution.items solution.isDict spin := by
  unfold PUBO_convert_solution
  simp only [bind_ok_self]
  exact QUBO_convert_solution_eq_model self solution spin

/-- `PUSO.convert_solution` (also PCSO) delegates to `QUSO.convert_solution` -/
theorem PUSO_convert_solution_eq_model (self : ConvModel) (solution : SolC) (spin : Bool) :
    PUSO_convert_solution self solution spin =
      convertSolution true self.rev self.nvars solution.items solution.isDict spin := by
  unfold PUSO_convert_solution
  simp only [bind_ok_self]
  exact QUSO_convert_solution_eq_model self solution spin

example : QUBO_convert_solution ⟨.qubo, [], [(7, 0), (9, 1)], [(0, 7), (1, 9)], 2⟩ ⟨false, [(0, 1), (1, -1), (2, 1)]⟩ false =
    .ok [(7, 0), (9, 1)] := by decide +kernel
example : QUSO_convert_solution ⟨.quso, [], [(7, 0)], [(0, 7)], 1⟩ ⟨true, [(0, 0)]⟩ true = .ok [(7, 1)] := by decide +kernel

end Qv.Gen
