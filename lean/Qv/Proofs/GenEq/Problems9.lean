import Qv.Gen.SourceProblems9
import Qv.Proofs.GenEq.Problems9Lib
import Qv.Proofs.GenEq.Problems2
import Qv.Proofs.GenEq.Problems3
import Qv.Proofs.GenEq.Problems5Lib
/-!
# GenEq.Problems9 — `Problem.solve_bruteforce` (C10, C09): the definitions generated from `problems/_problem_parentclass.py`
(one per value of `all_solutions`, because the two `return`s have different Python types) equal the model's
`Brute.problemSolve` (`Qv/Model/BruteEntry.lean`: the padded plain dict `padQ` handed to `solve_qubo_bruteforce`) followed by the
child's `convert_solution` on the dict / on every dict of the list — and hence `Qv.Prob.solveVia`, the function the `solveBruteforce`
entries of the problem classes are defined by.  Chain theorems for `VertexCover` and `BILP` (whose `to_qubo` / `convert_solution`
are tied in Problems2 / Problems3).
-/
set_option linter.unusedTactic false
set_option linter.unreachableTactic false
set_option linter.unusedSimpArgs false
set_option linter.unusedVariables false
namespace Qv.Gen
open Qv Qv.Prob

theorem pb2_pad (Q : Poly) (N : Nat) :
    pyForM (List.range N) (pb2DictOf Q) (fun Q i => (Except.ok (pb2Setdefault0 Q [i]) : Except Err Poly)) = .ok (Brute.padQ Q N) := by
  rw [pb2_forM_pure _ _ _ (fun Q i => pb2Setdefault0 Q [i]) (fun _ _ => rfl)]
  rfl

/-- `solve_bruteforce(…)` without `all_solutions`: the padded dict is solved, the dict that comes back is converted -/
theorem Problem_solve_bruteforce_one_eq_model {α : Type} (N : Nat) (convert : Sol → Except Err α) (Q : Poly) (order : List Var) :
    Problem_solve_bruteforce_one N convert false Q order =
      (Brute.problemSolve Q N false order >>= fun sol => match sol with | .one x => convert x | .many _ => .error .type) := by
  unfold Problem_solve_bruteforce_one Brute.problemSolve
  simp only [pb2_pad, ok_bindP, pb2SolveQubo, bind_ok_id]
  apply bind_congrP
  intro sol
  cases sol <;> rfl

/-- `solve_bruteforce(…, all_solutions=True)`: every dict of the list that comes back is converted, in order -/
theorem Problem_solve_bruteforce_all_eq_model {α : Type} (N : Nat) (convert : Sol → Except Err α) (Q : Poly) (order : List Var) :
    Problem_solve_bruteforce_all N convert true Q order =
      (Brute.problemSolve Q N true order >>= fun sol => match sol with | .many xs => pyMapM xs convert | .one _ => .error .type) := by
  unfold Problem_solve_bruteforce_all Brute.problemSolve
  simp only [pb2_pad, ok_bindP, pb2SolveQubo, bind_ok_id]
  apply bind_congrP
  intro sol
  cases sol
  · rfl
  · first
    | rfl
    | (simp only [pb2SolIter, ok_bindP]; done)
    | (simp only [pb2SolIter, ok_bindP]; apply pyMapM_congr; intro x _; simp only [bind_ok_id]; done)

theorem pb2_fillZeros (Q : Poly) (n : Nat) : fillZeros Q n = Brute.padQ Q n := rfl

/-- the chain to `Qv.Prob.solveVia` (which defines the `solveBruteforce` entries of the problem classes), `all_solutions` off -/
theorem Problem_solve_bruteforce_one_solveVia {α : Type} (N : Nat) (convert : Sol → Except Err α) (Q : Poly) (order : List Var) :
    (Problem_solve_bruteforce_one N convert false Q order >>= fun r => .ok [r]) = solveVia (.ok Q) convert false order true N := by
  rw [Problem_solve_bruteforce_one_eq_model]
  unfold solveVia Brute.problemSolve Brute.ofDict
  simp only [pb2_fillZeros, if_true, bind_assocP, ok_bindP]
  cases hs : Brute.solveMethod .qubo ⟨.dict, Brute.padQ Q N, none⟩ false (fun _ => true) order with
  | error e => rfl
  | ok sol =>
    obtain ⟨x, hx⟩ := (pb2_solve_shape _ _ _ _ _ sol hs).2 rfl
    subst hx
    first
    | rfl
    | (simp only [bind, Except.bind, pure, Except.pure]; done)
    | (simp only [bind, Except.bind, pure, Except.pure]; cases convert x <;> rfl)

/-- the chain to `Qv.Prob.solveVia`, `all_solutions` on -/
theorem Problem_solve_bruteforce_all_solveVia {α : Type} (N : Nat) (convert : Sol → Except Err α) (Q : Poly) (order : List Var) :
    Problem_solve_bruteforce_all N convert true Q order = solveVia (.ok Q) convert true order true N := by
  rw [Problem_solve_bruteforce_all_eq_model]
  unfold solveVia Brute.problemSolve Brute.ofDict
  simp only [pb2_fillZeros, if_true, ok_bindP]
  cases hs : Brute.solveMethod .qubo ⟨.dict, Brute.padQ Q N, none⟩ true (fun _ => true) order with
  | error e => rfl
  | ok sol =>
    obtain ⟨xs, hx⟩ := (pb2_solve_shape _ _ _ _ _ sol hs).1 rfl
    subst hx
    simp only [bind, Except.bind, pure, Except.pure, pb2_pyMapM_eq_mapM]

/-! ## chain theorems: `solve_bruteforce` of the problem classes that inherit it and whose `to_qubo` is their own method -/

theorem pb2_chain_all {α : Type} (gq mq : Except Err Poly) (hq : gq = mq) (N : Nat) (gc mc : Sol → Except Err α) (hc : ∀ x, gc x = mc x)
    (order : List Var) :
    (gq >>= fun Q => Problem_solve_bruteforce_all N gc true Q order) = solveVia mq mc true order true N := by
  have : gc = mc := funext hc
  subst this hq
  cases gq with
  | error e => rfl
  | ok Q => exact Problem_solve_bruteforce_all_solveVia N gc Q order

theorem pb2_chain_one {α : Type} (gq mq : Except Err Poly) (hq : gq = mq) (N : Nat) (gc mc : Sol → Except Err α) (hc : ∀ x, gc x = mc x)
    (order : List Var) :
    (gq >>= fun Q => Problem_solve_bruteforce_one N gc false Q order >>= fun r => .ok [r]) = solveVia mq mc false order true N := by
  have : gc = mc := funext hc
  subst this hq
  cases gq with
  | error e => rfl
  | ok Q => exact Problem_solve_bruteforce_one_solveVia N gc Q order

/-- `VertexCover(edges).solve_bruteforce(A, B, all_solutions=True)` -/
theorem VertexCover_solve_bruteforce_all (p : VC) (A B : Rat) (order : List Var) :
    (VertexCover_to_qubo p.edges p.vertices p.numVars A B >>= fun Q =>
      Problem_solve_bruteforce_all p.numVars (fun x => VertexCover_convert_solution p.edges p.vertices p.numVars x true false) true Q order)
      = p.solveBruteforce A B true order :=
  pb2_chain_all _ _ (VertexCover_to_qubo_eq_model p A B) _ _ _ (fun x => VertexCover_convert_solution_eq_model p x true false) order

/-- `VertexCover(edges).solve_bruteforce(A, B)` (the one converted solution, as a one-element list) -/
theorem VertexCover_solve_bruteforce_one (p : VC) (A B : Rat) (order : List Var) :
    (VertexCover_to_qubo p.edges p.vertices p.numVars A B >>= fun Q =>
      Problem_solve_bruteforce_one p.numVars (fun x => VertexCover_convert_solution p.edges p.vertices p.numVars x true false) false Q order
        >>= fun r => .ok [r])
      = p.solveBruteforce A B false order :=
  pb2_chain_one _ _ (VertexCover_to_qubo_eq_model p A B) _ _ _ (fun x => VertexCover_convert_solution_eq_model p x true false) order

/-- `BILP(c, S, b).solve_bruteforce(A, B, all_solutions=True)` -/
theorem BILP_solve_bruteforce_all (p : BILP) (hp : BILPShape p) (A : Option Rat) (B : Rat) (order : List Var) :
    (BILP_to_qubo p.c p.S p.b p.N p.S.length A B >>= fun Q =>
      Problem_solve_bruteforce_all p.numVars (fun x => BILP_convert_solution p.c p.S p.b p.N p.S.length x true false) true Q order)
      = p.solveBruteforce A B true order :=
  pb2_chain_all _ _ (BILP_to_qubo_eq_model p hp A B) _ _ _ (fun x => BILP_convert_solution_eq_model p x true false) order

theorem BILP_solve_bruteforce_one (p : BILP) (hp : BILPShape p) (A : Option Rat) (B : Rat) (order : List Var) :
    (BILP_to_qubo p.c p.S p.b p.N p.S.length A B >>= fun Q =>
      Problem_solve_bruteforce_one p.numVars (fun x => BILP_convert_solution p.c p.S p.b p.N p.S.length x true false) false Q order
        >>= fun r => .ok [r])
      = p.solveBruteforce A B false order :=
  pb2_chain_one _ _ (BILP_to_qubo_eq_model p hp A B) _ _ _ (fun x => BILP_convert_solution_eq_model p x true false) order

end Qv.Gen
