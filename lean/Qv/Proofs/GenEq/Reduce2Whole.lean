import Qv.Proofs.GenEq.Reduce2Count
import Qv.Proofs.GenEq.ReduceTerm
import Qv.Proofs.GenEq.Lam
import Qv.Model.ReduceWhole
import Qv.Proofs.ReduceLabels
/-!
# GenEq.Reduce2Whole — `PUBO._reduce_degree` as a WHOLE, generated from the source (`Qv/Gen/SourceReduce2.lean`), equals the
model's `Reduce.reduceDegreeC` — the function `impl_refines_spec` and the other C01 theorems are about (C01, C08, C14, C16)

| part of the source | generated | theorem | model |
|---|---|---|---|
| `deg` checks, `lam` wrapping | `rd2_prologue` | `rd2_prologue_eq_model`, `rd2_prologue_wraps_constant` | `reduceDegreeC`'s match on `deg`, `Lam.app` |
| `pairs = {…}` | `rd2_pairs` | `rd2_pairs_eq_model` | `pairs.map (mapPair m)` |
| counting loop | `rd2_count`, `rd2_freq` | `rd2_count_eq_model`, `rd2_freq_eq_model` (Reduce2Count) | `mapSelf` |
| `ancilla = self.num_binary_variables`, `reductions = {}`, loop over `mapped_self.items()` | `rd2_whole` (calls `rd_term`) | `rd2_whole_eq_model` | `reduceCore` |
-/
set_option linter.unusedTactic false
set_option linter.unusedSimpArgs false
namespace Qv.Gen
open Qv Qv.Reduce

/-! ## the prologue -/

/-- the Python argument `lam` for a penalty setting of the model's menu: `None`, a number, or a callable -/
def rd2LamArg : Lam → Option PyRd2Lam
  | .default => none
  | .const c => some (.num c)
  | l => some (.fn l.app)

/-- what `_reduce_degree` makes of its `lam` argument -/
def rd2FuncLam : Option PyRd2Lam → (Rat → Rat)
  | none => defaultLam
  | some (.fn f) => f
  | some (.num c) => fun _ => c

theorem rd2_default_lam_fun : default_lam = defaultLam := by
  funext v; exact default_lam_eq_model v

theorem rd2FuncLam_arg (lam : Lam) : rd2FuncLam (rd2LamArg lam) = lam.app := by
  cases lam <;> rfl

/-- **(3)** the prologue for every `lam` argument: `ValueError` exactly for a given `deg < 2`; `deg = None` means
`self.degree`; `None` becomes `PUBO.default_lam`, a callable is used as it is and anything else is wrapped as a constant
function -/
theorem rd2_prologue_eq (deg : Option Nat) (lam : Option PyRd2Lam) (cdeg : Nat) :
    rd2_prologue deg lam cdeg =
      (match deg with
       | some d => if d < 2 then .error .value else .ok (d, rd2FuncLam lam)
       | none => .ok (cdeg, rd2FuncLam lam)) := by
  unfold rd2_prologue
  cases deg with
  | none =>
    cases lam with
    | none => simp only [rd2FuncLam, rd2_default_lam_fun]
    | some l => cases l <;> first | rfl | simp only [rd2FuncLam]
  | some d =>
    by_cases h : d < 2
    · simp only [h, if_true]
    · cases lam with
      | none => simp only [h, if_false, rd2FuncLam, rd2_default_lam_fun]
      | some l => cases l <;> simp only [h, if_false, rd2FuncLam]

/-- C16 relies on this: a non-callable `lam` (a number; there, a symbol) is wrapped as the constant function -/
theorem rd2_prologue_wraps_constant (d : Nat) (hd : ¬ d < 2) (c : Rat) (cdeg : Nat) (v : Rat) :
    (rd2_prologue (some d) (some (.num c)) cdeg).map (fun r => (r.1, r.2 v)) = .ok (d, c) := by
  rw [rd2_prologue_eq]
  simp only [hd, if_false, rd2FuncLam, Except.map]

theorem rd2_prologue_eq_model (deg : Option Nat) (lam : Lam) (cdeg : Nat) :
    rd2_prologue deg (rd2LamArg lam) cdeg =
      (match deg with
       | some d => if d < 2 then .error .value else .ok (d, lam.app)
       | none => .ok (cdeg, lam.app)) := by
  rw [rd2_prologue_eq, rd2FuncLam_arg]

/-! ## the hints -/

theorem rd2_all_has (m : Mapping) (p : Key) :
    (List.all p (fun i => pyMappingHas m i)) = (match mapLabels m p with | .ok _ => true | .error _ => false) := by
  induction p with
  | nil => rfl
  | cons i r ih =>
    rw [List.all_cons, ih]
    simp only [pyMappingHas, mapLabels]
    cases lookup m i with
    | none => rfl
    | some j => cases mapLabels m r <;> rfl

/-- one hint: `tuple(sorted(self._mapping[i] for i in p)) if all(i in self._mapping for i in p) else ()` -/
theorem rd2_pair_main (m : Mapping) (p : Key) (c : Bool) (hc : c = List.all p (fun i => pyMappingHas m i))
    (G : Var → Except Err Var) (hG : ∀ i, G i = pyMappingGet m i) :
    (if c = true then (pyRMapM G p >>= fun l => (Except.ok (pySortedLabels l) : Except Err Key)) else (Except.ok [] : Except Err Key))
      = .ok (mapPair m p) := by
  rw [hc, rd2_all_has, rd2_mapM_get m G hG]
  unfold mapPair
  cases mapLabels m p <;> rfl

theorem rd2_mapM_ok {α β : Type} (g : α → β) (F : α → Except Err β) (hF : ∀ a, F a = .ok (g a)) :
    ∀ (l : List α), pyRMapM F l = .ok (l.map g) := by
  intro l
  induction l with
  | nil => rfl
  | cons a r ih => simp only [pyRMapM, hF, ih, List.map_cons]; rfl

/-- the set comprehension with any element function that reads as the source's -/
theorem rd2_pairs_main (m : Mapping) (pairs : Option (List Key)) (F : Key → Except Err Key)
    (hF : ∀ p, F p = .ok (mapPair m p)) (src : List Key) (hs : src = (match pairs with | none => [] | some l => l)) :
    (pyRMapM F src >>= fun l => (Except.ok l : Except Err (List Key))) = .ok ((pairs.getD []).map (mapPair m)) := by
  rw [rd2_bind_ok, rd2_mapM_ok (mapPair m) F hF, hs]
  cases pairs <;> rfl

/-- **(3)** the user's hints: each tuple of `pairs or {}` is mapped through `self._mapping` and sorted; a hint with an
unknown label becomes `()` -/
theorem rd2_pairs_eq_model (m : Mapping) (pairs : Option (List Key)) :
    rd2_pairs pairs m = .ok ((pairs.getD []).map (mapPair m)) := by
  unfold rd2_pairs
  refine rd2_pairs_main m pairs _ ?_ _ (by first | rfl | simp)
  intro p
  have h := rd2_pair_main m p (List.all p (fun i => pyMappingHas m i)) rfl
    (fun i => pyMappingGet m i >>= fun j => (Except.ok j : Except Err Var)) (fun i => rd2_bind_ok _)
  first
    | (simp only [decide_eq_true_eq, Bool.decide_eq_true] at h ⊢; rw [h]; rfl)
    | (simp only [decide_eq_true_eq, Bool.decide_eq_true, h, bind, Except.bind])
    | (simp [h, bind, Except.bind])

/-! ## the counting loop -/

/-- the loop `for k, v in self.items():` with any body that reads as a call of `rd2_count` is the model's `mapSelf` -/
theorem rd2_mapSelf_fold (m : Mapping)
    (B : List (Key × Rat) × List (Key × Nat) → Key × Rat → Except Err (List (Key × Rat) × List (Key × Nat)))
    (hB : ∀ acc fq kv, B (acc, fq) kv = (rd2_count kv.1 kv.2 m acc fq >>= fun r => .ok (r.1, r.2))) :
    ∀ (terms acc : Poly) (f : Freq), pyForM terms (acc, freqK f) B =
      (match mapSelf m terms acc f with
       | .error e => .error e
       | .ok p => .ok (p.1, freqK p.2)) := by
  intro terms
  induction terms with
  | nil => intro acc f; rfl
  | cons kv r ih =>
    intro acc f
    obtain ⟨k, v⟩ := kv
    simp only [pyForM, hB, rd2_count_eq_model, mapSelf]
    cases Reduce.mapKey m k with
    | error e => rfl
    | ok key => exact ih _ _

/-! ## the loop over `mapped_self.items()` -/

theorem rd2_while_false {σ : Type} (cond : σ → Bool) (body : σ → Except Err σ) (s : σ) (h : cond s = false) :
    ∀ (fuel : Nat), pyWhileM fuel cond body s = .ok s := by
  intro fuel
  cases fuel <;> simp [pyWhileM, h]

theorem rd2_reduceTerm_short (deg : Nat) (pairs : List Key) (lamv v : Rat) (key : Key) (st : ISt) (h : key.length ≤ deg) :
    (reduceTerm deg pairs lamv v key.length key st []).1 = { st with D := addTermB st.D key v } := by
  cases hk : key.length with
  | zero => rfl
  | succ n => rw [reduceTerm_succ, if_pos (by omega)]

/-- a term whose key already has at most `deg` labels: the `while` loop is not entered (any `deg`, also 0) -/
theorem rd2_term_short (deg : Nat) (pairs : List Key) (lam : Rat → Rat) (v : Rat) (key : Key) (st : ISt) (x0 y0 : Var)
    (h : key.length ≤ deg) :
    rd_term key v deg st.D (redsK st.reds) pairs (freqK st.freq) st.next lam x0 y0 =
      .ok ((reduceTerm deg pairs (lam v) v key.length key st []).1.D,
           redsK (reduceTerm deg pairs (lam v) v key.length key st []).1.reds,
           (reduceTerm deg pairs (lam v) v key.length key st []).1.next,
           freqK (reduceTerm deg pairs (lam v) v key.length key st []).1.freq, x0, y0) := by
  rw [rd2_reduceTerm_short deg pairs (lam v) v key st h]
  unfold rd_term
  rw [rd2_while_false _ _ _ (by simp; omega)]
  first | rfl | simp [bind, Except.bind, pyMatrixIadd]

/-- the state after the loop, in the translator's order `(D, ancilla, pair_frequencies, reductions, x, y)` -/
abbrev Rd2St := Poly × Var × List (Key × Nat) × List (Key × Var) × Var × Var

/-- the loop `for key, v in mapped_self.items():` with any body that reads as a call of `rd_term` is the model's
`reduceTermsF` (= `reduceTerms` without certificates) -/
theorem rd2_terms_fold (deg : Nat) (pairs : List Key) (lam : Rat → Rat) (B : Rd2St → Key × Rat → Except Err Rd2St)
    (hB : ∀ D nx fq rd x y kv, B (D, nx, fq, rd, x, y) kv =
      (rd_term kv.1 kv.2 deg D rd pairs fq nx lam x y >>= fun r =>
        .ok (r.1, r.2.2.1, r.2.2.2.1, r.2.1, r.2.2.2.2.1, r.2.2.2.2.2))) :
    ∀ (mapped : Poly) (st : ISt) (x0 y0 : Var), (1 ≤ deg ∨ shortKeys deg mapped) →
      ∃ x' y', pyForM mapped (st.D, st.next, freqK st.freq, redsK st.reds, x0, y0) B =
        .ok ((reduceTermsF deg pairs lam mapped st).D, (reduceTermsF deg pairs lam mapped st).next,
             freqK (reduceTermsF deg pairs lam mapped st).freq, redsK (reduceTermsF deg pairs lam mapped st).reds,
             x', y') := by
  intro mapped
  induction mapped with
  | nil => intro st x0 y0 _; exact ⟨x0, y0, rfl⟩
  | cons kv r ih =>
    intro st x0 y0 hd
    obtain ⟨key, v⟩ := kv
    have hr : 1 ≤ deg ∨ shortKeys deg r := by
      rcases hd with h | h
      · exact Or.inl h
      · exact Or.inr (fun kv' h' => h kv' (List.mem_cons_of_mem _ h'))
    have ht : ∃ x' y', rd_term key v deg st.D (redsK st.reds) pairs (freqK st.freq) st.next lam x0 y0 =
        .ok ((reduceTerm deg pairs (lam v) v key.length key st []).1.D,
             redsK (reduceTerm deg pairs (lam v) v key.length key st []).1.reds,
             (reduceTerm deg pairs (lam v) v key.length key st []).1.next,
             freqK (reduceTerm deg pairs (lam v) v key.length key st []).1.freq, x', y') := by
      rcases hd with h | h
      · exact rd_term_eq_model deg h pairs lam v key st x0 y0
      · exact ⟨x0, y0, rd2_term_short deg pairs lam v key st x0 y0 (h (key, v) List.mem_cons_self)⟩
    obtain ⟨x1, y1, h1⟩ := ht
    simp only [pyForM, hB, h1, reduceTermsF]
    exact ih (reduceTerm deg pairs (lam v) v key.length key st []).1 x1 y1 hr

/-! ## the whole function -/

theorem rd2_mapKey_length {m : Mapping} {k key : Key} (h : Reduce.mapKey m k = .ok key) : key.length = k.length := by
  unfold Reduce.mapKey at h
  split at h
  · cases h
  · rename_i l hl
    injection h with h; subst h
    rw [length_isort, (mapLabels_spec hl).1]

theorem rd2_mapSelf_short {m : Mapping} {terms : Poly} {d : Nat} {p : Poly × Freq}
    (h : mapSelf m terms [] [] = .ok p) (hs : shortKeys d terms) : shortKeys d p.1 := by
  obtain ⟨mapped, f'⟩ := p
  exact mapSelf_keys (P := fun key => key.length ≤ d) h (fun _ h => by cases h)
    (fun kv hkv key hkey => by rw [rd2_mapKey_length hkey]; exact hs kv hkv)

/-- everything after the prologue and the hints, with any loop bodies that read as the source's: the counting loop, the
start of the ancilla labels at `n = self.num_binary_variables`, empty `reductions`, the loop over `mapped_self.items()` in
dict order, value `D` -/
theorem rd2_whole_main (terms : Poly) (m : Mapping) (n d : Nat) (lam : Rat → Rat) (pairs : List Key) (x0 y0 : Var)
    (hd : 1 ≤ d ∨ shortKeys d terms)
    (B1 : List (Key × Rat) × List (Key × Nat) → Key × Rat → Except Err (List (Key × Rat) × List (Key × Nat)))
    (hB1 : ∀ acc fq kv, B1 (acc, fq) kv = (rd2_count kv.1 kv.2 m acc fq >>= fun r => .ok (r.1, r.2)))
    (B2 : Rd2St → Key × Rat → Except Err Rd2St)
    (hB2 : ∀ D nx fq rd x y kv, B2 (D, nx, fq, rd, x, y) kv =
      (rd_term kv.1 kv.2 d D rd pairs fq nx lam x y >>= fun r =>
        .ok (r.1, r.2.2.1, r.2.2.2.1, r.2.1, r.2.2.2.2.1, r.2.2.2.2.2))) :
    (pyForM terms (([] : List (Key × Rat)), ([] : List (Key × Nat))) B1 >>= fun acc =>
      (pyForM acc.1 (([] : Poly), n, acc.2, ([] : List (Key × Var)), x0, y0) B2 >>= fun a => (Except.ok a.1 : Except Err Poly))) =
      (match mapSelf m terms [] [] with
       | .error e => .error e
       | .ok p => .ok (reduceTermsF d pairs lam p.1 { next := n, reds := [], freq := p.2, D := [] }).D) := by
  have h1 := rd2_mapSelf_fold m B1 hB1 terms [] []
  rw [show freqK ([] : Freq) = ([] : List (Key × Nat)) from rfl] at h1
  rw [h1]
  cases hm : mapSelf m terms [] [] with
  | error e => rfl
  | ok p =>
    have hd' : 1 ≤ d ∨ shortKeys d p.1 := by
      rcases hd with h | h
      · exact Or.inl h
      · exact Or.inr (rd2_mapSelf_short hm h)
    obtain ⟨x', y', h2⟩ := rd2_terms_fold d pairs lam B2 hB2 p.1 { next := n, reds := [], freq := p.2, D := [] } x0 y0 hd'
    show (pyForM p.1 (([] : Poly), n, freqK p.2, ([] : List (Key × Var)), x0, y0) B2 >>= fun a => (Except.ok a.1 : Except Err Poly)) = _
    rw [show (([] : Poly), n, freqK p.2, ([] : List (Key × Var)), x0, y0) =
      (({ next := n, reds := [], freq := p.2, D := [] } : ISt).D, ({ next := n, reds := [], freq := p.2, D := [] } : ISt).next,
        freqK ({ next := n, reds := [], freq := p.2, D := [] } : ISt).freq,
        redsK ({ next := n, reds := [], freq := p.2, D := [] } : ISt).reds, x0, y0) from rfl, h2]
    rfl

theorem rd2_ok_bind {α β : Type} (a : α) (f : α → Except Err β) : ((Except.ok a : Except Err α) >>= f) = f a := rfl

/-- **(2) the whole of `PUBO._reduce_degree(D, deg, lam, pairs)`** on an empty `D`, generated from the source, returns the
matrix of the model's `reduceDegreeC` — for every model `terms`, mapping `m`, `n = self.num_binary_variables`, cached degree
`cdeg`, target degree, penalty setting of the menu and set of hints — with the same exceptions (`ValueError` for `deg < 2`,
`KeyError` for a label the mapping does not know).  For `deg = None` the cached degree must bound the key lengths (it does in
every state the bookkeeping of C14 produces; the same hypothesis as `reduceDegreeC_refines`) or be at least 1.  `x0`, `y0`: the
(unbound) values of the locals `x`, `y` on entry do not matter. -/
theorem rd2_whole_eq_model (terms : Poly) (m : Mapping) (n cdeg : Nat) (deg : Option Nat) (lam : Lam)
    (pairs : Option (List Key)) (x0 y0 : Var) (hdeg : deg = none → (1 ≤ cdeg ∨ shortKeys cdeg terms)) :
    rd2_whole [] deg (rd2LamArg lam) pairs m terms n cdeg x0 y0 =
      (reduceDegreeC terms m n cdeg deg lam (pairs.getD [])).map (fun o => o.D) := by
  unfold rd2_whole reduceDegreeC
  rw [rd2_prologue_eq_model, rd2_pairs_eq_model]
  cases deg with
  | none =>
    simp only [rd2_ok_bind]
    rw [reduceCore_D]
    refine rd2_whole_main terms m n cdeg lam.app _ x0 y0 (hdeg rfl) _ ?_ _ ?_
    · intro acc fq kv; first | rfl | simp [bind, Except.bind]
    · intro D nx fq rd x y kv; first | rfl | simp [bind, Except.bind]
  | some d =>
    by_cases h : d < 2
    · simp only [h, if_true]; rfl
    · simp only [h, if_false, rd2_ok_bind]
      rw [reduceCore_D]
      refine rd2_whole_main terms m n d lam.app _ x0 y0 (Or.inl (by omega)) _ ?_ _ ?_
      · intro acc fq kv; first | rfl | simp [bind, Except.bind]
      · intro D nx fq rd x y kv; first | rfl | simp [bind, Except.bind]

/-- the refreshed-state form (`cdeg` = the exact degree of the terms): no hypothesis is left -/
theorem rd2_whole_eq_reduceDegree (terms : Poly) (m : Mapping) (n : Nat) (deg : Option Nat) (lam : Lam)
    (pairs : Option (List Key)) (x0 y0 : Var) :
    rd2_whole [] deg (rd2LamArg lam) pairs m terms n (degree terms) x0 y0 =
      (reduceDegree terms m n deg lam (pairs.getD [])).map (fun o => o.D) := by
  rw [rd2_whole_eq_model terms m n (degree terms) deg lam pairs x0 y0 (fun _ => Or.inr (degree_ge terms))]
  cases deg <;> rfl

end Qv.Gen
