import Qv.Gen.SourceTempRange
import Qv.Model.TempRangeFn
import Qv.Proofs.GenEq.PyList
import Qv.Proofs.TempRange
import Mathlib.Tactic.Ring
/-!
# GenEq.TempRange — `anneal_temperature_range` generated from the source as a WHOLE function (C15)

* `anneal_temperature_range_u2_eq_model`: for every item list, all probabilities, either spin flag, ANY conversion function
  `pubo_to_puso` and ANY iteration order of the Python set `variables`, the generated function equals the model's
  `tempRangeFn` (guards, the conversion only when `not spin`, the variable set read from the keys, the `(0, 0)` shortcut, `min`
  over the non-constant terms, `max` over the variables of the summed magnitudes, the factor 2, the `p = 0 ↦ 0` conventions),
  each returned temperature `ofDelta dE` being the float `-dE / log(p)` of the probability of its position
  (`tempOfU2`); in particular `math.log` is never applied outside `(0, 1)` and never divides by `log 1`.
* `tempRange_raw_u2` / `tempRange_obj_u2`: `Qv.tempRange` — the function all C15 temperature theorems are about — is
  `tempRangeFn` with the model's own `pubo_to_puso`, on the dict's items resp. on the items of the object built by `buildObj`.

Needed on the way: Python's `min` / `max` fold from the left, the model's `minList` / `maxList` recurse from the right;
the generated code lists the set in insertion order and iterates it through `PySetOrder`, the model uses `keysVars` — the
maximum does not depend on the order (`maxList_perm_u2`).
-/
set_option linter.unusedTactic false
set_option linter.unreachableTactic false
set_option linter.unusedSimpArgs false
set_option linter.unusedVariables false
namespace Qv.Gen
open Qv

/-! ## `min` / `max`: fold from the left = recursion from the right -/

theorem foldl_min_u2 (r : List Rat) (a : Rat) :
    r.foldl (fun m x => if x < m then x else m) a =
      (match minList r with | none => a | some b => if b < a then b else a) := by
  induction r generalizing a with
  | nil => rfl
  | cons x r ih =>
    rw [List.foldl_cons, ih]
    simp only [minList]
    cases minList r with
    | none => simp only []
    | some b =>
      simp only []
      split_ifs <;> first | rfl | (exfalso; linarith) | linarith

theorem pyMin_eq_minList_u2 (l : List Rat) :
    pyMin l = (match minList l with | none => .error .value | some m => .ok m) := by
  cases l with
  | nil => rfl
  | cons a r =>
    simp only [pyMin, foldl_min_u2, minList]
    cases minList r <;> rfl

theorem foldl_max_u2 (r : List Rat) (a : Rat) :
    r.foldl (fun m x => if m < x then x else m) a =
      (match maxList r with | none => a | some b => if a < b then b else a) := by
  induction r generalizing a with
  | nil => rfl
  | cons x r ih =>
    rw [List.foldl_cons, ih]
    simp only [maxList]
    cases maxList r with
    | none => simp only []
    | some b =>
      simp only []
      split_ifs <;> first | rfl | (exfalso; linarith) | linarith

theorem pyMax_eq_maxList_u2 (l : List Rat) :
    pyMax l = (match maxList l with | none => .error .value | some m => .ok m) := by
  cases l with
  | nil => rfl
  | cons a r =>
    simp only [pyMax, foldl_max_u2, maxList]
    cases maxList r <;> rfl

/-- the maximum does not depend on the order of the sequence -/
theorem maxList_perm_u2 {l₁ l₂ : List Rat} (h : l₁.Perm l₂) : maxList l₁ = maxList l₂ := by
  induction h with
  | nil => rfl
  | cons a _ ih => simp only [maxList, ih]
  | swap a b l =>
    simp only [maxList]
    cases maxList l with
    | none => simp only [Option.some.injEq]; split_ifs <;> first | rfl | (exfalso; linarith) | linarith
    | some c => simp only [Option.some.injEq]; split_ifs <;> first | rfl | (exfalso; linarith) | linarith
  | trans _ _ ih1 ih2 => exact ih1.trans ih2

/-! ## the variable set -/

theorem mem_foldl_add_u2 (k acc : List Var) (i : Var) : i ∈ k.foldl pyUSetAdd acc ↔ i ∈ acc ∨ i ∈ k := by
  induction k generalizing acc with
  | nil => simp
  | cons j r ih =>
    rw [List.foldl_cons, ih]
    unfold pyUSetAdd
    by_cases hj : acc.contains j = true
    · have : j ∈ acc := by simpa using hj
      simp only [hj, if_true, List.mem_cons]
      constructor
      · rintro (h | h)
        · exact Or.inl h
        · exact Or.inr (Or.inr h)
      · rintro (h | rfl | h)
        · exact Or.inl h
        · exact Or.inl this
        · exact Or.inr h
    · simp only [hj, if_false, List.mem_append, List.mem_singleton, List.mem_cons, Bool.false_eq_true]
      tauto

theorem nodup_foldl_add_u2 (k acc : List Var) (h : acc.Nodup) : (k.foldl pyUSetAdd acc).Nodup := by
  induction k generalizing acc with
  | nil => exact h
  | cons j r ih =>
    rw [List.foldl_cons]
    apply ih
    unfold pyUSetAdd
    by_cases hj : acc.contains j = true
    · simp only [hj, if_true]; exact h
    · simp only [hj, if_false, Bool.false_eq_true]
      have : j ∉ acc := by simpa using hj
      exact List.nodup_append.mpr ⟨h, (by simp), fun a ha b hb hab => this (by
        have hb' : b = j := by simpa using hb
        rw [← hb', ← hab]; exact ha)⟩

theorem nodup_addVars_u2 (k vars : List Var) (h : vars.Nodup) : (addVars vars k).Nodup := by
  induction k generalizing vars with
  | nil => exact h
  | cons j r ih =>
    simp only [addVars]
    apply ih
    split_ifs with hj
    · exact h
    · exact List.nodup_cons.mpr ⟨hj, h⟩

theorem nodup_keysVars_u2 (p : Poly) (vars : List Var) (h : vars.Nodup) : (keysVars vars p).Nodup := by
  induction p generalizing vars with
  | nil => exact h
  | cons kv r ih => exact ih _ (nodup_addVars_u2 kv.1 vars h)

/-- `set(v for k in model for v in k)`, in whatever order it is iterated, lists the labels `keysVars` lists -/
theorem setIter_perm_keysVars_u2 (ord : PySetOrder) (p : Poly) (l : List Var)
    (hl : ∀ i, i ∈ l ↔ ∃ kv ∈ p, i ∈ kv.1) :
    (pySetIter ord (pySetOfList l)).Perm (keysVars [] p) := by
  refine (ord.perm _).trans ?_
  show (l.foldl pyUSetAdd []).Perm _
  rw [List.perm_ext_iff_of_nodup (nodup_foldl_add_u2 l [] List.nodup_nil) (nodup_keysVars_u2 p [] List.nodup_nil)]
  intro i
  rw [mem_foldl_add_u2, mem_keysVars, hl]

theorem mem_flatKeys_u2 (p : Poly) (i : Var) :
    i ∈ List.flatMap (fun (k : Key) => List.map (fun (v : Var) => v) k) (List.map Prod.fst p) ↔ ∃ kv ∈ p, i ∈ kv.1 := by
  simp only [List.mem_flatMap, List.mem_map, List.map_id', exists_exists_and_eq_and]

/-! ## the two generator expressions -/

theorem absNonconst_eq_u2 (p : Poly) :
    List.map (fun (it : Key × Rat) => pyAbs it.2) (List.filter (fun (it : Key × Rat) => decide (it.1 ≠ [])) p) = absNonconst p := by
  induction p with
  | nil => rfl
  | cons kv r ih =>
    obtain ⟨k, c⟩ := kv
    by_cases hk : k = []
    · simp only [absNonconst, hk, if_true, List.filter_cons, ne_eq, not_true_eq_false, decide_false, Bool.false_eq_true, if_false]
      simpa using ih
    · simp only [absNonconst, hk, if_false, List.filter_cons, ne_eq, not_false_eq_true, decide_true, if_true, List.map_cons]
      rw [← ih]; rfl

theorem absSum_foldl_u2 (v : Var) (p : Poly) (a : Rat) :
    List.foldl (fun (acc : Rat) (it : Key × Rat) => if (pyKeyInU2 it.1 v) = true then acc + pyAbs it.2 else acc) a p
      = a + absSum v p := by
  induction p generalizing a with
  | nil => simp [absSum]
  | cons kv r ih =>
    obtain ⟨k, c⟩ := kv
    rw [List.foldl_cons, ih]
    by_cases hv : v ∈ k
    · have : pyKeyInU2 k v = true := by simpa [pyKeyInU2] using hv
      simp only [this, if_true, absSum, hv, pyAbs, absR]; ring
    · have : ¬ (pyKeyInU2 k v = true) := by simpa [pyKeyInU2] using hv
      simp [this, absSum, hv]

/-! ## the temperatures -/

/-- the float a model temperature denotes, given the probability of its position: `0`, or `-dE / log(p)` -/
def tempOfU2 (p : Rat) : Temp → PyTempU2
  | .zero => .lit0
  | .ofDelta dE => .divLog (-dE) p

/-- `-dE / log(p) if p else 0.` for an admissible probability -/
theorem temp_expr_u2 (p dE : Rat) (h0 : 0 ≤ p) (h1 : p < 1) :
    ((if p ≠ 0 then (pyLogU2 p >>= fun l => pyDivLogU2 (-dE) l >>= fun t => (Except.ok t : Except Err PyTempU2))
      else (Except.ok PyTempU2.lit0 : Except Err PyTempU2)))
      = .ok (tempOfU2 p (if p = 0 then .zero else .ofDelta dE)) := by
  by_cases hp : p = 0
  · simp [hp, tempOfU2]
  · have h2 : ¬ p ≤ 0 := fun h => hp (le_antisymm h h0)
    have h3 : ¬ p = 1 := fun h => by rw [h] at h1; exact absurd h1 (by decide)
    simp only [ne_eq, hp, not_false_eq_true, if_true, if_false, pyLogU2, h2, ok_bind', pyDivLogU2, h3, tempOfU2]

/-- the same written `0. if not p else -dE / log(p)` -/
theorem temp_expr_flip_u2 (p dE : Rat) (h0 : 0 ≤ p) (h1 : p < 1) :
    ((if p = 0 then (Except.ok PyTempU2.lit0 : Except Err PyTempU2)
      else (pyLogU2 p >>= fun l => pyDivLogU2 (-dE) l >>= fun t => (Except.ok t : Except Err PyTempU2))))
      = .ok (tempOfU2 p (if p = 0 then .zero else .ofDelta dE)) := by
  have := temp_expr_u2 p dE h0 h1
  by_cases hp : p = 0
  · simp [hp, tempOfU2]
  · simpa [hp] using this

/-- what the generated function returns for the model's result -/
def resOfU2 (ps pe : Rat) (r : Temp × Temp) : PyTempU2 × PyTempU2 := (tempOfU2 ps r.1, tempOfU2 pe r.2)

/-- the statements after `if not spin: model = pubo_to_puso(model)`, for admissible probabilities -/
theorem core_u2 (ord : PySetOrder) (p : Poly) (ps pe : Rat) (hs0 : 0 ≤ ps) (hs1 : ps < 1) (he0 : 0 ≤ pe) (he1 : pe < 1)
    (vars : List Var) (hv : vars = pySetOfList (List.flatMap (fun (k : Key) => List.map (fun (v : Var) => v) k) (List.map Prod.fst p)))
    (body : Except Err (PyTempU2 × PyTempU2))
    (hb : ∀ m M, minList (absNonconst p) = some m →
        maxList ((pySetIter ord vars).map (fun v => absSum v p)) = some M →
        body = .ok (tempOfU2 ps (if ps = 0 then .zero else .ofDelta (2 * M)), tempOfU2 pe (if pe = 0 then .zero else .ofDelta (2 * m))))
    (hb1 : minList (absNonconst p) = none → body = .error .value)
    (hb2 : ∀ m, minList (absNonconst p) = some m → maxList ((pySetIter ord vars).map (fun v => absSum v p)) = none →
        body = .error .value) :
    (if vars = [] then (Except.ok (PyTempU2.lit0, PyTempU2.lit0) : Except Err _) else body)
      = (tempRangeCore p (keysVars [] p) ps pe).map (resOfU2 ps pe) := by
  have hperm := setIter_perm_keysVars_u2 ord p _ (mem_flatKeys_u2 p)
  rw [← hv] at hperm
  have hnil : vars = [] ↔ keysVars [] p = [] := by
    constructor
    · intro h; rw [h] at hperm
      have := hperm.length_eq
      have h0 : (pySetIter ord ([] : List Var)).length = 0 := by
        have := (ord.perm []).length_eq; simpa [pySetIter] using this
      exact List.eq_nil_of_length_eq_zero (by rw [← this, h0])
    · intro h; rw [h] at hperm
      have h1 := (ord.perm vars).length_eq
      have h2 := hperm.length_eq
      simp only [pySetIter] at h2
      exact List.eq_nil_of_length_eq_zero (by rw [← h1, h2]; rfl)
  have hmax : maxList ((pySetIter ord vars).map (fun v => absSum v p)) = maxList ((keysVars [] p).map (fun v => absSum v p)) :=
    maxList_perm_u2 (hperm.map _)
  unfold tempRangeCore
  by_cases hn : vars = []
  · rw [if_pos hn, if_pos (hnil.mp hn)]; rfl
  · rw [if_neg hn, if_neg (fun h => hn (hnil.mpr h))]
    cases hm : minList (absNonconst p) with
    | none => rw [hb1 hm]; rfl
    | some m =>
      cases hM : maxList ((keysVars [] p).map (fun v => absSum v p)) with
      | none => rw [hb2 m hm (hmax.trans hM)]; rfl
      | some M => rw [hb m M hm (hmax.trans hM)]; rfl

/-- **`anneal_temperature_range` = the model's `tempRangeFn`**, for every conversion function and every iteration order of
the set of variables -/
theorem anneal_temperature_range_u2_eq_model (model : Poly) (ps pe : Rat) (spin : Bool) (conv : Poly → Except Err Poly)
    (ord : PySetOrder) :
    anneal_temperature_range_u2 model ps pe spin conv ord = (tempRangeFn conv model ps pe spin).map (resOfU2 ps pe) := by
  unfold anneal_temperature_range_u2 tempRangeFn
  simp only [ge_iff_le, gt_iff_lt]
  by_cases h1 : ps < 0 ∨ 1 ≤ ps ∨ pe < 0 ∨ 1 ≤ pe
  · rw [if_pos h1, if_pos h1]; rfl
  rw [if_neg h1, if_neg h1]
  by_cases h2 : ps < pe
  · rw [if_pos h2, if_pos h2]; rfl
  rw [if_neg h2, if_neg h2]
  have hs0 : 0 ≤ ps := not_lt.mp (fun h => h1 (Or.inl h))
  have hs1 : ps < 1 := not_le.mp (fun h => h1 (Or.inr (Or.inl h)))
  have he0 : 0 ≤ pe := not_lt.mp (fun h => h1 (Or.inr (Or.inr (Or.inl h))))
  have he1 : pe < 1 := not_le.mp (fun h => h1 (Or.inr (Or.inr (Or.inr h))))
  -- the same statements follow the conversion in both branches of `if not spin`
  have hG : ∀ (G : Poly → Except Err (PyTempU2 × PyTempU2)),
      (∀ p, G p = (tempRangeCore p (keysVars [] p) ps pe).map (resOfU2 ps pe)) →
      (if spin = false then (conv model >>= fun m => G m) else G model) =
        ((if spin = true then (Except.ok model : Except Err Poly) else conv model) >>= fun p =>
          tempRangeCore p (keysVars [] p) ps pe).map (resOfU2 ps pe) := by
    intro G hG
    cases spin with
    | true => simp only [Bool.true_eq_false, if_false, if_true, ok_bind', hG]
    | false =>
      simp only [if_true, Bool.false_eq_true, if_false]
      cases conv model with
      | error e => rfl
      | ok p => simp only [ok_bind', hG]
  refine hG _ (fun p => ?_)
  -- the statements after the conversion, for any terms `p`
  exact core_u2 ord p ps pe hs0 hs1 he0 he1 _ rfl _
      (fun m M hm hM => by
        simp only [absNonconst_eq_u2, absSum_foldl_u2, Rat.zero_add, pyMin_eq_minList_u2, pyMax_eq_maxList_u2, hm, hM, ok_bind',
          temp_expr_u2 _ _ hs0 hs1, temp_expr_u2 _ _ he0 he1, temp_expr_flip_u2 _ _ hs0 hs1, temp_expr_flip_u2 _ _ he0 he1,
          Rat.mul_comm _ (2 : Rat)])
      (fun hm => by
        simp only [absNonconst_eq_u2, absSum_foldl_u2, Rat.zero_add, pyMin_eq_minList_u2, pyMax_eq_maxList_u2, hm, error_bind']
        first | done | (split <;> rfl))
      (fun m hm hM => by
        simp only [absNonconst_eq_u2, absSum_foldl_u2, Rat.zero_add, pyMin_eq_minList_u2, pyMax_eq_maxList_u2, hm, hM, ok_bind',
          error_bind'])

/-! ## the chain to `Qv.tempRange` -/

private theorem map_bind_u2 {α β : Type} (a : Except Err α) (f : α → β) (g : β → Except Err (Temp × Temp)) :
    (a.map f >>= g) = (a >>= fun x => g (f x)) := by
  cases a <;> rfl

/-- `tempRange` on a plain dict is `tempRangeFn` on its items with the model's `pubo_to_puso` -/
theorem tempRange_raw_u2 (d : Poly) (ps pe : Rat) (spin : Bool) :
    tempRange (.raw d) ps pe spin = tempRangeFn puboToPusoItems d ps pe spin := by
  unfold tempRange tempRangeFn
  by_cases h1 : ps < 0 ∨ 1 ≤ ps ∨ pe < 0 ∨ 1 ≤ pe
  · rw [if_pos h1, if_pos h1]
  rw [if_neg h1, if_neg h1]
  by_cases h2 : ps < pe
  · rw [if_pos h2, if_pos h2]
  rw [if_neg h2, if_neg h2]
  cases spin with
  | true => rfl
  | false =>
    simp only [readModel, puboToPusoItems, Bool.false_eq_true, if_false]
    cases puboToPusoV d <;> rfl

/-- `tempRange` on a model object (built by its constructor and any item-edit history) is `tempRangeFn` on the object's
current items -/
theorem tempRange_obj_u2 (κ : Kind) (d : Poly) (es : List Edit) (s : MState) (hb : buildObj κ d es = .ok s) (ps pe : Rat)
    (spin : Bool) :
    tempRange (.obj κ d es) ps pe spin = tempRangeFn puboToPusoItems s.p ps pe spin := by
  unfold tempRange tempRangeFn
  by_cases h1 : ps < 0 ∨ 1 ≤ ps ∨ pe < 0 ∨ 1 ≤ pe
  · rw [if_pos h1, if_pos h1]
  rw [if_neg h1, if_neg h1]
  by_cases h2 : ps < pe
  · rw [if_pos h2, if_pos h2]
  rw [if_neg h2, if_neg h2]
  cases spin with
  | true => simp only [readModel, hb]; rfl
  | false =>
    simp only [readModel, hb, puboToPusoItems, Bool.false_eq_true, if_false, ok_bind']
    cases puboToPusoV s.p <;> rfl

/-! ## non-vacuity -/

example : anneal_temperature_range_u2 [([0, 1], 2), ([1], -1), ([], 5)] (1/2) (1/100) true puboToPusoItems ⟨id, fun _ => List.Perm.refl _⟩
    = .ok (.divLog (-6) (1/2), .divLog (-2) (1/100)) := by decide +kernel

example : anneal_temperature_range_u2 [([0], 1), ([0, 1], -2)] (1/2) 0 false puboToPusoItems ⟨List.reverse, fun s => List.reverse_perm s⟩
    = .ok (.divLog (-2) (1/2), .lit0) := by decide +kernel

example : anneal_temperature_range_u2 [([], 5)] (1/2) (1/100) false puboToPusoItems ⟨id, fun _ => List.Perm.refl _⟩
    = .ok (.lit0, .lit0) := by decide +kernel

example : anneal_temperature_range_u2 [([0], 1)] 1 (1/100) true puboToPusoItems ⟨id, fun _ => List.Perm.refl _⟩
    = .error .value := by decide +kernel

end Qv.Gen
