import Qv.Gen.SourceConv3Mat
import Qv.Model.Convert3
import Qv.Proofs.GenEq.Conv2Free
import Qv.Proofs.GenEq.PyList
/-!
# GenEq.Conv3Mat — `matrix_to_qubo` and `qubo_to_matrix` generated from `qubovert/utils/_qubomatrix.py` equal the
model's `matrixToQubo` (`m2qRows` / `m2qRow`) and `quboToMatrix` (`quboToMatrixFn` / `fillMatrix` / `tabulate`) (C04)

* `matrix_to_qubo`: `np.array` of a list of lists, the two shape tests (`ValueError` unless two-dimensional and square),
  the fresh `QUBOMatrix`, and the double `range` loop in which EVERY entry `matrix[i][j]` is added to `Q[(i, j)]` on its
  own (`cv3_forM_row` / `cv3_forM_rows`: a `range` loop with checked reads is the model's structural recursion on rows).
* `qubo_to_matrix`: emptiness test, `QUBOMatrix(Q)` for a plain dict, the offset test, `max_index + 1`, the fill loop
  (diagonal / symmetric halves / upper-triangular), `tolist()` or the array.
-/
set_option linter.unusedTactic false
set_option linter.unreachableTactic false
set_option linter.unusedSimpArgs false
set_option linter.unnecessarySeqFocus false
namespace Qv.Gen

theorem cv3_range_cast (n : Nat) : pyRangeNat (Nat.cast n : Int) = List.range' 0 n := by
  simp [pyRangeNat, List.range_eq_range']

theorem cv3_rowItem_of_drop (row rest : List Rat) (a : Rat) (j : Nat) (h : row.drop j = a :: rest) :
    cv3RowItem row j = .ok a := by
  have h1 : row[j]? = some a := by
    have := congrArg (fun l => l[0]?) h
    simpa using this
  simp only [cv3RowItem, h1]

theorem cv3_drop_succ {α : Type} (l rest : List α) (a : α) (j : Nat) (h : l.drop j = a :: rest) : l.drop (j + 1) = rest := by
  have : l.drop (j + 1) = (l.drop j).drop 1 := by rw [List.drop_drop]
  rw [this, h]; rfl

theorem cv3_getElem_of_drop {α : Type} (l rest : List α) (a : α) (j : Nat) (h : l.drop j = a :: rest) : l[j]? = some a := by
  have := congrArg (fun l => l[0]?) h
  simpa using this

/-- the inner loop `for j in range(c): Q[(i, j)] += row[j]` (checked reads) is the model's `m2qRow` on that row -/
theorem cv3_forM_row (κ : Kind) (i : Nat) (row : List Rat) (body : ConvObj → Nat → Except Err ConvObj)
    (hbody : ∀ (Q : Poly) (j : Nat), body ⟨κ, Q⟩ j =
      (cv3RowItem row j >>= fun e => asObj κ (addTerm (squash κ) Q [i, j] e))) :
    ∀ (rest : List Rat) (j0 : Nat) (Q : Poly), row.drop j0 = rest →
      pyForM (List.range' j0 rest.length) ⟨κ, Q⟩ body = asObj κ (m2qRow (squash κ) Q i rest j0) := by
  intro rest
  induction rest with
  | nil => intro j0 Q _; rfl
  | cons a r ih =>
    intro j0 Q h
    simp only [List.length_cons, List.range'_succ, pyForM, hbody, cv3_rowItem_of_drop row r a j0 h, ok_bind', m2qRow]
    cases addTerm (squash κ) Q [i, j0] a with
    | error e => rfl
    | ok Q' =>
      simp only [asObj_ok, ok_bind']
      exact ih (j0 + 1) Q' (cv3_drop_succ row r a j0 h)

/-- the outer loop over the row indices is the model's `m2qRows` -/
theorem cv3_forM_rows (κ : Kind) (rows : List (List Rat)) (body : ConvObj → Nat → Except Err ConvObj)
    (hbody : ∀ (Q : Poly) (i : Nat) (row : List Rat), rows[i]? = some row →
      body ⟨κ, Q⟩ i = asObj κ (m2qRow (squash κ) Q i row 0)) :
    ∀ (rest : List (List Rat)) (i0 : Nat) (Q : Poly), rows.drop i0 = rest →
      pyForM (List.range' i0 rest.length) ⟨κ, Q⟩ body = asObj κ (m2qRows (squash κ) Q rest i0) := by
  intro rest
  induction rest with
  | nil => intro i0 Q _; rfl
  | cons row r ih =>
    intro i0 Q h
    simp only [List.length_cons, List.range'_succ, pyForM, hbody Q i0 row (cv3_getElem_of_drop rows r row i0 h), m2qRows]
    cases m2qRow (squash κ) Q i0 row 0 with
    | error e => rfl
    | ok Q' =>
      simp only [asObj_ok, ok_bind']
      exact ih (i0 + 1) Q' (cv3_drop_succ rows r row i0 h)

/-- `matrix_to_qubo(a)` for a 2-d numpy array `a` given by its rows (`c` = their common length): `ValueError` unless
square, otherwise a `QUBOMatrix` whose terms are the model's `m2qRows` — every entry `a[i][j]` is added to
`Q[(i, j)]` separately, row by row, column by column -/
theorem cv3_matrix_to_qubo_nd (rows : List (List Rat)) (c : Nat) (hc : ∀ r ∈ rows, r.length = c) :
    cv3_matrix_to_qubo (.nd ⟨[rows.length, c], rows⟩) =
      (if rows.length ≠ c then .error .value else asObj .qubom (m2qRows (squash .qubom) [] rows 0)) := by
  unfold cv3_matrix_to_qubo
  simp only [cv3NdShape, List.length_cons, List.length_nil, pyIndex_zero_cons, pyIndex_one_cons, ok_bind', bind_ok_self,
    pyNewObj, cv3_range_cast, ne_eq, Nat.zero_add, Nat.reduceAdd, not_true_eq_false, if_false]
  by_cases hn : rows.length = c
  · subst hn
    simp only [not_true_eq_false, if_false]
    refine cv3_forM_rows .qubom rows _ ?_ rows 0 [] rfl
    intro Q i row hrow
    have hlen : row.length = rows.length := hc row (List.mem_of_getElem? hrow)
    have hr : ∀ sh, cv3NdRow ⟨sh, rows⟩ i = .ok row := by intro sh; simp only [cv3NdRow, hrow]
    have key := cv3_forM_row .qubom i row
    try simp only [hr, ok_bind', bind_ok_self]
    rw [← hlen]
    refine key _ ?_ row 0 Q rfl
    intro Q' j
    try simp only [hr, ok_bind', pyItemIAdd_eq, bind_ok_self]
    all_goals first | rfl | (cases cv3RowItem row j <;> rfl) | simp [asObj, bind_assoc', ok_bind']
  · simp only [hn, not_false_eq_true, if_true]

/-- an array that is not two-dimensional is rejected -/
theorem cv3_matrix_to_qubo_not_2d (a : Cv3Nd) (h : a.shape.length ≠ 2) : cv3_matrix_to_qubo (.nd a) = .error .value := by
  unfold cv3_matrix_to_qubo
  simp only [cv3NdShape, ne_eq, h, not_false_eq_true, if_true]

/-- on a list of lists the function first makes an array of it (`np.array`), then does the same -/
theorem cv3_matrix_to_qubo_seq (A : List (List Rat)) :
    cv3_matrix_to_qubo (.seq A) = (cv3NpArray A >>= fun a => cv3_matrix_to_qubo (.nd a)) := by
  unfold cv3_matrix_to_qubo
  first | (dsimp only; done) | (dsimp only; cases cv3NpArray A <;> rfl)

theorem cv3_any_ne_of_all_eq (rows : List (List Rat)) (c n : Nat) (hc : ∀ r ∈ rows, r.length = c) (hne : rows ≠ []) :
    rows.any (fun row => row.length != n) = decide (c ≠ n) := by
  induction rows with
  | nil => exact absurd rfl hne
  | cons r rs ih =>
    have hr : r.length = c := hc r (List.mem_cons_self ..)
    by_cases hrs : rs = []
    · subst hrs; by_cases h : c = n <;> simp [hr, h]
    · have := ih (fun r' hr' => hc r' (List.mem_cons_of_mem _ hr')) hrs
      by_cases h : c = n <;> simp [List.any_cons, this, hr, h]

/-- the model on a non-empty matrix whose rows have the common length `c` -/
theorem cv3_matrixToQubo_rect (A : List (List Rat)) (c : Nat) (hne : A ≠ []) (hc : ∀ r ∈ A, r.length = c) :
    matrixToQubo A = (if A.length ≠ c then .error .value else m2qRows (squash .qubom) [] A 0) := by
  unfold matrixToQubo
  rw [cv3_any_ne_of_all_eq A c A.length hc hne]
  have he : A.isEmpty = false := by cases A with | nil => exact absurd rfl hne | cons _ _ => rfl
  by_cases hsq : A.length = c
  · simp [he, hsq]
  · have hsq' : ¬ c = A.length := fun h => hsq h.symm
    simp [he, hsq, hsq']

theorem cv3_ite_asObj (p : Prop) [Decidable p] (κ : Kind) (e : Err) (x : Except Err Poly) :
    (if p then (.error e : Except Err ConvObj) else asObj κ x) = asObj κ (if p then .error e else x) := by
  split <;> rfl

/-- the same for a 2-d array given by its (at least one) rows of common length `c` -/
theorem cv3_matrix_to_qubo_array (A : List (List Rat)) (c : Nat) (hne : A ≠ []) (hc : ∀ r ∈ A, r.length = c) :
    cv3_matrix_to_qubo (.nd ⟨[A.length, c], A⟩) = asObj .qubom (matrixToQubo A) := by
  rw [cv3_matrix_to_qubo_nd A c hc, cv3_matrixToQubo_rect A c hne hc, cv3_ite_asObj]

/-- `matrix_to_qubo(A)` for a list of lists of numbers `A`: the model's `matrixToQubo` (a `QUBOMatrix`; `ValueError`
for `[]`, rows of different lengths, or a non-square matrix) -/
theorem cv3_matrix_to_qubo_eq_model (A : List (List Rat)) :
    cv3_matrix_to_qubo (.seq A) = asObj .qubom (matrixToQubo A) := by
  rw [cv3_matrix_to_qubo_seq]
  cases A with
  | nil =>
    simp only [cv3NpArray, ok_bind']
    rw [cv3_matrix_to_qubo_not_2d _ (by decide)]
    rfl
  | cons r rs =>
    simp only [cv3NpArray]
    by_cases hall : rs.all (fun r' => r'.length == r.length) = true
    · simp only [hall, if_true, ok_bind']
      have hc : ∀ r' ∈ r :: rs, r'.length = r.length := by
        intro r' hr'
        rcases List.mem_cons.mp hr' with h | h
        · rw [h]
        · have := List.all_eq_true.mp hall r' h
          simpa using this
      exact cv3_matrix_to_qubo_array (r :: rs) r.length (by simp) hc
    · simp only [hall, if_false, Bool.false_eq_true, error_bind']
      have hany : (r :: rs).any (fun row => row.length != (r :: rs).length) = true := by
        by_cases hr : r.length = (r :: rs).length
        · simp only [Bool.not_eq_true, List.all_eq_false] at hall
          obtain ⟨r', hr', hne⟩ := hall
          apply List.any_eq_true.mpr
          refine ⟨r', List.mem_cons_of_mem _ hr', ?_⟩
          rw [← hr]
          simpa using hne
        · apply List.any_eq_true.mpr
          exact ⟨r, List.mem_cons_self .., by simpa using hr⟩
      unfold matrixToQubo
      simp only [hany, List.isEmpty_cons, Bool.or_true, if_true]
      rfl

/-! ## `qubo_to_matrix` -/

theorem cv3_fillMatrix_cons (sym : Bool) (acc : Poly) (k : Key) (v : Rat) (r : Poly) :
    fillMatrix sym acc ((k, v) :: r) = (fillStep sym acc k v >>= fun acc' => fillMatrix sym acc' r) := by
  rcases k with _ | ⟨i, _ | ⟨j, _ | ⟨l, t⟩⟩⟩ <;> simp only [fillMatrix, fillStep] <;> first | rfl | (cases sym <;> rfl)

/-- the fill loop `for k, v in Q.items(): …` on the array is the model's `fillMatrix` -/
theorem cv3_forM_fill (sym : Bool) (n : Nat) (body : Cv3Zeros → Key × Rat → Except Err Cv3Zeros)
    (hbody : ∀ (acc : Poly) (kv : Key × Rat), body ⟨n, acc⟩ kv = (fillStep sym acc kv.1 kv.2 >>= fun e => .ok ⟨n, e⟩)) :
    ∀ (items acc : Poly), pyForM items ⟨n, acc⟩ body = (fillMatrix sym acc items >>= fun e => .ok ⟨n, e⟩) := by
  intro items
  induction items with
  | nil => intro acc; rfl
  | cons kv r ih =>
    intro acc
    obtain ⟨k, v⟩ := kv
    simp only [pyForM, hbody, cv3_fillMatrix_cons]
    cases fillStep sym acc k v with
    | error e => rfl
    | ok acc' => simp only [ok_bind']; exact ih acc'

/-- how `qubo_to_matrix` packages its result: the array itself, or `matrix.tolist()` (the model's `tabulate`) -/
def cv3Res (array : Bool) (ne : Nat × Poly) : Cv3MatRes :=
  if array then .array ⟨ne.1, ne.2⟩ else .list (tabulate ne.1 (fun i j => get ne.2 [i, j]))

theorem cv3_toList_eq (n : Nat) (e : Poly) : cv3ToList ⟨n, e⟩ = tabulate n (fun i j => get e [i, j]) := rfl

/-- the part of `qubo_to_matrix` after `Q` has become a `QUBOMatrix`, as a function of the object state -/
def cv3Q2mRest (Q : Cv3Q) (symmetric array : Bool) : Except Err Cv3MatRes :=
  quboToMatrixObj Q.items Q.maxIndex symmetric >>= fun ne => .ok (cv3Res array ne)

theorem cv3_rest_eq (Q : Cv3Q) (sym arr : Bool) (body : Cv3Zeros → Key × Rat → Except Err Cv3Zeros)
    (hbody : ∀ (n : Nat) (acc : Poly) (kv : Key × Rat),
      body ⟨n, acc⟩ kv = (fillStep sym acc kv.1 kv.2 >>= fun e => .ok ⟨n, e⟩))
    (fin : Cv3Zeros → Except Err Cv3MatRes) (hfin : ∀ n e, fin ⟨n, e⟩ = .ok (cv3Res arr (n, e))) :
    (cv3QGet Q [] >>= fun m => if m ≠ (0 : Rat) then (.error .value : Except Err Cv3MatRes) else
      (cv3OptNatAdd (cv3QMaxIndex Q) (1 : Int) >>= fun n => cv3NpZerosSq n >>= fun matrix =>
        pyForM (cv3QItems Q) matrix body >>= fin)) = cv3Q2mRest Q sym arr := by
  have hsq : squash .qubom [] = .ok [] := by decide
  simp only [cv3QGet, hsq, ok_bind', cv3Q2mRest, quboToMatrixObj, cv3QMaxIndex, cv3QItems]
  by_cases h0 : get Q.items [] = 0
  · simp only [h0, ne_eq, not_true_eq_false, if_false]
    cases Q.maxIndex with
    | none => rfl
    | some m =>
      have hz : cv3NpZerosSq ((m : Int) + 1) = .ok ⟨m + 1, []⟩ := by
        have h1 : ¬ ((m : Int) + 1 < 0) := by omega
        have h2 : ((m : Int) + 1).toNat = m + 1 := by omega
        simp only [cv3NpZerosSq, h1, if_false, h2]
      simp only [cv3OptNatAdd, ok_bind', hz, cv3_forM_fill sym (m + 1) body (hbody (m + 1)), bind_assoc']
      cases fillMatrix sym [] Q.items with
      | error e => rfl
      | ok e => simp only [ok_bind', hfin]
  · simp only [h0, ne_eq, not_false_eq_true, if_true]
    rfl

/-- finishing tactic for the body of the fill loop -/
macro "cv3_fill_body" : tactic =>
  `(tactic| (
    intro n acc kv
    obtain ⟨k, v⟩ := kv
    rcases k with _ | ⟨i, _ | ⟨j, _ | ⟨l, t⟩⟩⟩ <;>
      first
      | (simp only [fillStep, cv3ZerosSet, pyGet, List.length_cons, List.length_nil, List.getD_cons_zero, ok_bind', error_bind',
          Nat.zero_add, Nat.reduceAdd, Nat.reduceEqDiff, OfNat.ofNat_ne_one, if_true, if_false, Nat.add_eq_right,
          Nat.add_eq_zero_iff, one_ne_zero, and_false, zero_ne_one] <;>
          (first | rfl | (cases ‹Bool› <;> rfl) | (split <;> rfl)))
      | (simp [fillStep, cv3ZerosSet, pyGet, ok_bind', error_bind'] <;>
          (first | rfl | (cases ‹Bool› <;> rfl) | (split <;> first | rfl | simp_all)))))

/-- `qubo_to_matrix(Q, symmetric, array)` for every object state `Q` (a plain dict, or a `QUBOMatrix` given by its
terms and `max_index`): `ValueError` on an empty `Q`; a plain dict is first made a `QUBOMatrix` (`cv3NewQUBOMatrix` =
the model's `constructVars`); then the model's `quboToMatrixObj` and the packaging `cv3Res` -/
theorem cv3_qubo_to_matrix_eq_model (Q : Cv3Q) (symmetric array : Bool) :
    cv3_qubo_to_matrix Q symmetric array =
      (if Q.items.isEmpty then .error .value
       else (if Q.isQM then .ok Q else cv3NewQUBOMatrix Q) >>= fun Q' => cv3Q2mRest Q' symmetric array) := by
  unfold cv3_qubo_to_matrix
  simp only [cv3QEmpty, cv3QIsQM]
  by_cases he : Q.items.isEmpty = true
  · simp only [he, if_true]
  · simp only [he, if_false, Bool.false_eq_true]
    cases hq : Q.isQM
    · simp only [Bool.false_eq_true, if_false, if_true]
      apply bind_congr'
      intro Q' _
      try dsimp only
      refine cv3_rest_eq Q' symmetric array _ ?_ _ ?_
      · cv3_fill_body
      · intro n e; cases array <;> rfl
    · simp only [Bool.true_eq_false, if_false, if_true, ok_bind']
      try dsimp only
      refine cv3_rest_eq Q symmetric array _ ?_ _ ?_
      · cv3_fill_body
      · intro n e; cases array <;> rfl

/-- a plain dict `p`: the model's `quboToMatrixFn p false` -/
theorem cv3_qubo_to_matrix_dict (p : Poly) (mx : Option Nat) (symmetric array : Bool) :
    cv3_qubo_to_matrix ⟨false, p, mx⟩ symmetric array =
      (quboToMatrixFn p false symmetric >>= fun ne => .ok (cv3Res array ne)) := by
  rw [cv3_qubo_to_matrix_eq_model]
  simp only [quboToMatrixFn, Bool.not_false, Bool.true_and, Bool.false_and, Bool.false_eq_true, if_false, cv3NewQUBOMatrix]
  by_cases he : p.isEmpty = true
  · simp only [he, if_true] <;> rfl
  · simp only [he, if_false, Bool.false_eq_true, bind_assoc']
    apply bind_congr'
    intro tv _
    obtain ⟨t, vars⟩ := tv
    simp only [ok_bind', cv3Q2mRest, quboToMatrixObj]
    by_cases h0 : get t [] = 0
    · simp only [h0, ne_eq, not_true_eq_false, if_false]
      cases maxIndex vars with
      | none => rfl
      | some m => first | rfl | (cases fillMatrix symmetric [] t <;> rfl) | (simp only [bind_assoc']; cases fillMatrix symmetric [] t <;> rfl)
    · simp only [h0, ne_eq, not_false_eq_true, if_true] <;> rfl

/-- the object `QUBOMatrix(p)`: the model's `quboToMatrixFn p true` -/
theorem cv3_qubo_to_matrix_obj (p : Poly) (mx : Option Nat) (symmetric array : Bool) :
    (cv3NewQUBOMatrix ⟨false, p, mx⟩ >>= fun o => cv3_qubo_to_matrix o symmetric array) =
      (quboToMatrixFn p true symmetric >>= fun ne => .ok (cv3Res array ne)) := by
  simp only [quboToMatrixFn, Bool.not_true, Bool.false_and, Bool.true_and, Bool.false_eq_true, if_false, cv3NewQUBOMatrix,
    bind_assoc']
  apply bind_congr'
  intro tv _
  obtain ⟨t, vars⟩ := tv
  simp only [ok_bind', cv3_qubo_to_matrix_eq_model, if_true]
  by_cases he : t.isEmpty = true
  · simp only [he, if_true] <;> rfl
  · simp only [he, if_false, Bool.false_eq_true, ok_bind', cv3Q2mRest, quboToMatrixObj]
    by_cases h0 : get t [] = 0
    · simp only [h0, ne_eq, not_true_eq_false, if_false]
      cases maxIndex vars with
      | none => rfl
      | some m => first | rfl | (cases fillMatrix symmetric [] t <;> rfl) | (simp only [bind_assoc']; cases fillMatrix symmetric [] t <;> rfl)
    · simp only [h0, ne_eq, not_false_eq_true, if_true] <;> rfl

/-- with `array=False` the result is the model's `quboToMatrix` (a list of lists) -/
theorem cv3_qubo_to_matrix_list (p : Poly) (mx : Option Nat) (symmetric : Bool) :
    cv3_qubo_to_matrix ⟨false, p, mx⟩ symmetric false = (quboToMatrix p false symmetric >>= fun A => .ok (.list A)) := by
  rw [cv3_qubo_to_matrix_dict]
  simp only [quboToMatrix, bind_assoc']
  apply bind_congr'
  intro ne _
  rfl

example : cv3_matrix_to_qubo (.seq [[1, 2], [3, 4]]) = .ok ⟨.qubom, [([0], 1), ([0, 1], 5), ([1], 4)]⟩ := by decide +kernel
example : cv3_matrix_to_qubo (.seq [[1, 2], [3]]) = .error .value := by decide +kernel
example : cv3_matrix_to_qubo (.seq [[1, 2, 3], [3, 4, 5]]) = .error .value := by decide +kernel
example : cv3_qubo_to_matrix ⟨false, [([1, 0], 3), ([1, 1], 2)], none⟩ true false = .ok (.list [[0, 3/2], [3/2, 2]]) := by
  decide +kernel
example : cv3_qubo_to_matrix ⟨false, [([1, 0], 3), ([], 2)], none⟩ false false = .error .value := by decide +kernel

end Qv.Gen
