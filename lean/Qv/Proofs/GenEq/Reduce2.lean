import Qv.Proofs.GenEq.Reduce2Count
import Qv.Proofs.GenEq.Reduce2Whole
/-!
# GenEq.Reduce2 — `PUBO._reduce_degree` as a whole, generated from the source (`Qv/Gen/SourceReduce2.lean`), against the
model `Qv.Reduce.reduceDegreeC` (C01, C08, C14, C16).  Continues `GenEq.Reduce` (the parts of the `while` loop).

| part of the source | generated | theorem | model |
|---|---|---|---|
| `deg` checks, `lam` wrapping | `rd2_prologue` | `rd2_prologue_eq_model`, `rd2_prologue_wraps_constant` (Reduce2Whole) | `reduceDegreeC`'s match on `deg`, `Lam.app` |
| `pairs = {…}` | `rd2_pairs` | `rd2_pairs_eq_model` (Reduce2Whole) | `pairs.map (mapPair m)` |
| pair counts of one key | `rd2_freq` | `rd2_freq_eq_model` (Reduce2Count) | `(pairsOf key).foldl freqInc` |
| body of `for k, v in self.items()` | `rd2_count` | `rd2_count_eq_model` (Reduce2Count) | one step of `mapSelf` |
| whole function | `rd2_whole` | `rd2_whole_eq_model`, `rd2_whole_eq_reduceDegree` (Reduce2Whole) | `reduceDegreeC`, `reduceDegree` |
-/
