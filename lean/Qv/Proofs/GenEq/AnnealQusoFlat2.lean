import Qv.Proofs.GenEq.AnnealQusoFlat
/-!
# GenEq.AnnealQusoFlat2 — `anneal_quso_flatten_eq_model`
-/
set_option linter.unusedTactic false
set_option linter.unreachableTactic false
set_option linter.unusedSimpArgs false
namespace Qv.Gen
open Qv.Gen.Ann
open Qv Qv.Anneal Qv.Kernel

section
variable {α : Type} (toNum : Rat → α)

theorem ann_incr_len_k {γ : Type} (adj : List (List (Nat × Rat))) (i : Nat) (p : Nat × Rat) (c : List Nat → Except Err γ) :
    (pyListGet (rowsLen adj) i >>= fun a => (pyListSet (rowsLen adj) i (a + 1) >>= c)) =
      if i < adj.length then c (rowsLen (addPair adj i p)) else .error .index := by
  rw [← bind_assoc', incr_len adj i p]
  by_cases h : i < adj.length <;> simp [h] <;> rfl

theorem ann_if_bind {γ δ : Type} (c : Prop) [Decidable c] (a : γ) (e : Err) (f : γ → Except Err δ) :
    ((if c then (Except.ok a : Except Err γ) else Except.error e) >>= f) = if c then f a else Except.error e := by
  by_cases h : c <;> simp [h] <;> rfl

/-- `flatten`: `h[i]` holds `float` of the linear coefficient of spin `i` (0.0 if none); every coupling `(i, j): v` is
stored in both adjacency rows (`neighbors[i] ∋ j`, `neighbors[j] ∋ i`, `J` alike, in lock step), `num_neighbors[i]` is the
length of row `i`, and `neighbors`, `J` are the rows concatenated in spin order — so the prefix sums of `num_neighbors`
index `neighbors`/`J`, and every neighbour index is a label `< N` (an index `>= N` raises `IndexError` in Python before
anything reaches C) -/
theorem anneal_quso_flatten_eq_model (N : Nat) (model : Poly) :
    anneal_quso_flatten toNum N model = srcFlattenQuso toNum N model := by
  unfold anneal_quso_flatten srcFlattenQuso
  rw [flattenQuso_eq]
  simp only [pyRepeat_one, pyRangeNat_nat, map_const_range, pyForM_eq_foldlM]
  have hinit4 : ((List.replicate N (toNum 0), List.replicate N ([] : List Nat), List.replicate N (0 : Nat),
      List.replicate N ([] : List α)) : List α × List (List Nat) × List Nat × List (List α)) =
      abs4 toNum (List.replicate N (0 : Rat), List.replicate N ([] : List (Nat × Rat))) := by
    simp [abs4, rowsNb, rowsLen, rowsJ]
  have hinit3 : ((List.replicate N (toNum 0), List.replicate N ([] : List Nat), List.replicate N ([] : List α)) :
      List α × List (List Nat) × List (List α)) =
      abs3 toNum (List.replicate N (0 : Rat), List.replicate N ([] : List (Nat × Rat))) := by
    simp [abs3, rowsNb, rowsJ]
  -- the source keeps a counter per row inside the loop (abs4), or derives the counts from the rows afterwards (abs3)
  first
    | rw [hinit4, foldlM_sim (abs4 toNum) (MInv N) _ (qstep N) _ (qstep_MInv N) model _ ⟨by simp, by simp⟩]
    | rw [hinit3, foldlM_sim (abs3 toNum) (MInv N) _ (qstep N) _ (qstep_MInv N) model _ ⟨by simp, by simp⟩]
  · cases List.foldlM (qstep N) (List.replicate N (0 : Rat), List.replicate N ([] : List (Nat × Rat))) model with
    | error e => rfl
    | ok t =>
      obtain ⟨hR, adj⟩ := t
      simp [abs4, abs3, qusoArgs, flatten_rowsNb, flatten_rowsJ, rowsLen, rowsNb, ok_bind', pure, Except.pure]
  · intro t kv ht
    obtain ⟨hR, adj⟩ := t
    obtain ⟨k, v⟩ := kv
    obtain ⟨h1, h2⟩ := ht
    simp only at h1 h2
    match k with
    | [] => simp [abs4, abs3, qstep]; rfl
    | [a] =>
      simp only [abs4, abs3, List.length_singleton, if_true, pyGet, List.getD_cons_zero, set_h, h1, qstep]
      by_cases ha : a < N <;> simp [ha, ok_bind', error_bind', List.map_set] <;> first | rfl | simp_all | grind
    | [i, j] =>
      rw [qstep_pair]
      by_cases hi : i < N <;> by_cases hj : j < N <;>
        simp [abs4, abs3, appendAt_fst _ _ _ v, appendAt_snd toNum _ i j v, appendAt_snd toNum _ j i v,
          ann_incr_len_k _ i (j, v), ann_incr_len_k _ j (i, v), ann_if_bind, addPair_length, h2, hi, hj, ok_bind', error_bind'] <;>
        first | rfl | simp_all | grind
    | a :: b :: c :: r =>
      have e1 : ¬ ((a :: b :: c :: r).length = 1) := by simp
      have e2 : ¬ ((a :: b :: c :: r).length = 2) := by simp
      simp only [abs4, abs3, e1, e2, if_false, qstep]
      rfl

end
end Qv.Gen
