import Qv.Gen.SourceAnneal
import Qv.Proofs.GenEq.AnnealLib
import Qv.Proofs.GenEq.AnnealSched
import Qv.Proofs.GenEq.AnnealPackage
import Qv.Proofs.AnnealSrc
import Qv.Proofs.GenEq.AnnealQusoFlat2
/-!
# GenEq.AnnealQuso — the segments generated from `anneal_quso` (`qubovert/sim/_anneal.py`) equal the model
(`Qv/Model/AnnealFront.lean` through `Qv/Model/AnnealSrc.lean`): entry, type dispatch, `N == 0` guard and placement of
the initial state (C11, C12, C17)
-/
set_option linter.unusedTactic false
set_option linter.unreachableTactic false
set_option linter.unusedSimpArgs false
namespace Qv.Gen
open Qv.Gen.Ann
open Qv Qv.Anneal

/-- `entry`: `num_anneals <= 0` returns no results before anything else is looked at; otherwise the schedule is
created (and validated) first -/
theorem anneal_quso_entry_eq_model {α : Type} (numAnneals : Int) (s : Schedule α) :
    anneal_quso_entry numAnneals s = srcEntry numAnneals s := by
  unfold anneal_quso_entry srcEntry
  rw [create_spin_schedule_eq_model]
  by_cases h : numAnneals ≤ 0
  · simp [h]
  · simp only [h, if_false]
    cases createSchedule s <;> rfl

/-- `dispatch`: which inputs are Matrix inputs (state over `0..max_index`, `PUSOMatrix` first rebuilt as `QUSOMatrix`),
which are relabelled through `QUSO(L).to_quso()`, and `N`, `model`, `reverse_mapping` in each case; no path leaves
`N` unassigned -/
theorem anneal_quso_dispatch_eq_model (L : Obj) : anneal_quso_dispatch L = dispatchQuso L := by
  unfold anneal_quso_dispatch dispatchQuso dispatchQusoCore
  simp only [pyTypeIn_true, pyTypeIn_false, List.mem_cons, List.mem_singleton, List.not_mem_nil, or_false, not_or,
    pyRangeNat_nat, pyMaxIndex, pyNumBinaryVariables, pyReverseMapping, pyItems, pyToQuso]
  by_cases h1 : L.kind = Kind.pusom
  · simp only [h1, if_true]
    apply pyConstruct_bind
    intro M hM
    simp [hM, dispatchQusoCore] <;> first | rfl | (cases M.maxIndex <;> rfl) | simp_all | grind
  · by_cases h2 : L.kind = Kind.qusom
    · simp [h1, h2] <;> first | rfl | (cases L.maxIndex <;> rfl) | simp_all | grind
    · by_cases h3 : L.kind = Kind.quso
      · simp [h1, h2, h3] <;> first | rfl | (cases toQuso L <;> rfl) | simp_all | grind
      · simp only [h1, h2, h3, if_false, if_true, not_false_eq_true, bind_pure_comp, pure_bind]
        first
          | (apply pyConstruct_bind
             intro M hM
             simp [hM] <;> first | rfl | (cases toQuso M <;> rfl) | simp_all | grind)
          | (simp [pyConstruct]; cases Obj.build Kind.quso L.terms <;> first | rfl | simp_all | grind)

/-- `state`: with `N == 0` the function returns `num_anneals` empty results valued at the offset before anything is
handed to C; otherwise the initial state is `[]` (none given) or one entry per integer label, looked up through
`reverse_mapping` (`KeyError` for a missing label, `IndexError` for an index `>= N`) -/
theorem anneal_quso_state_eq_model (N : Nat) (model : Poly) (rev : List Var) (numAnneals : Int)
    (init : Option (List (Var × Int))) :
    anneal_quso_state N model rev numAnneals init = srcState N model rev numAnneals init := by
  unfold anneal_quso_state srcState
  by_cases hN : N = 0
  · simp [hN, pyRangeNat, map_const_range, emptyResults, pyAnnealResult, pyOffsetA]
  · simp only [hN, if_false]
    cases init with
    | none => rfl
    | some d =>
      simp only [pyRepeat_one]
      rw [place_loop_eq N rev d]
      · cases relabelInit N rev (some d) <;> rfl
      · intro st kv hst
        simp only [pyDictGet_eq, pyListSet, hst]
        cases lookupInit d kv.2 with
        | error e => rfl
        | ok x =>
          by_cases hk : kv.1 < N <;> simp [hk] <;> first | rfl | simp_all | grind

/-- `call`: the C extension is called with `(h, num_neighbors, neighbors, J, Ts, num_anneals, int(in_order), init_state,
seed or -1)` in this order, and its `(states, values)` are packaged with the model's offset and `reverse_mapping`.
`c_anneal_quso` is instantiated with the kernel model (`extQuso`). -/
theorem anneal_quso_call_eq_model {ρ α : Type} [Add α] [Mul α] [Kernel.OfInt α] (ofNum : α → Rat) (src : Kernel.Src ρ α)
    (rngOf : Int → ρ) (h : List α) (nn nb : List Nat) (J Ts : List α) (numAnneals : Int) (inOrder : Bool)
    (init : List Int) (seed : Option Int) (model : Poly) (rev : List Var) :
    anneal_quso_call ofNum (extQuso src rngOf) h nn nb J Ts numAnneals inOrder init seed model rev =
      srcCallQuso ofNum src rngOf h nn nb J Ts numAnneals inOrder init seed model rev := by
  unfold anneal_quso_call srcCallQuso extQuso unzipOut
  simp only [ok_bind', package_spin_results_eq_model, pyIntOfBool_ne, seed_match, pyOffsetA, bind_ok_self]
  cases seed <;> first | rfl | simp [seedArg]

/-- the five generated segments of `anneal_quso` composed in source order: each hands the locals the later ones read on
by name (the segment boundaries partition the body: `harness/tie_ext/anneal.py`, CUTS) -/
def anneal_quso_composed {α : Type} (toNum : Rat → α) (ofNum : α → Rat) (c_anneal : List α → List Nat → List Nat → List α → List α → Int → Int → List Int → Int → Except Err (List (List Int) × List α))
    (L : Obj) (num_anneals : Int) (initial_state : Option (List (Var × Int))) (schedule : Schedule α) (in_order : Bool)
    (seed : Option Int) : Except Err (List Res) :=
  anneal_quso_entry num_anneals schedule >>= fun f => match f with
  | .ret r => .ok r
  | .next Ts => anneal_quso_dispatch L >>= fun d => match d with
    | (N, model, reverse_mapping) =>
      anneal_quso_state N model reverse_mapping num_anneals initial_state >>= fun f => match f with
      | .ret r => .ok r
      | .next init_state => anneal_quso_flatten toNum N model >>= fun a => match a with
        | (h, nn, nb, J) =>
          anneal_quso_call ofNum c_anneal h nn nb J Ts num_anneals in_order init_state seed model reverse_mapping

/-- `anneal_quso` as generated from the source (with the kernel model for the C extension) **is** the model function
`Anneal.annealQuso` the theorems of C11, C12 and C17 are about -/
theorem anneal_quso_eq_model {ρ α : Type} [Add α] [Mul α] [Kernel.OfInt α] (cfg : Cfg ρ α) (rngOf : Int → ρ) (L : Obj)
    (n : Int) (init : Option (List (Var × Int))) (s : Schedule α) (io : Bool) (seed : Option Int) :
    anneal_quso_composed cfg.toNum cfg.ofNum (extQuso cfg.src rngOf) L n init s io seed =
      annealQuso cfg L { numAnneals := n, schedule := s, init := init, inOrder := io, rng := rngOf (seedArg seed) } := by
  rw [annealQuso_eq_segments]
  unfold anneal_quso_composed segmentsQuso
  simp only [anneal_quso_entry_eq_model, anneal_quso_dispatch_eq_model, anneal_quso_state_eq_model,
    anneal_quso_flatten_eq_model, anneal_quso_call_eq_model]
  cases srcEntry n s with
  | error e => rfl
  | ok f =>
    cases f with
    | ret r => rfl
    | next Ts =>
      cases dispatchQuso L with
      | error e => rfl
      | ok d =>
        obtain ⟨N, model, rev⟩ := d
        cases srcState N model rev n init with
        | error e => rfl
        | ok f =>
          cases f with
          | ret r => rfl
          | next st =>
            first
              | rfl
              | (simp only [ok_bind', bind, Except.bind, pure, Except.pure]
                 cases srcFlattenQuso cfg.toNum N model <;> rfl)

end Qv.Gen
