import Qv.Gen.SourceConv2Exp
import Qv.Model.Convert
import Qv.Proofs.GenEq.PyList
/-!
# GenEq.Conv2Exp — the export `QUBOMatrix.Q` generated from `qubovert/utils/_qubomatrix.py` equals the model's
`exportQ` (C04): the offset is dropped, a linear key `(i,)` becomes `(i, i)`, a quadratic key is kept.
-/
set_option linter.unusedTactic false
set_option linter.unreachableTactic false
set_option linter.unusedSimpArgs false
namespace Qv.Gen

theorem pyDictSet_eq_put (d : Poly) (k : Key) (v : Rat) : pyDictSet d k v = put d k v := by
  induction d with
  | nil => rfl
  | cons kv r ih => obtain ⟨k', v'⟩ := kv; simp only [pyDictSet, put, ih]

theorem flatten_replicate_eq_repKey (k : Key) : ∀ n : Nat, (List.replicate n k).flatten = repKey k n := by
  intro n
  induction n with
  | zero => rfl
  | succ n ih => simp only [List.replicate_succ, List.flatten_cons, repKey, ih]

theorem pyRepeat_key (k : Key) (a b : Nat) :
    pyRepeat k ((Nat.cast a : Int) - (Nat.cast b : Int)) = repKey k (a - b) := by
  unfold pyRepeat
  have h : ((Nat.cast a : Int) - (Nat.cast b : Int)).toNat = a - b := by omega
  rw [h, flatten_replicate_eq_repKey]

/-- the loop of the comprehension over the non-empty keys is the model's `exportQ` -/
theorem forM_exportQ (body : Poly → Key × Rat → Except Err Poly)
    (hbody : ∀ d it, body d it = .ok (put d (repKey it.1 (3 - it.1.length)) it.2)) :
    ∀ (p acc : Poly), pyForM (p.filter (fun it => decide (it.1 ≠ []))) acc body = .ok (exportQ acc p) := by
  intro p
  induction p with
  | nil => intro acc; rfl
  | cons kv r ih =>
    intro acc
    obtain ⟨k, v⟩ := kv
    by_cases hk : k = []
    · subst hk
      simp only [List.filter, exportQ, ne_eq, not_true_eq_false, decide_false, if_true]
      exact ih acc
    · simp only [List.filter, exportQ, ne_eq, hk, not_false_eq_true, decide_true, if_false, pyForM, hbody, ok_bind']
      exact ih _

/-- `M.Q` for a QUBOMatrix / QUBO `M` given by its items: the model's `exportQ` (never raises) -/
theorem QUBOMatrix_Q_eq_model (self : ConvObj) : QUBOMatrix_Q self = .ok (exportQ [] self.items) := by
  unfold QUBOMatrix_Q pyDictCompM
  simp only [bind_ok_self, pyObjItems]
  refine forM_exportQ _ ?_ self.items []
  intro d it
  first
  | (simp only [ok_bind', pyDictSet_eq_put, pyRepeat_key])
  | (simp [ok_bind', pyDictSet_eq_put, pyRepeat_key])

example : QUBOMatrix_Q ⟨.qubom, [([], 5), ([2], 3), ([0, 1], -1)]⟩ = .ok [([2, 2], 3), ([0, 1], -1)] := by decide +kernel

end Qv.Gen
