import Qv.Gen.SourceReduce2
import Qv.Proofs.GenEq.ReduceStep
/-!
# GenEq.Reduce2Count — the frequency-count loop of `PUBO._reduce_degree`
(`for k, v in self.items(): key = …; mapped_self[key] = mapped_self.get(key, 0) + v; <pair counts>`), generated from the
source (`Qv/Gen/SourceReduce2.lean`: `rd2_freq`, `rd2_count`), equals one step of the model's `Reduce.mapSelf` (C01, C08, C14)

The pair counts are accepted in both shapes the source has had: the nested index loops
`for i in range(len_key): for j in range(i + 1, len_key): pair = key[i], key[j]` and `for pair in combinations(key, 2)`;
both are proved to visit the model's `pairsOf key` in order (`rd2_forM_pairs`, `rd2_comb_eq_pairsOf`).
-/
set_option linter.unusedTactic false
set_option linter.unusedSimpArgs false
namespace Qv.Gen
open Qv Qv.Reduce

/-! ## `pyForM` over appended / mapped lists -/

theorem rd2_bind_ok {ε α : Type} (x : Except ε α) : (x >>= fun a => (Except.ok a : Except ε α)) = x := by
  cases x <;> rfl

theorem rd2_forM_append {α σ : Type} (body : σ → α → Except Err σ) (l1 l2 : List α) : ∀ (s : σ),
    pyForM (l1 ++ l2) s body = (pyForM l1 s body >>= fun s' => pyForM l2 s' body) := by
  induction l1 with
  | nil => intro s; rfl
  | cons a r ih =>
    intro s
    simp only [List.cons_append, pyForM]
    cases body s a with
    | error e => rfl
    | ok s' => exact ih s'

theorem rd2_forM_map {α β σ : Type} (g : α → β) (body : σ → β → Except Err σ) (l : List α) : ∀ (s : σ),
    pyForM (l.map g) s body = pyForM l s (fun s a => body s (g a)) := by
  induction l with
  | nil => intro s; rfl
  | cons a r ih =>
    intro s
    simp only [List.map_cons, pyForM]
    cases body s (g a) with
    | error e => rfl
    | ok s' => exact ih s'

theorem rd2_keyIdx_lt (key : Key) (i : Nat) (h : i < key.length) : pyRd2KeyIdx key i = .ok key[i] := by
  unfold pyRd2KeyIdx
  rw [List.getElem?_eq_getElem h]

/-- `for j in range(s, len(key)): b = key[j]; …` visits `key[s:]` -/
theorem rd2_forM_idx (key : Key) {σ : Type} (K : σ → Var → Except Err σ) : ∀ (d s : Nat) (st : σ), s + d = key.length →
    pyForM (List.range' s d) st (fun st j => pyRd2KeyIdx key j >>= fun b => K st b) = pyForM (key.drop s) st K := by
  intro d
  induction d with
  | zero =>
    intro s st h
    have : key.drop s = [] := List.drop_eq_nil_of_le (by omega)
    rw [this]; rfl
  | succ d ih =>
    intro s st h
    have hs : s < key.length := by omega
    rw [List.drop_eq_getElem_cons hs, List.range'_succ]
    simp only [pyForM, rd2_keyIdx_lt key s hs]
    show (K st key[s] >>= fun s' => _) = _
    cases K st key[s] with
    | error e => rfl
    | ok s' => exact ih (s + 1) s' (by omega)

/-- the nested index loops visit `combinations(key[s:], 2)` -/
theorem rd2_forM_pairs (key : Key) {σ : Type} (K : σ → Key → Except Err σ) : ∀ (d s : Nat) (st : σ), s + d = key.length →
    pyForM (List.range' s d) st (fun st i =>
        pyForM (pyRd2Range (i + 1) key.length) st (fun st j =>
          pyRd2KeyIdx key i >>= fun a => pyRd2KeyIdx key j >>= fun b => K st [a, b]) >>= fun st => .ok st)
      = pyForM (pyRd2Combinations2 (key.drop s)) st K := by
  intro d
  induction d with
  | zero =>
    intro s st h
    have : key.drop s = [] := List.drop_eq_nil_of_le (by omega)
    rw [this]; rfl
  | succ d ih =>
    intro s st h
    have hs : s < key.length := by omega
    rw [List.drop_eq_getElem_cons hs, List.range'_succ]
    simp only [pyRd2Combinations2, rd2_forM_append, rd2_forM_map]
    conv => lhs; unfold pyForM
    have hin : (fun (st : σ) (j : Nat) => pyRd2KeyIdx key s >>= fun a => pyRd2KeyIdx key j >>= fun b => K st [a, b]) =
        (fun (st : σ) (j : Nat) => pyRd2KeyIdx key j >>= fun b => K st [key[s], b]) := by
      funext st j; rw [rd2_keyIdx_lt key s hs]; rfl
    have hr : pyRd2Range (s + 1) key.length = List.range' (s + 1) (key.length - (s + 1)) := rfl
    rw [hin, hr, rd2_forM_idx key (fun st b => K st [key[s], b]) _ (s + 1) st (by omega), rd2_bind_ok]
    cases pyForM (List.drop (s + 1) key) st (fun st b => K st [key[s], b]) with
    | error e => rfl
    | ok s' => exact ih (s + 1) s' (by omega)

theorem rd2_comb_eq_pairsOf : ∀ (key : Key), pyRd2Combinations2 key = (pairsOf key).map (fun p => [p.1, p.2]) := by
  intro key
  induction key with
  | nil => rfl
  | cons a r ih => simp only [pyRd2Combinations2, pairsOf, List.map_append, List.map_map, ih]; rfl

/-- `pair_frequencies[pair] += 1` on the defaultdict -/
def rd2Bump (fq : List (Key × Nat)) (p : Key) : Except Err (List (Key × Nat)) :=
  .ok (pyRDictSet fq p (pyDDGet fq p + 1))

theorem rd2_bump_pairs : ∀ (ps : List Pair) (f : Freq),
    pyForM (ps.map (fun p => ([p.1, p.2] : Key))) (freqK f) rd2Bump = .ok (freqK (ps.foldl freqInc f)) := by
  intro ps
  induction ps with
  | nil => intro f; rfl
  | cons p r ih =>
    intro f
    simp only [List.map_cons, pyForM, rd2Bump, List.foldl_cons]
    rw [pyDictSet_freqK_inc]
    exact ih (freqInc f p)

/-- the nested index loops, with any bodies that read as the source's -/
theorem rd2_freq_loops_main (key : Key) (F : List (Key × Nat) → Nat → Except Err (List (Key × Nat)))
    (hF : ∀ fq i, F fq i = (pyForM (pyRd2Range (i + 1) key.length) fq (fun fq j =>
      pyRd2KeyIdx key i >>= fun a => pyRd2KeyIdx key j >>= fun b => rd2Bump fq [a, b]) >>= fun fq => .ok fq)) (f : Freq) :
    (pyForM (pyRangeNat (Nat.cast key.length : Int)) (freqK f) F >>= fun acc => (Except.ok acc : Except Err _)) =
      .ok (freqK ((pairsOf key).foldl freqInc f)) := by
  have hF' : F = fun fq i => (pyForM (pyRd2Range (i + 1) key.length) fq (fun fq j =>
      pyRd2KeyIdx key i >>= fun a => pyRd2KeyIdx key j >>= fun b => rd2Bump fq [a, b]) >>= fun fq => .ok fq) := by
    funext fq i; exact hF fq i
  have hr : pyRangeNat (Nat.cast key.length : Int) = List.range' 0 key.length := by
    simp [pyRangeNat, List.range_eq_range']
  rw [rd2_bind_ok, hF', hr, rd2_forM_pairs key rd2Bump key.length 0 (freqK f) (by omega), List.drop_zero,
    rd2_comb_eq_pairsOf]
  exact rd2_bump_pairs _ f

/-- `for pair in combinations(key, 2): pair_frequencies[pair] += 1` -/
theorem rd2_freq_combos_main (key : Key) (F : List (Key × Nat) → Key → Except Err (List (Key × Nat)))
    (hF : ∀ fq p, F fq p = rd2Bump fq p) (f : Freq) :
    (pyForM (pyRd2Combinations2 key) (freqK f) F >>= fun acc => (Except.ok acc : Except Err _)) =
      .ok (freqK ((pairsOf key).foldl freqInc f)) := by
  have hF' : F = rd2Bump := by funext fq p; exact hF fq p
  rw [rd2_bind_ok, hF', rd2_comb_eq_pairsOf]
  exact rd2_bump_pairs _ f

/-- **(1a)** the pair counts of one mapped key: every pair `(key[i], key[j])`, `i < j`, is counted once, in the order of the
model's `pairsOf` -/
theorem rd2_freq_eq_model (key : Key) (f : Freq) :
    rd2_freq key (freqK f) = .ok (freqK ((pairsOf key).foldl freqInc f)) := by
  unfold rd2_freq
  first
    | (refine rd2_freq_loops_main key _ ?_ f; intro fq i; first | rfl | simp [rd2Bump, bind, Except.bind])
    | (refine rd2_freq_combos_main key _ ?_ f; intro fq p; first | rfl | simp [rd2Bump, bind, Except.bind])

/-! ## one term of `self` -/

theorem rd2_mapM_get (m : Mapping) (G : Var → Except Err Var) (hG : ∀ i, G i = pyMappingGet m i) :
    ∀ (k : Key), pyRMapM G k = mapLabels m k := by
  intro k
  induction k with
  | nil => rfl
  | cons i r ih =>
    simp only [pyRMapM, mapLabels, hG, pyMappingGet, ih]
    cases lookup m i with
    | none => rfl
    | some j =>
      cases mapLabels m r with
      | error e => rfl
      | ok l => rfl

theorem rd2_dictSet_put (acc : Poly) (key : Key) (x : Rat) : pyRDictSet acc key x = put acc key x := by
  induction acc with
  | nil => rfl
  | cons e r ih =>
    obtain ⟨k', v'⟩ := e
    simp only [pyRDictSet, put, ih]

theorem rd2_dictGet_get (acc : Poly) (key : Key) : pyDictGetD acc key (0 : Rat) = get acc key := by
  induction acc with
  | nil => rfl
  | cons e r ih =>
    obtain ⟨k', v'⟩ := e
    simp only [pyDictGetD, get, ih]

/-- the body of `for k, v in self.items():` with any label-mapping function / continuation that read as the source's -/
theorem rd2_count_main (m : Mapping) (k : Key) (v : Rat) (acc : Poly) (f : Freq)
    (G : Var → Except Err Var) (hG : ∀ i, G i = pyMappingGet m i)
    (C : List Var → Except Err (List (Key × Rat) × List (Key × Nat)))
    (hC : ∀ l, C l = (rd2_freq (pySortedLabels l) (freqK f) >>= fun fq =>
      .ok (pyRDictSet acc (pySortedLabels l) (pyDictGetD acc (pySortedLabels l) (0 : Rat) + v), fq))) :
    (pyRMapM G k >>= C) =
      (match Reduce.mapKey m k with
       | .error e => .error e
       | .ok key => .ok (put acc key (get acc key + v), freqK ((pairsOf key).foldl freqInc f))) := by
  rw [rd2_mapM_get m G hG k]
  unfold Reduce.mapKey
  cases mapLabels m k with
  | error e => rfl
  | ok l =>
    show C l = _
    rw [hC l, rd2_freq_eq_model, rd2_dictSet_put, rd2_dictGet_get]
    rfl

/-- **(1)** one pass through `for k, v in self.items():` — the mapped key `tuple(sorted(self._mapping[i] for i in k))`
(`KeyError` for an unknown label), the merge `mapped_self[key] = mapped_self.get(key, 0) + v` (zeros kept) and one count per
pair of the mapped key — is one step of the model's `mapSelf` -/
theorem rd2_count_eq_model (m : Mapping) (k : Key) (v : Rat) (acc : Poly) (f : Freq) :
    rd2_count k v m acc (freqK f) =
      (match Reduce.mapKey m k with
       | .error e => .error e
       | .ok key => .ok (put acc key (get acc key + v), freqK ((pairsOf key).foldl freqInc f))) := by
  unfold rd2_count
  refine rd2_count_main m k v acc f _ ?_ _ ?_
  · intro i; first | rfl | (simp only [bind, Except.bind]; cases pyMappingGet m i <;> rfl)
  · intro l; first | rfl | simp [bind, Except.bind]

end Qv.Gen
