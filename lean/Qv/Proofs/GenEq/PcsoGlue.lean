import Qv.Gen.SourcePcsoGlue
import Qv.Proofs.GenEq.PcsoCons
import Qv.Proofs.GenEq.Valid
/-!
# GenEq.PcsoGlue — the glue of the PCSO comparison constraints, generated from `qubovert/_pcso.py` (C03)

* `empty_pcbo_u2_eq_model`: `_empty_pcbo(pcso)` — a fresh `PCBO()` whose `_ancilla` is the PCSO's — is the model's
  `Pcso.emptyPcbo` (no terms, no recorded constraints, the PCSO's ancilla counter: the seed that keeps ancilla names of
  successive constraints apart, T3.5).
* `pcso_is_solution_valid_u2_eq_model`: `PCSO.is_solution_valid` delegates to the *generated* `PCBO.is_solution_valid`
  (tied in `GenEq/Valid.lean`) on the recorded spin constraints with the spin values: the model's `Pcso.isValid`.
* `pcso_bodies_chain_u2`: the chain — each of the six generated `PCSO.add_constraint_*_zero` bodies (group `PcsoCons`) run
  with the helper PCBO built by the GENERATED `_empty_pcbo` is `H = PUSO(H)`, record, `lam` guard, the PCBO method of the same
  relation on `empty_pcbo_u2 self` and the boolean image, counter copied back, converted terms added.
-/
set_option linter.unusedTactic false
set_option linter.unreachableTactic false
set_option linter.unusedSimpArgs false
set_option linter.unusedVariables false
namespace Qv.Gen
open Qv Qv.Pcso

/-- **`_empty_pcbo`** = the model's `emptyPcbo` -/
theorem empty_pcbo_u2_eq_model (s : PSt) : empty_pcbo_u2 s = Pcso.emptyPcbo s := by
  unfold empty_pcbo_u2 Pcso.emptyPcbo
  first | rfl | (simp only [pyNewPCBO, St.fresh]; done) | (simp [pyNewPCBO, St.fresh])

/-- **`PCSO.is_solution_valid`** = the model's `Pcso.isValid` (through the generated `PCBO.is_solution_valid`) -/
theorem pcso_is_solution_valid_u2_eq_model (s : PSt) (z : Var → Rat) :
    pcso_is_solution_valid_u2 s.cons z = Pcso.isValid s z := by
  unfold pcso_is_solution_valid_u2 Pcso.isValid
  exact is_solution_valid_eq_model { cons := s.cons } z

/-- the body of a PCSO comparison constraint with the helper PCBO spelled out through the generated `_empty_pcbo` -/
def pcsoBodyU2 (r : Rel) (s : PSt) (H : Poly) (lam : Rat) (lt : Bool) (b : Option Rat × Option Rat) (sup : Bool) :
    Except Err PSt :=
  spinCopy H >>= fun H' =>
    let s1 := s.append r H'
    if lam = 0 then .ok s1 else
      boolImage H' >>= fun P => absorb s1 (Qv.addConstraint r (empty_pcbo_u2 s1) P lam lt b sup)

theorem pcso_chain_u2 (r : Rel) (s : PSt) (H : Poly) (lam : Rat) (lt : Bool) (b : Option Rat × Option Rat) (sup : Bool) :
    Pcso.addConstraint r s H lam lt b sup = pcsoBodyU2 r s H lam lt b sup := by
  unfold Pcso.addConstraint pcsoBodyU2 Pcso.helper
  simp only [empty_pcbo_u2_eq_model]
  cases spinCopy H with
  | error e => rfl
  | ok H' =>
    by_cases hl : lam = 0
    · simp only [hl, if_true]; rfl
    · simp only [hl, if_false]
      first | done | rfl | (cases boolImage H' <;> rfl)

/-- **the chain**: the six generated method bodies, with the generated `_empty_pcbo` -/
theorem pcso_bodies_chain_u2 (s : PSt) (H : Poly) (lam : Rat) (lt : Bool) (b : Option Rat × Option Rat) (sup : Bool) :
    runBody lam lt b sup s H (pcso_add_constraint_eq_zero lam) = pcsoBodyU2 .eq s H lam lt b sup ∧
    runBody lam lt b sup s H (pcso_add_constraint_ne_zero lam) = pcsoBodyU2 .ne s H lam lt b sup ∧
    runBody lam lt b sup s H (pcso_add_constraint_lt_zero lam) = pcsoBodyU2 .lt s H lam lt b sup ∧
    runBody lam lt b sup s H (pcso_add_constraint_le_zero lam) = pcsoBodyU2 .le s H lam lt b sup ∧
    runBody lam lt b sup s H (pcso_add_constraint_gt_zero lam) = pcsoBodyU2 .gt s H lam lt b sup ∧
    runBody lam lt b sup s H (pcso_add_constraint_ge_zero lam) = pcsoBodyU2 .ge s H lam lt b sup :=
  ⟨(pcso_add_constraint_eq_zero_eq_model s H lam lt b sup).trans (pcso_chain_u2 ..),
   (pcso_add_constraint_ne_zero_eq_model s H lam lt b sup).trans (pcso_chain_u2 ..),
   (pcso_add_constraint_lt_zero_eq_model s H lam lt b sup).trans (pcso_chain_u2 ..),
   (pcso_add_constraint_le_zero_eq_model s H lam lt b sup).trans (pcso_chain_u2 ..),
   (pcso_add_constraint_gt_zero_eq_model s H lam lt b sup).trans (pcso_chain_u2 ..),
   (pcso_add_constraint_ge_zero_eq_model s H lam lt b sup).trans (pcso_chain_u2 ..)⟩

/-! ## non-vacuity -/

example : (empty_pcbo_u2 { terms := [([0], 1)], anc := 3, cons := [(.le, [([0], 1)])] }).anc = 3 ∧
    (empty_pcbo_u2 { terms := [([0], 1)], anc := 3, cons := [(.le, [([0], 1)])] }).terms = [] := by decide +kernel
example : pcso_is_solution_valid_u2 [(.le, [([0], 1), ([], -1)]), (.ne, [([1], 1)])] (fun _ => 1) = true := by decide +kernel
example : pcso_is_solution_valid_u2 [(.lt, [([0], 1), ([], -1)])] (fun _ => 1) = false := by decide +kernel

end Qv.Gen
