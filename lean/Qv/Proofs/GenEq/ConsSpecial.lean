import Qv.Gen.SourceCons
import Qv.Proofs.GenEq.Cons
import Qv.Gen.Interp
/-!
# GenEq.ConsSpecial — the decision generated from `_special_constraints_le_zero` equals the model's `specialLe`
(C02; C03 and C06 go through it)

Which of the four structural shortcuts of `add_constraint_le_zero` applies — the conditions on `P.offset`,
on the coefficients of `P - P.offset` and on the bounds, in their order —, how many unary slack ancillas the
second one introduces (`num_bits`, generated too), and which statements then run.  The statements that build
and add the penalty are named (`LEff`); `runLEff` says what each does.
-/
set_option linter.unusedTactic false
set_option linter.unreachableTactic false
set_option linter.unusedSimpArgs false
set_option linter.unusedVariables false
namespace Qv.Gen

theorem all_values (l : Poly) (c : Rat) :
    List.all (List.map Prod.snd l) (fun x => decide (x = c)) = l.all (fun kv => decide (kv.2 = c)) := by
  induction l with
  | nil => rfl
  | cons a r ih => simp [List.all_cons, ih]

theorem setEq_one (a b : Key × Rat) :
    pySetEq (List.map Prod.snd [a, b]) [(-1 : Rat)] = [a, b].all (fun kv => decide (kv.2 = -1)) := by
  by_cases ha : a.2 = -1 <;> by_cases hb : b.2 = -1 <;> simp [pySetEq, ha, hb] <;> first | tauto | (intro h; simp_all)

theorem setEq_two (a b : Key × Rat) :
    pySetEq (List.map Prod.snd [a, b]) [(1 : Rat), (-1 : Rat)] =
      ([a, b].any (fun kv => decide (kv.2 = 1)) && [a, b].any (fun kv => decide (kv.2 = -1))) := by
  have h1 : (1 : Rat) ≠ -1 := by decide
  have h2 : (-1 : Rat) ≠ 1 := by decide
  by_cases ha1 : a.2 = 1 <;> by_cases hb1 : b.2 = 1 <;> by_cases ha2 : a.2 = -1 <;> by_cases hb2 : b.2 = -1 <;>
    simp_all [pySetEq]

/-- the unary-slack loop: `n` times `ancillas[(next_ancilla,)] += 1` is the model's `unaryAncillas` -/
theorem ancilla_loop (P Pwo : Poly) (lam : Rat) (f : List LEff → Nat → Except Err (List LEff))
    (hf : ∀ acc i, f acc i = .ok (acc ++ [LEff.ancilla])) :
    ∀ (n i : Nat) (effs : List LEff),
      pyForM (List.range' i n) effs f = .ok (effs ++ List.replicate n LEff.ancilla) := by
  intro n
  induction n with
  | zero => intro i effs; simp [pyForM]
  | succ n ih =>
    intro i effs
    simp only [List.range'_succ, pyForM, hf, ok_bind', ih, List.replicate_succ]
    simp

theorem run_ancillas (P Pwo : Poly) (lam : Rat) : ∀ (n : Nat) (c : LSt), c.ancs = [] →
    (List.replicate n LEff.ancilla).foldl (runLEff P Pwo lam) c =
      { c with s := (unaryAncillas c.s n).1, ancs := (unaryAncillas c.s n).2 } := by
  intro n
  induction n with
  | zero => intro c hc; simp [unaryAncillas, ← hc]
  | succ n ih =>
    intro c hc
    rw [List.replicate_succ', List.foldl_append, ih c hc]
    simp [runLEff, unaryAncillas]

theorem two_items (l : Poly) (h : l.length = 2) : ∃ a b, l = [a, b] := by
  match l, h with
  | [a, b], _ => exact ⟨a, b, rfl⟩

/-- last shortcut: `x <= y` for two monomials -/
macro "branch4" P:ident : tactic =>
  `(tactic| (
      by_cases l4 : List.length $P = 2
      · obtain ⟨c, d, hP⟩ := two_items $P l4
        obtain ⟨kc, vc⟩ := c
        obtain ⟨kd, vd⟩ := d
        subst hP
        simp only [setEq_two]
        by_cases hcond : get [(kc, vc), (kd, vd)] [] = 0 ∧
            ([(kc, vc), (kd, vd)].any (fun kv => decide (kv.2 = 1))) = true ∧
            ([(kc, vc), (kd, vd)].any (fun kv => decide (kv.2 = -1))) = true
        · obtain ⟨h0, ha, hb⟩ := hcond
          have hg : (get [(kc, vc), (kd, vd)] [] = 0 ∧ [(kc, vc), (kd, vd)].length = 2 ∧
              (([(kc, vc), (kd, vd)].any (fun kv => decide (kv.2 = 1))) &&
               ([(kc, vc), (kd, vd)].any (fun kv => decide (kv.2 = -1)))) = true) := ⟨h0, rfl, by rw [ha, hb]; rfl⟩
          have hm : (get [(kc, vc), (kd, vd)] [] = 0 ∧ [(kc, vc), (kd, vd)].length = 2 ∧
              ([(kc, vc), (kd, vd)].any (fun kv => decide (kv.2 = 1))) = true ∧
              ([(kc, vc), (kd, vd)].any (fun kv => decide (kv.2 = -1))) = true) := ⟨h0, rfl, ha, hb⟩
          simp only [hg, hm, if_true]
          simp only [List.any_cons, List.any_nil, Bool.or_false, Bool.or_eq_true, decide_eq_true_eq] at ha hb
          have h1 : (1 : Rat) ≠ -1 := by decide
          have h2 : (-1 : Rat) ≠ 1 := by decide
          rcases ha with ha | ha <;> rcases hb with hb | hb <;> subst ha <;>
            first
            | exact absurd hb h1
            | (subst hb
               simp [Except.map, specialResult, runLEff, untagged, St.tag, List.find?, h1, h2])
        · have hg : ¬ (get [(kc, vc), (kd, vd)] [] = 0 ∧ [(kc, vc), (kd, vd)].length = 2 ∧
              (([(kc, vc), (kd, vd)].any (fun kv => decide (kv.2 = 1))) &&
               ([(kc, vc), (kd, vd)].any (fun kv => decide (kv.2 = -1)))) = true) := by
            intro h
            apply hcond
            have := h.2.2
            rw [Bool.and_eq_true] at this
            exact ⟨h.1, this.1, this.2⟩
          have hm : ¬ (get [(kc, vc), (kd, vd)] [] = 0 ∧ [(kc, vc), (kd, vd)].length = 2 ∧
              ([(kc, vc), (kd, vd)].any (fun kv => decide (kv.2 = 1))) = true ∧
              ([(kc, vc), (kd, vd)].any (fun kv => decide (kv.2 = -1))) = true) := fun h => hcond ⟨h.1, h.2.2⟩
          simp only [hg, hm, if_false]
          rfl
      · have hg : ∀ (q : Bool), ¬ (get $P [] = 0 ∧ List.length $P = 2 ∧ q = true) := fun q h => l4 h.2.1
        have hm : ∀ (q r : Bool), ¬ (get $P [] = 0 ∧ List.length $P = 2 ∧ q = true ∧ r = true) := fun q r h => l4 h.2.1
        simp only [hg, hm, if_false]
        rfl))

/-- `_special_constraints_le_zero(pcbo, P, lam, log_trick, bounds)`: the generated decision (on
`P_wo_offset = P - P.offset`) returns `True` with the statements of exactly the shortcut the model's `specialLe`
takes, and `False` exactly when `specialLe` is `none` -/
theorem special_constraints_le_zero_decision_eq_model (s : St) (P : Poly) (lam : Rat) (lt : Bool) (bnd : Rat × Rat) :
    (special_constraints_le_zero_decision P lt bnd.1 bnd.2 (isubB P (addConstB [] (offsetOf P)))).map
        (specialResult P (isubB P (addConstB [] (offsetOf P))) lam s) =
      .ok ((specialLe s P lam lt bnd).map untagged) := by
  obtain ⟨lo, hi⟩ := bnd
  unfold special_constraints_le_zero_decision specialLe
  simp only [pyOffset, all_values]
  generalize hPwo : isubB P (addConstB [] (offsetOf P)) = Pwo
  simp only [offsetOf]
  -- 1: offset -1, all coefficients 1
  by_cases c1 : (get P []) = -1 ∧ (Pwo.all (fun kv => decide (kv.2 = 1))) = true
  · simp [c1, Except.map, specialResult, runLEff, untagged, St.tag]
  · have c1' : ¬ ((get P []) = -1 ∧ (Pwo.all (fun kv => decide (kv.2 = 1))) = true) := c1
    simp only [c1', if_false]
    -- 2: unary slack
    by_cases c2 : lt = false ∧ lo - (get P []) = 0 ∧ (get P []) ≤ 0 ∧ lo ≠ 0
    · obtain ⟨rfl, h2⟩ := c2
      have hnb : num_bits (-(get P [])) false = .ok ((numBits (-(get P [])) false : Nat) : Int) :=
        num_bits_eq_model (-(get P [])) false (by linarith [h2.2.1])
      simp only [h2, and_self, ne_eq, not_false_eq_true, if_true, Bool.not_false, hnb, ok_bind', pyRangeNat,
        Int.toNat_natCast, List.range_eq_range', true_and]
      rw [ancilla_loop P Pwo lam _ (fun _ _ => rfl)]
      simp only [ok_bind', Except.map, specialResult, if_true, List.foldl_append, List.foldl_cons, List.foldl_nil,
        List.nil_append]
      rw [run_ancillas P Pwo lam _ _ rfl]
      simp [runLEff, untagged, St.tag, Option.map]
    · have c2' : ¬ (lt = false ∧ lo - (get P []) = 0 ∧ (get P []) ≤ 0 ∧ lo ≠ 0) := c2
      have c2m : ¬ ((!lt) = true ∧ lo - (get P []) = 0 ∧ (get P []) ≤ 0 ∧ lo ≠ 0) := by
        intro h; apply c2; cases lt <;> simp_all
      simp only [c2', c2m, if_false]
      -- 3: offset 1, two terms with coefficient -1
      by_cases l3 : Pwo.length = 2
      · obtain ⟨a, b, rfl⟩ := two_items Pwo l3
        obtain ⟨ka, va⟩ := a
        obtain ⟨kb, vb⟩ := b
        simp only [setEq_one]
        by_cases c3 : (get P []) = 1 ∧ ([(ka, va), (kb, vb)].all (fun kv => decide (kv.2 = -1))) = true
        · simp [c3, Except.map, specialResult, runLEff, untagged, St.tag]
        · have c3' : ¬ (get P [] = 1 ∧ ([(ka, va), (kb, vb)].all (fun kv => decide (kv.2 = -1))) = true) := c3
          have c3g : ¬ (get P [] = 1 ∧ [(ka, va), (kb, vb)].length = 2 ∧
              ([(ka, va), (kb, vb)].all (fun kv => decide (kv.2 = -1))) = true) := fun h => c3 ⟨h.1, h.2.2⟩
          simp only [c3g, if_false]
          branch4 P
      · have c3g : ¬ (get P [] = 1 ∧ Pwo.length = 2 ∧ pySetEq (List.map Prod.snd Pwo) [-1] = true) := fun h => l3 h.2.1
        have c3m : ¬ (get P [] = 1 ∧ Pwo.length = 2 ∧ (Pwo.all (fun kv => decide (kv.2 = -1))) = true) := fun h => l3 h.2.1
        simp only [c3g, c3m, if_false]
        branch4 P

/-! ### Non-vacuity: each shortcut is taken by some input -/

-- `x0 + x1 - 1 <= 0` (sum of variables at most 1)
example : (special_constraints_le_zero_decision [([0], 1), ([1], 1), ([], -1)] true (-1) 1 [([0], 1), ([1], 1)]).toOption
    = some (true, [LEff.sum1]) := by decide +kernel
-- `2*x0 + 3*x1 - 3 <= 0` without the log trick, lower bound = offset: three unary slack bits
example : (special_constraints_le_zero_decision [([0], 2), ([1], 3), ([], -3)] false (-3) 2 [([0], 2), ([1], 3)]).toOption
    = some (true, [LEff.newAncillas, .ancilla, .ancilla, .ancilla, .diff, .addDiffSq]) := by decide +kernel
-- `1 - x0 - x1*x2 <= 0`
example : (special_constraints_le_zero_decision [([], 1), ([0], -1), ([1, 2], -1)] true (-1) 1 [([0], -1), ([1, 2], -1)]).toOption
    = some (true, [LEff.keysOfPwo, .xyOfKeys, .addOrPenalty]) := by decide +kernel
-- `x0 - x1 <= 0`
example : (special_constraints_le_zero_decision [([0], 1), ([1], -1)] true (-1) 1 [([0], 1), ([1], -1)]).toOption
    = some (true, [LEff.coef, .xyOfCoef, .addXnotY]) := by decide +kernel
-- none applies
example : (special_constraints_le_zero_decision [([0], 2), ([1], -3)] true (-3) 2 [([0], 2), ([1], -3)]).toOption
    = some (false, []) := by decide +kernel

end Qv.Gen
