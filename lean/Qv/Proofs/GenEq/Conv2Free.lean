import Qv.Gen.SourceConv2
import Qv.Proofs.GenEq.ConvGen
/-!
# GenEq.Conv2Free — the WHOLE free conversions `qubo_to_quso`, `quso_to_qubo`, `pubo_to_puso`, `puso_to_pubo`
generated from `qubovert/utils/_conversions.py` equal the model's `quboToQuso`, `qusoToQubo`, `puboToPuso`,
`pusoToPubo` (C04): the choice of `squash_key` by `type(Q)`, the result-type rule (`kindQuboToQuso` …: Matrix in →
Matrix out of the right degree class), the loop over `.items()` and every update of every term.
-/
set_option linter.unusedTactic false
set_option linter.unreachableTactic false
set_option linter.unusedSimpArgs false
namespace Qv.Gen

/-- the result object of a conversion: its type and its terms -/
def asObj (κ : Kind) (r : Except Err Poly) : Except Err ConvObj := r >>= fun t => .ok ⟨κ, t⟩

theorem asObj_ok (κ : Kind) (t : Poly) : asObj κ (.ok t) = .ok ⟨κ, t⟩ := rfl
theorem asObj_error (κ : Kind) (e : Err) : asObj κ (.error e) = .error e := rfl

theorem pyItemIAdd_eq (L : ConvObj) (key : Key) (c : Rat) :
    pyItemIAdd L key c = asObj L.kind (addTerm (squash L.kind) L.items key c) := rfl

/-- a loop whose body is `k = src(kp); <term updates>` is the model's `closedLoop` -/
theorem forM_closedLoop (term : Sq → Poly → Key → Rat → Except Err Poly) (src : Sq) (κ : Kind)
    (body : ConvObj → Key × Rat → Except Err ConvObj)
    (hbody : ∀ (t : Poly) (it : Key × Rat),
      body ⟨κ, t⟩ it = asObj κ (src it.1 >>= fun k => term (squash κ) t k it.2)) :
    ∀ (p : Poly) (t : Poly), pyForM p ⟨κ, t⟩ body = asObj κ (closedLoop term src (squash κ) t p) := by
  intro p
  induction p with
  | nil => intro t; rfl
  | cons kv r ih =>
    intro t
    obtain ⟨kp, v⟩ := kv
    simp only [pyForM, hbody, closedLoop]
    cases hs : src kp with
    | error e => rfl
    | ok k =>
      simp only [ok_bind']
      cases ht : term (squash κ) t k v with
      | error e => rfl
      | ok t' => simp only [asObj_ok, ok_bind']; exact ih t'

/-- a loop whose body is `H[key] += value * v` over the pairs of a generator is the model's `addGen` -/
theorem forM_addGen (κ : Kind) (v : Rat) (body : ConvObj → Key × Rat → Except Err ConvObj)
    (hbody : ∀ (H : ConvObj) (kv : Key × Rat), body H kv = pyItemIAdd H kv.1 (kv.2 * v)) :
    ∀ (g : List (Key × Rat)) (t : Poly), pyForM g (⟨κ, t⟩ : ConvObj) body = asObj κ (addGen (squash κ) t g v) := by
  intro g
  induction g with
  | nil => intro t; rfl
  | cons kv r ih =>
    intro t
    obtain ⟨key, value⟩ := kv
    simp only [pyForM, addGen, hbody, pyItemIAdd_eq]
    cases addTerm (squash κ) t key (value * v) with
    | error e => rfl
    | ok t' => simp only [asObj_ok, ok_bind']; exact ih t'

theorem forM_convLoop (gen : Key → List (Key × Rat)) (κ : Kind) (body : ConvObj → Key × Rat → Except Err ConvObj)
    (hbody : ∀ (t : Poly) (it : Key × Rat), body ⟨κ, t⟩ it = asObj κ (addGen (squash κ) t (gen it.1) it.2)) :
    ∀ (p : Poly) (t : Poly), pyForM p ⟨κ, t⟩ body = asObj κ (convLoop gen (squash κ) t p) := by
  intro p
  induction p with
  | nil => intro t; rfl
  | cons kv r ih =>
    intro t
    obtain ⟨k, v⟩ := kv
    simp only [pyForM, hbody, convLoop]
    cases addGen (squash κ) t (gen k) v with
    | error e => rfl
    | ok t' => simp only [asObj_ok, ok_bind']; exact ih t'

/-- one iteration of a closed-form loop on an already squashed key `k`: case split on its length -/
macro "closed_core" tm:ident k:ident : tactic =>
  `(tactic| (
      rcases $k:ident with _ | ⟨i, _ | ⟨j, _ | ⟨l, r⟩⟩⟩ <;>
        simp [$tm:ident, pyItemIAdd_eq, asObj, ok_bind', error_bind', bind_assoc'] <;>
        (repeat (first
          | rfl
          | (apply bind_congr'; intro _ _)
          | (congr 1; funext _)
          | ring_nf
          | simp_all))))

/-- … when `squash_key` is the identity -/
macro "closed_body_id" tm:ident : tactic =>
  `(tactic| (
    intro t it
    obtain ⟨kp, v⟩ := it
    simp only [show ∀ k : Key, (pure : Sq) k = Except.ok k from fun _ => rfl, ok_bind']
    closed_core $tm kp))

/-- … when `squash_key` is `src` (may raise `KeyError`) -/
macro "closed_body_sq" tm:ident src:term : tactic =>
  `(tactic| (
    intro t it
    obtain ⟨kp, v⟩ := it
    simp only [pySquashKey]
    cases hs : $src kp with
    | error e => first | rfl | (simp [hs, asObj, ok_bind', error_bind']; done)
    | ok k =>
      simp only [ok_bind']
      closed_core $tm k))

/-- starting a loop from an object known to be the empty object of type `κ` -/
theorem forM_from {α : Type} (κ : Kind) (p : List α) (L0 : ConvObj) (body : ConvObj → α → Except Err ConvObj) (r : Except Err ConvObj)
    (h0 : L0 = ⟨κ, []⟩) (h : pyForM p ⟨κ, []⟩ body = r) : pyForM p L0 body = r := by
  subst h0; exact h

/-- the result-type expression `A() if type(X) in (…) else B()` is the empty object of the model's result kind -/
macro "new_obj_kind" : tactic =>
  `(tactic| first
    | rfl
    | (rename_i κ' _; cases κ' <;> first | rfl | simp_all [pyNewObj, pyType] | decide)
    | (simp [pyNewObj, pyType, kindQuboToQuso, kindQusoToQubo, kindPuboToPuso, kindPusoToPubo]; done)
    | (simp [pyNewObj, pyType, kindQuboToQuso, kindQusoToQubo, kindPuboToPuso, kindPusoToPubo] <;> split <;> simp_all))

/-- `qubo_to_quso(Q)`: for every object / dict `Q` (its type `Q.kind`, its items `Q.items` in dict order) the
generated function returns an object of type `kindQuboToQuso Q.kind` whose terms are the model's `quboToQuso`, and
raises exactly when the model does -/
theorem qubo_to_quso_eq_model (Q : ConvObj) :
    qubo_to_quso Q = asObj (kindQuboToQuso Q.kind) (quboToQuso Q.kind Q.items) := by
  obtain ⟨κ, p⟩ := Q
  unfold qubo_to_quso quboToQuso
  simp only [pyType, pyObjItems, bind_ok_self]
  split
  · rename_i h
    have hsrc : srcSquashQubo κ = pure := by
      first | (simp [srcSquashQubo, h]; done) | (cases κ <;> simp_all [srcSquashQubo])
    rw [hsrc]
    refine forM_from (kindQuboToQuso κ) _ _ _ _ (by cases κ <;> first | rfl | simp_all [pyNewObj] | decide) ?_
    refine forM_closedLoop quboToQusoTerm pure _ _ ?_ p []
    closed_body_id quboToQusoTerm
  · rename_i h
    have hsrc : srcSquashQubo κ = squash .qubo := by
      first | (simp [srcSquashQubo, h]; done) | (cases κ <;> simp_all [srcSquashQubo])
    rw [hsrc]
    refine forM_from (kindQuboToQuso κ) _ _ _ _ (by cases κ <;> first | rfl | simp_all [pyNewObj] | decide) ?_
    refine forM_closedLoop quboToQusoTerm (squash .qubo) _ _ ?_ p []
    closed_body_sq quboToQusoTerm (squash Kind.qubo)

/-- `quso_to_qubo(L)` likewise: type `kindQusoToQubo L.kind`, terms the model's `qusoToQubo` -/
theorem quso_to_qubo_eq_model (L : ConvObj) :
    quso_to_qubo L = asObj (kindQusoToQubo L.kind) (qusoToQubo L.kind L.items) := by
  obtain ⟨κ, p⟩ := L
  unfold quso_to_qubo qusoToQubo
  simp only [pyType, pyObjItems, bind_ok_self]
  split
  · rename_i h
    have hsrc : srcSquashQuso κ = pure := by
      first | (simp [srcSquashQuso, h]; done) | (cases κ <;> simp_all [srcSquashQuso])
    rw [hsrc]
    refine forM_from (kindQusoToQubo κ) _ _ _ _ (by cases κ <;> first | rfl | simp_all [pyNewObj] | decide) ?_
    refine forM_closedLoop qusoToQuboTerm pure _ _ ?_ p []
    closed_body_id qusoToQuboTerm
  · rename_i h
    have hsrc : srcSquashQuso κ = squash .quso := by
      first | (simp [srcSquashQuso, h]; done) | (cases κ <;> simp_all [srcSquashQuso])
    rw [hsrc]
    refine forM_from (kindQusoToQubo κ) _ _ _ _ (by cases κ <;> first | rfl | simp_all [pyNewObj] | decide) ?_
    refine forM_closedLoop qusoToQuboTerm (squash .quso) _ _ ?_ p []
    closed_body_sq qusoToQuboTerm (squash Kind.quso)

/-- `pubo_to_puso(P)`: type `kindPuboToPuso P.kind`, terms the model's `puboToPuso` (any degree, raw keys) -/
theorem pubo_to_puso_eq_model (P : ConvObj) :
    pubo_to_puso P = asObj (kindPuboToPuso P.kind) (puboToPuso P.kind P.items) := by
  obtain ⟨κ, p⟩ := P
  unfold pubo_to_puso puboToPuso
  simp only [pyType, pyObjItems, bind_ok_self]
  refine forM_from (kindPuboToPuso κ) _ _ _ _ (by cases κ <;> first | rfl | simp_all [pyNewObj] | decide) ?_
  refine forM_convLoop genB2S _ _ ?_ p []
  intro t it
  rw [← pubo_to_puso_generate_eq_model]
  refine forM_addGen _ it.2 _ ?_ _ t
  intro H kv
  first | rfl | simp

/-- `puso_to_pubo(H)`: type `kindPusoToPubo H.kind`, terms the model's `pusoToPubo` -/
theorem puso_to_pubo_eq_model (H : ConvObj) :
    puso_to_pubo H = asObj (kindPusoToPubo H.kind) (pusoToPubo H.kind H.items) := by
  obtain ⟨κ, p⟩ := H
  unfold puso_to_pubo pusoToPubo
  simp only [pyType, pyObjItems, bind_ok_self]
  refine forM_from (kindPusoToPubo κ) _ _ _ _ (by cases κ <;> first | rfl | simp_all [pyNewObj] | decide) ?_
  refine forM_convLoop genS2B _ _ ?_ p []
  intro t it
  rw [← puso_to_pubo_generate_eq_model]
  refine forM_addGen _ it.2 _ ?_ _ t
  intro H kv
  first | rfl | simp

example : qubo_to_quso ⟨.pubom, [([0, 1], 4), ([1], 2)]⟩ = .ok ⟨.qusom, [([0, 1], 1), ([0], -1), ([1], -2), ([], 2)]⟩ := by
  decide +kernel
example : qubo_to_quso ⟨.dict, [([0, 1, 2], 4)]⟩ = .error .key := by decide +kernel
example : pubo_to_puso ⟨.qubom, [([0], 2)]⟩ = .ok ⟨.pusom, [([0], -1), ([], 1)]⟩ := by decide +kernel

end Qv.Gen
