import Qv.Proofs.GenEq.ProblemsLib
/-!
# GenEq.Problems — `NumberPartitioning` and `GraphPartitioning` (C10): the definitions generated from
`qubovert/problems/np/partitioning/*.py` equal the hand-written model `Qv.Prob.NP` / `Qv.Prob.GP` for every instance.

The instance data are instantiated with the model's fields (`self._S = p.S`, `self._N = len(S)`; for the graph
`self._edges = p.edges` — the non-loop items of the input —, `_vertex_to_index` / `_index_to_vertex` = the enumeration `p.order`
of the vertex set, `_N = len(order)`, `_degree = p.degree`): what `__init__` establishes.  The iteration order of the Python
`set`s involved is data of the model (`p.order`, the order of `p.input`), so every equation holds for ANY enumeration order.
-/
set_option linter.unusedTactic false
set_option linter.unreachableTactic false
set_option linter.unusedSimpArgs false
set_option linter.unusedVariables false
namespace Qv.Gen
open Qv Qv.Prob

/-! ## NumberPartitioning -/

/-- `{(i,): S[i] for i in range(len(S))}` -/
theorem pyMapM_linOps (S : List Rat) (f : Nat → Except Err (Key × Rat))
    (h : ∀ i, i < S.length → f i = .ok ([i], S.getD i 0)) : pyMapM (List.range S.length) f = .ok (linOps S 0) := by
  rw [pyMapM_ok _ f (fun i => ([i], S.getD i 0)) (fun i hi => h i (List.mem_range.mp hi))]
  have := linOps_eq_map id S 0
  simp only [List.map_id, id, Nat.zero_add] at this
  rw [this]

theorem NumberPartitioning_to_quso_eq_model (p : NP) (A : Rat) :
    NumberPartitioning_to_quso p.S p.numVars A = p.toQuso A := by
  unfold NumberPartitioning_to_quso NP.toQuso NP.numVars
  rw [pyMapM_linOps p.S _ (by
    intro i hi
    simp [pyListAt_lt _ _ hi, List.getD_eq_getElem?_getD, List.getElem?_eq_getElem hi])]
  simp only [pyMatOfDict, pyMatMulNum, pyMatMul, bind_assocP, bind_ok_id, ok_bindP]
  all_goals first
  | rfl
  | (simp only [bind, pure, Except.bind, Except.pure]; done)
  | (cases construct (squash .qusom) (linOps p.S 0) <;> simp [bind, pure, Except.bind, Except.pure] <;> grind)

/-- `to_quso()` with the default weight `A = 1` -/
theorem NumberPartitioning_to_quso_default_eq_model (p : NP) :
    NumberPartitioning_to_quso_default p.S p.numVars = p.toQuso 1 := by
  unfold NumberPartitioning_to_quso_default
  exact NumberPartitioning_to_quso_eq_model p 1

/-- `Ctor(S[i] for i, v in solution.items() if pred v)` -/
theorem pyMapM_filter_pick (S : List Rat) (pred : Rat → Bool) (q : Nat × Rat → Bool) (f : Nat × Rat → Except Err Rat)
    (hq : ∀ it, q it = pred it.2) (hf : ∀ it, f it = listGet S it.1) (s : Sol) :
    pyMapM (List.filter q s) f = NP.pick S pred s := by
  induction s with
  | nil => rfl
  | cons a r ih =>
    obtain ⟨i, v⟩ := a
    have hqa : q (i, v) = pred v := hq (i, v)
    cases hp : pred v
    · simp [List.filter, hqa, hp, NP.pick, ih]
    · simp only [List.filter, hqa, hp, NP.pick, pyMapM, hf, ih, if_true]
      rfl

theorem NumberPartitioning_convert_solution_eq_model (p : NP) (s : Sol) (isDict spin : Bool) :
    NumberPartitioning_convert_solution p.S p.numVars s isDict spin = p.convert s := by
  unfold NumberPartitioning_convert_solution NP.convert
  split <;>
  · simp only []
    rw [pyMapM_filter_pick p.S isOne _ _ (by intro it; simp [isOne]) (by intro it; simp [pyListAt_eq_listGet])]
    rw [pyMapM_filter_pick p.S notOne _ _ (by intro it; simp [notOne]) (by intro it; simp [pyListAt_eq_listGet])]
    all_goals first | rfl | (simp only [bind, pure, Except.bind, Except.pure]; done)

theorem NumberPartitioning_is_solution_valid_eq_model (p : NP) (s : Sol) (isDict spin : Bool) :
    NumberPartitioning_is_solution_valid p.S p.numVars s isDict spin = p.valid s := by
  unfold NumberPartitioning_is_solution_valid NP.valid
  rw [NumberPartitioning_convert_solution_eq_model]
  simp only [pySum_eq_sumL, NP.validConv]
  all_goals first | rfl | (cases p.convert s <;> simp [bind, pure, Except.bind, Except.pure] <;> grind)

theorem NumberPartitioning_is_solution_valid_converted_eq_model (p : NP) (c : List Rat × List Rat) (spin : Bool) :
    NumberPartitioning_is_solution_valid_converted p.S p.numVars c spin = .ok (NP.validConv c) := by
  unfold NumberPartitioning_is_solution_valid_converted
  simp only [pySum_eq_sumL, NP.validConv]
  all_goals first | rfl | (congr 1; simp; done) | grind

/-! ## GraphPartitioning -/

/-- `for (u, v), w in self._edges.items(): L[(ix[u], ix[v])] -= w * B / 2` -/
theorem pyForM_cutLoop (order : List Var) (B : Rat) (body : Poly → (Var × Var) × Rat → Except Err Poly)
    (h : ∀ L u v w, body L ((u, v), w) =
      (indexIn order u >>= fun iu => indexIn order v >>= fun iv => addTerm (squash .qusom) L [iu, iv] (-(w * B / 2))))
    (edges : List ((Var × Var) × Rat)) (L : Poly) : pyForM edges L body = GP.cutLoop order B L edges := by
  induction edges generalizing L with
  | nil => rfl
  | cons e r ih =>
    obtain ⟨⟨u, v⟩, w⟩ := e
    simp only [pyForM, GP.cutLoop, h]
    cases indexIn order u with
    | error e => rfl
    | ok iu =>
      cases indexIn order v with
      | error e => rfl
      | ok iv =>
        cases hL : addTerm (squash .qusom) L [iu, iv] (-(w * B / 2)) with
        | error e => simp [bind, Except.bind, hL]
        | ok L' => simpa [bind, Except.bind, hL] using ih L'

theorem GraphPartitioning_to_quso_eq_model (p : GP) (A : Option Rat) (B : Rat) :
    GraphPartitioning_to_quso p.edges p.order p.numVars p.degree A B = p.toQuso A B := by
  unfold GraphPartitioning_to_quso GP.toQuso
  cases A <;>
  · simp only [pyPcsoEqZero, pyMatIAdd, pyMatIAddNum, iaddC, pySum_eq_sumL, bind_ok_id]
    rw [funext (pyForM_cutLoop p.order B _ (by
      intro L u v w
      simp only [pyIndexOf_eq_indexIn, pyMatIAddItem, bind_ok_id]
      all_goals first | rfl | (congr; funext iu; congr; funext iv; congr 1; ring)) p.edges)]
    all_goals first
    | rfl
    | (simp only [bind, pure, Except.bind, Except.pure]; done)
    | (simp [bind, pure, Except.bind, Except.pure, mul_comm, mul_left_comm]; done)

/-- `to_quso()` with the defaults `A = None` (i.e. `min(2·degree, N)·B/8`) and `B = 1` -/
theorem GraphPartitioning_to_quso_default_eq_model (p : GP) :
    GraphPartitioning_to_quso_default p.edges p.order p.numVars p.degree = p.toQuso none 1 := by
  unfold GraphPartitioning_to_quso_default
  exact GraphPartitioning_to_quso_eq_model p none 1

/-- `set(inv[i] for i, v in solution.items() if pred v)` -/
theorem pyMapM_filter_gpPick (order : List Var) (pred : Rat → Bool) (q : Nat × Rat → Bool) (f : Nat × Rat → Except Err Var)
    (hq : ∀ it, q it = pred it.2) (hf : ∀ it, f it = vertexAt order it.1) (s : Sol) :
    (pyMapM (List.filter q s) f >>= fun l => .ok (pySortedSet l)) = GP.pick order pred s := by
  induction s with
  | nil => rfl
  | cons a r ih =>
    obtain ⟨i, v⟩ := a
    have hqa : q (i, v) = pred v := hq (i, v)
    cases hp : pred v
    · simp [List.filter, hqa, hp, GP.pick, ih]
    · simp only [List.filter, hqa, hp, GP.pick, pyMapM, hf, ← ih, if_true]
      cases vertexAt order i with
      | error e => rfl
      | ok a =>
        cases pyMapM (List.filter q r) f with
        | error e => rfl
        | ok l => simp [bind, pure, Except.bind, Except.pure, pySortedSet, squashB]

theorem GraphPartitioning_convert_solution_eq_model (p : GP) (s : Sol) (isDict spin : Bool) :
    GraphPartitioning_convert_solution p.edges p.order p.numVars p.degree s isDict spin = p.convert s := by
  unfold GraphPartitioning_convert_solution GP.convert
  rw [← pyMapM_filter_gpPick p.order isOne (fun it => decide (it.2 = 1)) (fun it => pyDictAt p.order it.1)
      (by intro it; simp [isOne]) (by intro it; simp [pyDictAt_eq_vertexAt]),
    ← pyMapM_filter_gpPick p.order notOne (fun it => decide (it.2 ≠ 1)) (fun it => pyDictAt p.order it.1)
      (by intro it; simp [notOne]) (by intro it; simp [pyDictAt_eq_vertexAt])]
  split <;>
  · simp only [bind_assocP, bind_ok_id, ok_bindP]
    all_goals first | rfl | (simp only [bind, pure, Except.bind, Except.pure]; done)

theorem GraphPartitioning_is_solution_valid_eq_model (p : GP) (s : Sol) (isDict spin : Bool) :
    GraphPartitioning_is_solution_valid p.edges p.order p.numVars p.degree s isDict spin = p.valid s := by
  unfold GraphPartitioning_is_solution_valid GP.valid
  rw [GraphPartitioning_convert_solution_eq_model]
  simp only [GP.validConv]
  all_goals first
  | rfl
  | (cases p.convert s <;> simp [bind, pure, Except.bind, Except.pure] <;> grind)

theorem GraphPartitioning_is_solution_valid_converted_eq_model (p : GP) (c : List Var × List Var) (spin : Bool) :
    GraphPartitioning_is_solution_valid_converted p.edges p.order p.numVars p.degree c spin = .ok (GP.validConv c) := by
  unfold GraphPartitioning_is_solution_valid_converted
  simp only [GP.validConv]
  all_goals first | rfl | (congr 1; simp; done) | grind

end Qv.Gen
