import Qv.Gen.Source
import Qv.Model.Extrema
import Mathlib.Tactic.Ring
import Mathlib.Tactic.Linarith
import Mathlib.Algebra.Order.Ring.Rat
/-!
# GenEq.Extrema — the generated `approximate_*_extrema` equal the model's `puboExtrema` / `pusoExtrema`

`Qv.Gen.approximate_pubo_extrema` is regenerated from `qubovert/utils/_approximate_extrema.py` on every
run; these theorems tie it to the hand-written model the C15 (and C02/C03/C06) theorems are about.
The source folds left (`for k, v in P.items()` updating `min_, max_`), the model recurses right; the
equality is by induction with the accumulator generalised.  The proofs do not mention the generated
term: they unfold it, let `rw` find the loop body, and discharge the one obligation about the body
("one iteration adds this term's contribution") by case analysis and linear arithmetic — so a
re-association or an equivalent test still checks, a different contribution does not.
-/
-- alternatives kept for robustness against equivalent reshapings of the generated term
set_option linter.unusedTactic false
set_option linter.unreachableTactic false
namespace Qv.Gen

theorem pyAbs_eq_absR (v : Rat) : pyAbs v = absR v := rfl

/-- a left fold whose step adds the model's one-term contribution computes the model's right recursion -/
theorem pubo_fold (f : Rat × Rat → Key × Rat → Rat × Rat)
    (hf : ∀ a b k v, f (a, b) (k, v) =
      (a + (puboExtrema [(k, v)]).1, b + (puboExtrema [(k, v)]).2)) :
    ∀ (P : Poly) (a b : Rat), List.foldl f (a, b) P = (a + (puboExtrema P).1, b + (puboExtrema P).2) := by
  intro P
  induction P with
  | nil => intro a b; simp [puboExtrema]
  | cons kv r ih =>
    intro a b
    obtain ⟨k, v⟩ := kv
    rw [List.foldl_cons, hf, ih]
    simp only [puboExtrema]
    split_ifs <;> refine Prod.ext ?_ ?_ <;> simp <;> ring

theorem puso_fold (f : Rat × Rat → Key × Rat → Rat × Rat)
    (hf : ∀ a b k v, f (a, b) (k, v) =
      (a + (pusoExtrema [(k, v)]).1, b + (pusoExtrema [(k, v)]).2)) :
    ∀ (P : Poly) (a b : Rat), List.foldl f (a, b) P = (a + (pusoExtrema P).1, b + (pusoExtrema P).2) := by
  intro P
  induction P with
  | nil => intro a b; simp [pusoExtrema]
  | cons kv r ih =>
    intro a b
    obtain ⟨k, v⟩ := kv
    rw [List.foldl_cons, hf, ih]
    simp only [pusoExtrema]
    split_ifs <;> refine Prod.ext ?_ ?_ <;> simp <;> ring

/-- closes `(x₁, x₂) = (y₁, y₂)` over `Rat` from the order facts in context -/
macro "pair_arith" : tactic =>
  `(tactic| first
    | rfl
    | (refine Prod.ext ?_ ?_ <;> simp only [] <;> first | linarith | (simp; linarith))
    -- a combination of tests no input satisfies (reordered / merged branches of the source)
    | (exfalso; simp_all; done)
    | (exfalso; simp_all; linarith)
    | (simp_all; done)
    | (refine Prod.ext ?_ ?_ <;> simp_all <;> linarith)
    | grind)

/-- `approximate_pubo_extrema` (generated from the source) is the model's `puboExtrema` -/
theorem approximate_pubo_extrema_eq_model (P : Poly) : approximate_pubo_extrema P = puboExtrema P := by
  unfold approximate_pubo_extrema
  simp only []
  rw [pubo_fold _ ?step P 0 0]
  · simp
  · intro a b k v
    simp only [puboExtrema]
    split_ifs <;> pair_arith

/-- `approximate_puso_extrema` (generated from the source) is the model's `pusoExtrema` -/
theorem approximate_puso_extrema_eq_model (H : Poly) : approximate_puso_extrema H = pusoExtrema H := by
  unfold approximate_puso_extrema
  simp only []
  rw [puso_fold _ ?step H 0 0]
  · simp
  · intro a b k v
    simp only [pusoExtrema, pyAbs_eq_absR]
    split_ifs <;> pair_arith

/-- `approximate_qubo_extrema` delegates -/
theorem approximate_qubo_extrema_eq_model (Q : Poly) : approximate_qubo_extrema Q = puboExtrema Q := by
  unfold approximate_qubo_extrema; exact approximate_pubo_extrema_eq_model Q

/-- `approximate_quso_extrema` delegates -/
theorem approximate_quso_extrema_eq_model (L : Poly) : approximate_quso_extrema L = pusoExtrema L := by
  unfold approximate_quso_extrema; exact approximate_puso_extrema_eq_model L

/-! non-vacuity: both sides computed on a concrete polynomial with an offset, a negative and two
positive terms -/
example : approximate_pubo_extrema [([], 2), ([0], -3), ([0, 1], 5), ([2], 1/2)] = (-1, 15/2) := by decide +kernel
example : puboExtrema [([], 2), ([0], -3), ([0, 1], 5), ([2], 1/2)] = (-1, 15/2) := by decide +kernel
example : approximate_puso_extrema [([], 2), ([0], -3), ([0, 1], 5)] = (-6, 10) := by decide +kernel
example : pusoExtrema [([], 2), ([0], -3), ([0, 1], 5)] = (-6, 10) := by decide +kernel

end Qv.Gen
