import Qv.Gen.SourceCons
import Qv.Proofs.GenEq.Bits
import Qv.Proofs.GenEq.PyList
import Qv.Gen.Interp
/-!
# GenEq.Cons — the decision chains generated from `PCBO.add_constraint_{lt,le,gt,ge,ne}_zero` equal the
branch structure of the model's `addLtZero`, `addLeZero`, `addGtZero`, `addGeZero`, `addNeZero` (C02; C03 and
C06 go through the same methods)

The generated functions (`Qv/Gen/SourceCons.lean`) return the list of the abstracted statements executed, in
order, with the translated values of `min_val`, `max_val`, `v`, `bounds` they mention; `runCEff` below says what
each of these statements does to the model state.  The theorems: after the `lam = 0` shortcut (and, for `le`,
the structural shortcuts of `_special_constraints_le_zero`), the model function does exactly what the
generated chain says on the bounds `_get_bounds` returns — same comparisons in the same order, same warning,
same shifted / negated bounds handed to the next method, same number of slack ancillas with the same
coefficients (`num_bits`, generated too).
-/
set_option linter.unusedTactic false
set_option linter.unreachableTactic false
set_option linter.unusedSimpArgs false
set_option linter.unusedVariables false
namespace Qv.Gen

theorem untagged_tag (s : St) (t : String) : untagged (s.tag t) = untagged s := rfl

/-! ## `lt`, `gt`, `ge` -/

theorem add_constraint_lt_zero_decision_eq_model (s : St) (P : Poly) (lam : Rat) (lt : Bool)
    (b : Option Rat × Option Rat) (sup : Bool) (hlam : lam ≠ 0) :
    (add_constraint_lt_zero_decision lt sup (getBounds P b).1 (getBounds P b).2).map
        (runChain lam lt (s.append .lt P) P) = .ok (untagged (addLtZero s P lam lt b sup)) := by
  unfold addLtZero
  simp only [hlam, if_false]
  generalize getBounds P b = bd
  obtain ⟨lo, hi⟩ := bd
  unfold add_constraint_lt_zero_decision
  cases sup <;> simp only [] <;> split_ifs <;>
    first
    | rfl
    | (exfalso; simp_all; done)
    | (exfalso; simp_all; linarith)
    | (simp_all [Except.map, runChain, runCEff, untagged, St.warn, St.tag, St.plus, relOf]; done)

theorem add_constraint_gt_zero_decision_eq_model (s : St) (P : Poly) (lam : Rat) (lt : Bool)
    (b : Option Rat × Option Rat) (sup : Bool) (hlam : lam ≠ 0) :
    (add_constraint_gt_zero_decision lt sup (getBounds P b).1 (getBounds P b).2).map
        (runChain lam lt (s.append .gt P) P) = .ok (untagged (addGtZero s P lam lt b sup)) := by
  unfold addGtZero
  simp only [hlam, if_false]
  generalize getBounds P b = bd
  obtain ⟨lo, hi⟩ := bd
  unfold add_constraint_gt_zero_decision
  first
  | rfl
  | (simp [Except.map, runChain, runCEff, untagged, relOf]; done)

theorem add_constraint_ge_zero_decision_eq_model (s : St) (P : Poly) (lam : Rat) (lt : Bool)
    (b : Option Rat × Option Rat) (sup : Bool) (hlam : lam ≠ 0) :
    (add_constraint_ge_zero_decision lt sup (getBounds P b).1 (getBounds P b).2).map
        (runChain lam lt (s.append .ge P) P) = .ok (untagged (addGeZero s P lam lt b sup)) := by
  unfold addGeZero
  simp only [hlam, if_false]
  generalize getBounds P b = bd
  obtain ⟨lo, hi⟩ := bd
  unfold add_constraint_ge_zero_decision
  first
  | rfl
  | (simp [Except.map, runChain, runCEff, untagged, relOf]; done)

/-! ## `le`: the slack loop -/

theorem pow_cast (i : Nat) : (((2 ^ i : Nat) : Nat) : Rat) = (2 : Rat) ^ i := by push_cast; rfl

/-- the loop `for i in range(n): v = …; P[(next_ancilla,)] += v; max_val += v` (generated) produces the
slack statements whose effect is the model's `slackLoop`, and the same final `max_val` -/
theorem slack_loop (lam : Rat) (lt : Bool) (f : Rat × List CEff → Nat → Except Err (Rat × List CEff))
    (hf : ∀ acc i, f acc i = .ok (acc.1 + (if lt = true then (2 : Rat) ^ i else 1),
      acc.2 ++ [CEff.slack (if lt = true then (2 : Rat) ^ i else 1)])) :
    ∀ (n i : Nat) (hi : Rat) (effs : List CEff),
      ∃ effs' hi', pyForM (List.range' i n) (hi, effs) f = .ok (hi', effs ++ effs') ∧
        ∀ (s : St) (P sg : Poly),
          (effs'.foldl (runCEff lam lt) { s := s, P := P, sign := sg }) =
            { s := (slackLoop lt s P hi i n).1, P := (slackLoop lt s P hi i n).2.1, sign := sg } ∧
          (slackLoop lt s P hi i n).2.2 = hi' := by
  intro n
  induction n with
  | zero =>
    intro i hi effs
    exact ⟨[], hi, by simp [pyForM], fun s P sg => ⟨rfl, rfl⟩⟩
  | succ n ih =>
    intro i hi effs
    obtain ⟨effs', hi', h1, h2⟩ := ih (i + 1) (hi + (if lt = true then (2 : Rat) ^ i else 1))
      (effs ++ [CEff.slack (if lt = true then (2 : Rat) ^ i else 1)])
    refine ⟨CEff.slack (if lt = true then (2 : Rat) ^ i else 1) :: effs', hi', ?_, ?_⟩
    · simp only [List.range'_succ, pyForM, hf, ok_bind']
      rw [h1]; simp
    · intro s P sg
      have hv : (if lt = true then (((2 ^ i : Nat) : Nat) : Rat) else 1) = (if lt = true then (2 : Rat) ^ i else 1) := by
        rw [pow_cast]
      simp only [List.foldl_cons, slackLoop, runCEff, hv]
      exact h2 _ _ sg

/-- the slack coefficients `1, 2, 4, …` (log trick) or `1, 1, 1, …`, for the bits `i, …, i+n-1` -/
def slackCoefs (lt : Bool) (i n : Nat) : List Rat :=
  (List.range' i n).map (fun j => if lt = true then (2 : Rat) ^ j else 1)

/-- the same loop written over a precomputed list of coefficients -/
theorem slack_list_loop (lam : Rat) (lt : Bool) (f : Rat × List CEff → Rat → Except Err (Rat × List CEff))
    (hf : ∀ acc v, f acc v = .ok (acc.1 + v, acc.2 ++ [CEff.slack v])) :
    ∀ (n i : Nat) (hi : Rat) (effs : List CEff),
      ∃ effs' hi', pyForM (slackCoefs lt i n) (hi, effs) f = .ok (hi', effs ++ effs') ∧
        ∀ (s : St) (P sg : Poly),
          (effs'.foldl (runCEff lam lt) { s := s, P := P, sign := sg }) =
            { s := (slackLoop lt s P hi i n).1, P := (slackLoop lt s P hi i n).2.1, sign := sg } ∧
          (slackLoop lt s P hi i n).2.2 = hi' := by
  intro n
  induction n with
  | zero =>
    intro i hi effs
    exact ⟨[], hi, by simp [slackCoefs, pyForM], fun s P sg => ⟨rfl, rfl⟩⟩
  | succ n ih =>
    intro i hi effs
    obtain ⟨effs', hi', h1, h2⟩ := ih (i + 1) (hi + (if lt = true then (2 : Rat) ^ i else 1))
      (effs ++ [CEff.slack (if lt = true then (2 : Rat) ^ i else 1)])
    refine ⟨CEff.slack (if lt = true then (2 : Rat) ^ i else 1) :: effs', hi', ?_, ?_⟩
    · simp only [slackCoefs, List.range'_succ, List.map_cons, pyForM, hf, ok_bind']
      simp only [slackCoefs] at h1
      rw [h1]; simp
    · intro s P sg
      have hv : (if lt = true then (((2 ^ i : Nat) : Nat) : Rat) else 1) = (if lt = true then (2 : Rat) ^ i else 1) := by
        rw [pow_cast]
      simp only [List.foldl_cons, slackLoop, runCEff, hv]
      exact h2 _ _ sg

theorem coefs_log (n : Nat) :
    List.map (fun (i : Nat) => (1 : Rat) * (2 : Rat) ^ i) (List.range' 0 n) = slackCoefs true 0 n := by
  simp [slackCoefs]

theorem pyRepeat_one (n : Nat) : pyRepeat [(1 : Rat)] (n : Int) = slackCoefs false 0 n := by
  have h : ∀ (i n : Nat), (List.replicate n [(1 : Rat)]).flatten = slackCoefs false i n := by
    intro i n
    induction n generalizing i with
    | zero => simp [slackCoefs]
    | succ n ih => simp only [List.replicate_succ, List.flatten_cons, ih (i + 1)]; simp [slackCoefs, List.range'_succ]
  simp [pyRepeat, h 0 n]

theorem foldl_runCEff_append (lam : Rat) (lt : Bool) (c : CSt) (a b : List CEff) :
    (a ++ b).foldl (runCEff lam lt) c = b.foldl (runCEff lam lt) (a.foldl (runCEff lam lt) c) :=
  List.foldl_append

theorem add_constraint_le_zero_decision_eq_model (s : St) (P : Poly) (lam : Rat) (lt : Bool)
    (b : Option Rat × Option Rat) (sup : Bool) (hlam : lam ≠ 0)
    (hsp : specialLe (s.append .le P) P lam lt (getBounds P b) = none) :
    (add_constraint_le_zero_decision lt sup (getBounds P b).1 (getBounds P b).2).map
        (runChain lam lt (s.append .le P) P) = .ok (untagged (addLeZero s P lam lt b sup)) := by
  unfold addLeZero
  simp only [hlam, if_false]
  revert hsp
  generalize getBounds P b = bd
  obtain ⟨lo, hi⟩ := bd
  intro hsp
  simp only [hsp]
  unfold add_constraint_le_zero_decision
  by_cases h1 : lo > 0
  · cases sup <;> simp [h1, Except.map, runChain, runCEff, untagged, St.warn, St.tag, St.plus]
  · by_cases h2 : hi ≤ 0
    · cases sup <;> simp [h1, h2, Except.map, runChain, runCEff, untagged, St.warn, St.tag, St.plus]
    · simp only [h1, h2, if_false]
      by_cases h3 : lo = 0
      · simp [h3, Except.map, runChain, runCEff, untagged, St.tag, relOf]
      · have hnb : num_bits (-lo) lt = .ok ((numBits (-lo) lt : Nat) : Int) :=
          num_bits_eq_model (-lo) lt (by linarith [not_lt.mp h1])
        have h3' : lo ≠ 0 := h3
        first
        | (-- the loop runs over the bit indices and computes the coefficient inside
           simp only [h3', ne_eq, not_false_eq_true, if_true, hnb, ok_bind', pyRangeNat, Int.toNat_natCast,
             List.range_eq_range']
           obtain ⟨effs', hi', hloop, hrun⟩ := slack_loop lam lt _ (fun acc i => rfl) (numBits (-lo) lt) 0 hi
             ([] ++ [CEff.pCopy])
           rw [hloop]
           obtain ⟨hr1, hr2⟩ := hrun (s.append .le P) P []
           simp only [ok_bind', Except.map, runChain, foldl_runCEff_append, List.foldl_cons, List.foldl_nil, runCEff,
             List.nil_append, hr1, ← hr2, untagged, St.tag, relOf]
           done)
        | (-- the coefficients are precomputed into a list, then the loop runs over that list
           obtain ⟨effs', hi', hloop, hrun⟩ := slack_list_loop lam lt _ (fun acc v => rfl) (numBits (-lo) lt) 0 hi
             ([] ++ [CEff.pCopy])
           obtain ⟨hr1, hr2⟩ := hrun (s.append .le P) P []
           simp only [h3', ne_eq, not_false_eq_true, if_true, hnb, ok_bind', pyRangeNat, Int.toNat_natCast,
             List.range_eq_range']
           cases lt
           · simp only [Bool.false_eq_true, if_false, pyRepeat_one]
             rw [hloop]
             simp only [ok_bind', Except.map, runChain, foldl_runCEff_append, List.foldl_cons, List.foldl_nil, runCEff,
               List.nil_append, hr1, ← hr2, untagged, St.tag, relOf, Bool.false_eq_true, if_false]
           · simp only [if_true, coefs_log]
             rw [hloop]
             simp only [ok_bind', Except.map, runChain, foldl_runCEff_append, List.foldl_cons, List.foldl_nil, runCEff,
               List.nil_append, hr1, ← hr2, untagged, St.tag, relOf, if_true]
           done)

/-! ## `ne`: the two-sided slack loop -/

theorem ne_loop (lam : Rat) (lt : Bool) (f : Rat × Rat × List CEff → Nat → Except Err (Rat × Rat × List CEff))
    (hf : ∀ acc i, f acc i = .ok (acc.1 + (if lt = true then (2 : Rat) ^ i else 1),
      acc.2.1 - (if lt = true then (2 : Rat) ^ i else 1),
      acc.2.2 ++ [CEff.pAddSignAnc (if lt = true then (2 : Rat) ^ i else 1)])) :
    ∀ (n i : Nat) (hi lo : Rat) (effs : List CEff),
      ∃ effs' hi' lo', pyForM (List.range' i n) (hi, lo, effs) f = .ok (hi', lo', effs ++ effs') ∧
        ∀ (s : St) (P sg : Poly),
          (effs'.foldl (runCEff lam lt) { s := s, P := P, sign := sg }) =
            { s := (neLoop lt sg s P lo hi i n).1, P := (neLoop lt sg s P lo hi i n).2.1, sign := sg } ∧
          (neLoop lt sg s P lo hi i n).2.2 = (lo', hi') := by
  intro n
  induction n with
  | zero =>
    intro i hi lo effs
    exact ⟨[], hi, lo, by simp [pyForM], fun s P sg => ⟨rfl, rfl⟩⟩
  | succ n ih =>
    intro i hi lo effs
    obtain ⟨effs', hi', lo', h1, h2⟩ := ih (i + 1) (hi + (if lt = true then (2 : Rat) ^ i else 1))
      (lo - (if lt = true then (2 : Rat) ^ i else 1))
      (effs ++ [CEff.pAddSignAnc (if lt = true then (2 : Rat) ^ i else 1)])
    refine ⟨CEff.pAddSignAnc (if lt = true then (2 : Rat) ^ i else 1) :: effs', hi', lo', ?_, ?_⟩
    · simp only [List.range'_succ, pyForM, hf, ok_bind']
      rw [h1]; simp
    · intro s P sg
      have hv : (if lt = true then (((2 ^ i : Nat) : Nat) : Rat) else 1) = (if lt = true then (2 : Rat) ^ i else 1) := by
        rw [pow_cast]
      simp only [List.foldl_cons, neLoop, runCEff, hv]
      exact h2 _ _ sg

theorem add_constraint_ne_zero_decision_eq_model (s : St) (P : Poly) (lam : Rat) (lt : Bool)
    (b : Option Rat × Option Rat) (sup : Bool) (hlam : lam ≠ 0) :
    (add_constraint_ne_zero_decision lt sup (getBounds P b).1 (getBounds P b).2).map
        (runChain lam lt (s.append .ne P) P) = .ok (untagged (addNeZero s P lam lt b sup)) := by
  unfold addNeZero
  simp only [hlam, if_false]
  generalize getBounds P b = bd
  obtain ⟨lo, hi⟩ := bd
  unfold add_constraint_ne_zero_decision
  by_cases h0 : lo = 0 ∧ hi = 0
  · obtain ⟨rfl, rfl⟩ := h0
    cases sup <;> simp [Except.map, runChain, runCEff, untagged, St.warn, St.tag, St.plus]
  · have h0' : ¬ (lo = hi ∧ hi = 0) := by
      rintro ⟨h, h'⟩; exact h0 ⟨h.trans h', h'⟩
    simp only [h0, h0', if_false]
    by_cases h1 : lo > 0
    · cases sup <;> simp [h1, Except.map, runChain, runCEff, untagged, St.warn, St.tag]
    · by_cases h2 : hi < 0
      · cases sup <;> simp [h1, h2, Except.map, runChain, runCEff, untagged, St.warn, St.tag]
      · by_cases h3 : lo = 0
        · simp [h1, h2, h3, Except.map, runChain, runCEff, untagged, St.tag, relOf]
        · by_cases h4 : hi = 0
          · simp [h1, h2, h3, h4, Except.map, runChain, runCEff, untagged, St.tag, relOf]
          · simp only [h1, h2, h3, h4, if_false]
            have hlo : lo < 0 := lt_of_le_of_ne (not_lt.mp h1) h3
            have hhi : 0 < hi := lt_of_le_of_ne (not_lt.mp h2) (Ne.symm h4)
            have hnb : num_bits (hi + 1 - (lo - 1) - 1) lt = .ok ((numBits (hi + 1 - (lo - 1) - 1) lt : Nat) : Int) :=
              num_bits_eq_model _ lt (by linarith)
            simp only [hnb, ok_bind', pyRangeNat, Int.toNat_natCast, List.range_eq_range']
            obtain ⟨effs', hi', lo', hloop, hrun⟩ := ne_loop lam lt _ (fun acc i => rfl)
              (numBits (hi + 1 - (lo - 1) - 1) lt) 0 (hi + 1) (lo - 1) ([] ++ [CEff.pCopy] ++ [CEff.newSign] ++ [CEff.pAddSign])
            rw [hloop]
            obtain ⟨hr1, hr2⟩ := hrun (s.append .ne P).nextAnc.1
              (iaddB P (addConstB (addTermB [] [(s.append .ne P).nextAnc.2] 2) (-1)))
              (addConstB (addTermB [] [(s.append .ne P).nextAnc.2] 2) (-1))
            have hr2a := congrArg Prod.fst hr2
            have hr2b := congrArg Prod.snd hr2
            simp only at hr2a hr2b
            simp only [ok_bind', Except.map, runChain, foldl_runCEff_append, List.foldl_cons, List.foldl_nil, runCEff,
              List.nil_append, hr1, ← hr2a, ← hr2b, untagged, St.tag, relOf]

/-! ### Non-vacuity -/

example : (add_constraint_le_zero_decision true false (-3) 2).toOption =
    some [CEff.pCopy, .slack 1, .slack 2, .callEq (-3) 5, .pop "eq"] := by decide +kernel
example : (add_constraint_le_zero_decision false false (-3) 2).toOption =
    some [CEff.pCopy, .slack 1, .slack 1, .slack 1, .callEq (-3) 5, .pop "eq"] := by decide +kernel
example : (add_constraint_lt_zero_decision true false (-3) 2).toOption =
    some [CEff.pAddOne, .callLe (-2) 3, .pop "le"] := by decide +kernel
example : (add_constraint_ne_zero_decision true true (-1) 2).toOption =
    some [CEff.pCopy, .newSign, .pAddSign, .pAddSignAnc 1, .pAddSignAnc 2, .pAddSignAnc 4, .callEq (-9) 10, .pop "eq"] := by
  decide +kernel
example : (add_constraint_ge_zero_decision true true (-1) 2).toOption = some [CEff.callLeNeg (-2, 1) true, .pop "le"] := by
  decide +kernel
/-- hypothesis `hsp` of the `le` theorem holds for a polynomial none of the four shortcuts applies to -/
example : specialLe (({} : St).append .le [([0], 2), ([1], -3)]) [([0], 2), ([1], -3)] 1 true
    (getBounds [([0], 2), ([1], -3)] (none, none)) = none := by decide +kernel

end Qv.Gen
