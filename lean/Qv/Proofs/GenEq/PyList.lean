import Qv.Gen.PreludeM
import Mathlib.Tactic.Ring
/-!
# GenEq.PyList — facts about the prelude's Python list primitives (`pySlice`, `pyIndex`, `pyForM`) and the
`Except` monad, used by the equivalence proofs of the functions translated in monadic mode
-/
namespace Qv.Gen

theorem bind_ok_self {α : Type} (a : Except Err α) : (a >>= fun m => (Except.ok m : Except Err α)) = a := by
  cases a <;> rfl

theorem ok_bind' {α β : Type} (a : α) (f : α → Except Err β) : ((Except.ok a : Except Err α) >>= f) = f a := rfl
theorem error_bind' {α β : Type} (e : Err) (f : α → Except Err β) :
    ((Except.error e : Except Err α) >>= f) = .error e := rfl

theorem bind_assoc' {α β γ : Type} (a : Except Err α) (f : α → Except Err β) (g : β → Except Err γ) :
    ((a >>= f) >>= g) = (a >>= fun x => f x >>= g) := by
  cases a <;> rfl

theorem bind_congr' {α β : Type} (a : Except Err α) (f g : α → Except Err β) (h : ∀ x, a = .ok x → f x = g x) :
    (a >>= f) = (a >>= g) := by
  cases a with
  | error e => rfl
  | ok x => exact h x rfl

theorem pyIndex_zero_cons {α : Type} (a : α) (r : List α) : pyIndex (a :: r) (0 : Int) = .ok a := by
  simp [pyIndex]

theorem pyIndex_one_cons {α : Type} (a b : α) (r : List α) : pyIndex (a :: b :: r) (1 : Int) = .ok b := by
  simp [pyIndex]

theorem pyIndex_neg_one_concat {α : Type} (l : List α) (a : α) : pyIndex (l ++ [a]) (-1 : Int) = .ok a := by
  have h1 : ((-1 : Int) < 0) := by decide
  have h2 : ¬ (((l ++ [a]).length : Int) + (-1) < 0) := by simp
  have h3 : (((l ++ [a]).length : Int) + (-1)).toNat = l.length := by simp
  simp only [pyIndex, h1, if_true, h2, if_false, h3]
  simp

theorem pySlice_to_neg_one_concat {α : Type} (l : List α) (a : α) : pySlice (l ++ [a]) none (some (-1)) = l := by
  rw [pySlice_to_neg_one]; simp

theorem pySlice_to_nat {α : Type} (l : List α) (n : Nat) : pySlice l none (some (n : Int)) = l.take n := by
  have : pyClamp l.length (n : Int) = min n l.length := by
    unfold pyClamp
    rw [if_neg (by omega)]
    simp
  simp only [pySlice, this, List.drop_zero]
  rw [List.take_eq_take_iff]
  omega

theorem pySlice_from_nat {α : Type} (l : List α) (n : Nat) : pySlice l (some (n : Int)) none = l.drop n := by
  have : pyClamp l.length (n : Int) = min n l.length := by
    unfold pyClamp
    rw [if_neg (by omega)]
    simp
  simp only [pySlice, this, List.take_length]
  by_cases h : n ≤ l.length
  · rw [Nat.min_eq_left h]
  · have h' : l.length ≤ n := by omega
    rw [Nat.min_eq_right h', List.drop_length, List.drop_eq_nil_of_le h']

theorem pyUnpackAtLeast_one_concat {α : Type} (l : List α) (a : α) : pyUnpackAtLeast (l ++ [a]) 1 = .ok () := by
  simp [pyUnpackAtLeast]

theorem exists_concat_of_ne_nil {α : Type} (l : List α) (h : l ≠ []) : ∃ init a, l = init ++ [a] :=
  ⟨l.dropLast, l.getLast h, (List.dropLast_concat_getLast h).symm⟩

end Qv.Gen
