import Qv.Gen.SourceInfoRT
import Qv.Proofs.GenEq.PyList
import Mathlib.Tactic.Ring
/-!
# GenEq.InfoRT — `get_info` and `create_from_info`, generated from the source as whole functions, equal the model's
`getInfo` / `createFromInfo` (C19)

Covered by the generated text: which fields `get_info` reads and under which `hasattr` condition; in `create_from_info` the
order of the steps, that the name is assigned unconditionally, the two guards (`"mapping" in info and info["mapping"] is not
None`, `"num_ancillas" in info and info["num_ancillas"]` — truthiness), and that every recorded constraint is re-added with
`lam=0` under its own relation.  `create_from_info` is tied on well-formed infos (`InfoWF`: a mapping only for a labelled
type, constraints only for a constrained type — what `get_info` produces: `getInfo_wf`); outside, the model is coarser
than the code (it accepts a mapping for a Matrix type, and rejects an empty constraints dict for an unconstrained one).
-/
set_option linter.unusedTactic false
set_option linter.unreachableTactic false
set_option linter.unusedSimpArgs false
set_option linter.unusedVariables false
namespace Qv.Gen
open Qv

theorem get_info_fn_eq_model (m : MObj) : get_info_fn m = .ok (getInfo m) := by
  obtain ⟨kind, terms, name, mapping, anc, cons⟩ := m
  unfold get_info_fn getInfo
  cases kind <;>
    simp [pyForM, pyHasAttr, pyGetAttr, pyInfoSetItem, pyInfoNew, Kind.isLabelled, Kind.isConstrained, ok_bind', bind, Except.bind]

/-- an info dict as `get_info` produces them -/
def InfoWF (info : Info) : Prop :=
  (info.mapping.isSome = true → info.kind.isLabelled = true) ∧ (info.constraints.isSome = true → info.kind.isConstrained = true)

theorem getInfo_wf (m : MObj) : InfoWF (getInfo m) := by
  unfold InfoWF getInfo
  constructor <;> (simp only []; split_ifs <;> simp_all)

theorem inner_loop (r : Rel) (body : MObj → Poly → Except Err MObj)
    (hb : ∀ m x, body m x = pyAddConstraintLam0 m r x) :
    ∀ (v : List Poly) (m : MObj),
      pyForM v m body = (readdList m.kind r m.cons v).map (fun c => { m with cons := c }) := by
  intro v
  induction v with
  | nil => intro m; rfl
  | cons x t ih =>
    intro m
    simp only [pyForM, hb, pyAddConstraintLam0, readdList]
    cases storeCons m.kind x with
    | error e => rfl
    | ok p => exact ih _

theorem outer_loop (body : MObj → Rel × List Poly → Except Err MObj)
    (hb : ∀ m it, body m it = (pyGetConstraintMethod m it.1 >>= fun meth =>
      pyForM it.2 m (fun acc x => pyAddConstraintLam0 acc meth x))) :
    ∀ (cs : List (Rel × List Poly)) (m : MObj), m.kind.isConstrained = true →
      pyForM cs m body = (readdAll m.kind m.cons cs).map (fun c => { m with cons := c }) := by
  intro cs
  induction cs with
  | nil => intro m _; rfl
  | cons it t ih =>
    intro m hc
    obtain ⟨r, l⟩ := it
    simp only [pyForM, hb, pyGetConstraintMethod, hc, if_true, ok_bind', readdAll]
    rw [inner_loop r _ (fun m x => rfl) l m]
    cases readdList m.kind r m.cons l with
    | error e => rfl
    | ok c => exact ih _ hc

/-- the loop over `info.get("constraints", {}).items()` on the freshly built object -/
theorem cons_part (kind : Kind) (constraints : Option (List (Rel × List Poly)))
    (hw2 : constraints.isSome = true → kind.isConstrained = true)
    (body : MObj → Rel × List Poly → Except Err MObj)
    (hb : ∀ m it, body m it = (pyGetConstraintMethod m it.1 >>= fun meth =>
      pyForM it.2 m (fun acc x => pyAddConstraintLam0 acc meth x)))
    (m : MObj) (hk : m.kind = kind) (hc0 : m.cons = []) :
    pyForM (constraints.getD []) m body =
      (match constraints with
       | none => .ok m
       | some cs => if kind.isConstrained = true then (readdAll kind [] cs) >>= fun c => .ok { m with cons := c }
                    else .error .attr) := by
  cases constraints with
  | none => rfl
  | some cs =>
    have hcon := hw2 rfl
    subst hk
    simp only [Option.getD_some, hcon, if_true]
    rw [outer_loop body hb cs m hcon, hc0]
    cases readdAll m.kind [] cs <;> rfl

theorem create_from_info_fn_eq_model (info : Info) (hw : InfoWF info) :
    create_from_info_fn info = createFromInfo info := by
  obtain ⟨kind, terms, name, mapping, numAnc, constraints⟩ := info
  obtain ⟨hw1, hw2⟩ := hw
  simp only [] at hw1 hw2
  unfold create_from_info_fn createFromInfo
  simp only [ite_self, pyUConstruct, pyModuleClass]
  cases hct : construct (squash kind) terms with
  | error e => rfl
  | ok t =>
    simp only [Except.map, ok_bind', pyInfoHas, pyInfoNumTruthy, pyInfoGetMapping, pyInfoGetNum, pyInfoConstraintItems,
      and_self, String.reduceEq, if_false, if_true, reduceCtorEq, bind_ok_self]
    have fin : ∀ (m : MObj), m.kind = kind → m.cons = [] → ∀ (body : MObj → Rel × List Poly → Except Err MObj),
        (∀ m it, body m it = (pyGetConstraintMethod m it.1 >>= fun meth =>
          pyForM it.2 m (fun acc x => pyAddConstraintLam0 acc meth x))) →
        pyForM (constraints.getD []) m body =
          (match constraints with
           | none => pure m
           | some cs => if kind.isConstrained = true then (readdAll kind [] cs) >>= fun c => pure { m with cons := c }
                        else throw .attr) :=
      fun m hk hc0 body hb => cons_part kind constraints hw2 body hb m hk hc0
    cases mapping with
    | none =>
      cases numAnc with
      | none =>
        first
        | (simp only [Option.isSome_none, Bool.false_eq_true, if_false, and_false, false_and]
           rw [fin _ rfl rfl _ (fun _ _ => rfl)]
           cases constraints <;> first | rfl | (simp only []; split_ifs <;> first | rfl | (cases readdAll kind [] _ <;> rfl)))
        | (simp only [ne_eq, not_true_eq_false, not_false_eq_true, if_true, if_false, ok_bind', Option.isSome_some, Option.isSome_none, pySetMapping, reduceCtorEq, *]
           rw [fin _ rfl rfl _ (fun _ _ => rfl)]
           cases constraints <;> first | rfl | (simp only []; split_ifs <;> first | rfl | (cases readdAll kind [] _ <;> rfl)))
        | (simp [pySetMapping, *]
           rw [fin _ rfl rfl _ (fun _ _ => rfl)]
           cases constraints <;> first | rfl | (simp only []; split_ifs <;> first | rfl | (cases readdAll kind [] _ <;> rfl)))
      | some n =>
        by_cases hn : n = 0
        · subst hn
          first
          | (simp only [Option.isSome_none, Option.isSome_some, Bool.false_eq_true, if_false, bne_self_eq_false, and_false,
              false_and, and_true]
             rw [fin _ rfl rfl _ (fun _ _ => rfl)]
             cases constraints <;> first | rfl | (simp only []; split_ifs <;> first | rfl | (cases readdAll kind [] _ <;> rfl)))
          | (simp only [ne_eq, not_true_eq_false, not_false_eq_true, if_true, if_false, ok_bind', Option.isSome_some, Option.isSome_none, pySetMapping, reduceCtorEq, *]
             rw [fin _ rfl rfl _ (fun _ _ => rfl)]
             cases constraints <;> first | rfl | (simp only []; split_ifs <;> first | rfl | (cases readdAll kind [] _ <;> rfl)))
          | (simp [pySetMapping, *]
             rw [fin _ rfl rfl _ (fun _ _ => rfl)]
             cases constraints <;> first | rfl | (simp only []; split_ifs <;> first | rfl | (cases readdAll kind [] _ <;> rfl)))
        · have hn' : (n != 0) = true := by simpa using hn
          first
          | (simp only [Option.isSome_none, Option.isSome_some, Bool.false_eq_true, if_false, hn', and_self, if_true, ok_bind',
              false_and]
             rw [fin _ rfl rfl _ (fun _ _ => rfl)]
             cases constraints <;> first | rfl | (simp only []; split_ifs <;> first | rfl | (cases readdAll kind [] _ <;> rfl)))
          | (simp only [ne_eq, not_true_eq_false, not_false_eq_true, if_true, if_false, ok_bind', Option.isSome_some, Option.isSome_none, pySetMapping, reduceCtorEq, *]
             rw [fin _ rfl rfl _ (fun _ _ => rfl)]
             cases constraints <;> first | rfl | (simp only []; split_ifs <;> first | rfl | (cases readdAll kind [] _ <;> rfl)))
          | (simp [pySetMapping, *]
             rw [fin _ rfl rfl _ (fun _ _ => rfl)]
             cases constraints <;> first | rfl | (simp only []; split_ifs <;> first | rfl | (cases readdAll kind [] _ <;> rfl)))
    | some mp =>
      have hlab := hw1 rfl
      simp only [Option.isSome_some, and_self, if_true, ok_bind', pySetMapping, hlab]
      cases numAnc with
      | none =>
        first
        | (simp only [Option.isSome_none, Bool.false_eq_true, if_false, and_false, false_and]
           rw [fin _ rfl rfl _ (fun _ _ => rfl)]
           cases constraints <;> first | rfl | (simp only []; split_ifs <;> first | rfl | (cases readdAll kind [] _ <;> rfl)))
        | (simp only [ne_eq, not_true_eq_false, not_false_eq_true, if_true, if_false, ok_bind', Option.isSome_some, Option.isSome_none, pySetMapping, reduceCtorEq, *]
           rw [fin _ rfl rfl _ (fun _ _ => rfl)]
           cases constraints <;> first | rfl | (simp only []; split_ifs <;> first | rfl | (cases readdAll kind [] _ <;> rfl)))
        | (simp [pySetMapping, *]
           rw [fin _ rfl rfl _ (fun _ _ => rfl)]
           cases constraints <;> first | rfl | (simp only []; split_ifs <;> first | rfl | (cases readdAll kind [] _ <;> rfl)))
      | some n =>
        by_cases hn : n = 0
        · subst hn
          first
          | (simp only [Option.isSome_some, bne_self_eq_false, Bool.false_eq_true, and_false, if_false, and_true]
             rw [fin _ rfl rfl _ (fun _ _ => rfl)]
             cases constraints <;> first | rfl | (simp only []; split_ifs <;> first | rfl | (cases readdAll kind [] _ <;> rfl)))
          | (simp only [ne_eq, not_true_eq_false, not_false_eq_true, if_true, if_false, ok_bind', Option.isSome_some, Option.isSome_none, pySetMapping, reduceCtorEq, *]
             rw [fin _ rfl rfl _ (fun _ _ => rfl)]
             cases constraints <;> first | rfl | (simp only []; split_ifs <;> first | rfl | (cases readdAll kind [] _ <;> rfl)))
          | (simp [pySetMapping, *]
             rw [fin _ rfl rfl _ (fun _ _ => rfl)]
             cases constraints <;> first | rfl | (simp only []; split_ifs <;> first | rfl | (cases readdAll kind [] _ <;> rfl)))
        · have hn' : (n != 0) = true := by simpa using hn
          first
          | (simp only [Option.isSome_some, hn', and_self, if_true, ok_bind']
             rw [fin _ rfl rfl _ (fun _ _ => rfl)]
             cases constraints <;> first | rfl | (simp only []; split_ifs <;> first | rfl | (cases readdAll kind [] _ <;> rfl)))
          | (simp only [ne_eq, not_true_eq_false, not_false_eq_true, if_true, if_false, ok_bind', Option.isSome_some, Option.isSome_none, pySetMapping, reduceCtorEq, *]
             rw [fin _ rfl rfl _ (fun _ _ => rfl)]
             cases constraints <;> first | rfl | (simp only []; split_ifs <;> first | rfl | (cases readdAll kind [] _ <;> rfl)))
          | (simp [pySetMapping, *]
             rw [fin _ rfl rfl _ (fun _ _ => rfl)]
             cases constraints <;> first | rfl | (simp only []; split_ifs <;> first | rfl | (cases readdAll kind [] _ <;> rfl)))

end Qv.Gen
