import Qv.Gen.SourceSubs
import Qv.Proofs.GenEq.PyList
import Mathlib.Tactic.Ring
/-!
# GenEq.Subs — `DictArithmetic.subs` and `PCBO.subs`, generated from the source as whole functions (C16)

* `dict_subs_general`: for an ARBITRARY sympy substitution `σ` the generated loop stores, per item, `subsCoef σ v` — a number
  is kept (`AttributeError` branch), an expression is substituted and converted with `float` when no symbol is left
  (`TypeError` branch: the substituted expression is stored) — through `d[k] = val` (falsy values are not stored).
* `dict_subs_eq_model`: when `σ` leaves no symbol (`σ e = numeric (φ e)`: the situation of C16) the result is the
  per-item model `subsItems (coefVal φ)`, which `subsItems_ofPolyR` identifies with the model's `subsR φ`
  (the function `Qv.C16.subs_reads_coefficients`, `subs_drops_zeros`, `T16_1_*` are about).
* `pcbo_subs_eq_model`: `PCBO.subs` = terms through `DictArithmetic.subs`, `_ancilla` kept, every recorded constraint
  substituted into a fresh list under its relation (`subsObj`); `subsObj_bridge` ties that to `SymSt.subs`
  (numeric constraint polynomials in canonical form are unchanged by `subs`: `subsItems_ofPoly`).
-/
set_option linter.unusedTactic false
set_option linter.unreachableTactic false
set_option linter.unusedSimpArgs false
set_option linter.unusedVariables false
namespace Qv.Gen
open Qv Qv.Sym

variable {R : Type} [Coef R]

/-- the loop of `DictArithmetic.subs` for a given per-coefficient result -/
def storeAll (g : PyCoef R → PyCoef R) (items d : CoefItems R) : CoefItems R :=
  items.foldl (fun d kv => pyCoefSetItem d kv.1 (g kv.2)) d

theorem loop_storeAll (g : PyCoef R → PyCoef R) (body : CoefItems R → Key × PyCoef R → Except Err (CoefItems R))
    (hb : ∀ d it, body d it = .ok (pyCoefSetItem d it.1 (g it.2))) :
    ∀ (items d : CoefItems R), pyForM items d body = .ok (storeAll g items d) := by
  intro items
  induction items with
  | nil => intro d; rfl
  | cons it r ih => intro d; simp only [pyForM, hb, ok_bind', ih, storeAll, List.foldl_cons]

/-- **`DictArithmetic.subs` for an arbitrary substitution**: never raises, and stores `subsCoef σ v` for every item in
order -/
theorem dict_subs_general (items : CoefItems R) (σ : R → SubsRes R) :
    dict_subs items σ = .ok (storeAll (subsCoef σ) items []) := by
  unfold dict_subs
  simp only [pyNewSame, bind_ok_self]
  apply loop_storeAll
  intro d it
  obtain ⟨k, v⟩ := it
  cases v with
  | num r => rfl
  | sym e =>
    simp only [pySubs, ok_bind', subsCoef]
    cases σ e <;> rfl

theorem put_ofPoly (D : Poly) (k : Key) (r : Rat) :
    pyDictPut (CoefItems.ofPoly (R := R) D) k (PyCoef.num r) = CoefItems.ofPoly (put D k r) := by
  induction D with
  | nil => rfl
  | cons a t ih =>
    obtain ⟨k', v⟩ := a
    simp only [CoefItems.ofPoly, List.map_cons, pyDictPut, put] at ih ⊢
    split_ifs
    · rfl
    · simp only [List.map_cons, ih]

theorem erase_ofPoly (D : Poly) (k : Key) :
    pyDictErase (CoefItems.ofPoly (R := R) D) k = CoefItems.ofPoly (erase D k) := by
  induction D with
  | nil => rfl
  | cons a t ih =>
    obtain ⟨k', v⟩ := a
    simp only [CoefItems.ofPoly, List.map_cons, pyDictErase, erase] at ih ⊢
    split_ifs
    · rfl
    · simp only [List.map_cons, ih]

theorem setItem_ofPoly (D : Poly) (k : Key) (r : Rat) :
    pyCoefSetItem (CoefItems.ofPoly (R := R) D) k (PyCoef.num r) = CoefItems.ofPoly (set D k r) := by
  unfold pyCoefSetItem pyCoefTruthy set
  by_cases h : r = 0
  · simp [h, erase_ofPoly]
  · simp [h, put_ofPoly]

theorem storeAll_numeric (φ : R → Rat) (σ : R → SubsRes R) (hσ : ∀ e, σ e = .numeric (φ e)) :
    ∀ (items : CoefItems R) (D : Poly),
      storeAll (subsCoef σ) items (CoefItems.ofPoly D) =
        CoefItems.ofPoly (items.foldl (fun d kv => set d kv.1 (coefVal φ kv.2)) D) := by
  intro items
  induction items with
  | nil => intro D; rfl
  | cons it r ih =>
    intro D
    obtain ⟨k, v⟩ := it
    have hv : subsCoef σ v = PyCoef.num (coefVal φ v) := by
      cases v with
      | num r => rfl
      | sym e => simp only [subsCoef, hσ, coefVal]
    simp only [storeAll, List.foldl_cons, hv, setItem_ofPoly] at ih ⊢
    exact ih _

/-- **`DictArithmetic.subs` when the substitution leaves no symbol** (C16): the per-item model -/
theorem dict_subs_eq_model (φ : R → Rat) (σ : R → SubsRes R) (hσ : ∀ e, σ e = .numeric (φ e)) (items : CoefItems R) :
    dict_subs items σ = .ok (CoefItems.ofPoly (subsItems (coefVal φ) items)) := by
  rw [dict_subs_general]
  exact congrArg Except.ok (storeAll_numeric φ σ hσ items [])

/-- … which on a dict whose coefficients are all expressions is the model's `subsR φ` -/
theorem subsItems_ofPolyR (φ : R → Rat) (p : PolyR R) :
    subsItems (coefVal φ) (CoefItems.ofPolyR p) = subsR φ p := by
  unfold subsItems CoefItems.ofPolyR subsR
  rw [List.foldl_map]
  rfl

theorem put_fresh' (p : Poly) (k : Key) (v : Rat) (h : k ∉ p.map Prod.fst) : put p k v = p ++ [(k, v)] := by
  induction p with
  | nil => rfl
  | cons a t ih =>
    obtain ⟨k', w⟩ := a
    have hk : k' ≠ k := fun e => h (by simp [e])
    simp only [put, hk, if_false, List.cons_append]
    rw [ih (fun hm => h (by simp [hm]))]

/-- a numeric dict in canonical form (distinct keys, no zero value) is unchanged by `subs` -/
theorem subsItems_ofPoly (ψ : PyCoef R → Rat) (hψ : ∀ r, ψ (.num r) = r) :
    ∀ (P pre : Poly), ((pre ++ P).map Prod.fst).Nodup → (∀ kv ∈ P, kv.2 ≠ 0) →
      (CoefItems.ofPoly (R := R) P).foldl (fun d kv => set d kv.1 (ψ kv.2)) pre = pre ++ P := by
  intro P
  induction P with
  | nil => intro pre _ _; simp [CoefItems.ofPoly]
  | cons a t ih =>
    intro pre hnd hnz
    obtain ⟨k, v⟩ := a
    have hv : v ≠ 0 := hnz (k, v) List.mem_cons_self
    have hk : k ∉ pre.map Prod.fst := by
      intro hm
      simp only [List.map_append, List.map_cons] at hnd
      exact (List.nodup_append.mp hnd).2.2 k hm k (by simp) rfl
    simp only [CoefItems.ofPoly, List.map_cons, List.foldl_cons, hψ, set, hv, if_false]
    rw [put_fresh' pre k v hk]
    have := ih (pre ++ [(k, v)]) (by simpa using hnd) (fun kv h => hnz kv (List.mem_cons_of_mem _ h))
    simp only [CoefItems.ofPoly, set, List.append_assoc, List.cons_append, List.nil_append] at this
    exact this

theorem subsItems_ofPoly_canon (ψ : PyCoef R → Rat) (hψ : ∀ r, ψ (.num r) = r) (P : Poly)
    (hnd : (P.map Prod.fst).Nodup) (hnz : ∀ kv ∈ P, kv.2 ≠ 0) : subsItems ψ (CoefItems.ofPoly (R := R) P) = P := by
  have := subsItems_ofPoly ψ hψ P [] (by simpa using hnd) hnz
  simpa [subsItems] using this

/-! ## `PCBO.subs` -/

/-- the substituted object as the generated function returns it -/
def objOf (r : Poly × Nat × List (Rel × List Poly)) : SymObj R :=
  ⟨CoefItems.ofPoly r.1, r.2.1, r.2.2.map (fun rc => (rc.1, rc.2.map CoefItems.ofPoly))⟩

theorem mapM_dict_subs (φ : R → Rat) (σ : R → SubsRes R) (hσ : ∀ e, σ e = .numeric (φ e))
    (f : CoefItems R → Except Err (CoefItems R)) (hf : ∀ P, f P = dict_subs P σ) (v : List (CoefItems R)) :
    List.mapM f v = .ok (v.map (fun P => CoefItems.ofPoly (subsItems (coefVal φ) P))) := by
  induction v with
  | nil => rfl
  | cons P r ih => simp only [List.mapM_cons, hf, dict_subs_eq_model φ σ hσ, ih, List.map_cons]; rfl

theorem put_fresh_gen {α : Type} (d : List (Rel × α)) (k : Rel) (v : α) (h : k ∉ d.map Prod.fst) :
    pyDictPut d k v = d ++ [(k, v)] := by
  induction d with
  | nil => rfl
  | cons a t ih =>
    obtain ⟨k', w⟩ := a
    have hk : k' ≠ k := fun e => h (by simp [e])
    simp only [pyDictPut, hk, if_false, List.cons_append]
    rw [ih (fun hm => h (by simp [hm]))]

theorem cons_loop (g : List (CoefItems R) → List (CoefItems R))
    (body : List (Rel × List (CoefItems R)) → Rel × List (CoefItems R) → Except Err (List (Rel × List (CoefItems R))))
    (hb : ∀ d it, body d it = .ok (pyDictPut d it.1 (g it.2))) :
    ∀ (cons pre : List (Rel × List (CoefItems R))), ((pre ++ cons).map Prod.fst).Nodup →
      pyForM cons pre body = .ok (pre ++ cons.map (fun rc => (rc.1, g rc.2))) := by
  intro cons
  induction cons with
  | nil => intro pre _; simp [pyForM]
  | cons it r ih =>
    intro pre hnd
    obtain ⟨k, v⟩ := it
    have hk : k ∉ pre.map Prod.fst := by
      intro hm
      simp only [List.map_append, List.map_cons] at hnd
      exact (List.nodup_append.mp hnd).2.2 k hm k (by simp) rfl
    simp only [pyForM, hb, ok_bind', put_fresh_gen pre k (g v) hk]
    rw [ih (pre ++ [(k, g v)]) (by simpa using hnd)]
    simp

/-- **`PCBO.subs`** (also `PCSO.subs`, which runs the same code) when the substitution leaves no symbol: the terms through
`DictArithmetic.subs`, the ancilla counter of `self`, and every recorded constraint substituted, under the same relations
in the same order.  `_constraints` is a dict: its keys are distinct. -/
theorem pcbo_subs_eq_model (φ : R → Rat) (σ : R → SubsRes R) (hσ : ∀ e, σ e = .numeric (φ e)) (S : SymObj R)
    (hd : (S.cons.map Prod.fst).Nodup) :
    pcbo_subs S σ = .ok (objOf (subsObj (coefVal φ) S)) := by
  unfold pcbo_subs
  rw [dict_subs_eq_model φ σ hσ]
  simp only [ok_bind', pyObjOfSubs]
  rw [cons_loop (fun v => v.map (fun P => CoefItems.ofPoly (subsItems (coefVal φ) P))) _ ?_ S.cons [] (by simpa using hd)]
  · simp only [ok_bind', List.nil_append, objOf, subsObj, List.map_map]
    first
      | rfl
      | (congr 2; apply List.map_congr_left; intro rc _; simp [Function.comp, List.map_map])
  · intro d it
    rw [mapM_dict_subs φ σ hσ _ (fun P => by simp only [bind_ok_self]) it.2]
    rfl

/-- the chain to `Qv.Sym.SymSt.subs` (the model function of C16): terms are `subsR φ`, the ancilla counter is kept, and a
recorded constraint polynomial that is numeric and canonical is unchanged -/
theorem subsObj_bridge (φ : R → Rat) (S : SymSt R) (cons : List (Rel × List (CoefItems R))) :
    (subsObj (coefVal φ) ⟨CoefItems.ofPolyR S.terms, S.anc, cons⟩).1 = (S.subs φ).terms ∧
    (subsObj (coefVal φ) ⟨CoefItems.ofPolyR S.terms, S.anc, cons⟩).2.1 = (S.subs φ).anc ∧
    ∀ P : Poly, (P.map Prod.fst).Nodup → (∀ kv ∈ P, kv.2 ≠ 0) →
      subsItems (coefVal φ) (CoefItems.ofPoly (R := R) P) = P :=
  ⟨subsItems_ofPolyR φ S.terms, rfl, fun P h1 h2 => subsItems_ofPoly_canon _ (fun _ => rfl) P h1 h2⟩

/-! ## non-vacuity -/

example : ((dict_subs [([0], PyCoef.sym RatPoly.X), ([1], .num 3), ([2], .sym ⟨[-2, 1]⟩), ([3], .sym ⟨[0, 0, 1/2]⟩)]
    (fun e => SubsRes.numeric (RatPoly.evalAt 2 e))).map
      (fun d => d.map (fun kv => (kv.1, coefVal (RatPoly.evalAt 2) kv.2)))).toOption = some [([0], 2), ([1], 3), ([3], 2)] := by
  decide +kernel

example : ((pcbo_subs ⟨[([0], PyCoef.sym RatPoly.X)], 3, [(.eq, [[([0], .num 1)]]), (.le, [[([1], .num 2)], [([], .num (-1))]])]⟩
    (fun e => SubsRes.numeric (RatPoly.evalAt 5 e))).map
      (fun o => (o.terms.map (fun kv => (kv.1, coefVal (RatPoly.evalAt 5) kv.2)), o.anc, o.cons.map (fun rc => (rc.1, rc.2.length))))).toOption
    = some ([([0], 5)], 3, [(.eq, 1), (.le, 2)]) := by
  decide +kernel

end Qv.Gen
