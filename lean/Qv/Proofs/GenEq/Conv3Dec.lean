import Qv.Gen.SourceConv3Dec
import Qv.Model.Convert3
import Qv.Proofs.DecimalRT
import Qv.Proofs.GenEq.Conv2Sol
import Qv.Proofs.GenEq.PyList
/-!
# GenEq.Conv3Dec — `decimal_to_boolean`, `boolean_to_decimal`, `decimal_to_spin`, `spin_to_decimal` generated from
`qubovert/utils/_conversions.py` equal the model functions of `Qv/Model/Convert3.lean`
(ADDITIONS BEYOND `Qv/Props/C04.lean`; their round-trip theorems: `Qv/Proofs/DecimalRT.lean`)

* `decimal_to_boolean`: equal to `decimalToBoolean` for EVERY int `d` and every `num_bits` (the two `ValueError`s, the
  digits of `bin(d)[2:]`, the left padding).
* `boolean_to_decimal`: on a tuple of 0s and 1s equal to `booleanToDecimal` (the number the bits denote).  On other
  entries the Python function parses the concatenation of their `str()`s, which the model does not describe.
* `decimal_to_spin` / `spin_to_decimal`: the compositions with `boolean_to_spin` / `spin_to_boolean` (tied in
  `GenEq.Conv2Sol`), and on spin tuples the model's `spinToDecimal`.
* round trips of the GENERATED functions: `cv3_decimal_boolean_round_trip`, `cv3_decimal_spin_round_trip`.
-/
set_option linter.unusedTactic false
set_option linter.unreachableTactic false
set_option linter.unusedSimpArgs false
namespace Qv.Gen

theorem cv3_slice2 {α : Type} (l : List α) : pySlice l (some (2 : Int)) none = l.drop 2 := by
  have := pySlice_from_nat l 2
  simpa using this

theorem cv3_bin_digits (d : Int) (hd : ¬ d < 0) :
    pySlice (cv3Bin d) (some (2 : Int)) none = (bits d.toNat).map cv3DigitChar := by
  rw [cv3_slice2]
  unfold cv3Bin
  rw [if_neg hd]
  have : d.natAbs = d.toNat := by omega
  rw [this]
  rfl

theorem cv3_intOfDigit (k : Nat) (hk : k < 2) : cv3IntOfChar (cv3DigitChar k) = .ok (Int.ofNat k) := by
  have : k = 0 ∨ k = 1 := by omega
  rcases this with rfl | rfl <;> decide

theorem cv3_mapM_digits (f : Char → Except Err Int) (hf : ∀ c, f c = cv3IntOfChar c) :
    ∀ (bs : List Nat), (∀ k ∈ bs, k < 2) → pyListMapM (bs.map cv3DigitChar) f = .ok (bs.map Int.ofNat) := by
  intro bs
  induction bs with
  | nil => intro _; rfl
  | cons k r ih =>
    intro h
    have hk : k < 2 := h k (List.mem_cons_self ..)
    have hr := ih (fun k' hk' => h k' (List.mem_cons_of_mem _ hk'))
    simp only [List.map_cons, pyListMapM, hf, cv3_intOfDigit k hk, ok_bind', hr]

theorem cv3_repeat_zero (n : Int) : pyRepeat [(0 : Int)] n = List.replicate n.toNat 0 := by
  unfold pyRepeat
  induction n.toNat with
  | zero => rfl
  | succ k ih => simp only [List.replicate_succ, List.flatten_cons, ih, List.singleton_append]

/-- `decimal_to_boolean(d, num_bits)` for every int `d` and every `num_bits` (an int or `None`): the model's
`decimalToBoolean`, raising exactly when it does -/
theorem cv3_decimal_to_boolean_eq_model (d : Int) (num_bits : Option Int) :
    cv3_decimal_to_boolean d num_bits = decimalToBoolean d num_bits := by
  unfold cv3_decimal_to_boolean decimalToBoolean
  by_cases hd : d < 0
  · simp [hd]
  · have hdig := cv3_bin_digits d hd
    have hmap := cv3_mapM_digits (fun x => cv3IntOfChar x >>= fun m => .ok m) (fun c => bind_ok_self _) (bits d.toNat)
      (Qv.bits_lt_two d.toNat)
    have hmap' := cv3_mapM_digits (fun x => cv3IntOfChar x) (fun c => rfl) (bits d.toNat) (Qv.bits_lt_two d.toNat)
    cases num_bits with
    | none =>
      simp only [hd, ne_eq, not_true_eq_false, false_or, if_false, hdig, List.length_map, hmap, hmap', ok_bind', bind_ok_self,
        cv3_repeat_zero, Int.sub_self, Int.toNat_zero, List.replicate_zero, List.nil_append]
    | some m =>
      simp only [hd, ne_eq, not_true_eq_false, false_or, if_false, hdig, List.length_map, hmap, hmap', ok_bind', bind_ok_self,
        cv3_repeat_zero]
      all_goals (first | rfl | (split <;> first | rfl | simp only [hmap, hmap', ok_bind']))

/-! ## `boolean_to_decimal` on tuples of bits -/

/-- the character `str()` gives a bit -/
def cv3BitChar (b : Int) : Char := if b = 0 then '0' else '1'

theorem cv3_str_of_bit (b : Int) (hb : b = 0 ∨ b = 1) : cv3StrOfNum ((b : Int) : Rat) = [cv3BitChar b] := by
  rcases hb with rfl | rfl <;> decide +kernel

theorem cv3_base2_bits : ∀ (l : List Int) (acc : Int), (∀ b ∈ l, b = 0 ∨ b = 1) →
    cv3Base2Val (l.map cv3BitChar) acc = some (l.foldl (fun a b => 2 * a + b) acc) := by
  intro l
  induction l with
  | nil => intro acc _; rfl
  | cons b r ih =>
    intro acc h
    have hr := fun acc' => ih acc' (fun b' hb' => h b' (List.mem_cons_of_mem _ hb'))
    rcases h b (List.mem_cons_self ..) with rfl | rfl
    · have h0 : cv3BitChar 0 = '0' := rfl
      simp only [List.map_cons, h0, cv3Base2Val, if_true, List.foldl_cons, hr, Int.add_zero]
    · have h1 : cv3BitChar 1 = '1' := rfl
      have hne : ¬ ('1' = '0') := by decide
      simp only [List.map_cons, h1, cv3Base2Val, hne, if_false, if_true, List.foldl_cons, hr]

theorem cv3_intBase2_bits (l : List Int) (hl : l ≠ []) (h : ∀ b ∈ l, b = 0 ∨ b = 1) :
    cv3IntBase2 (l.map cv3BitChar) = .ok (fromBits l) := by
  cases l with
  | nil => exact absurd rfl hl
  | cons b r =>
    have hv := cv3_base2_bits (b :: r) 0 h
    rw [List.map_cons] at hv ⊢
    have hc : cv3BitChar b = '0' ∨ cv3BitChar b = '1' := by
      rcases h b (List.mem_cons_self ..) with rfl | rfl
      · left; rfl
      · right; rfl
    have hm : ¬ cv3BitChar b = '-' := by rcases hc with hc | hc <;> rw [hc] <;> decide
    have hp : ¬ cv3BitChar b = '+' := by rcases hc with hc | hc <;> rw [hc] <;> decide
    simp only [cv3IntBase2, if_neg hm, if_neg hp, cv3Base2Unsigned, hv]
    rfl

theorem cv3_solIter_tuple (l : List Int) : cv3SolIter (cv3SolOfTuple l) = l.map (fun k => ((k : Int) : Rat)) := by
  simp only [cv3SolIter, cv3SolOfTuple, Bool.false_eq_true, if_false]
  exact List.map_snd_zip (by simp)

theorem cv3_join_bits (l : List Int) (h : ∀ b ∈ l, b = 0 ∨ b = 1) :
    cv3JoinEmpty ((l.map (fun k => ((k : Int) : Rat))).map (fun x => cv3StrOfNum x)) = l.map cv3BitChar := by
  induction l with
  | nil => rfl
  | cons b r ih =>
    have hb := cv3_str_of_bit b (h b (List.mem_cons_self ..))
    have hr := ih (fun b' hb' => h b' (List.mem_cons_of_mem _ hb'))
    simp only [cv3JoinEmpty, List.map_cons, List.flatten_cons, hb, List.singleton_append] at hr ⊢
    rw [hr]

/-- `boolean_to_decimal(b)` on a tuple `b` of 0s and 1s: the number the bits denote (`0` for the empty tuple) -/
theorem cv3_boolean_to_decimal_eq_model (l : List Int) (h : ∀ b ∈ l, b = 0 ∨ b = 1) :
    cv3_boolean_to_decimal (cv3SolOfTuple l) = .ok (booleanToDecimal l) := by
  unfold cv3_boolean_to_decimal
  simp only [bind_ok_self, cv3_solIter_tuple]
  cases l with
  | nil => rfl
  | cons b r =>
    have ht : cv3SolTruthy (cv3SolOfTuple (b :: r)) = true := by
      simp [cv3SolTruthy, cv3SolOfTuple, List.range_succ_eq_map]
    simp only [ht, if_true]
    rw [cv3_join_bits (b :: r) h, cv3_intBase2_bits (b :: r) (by simp) h]
    rfl

/-- **round trip of the generated functions.**  Whatever `decimal_to_boolean(d, num_bits)` returns,
`boolean_to_decimal` of it is `d` -/
theorem cv3_decimal_boolean_round_trip (d : Int) (num_bits : Option Int) (l : List Int)
    (h : cv3_decimal_to_boolean d num_bits = .ok l) : cv3_boolean_to_decimal (cv3SolOfTuple l) = .ok d := by
  rw [cv3_decimal_to_boolean_eq_model] at h
  rw [cv3_boolean_to_decimal_eq_model l (Qv.decimal_to_boolean_bits d num_bits l h),
    Qv.decimal_boolean_round_trip d num_bits l h]

/-! ## the spin forms -/

/-- `decimal_to_spin(d, num_spins)` is `boolean_to_spin(decimal_to_boolean(d, num_spins))` -/
theorem cv3_decimal_to_spin_eq_model (d : Int) (num_spins : Option Int) :
    cv3_decimal_to_spin d num_spins = (cv3_decimal_to_boolean d num_spins >>= fun t => boolean_to_spin (cv3SolOfTuple t)) := by
  unfold cv3_decimal_to_spin
  simp only [bind_ok_self]

/-- `spin_to_decimal(b)` is `boolean_to_decimal(spin_to_boolean(b))` -/
theorem cv3_spin_to_decimal_eq_model (b : SolC) :
    cv3_spin_to_decimal b = (spin_to_boolean b >>= fun x => cv3_boolean_to_decimal x) := by
  unfold cv3_spin_to_decimal
  simp only [bind_ok_self]

theorem cv3_solMap_zip (f : Rat → Except Err Rat) (g : Int → Int) (hg : ∀ b : Int, (b = 0 ∨ b = 1) → f ((b : Int) : Rat) = .ok ((g b : Int) : Rat)) :
    ∀ (l : List Int) (is : List Nat), (∀ b ∈ l, b = 0 ∨ b = 1) →
      solMap f (is.zip (l.map (fun k => ((k : Int) : Rat)))) = .ok (is.zip ((l.map g).map (fun k => ((k : Int) : Rat)))) := by
  intro l
  induction l with
  | nil => intro is _; simp [solMap]
  | cons b r ih =>
    intro is h
    cases is with
    | nil => simp [solMap]
    | cons i is' =>
      have hb := hg b (h b (List.mem_cons_self ..))
      have hr := ih is' (fun b' hb' => h b' (List.mem_cons_of_mem _ hb'))
      simp only [List.map_cons, List.zip_cons_cons, solMap, hb, hr]
      rfl

theorem cv3_b2s_bit (b : Int) (hb : b = 0 ∨ b = 1) : b2sVal ((b : Int) : Rat) = .ok (((1 - 2 * b : Int)) : Rat) := by
  rcases hb with rfl | rfl <;> decide +kernel

/-- on success `decimal_to_spin` returns the tuple of the model's `decimalToSpin` -/
theorem cv3_decimal_to_spin_value (d : Int) (num_spins : Option Int) :
    cv3_decimal_to_spin d num_spins = (decimalToSpin d num_spins >>= fun z => .ok (cv3SolOfTuple z)) := by
  rw [cv3_decimal_to_spin_eq_model, cv3_decimal_to_boolean_eq_model]
  unfold decimalToSpin
  cases hl : decimalToBoolean d num_spins with
  | error e => rfl
  | ok l =>
    simp only [ok_bind', boolean_to_spin_eq_model, asSol]
    have hbits := Qv.decimal_to_boolean_bits d num_spins l hl
    have := cv3_solMap_zip b2sVal (fun b => 1 - 2 * b) cv3_b2s_bit l (List.range l.length) hbits
    simp only [cv3SolOfTuple, this, ok_bind', List.length_map]

theorem cv3_s2b_spin (b : Int) (hb : b = 0 ∨ b = 1) : s2bVal (((1 - 2 * b : Int)) : Rat) = .ok ((b : Int) : Rat) := by
  rcases hb with rfl | rfl <;> decide +kernel

/-- **round trip (spin) of the generated functions** -/
theorem cv3_decimal_spin_round_trip (d : Int) (num_spins : Option Int) (z : SolC)
    (h : cv3_decimal_to_spin d num_spins = .ok z) : cv3_spin_to_decimal z = .ok d := by
  rw [cv3_decimal_to_spin_eq_model] at h
  cases hl : cv3_decimal_to_boolean d num_spins with
  | error e => rw [hl] at h; cases h
  | ok l =>
    rw [hl] at h
    simp only [ok_bind', boolean_to_spin_eq_model, asSol] at h
    have hl' := hl
    rw [cv3_decimal_to_boolean_eq_model] at hl'
    have hbits := Qv.decimal_to_boolean_bits d num_spins l hl'
    have h1 := cv3_solMap_zip b2sVal (fun b => 1 - 2 * b) cv3_b2s_bit l (List.range l.length) hbits
    simp only [cv3SolOfTuple, h1, ok_bind', Except.ok.injEq] at h
    subst h
    rw [cv3_spin_to_decimal_eq_model, spin_to_boolean_eq_model]
    simp only [asSol]
    have hspin : ∀ (l : List Int) (is : List Nat), (∀ b ∈ l, b = 0 ∨ b = 1) →
        solMap s2bVal (is.zip ((l.map (fun b => 1 - 2 * b)).map (fun k => ((k : Int) : Rat)))) =
          .ok (is.zip (l.map (fun k => ((k : Int) : Rat)))) := by
      intro l
      induction l with
      | nil => intro is _; simp [solMap]
      | cons b r ih =>
        intro is hh
        cases is with
        | nil => simp [solMap]
        | cons i is' =>
          have hb := cv3_s2b_spin b (hh b (List.mem_cons_self ..))
          have hr := ih is' (fun b' hb' => hh b' (List.mem_cons_of_mem _ hb'))
          simp only [List.map_cons, List.zip_cons_cons, solMap, hb, hr]
          rfl
    rw [hspin l (List.range l.length) hbits]
    simp only [ok_bind']
    exact cv3_decimal_boolean_round_trip d num_spins l hl

example : cv3_decimal_to_boolean 10 (some 7) = .ok [0, 0, 0, 1, 0, 1, 0] := by decide +kernel
example : cv3_boolean_to_decimal (cv3SolOfTuple [1, 1, 0]) = .ok 6 := by decide +kernel
example : cv3_decimal_to_spin 10 none = .ok ⟨false, [(0, -1), (1, 1), (2, -1), (3, 1)]⟩ := by decide +kernel
example : cv3_spin_to_decimal ⟨false, [(0, -1), (1, -1), (2, 1)]⟩ = .ok 6 := by decide +kernel

end Qv.Gen
