import Qv.Gen.SourceConsLoops
import Qv.Gen.Interp
import Mathlib.Tactic.SplitIfs
/-!
# GenEq.ConsLoops — `PCBO._pop_constraint`, the bookkeeping step of the comparison-constraint chains, generated from the
source (C02, C03, C06)

The decision chains of `add_constraint_{lt,le,gt,ge,ne}_zero` (group `Cons`) call an inner constraint method and then
`self._pop_constraint(rel)`, so that exactly the caller's constraint stays recorded (T2.4).  The first-generation tie names
that statement (`CEff.pop`) and gives it the meaning `St.pop` by hand.  Here the method itself is generated:

* `pcbo_pop_constraint_u2_eq_model`: the generated body — guard `if self._constraints.get(key, [])`, pop of the last element
  of the list under `key`, removal of the key when its list became empty — is the model's `popLast` (remove the last recorded
  constraint of that relation, nothing when there is none).
* `pop_chain_u2`: the hand-written meaning of the named statement `self._pop_constraint(rel)` in the chains (`runCEff … (.pop rel)`)
  and the model's `St.pop` are this generated function.
-/
set_option linter.unusedTactic false
set_option linter.unusedSimpArgs false
set_option linter.unusedVariables false
namespace Qv.Gen
open Qv

def hasRelU2 (r : Rel) (c : List (Rel × Poly)) : Bool := c.any (fun e => decide (e.1 = r))

theorem hasRel_reverse_u2 (r : Rel) (c : List (Rel × Poly)) : hasRelU2 r c.reverse = hasRelU2 r c := by
  simp [hasRelU2, List.any_reverse]

theorem eraseFirst_none_u2 (r : Rel) (c : List (Rel × Poly)) (h : hasRelU2 r c = false) : pyEraseFirstRelU2 r c = c := by
  induction c with
  | nil => rfl
  | cons e t ih =>
    simp only [hasRelU2, List.any_cons, Bool.or_eq_false_iff, decide_eq_false_iff_not] at h
    simp only [pyEraseFirstRelU2, h.1, if_false]
    rw [ih (by simpa [hasRelU2] using h.2)]

theorem hasRel_cons_u2 (r : Rel) (e : Rel × Poly) (t : List (Rel × Poly)) :
    hasRelU2 r (e :: t) = (decide (e.1 = r) || hasRelU2 r t) := rfl

theorem eraseFirst_append_u2 (r : Rel) (a b : List (Rel × Poly)) :
    pyEraseFirstRelU2 r (a ++ b) = if hasRelU2 r a then pyEraseFirstRelU2 r a ++ b else a ++ pyEraseFirstRelU2 r b := by
  induction a with
  | nil => simp [hasRelU2]
  | cons e t ih =>
    by_cases he : e.1 = r
    · simp [pyEraseFirstRelU2, hasRel_cons_u2, he]
    · have hd : decide (e.1 = r) = false := by simp [he]
      simp only [List.cons_append, pyEraseFirstRelU2, he, if_false, ih, hasRel_cons_u2, hd, Bool.false_or]
      cases hasRelU2 r t <;> rfl

/-- the model's `popLast` removes the last entry of the relation, and reports whether there was one -/
theorem popLast_spec_u2 (r : Rel) (c : List (Rel × Poly)) : popLast r c = (pyConsPopLastU2 c r, hasRelU2 r c) := by
  induction c with
  | nil => rfl
  | cons e t ih =>
    have hrev : hasRelU2 r t.reverse = hasRelU2 r t := hasRel_reverse_u2 r t
    simp only [popLast, ih, pyConsPopLastU2, List.reverse_cons, eraseFirst_append_u2, hrev, hasRel_cons_u2]
    cases ht : hasRelU2 r t with
    | true => simp
    | false =>
      have hn : pyEraseFirstRelU2 r t.reverse = t.reverse := eraseFirst_none_u2 r _ (by rw [hrev]; exact ht)
      by_cases he : e.1 = r <;> simp [hn, he, pyEraseFirstRelU2]

theorem consRel_nil_iff_u2 (r : Rel) (c : List (Rel × Poly)) : pyConsRelU2 c r = [] ↔ hasRelU2 r c = false := by
  induction c with
  | nil => simp [pyConsRelU2, hasRelU2]
  | cons e t ih =>
    by_cases he : e.1 = r
    · simp [pyConsRelU2, hasRelU2, he]
    · simp only [pyConsRelU2, List.filterMap_cons, he, if_false, hasRelU2, List.any_cons, decide_false, Bool.false_or] at ih ⊢
      exact ih

theorem delKey_none_u2 (r : Rel) (c : List (Rel × Poly)) (h : hasRelU2 r c = false) : pyConsDelKeyU2 c r = c := by
  induction c with
  | nil => rfl
  | cons e t ih =>
    rw [hasRel_cons_u2, Bool.or_eq_false_iff, decide_eq_false_iff_not] at h
    have := ih h.2
    unfold pyConsDelKeyU2 at this ⊢
    have hd : decide (e.1 ≠ r) = true := by simp [h.1]
    rw [List.filter_cons, hd, if_pos rfl, this]

/-- **`_pop_constraint`** = the model's `popLast` -/
theorem pcbo_pop_constraint_u2_eq_model (c : List (Rel × Poly)) (r : Rel) :
    pcbo_pop_constraint_u2 c r = (popLast r c).1 := by
  unfold pcbo_pop_constraint_u2
  rw [popLast_spec_u2]
  -- no constraint of this relation: nothing is removed
  have hA : pyConsRelU2 c r = [] → pyConsPopLastU2 c r = c := by
    intro h
    have hn := (consRel_nil_iff_u2 r c).mp h
    unfold pyConsPopLastU2
    rw [eraseFirst_none_u2 r _ (by rw [hasRel_reverse_u2]; exact hn), List.reverse_reverse]
  -- removing a key whose list is empty changes nothing
  have hB : pyConsRelU2 (pyConsPopLastU2 c r) r = [] → pyConsDelKeyU2 (pyConsPopLastU2 c r) r = pyConsPopLastU2 c r :=
    fun h => delKey_none_u2 r _ ((consRel_nil_iff_u2 r _).mp h)
  simp only [ne_eq, List.length_eq_zero_iff, List.isEmpty_iff]
  split_ifs <;> first | rfl | (simp_all; done) | (symm; simp_all; done) | (exact hB ‹_›) | (exact (hA ‹_›).symm)

/-- **the chain**: the named statement `self._pop_constraint(rel)` of the decision chains, and the model's `St.pop`, are the
generated `_pop_constraint` -/
theorem pop_chain_u2 (lam : Rat) (lt : Bool) (c : CSt) (name : String) (s : St) (r : Rel) :
    (runCEff lam lt c (.pop name)).s.cons = pcbo_pop_constraint_u2 c.s.cons (relOf name) ∧
    (s.pop r).cons = pcbo_pop_constraint_u2 s.cons r := by
  simp only [pcbo_pop_constraint_u2_eq_model]
  exact ⟨rfl, rfl⟩

/-! ## non-vacuity -/

example : pcbo_pop_constraint_u2 [(.le, [([0], 1)]), (.eq, [([1], 1)]), (.le, [([2], 1)]), (.eq, [([3], 1)])] .le
    = [(.le, [([0], 1)]), (.eq, [([1], 1)]), (.eq, [([3], 1)])] := by decide +kernel
example : pcbo_pop_constraint_u2 [(.le, [([0], 1)]), (.eq, [([1], 1)])] .eq = [(.le, [([0], 1)])] := by decide +kernel
example : pcbo_pop_constraint_u2 [(.le, [([0], 1)])] .gt = [(.le, [([0], 1)])] := by decide +kernel

end Qv.Gen
