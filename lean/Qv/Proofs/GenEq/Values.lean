import Qv.Gen.Source
import Qv.Model.Values
import Mathlib.Tactic.Ring
import Mathlib.Tactic.Linarith
import Mathlib.Algebra.Order.Ring.Rat
/-!
# GenEq.Values — the generated `pubo_value`, `qubo_value`, `puso_value`, `quso_value`
(`qubovert/utils/_values.py`, regenerated on every run) equal the model's value functions (C05).

Python's `sum(<generator>)` is a left fold from `0`; the model recurses on the term list.  `add_fold`
is the induction (accumulator generalised); each theorem then only has to show that one step of the
generated fold adds exactly the model's contribution of that term.
-/
-- alternatives kept for robustness against equivalent reshapings of the generated term
set_option linter.unusedTactic false
set_option linter.unreachableTactic false
set_option linter.unusedSimpArgs false
namespace Qv.Gen

/-- a left fold that adds `t x` per element computes `g`, if `g` is the right-recursive sum of `t` -/
theorem add_fold {α : Type} (f : Rat → α → Rat) (t : α → Rat) (g : List α → Rat)
    (g0 : g [] = 0) (g1 : ∀ x r, g (x :: r) = t x + g r) (hf : ∀ a x, f a x = a + t x) :
    ∀ (l : List α) (a : Rat), List.foldl f a l = a + g l := by
  intro l
  induction l with
  | nil => intro a; simp [g0]
  | cons x r ih => intro a; rw [List.foldl_cons, hf, ih, g1]; ring

theorem pyAllNum_map (x : Var → Rat) (k : Key) : pyAllNum (List.map (fun i => x i) k) = allTruthy x k := by
  induction k with
  | nil => rfl
  | cons i r ih => simp [pyAllNum, allTruthy, ih]

theorem pyCount_map (z : Var → Rat) (k : Key) : pyCount (List.map (fun i => z i) k) (-1) = countNeg z k := by
  induction k with
  | nil => rfl
  | cons i r ih => simp [pyCount, countNeg, ih]

theorem neg_one_pow_mod_two (n : Nat) : ((-1 : Rat) ^ (n % 2)) = if n % 2 = 0 then 1 else -1 := by
  rcases Nat.mod_two_eq_zero_or_one n with h | h <;> simp [h]

/-- `pubo_value(x, P)` (generated) is the model's `puboValue` -/
theorem pubo_value_eq_model (x : Var → Rat) (P : Poly) : pubo_value x P = puboValue x P := by
  unfold pubo_value
  rw [add_fold _ (fun kv => if allTruthy x kv.1 then kv.2 else 0) (puboValue x) rfl
    (by rintro ⟨k, v⟩ r; rfl) ?step P 0]
  · simp
  · rintro a ⟨k, v⟩
    simp only [pyAllNum_map]
    split_ifs <;> simp

/-- `qubo_value(x, Q)` (generated) is the model's `quboValue` -/
theorem qubo_value_eq_model (x : Var → Rat) (Q : Poly) : qubo_value x Q = quboValue x Q := by
  unfold qubo_value
  rw [add_fold _ (fun kv => quboTerm x kv.1 kv.2) (quboValue x) rfl (by rintro ⟨k, v⟩ r; rfl) ?step Q 0]
  · simp
  · rintro a ⟨k, v⟩
    rcases k with _ | ⟨i, _ | ⟨j, _ | ⟨l, r⟩⟩⟩ <;> simp [quboTerm, pyGet] <;> (try split_ifs) <;> simp

/-- `puso_value(z, H)` (generated) is the model's `pusoValue` -/
theorem puso_value_eq_model (z : Var → Rat) (H : Poly) : puso_value z H = pusoValue z H := by
  unfold puso_value
  rw [add_fold _ (fun kv => kv.2 * (if countNeg z kv.1 % 2 = 0 then 1 else -1)) (pusoValue z) rfl
    (by rintro ⟨k, v⟩ r; rfl) ?step H 0]
  · simp
  · rintro a ⟨k, v⟩
    simp only [pyCount_map]
    first
    | (simp only [neg_one_pow_mod_two]; done)
    | (rw [neg_one_pow_eq_pow_mod_two]; simp only [neg_one_pow_mod_two]; done)
    -- any other way of writing the sign: decide it on the parity of the count
    | (rcases Nat.mod_two_eq_zero_or_one (countNeg z k) with h | h <;> simp [h, neg_one_pow_mod_two, pow_succ]; done)
    | (rcases Nat.mod_two_eq_zero_or_one (countNeg z k) with h | h <;> simp_all [neg_one_pow_mod_two]; done)
    | (split_ifs <;> simp_all <;> omega)

/-- `quso_value(z, L)` (generated) is the model's `qusoValue` -/
theorem quso_value_eq_model (z : Var → Rat) (L : Poly) : quso_value z L = qusoValue z L := by
  unfold quso_value
  rw [add_fold _ (fun kv => qusoTerm z kv.1 kv.2) (qusoValue z) rfl (by rintro ⟨k, v⟩ r; rfl) ?step L 0]
  · simp
  · rintro a ⟨k, v⟩
    rcases k with _ | ⟨i, _ | ⟨j, r⟩⟩ <;> simp [qusoTerm, pyGet]

/-! non-vacuity: generated and model functions computed on the same concrete input -/
private def x0 : Var → Rat := fun i => if i = 1 then 0 else 1
private def z0 : Var → Rat := fun i => if i = 1 then -1 else 1
example : pubo_value x0 [([], 2), ([0], -3), ([0, 1], 5), ([0, 2, 3], 7)] = 6 := by decide +kernel
example : puboValue x0 [([], 2), ([0], -3), ([0, 1], 5), ([0, 2, 3], 7)] = 6 := by decide +kernel
example : qubo_value x0 [([], 2), ([0], -3), ([0, 1], 5), ([0, 2], 7)] = 6 := by decide +kernel
example : quboValue x0 [([], 2), ([0], -3), ([0, 1], 5), ([0, 2], 7)] = 6 := by decide +kernel
example : puso_value z0 [([], 2), ([1], -3), ([0, 1], 5), ([0, 2, 3], 7)] = 7 := by decide +kernel
example : pusoValue z0 [([], 2), ([1], -3), ([0, 1], 5), ([0, 2, 3], 7)] = 7 := by decide +kernel
example : quso_value z0 [([], 2), ([1], -3), ([0, 1], 5)] = 0 := by decide +kernel
example : qusoValue z0 [([], 2), ([1], -3), ([0, 1], 5)] = 0 := by decide +kernel

end Qv.Gen
