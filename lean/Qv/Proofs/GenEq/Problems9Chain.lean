import Qv.Proofs.GenEq.Conv2Meth
import Qv.Proofs.GenEq.Problems
import Qv.Proofs.GenEq.Problems2
import Qv.Proofs.GenEq.Problems3
import Qv.Proofs.GenEq.Problems4
import Qv.Proofs.GenEq.Problems6
import Qv.Proofs.GenEq.Problems7
/-!
# GenEq.Problems9Chain — the `Conversions` defaults as the problem classes use them (C10; the defaults themselves are tied
generically by the group Conv2Meth of C04): `to_quso` of a class that defines `to_qubo` is `qubo_to_quso(self.to_qubo(…))`,
`to_qubo` of a class that defines `to_quso` is `quso_to_qubo(self.to_quso(…))`.  One chain theorem per problem class: the generated
`Conversions_to_*` applied to the generated own method (a `QUBOMatrix` / `QUSOMatrix` object) is the model's `toQuso` / `toQubo`
as a Matrix object of the other kind.
-/
set_option linter.unusedTactic false
set_option linter.unreachableTactic false
set_option linter.unusedSimpArgs false
set_option linter.unusedVariables false
namespace Qv.Gen
open Qv Qv.Prob

theorem pb2_conv_to_quso (g m : Except Err Poly) (h : g = m) :
    Conversions_to_quso (asObj .qubom g) = asObj .qusom (m >>= fun Q => quboToQuso .qubom Q) := by
  subst h
  rw [Conversions_to_quso_eq_model]
  cases g with
  | error e => rfl
  | ok Q =>
    simp only [asObj_ok]
    rfl

theorem pb2_conv_to_qubo (g m : Except Err Poly) (h : g = m) :
    Conversions_to_qubo (asObj .qusom g) = asObj .qubom (m >>= fun L => qusoToQubo .qusom L) := by
  subst h
  rw [Conversions_to_qubo_eq_model]
  cases g with
  | error e => rfl
  | ok L =>
    simp only [asObj_ok]
    rfl

theorem SetCover_to_quso_chain (p : SC) (hw : p.weights.length = p.N) (hU : p.U.Nodup) (A B : Rat) :
    Conversions_to_quso (asObj .qubom (SetCover_to_qubo p.U p.V p.weights p.logTrick p.M p.logM p.N p.n A B))
      = asObj .qusom (p.toQuso A B) :=
  pb2_conv_to_quso _ _ (SetCover_to_qubo_eq_model p hw hU A B)

theorem JobSequencing_to_quso_chain (p : JS) (hk : (p.lengths.map Prod.fst).Nodup) (A : Option Rat) (B : Rat) :
    Conversions_to_quso (asObj .qubom
        (JobSequencing_to_qubo p.lengths (p.lengths.map Prod.fst) p.m p.logTrick p.maxL p.N p.M p.logM A B))
      = asObj .qusom (p.toQuso A B) :=
  pb2_conv_to_quso _ _ (JobSequencing_to_qubo_eq_model p hk A B)

theorem VertexCover_to_quso_chain (p : VC) (A B : Rat) :
    Conversions_to_quso (asObj .qubom (VertexCover_to_qubo p.edges p.vertices p.numVars A B)) = asObj .qusom (p.toQuso A B) :=
  pb2_conv_to_quso _ _ (VertexCover_to_qubo_eq_model p A B)

theorem BILP_to_quso_chain (p : BILP) (hp : BILPShape p) (A : Option Rat) (B : Rat) :
    Conversions_to_quso (asObj .qubom (BILP_to_qubo p.c p.S p.b p.N p.S.length A B)) = asObj .qusom (p.toQuso A B) :=
  pb2_conv_to_quso _ _ (BILP_to_qubo_eq_model p hp A B)

theorem NumberPartitioning_to_qubo_chain (p : NP) (A : Rat) :
    Conversions_to_qubo (asObj .qusom (NumberPartitioning_to_quso p.S p.numVars A)) = asObj .qubom (p.toQubo A) :=
  pb2_conv_to_qubo _ _ (NumberPartitioning_to_quso_eq_model p A)

theorem GraphPartitioning_to_qubo_chain (p : GP) (A : Option Rat) (B : Rat) :
    Conversions_to_qubo (asObj .qusom (GraphPartitioning_to_quso p.edges p.order p.numVars p.degree A B))
      = asObj .qubom (p.toQubo A B) :=
  pb2_conv_to_qubo _ _ (GraphPartitioning_to_quso_eq_model p A B)

theorem AlternatingSectorsChain_to_qubo_chain (p : ASC) (hN : 1 ≤ p.N) (pbc : Bool) :
    Conversions_to_qubo (asObj .qusom (AlternatingSectorsChain_to_quso p.N p.len p.negMin p.negMax pbc))
      = asObj .qubom (p.toQubo pbc) :=
  pb2_conv_to_qubo _ _ (AlternatingSectorsChain_to_quso_eq_model p hN pbc)

end Qv.Gen
