import Qv.Gen.PreludeAnneal
import Qv.Model.AnnealSrc
import Qv.Proofs.GenEq.PyList
import Qv.Proofs.AnnealBool
/-!
# GenEq.AnnealLib — facts about the primitives of `Qv/Gen/PreludeAnneal.lean` used by the equivalence proofs of the
annealer front ends
-/
namespace Qv.Gen.Ann
open Qv.Gen
open Qv Qv.Anneal

theorem pyTypeIn_true (o : Obj) (ks : List Kind) : pyTypeIn o ks = true ↔ o.kind ∈ ks := by
  simp [pyTypeIn]

theorem pyTypeIn_false (o : Obj) (ks : List Kind) : pyTypeIn o ks = false ↔ o.kind ∉ ks := by
  simp [pyTypeIn]

theorem pyRangeNat_nat (N : Nat) : pyRangeNat ((N : Nat) : Int) = List.range N := by
  simp [pyRangeNat]

theorem pyRepeat_one {β : Type} (a : β) (N : Nat) : pyRepeat [a] ((N : Nat) : Int) = List.replicate N a := by
  simp only [pyRepeat, Int.toNat_natCast]
  induction N with
  | zero => rfl
  | succ n ih => simp [List.replicate_succ, ih]

theorem pyForM_eq_foldlM {β σ : Type} (f : σ → β → Except Err σ) : ∀ (l : List β) (s : σ),
    pyForM l s f = l.foldlM f s
  | [], s => rfl
  | a :: r, s => by
    simp only [pyForM, List.foldlM_cons]
    cases f s a with
    | error e => rfl
    | ok s' => exact pyForM_eq_foldlM f r s'

/-- `C(x)` returns an object of class `C` -/
theorem pyConstruct_bind {β : Type} (κ : Kind) (o : Obj) (f g : Obj → Except Err β)
    (h : ∀ M, M.kind = κ → f M = g M) : (pyConstruct κ o >>= f) = (Obj.build κ o.terms >>= g) := by
  unfold pyConstruct
  cases hb : Obj.build κ o.terms with
  | error e => rfl
  | ok M => exact h M (build_inv κ o.terms M hb).2

theorem pyEnumerate_eq {β : Type} (l : List β) (d : β) :
    pyEnumerate l = (List.range l.length).map (fun k => (k, l.getD k d)) := by
  unfold pyEnumerate
  apply List.ext_getElem
  · simp
  · intro i h1 h2
    simp only [List.length_zip, List.length_range, Nat.min_self] at h1
    simp [List.getElem_zip, h1]

theorem map_const_range {β : Type} (a : β) (n : Nat) : (List.range n).map (fun _ => a) = List.replicate n a := by
  apply List.ext_getElem <;> simp

/-- two loop bodies that agree on the states satisfying an invariant the second one preserves run the same loop -/
theorem foldlM_congr_inv {σ β : Type} (P : σ → Prop) (f g : σ → β → Except Err σ)
    (hfg : ∀ s b, P s → f s b = g s b) (hP : ∀ s b s', P s → g s b = .ok s' → P s') :
    ∀ (l : List β) (s : σ), P s → l.foldlM f s = l.foldlM g s
  | [], _, _ => rfl
  | b :: l, s, hs => by
    simp only [List.foldlM_cons, hfg s b hs]
    cases h : g s b with
    | error e => rfl
    | ok s' => exact foldlM_congr_inv P f g hfg hP l s' (hP s b s' hs h)

theorem pyDictGet_eq (d : List (Var × Int)) (l : Var) : pyAnnDictGet d l = lookupInit d l := rfl

/-- the placement loop: `init_state = [1] * N; for k, v in reverse_mapping.items(): init_state[k] = initial_state[v]` -/
theorem place_loop_eq (N : Nat) (rev : List Var) (d : List (Var × Int))
    (f : List Int → Nat × Nat → Except Err (List Int))
    (hf : ∀ st kv, st.length = N → f st kv = (do
      let x ← lookupInit d kv.2
      if kv.1 < N then pure (st.set kv.1 x) else Except.error Err.index)) :
    pyForM (pyEnumerate rev) (List.replicate N (1 : Int)) f = relabelInit N rev (some d) := by
  rw [pyForM_eq_foldlM, pyEnumerate_eq rev 0, List.foldlM_map]
  unfold relabelInit
  apply foldlM_congr_inv (fun st => st.length = N)
  · intro st k hst
    exact hf st (k, rev.getD k 0) hst
  · intro st k st' hst h
    simp only [Qv.bind_ok_iff, pure, Except.pure] at h
    obtain ⟨x, _, h⟩ := h
    split at h
    · injection h with h
      subst h
      simp [hst]
    · cases h
  · simp

theorem pyIntOfBool_ne (b : Bool) : decide (pyIntOfBool b ≠ 0) = b := by
  cases b <;> simp [pyIntOfBool]

theorem seed_match (seed : Option Int) : (match seed with | none => (-1 : Int) | some s => s) = seedArg seed := by
  cases seed <;> rfl

end Qv.Gen.Ann
