import Qv.Gen.SourceBook
import Qv.Model.Arith
import Qv.Proofs.Book
import Mathlib.Data.List.Nodup
/-!
# GenEq.Book — the bookkeeping and key-canonicalisation layer generated from the source equals the model (C14, C05)

`Qv/Gen/SourceBook.lean` is regenerated from `/repo` on every run (`harness/tie_ext/book.py`); every theorem
`Qv.Gen.<name>_eq_model` below proves one generated definition equal to the function of `Qv/Model/Basic.lean` /
`Qv/Model/Book.lean` that the theorems of `Qv/Props/C05.lean` / `Qv/Props/C14.lean` are about
(`squash`, `get`, `set`, `getItem`, `setItem`, `Book.matSet`, `Book.setitem Fix.fixed`, …).
-/
set_option linter.unusedTactic false
set_option linter.unreachableTactic false
set_option linter.unusedSimpArgs false
set_option linter.unusedVariables false
namespace Qv.Gen
open Qv Qv.Book

/-! ## sets, sorting, squashing -/

theorem pySetAdd_mem (s : List Var) (x i : Var) : i ∈ pySetAdd s x ↔ i ∈ s ∨ i = x := by
  unfold pySetAdd
  by_cases h : s.contains x = true
  · rw [if_pos h]
    have hx : x ∈ s := by simpa using h
    constructor
    · exact Or.inl
    · rintro (h1 | h1)
      · exact h1
      · exact h1 ▸ hx
  · rw [if_neg h]; simp

theorem pySetAdd_nodup (s : List Var) (x : Var) (h : s.Nodup) : (pySetAdd s x).Nodup := by
  unfold pySetAdd
  by_cases hc : s.contains x = true
  · rw [if_pos hc]; exact h
  · rw [if_neg hc]
    have hx : x ∉ s := by simpa using hc
    exact List.nodup_append.mpr ⟨h, List.nodup_singleton x, by
      intro a ha b hb
      have : b = x := by simpa using hb
      subst this
      intro hab; subst hab; exact hx ha⟩

theorem foldl_pySetAdd (k : List Var) : ∀ acc : List Var, acc.Nodup →
    (k.foldl pySetAdd acc).Nodup ∧ ∀ i, i ∈ k.foldl pySetAdd acc ↔ i ∈ acc ∨ i ∈ k := by
  induction k with
  | nil => intro acc h; exact ⟨h, by simp⟩
  | cons a r ih =>
    intro acc h
    obtain ⟨h1, h2⟩ := ih (pySetAdd acc a) (pySetAdd_nodup acc a h)
    refine ⟨h1, fun i => ?_⟩
    rw [List.foldl_cons, h2 i, pySetAdd_mem]
    simp only [List.mem_cons]
    tauto

theorem pySet_nodup (k : List Var) : (pySet k).Nodup := (foldl_pySetAdd k [] List.nodup_nil).1
theorem pySet_mem (k : List Var) (i : Var) : i ∈ pySet k ↔ i ∈ k := by
  have := (foldl_pySetAdd k [] List.nodup_nil).2 i
  simpa [pySet] using this

theorem foldl_pySetAdd_of_nodup (k : List Var) : ∀ acc : List Var, (acc ++ k).Nodup → k.foldl pySetAdd acc = acc ++ k := by
  induction k with
  | nil => intro acc _; simp
  | cons a r ih =>
    intro acc h
    have ha : a ∉ acc := by
      intro hin
      have := List.nodup_append.mp h
      exact this.2.2 a hin a (by simp) rfl
    have hadd : pySetAdd acc a = acc ++ [a] := by
      unfold pySetAdd
      rw [if_neg (by simpa using ha)]
    rw [List.foldl_cons, hadd, ih (acc ++ [a]) (by simpa using h)]
    simp

/-- `set(l)` of a duplicate-free list is that list -/
theorem pySet_of_nodup (l : List Var) (h : l.Nodup) : pySet l = l := by
  have := foldl_pySetAdd_of_nodup l [] (by simpa using h)
  simpa [pySet] using this

/-- **ordering_key** (`_ordering_key.py`): on the labels of one model the order of `ordering_key` is the order of the
model's labels -/
theorem ordering_key_eq_model (a b : Var) : pyOKeyLe (ordering_key a) (ordering_key b) = decide (a ≤ b) := by
  unfold pyOKeyLe ordering_key pyTypeStr
  simp [String.lt_irrefl]

theorem ins_mem (a i : Var) : ∀ l : List Var, i ∈ pyInsertSorted ordering_key a l ↔ i = a ∨ i ∈ l := by
  intro l
  induction l with
  | nil => simp [pyInsertSorted]
  | cons b r ih =>
    unfold pyInsertSorted
    split
    · simp
    · simp only [List.mem_cons, ih]; tauto

theorem ins_length (a : Var) : ∀ l : List Var, (pyInsertSorted ordering_key a l).length = l.length + 1 := by
  intro l
  induction l with
  | nil => simp [pyInsertSorted]
  | cons b r ih =>
    unfold pyInsertSorted
    split
    · simp
    · simp [ih]

theorem ins_pairwise (a : Var) : ∀ l : List Var, l.Pairwise (· < ·) → a ∉ l →
    (pyInsertSorted ordering_key a l).Pairwise (· < ·) := by
  intro l
  induction l with
  | nil => intro _ _; simp [pyInsertSorted]
  | cons b r ih =>
    intro hp ha
    have hab : a ≠ b := fun h => ha (by simp [h])
    have har : a ∉ r := fun h => ha (by simp [h])
    obtain ⟨hb, hr⟩ := List.pairwise_cons.mp hp
    unfold pyInsertSorted
    rw [ordering_key_eq_model]
    by_cases hle : a ≤ b
    · rw [if_pos (by simpa using hle)]
      refine List.pairwise_cons.mpr ⟨?_, hp⟩
      intro x hx
      rcases List.mem_cons.mp hx with rfl | hx
      · exact Nat.lt_of_le_of_ne hle hab
      · exact Nat.lt_of_le_of_lt hle (hb x hx)
    · rw [if_neg (by simpa using hle)]
      refine List.pairwise_cons.mpr ⟨?_, ih hr har⟩
      intro x hx
      rcases (ins_mem a x r).mp hx with rfl | hx
      · exact Nat.lt_of_not_le hle
      · exact hb x hx

theorem sorted_spec : ∀ l : List Var, l.Nodup →
    (pySorted ordering_key l).Pairwise (· < ·) ∧ (∀ i, i ∈ pySorted ordering_key l ↔ i ∈ l) ∧
    (pySorted ordering_key l).length = l.length := by
  intro l
  induction l with
  | nil => intro _; simp [pySorted]
  | cons a r ih =>
    intro h
    obtain ⟨har, hr⟩ := List.nodup_cons.mp h
    obtain ⟨h1, h2, h3⟩ := ih hr
    have e : pySorted ordering_key (a :: r) = pyInsertSorted ordering_key a (pySorted ordering_key r) := rfl
    rw [e]
    refine ⟨ins_pairwise a _ h1 (fun hin => har ((h2 a).mp hin)), fun i => ?_, ?_⟩
    · rw [ins_mem, h2]; simp
    · rw [ins_length, h3]; simp

/-- two strictly increasing lists with the same elements are equal -/
theorem pairwise_lt_ext : ∀ (l₁ l₂ : List Var), l₁.Pairwise (· < ·) → l₂.Pairwise (· < ·) →
    (∀ a, a ∈ l₁ ↔ a ∈ l₂) → l₁ = l₂ := by
  intro l₁
  induction l₁ with
  | nil =>
    intro l₂ _ _ h
    cases l₂ with
    | nil => rfl
    | cons b r => exact absurd ((h b).mpr (by simp)) (by simp)
  | cons a r ih =>
    intro l₂ h1 h2 h
    cases l₂ with
    | nil => exact absurd ((h a).mp (by simp)) (by simp)
    | cons b r2 =>
      obtain ⟨ha, hr⟩ := List.pairwise_cons.mp h1
      obtain ⟨hb, hr2⟩ := List.pairwise_cons.mp h2
      have hab : a = b := by
        have m1 : a ∈ b :: r2 := (h a).mp (by simp)
        have m2 : b ∈ a :: r := (h b).mpr (by simp)
        rcases List.mem_cons.mp m1 with e | m1
        · exact e
        · rcases List.mem_cons.mp m2 with e | m2
          · exact e.symm
          · exact absurd (Nat.lt_trans (hb a m1) (ha b m2)) (Nat.lt_irrefl _)
      subst hab
      congr 1
      refine ih r2 hr hr2 (fun x => ?_)
      constructor
      · intro hx
        rcases List.mem_cons.mp ((h x).mp (by simp [hx])) with e | hx2
        · exact absurd (e ▸ ha x hx) (Nat.lt_irrefl _)
        · exact hx2
      · intro hx
        rcases List.mem_cons.mp ((h x).mpr (by simp [hx])) with e | hx2
        · exact absurd (e ▸ hb x hx) (Nat.lt_irrefl _)
        · exact hx2

theorem insertU_mem (a i : Var) : ∀ l : Key, i ∈ insertU a l ↔ i = a ∨ i ∈ l := by
  intro l
  induction l with
  | nil => simp [insertU]
  | cons b r ih =>
    unfold insertU
    split
    · simp
    · split
      · rename_i h; subst h; simp
      · simp only [List.mem_cons, ih]; tauto

theorem insertU_pairwise (a : Var) : ∀ l : Key, l.Pairwise (· < ·) → (insertU a l).Pairwise (· < ·) := by
  intro l
  induction l with
  | nil => intro _; simp [insertU]
  | cons b r ih =>
    intro hp
    obtain ⟨hb, hr⟩ := List.pairwise_cons.mp hp
    unfold insertU
    split
    · rename_i hlt
      refine List.pairwise_cons.mpr ⟨?_, hp⟩
      intro x hx
      rcases List.mem_cons.mp hx with rfl | hx
      · exact hlt
      · exact Nat.lt_trans hlt (hb x hx)
    · split
      · exact hp
      · rename_i h1 h2
        refine List.pairwise_cons.mpr ⟨?_, ih hr⟩
        intro x hx
        rcases (insertU_mem a x r).mp hx with rfl | hx
        · exact Nat.lt_of_le_of_ne (Nat.le_of_not_lt h1) (fun e => h2 e.symm)
        · exact hb x hx

theorem squashB_spec (k : Key) : (squashB k).Pairwise (· < ·) ∧ ∀ i, i ∈ squashB k ↔ i ∈ k := by
  induction k with
  | nil => simp [squashB]
  | cons a r ih =>
    have e : squashB (a :: r) = insertU a (squashB r) := rfl
    rw [e]
    exact ⟨insertU_pairwise a _ ih.1, fun i => by rw [insertU_mem, ih.2]; simp⟩

theorem toggleU_spec (a : Var) : ∀ l : Key, l.Pairwise (· < ·) →
    (toggleU a l).Pairwise (· < ·) ∧ ∀ i, i ∈ toggleU a l ↔ ((i = a ∧ a ∉ l) ∨ (i ∈ l ∧ i ≠ a)) := by
  intro l
  induction l with
  | nil => intro _; simp [toggleU]
  | cons b r ih =>
    intro hp
    obtain ⟨hb, hr⟩ := List.pairwise_cons.mp hp
    obtain ⟨ih1, ih2⟩ := ih hr
    unfold toggleU
    split
    · rename_i hlt
      have hnr : a ∉ r := fun h => absurd (Nat.lt_trans hlt (hb a h)) (Nat.lt_irrefl _)
      have hne : a ≠ b := Nat.ne_of_lt hlt
      refine ⟨List.pairwise_cons.mpr ⟨?_, hp⟩, fun i => ?_⟩
      · intro x hx
        rcases List.mem_cons.mp hx with rfl | hx
        · exact hlt
        · exact Nat.lt_trans hlt (hb x hx)
      · simp only [List.mem_cons]
        constructor
        · rintro (h | h | h)
          · exact Or.inl ⟨h, by simp [hne, hnr]⟩
          · exact Or.inr ⟨Or.inl h, by rw [h]; exact hne.symm⟩
          · exact Or.inr ⟨Or.inr h, fun e => hnr (e ▸ h)⟩
        · rintro (⟨h, _⟩ | ⟨h, _⟩)
          · exact Or.inl h
          · exact Or.inr h
    · split
      · rename_i h1 h2
        subst h2
        have hnr : a ∉ r := fun h => absurd (hb a h) (Nat.lt_irrefl _)
        refine ⟨hr, fun i => ?_⟩
        simp only [List.mem_cons]
        constructor
        · intro h
          exact Or.inr ⟨Or.inr h, fun e => hnr (e ▸ h)⟩
        · rintro (⟨_, h⟩ | ⟨h, hne⟩)
          · exact absurd (by simp) h
          · rcases h with h | h
            · exact absurd h hne
            · exact h
      · rename_i h1 h2
        have hba : b < a := Nat.lt_of_le_of_ne (Nat.le_of_not_lt h1) (fun e => h2 e.symm)
        refine ⟨List.pairwise_cons.mpr ⟨?_, ih1⟩, fun i => ?_⟩
        · intro x hx
          rcases (ih2 x).mp hx with ⟨rfl, _⟩ | ⟨hx, _⟩
          · exact hba
          · exact hb x hx
        · simp only [List.mem_cons, ih2]
          constructor
          · rintro (h | ⟨h, hn⟩ | ⟨h, hn⟩)
            · exact Or.inr ⟨Or.inl h, by rw [h]; exact Nat.ne_of_lt hba⟩
            · exact Or.inl ⟨h, by simp [h2, hn]⟩
            · exact Or.inr ⟨Or.inr h, hn⟩
          · rintro (⟨h, hn⟩ | ⟨h | h, hn⟩)
            · exact Or.inr (Or.inl ⟨h, fun hin => hn (Or.inr hin)⟩)
            · exact Or.inl h
            · exact Or.inr (Or.inr ⟨h, hn⟩)

theorem squashS_spec (k : Key) : (squashS k).Pairwise (· < ·) ∧ ∀ i, i ∈ squashS k ↔ List.count i k % 2 ≠ 0 := by
  induction k with
  | nil => simp [squashS]
  | cons a r ih =>
    have e : squashS (a :: r) = toggleU a (squashS r) := rfl
    rw [e]
    obtain ⟨t1, t2⟩ := toggleU_spec a _ ih.1
    refine ⟨t1, fun i => ?_⟩
    rw [t2, ih.2 i, ih.2 a, List.count_cons]
    by_cases hia : i = a
    · subst hia
      simp only [beq_self_eq_true, if_true, true_and, ne_eq, not_true_eq_false, and_false, or_false]
      omega
    · have : (a == i) = false := by simpa using fun e => hia e.symm
      simp only [this, hia, false_and, false_or, ne_eq, not_false_eq_true, and_true]
      simp

/-- `tuple(sorted(set(key), key=ordering_key))` is the model's boolean squashing -/
theorem sorted_set_eq (key : Key) : pySorted ordering_key (pySet key) = squashB key := by
  obtain ⟨h1, h2, _⟩ := sorted_spec (pySet key) (pySet_nodup key)
  obtain ⟨g1, g2⟩ := squashB_spec key
  exact pairwise_lt_ext _ _ h1 g1 (fun a => by rw [h2, pySet_mem, g2])

theorem set_length_eq (key : Key) : (pySet key).length = (squashB key).length := by
  rw [← sorted_set_eq]; exact (sorted_spec (pySet key) (pySet_nodup key)).2.2.symm

theorem odd_nodup (key : Key) :
    (List.filter (fun (x : Var) => decide (List.count x key % 2 ≠ 0)) (pySet key)).Nodup :=
  (pySet_nodup key).filter _

/-- `tuple(sorted((x for x in set(key) if key.count(x) % 2), key=ordering_key))` is the model's spin squashing -/
theorem sorted_odd_eq (key : Key) :
    pySorted ordering_key (List.filter (fun (x : Var) => decide (List.count x key % 2 ≠ 0)) (pySet key)) = squashS key := by
  obtain ⟨h1, h2, _⟩ := sorted_spec _ (odd_nodup key)
  obtain ⟨g1, g2⟩ := squashS_spec key
  refine pairwise_lt_ext _ _ h1 g1 (fun a => ?_)
  rw [h2, g2, List.mem_filter, pySet_mem]
  constructor
  · intro h; simpa using h.2
  · intro h
    refine ⟨?_, by simpa using h⟩
    by_contra hn
    rw [List.count_eq_zero_of_not_mem hn] at h
    exact h rfl

theorem odd_length_eq (key : Key) :
    (List.filter (fun (x : Var) => decide (List.count x key % 2 ≠ 0)) (pySet key)).length = (squashS key).length := by
  rw [← sorted_odd_eq]; exact (sorted_spec _ (odd_nodup key)).2.2.symm

/-! ## `_check_key_valid` and `squash_key` -/

theorem bind_ok' {α β : Type} (a : α) (f : α → Except Err β) : ((Except.ok a : Except Err α) >>= f) = f a := rfl
theorem bind_err' {α β : Type} (e : Err) (f : α → Except Err β) : ((Except.error e : Except Err α) >>= f) = .error e := rfl

/-- `PUBOMatrix._check_key_valid` never fires on a key of natural-number labels -/
theorem PUBOMatrix_check_key_valid_eq_model (key : Key) : PUBOMatrix_check_key_valid key = .ok none := by
  unfold PUBOMatrix_check_key_valid
  simp [pyIsInt]

theorem PUBO_check_key_valid_eq_model (key : Key) : PUBO_check_key_valid key = .ok none := by
  unfold PUBO_check_key_valid
  simp

theorem PUSO_check_key_valid_eq_model (key : Key) : PUSO_check_key_valid key = .ok none := by
  unfold PUSO_check_key_valid
  simp

/-- `QUBO._check_key_valid`: `KeyError` exactly when more than two distinct labels remain -/
theorem QUBO_check_key_valid_eq_model (key : Key) :
    QUBO_check_key_valid key = if (squashB key).length > 2 then .error .key else .ok none := by
  unfold QUBO_check_key_valid
  simp only [set_length_eq]
  by_cases h : (squashB key).length > 2 <;> simp [h]

/-- `QUSO._check_key_valid`: `KeyError` exactly when more than two labels of odd multiplicity remain -/
theorem QUSO_check_key_valid_eq_model (key : Key) :
    QUSO_check_key_valid key = if (squashS key).length > 2 then .error .key else .ok none := by
  unfold QUSO_check_key_valid
  simp only [pySet_of_nodup _ (odd_nodup key), odd_length_eq]
  by_cases h : (squashS key).length > 2 <;> simp [h]

/-- `PUBOMatrix.squash_key` with the `_check_key_valid` of a class that only validates (returns `None`) -/
theorem PUBOMatrix_squash_key_eq_model (chk : Key → Except Err (Option Key)) (key : Key) (h : chk key = .ok none) :
    PUBOMatrix_squash_key chk key = .ok (squashB key) := by
  unfold PUBOMatrix_squash_key
  simp only [h, bind_ok', pyOrKey, sorted_set_eq]

/-- `PUSOMatrix.squash_key` (parity rule) with a validating `_check_key_valid` -/
theorem PUSOMatrix_squash_key_eq_model (chk : Key → Except Err (Option Key)) (key : Key) (h : chk key = .ok none) :
    PUSOMatrix_squash_key chk key = .ok (squashS key) := by
  unfold PUSOMatrix_squash_key
  simp only [h, bind_ok', pyOrKey, sorted_odd_eq]

theorem QUBOMatrix_check_key_valid_eq_model (key : Key) :
    QUBOMatrix_check_key_valid key = if (squashB key).length > 2 then .error .key else .ok (some (squashB key)) := by
  unfold QUBOMatrix_check_key_valid
  rw [PUBOMatrix_squash_key_eq_model _ _ (PUBOMatrix_check_key_valid_eq_model key)]
  simp only [bind_ok']

theorem QUSOMatrix_check_key_valid_eq_model (key : Key) :
    QUSOMatrix_check_key_valid key = if (squashS key).length > 2 then .error .key else .ok (some (squashS key)) := by
  unfold QUSOMatrix_check_key_valid
  rw [PUSOMatrix_squash_key_eq_model _ _ (PUBOMatrix_check_key_valid_eq_model key)]
  simp only [bind_ok']

/-- **`cls.squash_key(key)`** for each of the ten model classes (method resolution computed from the source) is the
model's `squash` of that kind: sorted set (boolean), sorted odd-multiplicity set (spin), `KeyError` above two labels for
the degree-2 classes -/
theorem cls_squash_key_eq_model (κ : Kind) (hκ : κ ≠ .dict) (key : Key) : cls_squash_key κ key = squash κ key := by
  cases κ
  case dict => exact absurd rfl hκ
  case pubo => exact PUBOMatrix_squash_key_eq_model _ _ (PUBO_check_key_valid_eq_model key)
  case pcbo => exact PUBOMatrix_squash_key_eq_model _ _ (PUBO_check_key_valid_eq_model key)
  case pubom => exact PUBOMatrix_squash_key_eq_model _ _ (PUBOMatrix_check_key_valid_eq_model key)
  case puso => exact PUSOMatrix_squash_key_eq_model _ _ (PUSO_check_key_valid_eq_model key)
  case pcso => exact PUSOMatrix_squash_key_eq_model _ _ (PUSO_check_key_valid_eq_model key)
  case pusom => exact PUSOMatrix_squash_key_eq_model _ _ (PUBOMatrix_check_key_valid_eq_model key)
  case qubo =>
    show PUBOMatrix_squash_key QUBO_check_key_valid key = _
    unfold PUBOMatrix_squash_key
    rw [QUBO_check_key_valid_eq_model]
    simp only [sorted_set_eq]
    by_cases h : (squashB key).length > 2 <;>
      simp [h, bind_ok', bind_err', pyOrKey, squash, Kind.isSpin, Kind.isDeg2]
  case quso =>
    show PUSOMatrix_squash_key QUSO_check_key_valid key = _
    unfold PUSOMatrix_squash_key
    rw [QUSO_check_key_valid_eq_model]
    simp only [sorted_odd_eq]
    by_cases h : (squashS key).length > 2 <;>
      simp [h, bind_ok', bind_err', pyOrKey, squash, Kind.isSpin, Kind.isDeg2]
  case qubom =>
    show PUBOMatrix_squash_key QUBOMatrix_check_key_valid key = _
    unfold PUBOMatrix_squash_key
    rw [QUBOMatrix_check_key_valid_eq_model]
    simp only [sorted_set_eq]
    by_cases h : (squashB key).length > 2
    · simp [h, bind_ok', bind_err', squash, Kind.isSpin, Kind.isDeg2]
    · by_cases h0 : squashB key = [] <;>
        simp [h, h0, bind_ok', pyOrKey, squash, Kind.isSpin, Kind.isDeg2]
  case qusom =>
    show PUSOMatrix_squash_key QUSOMatrix_check_key_valid key = _
    unfold PUSOMatrix_squash_key
    rw [QUSOMatrix_check_key_valid_eq_model]
    simp only [sorted_odd_eq]
    by_cases h : (squashS key).length > 2
    · simp [h, bind_ok', bind_err', squash, Kind.isSpin, Kind.isDeg2]
    · by_cases h0 : squashS key = [] <;>
        simp [h, h0, bind_ok', pyOrKey, squash, Kind.isSpin, Kind.isDeg2]

/-! ## item access: `DictArithmetic` → `PUBOMatrix` → `BO` -/

/-- `DictArithmetic.__getitem__` is the model's `get` -/
theorem DictArithmetic_getitem_eq_model (s : Obj) (k : Key) : DictArithmetic_getitem s k = get s.terms k := rfl

/-- **zero dropping**: `DictArithmetic.__setitem__` is the model's `set` (store a non-zero value, pop on zero) -/
theorem DictArithmetic_setitem_eq_model (s : Obj) (k : Key) (v : Rat) :
    DictArithmetic_setitem s k v = { s with terms := set s.terms k v } := by
  unfold DictArithmetic_setitem pyDictStore pyDictPop set
  by_cases h : v = 0 <;> simp [h]

/-- `PUBOMatrix.__getitem__` is C05's `getItem` of the object's kind -/
theorem PUBOMatrix_getitem_eq_model (s : Obj) (hκ : s.kind ≠ .dict) (k : Key) :
    PUBOMatrix_getitem s k = getItem (squash s.kind) s.terms k := by
  unfold PUBOMatrix_getitem getItem
  rw [cls_squash_key_eq_model _ hκ]
  rfl

theorem pyMaxDeg_eq (d : Option Nat) (n : Nat) : pyMaxDeg d n = maxDeg d n := by
  cases d with
  | none => rfl
  | some m =>
    simp only [pyMaxDeg, maxDeg]
    by_cases h : m < n
    · rw [if_pos h, Nat.max_eq_right (Nat.le_of_lt h)]
    · rw [if_neg h, Nat.max_eq_left (Nat.le_of_not_lt h)]

theorem foldl_congr_fun {α σ : Type} (f g : σ → α → σ) (h : ∀ s a, f s a = g s a) (l : List α) (s : σ) :
    l.foldl f s = l.foldl g s := by
  have : f = g := funext fun s => funext fun a => h s a
  rw [this]

/-- the body of the registration loop of `PUBOMatrix.__setitem__`, in the shape the translator gives it -/
theorem addVar_fold_eq :
    (fun (self : Obj) (i : Var) =>
      if pyIn i self.«variables» = false then
        { self with «variables» := pySetAdd self.«variables» i, numVars := self.numVars + 1 }
      else self) = addVar := by
  funext t i
  unfold addVar pyIn pySetAdd
  by_cases hc : i ∈ t.«variables» <;> simp [hc]

theorem maxDeg_of_lt {d : Option Nat} {n : Nat} (h : pyDegLt d n = true) : maxDeg d n = pyDegOfNat n := by
  cases d with
  | none => rfl
  | some m =>
    have : m < n := by simpa [pyDegLt] using h
    simp [maxDeg, pyDegOfNat, Nat.max_eq_right (Nat.le_of_lt this)]
theorem maxDeg_of_not_lt {d : Option Nat} {n : Nat} (h : ¬ pyDegLt d n = true) : maxDeg d n = d := by
  cases d with
  | none => exact absurd rfl h
  | some m =>
    have : ¬ m < n := by simpa [pyDegLt] using h
    simp [maxDeg, Nat.max_eq_left (Nat.le_of_not_lt this)]
theorem maxDeg_of_le {d : Option Nat} {n : Nat} (h : pyDegLe d n = true) : maxDeg d n = pyDegOfNat n := by
  cases d with
  | none => rfl
  | some m =>
    have : m ≤ n := by simpa [pyDegLe] using h
    simp [maxDeg, pyDegOfNat, Nat.max_eq_right this]
theorem maxDeg_of_not_le {d : Option Nat} {n : Nat} (h : ¬ pyDegLe d n = true) : maxDeg d n = d := by
  cases d with
  | none => exact absurd rfl h
  | some m =>
    have : ¬ m ≤ n := by simpa [pyDegLe] using h
    simp [maxDeg, Nat.max_eq_left (Nat.le_of_lt (Nat.lt_of_not_le this))]

/-- **`PUBOMatrix.__setitem__`** is the model's `matSet`: squash the key; only for a non-zero value raise the cached degree
to at least the squashed key's length and add the squashed key's labels to `variables` (counting each new one); store -/
theorem PUBOMatrix_setitem_eq_model (s : Obj) (hκ : s.kind ≠ .dict) (key : Key) (value : Rat) :
    PUBOMatrix_setitem s key value = matSet s key value := by
  unfold PUBOMatrix_setitem matSet
  rw [cls_squash_key_eq_model _ hκ]
  cases hsq : squash s.kind key with
  | error e => rfl
  | ok k =>
    simp only [bind_ok', DictArithmetic_setitem_eq_model, pyMaxDeg_eq, bind, Except.bind, pure, Except.pure]
    by_cases hv : value = 0
    · simp [hv]
    · simp only [hv, ne_eq, not_false_eq_true, if_true, if_false, addVar_fold_eq] <;> first
        | rfl
        | ((by_cases h : pyDegLt s.degree (List.length k) = true <;>
            simp only [h, if_true, if_false, Bool.false_eq_true, maxDeg_of_lt, maxDeg_of_not_lt, not_false_eq_true] <;>
            first | rfl | simp_all); done)
        | ((by_cases h : pyDegLe s.degree (List.length k) = true <;>
            simp only [h, if_true, if_false, Bool.false_eq_true, maxDeg_of_le, maxDeg_of_not_le, not_false_eq_true] <;>
            first | rfl | simp_all); done)

/-- the terms `PUBOMatrix.__setitem__` leaves are C05's `setItem` -/
theorem PUBOMatrix_setitem_terms (s : Obj) (hκ : s.kind ≠ .dict) (key : Key) (value : Rat) :
    (PUBOMatrix_setitem s key value).map (·.terms) = setItem (squash s.kind) s.terms key value := by
  rw [PUBOMatrix_setitem_eq_model s hκ]
  unfold matSet setItem
  cases hsq : squash s.kind key with
  | error e => rfl
  | ok k =>
    simp only [bind, Except.bind, pure, Except.pure, Except.map]
    by_cases hv : value = 0
    · simp [hv]
    · simp [hv, (foldl_addVar_fields k _).2.1]

theorem matSet_rev {s m : State} {k : Key} {v : Rat} (h : matSet s k v = .ok m) :
    m.reverse = s.reverse ∧ m.nextLabel = s.nextLabel := by
  obtain ⟨k', _, rfl⟩ := matSet_ok h
  by_cases hv : v = 0
  · simp [hv]
  · simp only [hv, if_false]
    exact ⟨(foldl_addVar_fields k' _).2.2.2.1, (foldl_addVar_fields k' _).2.2.2.2.1⟩

/-- no integer label at or above `_next_label` is a key of `_reverse_mapping` (part of C14's I2) -/
def RevFresh (s : Obj) : Prop := ∀ p ∈ s.reverse, p.1 < s.nextLabel

theorem revFresh_of_I2 {s : Obj} (h : I2 s) : RevFresh s := by
  intro p hp
  obtain ⟨_, h2, _, _, h5, _⟩ := h
  have := h2 p hp
  exact (h5 p.1).mp (List.mem_map.mpr ⟨(p.2, p.1), this, rfl⟩)

theorem pyMapHas_eq {β : Type} (m : List (Var × β)) (i : Var) : pyMapHas m i = (m.map Prod.fst).contains i := by
  induction m with
  | nil => rfl
  | cons p r ih =>
    simp only [pyMapHas, List.any_cons, List.map_cons, List.contains_cons] at ih ⊢
    rw [ih, Bool.beq_comm]

theorem pyMapStore_fresh {α β : Type} [BEq α] (m : List (α × β)) (k : α) (v : β) (h : ∀ p ∈ m, (p.1 == k) = false) :
    pyMapStore m k v = m ++ [(k, v)] := by
  induction m with
  | nil => rfl
  | cons p r ih =>
    simp only [pyMapStore, h p (by simp), Bool.false_eq_true, if_false, List.cons_append]
    rw [ih (fun q hq => h q (by simp [hq]))]

theorem foldl_congr_inv {α σ : Type} (P : σ → Prop) (f g : σ → α → σ) (hP : ∀ s a, P s → P (g s a))
    (h : ∀ s a, P s → f s a = g s a) : ∀ (l : List α) (s : σ), P s → l.foldl f s = l.foldl g s := by
  intro l
  induction l with
  | nil => intro s _; rfl
  | cons a r ih =>
    intro s hs
    rw [List.foldl_cons, List.foldl_cons, h s a hs]
    exact ih _ (hP s a hs)

theorem regStep_revFresh (s : Obj) (i : Var) (h : RevFresh s) :
    RevFresh (if Fix.fixed.d1 && !s.variables.contains i then s else regLabel s i) := by
  split
  · exact h
  · unfold regLabel
    split
    · exact h
    · intro p hp
      simp only [List.mem_append, List.mem_singleton] at hp
      rcases hp with hp | hp
      · exact Nat.lt_succ_of_lt (h p hp)
      · rw [hp]; exact Nat.lt_succ_self _

/-- **`BO.__setitem__`** is the model's `setitem` (the code as it is now, `Fix.fixed`): after the parent's store, each label
of the *raw* key that is a variable of the model and has no integer label yet gets `_next_label`.
`RevFresh` (implied by C14's invariant I2, `revFresh_of_I2`) is where the dict store `_reverse_mapping[_next_label] = i`
is an append. -/
theorem BO_setitem_eq_model (s : Obj) (hb : hasBO s.kind = true) (hr : RevFresh s) (key : Key) (value : Rat) :
    BO_setitem s key value = setitem Fix.fixed s key value := by
  have hκ : s.kind ≠ .dict := by intro h; rw [h] at hb; exact absurd hb (by decide)
  unfold BO_setitem setitem
  rw [PUBOMatrix_setitem_eq_model s hκ]
  cases hm : matSet s key value with
  | error e => rfl
  | ok m =>
    have hmr := matSet_rev hm
    have hrm : RevFresh m := by
      intro p hp
      rw [hmr.2]; exact hr p (hmr.1 ▸ hp)
    simp only [bind_ok', bind, Except.bind, pure, Except.pure, hb, if_true]
    congr 1
    unfold regLabels
    refine foldl_congr_inv RevFresh _ _ (fun t i ht => regStep_revFresh t i ht) (fun t i ht => ?_) key m hrm
    unfold regLabel mapDom pyIn
    rw [pyMapHas_eq]
    by_cases hc : i ∈ t.variables
    · by_cases hd : i ∈ List.map Prod.fst t.mapping
      · simp [hc, hd, Fix.fixed]
      · have hfm : ∀ p ∈ t.mapping, (p.1 == i) = false := by
          intro p hp
          have hne : p.1 ≠ i := fun e => hd (List.mem_map.mpr ⟨p, hp, e⟩)
          simpa using hne
        have hfr : ∀ p ∈ t.reverse, (p.1 == t.nextLabel) = false := by
          intro p hp
          have := ht p hp
          simpa using Nat.ne_of_lt this
        rw [pyMapStore_fresh _ _ _ hfm, pyMapStore_fresh _ _ _ hfr]
        simp [hc, hd, Fix.fixed]
    · simp [hc, Fix.fixed]

/-- along every history of C14 (`Inv` holds, `inv_history`) `BO.__setitem__` is the model's `setitem` -/
theorem BO_setitem_eq_model_of_inv (s : Obj) (hb : hasBO s.kind = true) (hi : Inv s) (key : Key) (value : Rat) :
    BO_setitem s key value = setitem Fix.fixed s key value :=
  BO_setitem_eq_model s hb (revFresh_of_I2 hi.2.1) key value

/-- **`self[key] = value`** on an object of any of the ten model classes (method resolution computed from the source) is the
model's `setitem Fix.fixed` -/
theorem cls_setitem_eq_model (s : Obj) (hκ : s.kind ≠ .dict) (hr : RevFresh s) (key : Key) (value : Rat) :
    cls_setitem s.kind s key value = setitem Fix.fixed s key value := by
  by_cases hb : hasBO s.kind = true
  · have e : cls_setitem s.kind s key value = BO_setitem s key value := by
      revert hb hκ; cases s.kind <;> intro hκ hb <;> first | rfl | exact absurd hb (by decide) | exact absurd rfl hκ
    rw [e, BO_setitem_eq_model s hb hr]
  · have e : cls_setitem s.kind s key value = PUBOMatrix_setitem s key value := by
      revert hb hκ; cases s.kind <;> intro hκ hb <;> first | rfl | exact absurd rfl hκ | exact absurd (by decide) hb
    rw [e, PUBOMatrix_setitem_eq_model s hκ]
    unfold setitem
    cases matSet s key value with
    | error e => rfl
    | ok m => simp [bind, Except.bind, pure, Except.pure, hb]

/-- `self[key]` on an object of any of the ten model classes is C05's `getItem` -/
theorem cls_getitem_eq_model (s : Obj) (hκ : s.kind ≠ .dict) (key : Key) :
    cls_getitem s.kind s key = getItem (squash s.kind) s.terms key := by
  have e : cls_getitem s.kind s key = PUBOMatrix_getitem s key := by
    revert hκ; cases s.kind <;> intro hκ <;> first | rfl | exact absurd rfl hκ
  rw [e, PUBOMatrix_getitem_eq_model s hκ]

/-! ## getters -/

theorem PUBOMatrix_degree_eq_model (s : Obj) : PUBOMatrix_degree s = s.degree := rfl
theorem PUBOMatrix_variables_eq_model (s : Obj) : PUBOMatrix_variables s = s.variables := rfl
theorem PUBOMatrix_num_binary_variables_eq_model (s : Obj) : PUBOMatrix_num_binary_variables s = s.numVars := rfl
theorem BO_mapping_eq_model (s : Obj) : BO_mapping s = s.mapping := rfl
theorem BO_reverse_mapping_eq_model (s : Obj) : BO_reverse_mapping s = s.reverse := rfl

/-- `BO.max_index` is the model's `maxIndex` on the labelled types -/
theorem BO_max_index_eq_model (s : Obj) (hb : hasBO s.kind = true) : some (BO_max_index s) = maxIndex s := by
  unfold BO_max_index maxIndex PUBOMatrix_num_binary_variables
  simp [hb]

theorem foldl_max_eq (r : List Nat) : ∀ a : Nat, r.foldl (fun m x => if m < x then x else m) a = r.foldl max a := by
  induction r with
  | nil => intro a; rfl
  | cons b t ih =>
    intro a
    simp only [List.foldl_cons]
    have : (if a < b then b else a) = max a b := by
      by_cases h : a < b
      · rw [if_pos h, Nat.max_eq_right (Nat.le_of_lt h)]
      · rw [if_neg h, Nat.max_eq_left (Nat.le_of_not_lt h)]
    rw [this]; exact ih _

/-- `PUBOMatrix.max_index` is the model's `maxIndex` on the matrix types -/
theorem PUBOMatrix_max_index_eq_model (s : Obj) (hb : hasBO s.kind = false) :
    (PUBOMatrix_max_index s).map (fun o => o.map (fun (n : Nat) => (n : Int))) = .ok (maxIndex s) := by
  unfold PUBOMatrix_max_index maxIndex
  cases hv : s.variables with
  | nil => simp [hb, bind_ok', Except.map]
  | cons a r => simp [hb, bind_ok', Except.map, pyMaxVars, foldl_max_eq, bind, Except.bind]

/-! ## constraint bookkeeping of PCBO -/

theorem PCBO_num_ancillas_eq_model (s : Obj) : PCBO_num_ancillas s = s.ancilla := rfl

/-- `_next_ancilla`: the counter goes up by one and the label handed out is the one of the old counter value — the model's
`St.nextAnc` -/
theorem PCBO_next_ancilla_eq_model (s : Obj) :
    PCBO_next_ancilla s = (ANC + s.ancilla, { s with ancilla := s.ancilla + 1 }) ∧
    (PCBO_next_ancilla s).1 = (St.nextAnc { anc := s.ancilla }).2 ∧
    (PCBO_next_ancilla s).2.ancilla = (St.nextAnc { anc := s.ancilla }).1.anc := by
  unfold PCBO_next_ancilla pyAncName St.nextAnc
  refine ⟨?_, ?_, ?_⟩ <;> first | rfl | (simp; try omega) | (congr 1; simp; omega)

/-- `_append_constraint`: the recorded constraints grow by `(key, constraint)` at the end — the model's `St.append` -/
theorem PCBO_append_constraint_eq_model (s : Obj) (r : Rel) (c : Poly) :
    PCBO_append_constraint s r c = { s with constraints := s.constraints ++ [(r, c)] } ∧
    (PCBO_append_constraint s r c).constraints = (St.append { cons := s.constraints } r c).cons := ⟨rfl, rfl⟩

example : cls_squash_key .quso [3, 1, 3, 2, 2, 2] = .ok [1, 2] := by decide +kernel
example : cls_squash_key .qubo [3, 1, 2] = .error .key := by decide +kernel
example : (match BO_setitem (init .pubo) [2, 0, 2] 3 with
    | .ok s => decide (s.terms = [([0, 2], 3)] ∧ s.mapping = [(2, 0), (0, 1)] ∧ s.reverse = [(0, 2), (1, 0)] ∧
        s.variables = [0, 2] ∧ s.numVars = 2 ∧ s.degree = some 2 ∧ s.nextLabel = 2)
    | .error _ => false) = true := by decide +kernel

end Qv.Gen
