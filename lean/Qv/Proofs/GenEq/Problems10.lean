import Qv.Gen.SourceProblems10
import Qv.Proofs.GenEq.Problems5Lib
import Qv.Proofs.GenEq.Problems9Chain
/-!
# GenEq.Problems10 — `AlternatingSectorsChain`, the remaining methods (C10): `num_binary_variables`, `convert_solution`,
`is_solution_valid` generated from `benchmarking/_alternating_sectors_chain.py` equal the model's `ASC.numVars`, `ASC.convert`,
`ASC.valid`.  The code returns a tuple of numbers; the generated definition represents it like every solution container (its
`(index, value)` items), the model by its values: the theorem compares the values.
-/
set_option linter.unusedTactic false
set_option linter.unreachableTactic false
set_option linter.unusedSimpArgs false
set_option linter.unusedVariables false
namespace Qv.Gen
open Qv Qv.Prob

theorem AlternatingSectorsChain_num_binary_variables_eq_model (p : ASC) :
    AlternatingSectorsChain_num_binary_variables p.N p.len p.negMin p.negMax = .ok p.numVars := rfl

theorem pb2_vals_enumerate (l : List Rat) : solValues (pb2Enumerate l) = l := by
  unfold solValues pb2Enumerate
  rw [List.map_snd_zip]
  simp

/-- the values of `solMap f s` depend only on the values of `s` -/
theorem pb2_solMap_vals (f : Rat → Except Err Rat) (s s' : Sol) (h : solValues s = solValues s') :
    (solMap f s >>= fun t => (.ok (solValues t) : Except Err (List Rat))) = (solMap f s' >>= fun t => .ok (solValues t)) := by
  induction s generalizing s' with
  | nil =>
    cases s' with
    | nil => rfl
    | cons b r => simp [solValues] at h
  | cons a r ih =>
    cases s' with
    | nil => simp [solValues] at h
    | cons b r' =>
      obtain ⟨i, v⟩ := a
      obtain ⟨j, w⟩ := b
      simp only [solValues, List.map_cons, List.cons.injEq] at h
      obtain ⟨hv, hr⟩ := h
      subst hv
      have ihr := ih r' hr
      simp only [solMap, bind_assocP]
      cases f v with
      | error e => rfl
      | ok v' =>
        simp only [ok_bindP]
        cases h1 : solMap f r with
        | error e =>
          cases h2 : solMap f r' with
          | error e' => simp [h1, h2] at ihr ⊢; exact ihr
          | ok t' => simp [h1, h2] at ihr
        | ok t =>
          cases h2 : solMap f r' with
          | error e' => simp [h1, h2] at ihr
          | ok t' =>
            simp only [h1, h2, ok_bindP, Except.ok.injEq] at ihr
            simp [bind, Except.bind, pure, Except.pure, solValues, ihr] at ihr ⊢
            exact ihr

/-- `convert_solution(solution, spin)`: the values of the returned tuple -/
theorem AlternatingSectorsChain_convert_solution_eq_model (p : ASC) (s : Sol) (isDict spin : Bool) :
    (AlternatingSectorsChain_convert_solution p.N p.len p.negMin p.negMax s isDict spin >>= fun t => .ok (solValues t))
      = p.convert s isDict spin := by
  unfold AlternatingSectorsChain_convert_solution ASC.convert pyBooleanToSpin pb2SortedItems
  have hmap : ∀ l : List (Nat × Rat), List.map (fun (it : Nat × Rat) => it.2) l = solValues l := fun _ => rfl
  simp only [is_solution_spin_eq_model, bind_ok_id, hmap]
  cases isDict
  · simp only [Bool.false_eq_true, if_false]
    cases isSolutionSpin (solValues s) spin <;> simp [pure, Except.pure, bind_assocP]
  · simp only [if_true]
    rw [pb2_vals_enumerate]
    cases isSolutionSpin (solValues (sortItems s)) spin
    · simp only [Bool.not_false, if_true, pure, Except.pure]
      exact pb2_solMap_vals b2sVal _ _ (pb2_vals_enumerate _)
    · simp [pure, Except.pure, pb2_vals_enumerate]

theorem pb2_validConv (l : List Rat) :
    decide ((l.all (fun x => decide (x = (1 : Rat)))) = true ∨ (l.all (fun x => decide (x ≠ (1 : Rat)))) = true) = ASC.validConv l := by
  unfold ASC.validConv
  rw [Bool.eq_iff_iff]
  simp

theorem AlternatingSectorsChain_is_solution_valid_eq_model (p : ASC) (s : Sol) (isDict spin : Bool) :
    AlternatingSectorsChain_is_solution_valid p.N p.len p.negMin p.negMax s isDict spin = p.valid s isDict spin := by
  unfold AlternatingSectorsChain_is_solution_valid ASC.valid
  cases isDict
  · simp only [Bool.false_eq_true, if_false, pb2SolIterVals, pure, Except.pure]
    congr 1
    exact pb2_validConv _
  · simp only [if_true, ← AlternatingSectorsChain_convert_solution_eq_model, bind_assocP, ok_bindP, pb2SolIterVals,
      Bool.false_eq_true, if_false, pure, Except.pure]
    apply bind_congrP
    intro t
    congr 1
    exact pb2_validConv _

end Qv.Gen
