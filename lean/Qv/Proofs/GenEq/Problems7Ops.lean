import Qv.Gen.SourceProblems7
import Qv.Proofs.GenEq.Problems5
/-!
# GenEq.Problems7Ops — step (C) of `JobSequencing.to_qubo` (C10): the loops generated from `np/coloring/_job_sequencing.py`
(with the helpers `_x`, `_y`) run exactly the item statements `pb2_jsOps` — the loop structure of the source written as a list
(`::`, `++`, `flatMap`), unfolded into the loop program by the unconditional `pb2_iaddD_*` lemmas and compared statement by statement.

Instance data: `_lengths = p.lengths` (the items of the dict in insertion order), `_job_to_int` = the list of its keys,
`_m = p.m`, `_log_trick = p.logTrick`, `_max_L = p.maxL`, `_N = p.N = len(lengths)`, `_M = p.M`, `_log_M = p.logM`.
-/
set_option linter.unusedTactic false
set_option linter.unreachableTactic false
set_option linter.unusedSimpArgs false
set_option linter.unusedVariables false
namespace Qv.Gen
open Qv Qv.Prob

/-- the keys of `_lengths` -/
def pb2_keys (p : JS) : List Var := p.lengths.map Prod.fst
/-- `_job_to_int[job]` -/
def pb2_idx (p : JS) (job : Var) : Nat := (pb2_keys p).idxOf job

/-- the label `_y(i, worker)` as the generated code computes it (in `Int`, then read as a natural number) -/
def pb2_yg (p : JS) (i w : Nat) : Nat :=
  Int.toNat (((((p.N * p.m : Nat) : Int) + ((i : Int) * ((p.m : Int) - ((1 : Nat) : Int)))) + (w : Int)) - (1 : Int))

/-- all item statements of `to_qubo` (after `A` has been resolved), in the loop structure of the source -/
def pb2_jsOps (p : JS) (A B : Rat) : Ops :=
  ([], (p.N : Rat) * A) ::
  (p.lengths.flatMap (fun it => [([p.x (pb2_idx p it.1) 0], B * it.2)]) ++
   ((pb2_keys p).flatMap (fun job => (List.range p.m).flatMap (fun w =>
      ([p.x (pb2_idx p job) w], -(2 * A)) ::
      (List.range p.m).flatMap (fun wp => [([p.x (pb2_idx p job) w, p.x (pb2_idx p job) wp], A)]))) ++
    (pyRange2 1 p.m).flatMap (fun w =>
      (List.range p.maxM).flatMap (fun n =>
        (List.range p.maxM).flatMap (fun np =>
          [([pb2_yg p n w, pb2_yg p np w],
            if p.logTrick = true then A * (2 : Rat) ^ (n + np) else A * ((n + 1 : Nat) : Rat) * ((np + 1 : Nat) : Rat))]) ++
        p.lengths.flatMap (fun it =>
          [([pb2_yg p n w, p.x (pb2_idx p it.1) w], 2 * A * it.2 * ((if p.logTrick = true then 2 ^ n else n + 1 : Nat) : Rat)),
           ([pb2_yg p n w, p.x (pb2_idx p it.1) 0], -(2 * A * it.2 * ((if p.logTrick = true then 2 ^ n else n + 1 : Nat) : Rat)))])) ++
      p.lengths.flatMap (fun it => p.lengths.flatMap (fun itp =>
        [([p.x (pb2_idx p it.1) w, p.x (pb2_idx p itp.1) w], A * it.2 * itp.2),
         ([p.x (pb2_idx p it.1) 0, p.x (pb2_idx p itp.1) 0], A * it.2 * itp.2),
         ([p.x (pb2_idx p it.1) 0, p.x (pb2_idx p itp.1) w], -(A * it.2 * itp.2)),
         ([p.x (pb2_idx p it.1) w, p.x (pb2_idx p itp.1) 0], -(A * it.2 * itp.2))])))))

theorem pb2_forM_attach {α σ : Type} (l : List α) (s : σ) (f : σ → α → Except Err σ) :
    pyForM l s f = pyForM l.attach s (fun s a => f s a.1) := by
  have h : ∀ (l' : List {x // x ∈ l}) (s : σ), pyForM (l'.map Subtype.val) s f = pyForM l' s (fun s a => f s a.1) := by
    intro l'
    induction l' with
    | nil => intro s; rfl
    | cons a r ih =>
      intro s
      simp only [List.map_cons, pyForM]
      cases f s a.1 with
      | error e => rfl
      | ok s' => exact ih s'
  have := h l.attach s
  rwa [List.attach_map_subtype_val] at this

/-- `_x(job, worker)` for a key of `_lengths` -/
theorem JobSequencing__x_eq_model (p : JS) (job : Var) (w : Nat) (h : job ∈ pb2_keys p) :
    JobSequencing__x p.lengths (pb2_keys p) p.m p.logTrick p.maxL p.N p.M p.logM job w = .ok (p.x (pb2_idx p job) w) := by
  unfold JobSequencing__x JS.x pb2_idx
  simp only [pb2_pyIndexOf_mem _ job h, ok_bindP]

theorem pb2_jsx_item (p : JS) (a : {it // it ∈ p.lengths}) (w : Nat) :
    JobSequencing__x p.lengths (pb2_keys p) p.m p.logTrick p.maxL p.N p.M p.logM a.1.1 w = .ok (p.x (pb2_idx p a.1.1) w) :=
  JobSequencing__x_eq_model p a.1.1 w (List.mem_map.2 ⟨a.1, a.2, rfl⟩)

theorem pb2_jsx_key (p : JS) (a : {j // j ∈ pb2_keys p}) (w : Nat) :
    JobSequencing__x p.lengths (pb2_keys p) p.m p.logTrick p.maxL p.N p.M p.logM a.1 w = .ok (p.x (pb2_idx p a.1) w) :=
  JobSequencing__x_eq_model p a.1 w a.2

theorem pb2_jsy_gen (p : JS) (i w : Nat) :
    JobSequencing__y p.lengths (pb2_keys p) p.m p.logTrick p.maxL p.N p.M p.logM i w = .ok
      (((((p.N * p.m : Nat) : Int) + ((i : Int) * ((p.m : Int) - ((1 : Nat) : Int)))) + (w : Int)) - (1 : Int)) := rfl

/-- (C) the generated loops run the statements `pb2_jsOps` (with `A` resolved as the source does) -/
theorem pb2_js_to_qubo_ops (p : JS) (A : Option Rat) (B : Rat) :
    JobSequencing_to_qubo p.lengths (pb2_keys p) p.m p.logTrick p.maxL p.N p.M p.logM A B =
      iaddD (squash .qubom) [] (pb2_jsOps p (match A with | some a => a | none => B * p.maxL) B) := by
  unfold JobSequencing_to_qubo pb2_jsOps
  have hk : List.map Prod.fst p.lengths = pb2_keys p := rfl
  cases A
  all_goals
    simp only [pb2_iaddD_cons, pb2_iaddD_append, pb2_iaddD_flatMap, pb2_iaddD_nil, pyMatIAddNum, iaddC, pyMatIAddItem, bind_ok_id,
      bind_assocP, hk, JS.maxM]
    simp only [pb2_forM_attach p.lengths, pb2_forM_attach (pb2_keys p), pb2_jsx_item, pb2_jsx_key, pb2_jsy_gen, ok_bindP, pb2_yg]
    cases hl : p.logTrick
    all_goals simp only [if_true, if_false, Bool.false_eq_true, reduceCtorEq]
    all_goals first
    | rfl
    | (simp only [bind_assocP]; done)
    | (simp only [bind_assocP, bind_ok_id]; rfl)

end Qv.Gen
