import Qv.Gen.SourceConv3Exp
import Qv.Model.Convert
import Qv.Proofs.Canon
import Qv.Proofs.GenEq.PyList
import Mathlib.Data.List.Nodup
/-!
# GenEq.Conv3Exp — the exports `QUSOMatrix.h` and `QUSOMatrix.J` generated from `qubovert/utils/_qusomatrix.py` equal
the model's `exportH` / `exportJ` (C04) on every object whose keys are distinct (`(keys items).Nodup`; every stored
model satisfies it: a dict has no key twice).

The generated text is a dict comprehension (`pyDictCompM`: a later equal key overwrites in place); the model's
`exportH` / `exportJ` are a `filterMap` / `filter` (no deduplication).  They agree because every key the comprehension
produces is fresh (`cv3_dictSet_fresh`: a fresh key is appended) — for `h` the keys are the labels `k[0]` of the
single-label keys, which are distinct because the keys are.
-/
set_option linter.unusedTactic false
set_option linter.unreachableTactic false
set_option linter.unusedSimpArgs false
namespace Qv.Gen

/-- `d[k] = v` with a key that is not in the dict appends the item -/
theorem cv3_dictSet_fresh {κ α : Type} [DecidableEq κ] (d : List (κ × α)) (k : κ) (v : α) (h : k ∉ d.map Prod.fst) :
    pyDictSet d k v = d ++ [(k, v)] := by
  induction d with
  | nil => rfl
  | cons kv r ih =>
    obtain ⟨k', v'⟩ := kv
    have hk : ¬ k' = k := fun e => h (by simp [e])
    have hr : k ∉ r.map Prod.fst := fun e => h (by simp [e])
    simp only [pyDictSet, if_neg hk, ih hr, List.cons_append]

/-- a dict comprehension whose keys are pairwise distinct (and not yet in the dict) appends its items in order -/
theorem cv3_forM_fresh {ι κ α : Type} [DecidableEq κ] (g : ι → κ × α) (body : List (κ × α) → ι → Except Err (List (κ × α)))
    (hbody : ∀ d i, body d i = .ok (pyDictSet d (g i).1 (g i).2)) :
    ∀ (l : List ι) (d : List (κ × α)), (d.map Prod.fst ++ l.map (fun i => (g i).1)).Nodup →
      pyForM l d body = .ok (d ++ l.map g) := by
  intro l
  induction l with
  | nil => intro d _; simp [pyForM]
  | cons i r ih =>
    intro d hnd
    have hfresh : (g i).1 ∉ d.map Prod.fst := by
      intro hmem
      have := List.nodup_append.mp hnd
      exact this.2.2 _ hmem _ (by simp) rfl
    simp only [pyForM, hbody, ok_bind', cv3_dictSet_fresh d _ _ hfresh]
    rw [ih (d ++ [((g i).1, (g i).2)])]
    · simp
    · simpa [List.map_append, List.append_assoc] using hnd

theorem cv3_dictComp_fresh {ι κ α : Type} [DecidableEq κ] (g : ι → κ × α) (f : ι → Except Err (κ × α))
    (hf : ∀ i, f i = .ok (g i)) (l : List ι) (hnd : (l.map (fun i => (g i).1)).Nodup) :
    pyDictCompM l f = .ok (l.map g) := by
  unfold pyDictCompM
  have := cv3_forM_fresh g (fun d i => f i >>= fun kv => .ok (pyDictSet d kv.1 kv.2))
    (by intro d i; simp only [hf, ok_bind']) l [] (by simpa using hnd)
  simpa using this

/-- the comprehension `{k[0]: v for k, v in items if len(k) == 1}` without deduplication is the model's `exportH` -/
theorem cv3_exportH_eq (p : Poly) :
    (p.filter (fun it => decide (it.1.length = 1))).map (fun it => (pyGet it.1 0, it.2)) = exportH p := by
  induction p with
  | nil => rfl
  | cons kv r ih =>
    obtain ⟨k, v⟩ := kv
    rcases k with _ | ⟨i, _ | ⟨j, t⟩⟩ <;> simp [exportH, List.filter, pyGet] at ih ⊢ <;> exact ih

theorem cv3_exportJ_eq (p : Poly) :
    (p.filter (fun it => decide (it.1.length = 2))).map (fun it => (it.1, it.2)) = exportJ p := by
  unfold exportJ
  have hf : (fun it : Key × Rat => decide (it.1.length = 2)) = (fun kv => kv.1.length == 2) := by
    funext it; by_cases h : it.1.length = 2 <;> simp [h]
  have hid : (fun it : Key × Rat => (it.1, it.2)) = id := rfl
  rw [hf, hid, List.map_id]

theorem cv3_single_labels_nodup (p : Poly) (hnd : (keys p).Nodup) :
    ((p.filter (fun it => decide (it.1.length = 1))).map (fun it => pyGet it.1 0)).Nodup := by
  have hsub : ((p.filter (fun it => decide (it.1.length = 1))).map Prod.fst).Nodup :=
    List.Nodup.sublist (List.Sublist.map _ List.filter_sublist) hnd
  have heq : ((p.filter (fun it => decide (it.1.length = 1))).map (fun it => pyGet it.1 0)).map (fun i => [i]) =
      (p.filter (fun it => decide (it.1.length = 1))).map Prod.fst := by
    rw [List.map_map]
    apply List.map_congr_left
    intro it hit
    have hlen : it.1.length = 1 := by simpa using (List.mem_filter.mp hit).2
    obtain ⟨k, v⟩ := it
    rcases k with _ | ⟨i, _ | ⟨j, t⟩⟩ <;> simp_all [pyGet]
  exact List.Nodup.of_map _ (heq ▸ hsub)

/-- `M.h` for a QUSOMatrix / QUSO `M` given by its items (distinct keys): the model's `exportH` (never raises) -/
theorem cv3_QUSOMatrix_h_eq_model (self : ConvObj) (hnd : (keys self.items).Nodup) :
    cv3_QUSOMatrix_h self = .ok (exportH self.items) := by
  unfold cv3_QUSOMatrix_h
  simp only [bind_ok_self, pyObjItems]
  rw [← cv3_exportH_eq]
  refine cv3_dictComp_fresh (fun (it : Key × Rat) => (pyGet it.1 0, it.2)) _ ?_ _ ?_
  · intro it; first | rfl | simp
  · exact cv3_single_labels_nodup self.items hnd

/-- `M.J`: the model's `exportJ` -/
theorem cv3_QUSOMatrix_J_eq_model (self : ConvObj) (hnd : (keys self.items).Nodup) :
    cv3_QUSOMatrix_J self = .ok (exportJ self.items) := by
  unfold cv3_QUSOMatrix_J
  simp only [bind_ok_self, pyObjItems]
  rw [← cv3_exportJ_eq]
  refine cv3_dictComp_fresh (fun (it : Key × Rat) => (it.1, it.2)) _ ?_ _ ?_
  · intro it; first | rfl | simp
  · have : (fun (i : Key × Rat) => ((fun it : Key × Rat => (it.1, it.2)) i).1) = Prod.fst := rfl
    rw [this]
    exact List.Nodup.sublist (List.Sublist.map _ List.filter_sublist) hnd

example : cv3_QUSOMatrix_h ⟨.qusom, [([], 5), ([2], 3), ([0, 1], -1), ([0], 4)]⟩ = .ok [(2, 3), (0, 4)] := by decide +kernel
example : cv3_QUSOMatrix_J ⟨.qusom, [([], 5), ([2], 3), ([0, 1], -1)]⟩ = .ok [([0, 1], -1)] := by decide +kernel
example : (keys [([], (5 : Rat)), ([2], 3), ([0, 1], -1)]).Nodup := by decide

end Qv.Gen
