import Qv.Gen.SourceAnneal
import Qv.Proofs.GenEq.AnnealLib
import Qv.Proofs.KernelValue
/-!
# GenEq.AnnealQusoFlat — the flattening loop generated from `anneal_quso` builds exactly the arrays of the model
(`flattenQuso` + `qusoArgs`): `h`, `num_neighbors`, `neighbors`, `J` (C11, C12, C17)

The generated loop keeps four Python lists (`h`, `neighbors`, `num_neighbors`, `J`; rows appended in lock step, a counter
per row); the model keeps `h` and one adjacency list of `(neighbor, J)` pairs per spin.  `abs4` reads the four lists off
the model state; every statement of the loop body commutes with it (`appendAt_fst`, `appendAt_snd`, `incr_len`, `set_h`).
`abs3` is the same without the counters (a source that derives `num_neighbors` from the rows after the loop).
-/
set_option linter.unusedTactic false
set_option linter.unreachableTactic false
set_option linter.unusedSimpArgs false
namespace Qv.Gen.Ann
open Qv.Gen
open Qv Qv.Anneal Qv.Kernel

abbrev MState := List Rat × List (List (Nat × Rat))

/-- simulation of a generated loop by a model loop through an abstraction function, under an invariant of the model state -/
theorem foldlM_sim {σ τ β : Type} (abs : τ → σ) (P : τ → Prop) (f : σ → β → Except Err σ) (g : τ → β → Except Err τ)
    (hstep : ∀ t b, P t → f (abs t) b = (g t b >>= fun t' => Except.ok (abs t')))
    (hP : ∀ t b t', P t → g t b = .ok t' → P t') :
    ∀ (l : List β) (t : τ), P t → l.foldlM f (abs t) = (l.foldlM g t >>= fun t' => Except.ok (abs t'))
  | [], _, _ => rfl
  | b :: l, t, ht => by
    simp only [List.foldlM_cons, hstep t b ht]
    cases h : g t b with
    | error e => rfl
    | ok t' => exact foldlM_sim abs P f g hstep hP l t' (hP t b t' ht h)

section
variable {α : Type} (toNum : Rat → α)

def rowsNb (adj : List (List (Nat × Rat))) : List (List Nat) := adj.map (fun r => r.map Prod.fst)
def rowsJ (adj : List (List (Nat × Rat))) : List (List α) := adj.map (fun r => r.map (fun p => toNum p.2))
def rowsLen (adj : List (List (Nat × Rat))) : List Nat := adj.map List.length

/-- the four Python lists, read off the model state -/
def abs4 (t : MState) : List α × List (List Nat) × List Nat × List (List α) :=
  (t.1.map toNum, rowsNb t.2, rowsLen t.2, rowsJ toNum t.2)

/-- the same without the counters -/
def abs3 (t : MState) : List α × List (List Nat) × List (List α) := (t.1.map toNum, rowsNb t.2, rowsJ toNum t.2)

def addPair (adj : List (List (Nat × Rat))) (i : Nat) (p : Nat × Rat) : List (List (Nat × Rat)) :=
  adj.set i (adj.getD i [] ++ [p])

theorem addPair_length (adj : List (List (Nat × Rat))) (i : Nat) (p : Nat × Rat) : (addPair adj i p).length = adj.length := by
  simp [addPair]

theorem getD_eq_getElem {β : Type} (l : List β) (i : Nat) (d : β) (h : i < l.length) : l.getD i d = l[i] := by
  simp [List.getD, List.getElem?_eq_getElem h]

theorem appendAt_rows {β γ : Type} (f : β → γ) (adj : List (List β)) (i : Nat) (p : β) :
    pyAppendAt (adj.map (fun r => r.map f)) i (f p) =
      if i < adj.length then .ok ((adj.set i (adj.getD i [] ++ [p])).map (fun r => r.map f)) else .error .index := by
  unfold pyAppendAt pyListGet pyListSet
  by_cases h : i < adj.length
  · simp [h, List.getElem?_map, List.getElem?_eq_getElem h, getD_eq_getElem adj i [] h, List.map_set]
    rfl
  · have : (List.map (fun r => List.map f r) adj)[i]? = none := List.getElem?_eq_none (by simp; omega)
    simp [h, this]
    rfl

theorem appendAt_fst (adj : List (List (Nat × Rat))) (i x : Nat) (c : Rat) :
    pyAppendAt (rowsNb adj) i x =
      if i < adj.length then .ok (rowsNb (addPair adj i (x, c))) else .error .index :=
  appendAt_rows Prod.fst adj i (x, c)

theorem appendAt_snd (adj : List (List (Nat × Rat))) (i x : Nat) (c : Rat) :
    pyAppendAt (rowsJ toNum adj) i (toNum c) =
      if i < adj.length then .ok (rowsJ toNum (addPair adj i (x, c))) else .error .index :=
  appendAt_rows (fun (p : Nat × Rat) => toNum p.2) adj i (x, c)

theorem incr_len (adj : List (List (Nat × Rat))) (i : Nat) (p : Nat × Rat) :
    (pyListGet (rowsLen adj) i >>= fun a => pyListSet (rowsLen adj) i (a + 1)) =
      if i < adj.length then .ok (rowsLen (addPair adj i p)) else .error .index := by
  unfold pyListGet pyListSet rowsLen addPair
  by_cases h : i < adj.length
  · simp [h, List.getElem?_map, List.getElem?_eq_getElem h, getD_eq_getElem adj i [] h, List.map_set]
    rfl
  · have : (List.map List.length adj)[i]? = none := List.getElem?_eq_none (by simp; omega)
    simp [h, this]
    rfl

theorem set_h (hR : List Rat) (a : Nat) (v : Rat) :
    pyListSet (hR.map toNum) a (toNum v) = if a < hR.length then .ok ((hR.set a v).map toNum) else .error .index := by
  unfold pyListSet
  by_cases h : a < hR.length <;> simp [h, List.map_set]

/-- the model's loop body, with the adjacency update named -/
theorem qstep_pair (N : Nat) (s : MState) (i j : Nat) (v : Rat) :
    qstep N s ([i, j], v) = if i < N ∧ j < N then .ok (s.1, addPair (addPair s.2 i (j, v)) j (i, v)) else .error .index := rfl

def MInv (N : Nat) (t : MState) : Prop := t.1.length = N ∧ t.2.length = N

theorem qstep_MInv (N : Nat) (t : MState) (kv : Key × Rat) (t' : MState) (ht : MInv N t) (h : qstep N t kv = .ok t') :
    MInv N t' := by
  obtain ⟨k, v⟩ := kv
  obtain ⟨h1, h2⟩ := ht
  match k, h with
  | [], h => cases h; exact ⟨h1, h2⟩
  | [a], h =>
    simp only [qstep] at h
    split at h
    · cases h; exact ⟨by simp [h1], h2⟩
    · cases h
  | [i, j], h =>
    rw [qstep_pair] at h
    split at h
    · cases h; exact ⟨h1, by simp [addPair_length, h2]⟩
    · cases h
  | _ :: _ :: _ :: _, h => cases h; exact ⟨h1, h2⟩

theorem flatten_rowsNb (adj : List (List (Nat × Rat))) : (rowsNb adj).flatten = adj.flatten.map Prod.fst := by
  simp [rowsNb, List.map_flatten]

theorem flatten_rowsJ (adj : List (List (Nat × Rat))) : (rowsJ toNum adj).flatten = adj.flatten.map (fun p => toNum p.2) := by
  simp [rowsJ, List.map_flatten]

theorem rowsNb_len (adj : List (List (Nat × Rat))) : (rowsNb adj).map List.length = adj.map List.length := by
  simp [rowsNb]

end
end Qv.Gen.Ann
