import Qv.Gen.SourceSat
import Qv.Proofs.GenEq.PyList
import Qv.Proofs.SatKind
/-!
# GenEq.Sat — the definitions generated from `qubovert/sat/_satisfiability.py` equal the model's gate
builders (C07)

`BUFFER`, `NOT`, `AND`, `NAND`, `OR`, `NOR`, `XOR`, `XNOR` (generated, `Qv/Gen/SourceSat.lean`) against
`bufferV`, `notV`, `andV`, `orV`, `xorV` and `applyGate` of `Qv/Model/Sat.lean`, for every operand list of
any length.  Scope (`BoolOperand`): an operand is a label, a plain dict, or a model of one of the five
boolean classes — the scope of C07 (`SExpr.Ok`); for a spin-model operand the source converts with
`PUBO(x)` where the model keeps the type, and a computed number is not an operand.
-/
set_option linter.unusedTactic false
set_option linter.unreachableTactic false
set_option linter.unusedSimpArgs false
namespace Qv.Gen

/-- an operand in the scope of the sat builders: a label, a plain dict, or a model object of one of the five
classes of `BOOLEAN_MODELS` -/
def BoolOperand : SVal → Prop
  | .lbl _ => True
  | .val (.raw _) => True
  | .val (.mdl κ _) => pyBooleanKind κ = true
  | .val (.num _) => False

theorem boolOperand_mdl {κ : Kind} {p : Poly} (h : pyBooleanKind κ = true) : BoolOperand (.val (.mdl κ p)) := h

theorem bkind_bool {v : SVal} (h : BoolOperand v) : pyBooleanKind v.bkind = true := by
  match v, h with
  | .lbl _, _ => rfl
  | .val (.raw _), _ => rfl
  | .val (.mdl _ _), h => exact h

theorem gateKind_bool {vs : List SVal} (h : ∀ v ∈ vs, BoolOperand v) : pyBooleanKind (gateKind vs) = true := by
  cases vs with
  | nil => rfl
  | cons v r => exact bkind_bool (h v (by simp))

/-- a successful gate result is again an operand in scope -/
theorem boolOperand_of_kind {m : Val} {vs : List SVal} (h : ∀ v ∈ vs, BoolOperand v)
    (hk : m.kind? = some (gateKind vs)) : BoolOperand (.val m) := by
  obtain ⟨p, rfl⟩ := kind_some hk
  exact gateKind_bool h

/-! ## `BUFFER`, `NOT` -/

theorem BUFFER_eq_model (x : SVal) (hx : BoolOperand x) : BUFFER x = bufferV x := by
  unfold BUFFER
  match x, hx with
  | .lbl i, _ =>
    simp [pyIsBooleanModel, pyIsDict, pyLabel, pyNewDict, bufferV, Val.cast, bind_ok_self, ok_bind']
  | .val (.raw p), _ =>
    simp [pyIsBooleanModel, pyIsDict, pyNew, bufferV, bind_ok_self, ok_bind']
  | .val (.mdl κ p), h =>
    have h' : pyBooleanKind κ = true := h
    simp [pyIsBooleanModel, h', pyCopy, bufferV, Val.cast, Val.pos, bind_ok_self]

theorem NOT_eq_model (x : SVal) (hx : BoolOperand x) : NOT x = notV x := by
  unfold NOT notV
  rw [BUFFER_eq_model x hx]
  (try simp only [bind_ok_self]) <;> first | rfl | (cases bufferV x <;> rfl)

/-! ## `AND` -/

/-- the `for v in variables: P *= BUFFER(v)` loop is the model's `andLoop` -/
theorem and_loop (f : Val → SVal → Except Err Val) :
    ∀ (vs : List SVal) (acc : Val), (∀ v ∈ vs, ∀ a, f a v = (bufferV v >>= fun b => Val.mul a b)) →
      pyForM vs acc f = andLoop acc vs := by
  intro vs
  induction vs with
  | nil => intro acc _; rfl
  | cons v r ih =>
    intro acc hf
    simp only [pyForM, andLoop]
    rw [hf v (by simp) acc]
    have ih' := fun a => ih a (fun w hw => hf w (List.mem_cons_of_mem _ hw))
    cases hb : bufferV v with
    | error e => rfl
    | ok b =>
      simp only [ok_bind']
      cases hm : Val.mul acc b with
      | error e => rfl
      | ok m => simp only [ok_bind', ih'] <;> rfl

theorem AND_eq_model (vs : List SVal) (h : ∀ v ∈ vs, BoolOperand v) : AND vs = andV vs := by
  unfold AND
  split_ifs with hc
  · -- the test for "no operands" holds
    have h0 : vs = [] := by first | exact hc | simpa using hc
    subst h0
    simp only [bind_ok_self] <;> rfl
  · have hne : vs ≠ [] := by first | exact hc | (intro h0; apply hc; simp [h0])
    obtain ⟨v, r, rfl⟩ := List.exists_cons_of_ne_nil hne
    simp only [bind_ok_self, andV]
    refine and_loop _ (v :: r) _ ?_
    intro w hw a
    rw [BUFFER_eq_model w (h w hw)]
    try first
    | rfl
    | (simp only [bind_ok_self]; done)
    | (cases bufferV w <;> simp [bind_ok_self, ok_bind', error_bind'])

/-! ## `OR`, `XOR`: the recursion on `variables[:-1]` is the model's left fold -/

theorem foldSteps_concat (step : Val → SVal → Except Err Val) (w : SVal) :
    ∀ (r : List SVal) (x : Val), foldSteps step x (r ++ [w]) = (foldSteps step x r >>= fun y => step y w) := by
  intro r
  induction r with
  | nil => intro x; simp only [List.nil_append, foldSteps, ok_bind']; cases step x w <;> rfl
  | cons v r ih =>
    intro x
    simp only [List.cons_append, foldSteps]
    cases step x v with
    | error e => rfl
    | ok y => simp only [ok_bind']; exact ih y

theorem orV_concat (vs : List SVal) (w : SVal) (hne : vs ≠ []) :
    orV (vs ++ [w]) = (orV vs >>= fun x => orStep x w) := by
  cases vs with
  | nil => exact absurd rfl hne
  | cons v r =>
    simp only [List.cons_append, orV]
    cases bufferV v with
    | error e => rfl
    | ok b => simp only [ok_bind']; exact foldSteps_concat orStep w r b

theorem xorV_concat (vs : List SVal) (w : SVal) (hne : vs ≠ []) :
    xorV (vs ++ [w]) = (xorV vs >>= fun x => xorStep x w) := by
  cases vs with
  | nil => exact absurd rfl hne
  | cons v r =>
    simp only [List.cons_append, xorV]
    cases bufferV v with
    | error e => rfl
    | ok b => simp only [ok_bind']; exact foldSteps_concat xorStep w r b

/-- the list primitives on a one-operand list (the `*rest, last = variables` shape after `init = []`) -/
theorem sat_pyIndex_neg_one_single (w : SVal) : pyIndex [w] (-1 : Int) = .ok w := pyIndex_neg_one_concat [] w
theorem sat_pySlice_to_neg_one_single (w : SVal) : pySlice [w] none (some (-1)) = [] := pySlice_to_neg_one_concat [] w
theorem sat_pyUnpackAtLeast_one_single (w : SVal) : pyUnpackAtLeast [w] 1 = .ok () := pyUnpackAtLeast_one_concat [] w

theorem OR_eq_model_aux : ∀ (n : Nat) (vs : List SVal), vs.length = n → (∀ v ∈ vs, BoolOperand v) → OR vs = orV vs := by
  intro n
  induction n with
  | zero =>
    intro vs hl _
    obtain rfl := List.length_eq_zero_iff.mp hl
    rw [OR]
    first
    | (simp only [dif_pos, bind_ok_self]; rfl)
    | (simp [bind_ok_self] <;> rfl)
  | succ n ih =>
    intro vs hl h
    rw [OR]
    have hne : vs ≠ [] := by intro h0; rw [h0] at hl; simp at hl
    obtain ⟨init, w, rfl⟩ := exists_concat_of_ne_nil vs hne
    have hw : BoolOperand w := h w (by simp)
    have hinit : ∀ v ∈ init, BoolOperand v := fun v hv => h v (by simp [hv])
    have hli : init.length = n := by simpa using hl
    have hrec := ih init hli hinit
    clear ih h hl
    -- whatever tests the source uses to tell 0, 1 and more operands apart: decide each branch from the shape
    -- `init ++ [w]` of the operand list
    simp only []
    split_ifs <;>
    first
    | (exfalso; simp_all; done)
    | (exfalso; simp only [pySlice_to_neg_one_concat] at *; simp_all; done)
    | (-- exactly one operand (the test may be on `len(variables)` or on the unpacked `*rest`)
       have hi : init = [] := by first | (simp_all; done) | (simp only [pySlice_to_neg_one_concat] at *; simp_all; done)
       subst hi
       simp only [List.nil_append, pyIndex_zero_cons, pyIndex_neg_one_concat, pySlice_to_neg_one_concat,
         pyUnpackAtLeast_one_concat, sat_pyIndex_neg_one_single, sat_pySlice_to_neg_one_single,
         sat_pyUnpackAtLeast_one_single, ok_bind', bind_ok_self, BUFFER_eq_model w hw, orV, foldSteps] <;>
         (try cases bufferV w <;> rfl)
       done)
    | (-- at least two operands: the recursive call is on `init`
       have hine : init ≠ [] := by
         first
         | (intro h0; simp_all; done)
         | (simp only [pySlice_to_neg_one_concat] at *; intro h0; simp_all; done)
       simp only [pySlice_to_neg_one_concat, pyIndex_neg_one_concat, pyUnpackAtLeast_one_concat, ok_bind', hrec,
         orV_concat init w hine]
       refine bind_congr' _ _ _ (fun x _ => ?_)
       simp only [ok_bind', BUFFER_eq_model w hw, orStep, bind_ok_self] <;>
       try first
       | rfl
       | (cases bufferV w <;> rfl)
       | (cases bufferV w <;> simp [ok_bind', error_bind', bind_ok_self])
       done)

theorem XOR_eq_model_aux : ∀ (n : Nat) (vs : List SVal), vs.length = n → (∀ v ∈ vs, BoolOperand v) → XOR vs = xorV vs := by
  intro n
  induction n with
  | zero =>
    intro vs hl _
    obtain rfl := List.length_eq_zero_iff.mp hl
    rw [XOR]
    first
    | (simp only [dif_pos, bind_ok_self]; rfl)
    | (simp [bind_ok_self] <;> rfl)
  | succ n ih =>
    intro vs hl h
    rw [XOR]
    have hne : vs ≠ [] := by intro h0; rw [h0] at hl; simp at hl
    obtain ⟨init, w, rfl⟩ := exists_concat_of_ne_nil vs hne
    have hw : BoolOperand w := h w (by simp)
    have hinit : ∀ v ∈ init, BoolOperand v := fun v hv => h v (by simp [hv])
    have hli : init.length = n := by simpa using hl
    have hrec := ih init hli hinit
    clear ih h hl
    -- whatever tests the source uses to tell 0, 1 and more operands apart: decide each branch from the shape
    -- `init ++ [w]` of the operand list
    simp only []
    split_ifs <;>
    first
    | (exfalso; simp_all; done)
    | (exfalso; simp only [pySlice_to_neg_one_concat] at *; simp_all; done)
    | (-- exactly one operand (the test may be on `len(variables)` or on the unpacked `*rest`)
       have hi : init = [] := by first | (simp_all; done) | (simp only [pySlice_to_neg_one_concat] at *; simp_all; done)
       subst hi
       simp only [List.nil_append, pyIndex_zero_cons, pyIndex_neg_one_concat, pySlice_to_neg_one_concat,
         pyUnpackAtLeast_one_concat, sat_pyIndex_neg_one_single, sat_pySlice_to_neg_one_single,
         sat_pyUnpackAtLeast_one_single, ok_bind', bind_ok_self, BUFFER_eq_model w hw, xorV, foldSteps] <;>
         (try cases bufferV w <;> rfl)
       done)
    | (-- at least two operands: the recursive call is on `init`
       have hine : init ≠ [] := by
         first
         | (intro h0; simp_all; done)
         | (simp only [pySlice_to_neg_one_concat] at *; intro h0; simp_all; done)
       simp only [pySlice_to_neg_one_concat, pyIndex_neg_one_concat, pyUnpackAtLeast_one_concat, ok_bind', hrec,
         xorV_concat init w hine]
       refine bind_congr' _ _ _ (fun x _ => ?_)
       simp only [ok_bind', BUFFER_eq_model w hw, xorStep, bind_ok_self] <;>
       try first
       | rfl
       | (cases bufferV w <;> rfl)
       | (cases bufferV w <;> simp [ok_bind', error_bind', bind_ok_self])
       done)

/-- `OR(*variables)` (generated: recursion on `variables[:-1]`) is the model's left fold `orV`, for every
operand list -/
theorem OR_eq_model (vs : List SVal) (h : ∀ v ∈ vs, BoolOperand v) : OR vs = orV vs :=
  OR_eq_model_aux _ vs rfl h

/-- `XOR(*variables)` (generated) is the model's left fold `xorV` -/
theorem XOR_eq_model (vs : List SVal) (h : ∀ v ∈ vs, BoolOperand v) : XOR vs = xorV vs :=
  XOR_eq_model_aux _ vs rfl h

/-! ## `NAND`, `NOR`, `XNOR`: `NOT` of the gate, whose result is again an operand in scope -/

theorem not_after {G : List SVal → Except Err Val} {gV : List SVal → Except Err Val} (vs : List SVal)
    (h : ∀ v ∈ vs, BoolOperand v) (hG : G vs = gV vs)
    (hk : ∀ r, gV vs = .ok r → r.kind? = some (gateKind vs)) :
    (G vs >>= fun m => NOT (SVal.val m)) = (gV vs >>= fun m => notV (.val m)) := by
  rw [hG]
  refine bind_congr' _ _ _ (fun m hm => ?_)
  exact NOT_eq_model _ (boolOperand_of_kind h (hk m hm))

theorem NAND_eq_model (vs : List SVal) (h : ∀ v ∈ vs, BoolOperand v) : NAND vs = applyGate .nand vs := by
  unfold NAND
  simp only [bind_ok_self]
  exact not_after vs h (AND_eq_model vs h) (fun _ hr => andV_kind hr)

theorem NOR_eq_model (vs : List SVal) (h : ∀ v ∈ vs, BoolOperand v) : NOR vs = applyGate .nor vs := by
  unfold NOR
  simp only [bind_ok_self]
  exact not_after vs h (OR_eq_model vs h) (fun _ hr => orV_kind hr)

theorem XNOR_eq_model (vs : List SVal) (h : ∀ v ∈ vs, BoolOperand v) : XNOR vs = applyGate .xnor vs := by
  unfold XNOR
  simp only [bind_ok_self]
  exact not_after vs h (XOR_eq_model vs h) (fun _ hr => xorV_kind hr)

/-- all eight together: the generated function of gate `g` is `applyGate g` (which adds Python's own arity
check for the two one-argument functions) -/
theorem gates_eq_applyGate (vs : List SVal) (h : ∀ v ∈ vs, BoolOperand v) :
    AND vs = applyGate .and vs ∧ NAND vs = applyGate .nand vs ∧ OR vs = applyGate .or vs ∧
    NOR vs = applyGate .nor vs ∧ XOR vs = applyGate .xor vs ∧ XNOR vs = applyGate .xnor vs ∧
    (∀ v, vs = [v] → BUFFER v = applyGate .buffer vs ∧ NOT v = applyGate .not vs) := by
  refine ⟨AND_eq_model vs h, NAND_eq_model vs h, OR_eq_model vs h, NOR_eq_model vs h, XOR_eq_model vs h,
    XNOR_eq_model vs h, ?_⟩
  rintro v rfl
  exact ⟨BUFFER_eq_model v (h v (by simp)), NOT_eq_model v (h v (by simp))⟩

/-! ### Non-vacuity -/

example : ∀ v ∈ [SVal.lbl 3, .val (.raw [([0, 1], 1)]), .val (.mdl .qubo [([2], 1)])], BoolOperand v := by
  intro v hv
  simp only [List.mem_cons, List.mem_nil_iff, or_false] at hv
  rcases hv with rfl | rfl | rfl <;> simp [BoolOperand, pyBooleanKind]

/-- the theorems at a concrete operand list (the generated `OR`/`XOR` are well-founded recursions, which
`decide` does not unfold; their values are read off the model side) -/
example : OR [SVal.lbl 0, .lbl 1, .val (.mdl .pcbo [([2], 1)])] = orV [SVal.lbl 0, .lbl 1, .val (.mdl .pcbo [([2], 1)])] :=
  OR_eq_model _ (by intro v hv; simp only [List.mem_cons, List.mem_nil_iff, or_false] at hv
                    rcases hv with rfl | rfl | rfl <;> simp [BoolOperand, pyBooleanKind])
example : (orV [SVal.lbl 0, .lbl 1]).toOption.map (fun v => (v.eval (fun i => if i = 0 then 1 else 0), v.eval (fun _ => 0)))
    = some (1, 0) := by decide +kernel
example : (NAND [SVal.lbl 0, .lbl 1]).toOption.map (fun v => (v.eval (fun _ => 1), v.eval (fun _ => 0))) = some (0, 1) := by
  decide +kernel
example : (AND [SVal.val (.mdl .qubo [([1], 1)]), .lbl 0, .lbl 2]).toOption.isNone = true := by decide +kernel

end Qv.Gen
