import Qv.Proofs.GenEq.ReduceStep
import Qv.Proofs.ReduceImpl
/-!
# GenEq.ReduceTerm — part (e) of `PUBO._reduce_degree`: the body of `for key, v in mapped_self.items():` — the loop
`while len(key) > deg:` and `D[key] += v` — generated from the source, equals the model's `Reduce.reduceTerm` (C01).
The registry's iteration bound `len(key)` for the `while` is proved on the way (every pass shortens the key).
-/
set_option linter.unusedTactic false
set_option linter.unusedSimpArgs false
namespace Qv.Gen
open Qv Qv.Reduce

theorem remove2_length_le (l : Key) (x y : Var) : (remove2 l x y).length ≤ l.length := by
  unfold remove2; exact List.length_filter_le _ _

theorem remove2_length_mem {l : Key} {a b : Var} (h : b ∈ l) : (remove2 l a b).length + 1 ≤ l.length := by
  induction l with
  | nil => cases h
  | cons c r ih =>
    by_cases hc : c = b
    · subst hc
      have := remove2_length_le r a c
      simp [remove2] at this ⊢
      omega
    · have hb : b ∈ r := by
        rcases List.mem_cons.mp h with h | h
        · exact absurd h.symm hc
        · exact h
      have := ih hb
      have h2 : (remove2 (c :: r) a b).length ≤ (remove2 r a b).length + 1 := by
        simp only [remove2, List.filter_cons]
        split <;> simp
      simp only [List.length_cons]
      omega

theorem remove2_length_pair : ∀ {l : Key} {x y : Var}, (x, y) ∈ pairsOf l → (remove2 l x y).length + 2 ≤ l.length := by
  intro l
  induction l with
  | nil => intro x y h; simp [pairsOf] at h
  | cons a r ih =>
    intro x y h
    unfold pairsOf at h
    rcases List.mem_append.mp h with h | h
    · obtain ⟨b, hb, e⟩ := List.mem_map.mp h
      injection e with e1 e2
      subst e1 e2
      have := remove2_length_mem (a := a) hb
      have h2 : remove2 (a :: r) a b = remove2 r a b := by simp [remove2]
      rw [h2]; simp only [List.length_cons]; omega
    · have := ih h
      have h2 : (remove2 (a :: r) x y).length ≤ (remove2 r x y).length + 1 := by
        simp only [remove2, List.filter_cons]
        split <;> simp
      simp only [List.length_cons]
      omega

theorem rekeyGo_length_le (x y z : Var) : ∀ (l : Key) (ins : Bool),
    (rekeyGo x y z l ins).length ≤ (remove2 l x y).length + (if ins then 0 else 1) := by
  intro l
  induction l with
  | nil => intro ins; cases ins <;> simp [rekeyGo, remove2]
  | cons i r ih =>
    intro ins
    unfold rekeyGo
    by_cases hxy : i = x ∨ i = y
    · rw [if_pos hxy]
      have : remove2 (i :: r) x y = remove2 r x y := by
        rcases hxy with h | h <;> simp [remove2, h]
      rw [this]; exact ih ins
    · rw [if_neg hxy]
      have hr : (remove2 (i :: r) x y).length = (remove2 r x y).length + 1 := by
        have h1 : ¬ i = x := fun h => hxy (Or.inl h)
        have h2 : ¬ i = y := fun h => hxy (Or.inr h)
        simp [remove2, h1, h2]
      rw [hr]
      split
      · have := ih true; simp only [List.length_cons] at this ⊢; simp at this; cases ins <;> simp_all <;> omega
      · have := ih ins; simp only [List.length_cons]; omega

/-- every pass of the `while` loop shortens the key -/
theorem rekey_length_lt {key : Key} {x y : Var} (z : Var) (h : (x, y) ∈ pairsOf key) :
    (rekey key x y z).length + 1 ≤ key.length := by
  have h1 := rekeyGo_length_le x y z key false
  have h2 := remove2_length_pair h
  unfold rekey
  simp at h1
  omega

theorem stepM_shortens {pairs : List Key} {lamv : Rat} {key : Key} {st : ISt} {r : Key × ISt × Step}
    (h : stepM pairs lamv key st = some r) : r.1.length + 1 ≤ key.length := by
  unfold stepM at h
  cases hs : scan st.reds pairs st.freq (pairsOf key) none with
  | none => rw [hs] at h; cases h
  | some c =>
    rw [hs] at h
    cases c with
    | used p z =>
      obtain ⟨x, y⟩ := p
      simp only [Option.some.injEq] at h; subst h
      exact rekey_length_lt z (scan_used hs).1
    | pick p =>
      obtain ⟨x, y⟩ := p
      simp only [Option.some.injEq] at h; subst h
      rcases scan_pick hs with h' | ⟨c, h'⟩
      · exact rekey_length_lt _ h'
      · cases h'

theorem stepM_some {pairs : List Key} {lamv : Rat} {key : Key} {st : ISt} (h : 2 ≤ key.length) :
    ∃ r, stepM pairs lamv key st = some r := by
  unfold stepM
  cases hs : scan st.reds pairs st.freq (pairsOf key) none with
  | none => exact absurd (scan_none hs) (pairsOf_ne_nil h)
  | some c =>
    cases c with
    | used p z => obtain ⟨x, y⟩ := p; exact ⟨_, rfl⟩
    | pick p => obtain ⟨x, y⟩ := p; exact ⟨_, rfl⟩

/-- the locals carried by the `while` loop, in the translator's (alphabetical) order:
`(D, ancilla, key, pair_frequencies, reductions, x, y)` -/
abbrev WSt := Poly × Var × Key × List (Key × Nat) × List (Key × Var) × Var × Var

/-- the generated `while` loop (any condition / body that read as the source's) against the model's `reduceLoop` -/
theorem while_eq_loop (deg : Nat) (hdeg : 1 ≤ deg) (pairs : List Key) (lam : Rat → Rat) (v : Rat)
    (cond : WSt → Bool) (body : WSt → Except Err WSt)
    (hcond : ∀ D nx key fq rd x y, cond (D, nx, key, fq, rd, x, y) = decide (key.length > deg))
    (hbody : ∀ D nx key fq rd x y, body (D, nx, key, fq, rd, x, y) =
      (rd_step key v D rd pairs fq nx lam x y >>= fun r =>
        .ok (r.2.1, r.2.2.2.1, r.1, r.2.2.2.2.1, r.2.2.1, r.2.2.2.2.2.1, r.2.2.2.2.2.2))) :
    ∀ (fuel : Nat) (key : Key) (st : ISt) (x0 y0 : Var), key.length ≤ fuel →
      ∃ x' y', pyWhileM fuel cond body (st.D, st.next, key, freqK st.freq, redsK st.reds, x0, y0) =
        .ok ((reduceLoop deg pairs (lam v) fuel key st).1.D, (reduceLoop deg pairs (lam v) fuel key st).1.next,
             (reduceLoop deg pairs (lam v) fuel key st).2, freqK (reduceLoop deg pairs (lam v) fuel key st).1.freq,
             redsK (reduceLoop deg pairs (lam v) fuel key st).1.reds, x', y') := by
  intro fuel
  induction fuel with
  | zero =>
    intro key st x0 y0 hk
    have : key = [] := List.eq_nil_of_length_eq_zero (by omega)
    subst this
    refine ⟨x0, y0, ?_⟩
    simp [pyWhileM, hcond, reduceLoop]
  | succ n ih =>
    intro key st x0 y0 hk
    unfold pyWhileM reduceLoop
    rw [hcond]
    by_cases hl : key.length ≤ deg
    · have : ¬ key.length > deg := by omega
      simp only [this, decide_false, Bool.false_eq_true, if_false, if_pos hl]
      exact ⟨x0, y0, rfl⟩
    · have hgt : key.length > deg := by omega
      simp only [hgt, decide_true, if_true, if_neg hl]
      obtain ⟨r, hr⟩ := stepM_some (pairs := pairs) (lamv := lam v) (st := st) (key := key) (by omega)
      rw [hr, hbody, rd_step_eq_model pairs lam v key st x0 y0 r hr]
      simp only [bind, Except.bind]
      have hsh := stepM_shortens hr
      exact ih r.1 r.2.1 r.2.2.x r.2.2.y (by omega)

theorem term_main (deg : Nat) (hdeg : 1 ≤ deg) (pairs : List Key) (lam : Rat → Rat) (v : Rat)
    (cond : WSt → Bool) (body : WSt → Except Err WSt)
    (hcond : ∀ D nx key fq rd x y, cond (D, nx, key, fq, rd, x, y) = decide (key.length > deg))
    (hbody : ∀ D nx key fq rd x y, body (D, nx, key, fq, rd, x, y) =
      (rd_step key v D rd pairs fq nx lam x y >>= fun r =>
        .ok (r.2.1, r.2.2.2.1, r.1, r.2.2.2.2.1, r.2.2.1, r.2.2.2.2.2.1, r.2.2.2.2.2.2)))
    (key : Key) (st : ISt) (x0 y0 : Var) :
    ∃ x' y', (pyWhileM key.length cond body (st.D, st.next, key, freqK st.freq, redsK st.reds, x0, y0) >>=
        fun (acc : WSt) => (Except.ok (pyMatrixIadd acc.1 acc.2.2.1 v, acc.2.2.2.2.1, acc.2.1,
          acc.2.2.2.1, acc.2.2.2.2.2.1, acc.2.2.2.2.2.2) : Except Err (Poly × List (Key × Var) × Var × List (Key × Nat) × Var × Var))) =
      .ok ((reduceTerm deg pairs (lam v) v key.length key st []).1.D,
           redsK (reduceTerm deg pairs (lam v) v key.length key st []).1.reds,
           (reduceTerm deg pairs (lam v) v key.length key st []).1.next,
           freqK (reduceTerm deg pairs (lam v) v key.length key st []).1.freq, x', y') := by
  obtain ⟨h1, _⟩ := reduceTerm_loop deg pairs (lam v) v key.length key st []
  rw [h1]
  obtain ⟨x', y', hw⟩ := while_eq_loop deg hdeg pairs lam v cond body hcond hbody key.length key st x0 y0 (Nat.le_refl _)
  refine ⟨x', y', ?_⟩
  rw [hw]
  simp only [bind, Except.bind, pyMatrixIadd]

/-- **(e)** one term of `mapped_self`, for a target degree `deg ≥ 1`: the generated `while len(key) > deg:` loop
followed by `D[key] += v` leaves `D`, `reductions`, `ancilla`, `pair_frequencies` as the model's `reduceTerm` does
(`x'`, `y'`: whatever the last pass left in `x`, `y`) -/
theorem rd_term_eq_model (deg : Nat) (hdeg : 1 ≤ deg) (pairs : List Key) (lam : Rat → Rat) (v : Rat) (key : Key)
    (st : ISt) (x0 y0 : Var) :
    ∃ x' y', rd_term key v deg st.D (redsK st.reds) pairs (freqK st.freq) st.next lam x0 y0 =
      .ok ((reduceTerm deg pairs (lam v) v key.length key st []).1.D,
           redsK (reduceTerm deg pairs (lam v) v key.length key st []).1.reds,
           (reduceTerm deg pairs (lam v) v key.length key st []).1.next,
           freqK (reduceTerm deg pairs (lam v) v key.length key st []).1.freq, x', y') := by
  unfold rd_term
  refine term_main deg hdeg pairs lam v _ _ ?_ ?_ key st x0 y0
  · intro D nx key fq rd x y
    first | rfl | (simp only []; first | rfl | (rw [decide_eq_decide]; omega)) | simp
  · intro D nx key fq rd x y; first | rfl | simp [bind, Except.bind]

end Qv.Gen
