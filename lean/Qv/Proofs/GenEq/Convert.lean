import Qv.Gen.Source
import Qv.Model.Convert
import Mathlib.Tactic.Ring
import Qv.Gen.Interp
/-!
# GenEq.Convert — generated `is_solution_spin` and the per-term updates of `qubo_to_quso` /
`quso_to_qubo` equal the model's `isSolutionSpin`, `quboToQusoTerm`, `qusoToQuboTerm` (C04)
-/
set_option linter.unusedTactic false
set_option linter.unreachableTactic false
namespace Qv.Gen

/-! ## `is_solution_spin` -/

/-- a loop that returns `False` at the first `0`, `True` at the first `-1`, else goes on, followed by
`return default`, is the model's recursion -/
theorem spin_loop (f : Unit → Rat → Flow Bool Unit)
    (hf : ∀ u v, f u v = if v = 0 then .ret false else if v = -1 then .ret true else .next ()) :
    ∀ (sol : List Rat) (dflt : Bool),
      Flow.elim (pyFor sol () f) (fun r => r) (fun _ => dflt) = isSolutionSpin sol dflt := by
  intro sol dflt
  induction sol with
  | nil => rfl
  | cons v r ih =>
    simp only [pyFor, hf, isSolutionSpin]
    split_ifs <;> first | rfl | exact ih

/-- `is_solution_spin(solution, default)` (generated; `solution` is the list of the container's values,
whichever of dict / sequence it is) is the model's `isSolutionSpin` -/
theorem is_solution_spin_eq_model (sol : List Rat) (isDict dflt : Bool) :
    is_solution_spin sol isDict dflt = isSolutionSpin sol dflt := by
  unfold is_solution_spin
  simp only [ite_self]
  refine spin_loop _ ?step sol dflt
  intro u v
  first
  | rfl
  | ((try simp only []) <;> split_ifs <;> first | rfl | (exfalso; simp_all; done) | (simp_all; done))

example : is_solution_spin [1, 1, -1, 0] false false = true := by decide +kernel
example : isSolutionSpin [1, 1, -1, 0] false = true := by decide +kernel
example : is_solution_spin [1, 0, -1] true true = false := by decide +kernel
example : is_solution_spin [1, 1] true true = true := by decide +kernel

/-! ## per-term updates of the closed-form conversions -/

theorem ok_bind {α β : Type} (a : α) (f : α → Except Err β) : (Except.ok a >>= f) = f a := rfl
theorem error_bind {α β : Type} (e : Err) (f : α → Except Err β) : (Except.error e >>= f) = .error e := rfl

/-- loop body of `qubo_to_quso` after `k = squash_key(kp)`: the model's `quboToQusoTerm` performs exactly
the updates the generated body lists, in the same order (`ValueError` for `i, j = k` on a longer key) -/
theorem qubo_to_quso_term_eq_model (sq : Sq) (L : Poly) (k : Key) (v : Rat) :
    quboToQusoTerm sq L k v = (qubo_to_quso_term k v >>= applyUpdates sq L) := by
  unfold qubo_to_quso_term
  rcases k with _ | ⟨i, _ | ⟨j, _ | ⟨l, r⟩⟩⟩ <;>
    first
    | (simp [quboToQusoTerm, applyUpdates, ok_bind, error_bind]; done)
    | (simp [quboToQusoTerm, applyUpdates, ok_bind, error_bind] <;> ring_nf)

/-- same for `quso_to_qubo` / `qusoToQuboTerm` -/
theorem quso_to_qubo_term_eq_model (sq : Sq) (Q : Poly) (k : Key) (v : Rat) :
    qusoToQuboTerm sq Q k v = (quso_to_qubo_term k v >>= applyUpdates sq Q) := by
  unfold quso_to_qubo_term
  rcases k with _ | ⟨i, _ | ⟨j, _ | ⟨l, r⟩⟩⟩ <;>
    first
    | (simp [qusoToQuboTerm, applyUpdates, ok_bind, error_bind]; done)
    | (simp [qusoToQuboTerm, applyUpdates, ok_bind, error_bind] <;> ring_nf)

example : qubo_to_quso_term [3, 5] 2 = .ok [([3, 5], 1/2), ([3], -1/2), ([5], -1/2), ([], 1/2)] := by decide +kernel
example : qubo_to_quso_term [3] 2 = .ok [([3], -1), ([], 1)] := by decide +kernel
example : quso_to_qubo_term [3, 5] 2 = .ok [([3, 5], 8), ([3], -4), ([5], -4), ([], 2)] := by decide +kernel
example : qubo_to_quso_term [1, 2, 3] 2 = .error .value := by decide +kernel

end Qv.Gen
