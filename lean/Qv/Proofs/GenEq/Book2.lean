import Qv.Gen.SourceBook2
import Qv.Model.Book2
import Qv.Proofs.GenEq.Book
import Qv.Proofs.Book2
/-!
# GenEq.Book2 — constructors, clear, refresh, copy, mappings generated from the source equal the model (C14, C19, C08; tag `bk2`)

`Qv/Gen/SourceBook2.lean` is regenerated from `/repo` on every run (`harness/tie_ext/book2.py`).  Every theorem
`Qv.Gen.<name>_eq_model` proves one generated definition equal to a function of `Qv/Model/Book2.lean` (the bookkeeping
model at the granularity of the Python constructors); the `…_history` / `…_copy` / `…_cast` theorems compose this with the
bridges of `Qv/Proofs/Book2.lean` and reach the functions `Book.clear / copy / refresh / cast / remap / ancStart` that the
theorems of `Qv/Props/C14.lean` are about.
-/
set_option linter.unusedTactic false
set_option linter.unreachableTactic false
set_option linter.unusedSimpArgs false
set_option linter.unusedVariables false
namespace Qv.Gen
open Qv Qv.Book

/-! ## the loop of `DictArithmetic.__init__` -/

theorem pyForM_eq_loop_bk2 {α : Type} (P : State → Prop) (body f : State → α → Except Err State)
    (hP : ∀ s a s', P s → f s a = .ok s' → P s') (h : ∀ s a, P s → body s a = f s a) :
    ∀ (l : List α) (s : State), P s → pyForM l s body = Book2.toExcept (loop f s l) := by
  intro l
  induction l with
  | nil => intro s _; rfl
  | cons a r ih =>
    intro s hs
    unfold pyForM loop
    rw [h s a hs]
    cases hf : f s a with
    | ok s' => simp only [bind_ok']; exact ih s' (hP s a s' hs hf)
    | error e => rfl

theorem foldl_revFresh_bk2 (k : Key) : ∀ s : State, RevFresh s → RevFresh (regLabels Fix.fixed s k) := by
  unfold regLabels
  induction k with
  | nil => intro s h; exact h
  | cons i r ih =>
    intro s h
    rw [List.foldl_cons]
    exact ih _ (regStep_revFresh s i h)

theorem setitem_revFresh_bk2 {s s' : State} {k : Key} {v : Rat} (h : setitem Fix.fixed s k v = .ok s')
    (hr : RevFresh s) : RevFresh s' := by
  obtain ⟨m, hm, rfl⟩ := setitem_ok h
  have hmr := matSet_rev hm
  have hrm : RevFresh m := by
    intro p hp
    rw [hmr.2]; exact hr p (hmr.1 ▸ hp)
  split
  · exact foldl_revFresh_bk2 k m hrm
  · exact hrm

theorem augitem_revFresh_bk2 {s s' : State} {k : Key} {a : Aug} {d : Rat} (h : augitem Fix.fixed s k a d = .ok s')
    (hr : RevFresh s) : RevFresh s' := by
  simp only [augitem, bind_ok_iff] at h
  obtain ⟨_, _, _, _, h⟩ := h
  exact setitem_revFresh_bk2 h hr

/-- the state the items are inserted into is of a model class and its reverse mapping has no key at or above `_next_label` -/
def LoopOK_bk2 (s : State) : Prop := s.kind ≠ .dict ∧ RevFresh s

theorem augitem_loopOK_bk2 {s s' : State} {k : Key} {a : Aug} {d : Rat} (h : augitem Fix.fixed s k a d = .ok s')
    (hs : LoopOK_bk2 s) : LoopOK_bk2 s' := by
  refine ⟨?_, augitem_revFresh_bk2 h hs.2⟩
  simp only [augitem, bind_ok_iff] at h
  obtain ⟨_, _, _, _, h⟩ := h
  rw [setitem_kind' h]; exact hs.1

/-- the body of the loop of `DictArithmetic.__init__` — `self[key] += value` — is the model's `augitem … .add` -/
theorem init_body_bk2 (s : State) (hs : LoopOK_bk2 s) (kv : Key × Rat) :
    ((cls_getitem s.kind s kv.1) >>= fun (m1 : Rat) =>
      ((cls_setitem s.kind s kv.1 (m1 + kv.2)) >>= fun (self : Obj) => (Except.ok self))) =
    augitem Fix.fixed s kv.1 .add kv.2 := by
  rw [cls_getitem_eq_model s hs.1]
  unfold getItem augitem
  cases hsq : squash s.kind kv.1 with
  | error e => rfl
  | ok k' =>
    simp only [bind, Except.bind, pure, Except.pure, augVal]
    rw [cls_setitem_eq_model s hs.1 hs.2]
    cases setitem Fix.fixed s kv.1 (get s.terms k' + kv.2) <;> rfl

/-- **`DictArithmetic.__init__`**: the items of the argument are added in order by `self[key] += value` -/
theorem DictArithmetic_init_bk2_eq_model (s : Obj) (hs : LoopOK_bk2 s) (args : Option Obj) :
    DictArithmetic_init_bk2 s args = Book2.toExcept (iaddLoop Fix.fixed s (Book2.argTerms args)) := by
  unfold DictArithmetic_init_bk2 iaddLoop
  have e : pyBk2Pairs args = Book2.argTerms args := by cases args <;> rfl
  rw [e, pyForM_eq_loop_bk2 LoopOK_bk2 _ (fun s kv => augitem Fix.fixed s kv.1 .add kv.2)
    (fun s a s' h1 h2 => augitem_loopOK_bk2 h2 h1) (fun s a h1 => init_body_bk2 s h1 a) _ s hs]
  cases loop (fun s kv => augitem Fix.fixed s kv.1 .add kv.2) s (Book2.argTerms args) with
  | mk t e => cases e <;> rfl

/-- the assignments of `PUBOMatrix.__init__` -/
def matReset_bk2 (s : State) : State := { s with degree := none, «variables» := [], numVars := 0 }

/-- **`PUBOMatrix.__init__`**: `_degree`, `_variables`, `_num_binary_variables` are reset, then `DictArithmetic.__init__` -/
theorem PUBOMatrix_init_bk2_eq_model (s : Obj) (hs : LoopOK_bk2 s) (args : Option Obj) :
    PUBOMatrix_init_bk2 s args = Book2.toExcept (iaddLoop Fix.fixed (matReset_bk2 s) (Book2.argTerms args)) := by
  unfold PUBOMatrix_init_bk2
  simp only [pyNegInf]
  rw [DictArithmetic_init_bk2_eq_model _ (by exact ⟨hs.1, hs.2⟩)]
  unfold matReset_bk2
  cases iaddLoop Fix.fixed { s with degree := none, «variables» := [], numVars := 0 } (Book2.argTerms args) with
  | mk t e => cases e <;> rfl

/-- **`BO.__init__`** assigns `_mapping, _reverse_mapping, _next_label = {}, {}, 0` and nothing else (it does not call on) -/
theorem BO_init_bk2_eq_model (s : Obj) (args : Option Obj) :
    BO_init_bk2 s args = { s with mapping := [], reverse := [], nextLabel := 0 } := rfl

theorem resetCaches_bo_bk2 (s : State) (hb : hasBO s.kind = true) :
    Book2.resetCaches s = matReset_bk2 { s with mapping := [], reverse := [], nextLabel := 0 } := by
  unfold Book2.resetCaches matReset_bk2
  simp [hb]

theorem resetCaches_mat_bk2 (s : State) (hb : hasBO s.kind = false) : Book2.resetCaches s = matReset_bk2 s := by
  unfold Book2.resetCaches matReset_bk2
  simp [hb]

theorem loopOK_bo_bk2 (s : State) (hκ : s.kind ≠ .dict) :
    LoopOK_bk2 { s with mapping := [], reverse := [], nextLabel := 0 } := ⟨hκ, fun p hp => absurd hp (by simp)⟩

/-- `BO.__init__` then the matrix class's `__init__` (what `PUBO/QUBO/PUSO/QUSO.__init__` do) -/
theorem bo_then_mat_bk2 (s : Obj) (hb : hasBO s.kind = true) (args : Option Obj) :
    PUBOMatrix_init_bk2 (BO_init_bk2 s args) args =
      Book2.toExcept (iaddLoop Fix.fixed (Book2.resetCaches s) (Book2.argTerms args)) := by
  have hκ : s.kind ≠ .dict := by intro h; rw [h] at hb; exact absurd hb (by decide)
  rw [BO_init_bk2_eq_model, PUBOMatrix_init_bk2_eq_model _ (loopOK_bo_bk2 s hκ), resetCaches_bo_bk2 s hb]

theorem bind_toExcept_ok_bk2 (r : State × Option Err) :
    (Book2.toExcept r >>= fun (self : Obj) => (Except.ok self : Except Err Obj)) = Book2.toExcept r := by
  obtain ⟨t, e⟩ := r
  cases e <;> rfl

/-- **`PUBO.__init__`**: `BO.__init__(self, …)` then `PUBOMatrix.__init__(self, …)` -/
theorem PUBO_init_bk2_eq_model (s : Obj) (hb : hasBO s.kind = true) (args : Option Obj) :
    PUBO_init_bk2 s args = Book2.toExcept (iaddLoop Fix.fixed (Book2.resetCaches s) (Book2.argTerms args)) := by
  unfold PUBO_init_bk2
  simp only [bo_then_mat_bk2 s hb, bind_toExcept_ok_bk2]

/-- **`QUBO.__init__`**: `BO.__init__` then `QUBOMatrix.__init__` (which is `PUBOMatrix.__init__`: `QUBOMatrix` defines none) -/
theorem QUBO_init_bk2_eq_model (s : Obj) (hb : hasBO s.kind = true) (args : Option Obj) :
    QUBO_init_bk2 s args = Book2.toExcept (iaddLoop Fix.fixed (Book2.resetCaches s) (Book2.argTerms args)) := by
  unfold QUBO_init_bk2
  simp only [bo_then_mat_bk2 s hb, bind_toExcept_ok_bk2]

/-- **`PUSO.__init__`** -/
theorem PUSO_init_bk2_eq_model (s : Obj) (hb : hasBO s.kind = true) (args : Option Obj) :
    PUSO_init_bk2 s args = Book2.toExcept (iaddLoop Fix.fixed (Book2.resetCaches s) (Book2.argTerms args)) := by
  unfold PUSO_init_bk2
  simp only [bo_then_mat_bk2 s hb, bind_toExcept_ok_bk2]

/-- **`QUSO.__init__`** -/
theorem QUSO_init_bk2_eq_model (s : Obj) (hb : hasBO s.kind = true) (args : Option Obj) :
    QUSO_init_bk2 s args = Book2.toExcept (iaddLoop Fix.fixed (Book2.resetCaches s) (Book2.argTerms args)) := by
  unfold QUSO_init_bk2
  simp only [bo_then_mat_bk2 s hb, bind_toExcept_ok_bk2]

/-- **`super(self.__class__, self).__init__`** on an object of a constrained class is the `__init__` of `PUBO` (for a PCBO) /
of `PUSO` (for a PCSO) — the table is computed from the class headers -/
theorem cls_super_init_bk2_eq_model (s : Obj) (hc : hasCons s.kind = true) (args : Option Obj) :
    cls_super_init_bk2 s.kind s args = Book2.toExcept (iaddLoop Fix.fixed (Book2.resetCaches s) (Book2.argTerms args)) := by
  have hk : s.kind = .pcbo ∨ s.kind = .pcso := by
    revert hc; cases s.kind <;> simp [hasCons]
  rcases hk with h | h
  · have hb : hasBO s.kind = true := by rw [h]; decide
    rw [h]; show PUBO_init_bk2 s args = _
    rw [PUBO_init_bk2_eq_model s hb]
  · have hb : hasBO s.kind = true := by rw [h]; decide
    rw [h]; show PUSO_init_bk2 s args = _
    rw [PUSO_init_bk2_eq_model s hb]

/-- **`isinstance(x, self.__class__)`** for `self` of a constrained class: exactly the objects of that same class (neither
`PCBO` nor `PCSO` has a subclass among the model classes, and `PCSO` is not a subclass of `PCBO`) -/
theorem cls_isinstance_bk2_eq_model (κx κc : Kind) (hc : hasCons κc = true) :
    cls_isinstance_bk2 κx κc = decide (κx = κc) := by
  cases κc <;> simp [hasCons] at hc <;> cases κx <;> decide

/-- **`PCBO.constraints`** (getter): the recorded constraints (each copied) -/
theorem PCBO_constraints_bk2_eq_model (s : Obj) : PCBO_constraints_bk2 s = s.constraints := by
  unfold PCBO_constraints_bk2 pyBk2ConsMap pyBk2PolyCopy
  simp

theorem PCSO_constraints_bk2_eq_model (s : Obj) : PCSO_constraints_bk2 s = s.constraints := by
  unfold PCSO_constraints_bk2 pyBk2ConsMap pyBk2PolyCopy
  simp

theorem PCSO_num_ancillas_bk2_eq_model (s : Obj) : PCSO_num_ancillas_bk2 s = s.ancilla := rfl

/-- the property `constraints` exists exactly on the constrained classes -/
theorem cls_constraints_bk2_eq_model (s : Obj) :
    cls_constraints_bk2 s.kind s = if hasCons s.kind then .ok s.constraints else .error .attr := by
  cases h : s.kind <;> simp [cls_constraints_bk2, hasCons, PCBO_constraints_bk2_eq_model, PCSO_constraints_bk2_eq_model]

theorem cls_num_ancillas_bk2_eq_model (s : Obj) :
    cls_num_ancillas_bk2 s.kind s = if hasCons s.kind then .ok s.ancilla else .error .attr := by
  cases h : s.kind <;> simp [cls_num_ancillas_bk2, hasCons, PCSO_num_ancillas_bk2_eq_model, PCBO_num_ancillas]

theorem loop_kind_bk2 {α : Type} {f : State → α → Except Err State} (hf : ∀ s a s', f s a = .ok s' → s'.kind = s.kind)
    (l : List α) (s : State) : (loop f s l).1.kind = s.kind := by
  induction l generalizing s with
  | nil => rfl
  | cons a r ih =>
    unfold loop
    cases hfa : f s a with
    | ok s' => simp only; rw [ih s', hf s a s' hfa]
    | error e => rfl

theorem iaddLoop_kind_bk2 (s : State) (q : Poly) : (iaddLoop Fix.fixed s q).1.kind = s.kind :=
  loop_kind_bk2 (fun s a s' h => by
    simp only [augitem, bind_ok_iff] at h
    obtain ⟨_, _, _, _, h⟩ := h
    exact setitem_kind' h) q s

theorem resetCaches_kind_bk2 (s : State) : (Book2.resetCaches s).kind = s.kind := by
  unfold Book2.resetCaches
  split <;> rfl

/-- **`PCBO.__init__`** (run on a PCBO or, through `PCSO.__init__`, on a PCSO): the parent class's `__init__`, then the recorded
constraints and the ancilla counter are taken over from an argument that is an instance of the object's own class and reset
otherwise — the model's `initWith` -/
theorem PCBO_init_bk2_eq_model (s : Obj) (hc : hasCons s.kind = true) (args : Option Obj) :
    PCBO_init_bk2 s args = Book2.toExcept (Book2.initWith Fix.fixed s args) := by
  unfold PCBO_init_bk2 Book2.initWith
  rw [cls_super_init_bk2_eq_model s hc]
  have hk := iaddLoop_kind_bk2 (Book2.resetCaches s) (Book2.argTerms args)
  rw [resetCaches_kind_bk2] at hk
  cases hl : iaddLoop Fix.fixed (Book2.resetCaches s) (Book2.argTerms args) with
  | mk t e =>
    rw [hl] at hk
    simp only at hk
    cases e with
    | some e => rfl
    | none =>
      have hct : hasCons t.kind = true := by rw [hk]; exact hc
      simp only [Book2.toExcept, bind_ok', Book2.takeCons, hct, if_true]
      cases args with
      | none => simp [pyBk2ArgsLen]
      | some d =>
        simp only [pyBk2ArgsLen, pyBk2Arg0, Option.getD_some, true_and, cls_isinstance_bk2_eq_model _ _ hct,
          decide_eq_true_eq]
        by_cases hd : d.kind = t.kind
        · have hcd : hasCons d.kind = true := by rw [hd]; exact hct
          simp only [hd, if_true, cls_constraints_bk2_eq_model, cls_num_ancillas_bk2_eq_model, hct, bind_ok']
          simp only [← hd, cls_constraints_bk2_eq_model, cls_num_ancillas_bk2_eq_model, hcd, if_true, bind_ok']
        · simp [hd]

/-- **`PCSO.__init__`** is `PCBO.__init__` on the PCSO object -/
theorem PCSO_init_bk2_eq_model (s : Obj) (hc : hasCons s.kind = true) (args : Option Obj) :
    PCSO_init_bk2 s args = Book2.toExcept (Book2.initWith Fix.fixed s args) := by
  unfold PCSO_init_bk2
  rw [PCBO_init_bk2_eq_model s hc, bind_toExcept_ok_bk2]

theorem initWith_nocons_bk2 (s : State) (hc : hasCons s.kind = false) (args : Option State) :
    Book2.toExcept (Book2.initWith Fix.fixed s args) =
      Book2.toExcept (iaddLoop Fix.fixed (Book2.resetCaches s) (Book2.argTerms args)) := by
  unfold Book2.initWith
  have hk := iaddLoop_kind_bk2 (Book2.resetCaches s) (Book2.argTerms args)
  rw [resetCaches_kind_bk2] at hk
  cases hl : iaddLoop Fix.fixed (Book2.resetCaches s) (Book2.argTerms args) with
  | mk t e =>
    rw [hl] at hk
    simp only at hk
    cases e with
    | some e => rfl
    | none => simp [Book2.toExcept, Book2.takeCons, hk, hc]

/-- **`self.__init__(*args)`** on an object of any of the ten model classes (method resolution computed from the source) is the
model's `initWith`: the labelled classes reset the mapping, all reset the caches, the items of the argument are added in order,
the constrained classes take over / reset constraints and ancilla counter.  `RevFresh` is only needed for the matrix classes
(whose `__init__` never touches the — absent — reverse mapping). -/
theorem cls_init_bk2_eq_model (s : Obj) (hκ : s.kind ≠ .dict) (hr : hasBO s.kind = false → RevFresh s) (args : Option Obj) :
    cls_init_bk2 s.kind s args = Book2.toExcept (Book2.initWith Fix.fixed s args) := by
  by_cases hc : hasCons s.kind = true
  · have hk : s.kind = .pcbo ∨ s.kind = .pcso := by
      revert hc; cases s.kind <;> simp [hasCons]
    rcases hk with h | h
    · rw [← PCBO_init_bk2_eq_model s hc, h]; rfl
    · rw [← PCSO_init_bk2_eq_model s hc, h]; rfl
  · have hc' : hasCons s.kind = false := by simpa using hc
    rw [initWith_nocons_bk2 s hc']
    by_cases hb : hasBO s.kind = true
    · have hk : s.kind = .qubo ∨ s.kind = .quso ∨ s.kind = .pubo ∨ s.kind = .puso := by
        revert hb hc'; cases s.kind <;> simp [hasBO, hasCons, Kind.isMatrix]
      rcases hk with h | h | h | h
      · rw [← QUBO_init_bk2_eq_model s hb, h]; rfl
      · rw [← QUSO_init_bk2_eq_model s hb, h]; rfl
      · rw [← PUBO_init_bk2_eq_model s hb, h]; rfl
      · rw [← PUSO_init_bk2_eq_model s hb, h]; rfl
    · have hb' : hasBO s.kind = false := by simpa using hb
      have e : cls_init_bk2 s.kind s args = PUBOMatrix_init_bk2 s args := by
        revert hb' hκ; cases s.kind <;> intro hκ hb' <;> first | rfl | exact absurd rfl hκ | exact absurd hb' (by decide)
      rw [e, PUBOMatrix_init_bk2_eq_model s ⟨hκ, hr hb'⟩, resetCaches_mat_bk2 s hb']


/-! ## constructors on a new object -/

theorem revFresh_nil_bk2 (s : State) (h : s.reverse = []) : RevFresh s := by
  intro p hp; rw [h] at hp; exact absurd hp (by simp)

/-- **`cls()`**: the `__init__` chain of every model class, run on a new object without arguments, gives the model's `init` -/
theorem cls_init_bk2_fresh (κ : Kind) (hκ : κ ≠ .dict) : cls_init_bk2 κ (pyBk2New κ) none = .ok (init κ) := by
  have h := cls_init_bk2_eq_model (pyBk2New κ) hκ (fun _ => revFresh_nil_bk2 _ rfl) none
  have e : Book2.initWith Fix.fixed (pyBk2New κ) none = (init κ, none) := by
    show Book2.initWith Fix.fixed (init κ) none = _
    unfold Book2.initWith
    rw [Book2.resetCaches_init]
    simp only [Book2.argTerms, iaddLoop, loop, Book2.takeCons]
    cases κ <;> rfl
  rw [e] at h
  exact h

/-- **`T(d)`** for a model class `T` and a model `d` of C14's histories: the model's `cast` (for `T = type(d)`: the copy
constructor, which takes over the recorded constraints and the ancilla counter) -/
theorem cls_init_bk2_cast (κ : Kind) (hκ : κ ≠ .dict) (d : Obj) (hd : Book2.Shape d) :
    cls_init_bk2 κ (pyBk2New κ) (some d) = Book2.toExcept (Book.cast Fix.fixed d κ) := by
  have h := cls_init_bk2_eq_model (pyBk2New κ) hκ (fun _ => revFresh_nil_bk2 _ rfl) (some d)
  rw [← Book2.initWith_fresh_eq_cast Fix.fixed κ d hd]
  exact h

/-! ## copy, refresh, clear -/

/-- **`DictArithmetic.copy`**: `self.__class__(self)` -/
theorem DictArithmetic_copy_bk2_eq_model (s : Obj) (hκ : s.kind ≠ .dict) :
    DictArithmetic_copy_bk2 s = Book2.toExcept (Book2.copy Fix.fixed s) := by
  unfold DictArithmetic_copy_bk2 Book2.copy
  have h : cls_init_bk2 s.kind (pyBk2New s.kind) (some s) = Book2.toExcept (Book2.initWith Fix.fixed (init s.kind) (some s)) :=
    cls_init_bk2_eq_model (pyBk2New s.kind) hκ (fun _ => revFresh_nil_bk2 _ rfl) (some s)
  rw [h]
  cases Book2.initWith Fix.fixed (init s.kind) (some s) with
  | mk t e => cases e <;> rfl

theorem shape_revFresh_bk2 (s : State) (hs : Book2.Shape s) : hasBO s.kind = false → RevFresh s :=
  fun hb => revFresh_nil_bk2 s (hs.1 hb).2.1

/-- along C14's histories `copy()` is the model's `copy` (T14.2 `copy_exact` is about it) -/
theorem DictArithmetic_copy_bk2_history (s : Obj) (hκ : s.kind ≠ .dict) (hs : Book2.Shape s) :
    DictArithmetic_copy_bk2 s = Book2.toExcept (Book.copy Fix.fixed s) := by
  rw [DictArithmetic_copy_bk2_eq_model s hκ, Book2.copy_eq_copy Fix.fixed s hs]

/-- **`PUBOMatrix.refresh`**: `d = self.copy(); dict.clear(self); self.__init__(d)` — the copy is made by the class's own
constructor (so a constrained model's copy carries constraints and counter), and `__init__` takes them back from it -/
theorem PUBOMatrix_refresh_bk2_eq_model (s : Obj) (hκ : s.kind ≠ .dict) (hr : hasBO s.kind = false → RevFresh s) :
    PUBOMatrix_refresh_bk2 s = Book2.toExcept (Book2.refresh Fix.fixed s) := by
  unfold PUBOMatrix_refresh_bk2 Book2.refresh
  rw [DictArithmetic_copy_bk2_eq_model s hκ]
  cases Book2.copy Fix.fixed s with
  | mk d e =>
    cases e with
    | some e => rfl
    | none =>
      simp only [Book2.toExcept, bind_ok']
      have h : cls_init_bk2 (pyDictClear s).kind (pyDictClear s) (some d) =
          Book2.toExcept (Book2.initWith Fix.fixed (Book2.dictClear s) (some d)) :=
        cls_init_bk2_eq_model (pyDictClear s) hκ hr (some d)
      rw [h]
      cases Book2.initWith Fix.fixed (Book2.dictClear s) (some d) with
      | mk t e => cases e <;> rfl

/-- along C14's histories `refresh()` is the model's `refresh` (T14.2 `refresh_exact` is about it) -/
theorem PUBOMatrix_refresh_bk2_history (s : Obj) (hκ : s.kind ≠ .dict) (hs : Book2.Shape s) :
    PUBOMatrix_refresh_bk2 s = Book2.toExcept (Book.refresh Fix.fixed s) := by
  rw [PUBOMatrix_refresh_bk2_eq_model s hκ (shape_revFresh_bk2 s hs), Book2.refresh_eq_refresh Fix.fixed s hs]

/-- **`PUBOMatrix.clear`**: `dict.clear(self); self.__init__()` -/
theorem PUBOMatrix_clear_bk2_eq_model (s : Obj) (hκ : s.kind ≠ .dict) (hr : hasBO s.kind = false → RevFresh s) :
    PUBOMatrix_clear_bk2 s = Book2.toExcept (Book2.clear Fix.fixed s) := by
  unfold PUBOMatrix_clear_bk2 Book2.clear
  have h : cls_init_bk2 (pyDictClear s).kind (pyDictClear s) none =
      Book2.toExcept (Book2.initWith Fix.fixed (Book2.dictClear s) none) :=
    cls_init_bk2_eq_model (pyDictClear s) hκ hr none
  simp only [h]
  cases Book2.initWith Fix.fixed (Book2.dictClear s) none with
  | mk t e => cases e <;> rfl

/-- along C14's histories `clear()` is the model's `clear`: everything the class caches is back to that of a new object -/
theorem PUBOMatrix_clear_bk2_history (s : Obj) (hκ : s.kind ≠ .dict) (hs : Book2.Shape s) :
    PUBOMatrix_clear_bk2 s = .ok (Book.clear s) := by
  rw [PUBOMatrix_clear_bk2_eq_model s hκ (shape_revFresh_bk2 s hs), Book2.clear_eq_clear Fix.fixed s hs]
  rfl

/-! ## `set_mapping` / `set_reverse_mapping` -/

theorem set_mapping_fold_bk2 (s : State) : ∀ (l acc : List (Var × Nat)),
    ((acc ++ l).map Prod.fst).Nodup → ((acc ++ l).map Prod.snd).Nodup →
    List.foldl (fun (self : Obj) (it : Var × Nat) =>
        { { self with mapping := pyMapStore self.mapping it.1 it.2 } with
            reverse := pyMapStore { self with mapping := pyMapStore self.mapping it.1 it.2 }.reverse it.2 it.1 })
      { s with mapping := acc, reverse := acc.map (fun p => (p.2, p.1)) } l
    = { s with mapping := acc ++ l, reverse := (acc ++ l).map (fun p => (p.2, p.1)) } := by
  intro l
  induction l with
  | nil => intro acc _ _; simp
  | cons q r ih =>
    intro acc h1 h2
    rw [List.foldl_cons]
    have f1 : ∀ p ∈ acc, (p.1 == q.1) = false := by
      intro p hp
      have : p.1 ≠ q.1 := by
        intro e
        rw [List.map_append, List.map_cons] at h1
        have := (List.nodup_append.mp h1).2.2 p.1 (List.mem_map.mpr ⟨p, hp, rfl⟩) q.1 (by simp)
        exact this e
      simpa using this
    have f2 : ∀ p ∈ acc.map (fun p : Var × Nat => (p.2, p.1)), (p.1 == q.2) = false := by
      intro p hp
      obtain ⟨p0, hp0, rfl⟩ := List.mem_map.mp hp
      have : p0.2 ≠ q.2 := by
        intro e
        rw [List.map_append, List.map_cons] at h2
        have := (List.nodup_append.mp h2).2.2 p0.2 (List.mem_map.mpr ⟨p0, hp0, rfl⟩) q.2 (by simp)
        exact this e
      simpa using this
    simp only [pyMapStore_fresh _ _ _ f1, pyMapStore_fresh _ _ _ f2]
    have e : acc.map (fun p : Var × Nat => (p.2, p.1)) ++ [(q.2, q.1)] = (acc ++ [q]).map (fun p => (p.2, p.1)) := by simp
    rw [e]
    have := ih (acc ++ [q]) (by simpa using h1) (by simpa using h2)
    simpa using this

/-- **`BO.set_mapping`** with a dict whose keys and values are distinct: the dict becomes the mapping, its converse the reverse
mapping, `_next_label` stays; without an argument both become empty -/
theorem BO_set_mapping_bk2_eq_model (s : Obj) (m : List (Var × Nat)) (h1 : (m.map Prod.fst).Nodup)
    (h2 : (m.map Prod.snd).Nodup) :
    BO_set_mapping_bk2 s (some m) = Book2.setMapping s m ∧
    BO_set_mapping_bk2 s none = { s with mapping := [], reverse := [] } := by
  refine ⟨?_, rfl⟩
  unfold BO_set_mapping_bk2 Book2.setMapping
  have := set_mapping_fold_bk2 s m [] (by simpa using h1) (by simpa using h2)
  simpa [pyBk2Pairs, PyItemsBk2.items] using this

/-- **C14's `remap` edit** (`H.set_mapping({l: n-1-i for l, i in H.mapping.items()})`) on a state satisfying I2 is the model's
`remap` -/
theorem BO_set_mapping_bk2_remap (s : Obj) (hi : I2 s) :
    BO_set_mapping_bk2 s (some (Book2.remapArg s)) = Book.remap s := by
  obtain ⟨_, _, n1, n2, hlt, _⟩ := hi
  have g1 : ((Book2.remapArg s).map Prod.fst).Nodup := by
    simpa [Book2.remapArg, List.map_map, Function.comp_def] using n1
  have g2 : ((Book2.remapArg s).map Prod.snd).Nodup := by
    have e : (Book2.remapArg s).map Prod.snd = (s.mapping.map Prod.snd).map (fun i => s.nextLabel - 1 - i) := by
      simp [Book2.remapArg, List.map_map, Function.comp_def]
    rw [e]
    refine List.Nodup.map_on (fun x hx y hy hxy => ?_) n2
    have hx' := (hlt x).mp hx
    have hy' := (hlt y).mp hy
    omega
  rw [(BO_set_mapping_bk2_eq_model s _ g1 g2).1, Book2.setMapping_remapArg]

theorem set_rmapping_fold_bk2 (s : State) : ∀ (l acc : List (Nat × Var)),
    ((acc ++ l).map Prod.fst).Nodup → ((acc ++ l).map Prod.snd).Nodup →
    List.foldl (fun (self : Obj) (it : Nat × Var) =>
        { { self with mapping := pyMapStore self.mapping it.2 it.1 } with
            reverse := pyMapStore { self with mapping := pyMapStore self.mapping it.2 it.1 }.reverse it.1 it.2 })
      { s with mapping := acc.map (fun p => (p.2, p.1)), reverse := acc } l
    = { s with mapping := (acc ++ l).map (fun p => (p.2, p.1)), reverse := acc ++ l } := by
  intro l
  induction l with
  | nil => intro acc _ _; simp
  | cons q r ih =>
    intro acc h1 h2
    rw [List.foldl_cons]
    have f1 : ∀ p ∈ acc, (p.1 == q.1) = false := by
      intro p hp
      have : p.1 ≠ q.1 := by
        intro e
        rw [List.map_append, List.map_cons] at h1
        have := (List.nodup_append.mp h1).2.2 p.1 (List.mem_map.mpr ⟨p, hp, rfl⟩) q.1 (by simp)
        exact this e
      simpa using this
    have f2 : ∀ p ∈ acc.map (fun p : Nat × Var => (p.2, p.1)), (p.1 == q.2) = false := by
      intro p hp
      obtain ⟨p0, hp0, rfl⟩ := List.mem_map.mp hp
      have : p0.2 ≠ q.2 := by
        intro e
        rw [List.map_append, List.map_cons] at h2
        have := (List.nodup_append.mp h2).2.2 p0.2 (List.mem_map.mpr ⟨p0, hp0, rfl⟩) q.2 (by simp)
        exact this e
      simpa using this
    simp only [pyMapStore_fresh _ _ _ f1, pyMapStore_fresh _ _ _ f2]
    have e : acc.map (fun p : Nat × Var => (p.2, p.1)) ++ [(q.2, q.1)] = (acc ++ [q]).map (fun p => (p.2, p.1)) := by simp
    rw [e]
    have := ih (acc ++ [q]) (by simpa using h1) (by simpa using h2)
    simpa using this

/-- **`BO.set_reverse_mapping`**: the dict becomes the reverse mapping, its converse the mapping -/
theorem BO_set_reverse_mapping_bk2_eq_model (s : Obj) (r : List (Nat × Var)) (h1 : (r.map Prod.fst).Nodup)
    (h2 : (r.map Prod.snd).Nodup) :
    BO_set_reverse_mapping_bk2 s (some r) = Book2.setReverseMapping s r := by
  unfold BO_set_reverse_mapping_bk2 Book2.setReverseMapping
  have := set_rmapping_fold_bk2 s r [] (by simpa using h1) (by simpa using h2)
  simpa [pyBk2Pairs, PyItemsBk2.items] using this

/-! ## where reduction ancillas start -/

/-- **`ancilla = self.num_binary_variables`** in `PUBO._reduce_degree`: the first ancilla label of a degree reduction is the
model's `ancStart` (T14.3 `conv_labels` is about it) -/
theorem reduce_degree_anc_start_bk2_eq_model (s : Obj) : reduce_degree_anc_start_bk2 s = ancStart Fix.fixed s := by
  unfold reduce_degree_anc_start_bk2 ancStart PUBOMatrix_num_binary_variables
  simp [Fix.fixed]

/-- **`PUSO._create_pubo`**: whatever `puso_to_pubo` returns, the temporary PUBO is handed the spin model's mapping, reverse
mapping and variable count (77284a9) — so a reduction of it starts its ancillas at the spin model's `ancStart`, above every
label of the mapping (the `m`, `n` that `Reduce.routeSpinC` passes on to `routeBoolC`) -/
theorem PUSO_create_pubo_bk2_eq_model (conv : Obj → Obj) (s : Obj) :
    PUSO_create_pubo_bk2 conv s = { conv s with mapping := s.mapping, reverse := s.reverse, numVars := s.numVars } ∧
    reduce_degree_anc_start_bk2 (PUSO_create_pubo_bk2 conv s) = ancStart Fix.fixed s ∧
    (PUSO_create_pubo_bk2 conv s).terms = (conv s).terms := by
  refine ⟨rfl, ?_, rfl⟩
  rw [reduce_degree_anc_start_bk2_eq_model]
  simp [ancStart, Fix.fixed, PUSO_create_pubo_bk2, PUBOMatrix_num_binary_variables]


/-! ## `_pop_constraint` -/

theorem popLast_spec_bk2 (r : Rel) : ∀ l : List (Rel × Poly),
    (popLast r l).2 = l.any (fun p => decide (p.1 = r)) ∧ ((popLast r l).2 = false → (popLast r l).1 = l) := by
  intro l
  induction l with
  | nil => exact ⟨rfl, fun _ => rfl⟩
  | cons c t ih =>
    obtain ⟨h1, h2⟩ := ih
    unfold popLast
    cases hd : (popLast r t).2 with
    | true =>
      have : popLast r t = ((popLast r t).1, true) := by rw [← hd]
      rw [this]
      simp only [if_true, List.any_cons]
      rw [← h1, hd]
      simp
    | false =>
      have : popLast r t = ((popLast r t).1, false) := by rw [← hd]
      rw [this]
      simp only [Bool.false_eq_true, if_false, List.any_cons]
      rw [← h1, hd]
      by_cases hc : c.1 = r
      · simp [hc]
      · simp only [hc, if_false, decide_false, Bool.or_false]
        refine ⟨trivial, fun _ => ?_⟩
        rw [h2 hd]

theorem eraseFirst_append_bk2 (key : Rel) (p : Rel × Poly) : ∀ l : List (Rel × Poly),
    pyBk2EraseFirst key (l ++ [p]) =
      if l.any (fun q => decide (q.1 = key)) = true then pyBk2EraseFirst key l ++ [p]
      else if p.1 = key then l else l ++ [p] := by
  intro l
  induction l with
  | nil => simp [pyBk2EraseFirst]
  | cons q r ih =>
    simp only [List.cons_append, pyBk2EraseFirst, List.any_cons]
    by_cases hq : q.1 = key
    · simp [hq]
    · simp only [hq, if_false, decide_false, Bool.false_or, ih]
      by_cases ha : (r.any fun q => decide (q.1 = key)) = true
      · simp [ha]
      · simp only [ha, if_false]
        by_cases hp : p.1 = key <;> simp [hp]

theorem popLast_cons_bk2 (r : Rel) (c : Rel × Poly) (t : List (Rel × Poly)) :
    popLast r (c :: t) = if (popLast r t).2 = true then (c :: (popLast r t).1, true)
      else if c.1 = r then ((popLast r t).1, true) else (c :: (popLast r t).1, false) := by
  conv => lhs; unfold popLast

/-- `c[key].pop()` on the pair list is the model's `popLast` -/
theorem consPopLast_eq_bk2 (key : Rel) : ∀ l : List (Rel × Poly), pyBk2ConsPopLast l key = (popLast key l).1 := by
  intro l
  unfold pyBk2ConsPopLast
  induction l with
  | nil => rfl
  | cons c t ih =>
    obtain ⟨h1, h2⟩ := popLast_spec_bk2 key t
    rw [List.reverse_cons, eraseFirst_append_bk2, popLast_cons_bk2]
    have hany : (t.reverse.any fun q => decide (q.1 = key)) = (popLast key t).2 := by rw [h1, List.any_reverse]
    rw [hany]
    cases hd : (popLast key t).2 with
    | true =>
      simp only [if_true, List.reverse_append, List.reverse_cons, List.reverse_nil, List.nil_append, List.singleton_append]
      rw [ih]
    | false =>
      simp only [Bool.false_eq_true, if_false]
      by_cases hc : c.1 = key
      · simp [hc, h2 hd]
      · simp [hc, h2 hd]

theorem consGet_nil_iff_bk2 (key : Rel) (l : List (Rel × Poly)) :
    pyBk2ConsGet l key = [] ↔ (l.any fun q => decide (q.1 = key)) = false := by
  unfold pyBk2ConsGet
  simp [List.filter_eq_nil_iff]

theorem consDropKey_id_bk2 (key : Rel) (l : List (Rel × Poly)) (h : (l.any fun q => decide (q.1 = key)) = false) :
    pyBk2ConsDropKey l key = l := by
  unfold pyBk2ConsDropKey
  rw [List.filter_eq_self]
  intro a ha
  have := (List.any_eq_false.mp h) a ha
  simpa using this

/-- **`_pop_constraint`**: the last constraint recorded under `key` is removed (nothing happens when there is none) — the model's
`St.pop` -/
theorem PCBO_pop_constraint_bk2_eq_model (s : Obj) (key : Rel) :
    PCBO_pop_constraint_bk2 s key = { s with constraints := (popLast key s.constraints).1 } ∧
    (PCBO_pop_constraint_bk2 s key).constraints = (St.pop { cons := s.constraints } key).cons := by
  have main : PCBO_pop_constraint_bk2 s key = { s with constraints := (popLast key s.constraints).1 } := by
    unfold PCBO_pop_constraint_bk2
    obtain ⟨h1, h2⟩ := popLast_spec_bk2 key s.constraints
    by_cases hg : pyBk2ConsGet s.constraints key = []
    · have ha := (consGet_nil_iff_bk2 key s.constraints).mp hg
      rw [if_neg (by simp [hg])]
      rw [h2 (h1.trans ha)]
    · rw [if_pos hg]
      simp only [consPopLast_eq_bk2]
      by_cases hg2 : pyBk2ConsGet (popLast key s.constraints).1 key = []
      · have ha := (consGet_nil_iff_bk2 key _).mp hg2
        rw [if_pos (by simp [hg2])]
        simp only [consDropKey_id_bk2 key _ ha]
      · rw [if_neg (by simp [hg2])]
  exact ⟨main, by rw [main]; rfl⟩


/-! ## the chain to C14's theorems -/

/-- **On every state of C14's histories** (`Book.run Fix.fixed κ ops`, any class, any edits — the states `inv_history`,
`refresh_exact`, `copy_exact`, `anc_counter` of `Qv/Props/C14.lean` are about) the methods generated from the source are the
model's functions of that name: `clear()` is `Book.clear`, `refresh()` is `Book.refresh`, `copy()` is `Book.copy`, the
constructor `T(H)` of every model class is `Book.cast`, and the `set_mapping` call of the `remap` edit is `Book.remap`. -/
theorem bk2_on_histories (κ : Kind) (ops : List Op) (hk : (Book.run Fix.fixed κ ops).kind ≠ .dict) :
    PUBOMatrix_clear_bk2 (Book.run Fix.fixed κ ops) = .ok (Book.clear (Book.run Fix.fixed κ ops)) ∧
    PUBOMatrix_refresh_bk2 (Book.run Fix.fixed κ ops) =
      Book2.toExcept (Book.refresh Fix.fixed (Book.run Fix.fixed κ ops)) ∧
    DictArithmetic_copy_bk2 (Book.run Fix.fixed κ ops) = Book2.toExcept (Book.copy Fix.fixed (Book.run Fix.fixed κ ops)) ∧
    (∀ κ', κ' ≠ .dict → cls_init_bk2 κ' (pyBk2New κ') (some (Book.run Fix.fixed κ ops)) =
      Book2.toExcept (Book.cast Fix.fixed (Book.run Fix.fixed κ ops) κ')) ∧
    BO_set_mapping_bk2 (Book.run Fix.fixed κ ops) (some (Book2.remapArg (Book.run Fix.fixed κ ops))) =
      Book.remap (Book.run Fix.fixed κ ops) := by
  have hs := Book2.shape_history κ ops
  have hq := run_pres (closed_QInv Fix.fixed rfl) κ ops (fun op _ s => opOK_true s op)
  exact ⟨PUBOMatrix_clear_bk2_history _ hk hs, PUBOMatrix_refresh_bk2_history _ hk hs,
    DictArithmetic_copy_bk2_history _ hk hs, fun κ' hκ' => cls_init_bk2_cast κ' hκ' _ hs,
    BO_set_mapping_bk2_remap _ hq.2.1⟩

example : PUBOMatrix_clear_bk2 (Book.run Fix.fixed .pcbo [.setitem [0, 1] 2, .setitem [3] 1]) = .ok (init .pcbo) := by
  decide +kernel
example : (match PUBOMatrix_refresh_bk2 (Book.run Fix.fixed .pubo [.setitem [1, 2] 1, .augitem [1, 2] .sub 1, .setitem [3] 2]) with
    | .ok s => decide (s.mapping = [(3, 0)] ∧ s.variables = [3] ∧ s.numVars = 1 ∧ s.degree = some 1)
    | .error _ => false) = true := by decide +kernel
example : (match DictArithmetic_copy_bk2 { (Book.run Fix.fixed .pcbo [.setitem [0] 1]) with ancilla := 3, constraints := [(.le, [([0], 1)])] } with
    | .ok s => decide (s.ancilla = 3 ∧ s.constraints = [(.le, [([0], 1)])] ∧ s.terms = [([0], 1)])
    | .error _ => false) = true := by decide +kernel

end Qv.Gen
