import Qv.Gen.SourceReduce
import Mathlib.Tactic.SplitIfs
/-!
# GenEq.ReduceScan — part (b) of `PUBO._reduce_degree`: the nested `for i, x in enumerate(key[:-1]): for y in key[i+1:]:`
scan with its two `break`s, generated from the source, makes the choice of the model's `Reduce.scan` (C01)

The generated locals keep pairs as keys `[x, y]` (a tuple of labels is a key); `redsK` / `freqK` give the model's
`reductions` / `pair_frequencies` association lists that reading.
-/
set_option linter.unusedTactic false
set_option linter.unusedSimpArgs false
namespace Qv.Gen
open Qv Qv.Reduce

/-- the model's `reductions` with the pair `(x, y)` written as the key `[x, y]` -/
def redsK (r : Reds) : List (Key × Var) := r.map (fun e => ([e.1.1, e.1.2], e.2))
/-- the model's `pair_frequencies` with the pair `(x, y)` written as the key `[x, y]` -/
def freqK (f : Freq) : List (Key × Nat) := f.map (fun e => ([e.1.1, e.1.2], e.2))

theorem pair_key_inj (q p : Pair) : ([q.1, q.2] : Key) = [p.1, p.2] ↔ q = p := by
  obtain ⟨a, b⟩ := q; obtain ⟨c, d⟩ := p; simp

theorem pyDictHas_redsK (r : Reds) (p : Pair) : pyDictHas (redsK r) [p.1, p.2] = (redGet r p).isSome := by
  induction r with
  | nil => rfl
  | cons e t ih =>
    obtain ⟨q, z⟩ := e
    simp only [redsK, List.map_cons, pyDictHas, redGet] at ih ⊢
    by_cases h : q = p
    · simp [h]
    · have : ¬ ([q.1, q.2] : Key) = [p.1, p.2] := fun hh => h ((pair_key_inj q p).1 hh)
      rw [if_neg this, if_neg h]; exact ih

theorem pyDictGet_redsK (r : Reds) (p : Pair) :
    pyRDictGet (redsK r) [p.1, p.2] = (match redGet r p with | some z => .ok z | none => .error .key) := by
  induction r with
  | nil => rfl
  | cons e t ih =>
    obtain ⟨q, z⟩ := e
    simp only [redsK, List.map_cons, pyRDictGet, redGet] at ih ⊢
    by_cases h : q = p
    · simp [h]
    · have : ¬ ([q.1, q.2] : Key) = [p.1, p.2] := fun hh => h ((pair_key_inj q p).1 hh)
      rw [if_neg this, if_neg h]; exact ih

theorem pyDDGet_freqK (f : Freq) (p : Pair) : pyDDGet (freqK f) [p.1, p.2] = freqGet f p := by
  induction f with
  | nil => rfl
  | cons e t ih =>
    obtain ⟨q, c⟩ := e
    simp only [freqK, List.map_cons, pyDDGet, pyDictGetD, freqGet] at ih ⊢
    by_cases h : q = p
    · simp [h]
    · have : ¬ ([q.1, q.2] : Key) = [p.1, p.2] := fun hh => h ((pair_key_inj q p).1 hh)
      rw [if_neg this, if_neg h]; exact ih

/-! ## the model's scan, cut at the end of a list of pairs -/

abbrev Best := Option (Nat × Pair)

def scanGo (reds : Reds) (pairs : List Key) (freq : Freq) : List Pair → Best → Sum Choice Best
  | [], best => .inr best
  | p :: rest, best =>
    match redGet reds p with
    | some z => .inl (Choice.used p z)
    | none =>
      if pairs.contains [p.1, p.2] then .inl (Choice.pick p)
      else
        let c := freqGet freq p
        let best' := match best with
          | none => some (c, p)
          | some (bc, bp) => if c > bc then some (c, p) else some (bc, bp)
        scanGo reds pairs freq rest best'

theorem scan_eq_scanGo (reds : Reds) (pairs : List Key) (freq : Freq) : ∀ (ps : List Pair) (best : Best),
    scan reds pairs freq ps best =
      (match scanGo reds pairs freq ps best with
       | .inl c => some c
       | .inr b => b.map (fun b => Choice.pick b.2)) := by
  intro ps
  induction ps with
  | nil => intro best; rfl
  | cons p rest ih =>
    intro best
    simp only [scan, scanGo]
    cases redGet reds p with
    | some z => rfl
    | none =>
      simp only []
      split_ifs
      · rfl
      · exact ih _

theorem scanGo_append (reds : Reds) (pairs : List Key) (freq : Freq) : ∀ (a b : List Pair) (best : Best),
    scanGo reds pairs freq (a ++ b) best =
      (match scanGo reds pairs freq a best with
       | .inl c => .inl c
       | .inr best' => scanGo reds pairs freq b best') := by
  intro a
  induction a with
  | nil => intro b best; rfl
  | cons p rest ih =>
    intro b best
    simp only [List.cons_append, scanGo]
    cases redGet reds p with
    | some z => rfl
    | none =>
      simp only []
      split_ifs
      · rfl
      · exact ih _ _

/-! ## the generated loops -/

abbrev BP := Option Nat × Option Key

/-- `best_pair` for the model's running best -/
def encB : Best → BP
  | none => (none, none)
  | some (c, p) => (some c, some [p.1, p.2])

/-- what the locals `(previously_used, in_pairs, best_pair)` and the loop variables say after a (partial) scan -/
def ScanSt (r : Sum Choice Best) (pu ip : Bool) (bp : BP) (x y : Var) : Prop :=
  match r with
  | .inl (Choice.used p _) => pu = true ∧ x = p.1 ∧ y = p.2
  | .inl (Choice.pick p) => pu = false ∧ ip = true ∧ bp.2 = some [p.1, p.2]
  | .inr b => pu = false ∧ ip = false ∧ bp = encB b

/-- the inner loop `for y in key[i+1:]` for a fixed `x`, with any body that behaves as the source's if/elif chain.
The carried locals are `(best_pair, in_pairs, previously_used, y)` (the translator orders them by name). -/
theorem scan_inner (reds : Reds) (pairs : List Key) (freq : Freq) (x : Var)
    (B : BP × Bool × Bool × Var → Var → Brk (BP × Bool × Bool × Var))
    (hB : ∀ pu ip bp y0 y, B (bp, ip, pu, y0) y =
      if pyDictHas (redsK reds) [x, y] = true then .brk (bp, ip, true, y)
      else if [x, y] ∈ pairs then .brk ((none, some [x, y]), true, pu, y)
      else match bp.1 with
        | none => .next ((some (pyDDGet (freqK freq) [x, y]), some [x, y]), ip, pu, y)
        | some c =>
          if pyDDGet (freqK freq) [x, y] > c then .next ((some (pyDDGet (freqK freq) [x, y]), some [x, y]), ip, pu, y)
          else .next ((some c, bp.2), ip, pu, y)) :
    ∀ (ys : List Var) (best : Best) (y0 : Var),
      let r := pyForB ys (encB best, false, false, y0) B
      ScanSt (scanGo reds pairs freq (ys.map (fun y => (x, y))) best) r.2.2.1 r.2.1 r.1 x r.2.2.2 := by
  intro ys
  induction ys with
  | nil => intro best y0; simp [pyForB, scanGo, ScanSt]
  | cons y rest ih =>
    intro best y0
    simp only [List.map_cons, pyForB, scanGo, hB]
    have h1 := pyDictHas_redsK reds (x, y)
    have h3 := pyDDGet_freqK freq (x, y)
    simp only [] at h1 h3
    rw [h1, h3]
    cases hr : redGet reds (x, y) with
    | some z => simp [ScanSt]
    | none =>
      simp only [Option.isSome_none, Bool.false_eq_true, if_false]
      by_cases hp : [x, y] ∈ pairs
      · have : pairs.contains [x, y] = true := by simpa using hp
        simp [hp, this, ScanSt]
      · have : pairs.contains [x, y] = false := by simpa using hp
        simp only [hp, this, if_false, Bool.false_eq_true]
        cases best with
        | none => exact ih (some (freqGet freq (x, y), (x, y))) y
        | some b =>
          obtain ⟨bc, bq⟩ := b
          simp only [encB]
          by_cases hc : freqGet freq (x, y) > bc
          · simp only [hc, if_true]; exact ih (some (freqGet freq (x, y), (x, y))) y
          · simp only [hc, if_false]; exact ih (some (bc, bq)) y

theorem pySlice_from_natR {α : Type} (l : List α) (n : Nat) : pySlice l (some ((n : Nat) : Int)) none = l.drop n := by
  have h : pyClamp l.length ((n : Nat) : Int) = min n l.length := by
    unfold pyClamp
    rw [if_neg (by omega)]
    simp
  simp only [pySlice, h, List.take_length]
  by_cases hn : n ≤ l.length
  · rw [Nat.min_eq_left hn]
  · have : l.length ≤ n := by omega
    rw [Nat.min_eq_right this, List.drop_length, List.drop_eq_nil_of_le this]

theorem dropLast_cons2 {α : Type} (a b : α) (r : List α) : (a :: b :: r).dropLast = a :: (b :: r).dropLast := rfl

/-- the outer loop `for i, x in enumerate(key[:-1])` over a suffix `key.drop n` of the key; carried locals
`(best_pair, in_pairs, previously_used, x, y)` -/
theorem scan_outer (reds : Reds) (pairs : List Key) (freq : Freq) (key : Key)
    (O : BP × Bool × Bool × Var × Var → Nat × Var → Brk (BP × Bool × Bool × Var × Var))
    (hO : ∀ y0 x0 (bp : BP) i x, ∃ st : BP × Bool × Bool × Var,
      (∀ best, bp = encB best →
        ScanSt (scanGo reds pairs freq ((key.drop (i + 1)).map (fun y => (x, y))) best) st.2.2.1 st.2.1 st.1 x st.2.2.2) ∧
      O (bp, false, false, x0, y0) (i, x) =
        if st.2.2.1 = true ∨ st.2.1 = true then .brk (st.1, st.2.1, st.2.2.1, x, st.2.2.2)
        else .next (st.1, st.2.1, st.2.2.1, x, st.2.2.2)) :
    ∀ (suf : List Var) (n : Nat), suf = key.drop n → ∀ (best : Best) (y0 x0 : Var),
      let r := pyForB (pyEnumerateFrom n suf.dropLast) (encB best, false, false, x0, y0) O
      ScanSt (scanGo reds pairs freq (pairsOf suf) best) r.2.2.1 r.2.1 r.1 r.2.2.2.1 r.2.2.2.2 := by
  intro suf
  induction suf with
  | nil => intro n _ best y0 x0; simp [pyEnumerateFrom, pyForB, pairsOf, scanGo, ScanSt]
  | cons a rest ih =>
    intro n hs best y0 x0
    have hrest : rest = key.drop (n + 1) := by
      have := congrArg List.tail hs
      simpa [List.tail_drop] using this
    cases rest with
    | nil => simp [pyEnumerateFrom, pyForB, pairsOf, scanGo, ScanSt]
    | cons b r' =>
      rw [dropLast_cons2]
      simp only [pyEnumerateFrom, pyForB, pairsOf]
      obtain ⟨st, hst, hOeq⟩ := hO y0 x0 (encB best) n a
      have hst' := hst best rfl
      rw [← hrest] at hst'
      rw [hOeq, scanGo_append]
      obtain ⟨bp, ip, pu, y⟩ := st
      simp only [] at hst' ⊢
      cases hg : scanGo reds pairs freq ((b :: r').map (fun y => (a, y))) best with
      | inl c =>
        rw [hg] at hst'
        cases c with
        | used p z =>
          simp only [ScanSt] at hst' ⊢
          obtain ⟨h1, h2, h3⟩ := hst'
          simp [h1, h2, h3]
        | pick p =>
          simp only [ScanSt] at hst' ⊢
          obtain ⟨h1, h2, h3⟩ := hst'
          simp [h1, h2, h3]
      | inr b' =>
        rw [hg] at hst'
        simp only [ScanSt] at hst'
        obtain ⟨h1, h2, h3⟩ := hst'
        subst h1 h2 h3
        simp only [Bool.false_eq_true, or_self, if_false]
        exact ih (n + 1) hrest b' y a

/-- the relation between the model's choice and the locals `(previously_used, best_pair, x, y)` after the scan:
a reused pair is in the loop variables `x, y` with `previously_used` set; otherwise `best_pair[1]` is the picked pair;
a key without pairs leaves `best_pair = (None, None)` -/
def ScanRel (c : Option Choice) (r : Bool × BP × Var × Var) : Prop :=
  match c with
  | some (Choice.used p _) => r.1 = true ∧ r.2.2.1 = p.1 ∧ r.2.2.2 = p.2
  | some (Choice.pick p) => r.1 = false ∧ r.2.1.2 = some [p.1, p.2]
  | none => r.1 = false ∧ r.2.1 = (none, none)


theorem scan_main (reds : Reds) (pairs : List Key) (freq : Freq) (key : Key)
    (O : BP × Bool × Bool × Var × Var → Nat × Var → Brk (BP × Bool × Bool × Var × Var))
    (hO : ∀ y0 x0 (bp : BP) i x, ∃ st : BP × Bool × Bool × Var,
      (∀ best, bp = encB best →
        ScanSt (scanGo reds pairs freq ((key.drop (i + 1)).map (fun y => (x, y))) best) st.2.2.1 st.2.1 st.1 x st.2.2.2) ∧
      O (bp, false, false, x0, y0) (i, x) =
        if st.2.2.1 = true ∨ st.2.1 = true then .brk (st.1, st.2.1, st.2.2.1, x, st.2.2.2)
        else .next (st.1, st.2.1, st.2.2.1, x, st.2.2.2))
    (y0 x0 : Var) :
    ScanRel (scan reds pairs freq (pairsOf key) none)
      ((pyForB (pyREnumerate key.dropLast) ((none, none), false, false, x0, y0) O).2.2.1,
       (pyForB (pyREnumerate key.dropLast) ((none, none), false, false, x0, y0) O).1,
       (pyForB (pyREnumerate key.dropLast) ((none, none), false, false, x0, y0) O).2.2.2.1,
       (pyForB (pyREnumerate key.dropLast) ((none, none), false, false, x0, y0) O).2.2.2.2) := by
  have h := scan_outer reds pairs freq key O hO key 0 rfl none y0 x0
  simp only [encB] at h
  rw [scan_eq_scanGo]
  unfold pyREnumerate
  generalize pyForB _ _ O = r at h ⊢
  cases hg : scanGo reds pairs freq (pairsOf key) none with
  | inl c =>
    rw [hg] at h
    cases c with
    | used p z => simpa [ScanSt, ScanRel] using h
    | pick p => simp only [ScanSt] at h; simp [ScanRel, h.1, h.2.2]
  | inr b =>
    rw [hg] at h
    simp only [ScanSt] at h
    cases b with
    | none => simp [ScanRel, h.1, h.2.2, encB]
    | some b => obtain ⟨c, q⟩ := b; simp [ScanRel, h.1, h.2.2, encB]

/-- **(b)** the generated scan makes the model's choice (`ScanRel`), whatever `x`, `y` held on entry -/
theorem rd_scan_eq_model (key : Key) (reds : Reds) (pairs : List Key) (freq : Freq) (x0 y0 : Var) :
    ScanRel (scan reds pairs freq (pairsOf key) none) (rd_scan key (redsK reds) pairs (freqK freq) x0 y0) := by
  unfold rd_scan
  simp only [pySlice_to_neg_one, pySlice_from_natR]
  refine scan_main reds pairs freq key _ ?_ y0 x0
  intro y0 x0 bp i x
  refine ⟨pyForB (key.drop (i + 1)) (bp, false, false, y0) _, ?_, rfl⟩
  intro best hb
  subst hb
  refine scan_inner reds pairs freq x _ ?_ (key.drop (i + 1)) best y0
  intro pu ip bp y0 y
  simp only []
  split_ifs <;> first
    | rfl
    | (cases hbp : bp.1 <;> simp_all <;> done)
    | (rcases bp with ⟨_ | c, b2⟩ <;> simp_all <;> split_ifs <;> simp_all)

end Qv.Gen
