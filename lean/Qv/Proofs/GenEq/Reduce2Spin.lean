import Qv.Gen.SourceReduce2Spin
import Qv.Proofs.GenEq.Reduce2Chain
/-!
# GenEq.Reduce2Spin — `PUSO._create_pubo` and the routes `PUSO.to_pubo` / `PUSO.to_qubo` through it, generated from the
source (`Qv/Gen/SourceReduce2Spin.lean`), composed with the generated `PUBO.to_pubo` / `to_qubo` and the generated whole
`_reduce_degree`, reach the model's spin routes `Reduce.route true .pubo / .qubo` (C01, C08)

`_create_pubo` hands the temporary PUBO the PUSO's `mapping`, `reverse_mapping` and (upstream fix 77284a9)
`num_binary_variables`; the seeded changes C01-2 / C01-4 / C01-9 edit exactly these hand-overs.
-/
set_option linter.unusedTactic false
set_option linter.unusedSimpArgs false
namespace Qv.Gen
open Qv Qv.Reduce

/-! ## the model's local mirror `Reduce.pusoToPubo` is the C04 model of `puso_to_pubo` on a labelled PUSO -/

theorem rd2_squash_pubo (k : Key) : squash .pubo k = .ok (squashB k) := rfl

theorem rd2_addTerm_pubo (acc : Poly) (k : Key) (v : Rat) : addTerm (squash .pubo) acc k v = .ok (addTermB acc k v) := rfl

theorem rd2_addGen_pubo : ∀ (g : List (Key × Rat)) (acc : Poly) (v : Rat),
    addGen (squash .pubo) acc g v = .ok (g.foldl (fun P kv2 => addTermB P kv2.1 (kv2.2 * v)) acc) := by
  intro g
  induction g with
  | nil => intro acc v; rfl
  | cons kv r ih =>
    intro acc v
    obtain ⟨key, value⟩ := kv
    simp only [addGen, rd2_addTerm_pubo, List.foldl_cons]
    exact ih _ v

theorem rd2_genS2B_eq : ∀ (k : Key), Qv.genS2B k = Reduce.genS2B k := by
  intro k
  induction k with
  | nil => rfl
  | cons i r ih => simp only [Qv.genS2B, Reduce.genS2B, ih]

theorem rd2_convLoop_pubo : ∀ (p acc : Poly),
    convLoop Qv.genS2B (squash .pubo) acc p =
      .ok (p.foldl (fun P kv => (Reduce.genS2B kv.1).foldl (fun P kv2 => addTermB P kv2.1 (kv2.2 * kv.2)) P) acc) := by
  intro p
  induction p with
  | nil => intro acc; rfl
  | cons kv r ih =>
    intro acc
    obtain ⟨k, v⟩ := kv
    simp only [convLoop, rd2_addGen_pubo, rd2_genS2B_eq, List.foldl_cons]
    exact ih _

/-- `puso_to_pubo(H)` of a labelled PUSO (C04 model) is the local mirror the C01 routes use -/
theorem rd2_pusoToPubo_bridge (p : Poly) : Qv.pusoToPubo .puso p = .ok (Reduce.pusoToPubo p) := by
  unfold Qv.pusoToPubo Reduce.pusoToPubo
  exact rd2_convLoop_pubo p []

/-! ## `_create_pubo` -/

/-- **(5)** `PUSO._create_pubo()`: the object `puso_to_pubo(self)` returns (type and terms: C04's tie), with `_mapping`,
`_reverse_mapping` and `_num_binary_variables` overwritten by the PUSO's own -/
theorem rd2_create_pubo_eq_model (self : ConvModel) :
    rd2_create_pubo self =
      (asObj (kindPusoToPubo self.kind) (Qv.pusoToPubo self.kind self.items) >>= fun P =>
        .ok ⟨P.kind, P.items, self.mapping, self.rev, self.nvars⟩) := by
  unfold rd2_create_pubo
  rw [puso_to_pubo_eq_model]
  rfl

/-- on a PUSO: a `qv.PUBO` with the terms of the model's `Reduce.pusoToPubo` and the PUSO's bookkeeping -/
theorem rd2_create_pubo_puso (self : ConvModel) (hk : self.kind = .puso) :
    rd2_create_pubo self = .ok ⟨.pubo, Reduce.pusoToPubo self.items, self.mapping, self.rev, self.nvars⟩ := by
  rw [rd2_create_pubo_eq_model, hk, rd2_pusoToPubo_bridge]
  rfl

/-! ## the routes -/

/-- `PUSO.to_pubo(deg, lam, pairs)` is `self._create_pubo().to_pubo(deg, lam, pairs)` (for every `_reduce_degree`) -/
theorem rd2_PUSO_to_pubo_eq_model (self : ConvModel) (deg : Option Int)
    (red : ConvModel → ConvObj → Option Int → Except Err ConvObj) :
    rd2_PUSO_to_pubo self deg red = (rd2_create_pubo self >>= fun P => red P ⟨.pubom, []⟩ deg) := by
  unfold rd2_PUSO_to_pubo
  simp only [PUBO_to_pubo_eq_model, bind_ok_self]

theorem rd2_PUSO_to_qubo_eq_model (self : ConvModel)
    (red : ConvModel → ConvObj → Option Int → Except Err ConvObj) :
    rd2_PUSO_to_qubo self red = (rd2_create_pubo self >>= fun P => red P ⟨.qubom, []⟩ (some 2)) := by
  unfold rd2_PUSO_to_qubo
  simp only [PUBO_to_qubo_eq_model, bind_ok_self]

/-- the whole chain for a PUSO: generated `PUSO.to_pubo` ∘ `_create_pubo` ∘ `puso_to_pubo` ∘ `PUBO.to_pubo` ∘
`_reduce_degree` is the model's spin route to a PUBO -/
theorem rd2_PUSO_to_pubo_route (self : ConvModel) (hk : self.kind = .puso) (deg : Option Nat) (lam : Lam)
    (pairs : Option (List Key)) (x0 y0 : Var) :
    rd2_PUSO_to_pubo self (deg.map Int.ofNat) (rd2ReduceFn (rd2LamArg lam) pairs x0 y0) =
      (route true .pubo self.items self.mapping self.nvars deg lam (pairs.getD [])).map
        (fun o => (⟨.pubom, o.res⟩ : ConvObj)) := by
  unfold rd2_PUSO_to_pubo
  rw [rd2_create_pubo_puso self hk]
  simp only [rd2_ok_bind, bind_ok_self]
  rw [PUBO_to_pubo_rd2_route]
  rfl

theorem rd2_PUSO_to_qubo_route (self : ConvModel) (hk : self.kind = .puso) (deg : Option Nat) (lam : Lam)
    (pairs : Option (List Key)) (x0 y0 : Var) :
    rd2_PUSO_to_qubo self (rd2ReduceFn (rd2LamArg lam) pairs x0 y0) =
      (route true .qubo self.items self.mapping self.nvars deg lam (pairs.getD [])).map
        (fun o => (⟨.qubom, o.res⟩ : ConvObj)) := by
  unfold rd2_PUSO_to_qubo
  rw [rd2_create_pubo_puso self hk]
  simp only [rd2_ok_bind, bind_ok_self]
  rw [PUBO_to_qubo_rd2_route _ deg]
  rfl

end Qv.Gen
