import Qv.Proofs.GenEq.ReduceKey
import Qv.Proofs.GenEq.ReduceScan
import Qv.Model.ReduceStep
/-!
# GenEq.ReduceStep — parts (b, reuse versus fresh ancilla), (d, the penalty per use) and the body of
`while len(key) > deg:` of `PUBO._reduce_degree`, generated from the source, equal the model's `Reduce.stepM` (C01)
-/
set_option linter.unusedTactic false
set_option linter.unusedSimpArgs false
namespace Qv.Gen
open Qv Qv.Reduce

theorem redsK_append (r : Reds) (p : Pair) (z : Var) : redsK (r ++ [(p, z)]) = redsK r ++ [([p.1, p.2], z)] := by
  simp [redsK]

theorem pyDictSet_redsK_fresh (r : Reds) (p : Pair) (z : Var) (h : redGet r p = none) :
    pyRDictSet (redsK r) [p.1, p.2] z = redsK (r ++ [(p, z)]) := by
  induction r with
  | nil => rfl
  | cons e t ih =>
    obtain ⟨q, z'⟩ := e
    simp only [redGet] at h
    by_cases hq : q = p
    · rw [if_pos hq] at h; cases h
    · rw [if_neg hq] at h
      have : ¬ ([q.1, q.2] : Key) = [p.1, p.2] := fun hh => hq ((pair_key_inj q p).1 hh)
      simp only [redsK, List.map_cons, pyRDictSet, if_neg this, List.cons_append] at ih ⊢
      rw [ih h]

theorem pyDictSet_freqK_inc (f : Freq) (p : Pair) :
    pyRDictSet (freqK f) [p.1, p.2] (pyDDGet (freqK f) [p.1, p.2] + 1) = freqK (freqInc f p) := by
  induction f with
  | nil => rfl
  | cons e t ih =>
    obtain ⟨q, c⟩ := e
    by_cases hq : q = p
    · subst hq; simp [freqK, pyRDictSet, pyDDGet, pyDictGetD, freqInc]
    · have : ¬ ([q.1, q.2] : Key) = [p.1, p.2] := fun hh => hq ((pair_key_inj q p).1 hh)
      simp only [freqK, List.map_cons, pyRDictSet, pyDDGet, pyDictGetD, freqInc, if_neg this, if_neg hq] at ih ⊢
      rw [ih]

/-- a picked pair has no reduction yet -/
theorem scan_pick_fresh {reds : Reds} {pairs : List Key} {freq : Freq} : ∀ {ps : List Pair} {best : Option (Nat × Pair)}
    {p : Pair}, (∀ c q, best = some (c, q) → redGet reds q = none) →
    scan reds pairs freq ps best = some (Choice.pick p) → redGet reds p = none := by
  intro ps
  induction ps with
  | nil =>
    intro best p hb h
    cases best with
    | none => simp [scan] at h
    | some b => obtain ⟨c, q⟩ := b; simp [scan] at h; subst h; exact hb c q rfl
  | cons q rest ih =>
    intro best p hb h
    unfold scan at h
    split at h
    · cases h
    · rename_i hq
      split at h
      · injection h with h; injection h with h; subst h; exact hq
      · refine ih ?_ h
        intro c q' hcq
        cases best with
        | none => simp at hcq; rw [← hcq.2]; exact hq
        | some b =>
          obtain ⟨bc, bq⟩ := b
          simp only [] at hcq
          split at hcq
          · injection hcq with hcq; injection hcq with _ h2; rw [← h2]; exact hq
          · injection hcq with hcq; injection hcq with h1 h2; rw [← h2]; exact hb bc bq rfl

/-- `used p z` is produced only from `redGet reds p = some z` -/
theorem scan_used_get {reds : Reds} {pairs : List Key} {freq : Freq} {p : Pair} {z : Var} :
    ∀ (ps : List Pair) (best : Option (Nat × Pair)),
      scan reds pairs freq ps best = some (Choice.used p z) → redGet reds p = some z := by
  intro ps
  induction ps with
  | nil => intro best h; cases best <;> simp [scan] at h
  | cons q rest ih =>
    intro best h
    unfold scan at h
    split at h
    · rename_i z' hz'
      injection h with h; injection h with e1 e2; subst e1 e2; exact hz'
    · split at h
      · cases h
      · exact ih _ h

/-- **(b, reuse)** with `previously_used` set and the reused pair in `x, y`, the generated choice reads `z` from
`reductions` and changes nothing else -/
theorem rd_choose_used (bp : BP) (p : Pair) (z : Var) (reds : Reds) (next : Var) (freq : Freq)
    (h : redGet reds p = some z) :
    rd_choose true bp p.1 p.2 (redsK reds) next (freqK freq) = .ok (p.1, p.2, z, redsK reds, next, freqK freq) := by
  unfold rd_choose
  first
    | (simp only [pyDictGet_redsK, h]; done)
    | (simp only [pyDictGet_redsK, h]; first | rfl | simp [bind, Except.bind])

/-- **(b, fresh)** without a reusable pair the generated choice unpacks `best_pair[1]`, takes `z = ancilla`, records
the reduction, advances the counter and bumps the counts of `(x, z)` and `(y, z)` — the model's `pick` branch -/
theorem rd_choose_pick (c : Option Nat) (p : Pair) (x0 y0 : Var) (reds : Reds) (next : Var) (freq : Freq)
    (h : redGet reds p = none) :
    rd_choose false (c, some [p.1, p.2]) x0 y0 (redsK reds) next (freqK freq) =
      .ok (p.1, p.2, next, redsK (reds ++ [(p, next)]), next + 1,
           freqK (freqInc (freqInc freq (p.1, next)) (p.2, next))) := by
  unfold rd_choose
  have h1 := pyDictSet_redsK_fresh reds p next h
  have h2 := pyDictSet_freqK_inc freq (p.1, next)
  have h3 := pyDictSet_freqK_inc (freqInc freq (p.1, next)) (p.2, next)
  simp only [] at h2 h3
  first
    | (simp only [pyNotNone, bind, Except.bind, Bool.false_eq_true, if_false, h1, h2, h3]; done)
    | simp [pyNotNone, bind, Except.bind, h1, h2, h3]

/-- the generated `rd_choose` as one statement about the model's choice -/
theorem rd_choose_eq_model (reds : Reds) (pairs : List Key) (freq : Freq) (key : Key) (next : Var)
    (r : Bool × BP × Var × Var) (hr : ScanRel (scan reds pairs freq (pairsOf key) none) r) :
    match scan reds pairs freq (pairsOf key) none with
    | some (Choice.used p z) =>
      rd_choose r.1 r.2.1 r.2.2.1 r.2.2.2 (redsK reds) next (freqK freq) = .ok (p.1, p.2, z, redsK reds, next, freqK freq)
    | some (Choice.pick p) =>
      rd_choose r.1 r.2.1 r.2.2.1 r.2.2.2 (redsK reds) next (freqK freq) =
        .ok (p.1, p.2, next, redsK (reds ++ [(p, next)]), next + 1,
             freqK (freqInc (freqInc freq (p.1, next)) (p.2, next)))
    | none => True := by
  obtain ⟨pu, bp, x, y⟩ := r
  cases hs : scan reds pairs freq (pairsOf key) none with
  | none => trivial
  | some c =>
    rw [hs] at hr
    cases c with
    | used p z =>
      simp only [ScanRel] at hr
      obtain ⟨h1, h2, h3⟩ := hr
      subst h1 h2 h3
      have hm : redGet reds p = some z := scan_used_get _ _ hs
      exact rd_choose_used bp p z reds next freq hm
    | pick p =>
      simp only [ScanRel] at hr
      obtain ⟨h1, h2⟩ := hr
      subst h1
      obtain ⟨b1, b2⟩ := bp
      simp only [] at h2
      subst h2
      exact rd_choose_pick b1 p x y reds next freq (scan_pick_fresh (by intro c q h; cases h) hs)

/-- **(d) + composition** one pass through the body of `while len(key) > deg:` — generated scan, choice,
`D += qv.PCBO().add_constraint_eq_AND(z, x, y, lam=func_lam(v))` exactly once per pass (reused or not), key rewrite —
is the model's `stepM` with `λ = func_lam(v)`; `x`, `y` on entry are irrelevant -/
theorem rd_step_eq_model (pairs : List Key) (lam : Rat → Rat) (v : Rat) (key : Key) (st : ISt) (x0 y0 : Var)
    (r : Key × ISt × Step) (h : stepM pairs (lam v) key st = some r) :
    rd_step key v st.D (redsK st.reds) pairs (freqK st.freq) st.next lam x0 y0 =
      .ok (r.1, r.2.1.D, redsK r.2.1.reds, r.2.1.next, freqK r.2.1.freq, r.2.2.x, r.2.2.y) := by
  have hs := rd_scan_eq_model key st.reds pairs st.freq x0 y0
  have hc := rd_choose_eq_model st.reds pairs st.freq key st.next _ hs
  unfold stepM at h
  unfold rd_step
  cases hsc : scan st.reds pairs st.freq (pairsOf key) none with
  | none => rw [hsc] at h; cases h
  | some c =>
    rw [hsc] at h hc
    cases c with
    | used p z =>
      obtain ⟨x, y⟩ := p
      simp only [Option.some.injEq] at h
      subst h
      simp only [] at hc ⊢
      rw [hc]
      simp only [bind, Except.bind, pyIaddEqAND, rd_rekey_eq_model]
    | pick p =>
      obtain ⟨x, y⟩ := p
      simp only [Option.some.injEq] at h
      subst h
      simp only [] at hc ⊢
      rw [hc]
      simp only [bind, Except.bind, pyIaddEqAND, rd_rekey_eq_model]

end Qv.Gen
