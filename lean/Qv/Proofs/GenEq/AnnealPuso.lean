import Qv.Gen.SourceAnneal
import Qv.Proofs.GenEq.AnnealLib
import Qv.Proofs.GenEq.AnnealSched
import Qv.Proofs.GenEq.AnnealPackage
import Qv.Proofs.AnnealSrc
/-!
# GenEq.AnnealPuso — the segments generated from `anneal_puso` (`qubovert/sim/_anneal.py`) equal the model
(`Qv/Model/AnnealFront.lean` through `Qv/Model/AnnealSrc.lean`) (C11, C12, C17)
-/
set_option linter.unusedTactic false
set_option linter.unreachableTactic false
set_option linter.unusedSimpArgs false
namespace Qv.Gen
open Qv.Gen.Ann
open Qv Qv.Anneal

/-- `entry`: `num_anneals <= 0` returns no results first; otherwise the schedule is created (and validated) -/
theorem anneal_puso_entry_eq_model {α : Type} (numAnneals : Int) (s : Schedule α) :
    anneal_puso_entry numAnneals s = srcEntry numAnneals s := by
  unfold anneal_puso_entry srcEntry
  rw [create_spin_schedule_eq_model]
  by_cases h : numAnneals ≤ 0
  · simp [h]
  · simp only [h, if_false]
    cases createSchedule s <;> rfl

/-- `dispatch`: `QUSOMatrix` / `PUSOMatrix` inputs keep their integer labels (`N = max_index + 1`, 0 without variables);
`QUSO` / `PUSO` / `PCSO` go through `to_puso()` and their `reverse_mapping`; anything else is first wrapped as `PUSO(H)`;
no path leaves `N` unassigned -/
theorem anneal_puso_dispatch_eq_model (H : Obj) : anneal_puso_dispatch H = dispatchPuso H := by
  unfold anneal_puso_dispatch dispatchPuso
  simp only [pyTypeIn_true, pyTypeIn_false, List.mem_cons, List.mem_singleton, List.not_mem_nil, or_false, not_or,
    pyRangeNat_nat, pyMaxIndex, pyNumBinaryVariables, pyReverseMapping, pyItems, pyToPuso]
  by_cases h1 : H.kind = Kind.qusom ∨ H.kind = Kind.pusom
  · rcases h1 with h1 | h1 <;> simp [h1] <;> first | rfl | (cases H.maxIndex <;> rfl) | simp_all | grind
  · have h1a : ¬ H.kind = Kind.qusom := fun e => h1 (Or.inl e)
    have h1b : ¬ H.kind = Kind.pusom := fun e => h1 (Or.inr e)
    by_cases h2 : H.kind = Kind.quso ∨ H.kind = Kind.puso ∨ H.kind = Kind.pcso
    · rcases h2 with h2 | h2 | h2 <;> simp [h1a, h1b, h2] <;>
        first | rfl | (cases toPuso H <;> rfl) | simp_all | grind
    · have h2a : ¬ H.kind = Kind.quso := fun e => h2 (Or.inl e)
      have h2b : ¬ H.kind = Kind.puso := fun e => h2 (Or.inr (Or.inl e))
      have h2c : ¬ H.kind = Kind.pcso := fun e => h2 (Or.inr (Or.inr e))
      simp only [h1a, h1b, h2a, h2b, h2c, h1, h2, or_self, and_self, if_false, if_true, not_false_eq_true, bind_pure_comp,
        pure_bind]
      first
        | (apply pyConstruct_bind
           intro M hM
           simp [hM] <;> first | rfl | (cases toPuso M <;> rfl) | simp_all | grind)
        | (simp [pyConstruct]; cases Obj.build Kind.puso H.terms <;> first | rfl | simp_all | grind)

/-- `state`: the `N == 0` shortcut and the placement of the initial state, as in `anneal_quso` -/
theorem anneal_puso_state_eq_model (N : Nat) (model : Poly) (rev : List Var) (numAnneals : Int)
    (init : Option (List (Var × Int))) :
    anneal_puso_state N model rev numAnneals init = srcState N model rev numAnneals init := by
  unfold anneal_puso_state srcState
  by_cases hN : N = 0
  · simp [hN, pyRangeNat, map_const_range, emptyResults, pyAnnealResult, pyOffsetA]
  · simp only [hN, if_false]
    cases init with
    | none => rfl
    | some d =>
      simp only [pyRepeat_one]
      rw [place_loop_eq N rev d]
      · cases relabelInit N rev (some d) <;> rfl
      · intro st kv hst
        simp only [pyDictGet_eq, pyListSet, hst]
        cases lookupInit d kv.2 with
        | error e => rfl
        | ok x =>
          by_cases hk : kv.1 < N <;> simp [hk] <;> first | rfl | simp_all | grind

/-- the loop of `anneal_puso` over `model.items()` on an arbitrary starting triple -/
theorem ann_puso_loop {α : Type} (toNum : Rat → α) : ∀ (model : Poly) (cs : List α) (ts nc : List Nat),
    List.foldlM (fun (acc : List α × List Nat × List Nat) (kv : Key × Rat) =>
        if kv.1 ≠ [] then (Except.ok (acc.1 ++ [toNum kv.2], acc.2.1 ++ kv.1, acc.2.2 ++ [kv.1.length]) : Except Err _)
        else Except.ok (acc.1, acc.2.1, acc.2.2)) (cs, ts, nc) model =
      Except.ok (cs ++ (model.filter (fun kv => !kv.1.isEmpty)).map (fun kv => toNum kv.2),
        ts ++ ((model.filter (fun kv => !kv.1.isEmpty)).map Prod.fst).flatten,
        nc ++ (model.filter (fun kv => !kv.1.isEmpty)).map (fun kv => kv.1.length))
  | [], cs, ts, nc => by simp [pure, Except.pure]
  | (k, v) :: model, cs, ts, nc => by
    simp only [List.foldlM_cons]
    cases k with
    | nil =>
      simp only [ne_eq, not_true_eq_false, if_false, ok_bind']
      rw [ann_puso_loop toNum model]
      simp [List.filter_cons]
    | cons a r =>
      simp only [ne_eq, reduceCtorEq, not_false_eq_true, if_true, ok_bind']
      rw [ann_puso_loop toNum model]
      simp [List.filter_cons]

/-- `flatten`: every term with a non-empty key contributes `float(coupling)`, its labels and its length, in dict order;
the constant term is skipped -/
theorem anneal_puso_flatten_eq_model {α : Type} (toNum : Rat → α) (N : Nat) (model : Poly) :
    anneal_puso_flatten toNum N model = .ok (srcFlattenPuso toNum model) := by
  unfold anneal_puso_flatten srcFlattenPuso flattenPuso
  simp only [pyForM_eq_foldlM]
  have h := ann_puso_loop toNum model [] [] []
  simp only [List.nil_append] at h
  first
    | (rw [show (fun (_py_acc : List α × List Nat × List Nat) (_py_it : Key × Rat) => _) = _ from rfl] at h; simp [h, ok_bind']; done)
    | (simp only [ok_bind'] ; erw [h]; rfl)
    | (erw [h]; rfl)
    | (simp_all [ok_bind']; done)

/-- `call`: the C extension is called with `(N, num_couplings, terms, couplings, Ts, num_anneals, int(in_order),
init_state, seed or -1)` in this order and its `(states, values)` are packaged with the model's offset and
`reverse_mapping`.  `c_anneal_puso` is instantiated with the kernel model (`extPuso`). -/
theorem anneal_puso_call_eq_model {ρ α : Type} [Add α] [Mul α] [Kernel.OfInt α] (ofNum : α → Rat) (src : Kernel.Src ρ α)
    (rngOf : Int → ρ) (N : Nat) (nc terms : List Nat) (cs Ts : List α) (numAnneals : Int) (inOrder : Bool)
    (init : List Int) (seed : Option Int) (model : Poly) (rev : List Var) :
    anneal_puso_call ofNum (extPuso src rngOf) N nc terms cs Ts numAnneals inOrder init seed model rev =
      srcCallPuso ofNum src rngOf N nc terms cs Ts numAnneals inOrder init seed model rev := by
  unfold anneal_puso_call srcCallPuso extPuso unzipOut
  by_cases h : terms.any (· ≥ N) = true
  · simp only [h, if_true, error_bind']
  · simp only [h, if_false, ok_bind', package_spin_results_eq_model, pyIntOfBool_ne, seed_match, pyOffsetA, bind_ok_self,
      Bool.false_eq_true]
    cases seed <;> first | rfl | simp [seedArg]

/-- the five generated segments of `anneal_puso` composed in source order: each hands the locals the later ones read on
by name (the segment boundaries partition the body: `harness/tie_ext/anneal.py`, CUTS) -/
def anneal_puso_composed {α : Type} (toNum : Rat → α) (ofNum : α → Rat) (c_anneal : Nat → List Nat → List Nat → List α → List α → Int → Int → List Int → Int → Except Err (List (List Int) × List α))
    (H : Obj) (num_anneals : Int) (initial_state : Option (List (Var × Int))) (schedule : Schedule α) (in_order : Bool)
    (seed : Option Int) : Except Err (List Res) :=
  anneal_puso_entry num_anneals schedule >>= fun f => match f with
  | .ret r => .ok r
  | .next Ts => anneal_puso_dispatch H >>= fun d => match d with
    | (N, model, reverse_mapping) =>
      anneal_puso_state N model reverse_mapping num_anneals initial_state >>= fun f => match f with
      | .ret r => .ok r
      | .next init_state => anneal_puso_flatten toNum N model >>= fun a => match a with
        | (nc, terms, cs) =>
          anneal_puso_call ofNum c_anneal N nc terms cs Ts num_anneals in_order init_state seed model reverse_mapping

/-- `anneal_puso` as generated from the source (with the kernel model for the C extension) **is** the model function
`Anneal.annealPuso` the theorems of C11, C12 and C17 are about -/
theorem anneal_puso_eq_model {ρ α : Type} [Add α] [Mul α] [Kernel.OfInt α] (cfg : Cfg ρ α) (rngOf : Int → ρ) (H : Obj)
    (n : Int) (init : Option (List (Var × Int))) (s : Schedule α) (io : Bool) (seed : Option Int) :
    anneal_puso_composed cfg.toNum cfg.ofNum (extPuso cfg.src rngOf) H n init s io seed =
      annealPuso cfg H { numAnneals := n, schedule := s, init := init, inOrder := io, rng := rngOf (seedArg seed) } := by
  rw [annealPuso_eq_segments]
  unfold anneal_puso_composed segmentsPuso
  simp only [anneal_puso_entry_eq_model, anneal_puso_dispatch_eq_model, anneal_puso_state_eq_model,
    anneal_puso_flatten_eq_model, anneal_puso_call_eq_model]
  cases srcEntry n s with
  | error e => rfl
  | ok f =>
    cases f with
    | ret r => rfl
    | next Ts =>
      cases dispatchPuso H with
      | error e => rfl
      | ok d =>
        obtain ⟨N, model, rev⟩ := d
        cases srcState N model rev n init with
        | error e => rfl
        | ok f =>
          cases f with
          | ret r => rfl
          | next st =>
            first
              | rfl
              | (simp only [ok_bind', bind, Except.bind, pure, Except.pure]
                 cases srcFlattenQuso cfg.toNum N model <;> rfl)

end Qv.Gen
