import Qv.Gen.SourceAnneal
import Qv.Proofs.GenEq.AnnealLib
/-!
# GenEq.AnnealPackage — the body generated from `_package_spin_results` equals the model's `package` (C11):
one result per returned state, the state relabelled back through `reverse_mapping`, value = energy + offset, spin flag set
-/
set_option linter.unusedTactic false
set_option linter.unreachableTactic false
set_option linter.unusedSimpArgs false
namespace Qv.Gen
open Qv.Gen.Ann
open Qv Qv.Anneal

theorem ann_mapM_map_eq {β γ δ : Type} (g : β → γ) (f : γ → Except Err δ) : ∀ l : List β,
    (l.map g).mapM f = l.mapM (fun b => f (g b))
  | [] => rfl
  | a :: l => by simp only [List.map_cons, List.mapM_cons, ann_mapM_map_eq g f l]

/-- the model's packaging of one `(state, value)` pair -/
def ann_packItem {α : Type} (ofNum : α → Rat) (rev : List Var) (offset : Rat) (sv : List Int × α) : Except Err Res := do
  let state ← (List.range sv.1.length).mapM (fun k =>
    if k < rev.length then Except.ok (rev.getD k 0, sv.1.getD k 0) else Except.error Err.key)
  pure { state := state, value := ofNum sv.2 + offset, spin := true }

theorem ann_package_eq_mapM {α : Type} (ofNum : α → Rat) (rev : List Var) (offset : Rat) (out : List (List Int × α)) :
    package ofNum rev offset out = out.mapM (ann_packItem ofNum rev offset) := rfl

/-- a loop `for i in range(len(out)): res.append(item(out[i]))` is `mapM item out` -/
theorem ann_index_loop_eq_mapM {β γ : Type} (out : List β) (item : β → Except Err γ)
    (f : List γ → Nat → Except Err (List γ))
    (hf : ∀ res i b, out[i]? = some b → f res i = (item b >>= fun r => Except.ok (res ++ [r]))) :
    ∀ n, n ≤ out.length → (List.range n).foldlM f [] = (out.take n).mapM item
  | 0, _ => by simp [pure, Except.pure]
  | n + 1, hn => by
    have hlt : n < out.length := by omega
    rw [List.range_succ, List.foldlM_append, ann_index_loop_eq_mapM out item f hf n (by omega),
      List.take_succ_eq_append_getElem hlt, List.mapM_append]
    cases h1 : (List.take n out).mapM item with
    | error e => rfl
    | ok res =>
      simp only [List.foldlM_cons, List.foldlM_nil, List.mapM_cons, List.mapM_nil]
      show (f res n >>= fun i => pure i) = _
      rw [hf res n out[n] (by simp [hlt])]
      cases item out[n] <;> rfl

/-- `_package_spin_results(states, values, offset, reverse_mapping)` on what the C extension returns — the states and
the values of the same anneals — is the model's `package` -/
theorem package_spin_results_eq_model {α : Type} (ofNum : α → Rat) (out : List (List Int × α)) (offset : Rat)
    (rev : List Var) :
    package_spin_results ofNum (out.map Prod.fst) (out.map Prod.snd) offset rev = package ofNum rev offset out := by
  unfold package_spin_results
  rw [ann_package_eq_mapM]
  simp only [pyRangeNat_nat, List.length_map, pyForM_eq_foldlM]
  rw [ann_index_loop_eq_mapM out (ann_packItem ofNum rev offset) _ _ out.length (Nat.le_refl _), List.take_length]
  · cases List.mapM (ann_packItem ofNum rev offset) out <;> rfl
  · intro res i sv hi
    have h1 : pyListGet (out.map Prod.fst) i = .ok sv.1 := by simp [pyListGet, List.getElem?_map, hi]
    have h2 : pyListGet (out.map Prod.snd) i = .ok sv.2 := by simp [pyListGet, List.getElem?_map, hi]
    simp only [h1, h2, ok_bind', ann_packItem, pyEnumerate_eq sv.1 0, ann_mapM_map_eq, pyDictOfPairs, pyAddState, pyAnnealResult]
    have hfun : (fun (b : Nat) => (pyRevGet rev b >>= fun (m : Nat) => (Except.ok (m, sv.1.getD b 0) : Except Err (Nat × Int)))) =
        (fun k => if k < rev.length then Except.ok (rev.getD k 0, sv.1.getD k 0) else Except.error Err.key) := by
      funext k
      by_cases hk : k < rev.length
      · simp [pyRevGet, hk, List.getD, List.getElem?_eq_getElem hk] <;> rfl
      · have : rev[k]? = none := List.getElem?_eq_none (by omega)
        simp [pyRevGet, hk, this] <;> rfl
    first
      | (rw [hfun]
         cases List.mapM (fun k => if k < rev.length then Except.ok (rev.getD k 0, sv.1.getD k 0) else Except.error Err.key)
           (List.range sv.1.length) <;> rfl)
      | (simp only [hfun]
         cases List.mapM (fun k => if k < rev.length then Except.ok (rev.getD k 0, sv.1.getD k 0) else Except.error Err.key)
           (List.range sv.1.length) <;> first | rfl | simp_all)

example : package_spin_results (fun (v : Rat) => v) [[1, -1], [-1, -1]] [3, -2] (1/2) [7, 5] =
    .ok [⟨[(7, 1), (5, -1)], 7/2, true⟩, ⟨[(7, -1), (5, -1)], -3/2, true⟩] := by decide +kernel

end Qv.Gen
