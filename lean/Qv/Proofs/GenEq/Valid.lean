import Qv.Gen.SourceValid
import Mathlib.Tactic.SplitIfs
import Mathlib.Algebra.Order.Ring.Rat
/-!
# GenEq.Valid — `PCBO.is_solution_valid`, generated from the source (six `any(v.value(solution) <op> 0 for v in
self._constraints.get(<rel>, []))` blocks), equals the model's `Qv.isValid` (C08, C02)
-/
set_option linter.unusedTactic false
set_option linter.unusedSimpArgs false
namespace Qv.Gen
open Qv

/-- the conjunction the source spells out relation by relation -/
def validBy (c : List (Rel × Poly)) (x : Var → Rat) : Bool :=
  !(List.any (pyConsGet c "eq") (fun v => decide (pyValue v x ≠ 0))) &&
  !(List.any (pyConsGet c "ne") (fun v => decide (pyValue v x = 0))) &&
  !(List.any (pyConsGet c "lt") (fun v => decide (pyValue v x ≥ 0))) &&
  !(List.any (pyConsGet c "le") (fun v => decide (pyValue v x > 0))) &&
  !(List.any (pyConsGet c "gt") (fun v => decide (pyValue v x ≤ 0))) &&
  !(List.any (pyConsGet c "ge") (fun v => decide (pyValue v x < 0)))

theorem dec_le (v : Rat) : decide (0 ≤ v) = !decide (v < 0) := by
  rw [← decide_not, decide_eq_decide]; exact not_lt.symm
theorem dec_lt (v : Rat) : decide (0 < v) = !decide (v ≤ 0) := by
  rw [← decide_not, decide_eq_decide]; exact not_le.symm
theorem dec_le' (v : Rat) : decide (v ≤ 0) = !decide (0 < v) := by
  rw [← decide_not, decide_eq_decide]; exact not_lt.symm
theorem dec_lt' (v : Rat) : decide (v < 0) = !decide (0 ≤ v) := by
  rw [← decide_not, decide_eq_decide]; exact not_le.symm

theorem any_consGet_cons (rel : Rel) (p : Poly) (r : List (Rel × Poly)) (name : String) (f : Poly → Bool) :
    List.any (pyConsGet ((rel, p) :: r) name) f =
      ((decide (pyRelName rel = name) && f p) || List.any (pyConsGet r name) f) := by
  unfold pyConsGet
  simp only [List.filterMap_cons]
  split_ifs with h <;> simp [h]

theorem validBy_eq_all (x : Var → Rat) : ∀ (c : List (Rel × Poly)),
    validBy c x = c.all (fun e => e.1.holds (eval x e.2)) := by
  intro c
  induction c with
  | nil => rfl
  | cons e r ih =>
    obtain ⟨rel, p⟩ := e
    rw [List.all_cons, ← ih]
    simp only [validBy, any_consGet_cons]
    generalize List.any (pyConsGet r "eq") _ = a1
    generalize List.any (pyConsGet r "ne") _ = a2
    generalize List.any (pyConsGet r "lt") _ = a3
    generalize List.any (pyConsGet r "le") _ = a4
    generalize List.any (pyConsGet r "gt") _ = a5
    generalize List.any (pyConsGet r "ge") _ = a6
    cases rel <;> simp [pyRelName, pyValue, Rel.holds] <;>
      cases a1 <;> cases a2 <;> cases a3 <;> cases a4 <;> cases a5 <;> cases a6 <;> simp <;>
      first | rfl | exact dec_le _ | exact dec_lt _ | exact dec_le' _ | exact dec_lt' _ | exact decide_not

/-- **`is_solution_valid`** is true exactly when every recorded constraint holds at the solution: the generated body
equals the model's `isValid` on the model's constraint list -/
theorem is_solution_valid_eq_model (s : St) (x : Var → Rat) : is_solution_valid s.cons x = isValid s x := by
  unfold isValid
  rw [← validBy_eq_all]
  unfold is_solution_valid validBy
  simp only []
  split_ifs <;> simp_all

end Qv.Gen
