import Qv.Proofs.GenEq.Problems7Ops
/-!
# GenEq.Problems8Lib — sorted duplicate-free lists as sets (for the `set.add` loops of `JobSequencing`, C10): extensionality,
membership in `insertU`, insertion order does not matter
-/
set_option linter.unusedTactic false
set_option linter.unreachableTactic false
set_option linter.unusedSimpArgs false
set_option linter.unusedVariables false
namespace Qv.Gen
open Qv Qv.Prob

theorem pb2_pairwise_of_ssorted : ∀ {l : List Var}, SSorted l → l.Pairwise (· < ·)
  | [], _ => List.Pairwise.nil
  | [a], _ => List.pairwise_singleton _ _
  | a :: b :: r, h => by
    have hr := pb2_pairwise_of_ssorted (l := b :: r) h.2
    refine List.pairwise_cons.2 ⟨?_, hr⟩
    intro c hc
    rcases List.mem_cons.1 hc with rfl | hc
    · exact h.1
    · exact Nat.lt_trans h.1 ((List.pairwise_cons.1 hr).1 c hc)

theorem pb2_pairwise_ext : ∀ (a b : List Var), a.Pairwise (· < ·) → b.Pairwise (· < ·) → (∀ x, x ∈ a ↔ x ∈ b) → a = b
  | [], [], _, _, _ => rfl
  | [], y :: ys, _, _, h => absurd ((h y).2 (List.mem_cons_self ..)) (List.not_mem_nil)
  | x :: xs, [], _, _, h => absurd ((h x).1 (List.mem_cons_self ..)) (List.not_mem_nil)
  | x :: xs, y :: ys, ha, hb, h => by
    have ha' := List.pairwise_cons.1 ha
    have hb' := List.pairwise_cons.1 hb
    have hxy : x = y := by
      rcases List.mem_cons.1 ((h x).1 (List.mem_cons_self ..)) with h1 | h1
      · exact h1
      · rcases List.mem_cons.1 ((h y).2 (List.mem_cons_self ..)) with h2 | h2
        · exact h2.symm
        · have t1 : (y : Nat) < x := hb'.1 x h1
          have t2 : (x : Nat) < y := ha'.1 y h2
          exact absurd (Nat.lt_trans t1 t2) (Nat.lt_irrefl _)
    subst hxy
    congr 1
    apply pb2_pairwise_ext xs ys ha'.2 hb'.2
    intro z
    constructor
    · intro hz
      rcases List.mem_cons.1 ((h z).1 (List.mem_cons_of_mem _ hz)) with h1 | h1
      · have t1 : (x : Nat) < z := ha'.1 z hz
        rw [h1] at t1
        exact absurd t1 (Nat.lt_irrefl _)
      · exact h1
    · intro hz
      rcases List.mem_cons.1 ((h z).2 (List.mem_cons_of_mem _ hz)) with h1 | h1
      · have t1 : (x : Nat) < z := hb'.1 z hz
        rw [h1] at t1
        exact absurd t1 (Nat.lt_irrefl _)
      · exact h1

theorem pb2_ssorted_ext {a b : List Var} (ha : SSorted a) (hb : SSorted b) (h : ∀ x, x ∈ a ↔ x ∈ b) : a = b :=
  pb2_pairwise_ext a b (pb2_pairwise_of_ssorted ha) (pb2_pairwise_of_ssorted hb) h

theorem pb2_mem_insertU (a i : Var) (l : List Var) : i ∈ insertU a l ↔ i = a ∨ i ∈ l := by
  induction l with
  | nil => simp [insertU]
  | cons b r ih =>
    unfold insertU
    split
    · simp
    · split
      · rename_i h1 h2
        subst h2
        simp
      · simp only [List.mem_cons, ih]
        constructor
        · rintro (h | h | h)
          · exact Or.inr (Or.inl h)
          · exact Or.inl h
          · exact Or.inr (Or.inr h)
        · rintro (h | h | h)
          · exact Or.inr (Or.inl h)
          · exact Or.inl h
          · exact Or.inr (Or.inr h)

/-- the elements of `r` added to the set `acc` -/
def pb2_union (acc r : List Var) : List Var := r.foldr insertU acc

theorem pb2_union_sorted (acc r : List Var) (h : SSorted acc) : SSorted (pb2_union acc r) := by
  induction r with
  | nil => exact h
  | cons a t ih => exact (insertU_sorted a ih).1

theorem pb2_mem_union (acc r : List Var) (i : Var) : i ∈ pb2_union acc r ↔ i ∈ r ∨ i ∈ acc := by
  induction r with
  | nil => simp [pb2_union]
  | cons a t ih =>
    have : pb2_union acc (a :: t) = insertU a (pb2_union acc t) := rfl
    rw [this, pb2_mem_insertU, ih]
    simp only [List.mem_cons]
    constructor
    · rintro (h | h | h)
      · exact Or.inl (Or.inl h)
      · exact Or.inl (Or.inr h)
      · exact Or.inr h
    · rintro ((h | h) | h)
      · exact Or.inl h
      · exact Or.inr (Or.inl h)
      · exact Or.inr (Or.inr h)

theorem pb2_union_insert (acc r : List Var) (j : Var) (ha : SSorted acc) (hr : SSorted r) :
    pb2_union (insertU j acc) r = pb2_union acc (insertU j r) := by
  apply pb2_ssorted_ext (pb2_union_sorted _ _ (insertU_sorted j ha).1) (pb2_union_sorted _ _ ha)
  intro x
  simp only [pb2_mem_union, pb2_mem_insertU]
  constructor
  · rintro (h | h | h)
    · exact Or.inl (Or.inr h)
    · exact Or.inl (Or.inl h)
    · exact Or.inr h
  · rintro ((h | h) | h)
    · exact Or.inr (Or.inl h)
    · exact Or.inl h
    · exact Or.inr (Or.inr h)

end Qv.Gen
