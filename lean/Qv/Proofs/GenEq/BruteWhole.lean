import Qv.Gen.SourceBruteWhole
import Qv.Proofs.GenEq.PyList
import Qv.Proofs.BruteEntry
import Mathlib.Tactic.Ring
/-!
# GenEq.BruteWhole — `_solve_bruteforce` generated from the source as a WHOLE function, its four public wrappers and the
`solve_bruteforce` methods of the four Matrix classes equal the model's `Brute.solveCore` / `solve` / `solveMethod` (C09)

Covered by the generated text (and therefore by these equalities): the empty / constant shortcuts with the pop and
re-insert of the offset, the `try … except AttributeError` choice between the bookkeeping and the key scan, the
`itertools.product` enumeration with its domain, the dict comprehension that builds each assignment, the `valid` filter, the
update rule, the final result shape, the `(spin, value)` pair each wrapper passes and the `[1]` the methods keep.

The iteration order of the Python set in the key scan is the parameter `ord : PySetOrder`; the model's `order` argument
is instantiated with `scanOrder ord D`, which `scanOrder_setOrder` shows to be a `SetOrder` of `D`'s keys — the
hypothesis under which the C09 entry-point theorems (`free_on_dict`, `free_on_matrix`, `method_on_matrix`) are stated.
-/
set_option linter.unusedTactic false
set_option linter.unreachableTactic false
set_option linter.unusedSimpArgs false
set_option linter.unusedVariables false
namespace Qv.Gen
open Qv Qv.Brute

/-! ## sets -/

theorem mem_foldl_add (k acc : List Var) (i : Var) : i ∈ k.foldl pyUSetAdd acc ↔ i ∈ acc ∨ i ∈ k := by
  induction k generalizing acc with
  | nil => simp
  | cons j r ih =>
    rw [List.foldl_cons, ih]
    unfold pyUSetAdd
    by_cases hj : acc.contains j = true
    · have : j ∈ acc := by simpa using hj
      simp only [hj, if_true, List.mem_cons]
      constructor
      · rintro (h | h)
        · exact Or.inl h
        · exact Or.inr (Or.inr h)
      · rintro (h | rfl | h)
        · exact Or.inl h
        · exact Or.inl this
        · exact Or.inr h
    · simp only [hj, if_false, List.mem_append, List.mem_singleton, List.mem_cons, Bool.false_eq_true]
      tauto

theorem foldl_add_dedup (x pre acc : List Var) :
    (x.foldl pyUSetAdd pre).foldl pyUSetAdd acc = x.foldl pyUSetAdd (pre.foldl pyUSetAdd acc) := by
  induction x generalizing pre with
  | nil => rfl
  | cons j r ih =>
    rw [List.foldl_cons, ih, List.foldl_cons]
    congr 1
    by_cases hj : pre.contains j = true
    · have hm : j ∈ pre.foldl pyUSetAdd acc := (mem_foldl_add pre acc j).mpr (Or.inr (by simpa using hj))
      have hc : (pre.foldl pyUSetAdd acc).contains j = true := by simpa using hm
      simp only [pyUSetAdd, hj, if_true, hc]
    · simp only [pyUSetAdd, hj, if_false, List.foldl_append, List.foldl_cons, List.foldl_nil, Bool.false_eq_true]

/-- `var.update(set(x))` adds the labels of `x` in order of first appearance -/
theorem pySetUpdate_ofList (acc x : List Var) :
    pySetUpdate acc (pySetOfList x) = x.foldl (fun a i => if a.contains i then a else a ++ [i]) acc := by
  unfold pySetUpdate pySetOfList
  rw [foldl_add_dedup]; rfl

/-- a `for` loop whose body cannot raise is a fold -/
theorem pyForM_pure {α σ : Type} (f : σ → α → σ) (body : σ → α → Except Err σ) (hb : ∀ s a, body s a = .ok (f s a)) :
    ∀ (l : List α) (s : σ), pyForM l s body = .ok (l.foldl f s) := by
  intro l
  induction l with
  | nil => intro s; rfl
  | cons a r ih => intro s; simp only [pyForM, hb, ok_bind', ih, List.foldl_cons]

/-- the key scan `var = set(); for x in D: var.update(set(x))` computes the model's `keyLabels` -/
theorem scan_eq_keyLabels (p : Poly) (body : List Var → Key → Except Err (List Var))
    (hb : ∀ s x, body s x = .ok (pySetUpdate s (pySetOfList x))) :
    pyForM (List.map Prod.fst p) pySetEmpty body = .ok (keyLabels p) := by
  rw [pyForM_pure (fun s x => pySetUpdate s (pySetOfList x)) body hb]
  unfold keyLabels pySetEmpty
  rw [List.foldl_map]
  simp only [pySetUpdate_ofList]

/-! ## dicts -/

theorem pyDictGetItem_eq_rmLookup (rm : List (Nat × Var)) (i : Nat) : pyDictGetItem rm i = rmLookup rm i := by
  induction rm with
  | nil => rfl
  | cons a r ih => obtain ⟨j, l⟩ := a; simp only [pyDictGetItem, rmLookup, ih]

theorem pyDictPut_eq_aput (x : Assign) (i : Var) (v : Rat) : pyDictPut x i v = Brute.aput x i v := by
  induction x with
  | nil => rfl
  | cons a r ih => obtain ⟨j, w⟩ := a; simp only [pyDictPut, Brute.aput, ih]

theorem pyDictGetItem_eq_lookupA (m : AllSols) (k : Option Rat) :
    pyDictGetItem m k = match lookupA m k with | some l => .ok l | none => .error .key := by
  induction m with
  | nil => rfl
  | cons a r ih =>
    obtain ⟨k', l⟩ := a
    simp only [pyDictGetItem, lookupA, ih]
    split_ifs <;> rfl

theorem pyDictPut_fresh {α : Type} (d : List (Nat × α)) (k : Nat) (v : α) (h : ∀ p ∈ d, p.1 ≠ k) :
    pyDictPut d k v = d ++ [(k, v)] := by
  induction d with
  | nil => rfl
  | cons a r ih =>
    obtain ⟨j, w⟩ := a
    have hj : j ≠ k := h (j, w) List.mem_cons_self
    simp only [pyDictPut, hj, if_false, List.cons_append]
    rw [ih (fun p hp => h p (List.mem_cons_of_mem _ hp))]

theorem enumFrom_keys {α : Type} (l : List α) (n : Nat) : ∀ p ∈ pyEnumFrom n l, n ≤ p.1 := by
  induction l generalizing n with
  | nil => intro p hp; cases hp
  | cons a r ih =>
    intro p hp
    rcases List.mem_cons.mp hp with rfl | hp
    · exact Nat.le_refl _
    · exact Nat.le_of_succ_le (ih (n + 1) p hp)

theorem dictOfPairs_enumFrom {α : Type} (l : List α) : ∀ (n : Nat) (d : List (Nat × α)), (∀ p ∈ d, p.1 < n) →
    (pyEnumFrom n l).foldl (fun d p => pyDictPut d p.1 p.2) d = d ++ pyEnumFrom n l := by
  induction l with
  | nil => intro n d _; simp [pyEnumFrom]
  | cons a r ih =>
    intro n d hd
    simp only [pyEnumFrom, List.foldl_cons]
    rw [pyDictPut_fresh d n a (fun p hp => Nat.ne_of_lt (hd p hp))]
    rw [ih (n + 1) (d ++ [(n, a)])]
    · simp
    · intro p hp
      rcases List.mem_append.mp hp with hp | hp
      · exact Nat.lt_succ_of_lt (hd p hp)
      · simp only [List.mem_singleton] at hp; subst hp; exact Nat.lt_succ_self _

/-- `dict(enumerate(l))` is the enumeration itself (its keys are distinct) -/
theorem pyDictOfPairs_enumerate {α : Type} (l : List α) : pyUDictOfPairs (pyUEnumerate l) = pyUEnumerate l := by
  unfold pyUDictOfPairs pyUEnumerate
  rw [dictOfPairs_enumFrom l 0 [] (fun p hp => by cases hp)]; rfl

theorem getItem_append_fresh (pre post : List (Nat × Var)) (i : Nat) (h : ∀ p ∈ pre, p.1 ≠ i) :
    pyDictGetItem (pre ++ post) i = pyDictGetItem post i := by
  induction pre with
  | nil => rfl
  | cons a r ih =>
    obtain ⟨j, w⟩ := a
    have hj : j ≠ i := h (j, w) List.mem_cons_self
    simp only [List.cons_append, pyDictGetItem, hj, if_false]
    exact ih (fun p hp => h p (List.mem_cons_of_mem _ hp))

theorem mapM_enumFrom (l : List Var) : ∀ (n : Nat) (pre : List (Nat × Var)), (∀ p ∈ pre, p.1 < n) →
    (List.range' n l.length).mapM (pyDictGetItem (pre ++ pyEnumFrom n l)) = .ok l := by
  induction l with
  | nil => intro n pre _; rfl
  | cons a r ih =>
    intro n pre hp
    simp only [List.length_cons, List.range'_succ, List.mapM_cons]
    rw [getItem_append_fresh pre _ n (fun p h => Nat.ne_of_lt (hp p h))]
    simp only [pyEnumFrom, pyDictGetItem, if_true]
    have h2 : pre ++ (n, a) :: pyEnumFrom (n + 1) r = (pre ++ [(n, a)]) ++ pyEnumFrom (n + 1) r := by simp
    rw [h2, ih (n + 1) (pre ++ [(n, a)])]
    · rfl
    · intro p hp'
      rcases List.mem_append.mp hp' with hp' | hp'
      · exact Nat.lt_succ_of_lt (hp p hp')
      · simp only [List.mem_singleton] at hp'; subst hp'; exact Nat.lt_succ_self _

/-- reading `mapping[0], …, mapping[N-1]` of `mapping = dict(enumerate(l))`, `N = len(l)`, gives `l` back -/
theorem mapM_enumerate (l : List Var) :
    (List.range l.length).mapM (rmLookup (pyUEnumerate l)) = .ok l := by
  have h := mapM_enumFrom l 0 [] (fun p hp => by cases hp)
  simp only [List.nil_append] at h
  rw [List.range_eq_range']
  have : (rmLookup (pyUEnumerate l)) = pyDictGetItem (pyEnumFrom 0 l) := by
    funext i; exact (pyDictGetItem_eq_rmLookup _ i).symm
  rw [this]; exact h

/-! ## the dict comprehension `{mapping[i]: v for i, v in enumerate(test_sol)}` -/

theorem dictcomp_from (mapping : List (Nat × Var)) (f : Assign → Nat × Rat → Except Err Assign)
    (hf : ∀ d it, f d it = (pyDictGetItem mapping it.1 >>= fun k => .ok (pyDictPut d k it.2))) :
    ∀ (t : List Rat) (n : Nat) (d : Assign),
      pyForM (pyEnumFrom n t) d f =
        ((List.range' n t.length).mapM (rmLookup mapping) >>= fun vs =>
          .ok ((vs.zip t).foldl (fun x p => Brute.aput x p.1 p.2) d)) := by
  intro t
  induction t with
  | nil => intro n d; rfl
  | cons a r ih =>
    intro n d
    simp only [pyEnumFrom, pyForM, hf, List.length_cons, List.range'_succ, List.mapM_cons, pyDictGetItem_eq_rmLookup]
    cases h : rmLookup mapping n with
    | error e => rfl
    | ok k =>
      simp only [ok_bind', bind_assoc', ih, pyDictPut_eq_aput]
      cases (List.range' (n + 1) r.length).mapM (rmLookup mapping) with
      | error e => rfl
      | ok ks => rfl

/-- for a tuple of `N` values the comprehension looks up `mapping[0..N-1]` (first `KeyError` wins) and builds the
model's `mkAssign` -/
theorem dictcomp_eq (mapping : List (Nat × Var)) (f : Assign → Nat × Rat → Except Err Assign)
    (hf : ∀ d it, f d it = (pyDictGetItem mapping it.1 >>= fun k => .ok (pyDictPut d k it.2)))
    (t : List Rat) :
    pyForM (pyUEnumerate t) ([] : Assign) f =
      ((List.range t.length).mapM (rmLookup mapping) >>= fun vs => .ok (mkAssign vs t)) := by
  unfold pyUEnumerate mkAssign
  rw [dictcomp_from mapping f hf t 0 [], List.range_eq_range']

/-! ## the enumeration loop -/

theorem pyProduct_eq_product (dom : List Rat) (n : Nat) : pyProduct dom n = product dom n := by
  induction n with
  | zero => rfl
  | succ n ih => simp only [pyProduct, product, ih]

theorem product_ne_nil {dom : List Rat} (hd : dom ≠ []) (n : Nat) : product dom n ≠ [] := by
  induction n with
  | zero => simp [product]
  | succ n ih =>
    cases dom with
    | nil => exact absurd rfl hd
    | cons a r =>
      cases hp : product (a :: r) n with
      | nil => exact absurd hp ih
      | cons t ts => simp [product, hp]

theorem domOf_ne_nil (spin : Bool) : domOf spin ≠ [] := by cases spin <;> simp [domOf]

/-- the loop state `(best, all_sols)` of the generated code as the model's `St` -/
def toSt (a : (Option Rat × Assign) × AllSols) : Brute.St := ⟨a.1.1, a.1.2, a.2⟩
def ofSt (s : Brute.St) : (Option Rat × Assign) × AllSols := ((s.bestV, s.bestX), s.allSols)

/-- one iteration of the model's loop on the already built assignment -/
def stepM (value : Assign → Except Err Rat) (allS : Bool) (valid : Assign → Bool) (vars : List Var)
    (a : (Option Rat × Assign) × AllSols) (t : List Rat) : Except Err ((Option Rat × Assign) × AllSols) :=
  if valid (mkAssign vars t) = true then
    value (mkAssign vars t) >>= fun v => .ok (ofSt (update allS (toSt a) (mkAssign vars t) v))
  else .ok a

theorem loop_stepM (value : Assign → Except Err Rat) (allS : Bool) (valid : Assign → Bool) (vars : List Var) :
    ∀ (L : List (List Rat)) (a : (Option Rat × Assign) × AllSols),
      pyForM L a (stepM value allS valid vars) =
        (loopM value allS valid (L.map (mkAssign vars)) (toSt a)).map ofSt := by
  intro L
  induction L with
  | nil => intro a; rfl
  | cons t r ih =>
    intro a
    simp only [pyForM, stepM, List.map_cons, loopM]
    by_cases hv : valid (mkAssign vars t) = true
    · simp only [hv, if_true, bind_assoc']
      cases value (mkAssign vars t) with
      | error e => rfl
      | ok v => simp only [ok_bind', ih]; rfl
    · simp only [hv, if_false, ok_bind', ih, Bool.false_eq_true]

theorem pyForM_congrU {α σ : Type} (f g : σ → α → Except Err σ) (l : List α) (h : ∀ s, ∀ a ∈ l, f s a = g s a) :
    ∀ s, pyForM l s f = pyForM l s g := by
  induction l with
  | nil => intro s; rfl
  | cons a r ih =>
    intro s
    simp only [pyForM, h s a List.mem_cons_self]
    cases g s a with
    | error e => rfl
    | ok s' => exact ih (fun s b hb => h s b (List.mem_cons_of_mem _ hb)) s'

/-- **the enumeration loop**: if every iteration first reads `mapping[0..N-1]` and then does the model's step, the
loop over `itertools.product(dom, repeat=N)` is the model's "compute the variable list, then `loopM`" -/
theorem main_loop (value : Assign → Except Err Rat) (allS : Bool) (valid : Assign → Bool) (mapping : List (Nat × Var))
    (N : Nat) (dom : List Rat) (hd : dom ≠ [])
    (body : (Option Rat × Assign) × AllSols → List Rat → Except Err ((Option Rat × Assign) × AllSols))
    (hbody : ∀ a t, t.length = N → body a t =
      ((List.range N).mapM (rmLookup mapping) >>= fun vars => stepM value allS valid vars a t))
    (a : (Option Rat × Assign) × AllSols) :
    pyForM (pyProduct dom N) a body =
      ((List.range N).mapM (rmLookup mapping) >>= fun vars =>
        (loopM value allS valid ((product dom N).map (mkAssign vars)) (toSt a)).map ofSt) := by
  rw [pyProduct_eq_product]
  have hlen : ∀ t ∈ product dom N, t.length = N := fun t ht => (mem_product.mp ht).1
  cases hm : (List.range N).mapM (rmLookup mapping) with
  | error e =>
    cases hp : product dom N with
    | nil => exact absurd hp (product_ne_nil hd N)
    | cons t ts =>
      have ht : t.length = N := hlen t (by rw [hp]; exact List.mem_cons_self)
      simp only [pyForM, hbody a t ht, hm, error_bind']
  | ok vars =>
    simp only [ok_bind']
    rw [← loop_stepM]
    apply pyForM_congrU
    intro s t ht
    rw [hbody s t (hlen t ht), hm]; rfl

/-! ## the whole function -/

/-- the items of `D` at the moment the variables are collected (after the offset was popped and re-inserted) -/
def scanTerms (D : Brute.Model) : Poly :=
  if hasKey D.terms [] then store D.kind (erase D.terms []) [] (get D.terms []) else D.terms

/-- the iteration order of the Python set `var` of the key scan, under the hash order `ord` -/
def scanOrder (ord : PySetOrder) (D : Brute.Model) : List Var := ord.iter (keyLabels (scanTerms D))

/-- the model's result record as the pair the generated function returns: the Python result, and the object `D` afterwards -/
def outOfBW (D : Brute.Model) (o : Out) : (Option Rat × Brute.Sol) × Brute.Model := ((o.obj, o.sol), { D with terms := o.after })

theorem vars_of_book (D : Brute.Model) (ord : PySetOrder) (b : Book) (hb : D.book = some b) (order : List Var) :
    D.vars order = (List.range b.n).mapM (rmLookup b.rm) := by
  simp [Model.vars, hb]

theorem mapM_ok_length {α β : Type} (f : α → Except Err β) : ∀ (l : List α) (vs : List β),
    l.mapM f = .ok vs → vs.length = l.length := by
  intro l
  induction l with
  | nil => intro vs h; simp only [List.mapM_nil] at h; cases h; rfl
  | cons a r ih =>
    intro vs h
    simp only [List.mapM_cons] at h
    cases ha : f a with
    | error e => rw [ha] at h; cases h
    | ok b =>
      rw [ha] at h
      cases hr : r.mapM f with
      | error e => rw [hr] at h; cases h
      | ok bs =>
        rw [hr] at h
        cases h
        simp [ih bs hr]

theorem sdAppend_eq (m : AllSols) (k : Option Rat) (x : Assign) : pySetdefaultAppend m k x = sdAppend m k x := by
  induction m with
  | nil => rfl
  | cons a r ih => obtain ⟨k', l⟩ := a; simp only [pySetdefaultAppend, sdAppend, ih]

/-- closes the tail once the `try` block has been evaluated to `(N, mapping)` with
`hvars : (List.range N).mapM (rmLookup mapping) = D'.vars order` -/
macro "brute_tail" D:ident hvars:ident allS:ident valid:ident value:ident spin:ident : tactic => `(tactic| (
  rw [main_loop (fun x => $value x (Brute.Model.terms $D)) $allS $valid _ _ _ (by cases $spin:ident <;> simp)]
  · rw [$hvars:ident]
    cases hv : Brute.Model.vars $D _ with
    | error e => rfl
    | ok vars =>
      have hlen := mapM_ok_length _ _ _ ($hvars:ident ▸ hv)
      simp only [List.length_range] at hlen
      subst hlen
      simp only [ok_bind', enumerate, domOf]
      cases hl : loopM (fun x => $value x (Brute.Model.terms $D)) $allS $valid
          (List.map (mkAssign vars) (product (if $spin = true then [1, -1] else [0, 1]) vars.length)) St.init with
      | error e =>
        first
        | (simp only [toSt, St.init] at hl ⊢; rw [hl]; rfl)
        | (simp_all [toSt, St.init, Except.map, bind, Except.bind]; done)
      | ok st =>
        have hl' : loopM (fun x => $value x (Brute.Model.terms $D)) $allS $valid
            (List.map (mkAssign vars) (product (if $spin = true then [1, -1] else [0, 1]) vars.length))
            (toSt ((none, []), [(none, [[]])])) = .ok st := hl
        rw [hl']
        simp only [Except.map, ok_bind', ofSt, pyDictGetItem_eq_lookupA]
        cases $allS:ident <;> first
          | rfl
          | (cases lookupA st.allSols st.bestV <;> rfl)
          | (simp <;> cases lookupA st.allSols st.bestV <;> rfl)
  · intro a t ht
    rw [dictcomp_eq _ _ (fun _ _ => rfl), ht]
    simp only [bind_assoc', ok_bind']
    apply bind_congr'
    intro vars _
    simp only [stepM]
    by_cases hval : $valid (mkAssign vars t) = true
    · simp only [hval, if_true, Bool.true_eq_false, if_false, reduceCtorEq]
      apply bind_congr'
      intro v _
      obtain ⟨⟨bv, bx⟩, as⟩ := a
      simp only [toSt, ofSt, update, sdAppend_eq]
      cases $allS:ident <;> cases bv <;> simp [leBest, ltBest] <;> split_ifs <;> simp_all <;>
        first
        | done
        | (exfalso; exact lt_asymm ‹_ < _› ‹_ < _›)
        | (exfalso; exact absurd (le_of_lt ‹_ < _›) (not_le.mpr ‹_ < _›))
        | grind
    · have hval' : $valid (mkAssign vars t) = false := by simpa using hval
      simp [hval']))

/-! ### the shape "labels computed once before the loop": `labels = [mapping[i] for i in range(N)]`, then
`x = dict(zip(labels, test_sol))` in every iteration (no per-iteration lookups) -/

theorem dictOfZip_eq_mkAssign (vars : List Var) (t : List Rat) : pyUDictOfPairs (List.zip vars t) = mkAssign vars t := by
  unfold pyUDictOfPairs mkAssign
  congr
  funext x p
  exact pyDictPut_eq_aput _ _ _

theorem labels_mapM (mp : List (Nat × Var)) (n : Nat) :
    List.mapM (fun (i : Nat) => (pyDictGetItem mp i >>= fun (m : Var) => (Except.ok m : Except Err Var)))
      (pyRangeNat (Nat.cast n : Int)) = (List.range n).mapM (rmLookup mp) := by
  simp only [bind_ok_self, pyRangeNat, Int.toNat_natCast]
  congr
  funext i
  exact pyDictGetItem_eq_rmLookup mp i

theorem main_loop_labels (value : Assign → Except Err Rat) (allS : Bool) (valid : Assign → Bool) (vars : List Var)
    (L : List (List Rat))
    (body : (Option Rat × Assign) × AllSols → List Rat → Except Err ((Option Rat × Assign) × AllSols))
    (hbody : ∀ a t, body a t = stepM value allS valid vars a t) (a : (Option Rat × Assign) × AllSols) :
    pyForM L a body = (loopM value allS valid (L.map (mkAssign vars)) (toSt a)).map ofSt := by
  rw [← loop_stepM]
  exact pyForM_congrU _ _ _ (fun s t _ => hbody s t) a

/-- as `brute_tail`, for the shape with the labels computed once before the loop -/
macro "brute_tail_labels" D:ident hvars:ident allS:ident valid:ident value:ident spin:ident : tactic => `(tactic| (
  simp only [labels_mapM]
  rw [$hvars:ident]
  cases hv : Brute.Model.vars $D _ with
  | error e => rfl
  | ok vars =>
    have hlen := mapM_ok_length _ _ _ ($hvars:ident ▸ hv)
    simp only [List.length_range] at hlen
    subst hlen
    simp only [ok_bind', enumerate, domOf, pyProduct_eq_product]
    rw [main_loop_labels (fun x => $value x (Brute.Model.terms $D)) $allS $valid vars]
    · cases hl : loopM (fun x => $value x (Brute.Model.terms $D)) $allS $valid
          (List.map (mkAssign vars) (product (if $spin = true then [1, -1] else [0, 1]) vars.length)) St.init with
      | error e =>
        first
        | (simp only [toSt, St.init] at hl ⊢; rw [hl]; rfl)
        | (simp_all [toSt, St.init, Except.map, bind, Except.bind]; done)
      | ok st =>
        have hl' : loopM (fun x => $value x (Brute.Model.terms $D)) $allS $valid
            (List.map (mkAssign vars) (product (if $spin = true then [1, -1] else [0, 1]) vars.length))
            (toSt ((none, []), [(none, [[]])])) = .ok st := hl
        rw [hl']
        simp only [Except.map, ok_bind', ofSt, pyDictGetItem_eq_lookupA]
        cases $allS:ident <;> first
          | rfl
          | (cases lookupA st.allSols st.bestV <;> rfl)
          | (simp <;> cases lookupA st.allSols st.bestV <;> rfl)
    · intro a t
      simp only [dictOfZip_eq_mkAssign, stepM]
      by_cases hval : $valid (mkAssign vars t) = true
      · simp only [hval, if_true, Bool.true_eq_false, if_false, reduceCtorEq]
        apply bind_congr'
        intro v _
        obtain ⟨⟨bv, bx⟩, as⟩ := a
        simp only [toSt, ofSt, update, sdAppend_eq]
        cases $allS:ident <;> cases bv <;> simp [leBest, ltBest] <;> split_ifs <;> simp_all <;>
          first
          | done
          | (exfalso; exact lt_asymm ‹_ < _› ‹_ < _›)
          | (exfalso; exact absurd (le_of_lt ‹_ < _›) (not_le.mpr ‹_ < _›))
          | grind
      · have hval' : $valid (mkAssign vars t) = false := by simpa using hval
        simp [hval']))

theorem solve_bruteforce_whole_eq_model (D : Brute.Model) (allS : Bool) (valid : Assign → Bool) (spin : Bool)
    (value : Assign → Poly → Except Err Rat) (ord : PySetOrder) :
    solve_bruteforce_whole D allS valid spin value ord =
      (solveCore D allS valid spin value (scanOrder ord D)).map (outOfBW D) := by
  unfold solve_bruteforce_whole
  extract_lets
  rename (Brute.Model → Except Err _) => k1
  have tail : ∀ D' : Brute.Model, k1 D' =
      (solveCore.solveMain D' D'.terms allS valid spin value (ord.iter (keyLabels D'.terms))).map (outOfBW D') := by
    intro D'
    simp +zetaDelta only [k1, solveCore.solveMain]
    cases hb : D'.book with
    | none =>
      simp only [pyAttrNumBinaryVariables, pyAttrReverseMapping, hb, error_bind', pyTryExcept, if_true]
      rw [scan_eq_keyLabels _ _ (fun _ _ => rfl)]
      simp only [ok_bind', pyDictOfPairs_enumerate, pySetLen, pySetIter, pyModelItems]
      rw [← (ord.perm (keyLabels D'.terms)).length_eq]
      have hvars : (List.range (ord.iter (keyLabels D'.terms)).length).mapM
          (rmLookup (pyUEnumerate (ord.iter (keyLabels D'.terms)))) = D'.vars (ord.iter (keyLabels D'.terms)) := by
        rw [mapM_enumerate]; simp [Model.vars, hb]
      generalize (ord.iter (keyLabels D'.terms)).length = N at hvars ⊢
      generalize pyUEnumerate (ord.iter (keyLabels D'.terms)) = mapping at hvars ⊢
      first
        | brute_tail D' hvars allS valid value spin
        | brute_tail_labels D' hvars allS valid value spin
    | some b =>
      simp only [pyAttrNumBinaryVariables, pyAttrReverseMapping, hb, ok_bind', pyTryExcept, pyModelItems]
      have hvars : (List.range b.n).mapM (rmLookup b.rm) = D'.vars (ord.iter (keyLabels D'.terms)) := by
        simp [Model.vars, hb]
      generalize b.n = N at hvars ⊢
      generalize b.rm = mapping at hvars ⊢
      first
        | brute_tail D' hvars allS valid value spin
        | brute_tail_labels D' hvars allS valid value spin
  unfold solveCore
  by_cases h0 : D.terms.isEmpty = true
  · simp only [pyModelEmpty, h0, if_true]
    cases allS <;> rfl
  · simp only [pyModelEmpty, h0, if_false, Bool.false_eq_true]
    by_cases h1 : hasKey D.terms [] = true
    · simp only [pyModelHasKey, pyModelPop, h1, if_true, ok_bind']
      by_cases h2 : (erase D.terms []).isEmpty = true
      · simp only [h2, if_true, pyModelSetOffset]
        cases allS <;> rfl
      · simp only [h2, if_false, Bool.false_eq_true, pyModelSetOffset, tail]
        simp only [solveCore.solveMain, Model.vars, scanOrder, scanTerms, h1, if_true]
        rfl
    · simp only [pyModelHasKey, h1, if_false, Bool.false_eq_true, tail]
      simp only [scanOrder, scanTerms, h1, if_false, Bool.false_eq_true]

/-! ## the four public wrappers and the `solve_bruteforce` methods -/

/-- the wrappers pass `(spin, value)` = `(False, pubo_value)`, `(False, qubo_value)`, `(True, puso_value)`,
`(True, quso_value)` and hand every other argument through -/
theorem solve_pubo_bruteforce_eq_model (P : Brute.Model) (allS : Bool) (valid : Assign → Bool) (ord : PySetOrder) :
    solve_pubo_bruteforce P allS valid ord = (solve .pubo P allS valid (scanOrder ord P)).map (outOfBW P) := by
  unfold solve_pubo_bruteforce
  rw [solve_bruteforce_whole_eq_model]
  simp only [solve, pyValueFn, Fn.spin]
  cases solveCore P allS valid _ _ (scanOrder ord P) <;> rfl

theorem solve_qubo_bruteforce_eq_model (Q : Brute.Model) (allS : Bool) (valid : Assign → Bool) (ord : PySetOrder) :
    solve_qubo_bruteforce Q allS valid ord = (solve .qubo Q allS valid (scanOrder ord Q)).map (outOfBW Q) := by
  unfold solve_qubo_bruteforce
  rw [solve_bruteforce_whole_eq_model]
  simp only [solve, pyValueFn, Fn.spin]
  cases solveCore Q allS valid _ _ (scanOrder ord Q) <;> rfl

theorem solve_puso_bruteforce_eq_model (H : Brute.Model) (allS : Bool) (valid : Assign → Bool) (ord : PySetOrder) :
    solve_puso_bruteforce H allS valid ord = (solve .puso H allS valid (scanOrder ord H)).map (outOfBW H) := by
  unfold solve_puso_bruteforce
  rw [solve_bruteforce_whole_eq_model]
  simp only [solve, pyValueFn, Fn.spin]
  cases solveCore H allS valid _ _ (scanOrder ord H) <;> rfl

theorem solve_quso_bruteforce_eq_model (L : Brute.Model) (allS : Bool) (valid : Assign → Bool) (ord : PySetOrder) :
    solve_quso_bruteforce L allS valid ord = (solve .quso L allS valid (scanOrder ord L)).map (outOfBW L) := by
  unfold solve_quso_bruteforce
  rw [solve_bruteforce_whole_eq_model]
  simp only [solve, pyValueFn, Fn.spin]
  cases solveCore L allS valid _ _ (scanOrder ord L) <;> rfl

/-- what a `solve_bruteforce` method returns: element `[1]` of the free function's result; and the object afterwards -/
def methodOut (D : Brute.Model) (o : Out) : Brute.Sol × Brute.Model := (o.sol, { D with terms := o.after })

/-- `PUBOMatrix.solve_bruteforce` (inherited by `PUBO`, `PCBO`): `solve_pubo_bruteforce(self, all_solutions,
self.is_solution_valid)[1]` -/
theorem pubomatrix_solve_bruteforce_eq_model (self : Brute.Model) (allS : Bool) (isv : Assign → Bool) (ord : PySetOrder) :
    pubomatrix_solve_bruteforce self allS isv ord =
      (solve .pubo self allS isv (scanOrder ord self)).map (methodOut self) := by
  unfold pubomatrix_solve_bruteforce
  rw [solve_pubo_bruteforce_eq_model]
  cases solve .pubo self allS isv (scanOrder ord self) <;> rfl

theorem pusomatrix_solve_bruteforce_eq_model (self : Brute.Model) (allS : Bool) (isv : Assign → Bool) (ord : PySetOrder) :
    pusomatrix_solve_bruteforce self allS isv ord =
      (solve .puso self allS isv (scanOrder ord self)).map (methodOut self) := by
  unfold pusomatrix_solve_bruteforce
  rw [solve_puso_bruteforce_eq_model]
  cases solve .puso self allS isv (scanOrder ord self) <;> rfl

theorem qubomatrix_solve_bruteforce_eq_model (self : Brute.Model) (allS : Bool) (isv : Assign → Bool) (ord : PySetOrder) :
    qubomatrix_solve_bruteforce self allS isv ord =
      (solve .qubo self allS isv (scanOrder ord self)).map (methodOut self) := by
  unfold qubomatrix_solve_bruteforce
  rw [solve_qubo_bruteforce_eq_model]
  cases solve .qubo self allS isv (scanOrder ord self) <;> rfl

theorem qusomatrix_solve_bruteforce_eq_model (self : Brute.Model) (allS : Bool) (isv : Assign → Bool) (ord : PySetOrder) :
    qusomatrix_solve_bruteforce self allS isv ord =
      (solve .quso self allS isv (scanOrder ord self)).map (methodOut self) := by
  unfold qusomatrix_solve_bruteforce
  rw [solve_quso_bruteforce_eq_model]
  cases solve .quso self allS isv (scanOrder ord self) <;> rfl

/-- … i.e. the model's `solveMethod` (the function the C09 method theorems are about) -/
theorem methods_eq_solveMethod (self : Brute.Model) (allS : Bool) (isv : Assign → Bool) (ord : PySetOrder) :
    (pubomatrix_solve_bruteforce self allS isv ord).map Prod.fst = solveMethod .pubo self allS isv (scanOrder ord self) ∧
    (pusomatrix_solve_bruteforce self allS isv ord).map Prod.fst = solveMethod .puso self allS isv (scanOrder ord self) ∧
    (qubomatrix_solve_bruteforce self allS isv ord).map Prod.fst = solveMethod .qubo self allS isv (scanOrder ord self) ∧
    (qusomatrix_solve_bruteforce self allS isv ord).map Prod.fst = solveMethod .quso self allS isv (scanOrder ord self) := by
  rw [pubomatrix_solve_bruteforce_eq_model, pusomatrix_solve_bruteforce_eq_model, qubomatrix_solve_bruteforce_eq_model,
    qusomatrix_solve_bruteforce_eq_model]
  unfold solveMethod
  refine ⟨?_, ?_, ?_, ?_⟩ <;> (cases solve _ self allS isv (scanOrder ord self) <;> rfl)

/-! ## bridge to the hypotheses of the C09 theorems -/

theorem labels_erase_nil (p : Poly) (i : Var) : (∃ kv ∈ erase p [], i ∈ kv.1) ↔ ∃ kv ∈ p, i ∈ kv.1 := by
  induction p with
  | nil => simp [erase]
  | cons a r ih =>
    obtain ⟨k, v⟩ := a
    by_cases hk : k = []
    · subst hk; simp [erase]
    · simp only [erase, hk, if_false, List.mem_cons, exists_eq_or_imp, ih]

theorem labels_put_nil (p : Poly) (v : Rat) (i : Var) : (∃ kv ∈ put p [] v, i ∈ kv.1) ↔ ∃ kv ∈ p, i ∈ kv.1 := by
  induction p with
  | nil => simp [put]
  | cons a r ih =>
    obtain ⟨k, w⟩ := a
    by_cases hk : k = []
    · subst hk; simp [put]
    · simp only [put, hk, if_false, List.mem_cons, exists_eq_or_imp, ih]

theorem labels_scanTerms (D : Brute.Model) (i : Var) :
    (∃ kv ∈ scanTerms D, i ∈ kv.1) ↔ ∃ kv ∈ D.terms, i ∈ kv.1 := by
  unfold scanTerms
  split_ifs with h
  · unfold store
    cases D.kind <;> simp only [set] <;> (try split_ifs) <;>
      simp only [labels_put_nil, labels_erase_nil]
  · rfl

/-- **the order the generated function enumerates a scanned dict in is a `SetOrder` of its keys**, for every hash order
`ord` — the hypothesis of `Qv.C09.free_on_dict`, `free_on_matrix`, `method_on_matrix`, `problem_wrapper` -/
theorem scanOrder_setOrder (ord : PySetOrder) (D : Brute.Model) : SetOrder D.terms (scanOrder ord D) := by
  have h := (setOrder_keyLabels (scanTerms D)).perm (ord.perm (keyLabels (scanTerms D)))
  exact ⟨h.1, fun i => (h.2 i).trans (labels_scanTerms D i)⟩

/-! ## non-vacuity: the generated function computes -/

/-- the hash order that lists a set in reverse first-insertion order -/
def revOrder : PySetOrder := ⟨List.reverse, fun s => List.reverse_perm s⟩

example : ((solve_pubo_bruteforce (ofDict [([0, 1], 1), ([1], -2), ([], 3)]) true (fun _ => true) revOrder).map
    (fun r => (r.1, r.2.terms))).toOption =
    some ((some 1, .many [[(1, 1), (0, 0)]]), [([0, 1], 1), ([1], -2), ([], 3)]) := by decide +kernel
example : ((solve_quso_bruteforce ⟨.quso, [([], 2), ([0, 1], 1)], some ⟨2, [(0, 0), (1, 1)]⟩⟩ false (fun _ => true) revOrder).map
    (fun r => (r.1, r.2.terms))).toOption =
    some ((some 1, .one [(0, 1), (1, -1)]), [([0, 1], 1), ([], 2)]) := by decide +kernel
example : ((solve_pubo_bruteforce (ofDict [([0], 1)]) false (fun _ => false) revOrder).map
    (fun r => (r.1, r.2.terms))).toOption = some ((none, .one []), [([0], 1)]) := by decide +kernel

end Qv.Gen
