import Qv.Proofs.ProblemsSCTop
import Qv.Proofs.Unique
/-!
# SetCover: `is_solution_valid` on converted solutions (`covered == U` as sets)
-/
namespace Qv.Prob
open Qv

theorem pset_mem_insertU (a i : Var) (l : Key) : i ∈ insertU a l ↔ i = a ∨ i ∈ l := by
  induction l with
  | nil => simp [insertU]
  | cons b bs ih =>
    unfold insertU
    split
    · simp
    · split
      · rename_i h; subst h; simp
      · simp only [List.mem_cons, ih]
        constructor
        · rintro (h | h | h)
          · exact Or.inr (Or.inl h)
          · exact Or.inl h
          · exact Or.inr (Or.inr h)
        · rintro (h | h | h)
          · exact Or.inr (Or.inl h)
          · exact Or.inl h
          · exact Or.inr (Or.inr h)

theorem pset_mem_squashB (i : Var) (k : Key) : i ∈ squashB k ↔ i ∈ k := by
  induction k with
  | nil => simp [squashB]
  | cons a r ih =>
    show i ∈ insertU a (squashB r) ↔ _
    rw [pset_mem_insertU, ih, List.mem_cons]

/-- two Python sets (sorted duplicate-free lists) are equal iff they have the same members -/
theorem pset_squashB_eq_iff (k k' : Key) : squashB k = squashB k' ↔ ∀ i, i ∈ k ↔ i ∈ k' := by
  constructor
  · intro h i
    rw [← pset_mem_squashB i k, ← pset_mem_squashB i k', h]
  · intro h
    have hs := squashB_sorted k
    have hs' := squashB_sorted k'
    have pm : (squashB k).Perm (squashB k') :=
      (List.perm_ext_iff_of_nodup (ssorted_nodup hs) (ssorted_nodup hs')).mpr
        (fun i => by rw [pset_mem_squashB, pset_mem_squashB, h])
    exact pm.eq_of_pairwise (fun a b _ _ h1 h2 => absurd h1 (Nat.lt_asymm h2))
      (ssorted_pairwise hs) (ssorted_pairwise hs')

/-- **T10.2 (SetCover)** `is_solution_valid` on a converted solution (a set of indices of `V`): the union of the chosen
sets equals `U` as a set -/
theorem sc_validConv_iff (p : SC) (c : List Nat) :
    p.validConv c = true ↔ ∀ a, a ∈ c.flatMap (fun i => p.V.getD i []) ↔ a ∈ p.U := by
  unfold SC.validConv
  rw [beq_iff_eq, pset_squashB_eq_iff]

/-- for a boolean assignment whose chosen sets stay inside `U`: `is_solution_valid` of its decoding ⇔ it is a cover -/
theorem sc_validConv_chosen (p : SC) {x : Var → Rat} (hx : IsBool x)
    (hsub : ∀ v ∈ p.V, ∀ a ∈ v, a ∈ p.U) :
    p.validConv ((List.range p.N).filter (fun i => decide (x i ≠ 0))) = true ↔ p.Covers x := by
  rw [sc_validConv_iff]
  have hx1 : ∀ i, x i ≠ 0 ↔ x i = 1 := fun i => by
    rcases hx i with h | h <;> simp [h]
  constructor
  · intro h a ha
    obtain ⟨i, hi, hai⟩ := List.mem_flatMap.mp ((h a).mpr ha)
    obtain ⟨hiN, hxi⟩ := List.mem_filter.mp hi
    refine ⟨i, ?_, (hx1 i).mp (by simpa using hxi)⟩
    unfold SC.filtered
    exact List.mem_filter.mpr ⟨hiN, by simpa using hai⟩
  · intro h a
    constructor
    · intro ha
      obtain ⟨i, hi, hai⟩ := List.mem_flatMap.mp ha
      have hiN : i < p.V.length := List.mem_range.mp (List.mem_filter.mp hi).1
      have : p.V.getD i [] = p.V[i] := by simp [List.getD, hiN]
      rw [this] at hai
      exact hsub _ (List.getElem_mem hiN) a hai
    · intro ha
      obtain ⟨i, hi, hxi⟩ := h a ha
      unfold SC.filtered at hi
      obtain ⟨hiN, hc⟩ := List.mem_filter.mp hi
      refine List.mem_flatMap.mpr ⟨i, List.mem_filter.mpr ⟨hiN, ?_⟩, by simpa using hc⟩
      simpa using (hx1 i).mpr hxi

end Qv.Prob
