import Qv.Model.Kernel
import Qv.Model.AnnealFront
import Qv.Proofs.Expr
import Mathlib.Tactic.Ring
import Mathlib.Tactic.Linarith
import Mathlib.Algebra.Order.Ring.Rat
/-!
# Helper lemmas for the annealing kernels (C11; reused by C12/C17)

Part A: loop invariants; states stay `±1` lists of length `N`; the result list has `num_anneals` entries.
-/
namespace Qv.Kernel
open Qv

/-! ## loops -/

theorem forFrom_inv {σ : Type} (P : σ → Prop) (body : Nat → σ → σ)
    (hs : ∀ j s, P s → P (body j s)) : ∀ k i s, P s → P (forFrom body i k s)
  | 0, _, _, h => h
  | k + 1, i, s, h => forFrom_inv P body hs k (i + 1) (body i s) (hs i s h)

theorem forN_inv {σ : Type} (P : σ → Prop) (n : Nat) (s : σ) (body : Nat → σ → σ)
    (h0 : P s) (hs : ∀ j s, P s → P (body j s)) : P (forN n s body) :=
  forFrom_inv P body hs n 0 s h0

/-- invariant indexed by the loop counter -/
theorem forFrom_inv_idx {σ : Type} (P : Nat → σ → Prop) (body : Nat → σ → σ) :
    ∀ k i s, P i s → (∀ j s, i ≤ j → j < i + k → P j s → P (j + 1) (body j s)) → P (i + k) (forFrom body i k s)
  | 0, _, _, h, _ => h
  | k + 1, i, s, h, hs => by
    have h1 := hs i s (Nat.le_refl i) (by omega) h
    have := forFrom_inv_idx P body k (i + 1) (body i s) h1 (fun j s hj hj' => hs j s (by omega) (by omega))
    have e : i + 1 + k = i + (k + 1) := by omega
    rw [e] at this
    exact this

theorem foldl_inv {σ β : Type} (P : σ → Prop) (f : σ → β → σ) (hs : ∀ s b, P s → P (f s b)) :
    ∀ (l : List β) (s : σ), P s → P (l.foldl f s)
  | [], _, h => h
  | b :: l, s, h => foldl_inv P f hs l (f s b) (hs s b h)

/-! ## spin lists -/

/-- a C `int` array holding only `1` and `-1` -/
def SpinList (s : List Int) : Prop := ∀ x ∈ s, x = 1 ∨ x = -1

theorem getD_mem {β : Type} {l : List β} {i : Nat} (d : β) (h : i < l.length) : l.getD i d ∈ l := by
  simp only [List.getD, List.getElem?_eq_getElem h, Option.getD_some]
  exact List.getElem_mem h

theorem flipAt_length (s : List Int) (i : Nat) : (flipAt s i).length = s.length := by
  simp [flipAt]

theorem flipAt_spin {s : List Int} (hs : SpinList s) (i : Nat) : SpinList (flipAt s i) := by
  intro x hx
  unfold flipAt at hx
  rcases List.mem_or_eq_of_mem_set hx with h | h
  · exact hs x h
  · by_cases hi : i < s.length
    · have hm : s.getD i 0 ∈ s := getD_mem 0 hi
      rcases hs _ hm with h1 | h1 <;> rw [h, h1] <;> simp
    · have : s.set i (s.getD i 0 * -1) = s := List.set_eq_of_length_le (by omega)
      rw [this] at hx
      exact hs x hx

/-- the property of the sweep state that C11 needs -/
def GoodState (N : Nat) (s : List Int) : Prop := s.length = N ∧ SpinList s

theorem flipAt_good {N : Nat} {s : List Int} (h : GoodState N s) (i : Nat) : GoodState N (flipAt s i) :=
  ⟨by rw [flipAt_length]; exact h.1, flipAt_spin h.2 i⟩

section
variable {α ρ : Type} [Add α] [Mul α] [OfInt α]

theorem qusoStep_good (src : Src ρ α) (q : Quso α) (index : List Nat) (N : Nat) (inOrder : Bool) (T : α)
    (j : Nat) (s : List Int × List α × ρ) (h : GoodState N s.1) :
    GoodState N (qusoStep src q index N inOrder T j s).1 := by
  obtain ⟨st, flip, r⟩ := s
  simp only [qusoStep]
  split_ifs <;> first | exact flipAt_good h _ | exact h

theorem singleAnnealQuso_good (src : Src ρ α) (q : Quso α) (index : List Nat) (N : Nat) (Ts : List α)
    (inOrder : Bool) (state : List Int) (rng : ρ) (h : GoodState N state) :
    GoodState N (singleAnnealQuso src q index N Ts inOrder state rng).1 := by
  unfold singleAnnealQuso
  have := foldl_inv (fun s : List Int × List α × ρ => GoodState N s.1)
    (fun s T => forN N s (qusoStep src q index N inOrder T))
    (fun s T hs => forN_inv (fun s : List Int × List α × ρ => GoodState N s.1) N s _ hs
      (fun j s hs => qusoStep_good src q index N inOrder T j s hs))
    Ts (state, computeFlipDE q index N state, rng) h
  exact this

theorem pusoStep_good (src : Src ρ α) (p : Puso α) (index : List Nat) (sg : List (List Nat)) (N : Nat)
    (inOrder : Bool) (T : α) (j : Nat) (s : List Int × ρ) (h : GoodState N s.1) :
    GoodState N (pusoStep src p index sg N inOrder T j s).1 := by
  obtain ⟨st, r⟩ := s
  simp only [pusoStep]
  split_ifs <;> first | exact flipAt_good h _ | exact h

theorem singleAnnealPuso_good (src : Src ρ α) (p : Puso α) (index : List Nat) (sg : List (List Nat)) (N : Nat)
    (Ts : List α) (inOrder : Bool) (state : List Int) (rng : ρ) (h : GoodState N state) :
    GoodState N (singleAnnealPuso src p index sg N Ts inOrder state rng).1 := by
  unfold singleAnnealPuso
  exact foldl_inv (fun s : List Int × ρ => GoodState N s.1)
    (fun s T => forN N s (pusoStep src p index sg N inOrder T))
    (fun s T hs => forN_inv (fun s : List Int × ρ => GoodState N s.1) N s _ hs
      (fun j s hs => pusoStep_good src p index sg N inOrder T j s hs))
    Ts (state, rng) h

/-- the initial state handed to C by the front end: none, or `N` values in `{1,-1}` -/
def GoodInit (N : Nat) (init : List Int) : Prop := init = [] ∨ GoodState N init

theorem initState_good (src : Src ρ α) (N : Nat) (init : List Int) (rng : ρ) (hi : GoodInit N init) :
    GoodState N (initState src N init rng).1 := by
  unfold initState forN
  have := forFrom_inv_idx (fun j (s : List Int × ρ) => GoodState j s.1)
    (fun j (s : List Int × ρ) =>
      if init.length ≠ 0 then (s.1 ++ [init.getD j 0], s.2)
      else ((s.1 ++ [if (src.coin s.2).2 then 1 else -1], (src.coin s.2).1)))
    N 0 ([], rng) ⟨rfl, by intro x hx; cases hx⟩
    (by
      intro j s _ hj hs
      simp only [Nat.zero_add] at hj
      split
      · rename_i hne
        rcases hi with h0 | ⟨hl, hsp⟩
        · simp [h0] at hne
        · refine ⟨by simp [hs.1], ?_⟩
          intro x hx
          rcases List.mem_append.mp hx with h | h
          · exact hs.2 x h
          · have hjl : j < init.length := by omega
            have : x = init.getD j 0 := by simpa using h
            rw [this]
            exact hsp _ (getD_mem 0 hjl)
      · refine ⟨by simp [hs.1], ?_⟩
        intro x hx
        rcases List.mem_append.mp hx with h | h
        · exact hs.2 x h
        · have : x = if (src.coin s.2).2 then 1 else -1 := by simpa using h
          rw [this]; split <;> simp)
  simpa using this

/-- **length and well-formedness of the kernel output**, for every source, schedule and visiting order -/
theorem annealLoop_spec (src : Src ρ α) (N : Nat) (init : List Int)
    (single : List Int → ρ → List Int × ρ) (value : List Int → α)
    (hsingle : ∀ st r, GoodState N st → GoodState N (single st r).1) (hi : GoodInit N init) :
    ∀ (k : Nat) (rng : ρ),
      (annealLoop src N init single value k rng).length = k ∧
      ∀ sv ∈ annealLoop src N init single value k rng, GoodState N sv.1 ∧ sv.2 = value sv.1
  | 0, _ => by simp [annealLoop]
  | k + 1, rng => by
    have ih := annealLoop_spec src N init single value hsingle hi k
    simp only [annealLoop]
    refine ⟨by simp [(ih _).1], ?_⟩
    intro sv hsv
    rcases List.mem_cons.mp hsv with h | h
    · subst h
      exact ⟨hsingle _ _ (initState_good src N init rng hi), rfl⟩
    · exact (ih _).2 sv h

theorem annealQuso_spec (src : Src ρ α) (q : Quso α) (N : Nat) (Ts : List α) (inOrder : Bool)
    (init : List Int) (k : Nat) (rng : ρ) (hi : GoodInit N init) :
    (annealQuso src q N Ts inOrder init k rng).length = k ∧
    ∀ sv ∈ annealQuso src q N Ts inOrder init k rng,
      GoodState N sv.1 ∧ sv.2 = qusoValueC q (mkIndex q.nn) N sv.1 :=
  annealLoop_spec src N init _ _ (fun st r h => singleAnnealQuso_good src q _ N Ts inOrder st r h) hi k rng

theorem annealPuso_spec (src : Src ρ α) (p : Puso α) (N : Nat) (Ts : List α) (inOrder : Bool)
    (init : List Int) (k : Nat) (rng : ρ) (hi : GoodInit N init) :
    (annealPuso src p N Ts inOrder init k rng).length = k ∧
    ∀ sv ∈ annealPuso src p N Ts inOrder init k rng,
      GoodState N sv.1 ∧ sv.2 = pusoValueC p sv.1 :=
  annealLoop_spec src N init _ _ (fun st r h => singleAnnealPuso_good src p _ _ N Ts inOrder st r h) hi k rng

end

end Qv.Kernel
