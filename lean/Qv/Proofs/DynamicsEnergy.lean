import Qv.Proofs.Dynamics
/-!
# C12, part B — the cached quantity is the model's exact energy difference (T12.1, second half)

* `eval_flip` : flipping one spin of a multilinear polynomial changes the sign of exactly the terms that
  contain it (used for QUSO and PUSO);
* `flattenQuso_sym`, `flattenQuso_field` : the arrays the flattening loop of `anneal_quso` builds store every
  coupling in both adjacency lists, and `s_i (h_i + Σ_j J_ij s_j)` is the value of the terms containing `i`;
* `dESpec_eq_energy` : `-2 s_i (h_i + Σ_j J_ij s_j) = E(flip i s) - E(s)`.
-/
namespace Qv.Kernel
open Qv Qv.Anneal

/-! ## one flipped spin in a multilinear polynomial -/

theorem SSorted.lt_all : ∀ {a : Var} {l : Key}, SSorted (a :: l) → ∀ b ∈ l, a < b
  | _, [], _, _, hb => by cases hb
  | a, c :: r, h, b, hb => by
    rcases List.mem_cons.mp hb with rfl | hb
    · exact h.1
    · exact Nat.lt_trans h.1 (SSorted.lt_all h.2 b hb)

theorem SSorted.nodup : ∀ {l : Key}, SSorted l → l.Nodup
  | [], _ => List.nodup_nil
  | a :: l, h => by
    refine List.nodup_cons.mpr ⟨?_, SSorted.nodup h.tail⟩
    intro ha
    exact Nat.lt_irrefl a (SSorted.lt_all h a ha)

/-- the terms whose key contains label `i` -/
def touching (i : Var) (p : Poly) : Poly := p.filter (fun kv => decide (i ∈ kv.1))

theorem mon_flip (σ σ' : Var → Rat) (i : Var) (hne : ∀ x, x ≠ i → σ' x = σ x) (hi : σ' i = -σ i) :
    ∀ k : Key, k.Nodup → mon σ' k = if i ∈ k then -mon σ k else mon σ k
  | [], _ => by simp
  | a :: r, hnd => by
    obtain ⟨har, hr⟩ := List.nodup_cons.mp hnd
    have ih := mon_flip σ σ' i hne hi r hr
    simp only [mon_cons, ih]
    by_cases hai : a = i
    · subst hai
      simp [har, hi]
    · have hia : ¬ i = a := fun e => hai e.symm
      rw [hne a hai]
      by_cases hir : i ∈ r
      · simp [hir]
      · simp [hir, hia]

/-- **all terms containing `i` change sign, the others do not** -/
theorem eval_flip (σ σ' : Var → Rat) (i : Var) (hne : ∀ x, x ≠ i → σ' x = σ x) (hi : σ' i = -σ i) :
    ∀ p : Poly, (∀ kv ∈ p, kv.1.Nodup) → eval σ' p = eval σ p - 2 * eval σ (touching i p)
  | [], _ => by simp [touching, eval]
  | (k, v) :: r, h => by
    have ih := eval_flip σ σ' i hne hi r (fun kv hkv => h kv (List.mem_cons_of_mem _ hkv))
    have hm := mon_flip σ σ' i hne hi k (h (k, v) List.mem_cons_self)
    simp only [touching] at ih ⊢
    simp only [eval_cons, List.filter_cons, ih, hm]
    by_cases hik : i ∈ k
    · simp only [hik, decide_true, if_true, eval_cons]; ring
    · simp only [hik, decide_false, if_false]
      simp only [Bool.false_eq_true, if_false]
      ring

theorem assign_flipAt_ne (s : List Int) (i : Nat) (hi : i < s.length) (x : Nat) (hx : x ≠ i) :
    assign (flipAt s i) x = assign s x := by
  rw [assign_flipAt s i hi x]; simp [hx]

theorem assign_flipAt_self (s : List Int) (i : Nat) (hi : i < s.length) :
    assign (flipAt s i) i = -assign s i := by
  rw [assign_flipAt s i hi i]; simp; ring

/-! ## the flattening loop of `anneal_quso`: rows after one coupling is stored -/

theorem adj2_getD {β : Type} (adj : List (List β)) (i j : Nat) (hne : i ≠ j) (hi : i < adj.length)
    (hj : j < adj.length) (p q : β) (a : Nat) :
    ((adj.set i (adj.getD i [] ++ [p])).set j ((adj.set i (adj.getD i [] ++ [p])).getD j [] ++ [q])).getD a [] =
      if a = i then adj.getD i [] ++ [p] else if a = j then adj.getD j [] ++ [q] else adj.getD a [] := by
  have hj' : j < (adj.set i (adj.getD i [] ++ [p])).length := by simpa using hj
  by_cases haj : a = j
  · subst haj
    rw [getD_set_self' _ a _ [] hj', getD_set_ne' adj i a _ [] hne]
    have : ¬ a = i := fun e => hne e.symm
    simp [this]
  · rw [getD_set_ne' _ j a _ [] (fun e => haj e.symm)]
    by_cases hai : a = i
    · subst hai
      rw [getD_set_self' adj a _ [] hi]; simp
    · rw [getD_set_ne' adj i a _ [] (fun e => hai e.symm)]; simp [hai, haj]

theorem wt_append (L : List (Nat × Rat)) (p : Nat × Rat) (k : Nat) :
    ((L ++ [p]).map (fun p => if p.1 = k then p.2 else 0)).sum =
      (L.map (fun p => if p.1 = k then p.2 else 0)).sum + if p.1 = k then p.2 else 0 := by
  simp

theorem fieldSum_append (σ : Var → Rat) (L : List (Nat × Rat)) (p : Nat × Rat) :
    fieldSum σ (L ++ [p]) = fieldSum σ L + p.2 * σ p.1 := by
  simp [fieldSum]

/-- the weights after `J[i].append(v); neighbors[i].append(j); J[j].append(v); neighbors[j].append(i)` -/
theorem wt_adj2 (adj : List (List (Nat × Rat))) (i j : Nat) (hne : i ≠ j) (hi : i < adj.length)
    (hj : j < adj.length) (v : Rat) (a b : Nat) :
    wt ((adj.set i (adj.getD i [] ++ [(j, v)])).set j
        ((adj.set i (adj.getD i [] ++ [(j, v)])).getD j [] ++ [(i, v)])) a b =
      wt adj a b + (if a = i ∧ b = j then v else 0) + (if b = i ∧ a = j then v else 0) := by
  unfold wt
  rw [adj2_getD adj i j hne hi hj (j, v) (i, v) a]
  by_cases hai : a = i
  · subst hai
    have h2 : ¬ (b = a ∧ a = j) := fun h => hne h.2
    rw [if_pos rfl, wt_append, if_neg h2]
    by_cases hb : b = j
    · subst hb; simp
    · have : ¬ j = b := fun e => hb e.symm
      simp [hb, this]
  · rw [if_neg hai]
    by_cases haj : a = j
    · subst haj
      rw [if_pos rfl, wt_append]
      by_cases hb : b = i
      · subst hb; simp [hai]
      · have : ¬ i = b := fun e => hb e.symm
        simp [hb, this, hai]
    · rw [if_neg haj]
      simp [hai, haj]

/-- the rows built by the flattening loop store every coupling in both adjacency lists -/
theorem qstep_fold_sym (N : Nat) : ∀ (items : Poly) (h : List Rat) (adj : List (List (Nat × Rat)))
    (h' : List Rat) (adj' : List (List (Nat × Rat))),
    adj.length = N → (∀ kv ∈ items, SSorted kv.1 ∧ kv.1.length ≤ 2) → SymAdj adj →
    items.foldlM (qstep N) (h, adj) = .ok (h', adj') → SymAdj adj' ∧ adj'.length = N
  | [], h, adj, h', adj', hal, _, hs, hf => by
    simp only [List.foldlM_nil, pure, Except.pure] at hf
    injection hf with hf; injection hf with h1 h2; subst h1; subst h2
    exact ⟨hs, hal⟩
  | (k, v) :: rest, h, adj, h', adj', hal, hk, hs, hf => by
    simp only [List.foldlM_cons, bind_ok_iff] at hf
    obtain ⟨⟨h1, adj1⟩, hst, hf⟩ := hf
    have hk' : ∀ kv ∈ rest, SSorted kv.1 ∧ kv.1.length ≤ 2 := fun kv hkv => hk kv (List.mem_cons_of_mem _ hkv)
    have hkk := hk (k, v) List.mem_cons_self
    match k, hkk, hst with
    | [], _, hst =>
      simp only [qstep] at hst
      injection hst with hst; injection hst with e1 e2; subst e1; subst e2
      exact qstep_fold_sym N rest h adj h' adj' hal hk' hs hf
    | [a], _, hst =>
      simp only [qstep] at hst
      split at hst
      · injection hst with hst; injection hst with e1 e2; subst e1; subst e2
        exact qstep_fold_sym N rest _ adj h' adj' hal hk' hs hf
      · cases hst
    | [i, j], hkk, hst =>
      simp only [qstep] at hst
      split at hst
      · rename_i hij
        injection hst with hst; injection hst with e1 e2; subst e1; subst e2
        have hlt : i < j := hkk.1.1
        have hne : i ≠ j := Nat.ne_of_lt hlt
        refine qstep_fold_sym N rest h _ h' adj' (by simp [hal]) hk' ?_ hf
        have row := adj2_getD adj i j hne (by rw [hal]; exact hij.1) (by rw [hal]; exact hij.2) (j, v) (i, v)
        constructor
        · intro a p hp
          rw [row a] at hp
          split at hp
          · rename_i hai
            rcases List.mem_append.mp hp with hp | hp
            · exact hai ▸ hs.noself i p hp
            · have : p = (j, v) := by simpa using hp
              rw [this, hai]; exact fun e => hne e.symm
          · split at hp
            · rename_i haj
              rcases List.mem_append.mp hp with hp | hp
              · exact haj ▸ hs.noself j p hp
              · have : p = (i, v) := by simpa using hp
                rw [this, haj]; exact hne
            · exact hs.noself a p hp
        · intro a b
          rw [wt_adj2 adj i j hne (by rw [hal]; exact hij.1) (by rw [hal]; exact hij.2) v a b,
            wt_adj2 adj i j hne (by rw [hal]; exact hij.1) (by rw [hal]; exact hij.2) v b a, hs.sym a b]
          ring
      · cases hst
    | _ :: _ :: _ :: _, hkk, _ =>
      exfalso
      have := hkk.2
      simp at this

/-- `s_x (h_x + Σ_j J_xj s_j)` on the arrays built by the flattening loop is the value of the terms containing `x` -/
theorem qstep_fold_field (σ : Var → Rat) (N : Nat) (x : Nat) : ∀ (items : Poly) (h : List Rat)
    (adj : List (List (Nat × Rat))) (h' : List Rat) (adj' : List (List (Nat × Rat))),
    h.length = N → adj.length = N → (keys items).Nodup →
    (∀ kv ∈ items, SSorted kv.1 ∧ kv.1.length ≤ 2) →
    (∀ a, [a] ∈ keys items → h.getD a 0 = 0) →
    items.foldlM (qstep N) (h, adj) = .ok (h', adj') →
    σ x * localField σ h' adj' x = σ x * localField σ h adj x + eval σ (touching x items)
  | [], h, adj, h', adj', _, _, _, _, _, hf => by
    simp only [List.foldlM_nil, pure, Except.pure] at hf
    injection hf with hf; injection hf with h1 h2; subst h1; subst h2
    simp [touching]
  | (k, v) :: rest, h, adj, h', adj', hl, hal, hd, hk, hz, hf => by
    simp only [List.foldlM_cons, bind_ok_iff] at hf
    obtain ⟨⟨h1, adj1⟩, hst, hf⟩ := hf
    have hd' : (keys rest).Nodup := by
      simp only [keys, List.map_cons, List.nodup_cons] at hd; exact hd.2
    have hnot : k ∉ keys rest := by
      simp only [keys, List.map_cons, List.nodup_cons] at hd; exact hd.1
    have hk' : ∀ kv ∈ rest, SSorted kv.1 ∧ kv.1.length ≤ 2 := fun kv hkv => hk kv (List.mem_cons_of_mem _ hkv)
    have hkk := hk (k, v) List.mem_cons_self
    have hz' : ∀ a, [a] ∈ keys rest → h.getD a 0 = 0 := fun a ha =>
      hz a (by simp only [keys, List.map_cons] at ha ⊢; exact List.mem_cons_of_mem _ ha)
    match k, hkk, hst, hnot, hz with
    | [], _, hst, _, _ =>
      simp only [qstep] at hst
      injection hst with hst; injection hst with e1 e2; subst e1; subst e2
      rw [qstep_fold_field σ N x rest h adj h' adj' hl hal hd' hk' hz' hf]
      simp [touching]
    | [a], _, hst, hnot, hz =>
      simp only [qstep] at hst
      split at hst
      · rename_i haN
        injection hst with hst; injection hst with e1 e2; subst e1; subst e2
        have hza : h.getD a 0 = 0 := hz a (by simp [keys])
        rw [qstep_fold_field σ N x rest (h.set a v) adj h' adj' (by simp [hl]) hal hd' hk'
          (fun b hb => by
            have hne : a ≠ b := fun e => hnot (e ▸ hb)
            rw [getD_set_ne' h a b v 0 hne]
            exact hz' b hb) hf]
        simp only [touching, List.filter_cons, localField]
        by_cases hxa : x = a
        · subst hxa
          rw [getD_set_self' h x v 0 (by rw [hl]; exact haN), hza]
          simp only [List.mem_singleton, decide_true, if_true, eval_cons, mon_cons, mon_nil]
          ring
        · rw [getD_set_ne' h a x v 0 (fun e => hxa e.symm)]
          simp [hxa]
      · cases hst
    | [i, j], hkk, hst, _, _ =>
      simp only [qstep] at hst
      split at hst
      · rename_i hij
        injection hst with hst; injection hst with e1 e2; subst e1; subst e2
        have hlt : i < j := hkk.1.1
        have hne : i ≠ j := Nat.ne_of_lt hlt
        rw [qstep_fold_field σ N x rest h _ h' adj' hl (by simp [hal]) hd' hk' hz' hf]
        have row := adj2_getD adj i j hne (by rw [hal]; exact hij.1) (by rw [hal]; exact hij.2) (j, v) (i, v) x
        simp only [touching, List.filter_cons, localField]
        rw [row]
        by_cases hxi : x = i
        · subst hxi
          simp only [if_true, fieldSum_append, List.mem_cons, true_or, decide_true, eval_cons, mon_cons, mon_nil]
          ring
        · by_cases hxj : x = j
          · subst hxj
            simp only [hxi, if_false, if_true, fieldSum_append, List.mem_cons, or_true, true_or, decide_true,
              eval_cons, mon_cons, mon_nil]
            ring
          · simp [hxi, hxj]
      · cases hst
    | _ :: _ :: _ :: _, hkk, _, _, _ =>
      exfalso
      have := hkk.2
      simp at this

theorem localField_init (σ : Var → Rat) (N x : Nat) :
    localField σ (List.replicate N 0) (List.replicate N []) x = 0 := by
  have h1 : (List.replicate N (0 : Rat)).getD x 0 = 0 := by
    simp only [List.getD, List.getElem?_replicate]; split <;> rfl
  have h2 : (List.replicate N ([] : List (Nat × Rat))).getD x [] = [] := by
    simp only [List.getD, List.getElem?_replicate]; split <;> rfl
  simp only [localField, h1, h2, fieldSum]
  simp

theorem symAdj_init (N : Nat) : SymAdj (List.replicate N ([] : List (Nat × Rat))) := by
  have h2 : ∀ x, (List.replicate N ([] : List (Nat × Rat))).getD x [] = [] := by
    intro x
    simp only [List.getD, List.getElem?_replicate]; split <;> rfl
  constructor
  · intro i p hp; rw [h2 i] at hp; cases hp
  · intro i k; simp only [wt, h2]; simp

/-- the arrays `anneal_quso` hands to C store every coupling in both adjacency lists -/
theorem flattenQuso_sym (N : Nat) (model : Poly) (h : List Rat) (adj : List (List (Nat × Rat)))
    (hflat : flattenQuso N model = .ok (h, adj))
    (hk : ∀ kv ∈ model, SSorted kv.1 ∧ kv.1.length ≤ 2) : SymAdj adj ∧ adj.length = N := by
  rw [flattenQuso_eq] at hflat
  exact qstep_fold_sym N model _ _ h adj (by simp) hk (symAdj_init N) hflat

/-- **the cached quantity is the exact energy difference**:
`-2 s_i (h_i + Σ_j J_ij s_j) = E(flip i s) - E(s)` for the model the arrays were built from -/
theorem dESpec_eq_energy (N : Nat) (model : Poly) (h : List Rat) (adj : List (List (Nat × Rat)))
    (hflat : flattenQuso N model = .ok (h, adj)) (hd : (keys model).Nodup)
    (hk : ∀ kv ∈ model, SSorted kv.1 ∧ kv.1.length ≤ 2) (s : List Int) (i : Nat) (hi : i < s.length) :
    dESpec s h adj i = eval (assign (flipAt s i)) model - eval (assign s) model := by
  rw [flattenQuso_eq] at hflat
  have hfield := qstep_fold_field (assign s) N i model _ _ h adj (by simp) (by simp) hd hk
    (fun a _ => by simp only [List.getD, List.getElem?_replicate]; split <;> rfl) hflat
  rw [localField_init] at hfield
  have hflip := eval_flip (assign s) (assign (flipAt s i)) i
    (fun x hx => assign_flipAt_ne s i hi x hx) (assign_flipAt_self s i hi) model
    (fun kv hkv => SSorted.nodup (hk kv hkv).1)
  rw [hflip]
  simp only [dESpec]
  linarith

end Qv.Kernel
