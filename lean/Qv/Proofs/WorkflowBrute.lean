import Qv.Proofs.Workflow
/-!
# C08: the validity-filtered brute force of the workflow (T8.3)
-/
namespace Qv.Workflow
open Qv Qv.Brute

/-- every label of every recorded constraint is one of the enumerated variables -/
def ConsCovered (st : St) (vars : List Var) : Prop := ∀ c ∈ st.cons, Covers c.2 vars

/-- the value function `is_solution_valid` uses -/
def wfValue (spin : Bool) : Assign → Poly → Except Err Rat := if spin then pusoValueP else puboValueP

theorem wfValue_restrict {spin : Bool} {vars : List Var} {g : Var → Rat} {P : Poly} (hg : Dom spin g)
    (hc : Covers P vars) : wfValue spin (restrict vars g) P = .ok (eval g P) := by
  cases spin with
  | false => exact Fn.valueP_restrict .pubo hc hg trivial
  | true => exact Fn.valueP_restrict .puso hc hg trivial

theorem relOK_restrict {spin : Bool} {vars : List Var} {g : Var → Rat} (hg : Dom spin g) (r : Rel)
    (cons : List (Rel × Poly)) (hc : ∀ c ∈ cons, Covers c.2 vars) :
    relOK (wfValue spin) r (restrict vars g) cons =
      .ok (cons.all (fun c => !(decide (c.1 = r)) || c.1.holds (eval g c.2))) := by
  induction cons with
  | nil => rfl
  | cons c rest ih =>
    obtain ⟨r', P⟩ := c
    have ih' := ih (fun c hc' => hc c (List.mem_cons_of_mem _ hc'))
    by_cases hr : r' = r
    · subst hr
      have hv := wfValue_restrict (spin := spin) hg (hc _ List.mem_cons_self)
      simp only [relOK, if_true, hv, bind, Except.bind, List.all_cons, decide_true, Bool.not_true, Bool.false_or]
      by_cases hh : r'.holds (eval g P) = true
      · simp [hh, ih']
      · simp [hh, pure, Except.pure]
    · simp [relOK, hr, ih']

theorem validLoop_restrict {spin : Bool} {vars : List Var} {g : Var → Rat} (hg : Dom spin g)
    (cons : List (Rel × Poly)) (hc : ∀ c ∈ cons, Covers c.2 vars) (rels : List Rel) :
    validLoop (wfValue spin) cons (restrict vars g) rels =
      .ok (rels.all (fun r => cons.all (fun c => !(decide (c.1 = r)) || c.1.holds (eval g c.2)))) := by
  induction rels with
  | nil => rfl
  | cons r rest ih =>
    simp only [validLoop, relOK_restrict hg r cons hc, bind, Except.bind, List.all_cons]
    by_cases hh : (cons.all fun c => !(decide (c.1 = r)) || c.1.holds (eval g c.2)) = true
    · simp [hh, ih]
    · simp [hh, pure, Except.pure]

/-- on an assignment over variables that cover the constraints, `is_solution_valid` returns, and returns what the
total model `isValid` says -/
theorem isSolutionValidP_restrict {spin : Bool} {st : St} {vars : List Var} {g : Var → Rat} (hg : Dom spin g)
    (hc : ConsCovered st vars) : isSolutionValidP spin st (restrict vars g) = .ok (isValid st g) := by
  have := validLoop_restrict hg st.cons hc relOrder
  unfold isSolutionValidP
  unfold wfValue at this
  rw [this]
  congr 1
  rw [Bool.eq_iff_iff]
  unfold isValid relOrder
  simp only [List.all_cons, List.all_nil, Bool.and_true, Bool.and_eq_true, List.all_eq_true, Bool.or_eq_true,
    Bool.not_eq_true', decide_eq_false_iff_not]
  constructor
  · intro h c hcm
    obtain ⟨h1, h2, h3, h4, h5, h6⟩ := h
    cases hr : c.1
    · rcases h1 c hcm with h | h; exact absurd hr h; rwa [hr] at h
    · rcases h2 c hcm with h | h; exact absurd hr h; rwa [hr] at h
    · rcases h3 c hcm with h | h; exact absurd hr h; rwa [hr] at h
    · rcases h4 c hcm with h | h; exact absurd hr h; rwa [hr] at h
    · rcases h5 c hcm with h | h; exact absurd hr h; rwa [hr] at h
    · rcases h6 c hcm with h | h; exact absurd hr h; rwa [hr] at h
  · intro h
    refine ⟨?_, ?_, ?_, ?_, ?_, ?_⟩ <;> exact fun c hcm => Or.inr (h c hcm)

/-- **T8.3 at the level of the model.**  For a model whose bookkeeping is refreshed (`Setup`: the enumerated
variables are exactly the variables of the terms, once each) and covers the recorded constraints, and with some
assignment satisfying the constraints: `solve_bruteforce` does not raise; without `all_solutions` it returns an
assignment over exactly `vars` that satisfies the constraints and minimises the **whole model** (objective plus
penalties) over the assignments (of variables *and* ancillas) that satisfy them; with `all_solutions` exactly those,
once each. -/
theorem solveBruteforce_spec {spin : Bool} {st : St} {book : Book} {vars : List Var}
    (S : Setup (wfFn spin) (wfModel spin st book) [] vars) (hc : ConsCovered st vars) (allS : Bool)
    (hex : ∃ g, Dom spin g ∧ isValid st g = true) :
    ∃ sol, solveBruteforce spin st book allS = .ok sol ∧
      (allS = false → ∃ g, Dom spin g ∧ sol = .one (restrict vars g) ∧ isValid st g = true ∧
        ∀ g', Dom spin g' → isValid st g' = true → eval g st.terms ≤ eval g' st.terms) ∧
      (allS = true → ∃ l, sol = .many l ∧ l.Nodup ∧
        ∀ a, a ∈ l ↔ ∃ g, Dom spin g ∧ a = restrict vars g ∧ isValid st g = true ∧
          ∀ g', Dom spin g' → isValid st g' = true → eval g st.terms ≤ eval g' st.terms) := by
  have hspin : (wfFn spin).spin = spin := by cases spin <;> rfl
  have hv : ∀ g, Dom spin g → wfValid spin st (restrict vars g) = isValid st g := by
    intro g hg; simp [wfValid, isSolutionValidP_restrict hg hc]
  have hex' : ∃ g, Dom (wfFn spin).spin g ∧ wfValid spin st (restrict vars g) = true := by
    obtain ⟨g, hg, hval⟩ := hex
    exact ⟨g, by rwa [hspin], by rw [hv g hg]; exact hval⟩
  obtain ⟨sol, hsol, h1, h2⟩ := C09.method_returns_minimisers S allS (wfValid spin st) hex'
  have hrun : solveBruteforce spin st book allS = .ok sol := by
    unfold solveBruteforce
    simp only []
    split
    · exact hsol
    · have hvars : (wfModel spin st book).vars [] = .ok vars := S.vars_ok
      simp only [hvars, bind, Except.bind]
      have hall : (enumerate spin vars).all (validReturns spin st) = true := by
        rw [List.all_eq_true]
        intro a ha
        obtain ⟨g, hg, rfl⟩ := exists_of_mem_enumerate S.nodup ha
        simp [validReturns, isSolutionValidP_restrict hg hc]
      simp only [hall, if_true]
      exact hsol
  rw [hspin] at h1 h2
  refine ⟨sol, hrun, ?_, ?_⟩
  · intro ha
    obtain ⟨g, hg, e, hval, hmin⟩ := h1 ha
    refine ⟨g, hg, e, by rw [← hv g hg]; exact hval, fun g' hg' hv' => hmin g' hg' (by rw [hv g' hg']; exact hv')⟩
  · intro ha
    obtain ⟨l, e, hnd, hmem⟩ := h2 ha
    refine ⟨l, e, hnd, fun a => (hmem a).trans ?_⟩
    constructor
    · rintro ⟨g, hg, rfl, hval, hmin⟩
      exact ⟨g, hg, rfl, by rw [← hv g hg]; exact hval, fun g' hg' hv' => hmin g' hg' (by rw [hv g' hg']; exact hv')⟩
    · rintro ⟨g, hg, rfl, hval, hmin⟩
      exact ⟨g, hg, rfl, by rw [hv g hg]; exact hval, fun g' hg' hv' => hmin g' hg' (by rw [← hv g' hg']; exact hv')⟩

end Qv.Workflow

namespace Qv.Workflow
open Qv Qv.Brute

/-- **T8.3: what `solve_bruteforce` says about the objective.**  `Dm` is the domain (`IsBool` / `IsSpin`), `f` the
objective; `P` are the two facts about the penalties that need no condition on the weights (non-negative; zero for
the right ancillas on feasible points).  The returned assignment(s) satisfy the constraints, minimise `f` over all
assignments satisfying the constraints, and have zero penalty. -/
theorem bruteforce_objective {spin : Bool} {st : St} {book : Book} {vars : List Var} {Dm : (Var → Rat) → Prop}
    {f : (Var → Rat) → Rat} (hD : ∀ g, Dom spin g ↔ Dm g)
    (P : Abs.PenaltyFacts Dm (fun s => isValid st s = true) f (fun s => eval s st.terms))
    (S : Setup (wfFn spin) (wfModel spin st book) [] vars) (hc : ConsCovered st vars) (allS : Bool)
    (hex : ∃ g, Dm g ∧ isValid st g = true) :
    ∃ sol, solveBruteforce spin st book allS = .ok sol ∧
      (allS = false → ∃ g, Dm g ∧ sol = .one (restrict vars g) ∧ isValid st g = true ∧
        (∀ x, Dm x → isValid st x = true → f g ≤ f x) ∧ eval g st.terms = f g) ∧
      (allS = true → ∃ l, sol = .many l ∧ l.Nodup ∧ (∃ a, a ∈ l) ∧
        ∀ a ∈ l, ∃ g, Dm g ∧ a = restrict vars g ∧ isValid st g = true ∧
          (∀ x, Dm x → isValid st x = true → f g ≤ f x) ∧ eval g st.terms = f g) := by
  have hex' : ∃ g, Dom spin g ∧ isValid st g = true := by
    obtain ⟨g, hg, hv⟩ := hex; exact ⟨g, (hD g).2 hg, hv⟩
  have key : ∀ g, Dom spin g → isValid st g = true →
      (∀ g', Dom spin g' → isValid st g' = true → eval g st.terms ≤ eval g' st.terms) →
      (∀ x, Dm x → isValid st x = true → f g ≤ f x) ∧ eval g st.terms = f g := by
    intro g hg hv hmin
    exact Abs.feasible_minimiser P ((hD g).1 hg) hv (fun s' hs' hf' => hmin s' ((hD s').2 hs') hf')
  obtain ⟨sol, hsol, h1, h2⟩ := solveBruteforce_spec S hc allS hex'
  refine ⟨sol, hsol, ?_, ?_⟩
  · intro ha
    obtain ⟨g, hg, e, hv, hmin⟩ := h1 ha
    exact ⟨g, (hD g).1 hg, e, hv, key g hg hv hmin⟩
  · intro ha
    obtain ⟨l, e, hnd, hmem⟩ := h2 ha
    refine ⟨l, e, hnd, ?_, fun a hal => ?_⟩
    · -- a valid minimiser exists (the single-solution call finds one), and it is a member of the list
      obtain ⟨_, _, h1', _⟩ := solveBruteforce_spec (book := book) S hc false hex'
      obtain ⟨g, hg, _, hv, hmin⟩ := h1' rfl
      exact ⟨restrict vars g, (hmem _).2 ⟨g, hg, rfl, hv, hmin⟩⟩
    · obtain ⟨g, hg, rfl, hv, hmin⟩ := (hmem a).1 hal
      exact ⟨g, (hD g).1 hg, rfl, hv, key g hg hv hmin⟩

end Qv.Workflow
