import Qv.Proofs.PcsoPremises
/-!
# C03 / T3.5: histories of constraints on one PCSO (namespace `Qv.Pcso`)

`AncInv s`: every label occurring in the PCSO's terms is below `ANC + num_ancillas` (user labels are `< ANC`,
ancilla `__a<k>` is `ANC + k`), i.e. `num_ancillas` covers every ancilla present.  Preserved by every call and hence by
every history; the hand-off `h._ancilla = pcso._ancilla … pcso._ancilla = h._ancilla` is the step case.  The
ancillas a call draws are `ANC + k`, `s.anc ≤ k < s'.anc`: fresh (not present before, not in `H`), and the ranges of
two different calls of a history are disjoint because the counter never decreases.
-/
namespace Qv.Pcso
open Qv Qv.Logic

/-- `num_ancillas` covers every label present -/
def AncInv (s : PSt) : Prop := VarsIn (fun i => i < ANC + s.anc) s.terms

/-- the constrained polynomial mentions user labels only (no `__a` label) -/
def UserPoly (H : Poly) : Prop := VarsIn (fun i => i < ANC) H

/-- label `i` occurs in a key of `p` -/
def Occurs (i : Var) (p : Poly) : Prop := ∃ kv ∈ p, i ∈ kv.1

theorem varsIn_mono {S S' : Var → Prop} {p : Poly} (h : VarsIn S p) (hi : ∀ i, S i → S' i) : VarsIn S' p :=
  fun kv hkv i hik => hi i (h kv hkv i hik)

theorem varsIn_occurs (p : Poly) : VarsIn (fun i => Occurs i p) p := fun kv hkv i hik => ⟨kv, hkv, hik⟩

theorem ancInv_empty : AncInv {} := varsIn_nil

section step
variable {r : Rel} {s s' : PSt} {H : Poly} {lam : Rat} {lt : Bool} {b : Option Rat × Option Rat} {sup : Bool}

/-- step case of T3.5 -/
theorem step_ancInv (h : addConstraint r s H lam lt b sup = .ok s') (hi : AncInv s) (hu : UserPoly H) :
    AncInv s' := by
  have hm := addConstraint_anc_mono h
  exact addConstraint_labels h
    (varsIn_mono hi (fun i (hi : i < ANC + s.anc) => Nat.lt_of_lt_of_le hi (Nat.add_le_add_left hm _)))
    (varsIn_mono hu (fun i (hi : i < ANC) => Nat.lt_of_lt_of_le hi (Nat.le_add_right _ _)))
    (fun k _ hk => Nat.add_lt_add_left hk _)

/-- every label of the new terms occurs in the old terms, occurs in `H`, or is an ancilla drawn by this call -/
theorem step_new_labels (h : addConstraint r s H lam lt b sup = .ok s') {i : Var} (hi : Occurs i s'.terms) :
    Occurs i s.terms ∨ Occurs i H ∨ InAnc s.anc s'.anc i := by
  have := addConstraint_labels (S := fun i => Occurs i s.terms ∨ Occurs i H ∨ InAnc s.anc s'.anc i) h
    (varsIn_mono (varsIn_occurs _) (fun _ h => Or.inl h))
    (varsIn_mono (varsIn_occurs _) (fun _ h => Or.inr (Or.inl h)))
    (fun k h1 h2 => Or.inr (Or.inr ⟨k, h1, h2, rfl⟩))
  obtain ⟨kv, hkv, hik⟩ := hi
  exact this kv hkv i hik

/-- the ancillas drawn by a call are fresh: they occur neither in the terms present before nor in `H` -/
theorem step_fresh (hi : AncInv s) (hu : UserPoly H) {i : Var} (ha : InAnc s.anc s'.anc i) :
    ¬ Occurs i s.terms ∧ ¬ Occurs i H := by
  obtain ⟨k, h1, _, rfl⟩ := ha
  constructor
  · rintro ⟨kv, hkv, hik⟩
    have : ANC + k < ANC + s.anc := hi kv hkv _ hik
    have := Nat.lt_of_add_lt_add_left this
    omega
  · rintro ⟨kv, hkv, hik⟩
    have : ANC + k < ANC := hu kv hkv _ hik
    exact absurd (Nat.le_add_right ANC k) (Nat.not_le.2 this)

end step

/-! ### histories -/

theorem runHist_append {s s' : PSt} {cs ds : List Call} :
    runHist s (cs ++ ds) = .ok s' ↔ ∃ m, runHist s cs = .ok m ∧ runHist m ds = .ok s' := by
  induction cs generalizing s with
  | nil => simp [runHist]
  | cons c cs ih =>
    simp only [List.cons_append, runHist, bind_ok_iff]
    constructor
    · rintro ⟨s1, h1, h⟩
      obtain ⟨m, hm, hd⟩ := ih.1 h
      exact ⟨m, ⟨s1, h1, hm⟩, hd⟩
    · rintro ⟨m, ⟨s1, h1, hm⟩, hd⟩
      exact ⟨s1, h1, ih.2 ⟨m, hm, hd⟩⟩

theorem runHist_total (s : PSt) (cs : List Call) : ∃ s', runHist s cs = .ok s' := by
  induction cs generalizing s with
  | nil => exact ⟨s, rfl⟩
  | cons c cs ih =>
    obtain ⟨s1, h1⟩ := addConstraint_total c.rel s c.H c.lam c.lt c.bounds c.sup
    obtain ⟨s', h'⟩ := ih s1
    exact ⟨s', by simp only [runHist, bind_ok_iff]; exact ⟨s1, h1, h'⟩⟩

/-- **T3.5 (invariant).**  Along every history of constraints on user polynomials `AncInv` is preserved and the
counter never decreases. -/
theorem hist_ancInv {s s' : PSt} {cs : List Call} (h : runHist s cs = .ok s') (hi : AncInv s)
    (hu : ∀ c ∈ cs, UserPoly c.H) : AncInv s' ∧ s.anc ≤ s'.anc := by
  induction cs generalizing s with
  | nil => simp only [runHist] at h; injection h with h; subst h; exact ⟨hi, Nat.le_refl _⟩
  | cons c cs ih =>
    simp only [runHist, bind_ok_iff] at h
    obtain ⟨s1, h1, h⟩ := h
    have hi1 := step_ancInv h1 hi (hu c List.mem_cons_self)
    obtain ⟨hi', hm⟩ := ih h hi1 (fun c' hc' => hu c' (List.mem_cons_of_mem _ hc'))
    exact ⟨hi', Nat.le_trans (addConstraint_anc_mono h1) hm⟩

theorem hist_anc_mono {s s' : PSt} {cs : List Call} (h : runHist s cs = .ok s') : s.anc ≤ s'.anc := by
  induction cs generalizing s with
  | nil => simp only [runHist] at h; injection h with h; subst h; exact Nat.le_refl _
  | cons c cs ih =>
    simp only [runHist, bind_ok_iff] at h
    obtain ⟨s1, h1, h⟩ := h
    exact Nat.le_trans (addConstraint_anc_mono h1) (ih h)

theorem inAnc_disjoint {a a' c c' : Nat} (h : a' ≤ c) (i : Var) : ¬ (InAnc a a' i ∧ InAnc c c' i) := by
  rintro ⟨⟨k, _, h2, rfl⟩, ⟨k', h3, _, he⟩⟩
  have : k = k' := Nat.add_left_cancel he
  omega

/-- **T3.5 (names never repeat).**  Split any history at two of its calls `c` (earlier) and `d` (later): the
ancillas drawn by `c` and those drawn by `d` are disjoint sets of labels. -/
theorem hist_disjoint {s0 sN : PSt} {pre mid post : List Call} {c d : Call}
    (h : runHist s0 (pre ++ c :: (mid ++ d :: post)) = .ok sN) :
    ∃ s1 s2 s3 s4, runHist s0 pre = .ok s1 ∧ c.run s1 = .ok s2 ∧ runHist s2 mid = .ok s3 ∧ d.run s3 = .ok s4 ∧
      runHist s4 post = .ok sN ∧ ∀ i, ¬ (InAnc s1.anc s2.anc i ∧ InAnc s3.anc s4.anc i) := by
  obtain ⟨s1, hpre, h⟩ := runHist_append.1 h
  simp only [runHist, bind_ok_iff] at h
  obtain ⟨s2, hc, h⟩ := h
  obtain ⟨s3, hmid, h⟩ := runHist_append.1 h
  simp only [runHist, bind_ok_iff] at h
  obtain ⟨s4, hd, hpost⟩ := h
  exact ⟨s1, s2, s3, s4, hpre, hc, hmid, hd, hpost, inAnc_disjoint (hist_anc_mono hmid)⟩

end Qv.Pcso
