import Qv.Proofs.SymbolicThm
/-!
# C16, T16.0 / T16.2 for the reduction: `D = D₀ + Σ_t lam(v_t) • gadget_t` coefficientwise, with `D₀`, the steps and
the ancilla labels independent of the penalty
-/
namespace Qv.Sym
open Qv Qv.PcboP Qv.Reduce

/-! ## coefficient-level facts -/

theorem canon_nil : CanonP squashB [] := ⟨by simp [keys], by simp [keys]⟩

theorem canon_addTermB {p : Poly} (h : CanonP squashB p) (k : Key) (v : Rat) : CanonP squashB (addTermB p k v) := by
  have h1 := nodup_addTermR (R := Rat) squashB p k v h.nodup
  have h2 := sqKeys_addTermR (R := Rat) (sq := squashB) squashB_idem (p := p) k v h.sq
  rw [addTermR_rat] at h1 h2
  exact ⟨h1, h2⟩

theorem canon_iaddB {p : Poly} (h : CanonP squashB p) (q : Poly) : CanonP squashB (iaddB p q) :=
  ⟨nodup_iaddB p q h.nodup, sqKeys_iaddB p q h.sq⟩

theorem canon_gadget (a b c : Var) : CanonP squashB (gadget a b c) := by
  unfold gadget
  simp only [List.foldl]
  exact canon_addTermB (canon_addTermB (canon_addTermB (canon_addTermB canon_nil _ _) _ _) _ _) _ _

theorem get_addTermB (p : Poly) (k k2 : Key) (v : Rat) (h : (keys p).Nodup) :
    get (addTermB p k v) k2 = get p k2 + if squashB k = k2 then v else 0 := by
  have := phi_get_addTermR (R := Rat) hom_id squashB p k k2 v h
  rw [addTermR_rat, getR_rat, getR_rat] at this
  exact this

/-- `D += PCBO().add_constraint_eq_AND(z, x, y, lam)` coefficientwise (also when `not lam`) -/
theorem get_addGadget (D : Poly) (lamv : Rat) (x y z : Var) (k : Key) (h : (keys D).Nodup) :
    get (addGadget D lamv x y z) k = get D k + lamv * get (gadget z x y) k := by
  unfold addGadget
  split
  · rename_i h0; rw [h0]; ring
  · have hc : CanonP squashB (iaddB [] (scaleB lamv (gadget z x y))) := canon_iaddB canon_nil _
    rw [get_iaddB _ _ _ h, csum_canon hc, get_iaddB _ _ _ (by simp [keys]), csum_canon (canon_scaleB _ _), get_scaleB,
      csum_canon (canon_gadget z x y)]
    simp [get]

theorem nodup_addGadget (D : Poly) (lamv : Rat) (x y z : Var) (h : (keys D).Nodup) :
    (keys (addGadget D lamv x y z)).Nodup := by
  unfold addGadget
  split
  · exact h
  · exact nodup_iaddB _ _ h

theorem nodup_addTermB (p : Poly) (k : Key) (v : Rat) (h : (keys p).Nodup) : (keys (addTermB p k v)).Nodup := by
  have := nodup_addTermR (R := Rat) squashB p k v h
  rw [addTermR_rat] at this
  exact this

/-- `Σ_s lamv * gadget_s[k]` over a list of steps -/
def gstep (lamv : Rat) (steps : List Step) (k : Key) : Rat :=
  match steps with
  | [] => 0
  | s :: r => lamv * get (gadget s.z s.x s.y) k + gstep lamv r k

theorem gstep_append (lamv : Rat) (a b : List Step) (k : Key) :
    gstep lamv (a ++ b) k = gstep lamv a k + gstep lamv b k := by
  induction a with
  | nil => simp [gstep]
  | cons s r ih => simp only [List.cons_append, gstep, ih]; ring

/-! ## one term (F1: what is added; F2: independence of the penalty) -/

/-- F1 for the inner loop -/
theorem reduceTerm_get (deg : Nat) (pairs : List Key) (lamv v : Rat) (fuel : Nat) :
    ∀ (key : Key) (st : ISt) (steps : List Step), (keys st.D).Nodup →
      let res := reduceTerm deg pairs lamv v fuel key st steps
      (keys res.1.D).Nodup ∧ ∃ new, res.2.1 = steps.reverse ++ new ∧
        ∀ k, get res.1.D k = get st.D k + (if squashB res.2.2 = k then v else 0) + gstep lamv new k := by
  induction fuel with
  | zero =>
    intro key st steps hn
    simp only [reduceTerm]
    exact ⟨nodup_addTermB _ _ _ hn, [], by simp, fun k => by rw [get_addTermB _ _ _ _ hn]; simp only [gstep, add_zero]; split_ifs <;> simp_all⟩
  | succ fuel ih =>
    intro key st steps hn
    simp only [reduceTerm]
    split
    · exact ⟨nodup_addTermB _ _ _ hn, [], by simp, fun k => by rw [get_addTermB _ _ _ _ hn]; simp only [gstep, add_zero]⟩
    · split
      · exact ⟨nodup_addTermB _ _ _ hn, [], by simp, fun k => by rw [get_addTermB _ _ _ _ hn]; simp only [gstep, add_zero]⟩
      · rename_i x y z _
        have hn' := nodup_addGadget st.D lamv x y z hn
        obtain ⟨h1, new, h2, h3⟩ := ih (rekey key x y z) { st with D := addGadget st.D lamv x y z }
          ({ x := x, y := y, z := z, fresh := false } :: steps) hn'
        refine ⟨h1, { x := x, y := y, z := z, fresh := false } :: new, ?_, fun k => ?_⟩
        · rw [h2]; simp
        · rw [h3 k]
          simp only [gstep]
          rw [get_addGadget _ _ _ _ _ _ hn]; ring
      · rename_i x y _
        have hn' := nodup_addGadget st.D lamv x y st.next hn
        obtain ⟨h1, new, h2, h3⟩ := ih (rekey key x y st.next)
          { next := st.next + 1, reds := st.reds ++ [((x, y), st.next)],
            freq := freqInc (freqInc st.freq (x, st.next)) (y, st.next), D := addGadget st.D lamv x y st.next }
          ({ x := x, y := y, z := st.next, fresh := true } :: steps) hn'
        refine ⟨h1, { x := x, y := y, z := st.next, fresh := true } :: new, ?_, fun k => ?_⟩
        · rw [h2]; simp
        · rw [h3 k]
          simp only [gstep]
          rw [get_addGadget _ _ _ _ _ _ hn]; ring

/-- the part of the reduction state the choices depend on -/
def Eqv (a b : ISt) : Prop := a.next = b.next ∧ a.reds = b.reds ∧ a.freq = b.freq

/-- F2 for the inner loop: steps, final key and the bookkeeping do not depend on the penalty or on `D` -/
theorem reduceTerm_indep (deg : Nat) (pairs : List Key) (lamv lamv' v : Rat) (fuel : Nat) :
    ∀ (key : Key) (st st' : ISt) (steps : List Step), Eqv st st' →
      Eqv (reduceTerm deg pairs lamv v fuel key st steps).1 (reduceTerm deg pairs lamv' v fuel key st' steps).1 ∧
      (reduceTerm deg pairs lamv v fuel key st steps).2 = (reduceTerm deg pairs lamv' v fuel key st' steps).2 := by
  induction fuel with
  | zero =>
    intro key st st' steps he
    obtain ⟨e1, e2, e3⟩ := he
    simp only [reduceTerm]
    exact ⟨⟨e1, e2, e3⟩, trivial⟩
  | succ fuel ih =>
    intro key st st' steps he
    obtain ⟨e1, e2, e3⟩ := he
    simp only [reduceTerm]
    rw [← e2, ← e3]
    split
    · exact ⟨⟨e1, rfl, rfl⟩, rfl⟩
    · split
      · exact ⟨⟨e1, rfl, rfl⟩, rfl⟩
      · exact ih _ _ _ _ ⟨e1, rfl, rfl⟩
      · rw [← e1]
        exact ih _ _ _ _ ⟨rfl, rfl, rfl⟩

/-! ## all terms -/

/-- `Σ_t f(v_t) * gadget_t[k]` -/
def gsum (f : Rat → Rat) (L : List (Rat × Poly)) (k : Key) : Rat :=
  match L with
  | [] => 0
  | vg :: r => f vg.1 * get vg.2 k + gsum f r k

theorem gsum_append (f : Rat → Rat) (a b : List (Rat × Poly)) (k : Key) :
    gsum f (a ++ b) k = gsum f a k + gsum f b k := by
  induction a with
  | nil => simp [gsum]
  | cons s r ih => simp only [List.cons_append, gsum, ih]; ring

theorem gsum_steps (f : Rat → Rat) (v : Rat) (steps : List Step) (k : Key) :
    gsum f (steps.map (fun s => (v, gadget s.z s.x s.y))) k = gstep (f v) steps k := by
  induction steps with
  | nil => rfl
  | cons s r ih => simp only [List.map_cons, gsum, gstep, ih]

theorem certGadgets_cons (c : TermCert) (r : List TermCert) :
    certGadgets (c :: r) = c.steps.map (fun s => (c.v, gadget s.z s.x s.y)) ++ certGadgets r := by
  simp [certGadgets]

/-- the `(final key, v)` items of a certificate list -/
def finals (cs : List TermCert) : Poly := cs.map (fun c => (c.final, c.v))

theorem certD0_eq (cs : List TermCert) : certD0 cs = iaddB [] (finals cs) := by
  unfold certD0 iaddB finals
  rw [List.foldl_map]

/-- F1 for the outer loop -/
theorem reduceTerms_get (deg : Nat) (pairs : List Key) (lam : Lam) :
    ∀ (terms : Poly) (st : ISt) (cs : List TermCert), (keys st.D).Nodup →
      (keys (reduceTerms deg pairs lam terms st cs).1.D).Nodup ∧
      ∃ nc, (reduceTerms deg pairs lam terms st cs).2 = cs.reverse ++ nc ∧
        ∀ k, get (reduceTerms deg pairs lam terms st cs).1.D k
          = get st.D k + csum (finals nc) k + gsum lam.app (certGadgets nc) k := by
  intro terms
  induction terms with
  | nil =>
    intro st cs hn
    simp only [reduceTerms]
    exact ⟨hn, [], by simp, fun k => by simp [finals, csum_nil, certGadgets, gsum]⟩
  | cons kv r ih =>
    intro st cs hn
    obtain ⟨key, v⟩ := kv
    simp only [reduceTerms]
    obtain ⟨h1, new, h2, h3⟩ := reduceTerm_get deg pairs (lam.app v) v key.length key st [] hn
    simp only [List.reverse_nil, List.nil_append] at h2
    obtain ⟨g1, nc, g2, g3⟩ := ih (reduceTerm deg pairs (lam.app v) v key.length key st []).1
      ({ key := key, v := v, lam := lam.app v,
         steps := (reduceTerm deg pairs (lam.app v) v key.length key st []).2.1,
         final := (reduceTerm deg pairs (lam.app v) v key.length key st []).2.2 } :: cs) h1
    refine ⟨g1, TermCert.mk key v (lam.app v) (reduceTerm deg pairs (lam.app v) v key.length key st []).2.1
      (reduceTerm deg pairs (lam.app v) v key.length key st []).2.2 :: nc, ?_, fun k => ?_⟩
    · rw [g2]; simp
    · rw [g3 k, h3 k, certGadgets_cons, gsum_append, gsum_steps]
      simp only [finals, List.map_cons, csum_cons]
      rw [h2]
      ring

/-- a certificate without its penalty value -/
def strip (c : TermCert) : TermCert := { c with lam := 0 }

/-- F2 for the outer loop -/
theorem reduceTerms_indep (deg : Nat) (pairs : List Key) (lam lam' : Lam) :
    ∀ (terms : Poly) (st st' : ISt) (cs cs' : List TermCert), Eqv st st' → cs.map strip = cs'.map strip →
      Eqv (reduceTerms deg pairs lam terms st cs).1 (reduceTerms deg pairs lam' terms st' cs').1 ∧
      (reduceTerms deg pairs lam terms st cs).2.map strip = (reduceTerms deg pairs lam' terms st' cs').2.map strip := by
  intro terms
  induction terms with
  | nil =>
    intro st st' cs cs' he hc
    simp only [reduceTerms]
    refine ⟨he, ?_⟩
    rw [List.map_reverse, List.map_reverse, hc]
  | cons kv r ih =>
    intro st st' cs cs' he hc
    obtain ⟨key, v⟩ := kv
    simp only [reduceTerms]
    obtain ⟨e1, e2⟩ := reduceTerm_indep deg pairs (lam.app v) (lam'.app v) v key.length key st st' [] he
    apply ih _ _ _ _ e1
    simp only [List.map_cons, hc, strip, e2]

theorem certD0_strip (cs : List TermCert) : certD0 (cs.map strip) = certD0 cs := by
  unfold certD0
  rw [List.foldl_map]
  rfl

theorem certGadgets_strip (cs : List TermCert) : certGadgets (cs.map strip) = certGadgets cs := by
  induction cs with
  | nil => rfl
  | cons c r ih => rw [List.map_cons, certGadgets_cons, certGadgets_cons, ih]; rfl

/-- **T16.0 for the reduction.**  For every penalty setting `lam` (default, constant, callable), coefficientwise
`D = D₀ + Σ_t lam(v_t) • gadget_t`, where `D₀`, the gadgets (i.e. the chosen pairs and ancilla labels) and the next
free label are those of the run with the constant penalty `1`; the two runs raise the same exception. -/
theorem reduceCore_lin (terms : Poly) (m : Mapping) (n d : Nat) (lam : Lam) (pairs : List Key) :
    match reduceCore terms m n d lam pairs, reduceParts terms m n d pairs with
    | .ok o, .ok p => (∀ k, get o.D k = get p.D0 k + gsum lam.app p.gadgets k) ∧ o.next = p.next ∧ (keys o.D).Nodup
    | .error e, .error e' => e = e'
    | _, _ => False := by
  unfold reduceParts reduceCore
  cases hm : mapSelf m terms [] [] with
  | error e => simp
  | ok p =>
    simp only []
    obtain ⟨h1, nc, h2, h3⟩ := reduceTerms_get d (pairs.map (mapPair m)) lam p.1
      { next := n, reds := [], freq := p.2, D := [] } [] (by simp [keys])
    obtain ⟨e1, e2⟩ := reduceTerms_indep d (pairs.map (mapPair m)) lam (.const 1) p.1
      { next := n, reds := [], freq := p.2, D := [] } { next := n, reds := [], freq := p.2, D := [] } [] []
      ⟨rfl, rfl, rfl⟩ rfl
    simp only [List.reverse_nil, List.nil_append] at h2
    have hD0 : certD0 (reduceTerms d (pairs.map (mapPair m)) (.const 1) p.1
        { next := n, reds := [], freq := p.2, D := [] } []).2 = certD0 nc := by
      rw [← certD0_strip, ← e2, h2, certD0_strip]
    have hG : certGadgets (reduceTerms d (pairs.map (mapPair m)) (.const 1) p.1
        { next := n, reds := [], freq := p.2, D := [] } []).2 = certGadgets nc := by
      rw [← certGadgets_strip, ← e2, h2, certGadgets_strip]
    refine ⟨fun k => ?_, e1.1, h1⟩
    rw [h3 k, hD0, hG, certD0_eq, get_iaddB _ _ _ (by simp [keys])]

/-! ## the symbolic side: `D₀ + Σ_t lamSym(v_t) • gadget_t` under a coefficient homomorphism -/

section sym
variable {R : Type} [Coef R] {φ : R → Rat}

theorem nodup_lift {G : Poly} (h : (keys G).Nodup) : (keysR (lift (R := R) G)).Nodup := by
  rw [keysR_lift]; exact h

theorem symFold_get (hφ : Hom φ) (m : LamMenu) (w : R) (L : List (Rat × Poly))
    (hL : ∀ vg ∈ L, CanonP squashB vg.2) :
    ∀ (D : PolyR R), (keysR D).Nodup →
      (keysR (L.foldl (fun D vg =>
        if Coef.isZero (m.sym w vg.1) then D
        else iaddR squashB D (iaddR squashB [] (scaleR squashB (m.sym w vg.1) (lift vg.2)))) D)).Nodup ∧
      ∀ k, φ (getR (L.foldl (fun D vg =>
        if Coef.isZero (m.sym w vg.1) then D
        else iaddR squashB D (iaddR squashB [] (scaleR squashB (m.sym w vg.1) (lift vg.2)))) D) k)
        = φ (getR D k) + gsum (fun v => φ (m.sym w v)) L k := by
  induction L with
  | nil => intro D hD; exact ⟨hD, fun k => by simp [gsum]⟩
  | cons vg r ih =>
    intro D hD
    have hr : ∀ x ∈ r, CanonP squashB x.2 := fun x hx => hL x (List.mem_cons_of_mem _ hx)
    have hg : CanonP squashB vg.2 := hL vg List.mem_cons_self
    simp only [List.foldl_cons]
    by_cases hz : Coef.isZero (m.sym w vg.1) = true
    · rw [if_pos hz]
      obtain ⟨i1, i2⟩ := ih hr D hD
      refine ⟨i1, fun k => ?_⟩
      rw [i2 k]; simp only [gsum]; rw [hφ.isZero _ hz]; ring
    · rw [if_neg hz]
      have hD' := nodup_iaddR squashB (iaddR squashB [] (scaleR squashB (m.sym w vg.1) (lift vg.2))) D hD
      obtain ⟨i1, i2⟩ := ih hr _ hD'
      refine ⟨i1, fun k => ?_⟩
      rw [i2 k, phi_get_iaddR hφ squashB _ D k hD,
        csumR_canon hφ (nodup_iaddR squashB _ [] List.nodup_nil) (sqKeys_iaddR squashB_idem _ (sqKeys_nil squashB)) k,
        phi_get_iaddR hφ squashB _ [] k List.nodup_nil,
        csumR_canon hφ (nodup_scaleR squashB _ _) (sqKeys_scaleR squashB_idem _ _) k,
        phi_get_scaleR hφ, csumR_lift hφ hg]
      simp only [gsum, getR, hφ.zero]; ring

theorem canon_certD0 (cs : List TermCert) : CanonP squashB (certD0 cs) := by
  rw [certD0_eq]; exact canon_iaddB canon_nil _

theorem canon_certGadgets (cs : List TermCert) : ∀ vg ∈ certGadgets cs, CanonP squashB vg.2 := by
  intro vg h
  unfold certGadgets at h
  obtain ⟨c, _, hc⟩ := List.mem_flatMap.1 h
  obtain ⟨s, _, rfl⟩ := List.mem_map.1 hc
  exact canon_gadget _ _ _

/-- the symbolic `D` read through `φ` -/
theorem symD_get (hφ : Hom φ) (m : LamMenu) (w : R) (cs : List TermCert) (next : Nat) :
    (keysR (symD (R := R) ⟨certD0 cs, certGadgets cs, next⟩ m w)).Nodup ∧
    ∀ k, φ (getR (symD (R := R) ⟨certD0 cs, certGadgets cs, next⟩ m w) k)
      = get (certD0 cs) k + gsum (fun v => φ (m.sym w v)) (certGadgets cs) k := by
  unfold symD
  obtain ⟨h1, h2⟩ := symFold_get hφ m w (certGadgets cs) (canon_certGadgets cs) (lift (certD0 cs))
    (nodup_lift (canon_certD0 cs).nodup)
  exact ⟨h1, fun k => by rw [h2 k, phi_get_lift hφ]⟩

end sym

/-- the menu entry evaluated at `c` is the numeric menu entry with `w(c)` -/
theorem menu_eval (c : Rat) (m : LamMenu) (w : RatPoly) (v : Rat) :
    RatPoly.evalAt c (m.sym w v) = (m.num (w.evalAt c)).app v := by
  have hφ := hom_evalAt c
  cases m
  · rfl
  · show RatPoly.evalAt c (Coef.mul (Coef.ofRat (Reduce.absR v)) w) = (w.evalAt c) * Reduce.absR v
    rw [hφ.mul, hφ.ofRat]; ring
  · show RatPoly.evalAt c (Coef.mul (Coef.ofRat v) w) = (w.evalAt c) * v + 0
    rw [hφ.mul, hφ.ofRat]; ring

theorem gsum_congr {f g : Rat → Rat} (h : ∀ v, f v = g v) (L : List (Rat × Poly)) (k : Key) : gsum f L k = gsum g L k := by
  induction L with
  | nil => rfl
  | cons vg r ih => simp only [gsum, ih, h]

/-- symbolic reduction at effective degree `d`, substituted at `c`, against the numeric reduction with the menu entry
at `w(c)` -/
theorem symReduce_core (terms : Poly) (mp : Mapping) (n d : Nat) (m : LamMenu) (w : RatPoly) (pairs : List Key) (c : Rat) :
    match (match reduceParts terms mp n d pairs with
            | .error e => (.error e : Except Err (PolyR RatPoly))
            | .ok p => .ok (symD p m w)),
          reduceCore terms mp n d (m.num (w.evalAt c)) pairs with
    | .ok Dsym, .ok o => (keysR Dsym).Nodup ∧ (keys o.D).Nodup ∧ ∀ k, get (subsR (RatPoly.evalAt c) Dsym) k = get o.D k
    | .error e, .error e' => e = e'
    | _, _ => False := by
  have hlin := reduceCore_lin terms mp n d (m.num (w.evalAt c)) pairs
  cases e1 : reduceCore terms mp n d (m.num (w.evalAt c)) pairs <;> cases e2 : reduceParts terms mp n d pairs <;>
    rw [e1, e2] at hlin <;> simp only [] at hlin ⊢
  · exact hlin.symm
  · rename_i o p
    obtain ⟨hl1, _, hl3⟩ := hlin
    -- `p` is built from the certificates of the run at penalty 1
    have hp : ∃ cs next, p = ⟨certD0 cs, certGadgets cs, next⟩ := by
      unfold reduceParts at e2
      split at e2
      · cases e2
      · injection e2 with e2; exact ⟨_, _, e2.symm⟩
    obtain ⟨cs, next, rfl⟩ := hp
    obtain ⟨h1, h2⟩ := symD_get (hom_evalAt c) m w cs next
    refine ⟨h1, hl3, fun k => ?_⟩
    rw [get_subsR (hom_evalAt c) _ k h1, h2 k, hl1 k]
    simp only []
    rw [gsum_congr (fun v => menu_eval c m w v)]

/-- the relation "substituted symbolic result = numeric result, coefficientwise; same exception otherwise" -/
def SubsAgree (c : Rat) (a : Except Err (PolyR RatPoly)) (b : Except Err Poly) : Prop :=
  match a, b with
  | .ok Dsym, .ok D => (keysR Dsym).Nodup ∧ (keys D).Nodup ∧ ∀ k, get (subsR (RatPoly.evalAt c) Dsym) k = get D k
  | .error e, .error e' => e = e'
  | _, _ => False

theorem symReduceDegree_subs (terms : Poly) (mp : Mapping) (n : Nat) (deg : Option Nat) (m : LamMenu) (w : RatPoly)
    (pairs : List Key) (c : Rat) :
    SubsAgree c (symReduceDegree terms mp n deg m w pairs)
      ((reduceDegree terms mp n deg (m.num (w.evalAt c)) pairs).map (fun o => o.D)) := by
  have core := fun d => symReduce_core terms mp n d m w pairs c
  unfold symReduceDegree reduceDegree SubsAgree
  cases deg with
  | none =>
    have := core (degree terms)
    simp only []
    cases e1 : reduceParts terms mp n (degree terms) pairs <;>
      cases e2 : reduceCore terms mp n (degree terms) (m.num (w.evalAt c)) pairs <;>
      rw [e1, e2] at this <;> simp only [Except.map] at this ⊢ <;> exact this
  | some d =>
    simp only []
    by_cases hd : d < 2
    · rw [if_pos hd, if_pos hd]; rfl
    · rw [if_neg hd, if_neg hd]
      have := core d
      cases e1 : reduceParts terms mp n d pairs <;>
        cases e2 : reduceCore terms mp n d (m.num (w.evalAt c)) pairs <;>
        rw [e1, e2] at this <;> simp only [Except.map] at this ⊢ <;> exact this

/-- **T16.2 for the boolean targets** (`to_pubo`, `to_qubo`) of a boolean model -/
theorem symRouteBool_subs (t : Target) (ht : t = .pubo ∨ t = .qubo) (terms : Poly) (mp : Mapping) (n : Nat)
    (deg : Option Nat) (m : LamMenu) (w : RatPoly) (pairs : List Key) (c : Rat) :
    SubsAgree c (symRouteBool t terms mp n deg m w pairs)
      ((routeBool t terms mp n deg (m.num (w.evalAt c)) pairs).map (fun o => o.res)) := by
  rcases ht with rfl | rfl
  · have := symReduceDegree_subs terms mp n deg m w pairs c
    unfold symRouteBool routeBool
    simp only []
    cases e : reduceDegree terms mp n deg (m.num (w.evalAt c)) pairs <;> rw [e] at this <;> exact this
  · have := symReduceDegree_subs terms mp n (some 2) m w pairs c
    unfold symRouteBool routeBool
    simp only []
    cases e : reduceDegree terms mp n (some 2) (m.num (w.evalAt c)) pairs <;> rw [e] at this <;> exact this

/-- **T16.2 for the boolean targets of a spin model** (`PUSO.to_pubo`, `PUSO.to_qubo`: `puso_to_pubo` first) -/
theorem symRouteSpin_subs (t : Target) (ht : t = .pubo ∨ t = .qubo) (terms : Poly) (mp : Mapping) (n : Nat)
    (deg : Option Nat) (m : LamMenu) (w : RatPoly) (pairs : List Key) (c : Rat) :
    SubsAgree c (symRouteSpin t terms mp n deg m w pairs)
      ((routeSpin t terms mp n deg (m.num (w.evalAt c)) pairs).map (fun o => o.res)) := by
  have := symRouteBool_subs t ht (pusoToPubo terms) mp n deg m w pairs c
  rcases ht with rfl | rfl <;> exact this

end Qv.Sym
