import Qv.Proofs.HeapOps
/-!
# Qv.Proofs.HeapInfo — `get_info`, `create_from_info`, the conversions and the annealer front end build fresh results
-/
namespace Qv.Hp
open Qv

theorem copyMapIf_fresh {n : Nat} {h h' : Heap} {m m' : Option Nat} (he : copyMapIf h m = some (h', m')) :
    FreshExt n h h' ∧ ∀ r ∈ m'.toList, h.length ≤ r ∧ r < h'.length := by
  cases m with
  | none =>
    simp only [copyMapIf, Option.some.injEq, Prod.mk.injEq] at he
    obtain ⟨rfl, rfl⟩ := he
    exact ⟨FreshExt.refl _ _, by simp⟩
  | some mr =>
    simp only [copyMapIf] at he
    split at he
    · simp only [Option.some.injEq, Prod.mk.injEq] at he
      obtain ⟨rfl, rfl⟩ := he
      exact ⟨FreshExt.alloc (by simp [Cell.refs]), by simp⟩
    · cases he

theorem consIf_fresh (F : Ctor) {n : Nat} {h h' : Heap} {o : Nat} {c c' : Option Nat} (hn : n ≤ h.length)
    (he : consIf F h o c = some (h', c')) :
    FreshExt n h h' ∧ ∀ r ∈ c'.toList, h.length ≤ r ∧ r < h'.length := by
  cases c with
  | none =>
    simp only [consIf, Option.some.injEq, Prod.mk.injEq] at he
    obtain ⟨rfl, rfl⟩ := he
    exact ⟨FreshExt.refl _ _, by simp⟩
  | some cr =>
    simp only [consIf] at he
    cases hg : getConstraints F h o with
    | none => simp [hg] at he
    | some p =>
      obtain ⟨h1, r⟩ := p
      simp only [hg, Option.some.injEq, Prod.mk.injEq] at he
      obtain ⟨rfl, rfl⟩ := he
      have hf := getConstraints_fresh (n := n) F hn hg
      exact ⟨hf.1, by
        intro r' hr'
        simp only [Option.toList, List.mem_singleton] at hr'
        subst hr'
        exact hf.2⟩

theorem getInfoH_fresh (F : Ctor) {n : Nat} {h h' : Heap} {o r : Nat} (hn : n ≤ h.length)
    (he : getInfoH F h o = some (h', r)) : FreshResult n h h' r := by
  unfold getInfoH at he
  split at he
  · rename_i d m _ _ c _
    simp only [alloc] at he
    have ha : FreshExt n h (h ++ [Cell.plain d.terms]) := FreshExt.alloc (by simp [Cell.refs])
    cases hm : copyMapIf (h ++ [Cell.plain d.terms]) m with
    | none => simp [hm] at he
    | some p =>
      obtain ⟨h2, m'⟩ := p
      simp only [hm] at he
      have hmf := copyMapIf_fresh (n := n) hm
      have hl2 := hmf.1.len
      simp at hl2
      cases hc : consIf F h2 o c with
      | none => simp [hc] at he
      | some q =>
        obtain ⟨h3, c'⟩ := q
        simp only [hc, Option.some.injEq, Prod.mk.injEq] at he
        obtain ⟨rfl, rfl⟩ := he
        have hcf := consIf_fresh (n := n) F (by omega) hc
        have hl3 := hcf.1.len
        refine ⟨((ha.trans hmf.1).trans hcf.1).alloc' ?_, by omega, by simp⟩
        intro r hr
        simp only [Cell.refs, List.mem_append, List.mem_singleton] at hr
        rcases hr with (rfl | hr) | hr
        · omega
        · have := hmf.2 r hr
          simp at this
          omega
        · have := hcf.2 r hr
          omega
  · cases he

/-! ### `create_from_info` -/

/-- every reference collected so far is a fresh cell -/
def AccOK (n : Nat) (h : Heap) (acc : List (Rel × List Nat)) : Prop :=
  ∀ e ∈ acc, ∀ r ∈ e.2, n ≤ r ∧ r < h.length

theorem AccOK.mono {n : Nat} {h h' : Heap} {acc : List (Rel × List Nat)} (a : AccOK n h acc)
    (hl : h.length ≤ h'.length) : AccOK n h' acc :=
  fun e he r hr => by
    have := a e he r hr
    omega

theorem appendRef_ok {n : Nat} {h : Heap} {rel : Rel} {p : Nat} (hp : n ≤ p ∧ p < h.length) :
    ∀ (acc : List (Rel × List Nat)), AccOK n h acc → AccOK n h (appendRef acc rel p)
  | [], _ => by
    intro e he r hr
    simp only [appendRef, List.mem_singleton] at he
    subst he
    simp only [List.mem_singleton] at hr
    subst hr
    exact hp
  | e0 :: t, a => by
    intro e he r hr
    simp only [appendRef] at he
    split at he
    · simp only [List.mem_cons] at he
      rcases he with rfl | he
      · simp only [List.mem_append, List.mem_singleton] at hr
        rcases hr with hr | rfl
        · exact a e0 (by simp) r hr
        · exact hp
      · exact a e (by simp [he]) r hr
    · simp only [List.mem_cons] at he
      rcases he with rfl | he
      · exact a _ (by simp) r hr
      · exact appendRef_ok hp t (fun e' he' => a e' (by simp [he'])) e he r hr

theorem readdList_fresh (F : Ctor) (κp : Kind) (rel : Rel) {n : Nat} :
    ∀ (xs : List Nat) (h h' : Heap) (acc acc' : List (Rel × List Nat)), n ≤ h.length → AccOK n h acc →
    readdList F κp rel h acc xs = some (h', acc') → FreshExt n h h' ∧ AccOK n h' acc'
  | [], h, h', acc, acc', _, ha, he => by
    simp only [readdList, Option.some.injEq, Prod.mk.injEq] at he
    obtain ⟨rfl, rfl⟩ := he
    exact ⟨FreshExt.refl _ _, ha⟩
  | x :: t, h, h', acc, acc', hn, ha, he => by
    simp only [readdList] at he
    cases ht : termsOf h x with
    | none => simp [ht] at he
    | some kt =>
      obtain ⟨κ, ts⟩ := kt
      simp only [ht] at he
      have hm := mkObj_fresh (n := n) (h := h) κp (F κp ts) none 0 none hn (by simp)
      have ih := readdList_fresh F κp rel t _ _ _ _ (Nat.le_trans hn hm.len)
        (appendRef_ok (rel := rel) ⟨Nat.le_trans hn hm.2.1, hm.2.2⟩ acc (ha.mono hm.len)) he
      exact ⟨hm.1.trans ih.1, ih.2⟩

theorem readdGroups_fresh (F : Ctor) (κp : Kind) {n : Nat} :
    ∀ (g : List (Rel × Nat)) (h h' : Heap) (acc acc' : List (Rel × List Nat)), n ≤ h.length → AccOK n h acc →
    readdGroups F κp h acc g = some (h', acc') → FreshExt n h h' ∧ AccOK n h' acc'
  | [], h, h', acc, acc', _, ha, he => by
    simp only [readdGroups, Option.some.injEq, Prod.mk.injEq] at he
    obtain ⟨rfl, rfl⟩ := he
    exact ⟨FreshExt.refl _ _, ha⟩
  | e :: t, h, h', acc, acc', hn, ha, he => by
    simp only [readdGroups] at he
    split at he
    · rename_i xs _
      cases hl : readdList F κp e.1 h acc xs with
      | none => simp [hl] at he
      | some p =>
        obtain ⟨h1, acc1⟩ := p
        simp only [hl] at he
        have h1f := readdList_fresh F κp e.1 xs h h1 acc acc1 hn ha hl
        have ih := readdGroups_fresh F κp t h1 h' acc1 acc' (Nat.le_trans hn h1f.1.len) h1f.2 he
        exact ⟨h1f.1.trans ih.1, ih.2⟩
    · cases he

theorem allocLists_fresh {n : Nat} : ∀ (acc : List (Rel × List Nat)) (h : Heap), AccOK n h acc →
    FreshExt n h (allocLists h acc).1 ∧
      ∀ e ∈ (allocLists h acc).2, h.length ≤ e.2 ∧ e.2 < (allocLists h acc).1.length
  | [], h, _ => by
    simp only [allocLists]
    exact ⟨FreshExt.refl _ _, by simp⟩
  | e :: t, h, ha => by
    simp only [allocLists, alloc]
    have h1 : FreshExt n h (h ++ [Cell.list e.2]) := FreshExt.alloc (by
      intro r hr
      exact ha e (by simp) r (by simpa [Cell.refs] using hr))
    have ht : AccOK n h t := fun e' he' => ha e' (by simp [he'])
    have ih := allocLists_fresh t (h ++ [Cell.list e.2]) (ht.mono (by simp))
    have hl := ih.1.len
    simp at hl
    refine ⟨h1.trans ih.1, ?_⟩
    intro e' he'
    simp only [List.mem_cons] at he'
    rcases he' with rfl | he'
    · simp only; omega
    · have := ih.2 e' he'
      simp at this
      omega

theorem createFromInfoH_fresh (F : Ctor) {n : Nat} {h h' : Heap} {i r : Nat} (hn : n ≤ h.length)
    (he : createFromInfoH F h i = some (h', r)) : FreshResult n h h' r := by
  unfold createFromInfoH at he
  split at he
  · rename_i κ name anc t m c _
    cases ht : termsOf h t with
    | none => simp [ht] at he
    | some kt =>
      obtain ⟨κt, ts⟩ := kt
      simp only [ht] at he
      split at he
      · cases he
      · rename_i pl' _
        split at he
        · split at he
          · cases he
          · rename_i g _
            cases hr : readdGroups F (consKind κ) h [] g with
            | none => simp [hr] at he
            | some p =>
              obtain ⟨h1, acc⟩ := p
              simp only [hr, alloc, Option.some.injEq] at he
              have h1f := readdGroups_fresh (n := n) F (consKind κ) g h h1 [] acc hn (by intro e he; simp at he) hr
              have hlf := allocLists_fresh (n := n) acc h1 h1f.2
              have hl1 := h1f.1.len
              have hl2 := hlf.1.len
              have hcd : FreshExt n h1 ((allocLists h1 acc).1 ++ [Cell.cdict (allocLists h1 acc).2]) :=
                hlf.1.alloc' (by
                  intro r hr'
                  simp only [Cell.refs, List.mem_map] at hr'
                  obtain ⟨e, he', rfl⟩ := hr'
                  have := hlf.2 e he'
                  omega)
              have hm := mkObj_fresh (n := n) (h := (allocLists h1 acc).1 ++ [Cell.cdict (allocLists h1 acc).2])
                κ pl' name anc (some (allocLists h1 acc).1.length) (by simp; omega) (by
                  intro r hr'
                  simp only [Option.toList, List.mem_singleton] at hr'
                  subst hr'
                  simp; omega)
              rw [Prod.ext_iff] at he
              obtain ⟨rfl, rfl⟩ := he
              exact FreshResult.after (h1f.1.trans hcd) hm
        · split at he
          · cases he
          · simp only [Option.some.injEq] at he
            have hm := mkObj_fresh (n := n) (h := h) κ pl' name 0 none hn (by simp)
            rw [Prod.ext_iff] at he
            obtain ⟨rfl, rfl⟩ := he
            exact hm
  · cases he

theorem roundTrip_fresh (F : Ctor) {n : Nat} {h h' : Heap} {o r : Nat} (hn : n ≤ h.length)
    (he : roundTrip F h o = some (h', r)) : FreshResult n h h' r := by
  unfold roundTrip at he
  cases hg : getInfoH F h o with
  | none => simp [hg] at he
  | some p =>
    obtain ⟨h1, i⟩ := p
    simp only [hg] at he
    have h1f := getInfoH_fresh (n := n) F hn hg
    exact FreshResult.after h1f.1 (createFromInfoH_fresh F (Nat.le_trans hn h1f.len) he)

/-! ### conversions, annealer front end -/

theorem convH_fresh {n : Nat} {h h' : Heap} {a r : Nat} {κres : Kind} {pl : Payload} (hn : n ≤ h.length)
    (he : convH h a κres pl = some (h', r)) : FreshResult n h h' r := by
  unfold convH at he
  split at he
  · cases he
  · split at he
    · cases he
    · simp only [Option.some.injEq] at he
      have hm := mkObj_fresh (n := n) (h := h) κres pl none 0 none hn (by simp)
      rw [Prod.ext_iff] at he
      obtain ⟨rfl, rfl⟩ := he
      exact hm

theorem allocPlains_fresh {n : Nat} : ∀ (k : Nat) (h : Heap),
    FreshExt n h (allocPlains h k).1 ∧ ∀ r ∈ (allocPlains h k).2, h.length ≤ r ∧ r < (allocPlains h k).1.length
  | 0, h => by simp only [allocPlains]; exact ⟨FreshExt.refl _ _, by simp⟩
  | k + 1, h => by
    simp only [allocPlains, alloc]
    have h1 : FreshExt n h (h ++ [Cell.plain []]) := FreshExt.alloc (by simp [Cell.refs])
    have ih := allocPlains_fresh (n := n) k (h ++ [Cell.plain []])
    have hl := ih.1.len
    simp at hl
    refine ⟨h1.trans ih.1, ?_⟩
    intro r hr
    simp only [List.mem_cons] at hr
    rcases hr with rfl | hr
    · omega
    · have := ih.2 r hr
      simp at this
      omega

theorem annealH_fresh {n : Nat} {h h' : Heap} {a r : Nat} {init : Option Nat} {κtmp : Kind} {pl : Payload}
    {nres : Nat} (hn : n ≤ h.length) (he : annealH h a init κtmp pl nres = some (h', r)) : FreshResult n h h' r := by
  unfold annealH at he
  split at he
  · cases he
  · by_cases hb : (initOk h init && !κtmp.isConstrained) = true
    · simp only [hb, if_true, alloc, Option.some.injEq, Prod.mk.injEq] at he
      obtain ⟨rfl, rfl⟩ := he
      have hm := mkObj_fresh (n := n) (h := h) κtmp pl none 0 none hn (by simp)
      have hp := allocPlains_fresh (n := n) nres (mkObj h κtmp pl none 0 none).1
      have hl1 := hm.len
      have hl2 := hp.1.len
      refine ⟨(hm.1.trans hp.1).alloc' ?_, by omega, by simp⟩
      intro r hr
      have := hp.2 r (by simpa [Cell.refs] using hr)
      omega
    · simp only [hb] at he
      cases he

end Qv.Hp
