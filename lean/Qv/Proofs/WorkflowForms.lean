import Qv.Props.C01
import Qv.Props.C04
import Mathlib.Tactic.Linarith
/-!
# C08: minimisers of the reduced / converted forms are minimisers of the model (for T8.2)
-/
namespace Qv.Workflow
open Qv Qv.Reduce

variable {n deg : Nat} {items terms : Poly} {m : Reduce.Mapping} {fr : Freq} {certs : List TermCert} {rst : RSt}

/-- **boolean targets (`to_pubo`, `to_qubo`).**  `items` are the model's terms in its own labels, `terms` the same
relabelled through `mapping` (`mapSelf`), `rst.D` the result of a degree reduction accepted by the specification
checker of C01 with admissible penalties.  `rev` is `reverse_mapping`: `rev (mapping l) = l` on the labels of the
model.  Then every boolean minimiser `s` of `D` read through the mapping, `x = (l ↦ s (mapping l))` — this is
`convert_solution(s)` —, is a boolean minimiser of the model, and `D(s)` is the model's value at `x`. -/
theorem reduced_minimiser (hm : mapSelf m items [] [] = .ok (terms, fr)) (h : replay n deg terms certs = .ok rst)
    (hl : ∀ c ∈ certs, c.steps ≠ [] → |c.v| ≤ c.lam) (rev : Var → Var)
    (hrev : ∀ kv ∈ items, ∀ l ∈ kv.1, rev (mfun m l) = l)
    (s : Var → Rat) (hs : IsBool s) (hmin : ∀ s', IsBool s' → eval s rst.D ≤ eval s' rst.D) :
    IsBool (fun l => s (mfun m l)) ∧
    (∀ y, IsBool y → eval (fun l => s (mfun m l)) items ≤ eval y items) ∧
    eval s rst.D = eval (fun l => s (mfun m l)) items := by
  obtain ⟨h1, h2⟩ := C01.minimiser_restricts h hl s hs hmin
  have e : ∀ t : Var → Rat, eval t terms = eval (fun l => t (mfun m l)) items := by
    intro t
    have := eval_mapSelf t hm
    rwa [eval_nil, zero_add] at this
  refine ⟨fun l => hs (mfun m l), fun y hy => ?_, by rw [h2, e s]⟩
  have hb : IsBool (fun j => y (rev j)) := fun j => hy (rev j)
  have h3 := h1 _ hb
  rw [e s, e (fun j => y (rev j))] at h3
  have : eval (fun l => (fun j => y (rev j)) (mfun m l)) items = eval y items :=
    Reduce.eval_congr (fun kv hkv l hl' => by show y (rev (mfun m l)) = y l; rw [hrev kv hkv l hl'])
  rwa [this] at h3

/-- **spin targets (`to_puso`, `to_quso`).**  If `L` takes at every spin assignment `z` the value of `D` at
`spin_to_boolean(z)` (C01 `puso_target_value` / `quso_target_value`, C04 T4.1 / T4.3), every spin minimiser of `L`
is, read as booleans, a boolean minimiser of `D`. -/
theorem spin_form_minimiser {D L : Poly} (hL : ∀ z, IsSpin z → eval z L = eval (Reduce.s2b z) D)
    (z : Var → Rat) (hz : IsSpin z) (hmin : ∀ z', IsSpin z' → eval z L ≤ eval z' L) :
    IsBool (Reduce.s2b z) ∧ (∀ s', IsBool s' → eval (Reduce.s2b z) D ≤ eval s' D) ∧
      eval z L = eval (Reduce.s2b z) D := by
  refine ⟨s2b_bool hz, fun s' hs' => ?_, hL z hz⟩
  have := hmin (Reduce.b2s s') (b2s_spin hs')
  rwa [hL z hz, hL _ (b2s_spin hs'), Reduce.s2b_b2s] at this

/-- **spin source (PCSO).**  The boolean image `P = puso_to_pubo(H)` has at every boolean `x` the value of the spin
model at `boolean_to_spin(x)`; a boolean minimiser of `P` is, read as spins, a spin minimiser of `H`. -/
theorem spin_source_minimiser {H P : Poly} (hP : ∀ x, IsBool x → eval x P = eval (Reduce.b2s x) H)
    (x : Var → Rat) (hx : IsBool x) (hmin : ∀ x', IsBool x' → eval x P ≤ eval x' P) :
    IsSpin (Reduce.b2s x) ∧ (∀ z', IsSpin z' → eval (Reduce.b2s x) H ≤ eval z' H) ∧
      eval x P = eval (Reduce.b2s x) H := by
  refine ⟨b2s_spin hx, fun z' hz' => ?_, hP x hx⟩
  have := hmin (Reduce.s2b z') (s2b_bool hz')
  rwa [hP x hx, hP _ (s2b_bool hz'), Reduce.b2s_s2b] at this

end Qv.Workflow
