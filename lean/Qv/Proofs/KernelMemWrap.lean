import Qv.Proofs.KernelMemQuso
/-!
# Qv.Proofs.KernelMemWrap — the marshalling of `_canneal.c`, and `c_anneal_quso` end to end
-/
namespace Qv.KMem
open Qv.Kernel (Src OfInt ofInt)

theorem marshal_ok {β : Type} {conv : β → M β} {l : List β} {n : Nat} {buf : Buf β} {p0 p : Nat → β → Prop}
    (hb : buf.Upto n 0 p0) (hn : n ≤ l.length)
    (hc : ∀ i v, i < n → l[i]? = some v → Ok (conv v) (fun w => p i w)) :
    Ok (marshal conv l n buf) (fun b => b.Upto n n p) := by
  unfold marshal
  refine forNM_ok (fun i (b : Buf β) => b.Upto n i p) _ _ _ hb.zero fun i b hi hI => ?_
  refine Ok.bind (pyGet_ok (show i < l.length by omega)) fun o ho => ?_
  refine Ok.bind (hc i o hi ho) fun v hv => ?_
  exact wr_next hI hi v hv

theorem flatIndex_ok (long : Bool) {i na N j : Nat} (hi : i < na) (hj : j < N) (hT : na * N ≤ 2147483647) :
    Ok (flatIndex long i N j) (fun ix => ix = ((i * N + j : Nat) : Int)) := by
  unfold flatIndex
  have hlt := flat_index_lt (N := N) hi hj
  cases long
  · simp only [Bool.false_eq_true, ↓reduceIte]
    refine Ok.bind (imul_flat (row_le hi) hT) fun p hp => ?_
    subst hp
    exact iadd_flat hlt hT
  · simp only [↓reduceIte]
    refine Ok.bind (lmul_flat (row_le hi) hT) fun p hp => ?_
    subst hp
    exact ladd_flat hlt hT

theorem encodeInit_ok (long : Bool) {na N : Nat} {init : List Int} (hlen : init.length = N)
    (hsp : ∀ x ∈ init, x = 1 ∨ x = -1) (hT : na * N ≤ 2147483647) {states : Buf Int} {p0 : Nat → Int → Prop}
    (hst : states.Upto (na * N) 0 p0) :
    Ok (encodeInit long (na : Int) N init states) (fun s => s.Upto (na * N) (na * N) Spins) := by
  unfold encodeInit
  rw [Int.toNat_natCast]
  refine (forNM_ok (fun i (s : Buf Int) => s.Upto (na * N) (i * N) Spins) _ _ _ (by simpa using hst.zero)
    fun i s hi hI => ?_)
  have e : (i + 1) * N = i * N + N := by rw [Nat.add_mul]; simp
  rw [e]
  refine forNM_ok (fun j (s : Buf Int) => s.Upto (na * N) (i * N + j) Spins) _ _ _ (by simpa using hI)
    fun j s hj hI => ?_
  have hlt := flat_index_lt (N := N) hi hj
  refine Ok.bind (flatIndex_ok long hi hj hT) fun ix hix => ?_
  subst hix
  refine Ok.bind (pyGet_ok (show j < init.length by omega)) fun o ho => ?_
  have hso := hsp o (mem_of_getElem? ho)
  refine Ok.bind (toInt_ok (by rcases hso with rfl | rfl <;> decide)) fun v hv => ?_
  subst hv
  exact wr_next hI hlt _ hso

theorem buildPy_ok {α : Type} {na N : Nat} (hT : na * N ≤ 2147483647) {states : Buf Int} {values : Buf α}
    (hst : states.Upto (na * N) (na * N) Spins) (hv : values.Upto na na Any) :
    Ok (buildPy (na : Int) N states values)
      (fun out => out.length = na ∧ ∀ sv ∈ out, sv.1.length = N ∧ ∀ x ∈ sv.1, x = 1 ∨ x = -1) := by
  unfold buildPy
  rw [Int.toNat_natCast]
  refine forNM_ok (fun i (out : List (List Int × α)) =>
    out.length = i ∧ ∀ sv ∈ out, sv.1.length = N ∧ ∀ x ∈ sv.1, x = 1 ∨ x = -1) _ _ _ (by simp)
    fun i out hi hI => ?_
  refine Ok.bind (forNM_ok (fun j (st : List Int) => st.length = j ∧ ∀ x ∈ st, x = 1 ∨ x = -1) _ _ _ (by simp)
    fun j st hj hJ => ?_) fun st hst' => ?_
  · have hlt := flat_index_lt (N := N) hi hj
    refine Ok.bind (imul_flat (row_le hi) hT) fun p hp => ?_
    subst hp
    refine Ok.bind (iadd_flat hlt hT) fun ix hix => ?_
    subst hix
    refine Ok.bind (rd_ok hst _ hlt) fun v hv' => ?_
    refine Ok.pure ⟨by simp [hJ.1], fun x hx => ?_⟩
    rcases List.mem_append.mp hx with hx | hx
    · exact hJ.2 x hx
    · simp at hx; subst hx; exact hv'
  · refine Ok.bind (rd_ok hv i hi) fun v _ => ?_
    refine Ok.pure ⟨by simp [hI.1], fun sv hsv => ?_⟩
    rcases List.mem_append.mp hsv with h | h
    · exact hI.2 sv h
    · simp at h; subst h; exact hst'

end Qv.KMem
