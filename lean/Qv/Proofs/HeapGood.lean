import Qv.Proofs.HeapCapture
import Qv.Model.HeapArith
/-!
# Qv.Proofs.HeapGood — one summary of what an in-place operation does to the heap

`Good n T h h'`: relative to the first `n` cells, the operation wrote old cells only inside `T`, kept the heap closed,
and gave no old cell a new reference to an old cell (`Edges`).  Primitive steps (`alloc`, `write`, a fresh extension)
are `Good`, `Good` composes, and an operation that is `Good` with a footprint inside the cells of a fresh result keeps
that result fresh (`FreshResult.good`).
-/
namespace Qv.Hp
open Qv

structure Good (n : Nat) (T : List Nat) (h h' : Heap) : Prop where
  frame : FrameN n T h h'
  closed : Closed h → Closed h'
  edges : ∀ h0, Edges n h0 h → Edges n h0 h'

theorem Good.refl (n : Nat) (T : List Nat) (h : Heap) : Good n T h h :=
  ⟨FrameN.refl _ _ _, id, fun _ e => e⟩

theorem Good.trans {n : Nat} {T : List Nat} {h h' h'' : Heap} (g1 : Good n T h h') (g2 : Good n T h' h'') :
    Good n T h h'' :=
  ⟨g1.frame.trans g2.frame, fun hc => g2.closed (g1.closed hc), fun h0 e => g2.edges h0 (g1.edges h0 e)⟩

theorem Good.mono {n : Nat} {T T' : List Nat} {h h' : Heap} (g : Good n T h h') (hT : ∀ t ∈ T, t ∈ T') :
    Good n T' h h' :=
  ⟨⟨g.frame.1, fun c hc hn => g.frame.2 c hc (fun hm => hn (hT c hm))⟩, g.closed, g.edges⟩

theorem Good.len {n : Nat} {T : List Nat} {h h' : Heap} (g : Good n T h h') : h.length ≤ h'.length := g.frame.1

theorem Good.of_fresh {n : Nat} {h h' : Heap} (T : List Nat) (hn : n ≤ h.length) (e : FreshExt n h h') : Good n T h h' :=
  ⟨FrameN.of_fresh e T hn, fun hc => hc.fresh e, fun _ ed => ed.fresh hn e⟩

/-- allocation of a cell that refers to existing fresh cells only -/
theorem Good.alloc {n : Nat} (T : List Nat) {h : Heap} {cell : Cell} (hn : n ≤ h.length)
    (hr : ∀ q ∈ cell.refs, n ≤ q ∧ q < h.length) : Good n T h (h ++ [cell]) :=
  Good.of_fresh T hn (FreshExt.alloc hr)

/-- a write inside the footprint whose new references are the old ones of that cell or fresh cells -/
theorem Good.write {n : Nat} {T : List Nat} {h : Heap} {r : Nat} {cell : Cell} (hT : r < n → r ∈ T)
    (hlt : Closed h → ∀ q ∈ cell.refs, q < h.length)
    (hr : ∀ old, h[r]? = some old → ∀ q ∈ cell.refs, q ∈ old.refs ∨ n ≤ q) : Good n T h (write h r cell) :=
  ⟨FrameN.write cell hT, fun hc => hc.write (hlt hc), fun _ e => e.write hr⟩

theorem Good.writeIf {n : Nat} {T : List Nat} {h : Heap} {m : Option Nat} {cell : Cell}
    (hT : ∀ r ∈ m.toList, r < n → r ∈ T) (hr : cell.refs = []) : Good n T h (writeIf h m cell) := by
  cases m with
  | none => exact Good.refl _ _ _
  | some r =>
    exact Good.write (hT r (by simp)) (by rw [hr]; intro _ q hq; cases hq) (by rw [hr]; intro _ _ q hq; cases hq)

/-- `applyUpd` on a model object -/
theorem applyUpd_good {n : Nat} {h h' : Heap} {o : Nat} {u : Upd} (he : applyUpd h o u = some h') :
    Good n (mutFootprint h o) h h' := by
  cases hcell : h[o]? with
  | none => simp [applyUpd, hcell] at he
  | some cell =>
    cases cell with
    | obj d m rm v c =>
      obtain ⟨hf, _, hcl, _⟩ := applyUpd_obj hcell he
      refine ⟨hf (fun x hx _ => by simpa [mutFootprint, hcell] using hx), hcl, fun _ e => applyUpd_edges e he⟩
    | plain t =>
      obtain ⟨hf, _, hcl⟩ := applyUpd_plain hcell he
      refine ⟨hf (fun _ => by simp [mutFootprint, hcell]), hcl, fun _ e => applyUpd_edges e he⟩
    | _ => simp [applyUpd, hcell] at he

/-! ### an operation on a fresh result keeps it fresh -/

theorem prefix_of_get {h g : Heap} (hl : h.length ≤ g.length) (hg : ∀ c, c < h.length → g[c]? = h[c]?) :
    ∃ l, g = h ++ l := by
  refine ⟨g.drop h.length, ?_⟩
  apply List.ext_getElem?
  intro i
  rcases Nat.lt_or_ge i h.length with h1 | h1
  · rw [get_append_old h1, hg i h1]
  · rw [List.getElem?_append_right h1, List.getElem?_drop]
    congr 1
    omega

/-- the footprint lies in the fresh region -/
theorem FreshResult.good {h g g' : Heap} {d : Nat} {T : List Nat} (hc : Closed h) (f : FreshResult h.length h g d)
    (gd : Good h.length T g g') (hT : ∀ t ∈ T, h.length ≤ t) : FreshResult h.length h g' d := by
  have hlen := gd.len
  have hold : ∀ c, c < h.length → g'[c]? = h[c]? := fun c hc' => by
    rw [gd.frame.2 c hc' (fun hm => by have := hT c hm; omega)]
    exact f.1.old hc'
  have hcl : Closed g' := gd.closed (hc.fresh f.1)
  have hed : Edges h.length h g' := gd.edges h ((Edges.refl h).fresh (Nat.le_refl _) f.1)
  refine ⟨⟨prefix_of_get (Nat.le_trans f.len hlen) hold, ?_⟩, f.2.1, Nat.lt_of_lt_of_le f.2.2 hlen⟩
  intro c cell hcge hg q hq
  exact ⟨hed.2 c cell hcge hg q hq, hcl c cell hg q hq⟩

/-- the cells `applyUpd` writes in a fresh object are fresh -/
theorem FreshResult.footprint_fresh {h g : Heap} {d : Nat} (f : FreshResult h.length h g d) :
    ∀ t ∈ mutFootprint g d, h.length ≤ t := by
  intro t ht
  unfold mutFootprint at ht
  split at ht
  · rename_i dd m rm v c hcell
    simp only [List.mem_cons] at ht
    rcases ht with rfl | ht
    · exact f.2.1
    · exact (f.1.up d _ f.2.1 hcell t (by
        simp only [Cell.refs, List.mem_append] at ht ⊢
        exact Or.inl ht)).1
  · simp only [List.mem_singleton] at ht
    subst ht
    exact f.2.1

/-! ### what a confined call leaves alone -/

/-- the object at `x` is exactly what it was: same abstract value, same reachable cells, same cell contents -/
def Unchanged (h h' : Heap) (x : Nat) : Prop :=
  absVal h' x = absVal h x ∧ (∀ c, Reach h' x c ↔ Reach h x c) ∧ (∀ c, Reach h x c → h'[c]? = h[c]?)

/-- the call wrote old cells only inside `T`: the heap stays closed, every old object none of whose cells is in `T` is
unchanged, and no old object reaches an old cell it did not reach before (nothing is captured) -/
structure Confined (T : List Nat) (h h' : Heap) : Prop where
  closed : Closed h'
  frame : ∀ c, c < h.length → c ∉ T → h'[c]? = h[c]?
  unchanged : ∀ x, x < h.length → (∀ c, Reach h x c → c ∉ T) → Unchanged h h' x
  no_capture : ∀ x c, x < h.length → Reach h' x c → h.length ≤ c ∨ Reach h x c

theorem Good.confined {T : List Nat} {h h' : Heap} (g : Good h.length T h h') (hc : Closed h) : Confined T h h' := by
  refine ⟨g.closed hc, g.frame.2, ?_, ?_⟩
  · intro x hx hd
    have hag : ∀ c, Reach h x c → h'[c]? = h[c]? := fun c hr => g.frame.2 c (hr.lt hc hx) (hd c hr)
    exact ⟨absVal_congr hag, fun c => Reach.congr hag, hag⟩
  · intro x c hx hr
    exact (g.edges h (Edges.refl h)).reach hc hx hr

end Qv.Hp
