import Qv.Model.Book2
import Qv.Proofs.Book
/-!
# Qv.Proofs.Book2 — the constructor-level model of `Qv/Model/Book2.lean` agrees with `Qv.Model.Book` (C14)

`Book2.clear / copy / refresh / initWith` run the `__init__` chain on the object itself; `Book.clear / copy / refresh /
cast` say what that amounts to on a fresh object.  They agree on every state whose absent attributes hold their defaults
(`Shape`), and `Shape` holds along every history (`shape_history`).
-/
namespace Qv.Book2
open Qv Qv.Book

/-! ## what `__setitem__` and the loops over it leave alone -/

/-- same class, same ancilla counter, same recorded constraints -/
def Keep (s s' : State) : Prop := s'.kind = s.kind ∧ s'.ancilla = s.ancilla ∧ s'.constraints = s.constraints

theorem Keep.refl (s : State) : Keep s s := ⟨rfl, rfl, rfl⟩
theorem Keep.trans {a b c : State} (h1 : Keep a b) (h2 : Keep b c) : Keep a c :=
  ⟨h2.1.trans h1.1, h2.2.1.trans h1.2.1, h2.2.2.trans h1.2.2⟩

theorem setitem_keep {fx : Fix} {s s' : State} {k : Key} {v : Rat} (h : setitem fx s k v = .ok s') : Keep s s' := by
  obtain ⟨m, hm, rfl⟩ := setitem_ok h
  obtain ⟨_, _, e1, _, _, _, e2, e3, _⟩ := matSet_spec hm
  split
  · obtain ⟨g1, _, _, _, _, g2, g3⟩ := regLabels_fields fx k m
    exact ⟨g1.trans e1, g2.trans e2, g3.trans e3⟩
  · exact ⟨e1, e2, e3⟩

theorem augitem_keep {fx : Fix} {s s' : State} {k : Key} {a : Aug} {d : Rat} (h : augitem fx s k a d = .ok s') :
    Keep s s' := by
  simp only [augitem, bind_ok_iff] at h
  obtain ⟨_, _, _, _, h⟩ := h
  exact setitem_keep h

theorem loop_keep {α : Type} {f : State → α → Except Err State} (hf : ∀ s a s', f s a = .ok s' → Keep s s')
    (l : List α) (s : State) : Keep s (loop f s l).1 := by
  induction l generalizing s with
  | nil => exact Keep.refl s
  | cons a r ih =>
    unfold loop
    cases hfa : f s a with
    | ok s' => exact (hf s a s' hfa).trans (ih s')
    | error e => exact Keep.refl s

theorem iaddLoop_keep (fx : Fix) (s : State) (q : Poly) : Keep s (iaddLoop fx s q).1 :=
  loop_keep (fun _ _ _ h => augitem_keep h) q s

theorem isubLoop_keep (fx : Fix) (s : State) (q : Poly) : Keep s (isubLoop fx s q).1 :=
  loop_keep (fun _ _ _ h => augitem_keep h) q s

/-! ## frame: `__setitem__` neither reads nor writes `_ancilla` / `_constraints` -/

/-- the state with other values of the two constraint attributes -/
def withAC (a : Nat) (c : List (Rel × Poly)) (s : State) : State := { s with ancilla := a, constraints := c }

theorem addVar_withAC (a : Nat) (c : List (Rel × Poly)) (s : State) (i : Var) :
    addVar (withAC a c s) i = withAC a c (addVar s i) := by
  unfold addVar withAC
  split <;> rfl

theorem foldl_addVar_withAC (a : Nat) (c : List (Rel × Poly)) (k : Key) :
    ∀ s : State, k.foldl addVar (withAC a c s) = withAC a c (k.foldl addVar s) := by
  induction k with
  | nil => intro s; rfl
  | cons i r ih => intro s; rw [List.foldl_cons, List.foldl_cons, addVar_withAC, ih]

theorem matSet_withAC (a : Nat) (c : List (Rel × Poly)) (s : State) (k : Key) (v : Rat) :
    matSet (withAC a c s) k v = (matSet s k v).map (withAC a c) := by
  unfold matSet
  have hk : (withAC a c s).kind = s.kind := rfl
  rw [hk]
  cases squash s.kind k with
  | error e => rfl
  | ok k' =>
    simp only [bind, Except.bind, pure, Except.pure, Except.map]
    by_cases hv : v = 0
    · simp only [hv, if_true]; rfl
    · have h2 := foldl_addVar_withAC a c k' { s with degree := maxDeg s.degree k'.length }
      simp only [withAC] at h2 ⊢
      simp only [hv, if_false, h2]

theorem regLabel_withAC (a : Nat) (c : List (Rel × Poly)) (s : State) (i : Var) :
    regLabel (withAC a c s) i = withAC a c (regLabel s i) := by
  unfold regLabel mapDom withAC
  split <;> rfl

theorem regLabels_withAC (fx : Fix) (a : Nat) (c : List (Rel × Poly)) (k : Key) :
    ∀ s : State, regLabels fx (withAC a c s) k = withAC a c (regLabels fx s k) := by
  unfold regLabels
  induction k with
  | nil => intro s; rfl
  | cons i r ih =>
    intro s
    rw [List.foldl_cons, List.foldl_cons]
    have hv : (withAC a c s).variables = s.variables := rfl
    rw [hv]
    split
    · exact ih s
    · rw [regLabel_withAC]; exact ih _

theorem setitem_withAC (fx : Fix) (a : Nat) (c : List (Rel × Poly)) (s : State) (k : Key) (v : Rat) :
    setitem fx (withAC a c s) k v = (setitem fx s k v).map (withAC a c) := by
  unfold setitem
  rw [matSet_withAC]
  have hk : (withAC a c s).kind = s.kind := rfl
  rw [hk]
  cases matSet s k v with
  | error e => rfl
  | ok m =>
    simp only [bind, Except.bind, pure, Except.pure, Except.map]
    split
    · rw [regLabels_withAC]
    · rfl

theorem augitem_withAC (fx : Fix) (a : Nat) (c : List (Rel × Poly)) (s : State) (k : Key) (g : Aug) (d : Rat) :
    augitem fx (withAC a c s) k g d = (augitem fx s k g d).map (withAC a c) := by
  unfold augitem
  have hk : (withAC a c s).kind = s.kind := rfl
  have ht : (withAC a c s).terms = s.terms := rfl
  rw [hk, ht]
  cases squash s.kind k with
  | error e => rfl
  | ok k' =>
    simp only [bind, Except.bind]
    cases augVal g (get s.terms k') d with
    | error e => rfl
    | ok new => simp only [setitem_withAC]

theorem loop_withAC {α : Type} (a : Nat) (c : List (Rel × Poly)) (f : State → α → Except Err State)
    (hf : ∀ s x, f (withAC a c s) x = (f s x).map (withAC a c)) (l : List α) :
    ∀ s : State, loop f (withAC a c s) l = (withAC a c (loop f s l).1, (loop f s l).2) := by
  induction l with
  | nil => intro s; rfl
  | cons x r ih =>
    intro s
    unfold loop
    rw [hf]
    cases f s x with
    | ok s' => simp only [Except.map]; exact ih s'
    | error e => rfl

theorem iaddLoop_withAC (fx : Fix) (a : Nat) (c : List (Rel × Poly)) (s : State) (q : Poly) :
    iaddLoop fx (withAC a c s) q = (withAC a c (iaddLoop fx s q).1, (iaddLoop fx s q).2) :=
  loop_withAC a c _ (fun s x => augitem_withAC fx a c s x.1 .add x.2) q s

/-! ## bridges to `Qv.Model.Book` -/

theorem resetCaches_init (κ : Kind) : resetCaches (init κ) = init κ := by
  unfold resetCaches init
  split <;> rfl

theorem withAC_self {t : State} {a : Nat} {c : List (Rel × Poly)} (h1 : t.ancilla = a) (h2 : t.constraints = c) :
    withAC a c t = t := by
  cases t; simp only [withAC] at *; subst h1; subst h2; rfl

/-- **`T(d)`** — a new object of class `κ` initialised with `d` — is the model's `cast` (same result, same exception) -/
theorem initWith_fresh_eq_cast (fx : Fix) (κ : Kind) (d : State) (hd : Shape d) :
    toExcept (initWith fx (init κ) (some d)) = toExcept (Book.cast fx d κ) := by
  unfold initWith Book.cast
  rw [resetCaches_init]
  have hk := iaddLoop_keep fx (init κ) d.terms
  simp only [argTerms]
  cases hl : iaddLoop fx (init κ) d.terms with
  | mk t e =>
    rw [hl] at hk
    have k1 : t.kind = κ := hk.1
    have ka : t.ancilla = 0 := hk.2.1
    have kc : t.constraints = [] := hk.2.2
    cases e with
    | some e => rfl
    | none =>
      simp only [toExcept, takeCons]
      congr 1
      by_cases hc : hasCons κ = true
      · have hct : hasCons t.kind = true := by rw [k1]; exact hc
        rw [if_pos hct]
        by_cases hdk : d.kind = κ
        · have e1 : d.kind = t.kind := hdk.trans k1.symm
          have e2 : (κ == d.kind) = true := by simp [hdk]
          rw [if_pos e1, if_pos e2]
        · have e1 : ¬ d.kind = t.kind := fun e => hdk (e.trans k1)
          have e2 : ¬ (κ == d.kind) = true := by simpa using fun e => hdk (Eq.symm e)
          rw [if_neg e1, if_neg e2]
          exact withAC_self ka kc
      · have hc' : hasCons κ = false := by simpa using hc
        have hct : ¬ hasCons t.kind = true := by rw [k1]; exact hc
        rw [if_neg hct]
        by_cases hdk : κ = d.kind
        · have e2 : (κ == d.kind) = true := by simp [hdk]
          rw [if_pos e2]
          have hs := hd.2 (by rw [← hdk]; exact hc')
          exact (withAC_self (ka.trans hs.1.symm) (kc.trans hs.2.symm)).symm
        · have e2 : ¬ (κ == d.kind) = true := by simpa using hdk
          rw [if_neg e2]

/-- **`copy()`** (`self.__class__(self)`) is the model's `copy` -/
theorem copy_eq_copy (fx : Fix) (s : State) (hs : Shape s) : toExcept (copy fx s) = toExcept (Book.copy fx s) := by
  have h := initWith_fresh_eq_cast fx s.kind s hs
  unfold copy
  rw [h]
  unfold Book.cast Book.copy
  cases iaddLoop fx (init s.kind) s.terms with
  | mk t e => cases e <;> simp [toExcept]

theorem shape_reset (s : State) (hs : Shape s) :
    resetCaches (dictClear s) = withAC s.ancilla s.constraints (init s.kind) := by
  unfold resetCaches dictClear withAC init
  by_cases hb : hasBO s.kind = true
  · simp [hb]
  · have hb' : hasBO s.kind = false := by simpa using hb
    obtain ⟨h1, h2, h3⟩ := hs.1 hb'
    simp [hb', h1, h2, h3]

/-- **`clear()`** (`dict.clear(self); self.__init__()`) is the model's `clear`: every cached attribute the class has is reset -/
theorem clear_eq_clear (fx : Fix) (s : State) (hs : Shape s) : clear fx s = (Book.clear s, none) := by
  unfold clear initWith
  rw [shape_reset s hs]
  simp only [argTerms, iaddLoop, loop]
  congr 1
  unfold takeCons Book.clear withAC init
  by_cases hc : hasCons s.kind = true
  · simp [hc]
  · have hc' : hasCons s.kind = false := by simpa using hc
    obtain ⟨h1, h2⟩ := hs.2 hc'
    simp [hc', h1, h2]

/-- **`refresh()`** (`d = self.copy(); dict.clear(self); self.__init__(d)`) is the model's `refresh` -/
theorem refresh_eq_refresh (fx : Fix) (s : State) (hs : Shape s) :
    toExcept (refresh fx s) = toExcept (Book.refresh fx s) := by
  unfold refresh Book.refresh
  have hc := copy_eq_copy fx s hs
  have hk := iaddLoop_keep fx (init s.kind) s.terms
  cases hcm : Book.copy fx s with
  | mk dm em =>
    cases hc2 : copy fx s with
    | mk d e =>
      rw [hcm, hc2] at hc
      cases em with
      | some em =>
        cases e with
        | some e => simpa [toExcept] using hc
        | none => simp [toExcept] at hc
      | none =>
        cases e with
        | some e => simp [toExcept] at hc
        | none =>
          have hd : d = dm := by simpa [toExcept] using hc
          subst hd
          -- facts about the copy
          have hdk : d.kind = s.kind ∧ d.ancilla = s.ancilla ∧ d.constraints = s.constraints := by
            unfold Book.copy at hcm
            cases hl : iaddLoop fx (init s.kind) s.terms with
            | mk t e2 =>
              rw [hl] at hcm hk
              simp only [Prod.mk.injEq] at hcm
              obtain ⟨rfl, _⟩ := hcm
              exact ⟨hk.1, rfl, rfl⟩
          simp only
          unfold initWith Book.copy
          rw [shape_reset s hs, iaddLoop_withAC, hdk.1]
          simp only [argTerms]
          have hk2 := iaddLoop_keep fx (init s.kind) d.terms
          cases hl : iaddLoop fx (init s.kind) d.terms with
          | mk t e2 =>
            rw [hl] at hk2
            cases e2 with
            | some e2 => rfl
            | none =>
              simp only [toExcept, takeCons]
              congr 1
              have hkt : (withAC s.ancilla s.constraints t).kind = s.kind := hk2.1
              have hdt : d.kind = (withAC s.ancilla s.constraints t).kind := hdk.1.trans hkt.symm
              by_cases hcs : hasCons s.kind = true
              · have h1 : hasCons (withAC s.ancilla s.constraints t).kind = true := by rw [hkt]; exact hcs
                rw [if_pos h1, if_pos hdt]
                rfl
              · have h1 : ¬ hasCons (withAC s.ancilla s.constraints t).kind = true := by rw [hkt]; exact hcs
                rw [if_neg h1]
                unfold withAC
                rw [hdk.2.1, hdk.2.2]

/-! ## `Shape` along every history -/

/-- part A: the matrix classes never get a mapping -/
def ShapeA (s : State) : Prop := hasBO s.kind = false → s.mapping = [] ∧ s.reverse = [] ∧ s.nextLabel = 0

theorem closed_ShapeA (fx : Fix) : Closed fx ShapeA (fun _ => True) where
  init := fun κ _ _ => ⟨rfl, rfl, rfl⟩
  kindOK := fun _ _ => trivial
  remap := fun s hs hb => by
    obtain ⟨h1, h2, h3⟩ := hs hb
    simp [Book.remap, h1, h3]
  field := fun s a c hs hb => hs hb
  set := fun s k v s' hs _ h hb => by
    obtain ⟨m, hm, rfl⟩ := setitem_ok h
    obtain ⟨_, _, e1, e2, e3, e4, _⟩ := matSet_spec hm
    have hbs : hasBO s.kind = false := by
      by_cases hh : hasBO s.kind = true
      · rw [if_pos hh] at hb
        rw [(regLabels_fields fx k m).1, e1] at hb
        rw [hh] at hb; exact absurd hb (by decide)
      · simpa using hh
    rw [if_neg (by simp [hbs])]
    obtain ⟨h1, h2, h3⟩ := hs hbs
    exact ⟨e2.trans h1, e3.trans h2, e4.trans h3⟩
  terms := fun _ _ _ _ => trivial
  nil := trivial
  app := fun _ _ _ _ => trivial

theorem shapeA_history (fx : Fix) (κ : Kind) (ops : List Op) : ShapeA (Book.run fx κ ops) :=
  run_pres (closed_ShapeA fx) κ ops (fun op _ s => opOK_true s op)

/-- part B: the classes without constraint bookkeeping never get a counter or a recorded constraint -/
def ShapeB (s : State) : Prop := hasCons s.kind = false → s.ancilla = 0 ∧ s.constraints = []

theorem shapeB_of_keep {s s' : State} (h : Keep s s') (hs : ShapeB s) : ShapeB s' := by
  intro hc
  rw [h.1] at hc
  obtain ⟨a, b⟩ := hs hc
  exact ⟨h.2.1.trans a, h.2.2.trans b⟩

theorem shapeB_init (κ : Kind) : ShapeB (init κ) := fun _ => ⟨rfl, rfl⟩

theorem shapeB_of_hasCons {s : State} (h : hasCons s.kind = true) : ShapeB s :=
  fun hc => by rw [h] at hc; exact absurd hc (by decide)

theorem ofExcept_keep {s : State} {r : Except Err State} (h : ∀ s', r = .ok s' → Keep s s') : Keep s (ofExcept s r).1 := by
  cases r with
  | ok s' => exact h s' rfl
  | error e => exact Keep.refl s

theorem copy_keep (fx : Fix) (s : State) : Keep s (Book.copy fx s).1 := by
  unfold Book.copy
  have hk := iaddLoop_keep fx (init s.kind) s.terms
  cases hl : iaddLoop fx (init s.kind) s.terms with
  | mk t e => rw [hl] at hk; exact ⟨hk.1, rfl, rfl⟩

theorem refresh_keep (fx : Fix) (s : State) : Keep s (Book.refresh fx s).1 := by
  unfold Book.refresh
  have h1 := copy_keep fx s
  cases hc : Book.copy fx s with
  | mk d e =>
    rw [hc] at h1
    cases e with
    | none => exact h1.trans (copy_keep fx d)
    | some e => exact Keep.refl s

theorem imulD_keep (s : State) (q : Poly) : Keep s (Book.imulD Fix.fixed s q).1 := by
  unfold Book.imulD
  have h0 : Keep s (clearForMul Fix.fixed s) := ⟨rfl, rfl, rfl⟩
  exact h0.trans (iaddLoop_keep _ _ _)

theorem scaleLoop_keep (fx : Fix) (s : State) (a : Aug) (c : Rat) : Keep s (scaleLoop fx s a c).1 :=
  loop_keep (fun _ _ _ h => augitem_keep h) _ s

theorem powLoop_keep (old : Poly) (n : Nat) : ∀ s : State, Keep s (Book.powLoop Fix.fixed s old n).1 := by
  induction n with
  | zero => intro s; exact Keep.refl s
  | succ n ih =>
    intro s
    unfold Book.powLoop
    have h1 := imulD_keep s old
    cases hc : Book.imulD Fix.fixed s old with
    | mk s' e =>
      rw [hc] at h1
      cases e with
      | none => exact h1.trans (ih s')
      | some e => exact h1

theorem ipow_keep (s : State) (e : Int) : Keep s (Book.ipow Fix.fixed s e).1 := by
  unfold Book.ipow
  split
  · exact Keep.refl s
  · split
    · exact Keep.refl s
    · cases hc : Book.copy Fix.fixed s with
      | mk old er =>
        cases er with
        | none => exact powLoop_keep _ _ _
        | some er => exact Keep.refl s

theorem stepA_keep (s : State) (a : Arith) : Keep s (stepA Fix.fixed s a).1 := by
  cases a with
  | addC c => exact ofExcept_keep (fun s' h => augitem_keep h)
  | subC c => exact ofExcept_keep (fun s' h => augitem_keep h)
  | mulC c => exact scaleLoop_keep _ s _ c
  | divC c => exact scaleLoop_keep _ s _ c
  | pow e => exact ipow_keep s e
  | addD q => exact iaddLoop_keep _ s q
  | subD q => exact isubLoop_keep _ s q
  | mulD q => exact imulD_keep s q

theorem copyThen_keep (fx : Fix) (s : State) {f : State → State × Option Err} (hf : ∀ c, Keep c (f c).1) :
    Keep s (copyThen fx s f).1 := by
  unfold copyThen
  have h1 := copy_keep fx s
  cases hc : Book.copy fx s with
  | mk c e =>
    rw [hc] at h1
    cases e with
    | none =>
      simp only
      have h2 := hf c
      cases hf2 : f c with
      | mk r e2 =>
        rw [hf2] at h2
        cases e2 with
        | none => exact h1.trans h2
        | some e2 => exact Keep.refl s
    | some e => exact Keep.refl s

theorem rebuildSet_keep (fx : Fix) (s : State) (g : Rat → Rat) : Keep s (rebuildSet fx s g true).1 := by
  unfold rebuildSet
  have hk : Keep (init s.kind) (loop (fun st kv => setitem fx st kv.1 (g kv.2)) (init s.kind) s.terms).1 :=
    loop_keep (fun _ _ _ h => setitem_keep h) _ _
  cases hl : loop (fun st kv => setitem fx st kv.1 (g kv.2)) (init s.kind) s.terms with
  | mk t e =>
    rw [hl] at hk
    cases e with
    | none => exact ⟨hk.1, rfl, rfl⟩
    | some e => exact Keep.refl s

/-- every edit keeps part B -/
theorem step_shapeB (s : State) (op : Op) (hs : ShapeB s) : ShapeB (step Fix.fixed s op).1 := by
  cases op with
  | setitem k v => exact shapeB_of_keep (ofExcept_keep (fun s' h => setitem_keep h)) hs
  | augitem k a d => exact shapeB_of_keep (ofExcept_keep (fun s' h => augitem_keep h)) hs
  | iaddD q => exact shapeB_of_keep (iaddLoop_keep _ s q) hs
  | isubD q => exact shapeB_of_keep (isubLoop_keep _ s q) hs
  | iaddC c => exact shapeB_of_keep (ofExcept_keep (fun s' h => augitem_keep h)) hs
  | isubC c => exact shapeB_of_keep (ofExcept_keep (fun s' h => augitem_keep h)) hs
  | imulD q => exact shapeB_of_keep (imulD_keep s q) hs
  | imulC c => exact shapeB_of_keep (scaleLoop_keep _ s _ c) hs
  | idivC c => exact shapeB_of_keep (scaleLoop_keep _ s _ c) hs
  | ipow e => exact shapeB_of_keep (ipow_keep s e) hs
  | update q => exact shapeB_of_keep (loop_keep (fun _ _ _ h => setitem_keep h) q s) hs
  | clear => exact shapeB_init s.kind
  | refresh => exact shapeB_of_keep (refresh_keep _ s) hs
  | copy =>
    simp only [step]
    have h1 := copy_keep Fix.fixed s
    cases hc : Book.copy Fix.fixed s with
    | mk c e =>
      rw [hc] at h1
      cases e with
      | none => exact shapeB_of_keep h1 hs
      | some e => exact hs
  | cons r P lam lt lo hi =>
    simp only [step]
    split
    · rename_i hc
      refine shapeB_of_hasCons ?_
      rw [(iaddLoop_keep Fix.fixed _ _).1]
      exact hc
    · exact hs
  | round nd =>
    have e : (Fix.fixed.dr || !hasCons s.kind) = true := by simp [Fix.fixed]
    simp only [step, e]
    exact shapeB_of_keep (rebuildSet_keep _ s _) hs
  | subs => exact shapeB_of_keep (rebuildSet_keep _ s _) hs
  | cast κ =>
    simp only [step, Book.cast]
    have hk := iaddLoop_keep Fix.fixed (init κ) s.terms
    cases hl : iaddLoop Fix.fixed (init κ) s.terms with
    | mk t e =>
      rw [hl] at hk
      cases e with
      | some e => exact hs
      | none =>
        simp only
        split
        · rename_i hκ
          have hκ' : κ = s.kind := by simpa using hκ
          exact shapeB_of_keep ⟨hk.1.trans hκ', rfl, rfl⟩ hs
        · exact shapeB_of_keep hk (shapeB_init κ)
  | bin a => exact shapeB_of_keep (copyThen_keep _ s (fun c => stepA_keep c a)) hs
  | rsubC c =>
    simp only [step]
    have h1 : Keep s (copyThen Fix.fixed s (fun d => stepA Fix.fixed d (.mulC (-1)))).1 :=
      copyThen_keep _ s (fun c => stepA_keep c _)
    cases hc : copyThen Fix.fixed s (fun d => stepA Fix.fixed d (.mulC (-1))) with
    | mk m e =>
      rw [hc] at h1
      cases e with
      | none => exact shapeB_of_keep (h1.trans (copyThen_keep _ m (fun c => stepA_keep c _))) hs
      | some e => exact shapeB_of_keep h1 hs
  | updateM κg q cs a =>
    simp only [step, updateM]
    have hk : Keep s (loop (fun st kv => setitem Fix.fixed st kv.1 kv.2) s q).1 :=
      loop_keep (fun _ _ _ h => setitem_keep h) q s
    cases hl : loop (fun st kv => setitem Fix.fixed st kv.1 kv.2) s q with
    | mk t e =>
      rw [hl] at hk
      cases e with
      | some e => exact shapeB_of_keep hk hs
      | none =>
        simp only
        split
        · rename_i hc
          have hc' : hasCons s.kind = true := by
            simp only [Bool.and_eq_true] at hc; exact hc.1
          exact shapeB_of_hasCons (by show hasCons t.kind = true; rw [hk.1]; exact hc')
        · exact shapeB_of_keep hk hs
  | remap =>
    simp only [step]
    split
    · exact shapeB_of_keep ⟨rfl, rfl, rfl⟩ hs
    · exact hs
  | iaddSelf => exact shapeB_of_keep (iaddLoop_keep _ s _) hs
  | isubSelf => exact shapeB_of_keep (isubLoop_keep _ s _) hs
  | imulSelf => exact shapeB_of_keep (imulD_keep s _) hs
  | updateSelf =>
    simp only [step, updateM]
    have hk : Keep s (loop (fun st kv => setitem Fix.fixed st kv.1 kv.2) s s.terms).1 :=
      loop_keep (fun _ _ _ h => setitem_keep h) _ s
    cases hl : loop (fun st kv => setitem Fix.fixed st kv.1 kv.2) s s.terms with
    | mk t e =>
      rw [hl] at hk
      cases e with
      | some e => exact shapeB_of_keep hk hs
      | none =>
        simp only
        split
        · rename_i hc
          have hc' : hasCons s.kind = true := by
            simp only [Bool.and_eq_true] at hc; exact hc.1
          exact shapeB_of_hasCons (by show hasCons t.kind = true; rw [hk.1]; exact hc')
        · exact shapeB_of_keep hk hs
  | isubCopy =>
    simp only [step]
    cases hc : Book.copy Fix.fixed s with
    | mk c e =>
      cases e with
      | none => exact shapeB_of_keep (isubLoop_keep _ s _) hs
      | some e => exact hs

theorem shapeB_history (κ : Kind) (ops : List Op) : ShapeB (Book.run Fix.fixed κ ops) := by
  unfold Book.run
  have : ∀ (l : List Op) (s : State), ShapeB s → ShapeB (l.foldl (fun s o => (step Fix.fixed s o).1) s) := by
    intro l
    induction l with
    | nil => intro s h; exact h
    | cons o r ih => intro s h; exact ih _ (step_shapeB s o h)
  exact this ops (init κ) (shapeB_init κ)

/-- **`Shape` holds along every history of C14** (the code as it is now): the attributes a class does not have stay at their
defaults, so the constructor-level functions of `Qv.Model.Book2` and the functions of `Qv.Model.Book` agree there -/
theorem shape_history (κ : Kind) (ops : List Op) : Shape (Book.run Fix.fixed κ ops) :=
  ⟨shapeA_history Fix.fixed κ ops, shapeB_history κ ops⟩

/-! ## `set_mapping` -/

/-- `set_mapping` with the dict of C14's `remap` edit is the model's `remap` -/
theorem setMapping_remapArg (s : State) : setMapping s (remapArg s) = Book.remap s := by
  unfold setMapping remapArg Book.remap
  simp [List.map_map, Function.comp_def]

end Qv.Book2
