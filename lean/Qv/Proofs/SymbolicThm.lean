import Qv.Proofs.SymbolicCons
/-!
# C16: T16.0 / T16.1 for the comparison builders, assembled from the simulation (`SymbolicCons`) and the
generic-layer lemma (`SymbolicGeneric`)
-/
namespace Qv.Sym
open Qv Qv.PcboP

theorem addConstraint_cons (r : Rel) (st : St) (P : Poly) (lam : Rat) (lt : Bool) (b : Option Rat × Option Rat)
    (sup : Bool) : (addConstraint r st P lam lt b sup).cons = st.cons ++ [(r, P)] := by
  cases r <;> simp only [addConstraint]
  · exact addEqZero_cons _ _ _ _ _
  · exact (addNeZero_book _ _ _ _ _ _).1
  · exact (addLtZero_book _ _ _ _ _ _).1
  · exact (addLeZero_book _ _ _ _ _ _).1
  · exact (addGtZero_book _ _ _ _ _ _).1
  · exact (addGeZero_book _ _ _ _ _ _).1

/-- the run at weight `lam ≠ 0` from `st` against the core (`lam = 1`, empty PCBO, same ancilla counter) -/
theorem penaltyCore_sim (rel : Rel) (st : St) (P : Poly) (lam : Rat) (lt : Bool) (b : Option Rat × Option Rat)
    (sup : Bool) (hl : lam ≠ 0) (hst : (keys st.terms).Nodup) :
    Sim lam st (addConstraint rel st P lam lt b sup) (addConstraint rel { anc := st.anc } P 1 lt b sup) :=
  addConstraint_sim (Sim.init lam st hst) hl rel P lt b sup

/-- the `lam`-free polynomial is a stored dict: distinct, squashed keys -/
theorem penaltyCore_canon (rel : Rel) (P : Poly) (lt : Bool) (b : Option Rat × Option Rat) (sup : Bool) (anc : Nat) :
    CanonP squashB (penaltyCore rel P lt b sup anc).G := by
  have h := penaltyCore_sim rel { anc := anc } P 1 lt b sup one_ne_zero (by simp [keys])
  exact ⟨h.nd1, h.sq1⟩

theorem csum_canon {G : Poly} (hG : CanonP squashB G) (k : Key) : csum G k = get G k := by
  have := csumR_canon (R := Rat) hom_id (sq := squashB) (q := G) hG.nodup hG.sq k
  rw [getR_rat] at this
  exact this

theorem get_scaleB (c : Rat) (G : Poly) (k : Key) : get (scaleB c G) k = c * csum G k := by
  have := phi_get_scaleR (R := Rat) hom_id squashB c G k
  rw [scaleR_rat, getR_rat] at this
  exact this

theorem canon_scaleB (c : Rat) (G : Poly) : CanonP squashB (scaleB c G) := by
  have h1 := nodup_scaleR (R := Rat) squashB c G
  have h2 := sqKeys_scaleR (R := Rat) (sq := squashB) squashB_idem c G
  rw [scaleR_rat] at h1 h2
  exact ⟨h1, h2⟩

/-- coefficientwise, `st.terms += lam * G` is `st.terms + lam • G` -/
theorem get_iaddB_scaleB {p G : Poly} (hp : (keys p).Nodup) (hG : CanonP squashB G) (lam : Rat) (k : Key) :
    get (iaddB p (scaleB lam G)) k = get p k + lam * get G k := by
  rw [get_iaddB _ _ _ hp, csum_canon (canon_scaleB lam G), get_scaleB, csum_canon hG]

/-! ## agreement of a symbolic state with a numeric one under `lam ↦ c` -/

/-- the numeric state `st` is the symbolic state `S` after `subs(lam → c)`, coefficientwise -/
structure Agree (c : Rat) (S : SymSt RatPoly) (st : St) : Prop where
  ndS : (keysR S.terms).Nodup
  nd : (keys st.terms).Nodup
  terms : ∀ k, get st.terms k = RatPoly.evalAt c (getR S.terms k)
  anc : st.anc = S.anc
  cons : st.cons = S.cons
  warns : st.warns = S.warns
  tags : st.tags = S.tags

/-- `S.subs c` agrees with `S` -/
theorem agree_subs (c : Rat) (S : SymSt RatPoly) (h : (keysR S.terms).Nodup) : Agree c S (S.subs (RatPoly.evalAt c)) :=
  ⟨h, nodup_subsR _ _, fun k => get_subsR (hom_evalAt c) S.terms k h, rfl, rfl, rfl, rfl⟩

theorem isZero_false_of_eval {c : Rat} {w : RatPoly} (hw : w.evalAt c ≠ 0) : Coef.isZero w = false := by
  cases h : Coef.isZero w
  · rfl
  · exact absurd ((hom_evalAt c).isZero w h) hw

/-- one comparison constraint: the symbolic step with weight `w` and the numeric step with weight `w(c) ≠ 0`
keep the states in agreement -/
theorem agree_symConstraint {c : Rat} {S : SymSt RatPoly} {st : St} (h : Agree c S st) (w : RatPoly)
    (hw : w.evalAt c ≠ 0) (rel : Rel) (P : Poly) (lt : Bool) (b : Option Rat × Option Rat) (sup : Bool) :
    Agree c (symConstraint S w rel P lt b sup) (addConstraint rel st P (w.evalAt c) lt b sup) := by
  have hsim := penaltyCore_sim rel st P (w.evalAt c) lt b sup hw h.nd
  have hG := penaltyCore_canon rel P lt b sup S.anc
  unfold symConstraint
  rw [isZero_false_of_eval hw]
  simp only [Bool.false_eq_true, if_false]
  refine ⟨nodup_symAdd _ _ _ _ h.ndS, hsim.nd, fun k => ?_, ?_, ?_, ?_, ?_⟩
  · rw [phi_get_symAdd (hom_evalAt c) squashB_idem S.terms w hG h.ndS k, hsim.terms k, h.terms k, h.anc]
    rfl
  · rw [hsim.anc, h.anc]; rfl
  · rw [addConstraint_cons, h.cons]
    show _ = S.cons ++ (addConstraint rel { anc := S.anc } P 1 lt b sup).cons
    rw [addConstraint_cons]; rfl
  · rw [hsim.warns, h.warns, h.anc]; rfl
  · rw [hsim.tags, h.tags, h.anc]; rfl

/-! ## histories -/

/-- one call `add_constraint_R_zero(P, lam=w, log_trick, bounds, suppress_warnings)` -/
structure CStep where
  w : RatPoly
  rel : Rel
  P : Poly
  lt : Bool
  b : Option Rat × Option Rat
  sup : Bool

def symRun (S : SymSt RatPoly) (h : List CStep) : SymSt RatPoly :=
  h.foldl (fun S x => symConstraint S x.w x.rel x.P x.lt x.b x.sup) S

def numRun (c : Rat) (st : St) (h : List CStep) : St :=
  h.foldl (fun st x => addConstraint x.rel st x.P (x.w.evalAt c) x.lt x.b x.sup) st

theorem agree_run {c : Rat} (h : List CStep) (hw : ∀ x ∈ h, x.w.evalAt c ≠ 0) :
    ∀ {S : SymSt RatPoly} {st : St}, Agree c S st → Agree c (symRun S h) (numRun c st h) := by
  induction h with
  | nil => intro S st ha; exact ha
  | cons x r ih =>
    intro S st ha
    simp only [symRun, numRun, List.foldl_cons]
    exact ih (fun y hy => hw y (List.mem_cons_of_mem _ hy))
      (agree_symConstraint ha x.w (hw x List.mem_cons_self) x.rel x.P x.lt x.b x.sup)

end Qv.Sym
