import Qv.Proofs.PcboLe
/-!
# C02: `add_constraint_le_zero` — decision tree, bookkeeping, semantics
-/
namespace Qv.PcboP

/-- the decision tree of `addLeZero`, with the slack / no-slack branches unified
(`slackLoop … 0 = (s, P, hi)`) -/
theorem addLeZero_cases (st : St) (P : Poly) (lam : Rat) (lt : Bool) (b : Option Rat × Option Rat) (sup : Bool) :
    (lam = 0 ∧ addLeZero st P lam lt b sup = st.append .le P) ∨
    (lam ≠ 0 ∧ ∃ s', specialLe (st.append .le P) P lam lt ((getBounds P b).1, (getBounds P b).2) = some s' ∧
      addLeZero st P lam lt b sup = s') ∨
    (lam ≠ 0 ∧ (getBounds P b).1 > 0 ∧
      addLeZero st P lam lt b sup = (((st.append .le P).warn sup "unsat").plus (scaleB lam P)).tag "le-unsat") ∨
    (lam ≠ 0 ∧ ¬ (getBounds P b).1 > 0 ∧ (getBounds P b).2 ≤ 0 ∧
      addLeZero st P lam lt b sup = ((st.append .le P).warn sup "always").tag "le-always") ∨
    (lam ≠ 0 ∧ ¬ (getBounds P b).1 > 0 ∧ ¬ (getBounds P b).2 ≤ 0 ∧ ∃ t n,
      (∀ m : Nat, (m : Rat) ≤ -(getBounds P b).1 → if lt then m < 2 ^ n else m ≤ n) ∧
      addLeZero st P lam lt b sup =
        ((addEqZero (slackLoop lt (st.append .le P) P (getBounds P b).2 0 n).1
            (slackLoop lt (st.append .le P) P (getBounds P b).2 0 n).2.1 lam
            (some (getBounds P b).1, some (slackLoop lt (st.append .le P) P (getBounds P b).2 0 n).2.2) true).pop .eq).tag t) := by
  unfold addLeZero
  simp only []
  split
  · left; exact ⟨by assumption, rfl⟩
  · rename_i hl
    right
    split
    · rename_i s' h
      left; exact ⟨hl, s', h, rfl⟩
    · right
      by_cases c1 : (getBounds P b).1 > 0
      · left; rw [if_pos c1]; exact ⟨hl, c1, rfl⟩
      · right
        rw [if_neg c1]
        by_cases c2 : (getBounds P b).2 ≤ 0
        · left; rw [if_pos c2]; exact ⟨hl, c1, c2, rfl⟩
        · right
          rw [if_neg c2]
          refine ⟨hl, c1, c2, ?_⟩
          by_cases c3 : (getBounds P b).1 ≠ 0
          · rw [if_pos c3]
            exact ⟨_, numBits (-(getBounds P b).1) lt, fun m hm => numBits_cap lt hm, rfl⟩
          · rw [if_neg c3]
            refine ⟨_, 0, fun m hm => ?_, rfl⟩
            have h0 : (getBounds P b).1 = 0 := not_not.1 c3
            rw [h0] at hm
            have : m = 0 := by
              have : (m : Rat) ≤ 0 := by simpa using hm
              have : (m : Rat) = 0 := le_antisymm this (Nat.cast_nonneg m)
              exact_mod_cast this
            subst this
            cases lt <;> simp

theorem addLeZero_book (st : St) (P : Poly) (lam : Rat) (lt : Bool) (b : Option Rat × Option Rat) (sup : Bool) :
    (addLeZero st P lam lt b sup).cons = st.cons ++ [(.le, P)] ∧ Struct st (addLeZero st P lam lt b sup) P := by
  rcases addLeZero_cases st P lam lt b sup with ⟨_, h⟩ | ⟨_, s', hs, h⟩ | ⟨_, _, h⟩ | ⟨_, _, _, h⟩ | ⟨_, _, _, t, n, _, h⟩
  · rw [h]; exact ⟨rfl, Struct.refl_of P rfl rfl⟩
  · rw [h]
    obtain ⟨h1, _, h3⟩ := specialLe_book hs
    exact ⟨by rw [h1]; rfl, h3.congr rfl rfl rfl rfl⟩
  · rw [h]
    refine ⟨by simp, Nat.le_of_eq (by simp), scaleB lam P, by simp, fun V hV _ => labelsIn_scaleB _ hV⟩
  · rw [h]
    exact ⟨by simp, Struct.refl_of P (by simp) (by simp)⟩
  · rw [h]
    obtain ⟨l1, l2, l3, l4, l5, l6, l7, l8⟩ := slackLoop_spec lt n (st.append .le P) P (getBounds P b).2 0
    refine ⟨?_, ?_, ?_⟩
    · rw [St.tag_cons, St.pop_cons, addEqZero_cons, popLast_append, l3]; rfl
    · rw [St.tag_anc, St.pop_anc, addEqZero_anc, l1]; simp
    · obtain ⟨q, hq1, hq2⟩ := addEqZero_added (slackLoop lt (st.append .le P) P (getBounds P b).2 0 n).1
        (slackLoop lt (st.append .le P) P (getBounds P b).2 0 n).2.1 lam
        (some (getBounds P b).1, some (slackLoop lt (st.append .le P) P (getBounds P b).2 0 n).2.2) true
      refine ⟨q, by rw [St.tag_terms, St.pop_terms, hq1, l2]; rfl, fun V hV hA => hq2 V (l7 V hV ?_)⟩
      intro k hk1 hk2
      refine hA k hk1 ?_
      rw [St.tag_anc, St.pop_anc, addEqZero_anc, l1]
      exact hk2

/-- **le.**  With valid bounds, integer-valued `P` (a dict: distinct keys, no zero coefficient) without
labels `≥ ANC + st.anc`, and `lam > 0`: the three value clauses hold for `P ≤ 0` in every branch. -/
theorem addLeZero_sem {st : St} {P : Poly} {lam : Rat} {lt : Bool} {b : Option Rat × Option Rat} {sup : Bool}
    (hlam : 0 < lam) (hint : IntValued P) (hnz : NoZero P) (hnd : (keys P).Nodup) (hb : ValidBounds P b)
    (hbel : Below (ANC + st.anc) P) :
    Sem (fun v => v ≤ 0) st (addLeZero st P lam lt b sup) P lam := by
  have hbd : ∀ x, IsBool x → (getBounds P b).1 ≤ eval x P ∧ eval x P ≤ (getBounds P b).2 :=
    fun x hx => getBounds_sound hb hx
  rcases addLeZero_cases st P lam lt b sup with ⟨h0, _⟩ | ⟨_, s', hs, h⟩ | ⟨_, c1, h⟩ | ⟨_, c1, c2, h⟩ | ⟨_, c1, c2, t, n, cap, h⟩
  · exact absurd h0 (ne_of_gt hlam)
  · rw [h]
    exact (specialLe_sem hs hlam hint hnd (fun x hx => (hbd x hx).1) hbel).congr rfl rfl rfl rfl
  · -- cannot be satisfied: lam * P with P >= 1
    rw [h]
    have hF : ∀ x, IsBool x → FPen st ((((st.append .le P).warn sup "unsat").plus (scaleB lam P)).tag "le-unsat") x
        = lam * eval x P := by
      intro x hx
      simp only [FPen, St.tag_terms, St.plus_terms, St.warn_terms, St.append_terms, eval_iaddB hx, eval_scaleB hx]; ring
    have hv : ∀ x, IsBool x → 1 ≤ eval x P := fun x hx =>
      int_pos_ge_one (hint x hx) (lt_of_lt_of_le c1 (hbd x hx).1)
    refine ⟨fun x hx => ?_, fun x hx hr => ?_, fun x hx _ => ?_⟩
    · rw [hF x hx]; have := hv x hx; nlinarith
    · have := hv x hx; have hr : eval x P ≤ 0 := hr; linarith
    · rw [hF x hx]; have := hv x hx; nlinarith
  · -- always satisfied
    rw [h]
    have hF : ∀ x, FPen st (((st.append .le P).warn sup "always").tag "le-always") x = 0 := by
      intro x; simp [FPen]
    refine ⟨fun x _ => by rw [hF], fun x hx _ => ⟨x, fun _ _ => rfl, hx, hF x⟩, fun x hx hr => ?_⟩
    exact absurd (le_trans (hbd x hx).2 c2) hr
  · -- slack ancillas, then the equality constraint on P + slack
    rw [h]
    obtain ⟨l1, l2, l3, l4, l5, l6, l7, l8⟩ := slackLoop_spec lt n (st.append .le P) P (getBounds P b).2 0
    have hint' : IntValued (slackLoop lt (st.append .le P) P (getBounds P b).2 0 n).2.1 := by
      intro x hx
      obtain ⟨k, hk⟩ := hint x hx
      obtain ⟨m, hm⟩ := slackVal_nat (lt := lt) hx (st.append .le P).anc 0 n
      exact ⟨k + m, by rw [l5 x hx, hk, hm]; push_cast; ring⟩
    have hb' : ValidBounds (slackLoop lt (st.append .le P) P (getBounds P b).2 0 n).2.1
        (some (getBounds P b).1, some (slackLoop lt (st.append .le P) P (getBounds P b).2 0 n).2.2) := by
      apply validBounds_some
      intro x hx
      have := slackVal_bounds (lt := lt) hx (st.append .le P).anc 0 n
      have := hbd x hx
      rw [l5 x hx, l6]; constructor <;> linarith
    have E := fun x (hx : IsBool x) => addEqZero_sem (st := (slackLoop lt (st.append .le P) P (getBounds P b).2 0 n).1)
      (sup := true) hlam hint' (l8 hnz) hb' hx
    have hFP : ∀ x, FPen st (((addEqZero (slackLoop lt (st.append .le P) P (getBounds P b).2 0 n).1
            (slackLoop lt (st.append .le P) P (getBounds P b).2 0 n).2.1 lam
            (some (getBounds P b).1, some (slackLoop lt (st.append .le P) P (getBounds P b).2 0 n).2.2) true).pop .eq).tag t) x
        = FPen (slackLoop lt (st.append .le P) P (getBounds P b).2 0 n).1
            (addEqZero (slackLoop lt (st.append .le P) P (getBounds P b).2 0 n).1
            (slackLoop lt (st.append .le P) P (getBounds P b).2 0 n).2.1 lam
            (some (getBounds P b).1, some (slackLoop lt (st.append .le P) P (getBounds P b).2 0 n).2.2) true) x := by
      intro x; unfold FPen; rw [St.tag_terms, St.pop_terms, l2]; rfl
    refine ⟨fun x hx => ?_, fun x hx hr => ?_, fun x hx hr => ?_⟩
    · rw [hFP]; exact (E x hx).1
    · -- the slack takes the value -P(x)
      have hr : eval x P ≤ 0 := hr
      obtain ⟨m, hm⟩ : ∃ m : Nat, -eval x P = (m : Rat) := by
        obtain ⟨k, hk⟩ := hint x hx
        exact int_nonneg_nat ⟨-k, by rw [hk]; push_cast; ring⟩ (by linarith)
      have hcap := cap m (by rw [← hm]; have := (hbd x hx).1; linarith)
      obtain ⟨u, hu1, hu2, hu3⟩ := slack_repr lt hx st.anc n m hcap
      refine ⟨u, fun i hi => hu2 i (fun hc => hi ⟨i - ANC, ?_, ?_, ?_⟩), hu1, ?_⟩
      · omega
      · rw [St.tag_anc, St.pop_anc, addEqZero_anc, l1]; simp only [St.append_anc]; omega
      · exact (Nat.add_sub_cancel' (Nat.le_trans (Nat.le_add_right _ _) hc.1)).symm
      · rw [hFP]
        apply (E u hu1).2.1
        rw [l5 u hu1]
        have : eval u P = eval x P := eval_off_anc hbel (fun i hi => hu2 i (by omega))
        simp only [St.append_anc]
        rw [this, hu3]; linarith
    · rw [hFP]
      apply (E x hx).2.2
      rw [l5 x hx]
      have := (slackVal_bounds (lt := lt) hx (st.append .le P).anc 0 n).1
      have hr : ¬ eval x P ≤ 0 := hr
      have : 0 < eval x P := not_le.1 hr
      intro h0; linarith

end Qv.PcboP
