import Qv.Proofs.HeapInfo
/-!
# Qv.Proofs.HeapMut — the write footprint of the operations that take a model / dict argument
-/
namespace Qv.Hp
open Qv

/-- frame relative to a base `n`: the cells below `n` outside `W` are unchanged -/
def FrameN (n : Nat) (W : List Nat) (h h' : Heap) : Prop :=
  h.length ≤ h'.length ∧ ∀ c, c < n → c ∉ W → h'[c]? = h[c]?

theorem FrameN.refl (n : Nat) (W : List Nat) (h : Heap) : FrameN n W h h := ⟨Nat.le_refl _, fun _ _ _ => rfl⟩

theorem FrameN.trans {n : Nat} {W : List Nat} {h h' h'' : Heap} (f1 : FrameN n W h h') (f2 : FrameN n W h' h'') :
    FrameN n W h h'' :=
  ⟨Nat.le_trans f1.1 f2.1, fun c hc hn => by rw [f2.2 c hc hn, f1.2 c hc hn]⟩

theorem FrameN.alloc {n : Nat} (W : List Nat) {h : Heap} (c : Cell) (hn : n ≤ h.length) : FrameN n W h (h ++ [c]) :=
  ⟨by simp, fun _ hc _ => get_append_old (Nat.lt_of_lt_of_le hc hn)⟩

theorem FrameN.write {n : Nat} {W : List Nat} {h : Heap} {r : Nat} (cell : Cell) (hr : r < n → r ∈ W) :
    FrameN n W h (write h r cell) := by
  refine ⟨by simp, ?_⟩
  intro c hc hn
  apply get_write_ne
  intro he
  subst he
  exact hn (hr hc)

theorem FrameN.of_fresh {m n : Nat} {h h' : Heap} (e : FreshExt m h h') (W : List Nat) (hn : n ≤ h.length) :
    FrameN n W h h' :=
  ⟨e.len, fun _ hc _ => e.old (Nat.lt_of_lt_of_le hc hn)⟩

theorem FrameN.toFrame {W : List Nat} {h h' : Heap} (f : FrameN h.length W h h') : Frame W h h' := f

theorem FrameN.writeIf {n : Nat} {W : List Nat} {h : Heap} {m : Option Nat} (cell : Cell)
    (hr : ∀ r ∈ m.toList, r < n → r ∈ W) : FrameN n W h (writeIf h m cell) := by
  cases m with
  | none => exact FrameN.refl _ _ _
  | some r => exact FrameN.write cell (hr r (by simp))

@[simp] theorem length_writeIf (h : Heap) (m : Option Nat) (cell : Cell) : (writeIf h m cell).length = h.length := by
  cases m <;> simp [writeIf]

theorem Closed.writeIf {h : Heap} {m : Option Nat} {cell : Cell} (hc : Closed h) (hr : ∀ q ∈ cell.refs, q < h.length) :
    Closed (writeIf h m cell) := by
  cases m with
  | none => exact hc
  | some r => exact hc.write hr

/-- a write of a cell that is not a `_constraints` dict creates no `_constraints` dict -/
theorem write_cdict {h : Heap} {r x : Nat} {cell : Cell} {g : List (Rel × Nat)} (hn : ∀ g', cell ≠ Cell.cdict g')
    (hg : (write h r cell)[x]? = some (Cell.cdict g)) : h[x]? = some (Cell.cdict g) := by
  by_cases he : x = r
  · subst he
    have hlt := get_some_lt hg
    rw [length_write] at hlt
    rw [get_write_eq hlt] at hg
    cases hg
    exact absurd rfl (hn g)
  · rwa [get_write_ne he] at hg

theorem writeIf_cdict {h : Heap} {m : Option Nat} {x : Nat} {cell : Cell} {g : List (Rel × Nat)}
    (hn : ∀ g', cell ≠ Cell.cdict g') (hg : (writeIf h m cell)[x]? = some (Cell.cdict g)) : h[x]? = some (Cell.cdict g) := by
  cases m with
  | none => exact hg
  | some r => exact write_cdict hn hg

/-! ### `self[k] = v` -/

theorem applyUpd_obj {h h' : Heap} {o : Nat} {u : Upd} {d : ObjData} {m rm : Option Nat} {v : Nat} {c : Option Nat}
    (hcell : h[o]? = some (Cell.obj d m rm v c)) (he : applyUpd h o u = some h') :
    (∀ {n : Nat} {W : List Nat}, (∀ x ∈ o :: (m.toList ++ rm.toList ++ [v]), x < n → x ∈ W) → FrameN n W h h') ∧
    h'.length = h.length ∧ (Closed h → Closed h') ∧
    (∀ (x : Nat) (g : List (Rel × Nat)), h'[x]? = some (Cell.cdict g) → h[x]? = some (Cell.cdict g)) := by
  simp only [applyUpd, hcell, Option.some.injEq] at he
  subst he
  refine ⟨?_, by simp, ?_, ?_⟩
  · intro n W hW
    refine (((FrameN.write _ (hW o (by simp))).trans (FrameN.write _ (hW v (by simp)))).trans
      (FrameN.writeIf _ ?_)).trans (FrameN.writeIf _ ?_)
    · intro r hr; exact hW r (by simp [hr])
    · intro r hr; exact hW r (by simp [hr])
  · intro hc
    refine Closed.writeIf (Closed.writeIf (Closed.write (Closed.write hc ?_) (by simp [Cell.refs])) (by simp [Cell.refs]))
      (by simp [Cell.refs])
    exact fun q hq => hc o _ hcell q hq
  · intro x g hg
    have h1 := writeIf_cdict (by intro g' hh; cases hh) hg
    have h2 := writeIf_cdict (by intro g' hh; cases hh) h1
    have h3 := write_cdict (by intro g' hh; cases hh) h2
    exact write_cdict (by intro g' hh; cases hh) h3

theorem applyUpd_plain {h h' : Heap} {o : Nat} {u : Upd} {t : Poly}
    (hcell : h[o]? = some (Cell.plain t)) (he : applyUpd h o u = some h') :
    (∀ {n : Nat} {W : List Nat}, (o < n → o ∈ W) → FrameN n W h h') ∧ h'.length = h.length ∧ (Closed h → Closed h') := by
  simp only [applyUpd, hcell, Option.some.injEq] at he
  subst he
  exact ⟨fun hW => FrameN.write _ hW, by simp, fun hc => hc.write (by simp [Cell.refs])⟩

/-! ### `_constraints.setdefault(rel, []).extend(ps)` -/

theorem lookupRel_mem {rel : Rel} {l : Nat} : ∀ {g : List (Rel × Nat)}, lookupRel g rel = some l → l ∈ g.map (·.2)
  | [], he => by simp [lookupRel] at he
  | e :: t, he => by
    simp only [lookupRel] at he
    split at he
    · simp only [Option.some.injEq] at he
      subst he
      simp
    · have := lookupRel_mem (g := t) he
      simp only [List.map_cons, List.mem_cons]
      exact Or.inr this

theorem extendRel_spec {h h' : Heap} {c : Nat} {rel : Rel} {ps : List Nat} (he : extendRel h c rel ps = some h') :
    ∃ g, h[c]? = some (Cell.cdict g) ∧
      (∀ {n : Nat} {W : List Nat}, n ≤ h.length → (∀ x ∈ c :: g.map (·.2), x < n → x ∈ W) → FrameN n W h h') ∧
      (∃ g', h'[c]? = some (Cell.cdict g') ∧ ∀ e ∈ g', e ∈ g ∨ h.length ≤ e.2) ∧
      (Closed h → (∀ p ∈ ps, p < h.length) → Closed h') ∧
      (∀ (x : Nat) (d : ObjData) (m rm : Option Nat) (v : Nat) (cc : Option Nat),
        h[x]? = some (Cell.obj d m rm v cc) → h'[x]? = some (Cell.obj d m rm v cc)) := by
  unfold extendRel at he
  split at he
  · rename_i g hcg
    refine ⟨g, hcg, ?_⟩
    have hclt := get_some_lt hcg
    split at he
    · rename_i l hl
      split at he
      · rename_i xs hxs
        simp only [Option.some.injEq] at he
        subst he
        have hlc : c ≠ l := by
          intro hh; subst hh; rw [hcg] at hxs; cases hxs
        refine ⟨?_, ⟨g, ?_, fun e he => Or.inl he⟩, ?_, ?_⟩
        · intro n W _ hW
          exact FrameN.write _ (hW l (by simp only [List.mem_cons]; exact Or.inr (lookupRel_mem hl)))
        · rw [get_write_ne hlc]; exact hcg
        · intro hc hp
          apply hc.write
          intro q hq
          simp only [Cell.refs, List.mem_append] at hq
          rcases hq with hq | hq
          · exact hc l _ hxs q (by simpa [Cell.refs] using hq)
          · exact hp q hq
        · intro x d m rm v cc hx
          have : x ≠ l := by intro hh; subst hh; rw [hxs] at hx; cases hx
          rw [get_write_ne this]; exact hx
      · cases he
    · simp only [alloc, Option.some.injEq] at he
      subst he
      refine ⟨?_, ⟨g ++ [(rel, h.length)], ?_, ?_⟩, ?_, ?_⟩
      · intro n W hn hW
        exact (FrameN.alloc W _ hn).trans (FrameN.write _ (hW c (by simp)))
      · rw [get_write_eq (by simp; omega)]
      · intro e he
        simp only [List.mem_append, List.mem_singleton] at he
        rcases he with he | rfl
        · exact Or.inl he
        · exact Or.inr (Nat.le_refl _)
      · intro hc hp
        have hc1 : Closed (h ++ [Cell.list ps]) := hc.alloc (by simpa [Cell.refs] using hp)
        apply hc1.write
        intro q hq
        simp only [Cell.refs, List.map_append, List.mem_append, List.map_cons, List.map_nil,
          List.mem_singleton] at hq
        rcases hq with hq | rfl
        · have := hc c _ hcg q (by simpa [Cell.refs] using hq)
          simp; omega
        · simp
      · intro x d m rm v cc hx
        have hxlt := get_some_lt hx
        have : x ≠ c := by intro hh; subst hh; rw [hcg] at hx; cases hx
        rw [get_write_ne this, get_append_old hxlt]; exact hx
  · cases he

/-! ### `add_constraint_<rel>_zero` -/

theorem own_obj {h : Heap} {o : Nat} {d : ObjData} {m rm : Option Nat} {v c : Nat} {g : List (Rel × Nat)}
    (ho : h[o]? = some (Cell.obj d m rm v (some c))) (hg : h[c]? = some (Cell.cdict g)) :
    own h o = o :: (m.toList ++ rm.toList ++ [v] ++ (c :: g.map (·.2))) := by
  simp only [own, ho, hg]

theorem own_attrs {h : Heap} {o : Nat} {d : ObjData} {m rm : Option Nat} {v : Nat} {c : Option Nat}
    (ho : h[o]? = some (Cell.obj d m rm v c)) : ∀ x ∈ o :: (m.toList ++ rm.toList ++ [v]), x ∈ own h o := by
  intro x hx
  simp only [own, ho]
  simp only [List.mem_cons, List.mem_append] at hx ⊢
  rcases hx with rfl | hx
  · exact Or.inl rfl
  · exact Or.inr (Or.inl hx)

theorem addConstraint_frame (F : Ctor) {h h' : Heap} {recv arg : Nat} {rel : Rel} {pen : Option Upd} (hc : Closed h)
    (he : addConstraint F h recv rel arg pen = some h') : Frame (own h recv) h h' ∧ Closed h' := by
  unfold addConstraint at he
  split at he
  · rename_i d m rm v c hrecv
    have hrlt := get_some_lt hrecv
    have hclt : c < h.length := hc recv _ hrecv c (by simp [Cell.refs])
    cases ht : termsOf h arg with
    | none => simp [ht] at he
    | some kt =>
      obtain ⟨κa, ts⟩ := kt
      simp only [ht] at he
      have hm := mkObj_fresh (n := h.length) (h := h) (consKind d.kind) (F (consKind d.kind) ts) none 0 none
        (Nat.le_refl _) (by simp)
      cases hx : extendRel (mkObj h (consKind d.kind) (F (consKind d.kind) ts) none 0 none).1 c rel
          [(mkObj h (consKind d.kind) (F (consKind d.kind) ts) none 0 none).2] with
      | none => simp [hx] at he
      | some h2 =>
        simp only [hx] at he
        obtain ⟨g, hcg, hfr, _, hcl, hobj⟩ := extendRel_spec hx
        rw [hm.1.old hclt] at hcg
        have hown := own_obj hrecv hcg
        have hc1 : Closed (mkObj h (consKind d.kind) (F (consKind d.kind) ts) none 0 none).1 := hc.fresh hm.1
        have hc2 : Closed h2 := hcl hc1 (by
          intro p hp
          simp only [List.mem_singleton] at hp
          subst hp
          exact hm.2.2)
        have hf2 : FrameN h.length (own h recv) h h2 :=
          (FrameN.of_fresh hm.1 _ (Nat.le_refl _)).trans (hfr hm.len (by
            intro x hx' _
            rw [hown]
            simp only [List.mem_cons, List.mem_append] at hx' ⊢
            rcases hx' with rfl | hx'
            · exact Or.inr (Or.inr (Or.inl rfl))
            · exact Or.inr (Or.inr (Or.inr hx'))))
        have hrecv2 : h2[recv]? = some (Cell.obj d m rm v (some c)) :=
          hobj recv d m rm v (some c) (by rw [hm.1.old hrlt]; exact hrecv)
        cases pen with
        | none =>
          simp only [Option.some.injEq] at he
          subst he
          exact ⟨hf2.toFrame, hc2⟩
        | some u =>
          simp only at he
          obtain ⟨hfu, _, hcu, _⟩ := applyUpd_obj hrecv2 he
          exact ⟨(hf2.trans (hfu (fun x hx' _ => own_attrs hrecv x hx'))).toFrame, hcu hc2⟩
  · cases he

/-! ### `update` -/

theorem extendGroups_spec {c n : Nat} {W : List Nat} (hcW : c ∈ W) :
    ∀ (ga : List (Rel × Nat)) (h h' : Heap), n ≤ h.length → extendGroups h c ga = some h' →
    (∀ g, h[c]? = some (Cell.cdict g) → ∀ e ∈ g, e.2 ∈ W ∨ n ≤ e.2) →
    FrameN n W h h' ∧ (Closed h → Closed h') ∧
    (∀ (x : Nat) (d : ObjData) (m rm : Option Nat) (v : Nat) (cc : Option Nat),
        h[x]? = some (Cell.obj d m rm v cc) → h'[x]? = some (Cell.obj d m rm v cc))
  | [], h, h', _, he, _ => by
    simp only [extendGroups, Option.some.injEq] at he
    subst he
    exact ⟨FrameN.refl _ _ _, id, fun _ _ _ _ _ _ hx => hx⟩
  | e :: t, h, h', hn, he, hinv => by
    simp only [extendGroups] at he
    split at he
    · rename_i xs hxs
      cases hx : extendRel h c e.1 xs with
      | none => simp [hx] at he
      | some h1 =>
        simp only [hx] at he
        obtain ⟨g, hcg, hfr, ⟨g', hcg', hg'⟩, hcl, hobj⟩ := extendRel_spec hx
        have hf1 : FrameN n W h h1 := hfr hn (by
          intro x hx' hxn
          simp only [List.mem_cons, List.mem_map] at hx'
          rcases hx' with rfl | ⟨e', he', rfl⟩
          · exact hcW
          · rcases hinv g hcg e' he' with hw | hge
            · exact hw
            · omega)
        have ih := extendGroups_spec hcW t h1 h' (Nat.le_trans hn hf1.1) he (by
          intro g'' hg'' e' he'
          rw [hcg'] at hg''
          cases hg''
          rcases hg' e' he' with hin | hge
          · exact hinv g hcg e' hin
          · exact Or.inr (Nat.le_trans hn hge))
        refine ⟨hf1.trans ih.1, ?_, ?_⟩
        · intro hc
          exact ih.2.1 (hcl hc (fun p hp => hc e.2 _ hxs p (by simpa [Cell.refs] using hp)))
        · intro x d m rm v cc hx'
          exact ih.2.2 x d m rm v cc (hobj x d m rm v cc hx')
    · cases he

theorem maxAnc_spec {h : Heap} {recv arg n : Nat} {W : List Nat} (hW : recv < n → recv ∈ W) :
    FrameN n W h (maxAnc h recv arg) ∧ (Closed h → Closed (maxAnc h recv arg)) := by
  unfold maxAnc
  split
  · rename_i d m rm v c hcell
    exact ⟨FrameN.write _ hW, fun hc => hc.write (fun q hq => hc recv _ hcell q hq)⟩
  · exact ⟨FrameN.refl _ _ _, id⟩

theorem updateH_frame {h h' : Heap} {recv arg : Nat} {u : Upd} (hc : Closed h)
    (he : updateH h recv arg u = some h') : Frame (own h recv) h h' ∧ Closed h' := by
  unfold updateH at he
  cases ht : termsOf h arg with
  | none => simp [ht] at he
  | some kt =>
    obtain ⟨κa, ts⟩ := kt
    simp only [ht] at he
    split at he
    · rename_i d m rm v c hrecv
      cases hu : applyUpd h recv u with
      | none => simp [hu] at he
      | some h1 =>
        simp only [hu] at he
        obtain ⟨hfu, hlen, hcu, hcd⟩ := applyUpd_obj hrecv hu
        have hf1 : FrameN h.length (own h recv) h h1 := hfu (fun x hx _ => own_attrs hrecv x hx)
        split at he
        · rename_i cr _ _ _ _ ca _
          split at he
          · split at he
            · rename_i ga _
              cases hg : extendGroups h1 cr ga with
              | none => simp [hg] at he
              | some h2 =>
                simp only [hg, Option.some.injEq] at he
                subst he
                have hrin : recv ∈ own h recv := own_attrs hrecv recv (by simp)
                have hcrin : cr ∈ own h recv := by
                  simp only [own, hrecv]
                  simp
                have hs := extendGroups_spec (n := h.length) (W := own h recv) hcrin ga h1 h2 (by omega) hg (by
                  intro g hg1 e he'
                  have hg0 := hcd cr g hg1
                  left
                  rw [own_obj hrecv hg0]
                  simp only [List.mem_cons, List.mem_append, List.mem_map]
                  exact Or.inr (Or.inr (Or.inr ⟨e, he', rfl⟩)))
                have hmx := maxAnc_spec (h := h2) (recv := recv) (arg := arg) (n := h.length) (W := own h recv)
                  (fun _ => hrin)
                exact ⟨((hf1.trans hs.1).trans hmx.1).toFrame, hmx.2 (hs.2.1 (hcu hc))⟩
            · cases he
          · simp only [Option.some.injEq] at he
            subst he
            exact ⟨hf1.toFrame, hcu hc⟩
        · simp only [Option.some.injEq] at he
          subst he
          exact ⟨hf1.toFrame, hcu hc⟩
    · cases he

/-! ### brute-force solvers -/

theorem allocPlains_closed : ∀ (k : Nat) (h : Heap), Closed h → Closed (allocPlains h k).1 :=
  fun k h hc => hc.fresh (allocPlains_fresh' k h)
where
  allocPlains_fresh' : ∀ (k : Nat) (h : Heap), FreshExt 0 h (allocPlains h k).1
    | 0, h => by simp only [allocPlains]; exact FreshExt.refl _ _
    | k + 1, h => by
      simp only [allocPlains, alloc]
      exact (FreshExt.alloc (by simp [Cell.refs])).trans (allocPlains_fresh' k _)

theorem solveH_frame {h h' : Heap} {a nres : Nat} {rs : List Nat} (hc : Closed h)
    (he : solveH h a nres = some (h', rs)) : Frame [a] h h' ∧ Closed h' := by
  unfold solveH at he
  split at he
  · rename_i d m rm v c hcell
    simp only [Option.some.injEq] at he
    have hw : FrameN h.length [a] h (write h a (Cell.obj { d with terms := popReinsertObj d.terms } m rm v c)) :=
      FrameN.write _ (fun _ => by simp)
    have hcw : Closed (write h a (Cell.obj { d with terms := popReinsertObj d.terms } m rm v c)) :=
      hc.write (fun q hq => hc a _ hcell q hq)
    have hp := allocPlains_closed.allocPlains_fresh' nres
      (write h a (Cell.obj { d with terms := popReinsertObj d.terms } m rm v c))
    rw [Prod.ext_iff] at he
    obtain ⟨rfl, _⟩ := he
    exact ⟨(hw.trans (FrameN.of_fresh hp _ (by simp))).toFrame, hcw.fresh hp⟩
  · rename_i t hcell
    simp only [Option.some.injEq] at he
    have hw : FrameN h.length [a] h (write h a (Cell.plain (popReinsert t))) := FrameN.write _ (fun _ => by simp)
    have hcw : Closed (write h a (Cell.plain (popReinsert t))) := hc.write (by simp [Cell.refs])
    have hp := allocPlains_closed.allocPlains_fresh' nres (write h a (Cell.plain (popReinsert t)))
    rw [Prod.ext_iff] at he
    obtain ⟨rfl, _⟩ := he
    exact ⟨(hw.trans (FrameN.of_fresh hp _ (by simp))).toFrame, hcw.fresh hp⟩
  · cases he

/-! ### client steps -/

theorem runSteps_keep (P : Nat → Prop) : ∀ (s : List Step) (h : Heap),
    (∀ st ∈ s, ∀ t, st.target = some t → ¬ P t) → ∀ c, c < h.length → P c → (runSteps h s)[c]? = h[c]?
  | [], _, _, _, _, _ => rfl
  | st :: s, h, hs, c, hc, hp => by
    have hrest : ∀ st' ∈ s, ∀ t, st'.target = some t → ¬ P t := fun st' hst' => hs st' (by simp [hst'])
    show (runSteps (runStep h st) s)[c]? = h[c]?
    cases st with
    | alloc cell =>
      rw [runSteps_keep P s _ hrest c (by simp [runStep]; omega) hp]
      exact get_append_old hc
    | write r cell =>
      rw [runSteps_keep P s _ hrest c (by simp [runStep]; exact hc) hp]
      apply get_write_ne
      intro he
      subst he
      exact hs (Step.write c cell) (by simp) c rfl hp

theorem runSteps_len : ∀ (s : List Step) (h : Heap), h.length ≤ (runSteps h s).length
  | [], _ => Nat.le_refl _
  | st :: s, h => by
    show h.length ≤ (runSteps (runStep h st) s).length
    have := runSteps_len s (runStep h st)
    cases st <;> simp [runStep] at this ⊢ <;> omega

end Qv.Hp
