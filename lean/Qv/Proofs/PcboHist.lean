import Qv.Proofs.PcboAll
/-!
# C02: penalties of one history add independently
-/
namespace Qv.PcboP

/-- every addition of the history satisfies the hypotheses of the property at the state it is made in, is not
in a give-up branch, and its polynomial mentions user labels only -/
def HistHyp : St → List Step → Prop
  | _, [] => True
  | st, c :: r => Hyp st c.P c.lam c.b ∧ ¬ WeakBranch c.rel c.P c.b ∧ Below ANC c.P ∧ HistHyp (step st c) r

theorem HistHyp.below {st : St} {h : List Step} (hh : HistHyp st h) : ∀ c ∈ h, Below ANC c.P := by
  induction h generalizing st with
  | nil => intro c hc; cases hc
  | cons d r ih =>
    intro c hc
    rcases List.mem_cons.1 hc with rfl | hc
    · exact hh.2.2.1
    · exact ih hh.2.2.2 c hc

theorem FPen_trans (a b c : St) (s : Var → Rat) : FPen a c s = FPen a b s + FPen b c s := by
  unfold FPen; ring

theorem run_cons_eq (st : St) (c : Step) (r : List Step) : run st (c :: r) = run (step st c) r := rfl

theorem run_nonneg {st : St} {h : List Step} (hh : HistHyp st h) {s : Var → Rat} (hs : IsBool s) :
    0 ≤ FPen st (run st h) s := by
  induction h generalizing st with
  | nil => simp [run, FPen]
  | cons c r ih =>
    rw [run_cons_eq, FPen_trans st (step st c)]
    have h1 : 0 ≤ FPen st (step st c) s := addConstraint_nonneg hh.1 hs
    have h2 := ih hh.2.2.2
    linarith

/-- a violated constraint of the history costs at least its `lam`, whatever the ancillas of all the
constraints are set to -/
theorem run_viol {st : St} {h : List Step} (hh : HistHyp st h) {s : Var → Rat} (hs : IsBool s)
    (c : Step) (hc : c ∈ h) (hr : ¬ RelP c.rel (eval s c.P)) : c.lam ≤ FPen st (run st h) s := by
  induction h generalizing st with
  | nil => cases hc
  | cons d r ih =>
    rw [run_cons_eq, FPen_trans st (step st d)]
    rcases List.mem_cons.1 hc with rfl | hc
    · have h1 : c.lam ≤ FPen st (step st c) s := (addConstraint_sem hh.1 hh.2.1).viol s hs hr
      have h2 := run_nonneg hh.2.2.2 hs
      linarith
    · have h1 : 0 ≤ FPen st (step st d) s := addConstraint_nonneg hh.1 hs
      have h2 := ih hh.2.2.2 hc
      linarith

/-- if every constraint of the history holds at `x`, one setting of all the ancillas makes all the added
terms vanish together -/
theorem run_sat {st : St} {h : List Step} (hh : HistHyp st h) {x : Var → Rat} (hx : IsBool x)
    (hr : ∀ c ∈ h, RelP c.rel (eval x c.P)) :
    ∃ s, (∀ i, ¬ InA st (run st h) i → s i = x i) ∧ IsBool s ∧ FPen st (run st h) s = 0 := by
  induction h generalizing st x with
  | nil => exact ⟨x, fun _ _ => rfl, hx, by simp [run, FPen]⟩
  | cons c r ih =>
    have S : Sem (RelP c.rel) st (step st c) c.P c.lam := addConstraint_sem hh.1 hh.2.1
    obtain ⟨s1, a1, b1, f1⟩ := S.sat x hx (hr c List.mem_cons_self)
    have hbel := hh.2.2.2.below
    have hr' : ∀ c' ∈ r, RelP c'.rel (eval s1 c'.P) := by
      intro c' hc'
      have : eval s1 c'.P = eval x c'.P := eval_congr (hbel c' hc') (fun (i : Nat) (hi : i < ANC) => a1 i (by
        rintro ⟨k, _, _, rfl⟩; omega))
      rw [this]; exact hr c' (List.mem_cons_of_mem _ hc')
    obtain ⟨s2, a2, b2, f2⟩ := ih hh.2.2.2 b1 hr'
    have hle1 : st.anc ≤ (step st c).anc := step_anc_le st c
    have hle2 : (step st c).anc ≤ (run (step st c) r).anc := run_anc_le _ r
    refine ⟨s2, fun (i : Nat) hi => ?_, b2, ?_⟩
    · rw [a2 i (fun ⟨k, k1, k2, e⟩ => hi ⟨k, by omega, k2, e⟩)]
      exact a1 i (fun ⟨k, k1, k2, e⟩ => hi ⟨k, k1, by rw [run_cons_eq]; omega, e⟩)
    · rw [run_cons_eq, FPen_trans st (step st c), f2]
      have B : Struct st (step st c) c.P := (addConstraint_book c.rel st c.P c.lam c.lt c.b c.sup).2
      obtain ⟨_, q, h2, h3⟩ := B
      have e : FPen st (step st c) s2 = FPen st (step st c) s1 := by
        rw [FPen_of_added h2 b2, FPen_of_added h2 b1]
        refine eval_congr (V := fun i => i < ANC + (step st c).anc) (h3 _ ?_ ?_) ?_
        · exact hh.2.2.1.mono (fun (i : Nat) (hi : i < ANC) => show i < ANC + (step st c).anc by omega)
        · intro k _ hk; exact Nat.add_lt_add_left hk _
        · intro (i : Nat) (hi : i < ANC + (step st c).anc)
          exact a2 i (by rintro ⟨k, k1, _, rfl⟩; omega)
      rw [e]
      have : FPen st (step st c) s1 = 0 := f1
      rw [this]; ring

end Qv.PcboP
