import Qv.Proofs.PcsoHist
import Mathlib.Tactic.NormNum
/-!
# C03: a concrete instance of the transfer principle's hypothesis with an ancilla (non-vacuity)

`PCSO().add_constraint_le_zero({(0,): 1})` (`z0 ≤ 0`): the helper PCBO receives `P = 1 - 2 x0`, draws one slack
ancilla `a = __a0` and adds `(1 - 2 x0 + a)^2 = 1 + 3a - 4 x0 a`.  `BoolPenaltyOK` holds for this call.
-/
namespace Qv.Pcso
open Qv Qv.Logic

def exH : Poly := [([0], 1)]
def exP : Poly := [([0], -2), ([], 1)]

theorem ex_spinCopy : spinCopy exH = .ok exH := by decide +kernel
theorem ex_boolImage : boolImage exH = .ok exP := by decide +kernel

theorem ex_terms : (Qv.addConstraint .le (emptyPcbo {}) exP 1 true (none, none) false).terms =
    [([0, ANC], -4), ([], 1), ([ANC], 3)] := by decide +kernel
theorem ex_anc : (Qv.addConstraint .le (emptyPcbo {}) exP 1 true (none, none) false).anc = 1 := by decide +kernel
theorem ex_not_warned : ¬ warnsUnsatB .le (emptyPcbo {}) exP 1 true (none, none) := by
  unfold warnsUnsatB; decide +kernel

theorem ex_boolPenaltyOK : BoolPenaltyOK .le (emptyPcbo {}) exP 1 true (none, none) false := by
  have hF : ∀ x, addedB .le (emptyPcbo {}) exP 1 true (none, none) false x = -4 * (x 0 * x ANC) + 1 + 3 * x ANC := by
    intro x
    unfold addedB
    rw [ex_terms]
    simp only [emptyPcbo, eval, mon]
    ring
  have hP : ∀ x : Var → Rat, eval x exP = -2 * x 0 + 1 := by
    intro x; simp only [exP, eval, mon]; ring
  have h0 : ¬ InAnc 0 1 (0 : Var) := by
    rintro ⟨k, _, _, he⟩
    have he' : (0 : Nat) = ANC + k := he
    have : (0 : Nat) < ANC := by decide
    omega
  unfold BoolPenaltyOK
  rw [ex_anc]
  refine ⟨fun x hx => ?_, fun _ x hx hh => ?_, fun _ x hx hh y hy hag => ?_⟩
  · rw [hF]
    rcases hx 0 with h | h <;> rcases hx ANC with h' | h' <;> rw [h, h'] <;> norm_num
  · -- the relation holds: x0 = 1; set the ancilla to 1
    have hx0 : x 0 = 1 := by
      rcases hx 0 with h | h
      · simp [Rel.holds, hP, h] at hh; norm_num at hh
      · exact h
    refine ⟨fun i => if i = ANC then 1 else x i, fun i => ?_, fun i hi => ?_, ?_⟩
    · by_cases h : i = ANC
      · simp [h]
      · simp only [h, if_false]; exact hx i
    · have : i ≠ ANC := fun h => hi ⟨0, Nat.le_refl _, by decide, by simp [h]⟩
      simp [this]
    · rw [hF]
      have : (0 : Var) ≠ ANC := by decide
      simp only [this, if_false, if_true, hx0]
      norm_num
  · -- the relation fails: x0 = 0; every ancilla value gives at least lam = 1
    have hx0 : x 0 = 0 := by
      rcases hx 0 with h | h
      · exact h
      · simp [Rel.holds, hP, h] at hh
    rw [hF, hag 0 h0, hx0]
    rcases hy ANC with h | h <;> rw [h] <;> norm_num

end Qv.Pcso
