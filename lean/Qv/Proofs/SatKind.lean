import Qv.Proofs.Expr
import Qv.Model.Sat
/-!
# Result type of the gate builders

`type(P) == type(variables[0])` when the first operand is a boolean model, `PUBO` otherwise
(docstrings of `qubovert/sat/_satisfiability.py`).
-/
namespace Qv

/-- the model type of a value, if it is a model object -/
def Val.kind? : Val → Option Kind
  | .mdl κ _ => some κ
  | _ => none

/-- type of `BUFFER(x)` -/
def SVal.bkind : SVal → Kind
  | .val (.mdl κ _) => κ
  | _ => .pubo

theorem mulModel_kind {κ : Kind} {p : Poly} {b v : Val} (h : mulModel κ p b = .ok v) :
    v.kind? = some κ := by
  cases b <;> simp only [mulModel, bind_ok_iff, pure, Except.pure] at h <;>
    (obtain ⟨d, _, r, _, h⟩ := h; injection h with h; subst h; rfl)

theorem add_kindL {κ : Kind} {p : Poly} {b v : Val} (h : Val.add (.mdl κ p) b = .ok v) :
    v.kind? = some κ := by
  cases b <;> simp only [Val.add, bind_ok_iff, pure, Except.pure] at h <;>
    (obtain ⟨d, _, r, _, h⟩ := h; injection h with h; subst h; rfl)

theorem sub_kindL {κ : Kind} {p : Poly} {b v : Val} (h : Val.sub (.mdl κ p) b = .ok v) :
    v.kind? = some κ := by
  cases b <;> simp only [Val.sub, bind_ok_iff, pure, Except.pure] at h <;>
    (obtain ⟨d, _, r, _, h⟩ := h; injection h with h; subst h; rfl)

theorem kind_some {v : Val} {κ : Kind} (h : v.kind? = some κ) : ∃ p, v = .mdl κ p := by
  cases v with
  | num c => cases h
  | raw q => cases h
  | mdl κ2 p => injection h with h; subst h; exact ⟨p, rfl⟩

theorem sub_num_kind {c : Rat} {a v : Val} {κ : Kind} (ha : a.kind? = some κ)
    (h : Val.sub (.num c) a = .ok v) : v.kind? = some κ := by
  obtain ⟨p, rfl⟩ := kind_some ha
  simp only [Val.sub, bind_ok_iff] at h
  obtain ⟨m, hm, h⟩ := h
  obtain ⟨q, rfl⟩ := kind_some (mulModel_kind hm)
  exact add_kindL h

theorem mul_kindL {a b v : Val} {κ : Kind} (ha : a.kind? = some κ) (h : Val.mul a b = .ok v) :
    v.kind? = some κ := by
  obtain ⟨p, rfl⟩ := kind_some ha
  simp only [Val.mul] at h
  exact mulModel_kind h

theorem mul_num_kind {c : Rat} {b v : Val} {κ : Kind} (hb : b.kind? = some κ)
    (h : Val.mul (.num c) b = .ok v) : v.kind? = some κ := by
  obtain ⟨p, rfl⟩ := kind_some hb
  simp only [Val.mul] at h
  exact mulModel_kind h

theorem pow_kind {a v : Val} {κ : Kind} {e : Int} (ha : a.kind? = some κ) (h : Val.pow a e = .ok v) :
    v.kind? = some κ := by
  obtain ⟨p, rfl⟩ := kind_some ha
  simp only [Val.pow, bind_ok_iff, pure, Except.pure] at h
  obtain ⟨d, _, r, _, h⟩ := h; injection h with h; subst h; rfl

theorem bufferV_kind {sv : SVal} {v : Val} (h : bufferV sv = .ok v) : v.kind? = some sv.bkind := by
  cases sv with
  | lbl i =>
    simp only [bufferV, bind_ok_iff, pure, Except.pure] at h
    obtain ⟨r, _, h⟩ := h; injection h with h; subst h; rfl
  | val w =>
    cases w with
    | num c => simp [bufferV] at h
    | raw p =>
      simp only [bufferV, Val.cast, bind_ok_iff, pure, Except.pure] at h
      obtain ⟨r, _, h⟩ := h; injection h with h; subst h; rfl
    | mdl κ p =>
      simp only [bufferV, Val.pos, bind_ok_iff, pure, Except.pure] at h
      obtain ⟨r, _, h⟩ := h; injection h with h; subst h; rfl

theorem notV_kind {sv : SVal} {v : Val} (h : notV sv = .ok v) : v.kind? = some sv.bkind := by
  simp only [notV, bind_ok_iff] at h
  obtain ⟨b, hb, h⟩ := h
  exact sub_num_kind (bufferV_kind hb) h

theorem notV_val_kind {m v : Val} {κ : Kind} (hm : m.kind? = some κ) (h : notV (.val m) = .ok v) :
    v.kind? = some κ := by
  obtain ⟨p, rfl⟩ := kind_some hm
  exact notV_kind h

theorem satOne_kind {v : Val} (h : satOne = .ok v) : v.kind? = some .pubo := add_kindL h

theorem andLoop_kind {κ : Kind} : ∀ (vs : List SVal) {acc r : Val}, acc.kind? = some κ →
    andLoop acc vs = .ok r → r.kind? = some κ
  | [], acc, r, ha, h => by simp only [andLoop] at h; injection h with h; subst h; exact ha
  | v :: vs, acc, r, ha, h => by
    simp only [andLoop, bind_ok_iff] at h
    obtain ⟨b, _, m, hm, h⟩ := h
    exact andLoop_kind vs (mul_kindL ha hm) h

theorem foldSteps_kind {κ : Kind} {step : Val → SVal → Except Err Val}
    (hstep : ∀ {acc r : Val} {v : SVal}, acc.kind? = some κ → step acc v = .ok r → r.kind? = some κ) :
    ∀ (vs : List SVal) {acc r : Val}, acc.kind? = some κ → foldSteps step acc vs = .ok r →
      r.kind? = some κ
  | [], acc, r, ha, h => by simp only [foldSteps] at h; injection h with h; subst h; exact ha
  | v :: vs, acc, r, ha, h => by
    simp only [foldSteps, bind_ok_iff] at h
    obtain ⟨m, hm, h⟩ := h
    exact foldSteps_kind hstep vs (hstep ha hm) h

theorem orStep_kind {κ : Kind} {acc r : Val} {v : SVal} (ha : acc.kind? = some κ)
    (h : orStep acc v = .ok r) : r.kind? = some κ := by
  obtain ⟨p, rfl⟩ := kind_some ha
  simp only [orStep, bind_ok_iff] at h
  obtain ⟨b, _, d, _, m, _, h⟩ := h
  exact add_kindL h

theorem xorStep_kind {κ : Kind} {acc r : Val} {v : SVal} (ha : acc.kind? = some κ)
    (h : xorStep acc v = .ok r) : r.kind? = some κ := by
  obtain ⟨p, rfl⟩ := kind_some ha
  simp only [xorStep, bind_ok_iff] at h
  obtain ⟨b, _, d, hd, h⟩ := h
  exact pow_kind (sub_kindL hd) h

/-- type of the result of a gate applied to evaluated operands: the type of `BUFFER(first operand)`,
`PUBO` for an empty operand list -/
def gateKind : List SVal → Kind
  | [] => .pubo
  | v :: _ => v.bkind

theorem andV_kind {vs : List SVal} {r : Val} (h : andV vs = .ok r) : r.kind? = some (gateKind vs) := by
  cases vs with
  | nil => exact satOne_kind h
  | cons v vs =>
    simp only [andV, andLoop, bind_ok_iff] at h
    obtain ⟨b, hb, m, hm, h⟩ := h
    exact andLoop_kind vs (mul_num_kind (bufferV_kind hb) hm) h

theorem orV_kind {vs : List SVal} {r : Val} (h : orV vs = .ok r) : r.kind? = some (gateKind vs) := by
  cases vs with
  | nil => exact satOne_kind h
  | cons v vs =>
    simp only [orV, bind_ok_iff] at h
    obtain ⟨b, hb, h⟩ := h
    exact foldSteps_kind orStep_kind vs (bufferV_kind hb) h

theorem xorV_kind {vs : List SVal} {r : Val} (h : xorV vs = .ok r) : r.kind? = some (gateKind vs) := by
  cases vs with
  | nil => exact satOne_kind h
  | cons v vs =>
    simp only [xorV, bind_ok_iff] at h
    obtain ⟨b, hb, h⟩ := h
    exact foldSteps_kind xorStep_kind vs (bufferV_kind hb) h

theorem applyGate_kind {g : Gate} {vs : List SVal} {r : Val} (h : applyGate g vs = .ok r) :
    r.kind? = some (gateKind vs) := by
  cases g with
  | buffer =>
    match vs, h with
    | [v], h => simp only [applyGate] at h; exact bufferV_kind h
    | [], h => simp [applyGate] at h
    | _ :: _ :: _, h => simp [applyGate] at h
  | not =>
    match vs, h with
    | [v], h => simp only [applyGate] at h; exact notV_kind h
    | [], h => simp [applyGate] at h
    | _ :: _ :: _, h => simp [applyGate] at h
  | and => simp only [applyGate] at h; exact andV_kind h
  | nand =>
    simp only [applyGate, bind_ok_iff] at h
    obtain ⟨m, hm, h⟩ := h
    exact notV_val_kind (andV_kind hm) h
  | or => simp only [applyGate] at h; exact orV_kind h
  | nor =>
    simp only [applyGate, bind_ok_iff] at h
    obtain ⟨m, hm, h⟩ := h
    exact notV_val_kind (orV_kind hm) h
  | xor => simp only [applyGate] at h; exact xorV_kind h
  | xnor =>
    simp only [applyGate, bind_ok_iff] at h
    obtain ⟨m, hm, h⟩ := h
    exact notV_val_kind (xorV_kind hm) h

/-- the type the docstrings promise for an expression: that of its leftmost leaf if it is a model,
`PUBO` otherwise -/
def SExpr.resultKind : SExpr → Kind
  | .lbl _ => .pubo
  | .raw _ => .pubo
  | .mdl κ _ => κ
  | .gate _ [] => .pubo
  | .gate _ (a :: _) => a.resultKind

theorem buildArg_kind : ∀ (e : SExpr) {sv : SVal}, buildArg e = .ok sv → sv.bkind = e.resultKind
  | .lbl i, sv, h => by simp only [buildArg] at h; injection h with h; subst h; rfl
  | .raw p, sv, h => by simp only [buildArg] at h; injection h with h; subst h; rfl
  | .mdl κ p, sv, h => by
    simp only [buildArg, bind_ok_iff, pure, Except.pure] at h
    obtain ⟨r, _, h⟩ := h; injection h with h; subst h; rfl
  | .gate g [], sv, h => by
    simp only [buildArg, buildArgs, bind_ok_iff, pure, Except.pure] at h
    obtain ⟨svs, hsvs, v, hv, h⟩ := h
    injection hsvs with hsvs; subst hsvs
    injection h with h; subst h
    obtain ⟨p, rfl⟩ := kind_some (applyGate_kind hv)
    rfl
  | .gate g (a :: r), sv, h => by
    simp only [buildArg, buildArgs, bind_ok_iff, pure, Except.pure] at h
    obtain ⟨svs, ⟨sa, hsa, sr, _, hsvs⟩, v, hv, h⟩ := h
    injection hsvs with hsvs; subst hsvs
    injection h with h; subst h
    obtain ⟨p, rfl⟩ := kind_some (applyGate_kind hv)
    simp only [SVal.bkind, gateKind, SExpr.resultKind]
    exact buildArg_kind a hsa

end Qv
