import Qv.Proofs.ProblemsGPGround2
import Mathlib.Data.List.Perm.Subperm
/-!
# GraphPartitioning ground states: the documented threshold `A > B·min(2·degree, N)/8` for simple graphs
-/
namespace Qv.Prob
open Qv

/-- number of `+1` entries among the first `n` -/
def gpPlus (z : Var → Rat) (n : Nat) : Nat := ((List.range n).filter (fun j => decide (z j = 1))).length

theorem gp_plus_sum {z : Var → Rat} (hz : IsSpin z) (n : Nat) :
    sumTo z n = 2 * (gpPlus z n : Rat) - (n : Rat) := by
  induction n with
  | zero => simp [sumTo, gpPlus]
  | succ n ih =>
    have e : gpPlus z (n + 1) = gpPlus z n + (if z n = 1 then 1 else 0) := by
      simp only [gpPlus, List.range_succ, List.filter_append, List.length_append, List.filter_cons,
        List.filter_nil]
      by_cases h : z n = 1 <;> simp [h]
    rw [e]; simp only [sumTo, ih]
    rcases hz n with h | h
    · simp only [h, if_true]; push_cast; ring
    · have : ¬ ((-1 : Rat) = 1) := by norm_num
      simp only [h, this, if_false]; push_cast; ring

/-- the endpoint index of `e` that is not `i` -/
def gpOther (order : List Var) (i : Nat) (e : (Var × Var) × Rat) : Nat :=
  if idxD order e.1.1 = i then idxD order e.1.2 else idxD order e.1.1

theorem gp_same_cases {order : List Var} {z : Var → Rat} {i : Nat} {e : (Var × Var) × Rat}
    (hs : gpSame order z i e = true) :
    (idxD order e.1.1 = i ∧ z (idxD order e.1.2) = 1) ∨ (idxD order e.1.2 = i ∧ z (idxD order e.1.1) = 1) := by
  simpa [gpSame] using hs

theorem gp_other_spec {order : List Var} {z : Var → Rat} {i : Nat} {e : (Var × Var) × Rat}
    (h1 : e.1.1 ∈ order) (h2 : e.1.2 ∈ order) (hne : idxD order e.1.1 ≠ idxD order e.1.2)
    (hs : gpSame order z i e = true) :
    gpOther order i e < order.length ∧ z (gpOther order i e) = 1 ∧ gpOther order i e ≠ i := by
  unfold gpOther
  rcases gp_same_cases hs with ⟨ha, hz2⟩ | ⟨hb, hz1⟩
  · rw [if_pos ha]
    exact ⟨gp_idxD_lt h2, hz2, fun h => hne (ha.trans h.symm)⟩
  · have ha : ¬ idxD order e.1.1 = i := fun h => hne (h.trans hb.symm)
    rw [if_neg ha]
    exact ⟨gp_idxD_lt h1, hz1, ha⟩

/-- two different edges of a simple graph at the same vertex lead to different neighbours -/
theorem gp_other_ne {order : List Var} {z : Var → Rat} {i : Nat} {e f : (Var × Var) × Rat}
    (e1 : e.1.1 ∈ order) (e2 : e.1.2 ∈ order) (f1 : f.1.1 ∈ order) (f2 : f.1.2 ∈ order)
    (hne : idxD order e.1.1 ≠ idxD order e.1.2) (hnf : idxD order f.1.1 ≠ idxD order f.1.2)
    (hse : gpSame order z i e = true) (hsf : gpSame order z i f = true)
    (hR : ¬ (e.1 = f.1 ∨ (e.1.1 = f.1.2 ∧ e.1.2 = f.1.1))) : gpOther order i e ≠ gpOther order i f := by
  intro heq
  apply hR
  unfold gpOther at heq
  rcases gp_same_cases hse with ⟨ha, _⟩ | ⟨hb, _⟩
  · rw [if_pos ha] at heq
    rcases gp_same_cases hsf with ⟨ha', _⟩ | ⟨hb', _⟩
    · rw [if_pos ha'] at heq
      exact Or.inl (Prod.ext (gp_idxD_inj e1 f1 (ha.trans ha'.symm)) (gp_idxD_inj e2 f2 heq))
    · have ha' : ¬ idxD order f.1.1 = i := fun h => hnf (h.trans hb'.symm)
      rw [if_neg ha'] at heq
      exact Or.inr ⟨gp_idxD_inj e1 f2 (ha.trans hb'.symm), gp_idxD_inj e2 f1 heq⟩
  · have ha : ¬ idxD order e.1.1 = i := fun h => hne (h.trans hb.symm)
    rw [if_neg ha] at heq
    rcases gp_same_cases hsf with ⟨ha', _⟩ | ⟨hb', _⟩
    · rw [if_pos ha'] at heq
      exact Or.inr ⟨gp_idxD_inj e1 f2 heq, gp_idxD_inj e2 f1 (hb.trans ha'.symm)⟩
    · have ha' : ¬ idxD order f.1.1 = i := fun h => hnf (h.trans hb'.symm)
      rw [if_neg ha'] at heq
      exact Or.inl (Prod.ext (gp_idxD_inj e1 f1 heq) (gp_idxD_inj e2 f2 (hb.trans hb'.symm)))

theorem gp_edges_mem {p : GP} (hwf : p.WF) {e : (Var × Var) × Rat} (he : e ∈ p.edges) :
    e.1.1 ∈ p.order ∧ e.1.2 ∈ p.order := by
  simp only [GP.edges, List.mem_filter] at he
  exact hwf.2 e he.1

/-- in a simple graph the edges from `i` to `+1` vertices are fewer than the `+1` vertices (`i` itself is one) -/
theorem gp_same_lt_plus {p : GP} (hwf : p.WF) (hsimple : p.Simple) {z : Var → Rat} {i : Nat}
    (hi : i < p.numVars) (hzi : z i = 1) :
    (p.edges.filter (gpSame p.order z i)).length + 1 ≤ gpPlus z p.numVars := by
  have hne := gp_edges_idx_ne hwf
  let L := (p.edges.filter (gpSame p.order z i)).map (gpOther p.order i)
  have hspec : ∀ j ∈ L, j < p.order.length ∧ z j = 1 ∧ j ≠ i := by
    intro j hj
    obtain ⟨e, he, rfl⟩ := List.mem_map.mp hj
    obtain ⟨he1, he2⟩ := List.mem_filter.mp he
    obtain ⟨m1, m2⟩ := gp_edges_mem hwf he1
    exact gp_other_spec m1 m2 (hne e he1) he2
  have hnd : L.Nodup := by
    show List.Pairwise (· ≠ ·) _
    rw [List.pairwise_map]
    refine List.Pairwise.imp_of_mem ?_ (List.Pairwise.filter _ hsimple)
    intro e f he hf hR
    obtain ⟨he1, he2⟩ := List.mem_filter.mp he
    obtain ⟨hf1, hf2⟩ := List.mem_filter.mp hf
    obtain ⟨m1, m2⟩ := gp_edges_mem hwf he1
    obtain ⟨n1, n2⟩ := gp_edges_mem hwf hf1
    exact gp_other_ne m1 m2 n1 n2 (hne e he1) (hne f hf1) he2 hf2 hR
  have hnd' : (i :: L).Nodup := List.nodup_cons.mpr ⟨fun h => (hspec i h).2.2 rfl, hnd⟩
  have hsub : (i :: L) ⊆ (List.range p.numVars).filter (fun j => decide (z j = 1)) := by
    intro j hj
    rcases List.mem_cons.mp hj with rfl | hj
    · exact List.mem_filter.mpr ⟨List.mem_range.mpr hi, by simpa using hzi⟩
    · obtain ⟨a, b, _⟩ := hspec j hj
      exact List.mem_filter.mpr ⟨List.mem_range.mpr a, by simpa using b⟩
  have := (List.subperm_of_subset hnd' hsub).length_le
  simpa [L, gpPlus] using this

/-- the flip bound for the documented threshold `B·min(2·degree, N)/8` -/
theorem gp_flipOK_min {p : GP} (hwf : p.WF) (hu : p.UnitWeights) (hsimple : p.Simple) {B : Rat} (hB : 0 ≤ B) :
    p.FlipOK B (B * ((min (2 * p.degree) p.numVars : Nat) : Rat) / 8) := by
  intro z hz i hi hzi hs
  have h1 := gp_cutCost_flip_le hwf hu hB hz hzi
  have h2 : ((p.edges.filter (gpSame p.order z i)).length : Rat) ≤ (p.degree : Rat) := by
    exact_mod_cast gp_same_le_degree hwf z hi
  have h3 : ((p.edges.filter (gpSame p.order z i)).length : Rat) + 1 ≤ (gpPlus z p.numVars : Rat) := by
    exact_mod_cast gp_same_lt_plus hwf hsimple hi hzi
  have h4 := gp_plus_sum hz p.numVars
  have hd : (0 : Rat) ≤ (p.degree : Rat) := Nat.cast_nonneg _
  have hN1 : (1 : Rat) ≤ (p.numVars : Rat) := by exact_mod_cast (Nat.succ_le_of_lt (Nat.lt_of_le_of_lt (Nat.zero_le i) hi))
  generalize ((p.edges.filter (gpSame p.order z i)).length : Rat) = c at h1 h2 h3
  generalize sumTo z p.numVars = s at hs h4 ⊢
  -- `c ≤ μ (s - 1) / 2`
  have key : c ≤ ((min (2 * p.degree) p.numVars : Nat) : Rat) * (s - 1) / 2 := by
    rcases Nat.le_total (2 * p.degree) p.numVars with hle | hle
    · rw [Nat.min_eq_left hle]; push_cast
      nlinarith [mul_nonneg hd (show (0 : Rat) ≤ s - 2 by linarith)]
    · rw [Nat.min_eq_right hle]
      nlinarith [mul_nonneg (show (0 : Rat) ≤ (p.numVars : Rat) - 1 by linarith) (show (0 : Rat) ≤ s - 2 by linarith)]
  have := mul_le_mul_of_nonneg_left key hB
  linarith

/-- **(G), Lucas 2.2 for `GraphPartitioning.to_quso`.**  Simple graph with weights in `[0, 1]`, an even number of
vertices, `B ≥ 0`, `A > B·min(2·degree, N)/8`: every ground state of the QUSO energy is balanced, its energy is
`B ·` (cut weight), and no balanced state has a lighter cut. -/
theorem gp_ground_states {p : GP} (hwf : p.WF) (hu : p.UnitWeights) (hsimple : p.Simple) {A B : Rat} (hB : 0 ≤ B)
    (hA : B * ((min (2 * p.degree) p.numVars : Nat) : Rat) / 8 < A) {h : Nat} (hN : p.numVars = 2 * h)
    {z : Var → Rat} (hz : IsSpin z)
    (hmin : ∀ z'' : Var → Rat, IsSpin z'' → p.energy A B z ≤ p.energy A B z'') :
    p.Balanced z ∧ p.energy A B z = p.cutCost B z ∧
      ∀ y : Var → Rat, IsSpin y → p.Balanced y → p.cutCost B z ≤ p.cutCost B y :=
  gp_ground_of_flipOK (gp_flipOK_min hwf hu hsimple hB) hA hN hz hmin

/-- **(DEF)**: with `A ≥ B·min(2·degree, N)/8` (in particular the default `A = None`) every optimal balanced state is
a ground state. -/
theorem gp_default {p : GP} (hwf : p.WF) (hu : p.UnitWeights) (hsimple : p.Simple) {A B : Rat} (hB : 0 ≤ B)
    (hA : B * ((min (2 * p.degree) p.numVars : Nat) : Rat) / 8 ≤ A) {h : Nat} (hN : p.numVars = 2 * h)
    {y : Var → Rat} (hyb : p.Balanced y)
    (hopt : ∀ y' : Var → Rat, IsSpin y' → p.Balanced y' → p.cutCost B y ≤ p.cutCost B y') :
    (∀ z : Var → Rat, IsSpin z → p.energy A B y ≤ p.energy A B z) ∧ p.energy A B y = p.cutCost B y :=
  gp_default_of_flipOK (gp_flipOK_min hwf hu hsimple hB) hA hN hyb hopt

end Qv.Prob
