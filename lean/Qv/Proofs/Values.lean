import Qv.Proofs.Basic
import Qv.Model.Values
/-!
# The four value functions equal direct evaluation
-/
namespace Qv

theorem mon_bool_cases {x : Var → Rat} (hx : IsBool x) (k : Key) :
    (allTruthy x k = true ∧ mon x k = 1) ∨ (allTruthy x k = false ∧ mon x k = 0) := by
  induction k with
  | nil => left; simp [allTruthy]
  | cons i r ih =>
    rcases hx i with h | h
    · right; simp [allTruthy, h]
    · rcases ih with ⟨h1, h2⟩ | ⟨h1, h2⟩
      · left; simp [allTruthy, h, h1, h2]
      · right; simp [allTruthy, h, h1, h2]

theorem puboValue_eq_eval {x : Var → Rat} (hx : IsBool x) (p : Poly) :
    puboValue x p = eval x p := by
  induction p with
  | nil => rfl
  | cons kv r ih =>
    obtain ⟨k, v⟩ := kv
    simp only [puboValue, eval_cons, ih]
    rcases mon_bool_cases hx k with ⟨h1, h2⟩ | ⟨h1, h2⟩ <;> simp [h1, h2]

theorem quboTerm_eq {x : Var → Rat} (hx : IsBool x) {k : Key} (hk : k.length ≤ 2) (v : Rat) :
    quboTerm x k v = v * mon x k := by
  match k, hk with
  | [], _ => simp [quboTerm]
  | [i], _ =>
    rcases hx i with h | h <;> simp [quboTerm, h]
  | [i, j], _ =>
    rcases hx i with h | h <;> rcases hx j with h' | h' <;> simp [quboTerm, h, h']
  | _ :: _ :: _ :: _, hk => simp at hk

theorem quboValue_eq_eval {x : Var → Rat} (hx : IsBool x) (p : Poly)
    (hp : ∀ kv ∈ p, kv.1.length ≤ 2) : quboValue x p = eval x p := by
  induction p with
  | nil => rfl
  | cons kv r ih =>
    obtain ⟨k, v⟩ := kv
    simp only [quboValue, eval_cons]
    rw [ih (fun kv h => hp kv (List.mem_cons_of_mem _ h)), quboTerm_eq hx (hp (k, v) List.mem_cons_self)]

theorem mon_spin_parity {z : Var → Rat} (hz : IsSpin z) (k : Key) :
    mon z k = if countNeg z k % 2 = 0 then 1 else -1 := by
  induction k with
  | nil => simp [countNeg]
  | cons i r ih =>
    simp only [mon_cons, countNeg, ih]
    rcases hz i with h | h
    · have : ¬ ((1 : Rat) = -1) := by norm_num
      simp [h, this]
    · simp only [h, if_true]
      by_cases hp : countNeg z r % 2 = 0
      · have : (1 + countNeg z r) % 2 ≠ 0 := by omega
        simp [hp, this]
      · have : (1 + countNeg z r) % 2 = 0 := by omega
        simp [hp, this]

theorem pusoValue_eq_eval {z : Var → Rat} (hz : IsSpin z) (p : Poly) :
    pusoValue z p = eval z p := by
  induction p with
  | nil => rfl
  | cons kv r ih =>
    obtain ⟨k, v⟩ := kv
    simp only [pusoValue, eval_cons, ih, mon_spin_parity hz k]

theorem qusoTerm_eq (z : Var → Rat) {k : Key} (hk : k.length ≤ 2) (v : Rat) :
    qusoTerm z k v = v * mon z k := by
  match k, hk with
  | [], _ => simp [qusoTerm]
  | [i], _ => simp [qusoTerm]
  | [i, j], _ => simp [qusoTerm]; ring
  | _ :: _ :: _ :: _, hk => simp at hk

/-- `quso_value` needs no hypothesis on the assignment -/
theorem qusoValue_eq_eval (z : Var → Rat) (p : Poly)
    (hp : ∀ kv ∈ p, kv.1.length ≤ 2) : qusoValue z p = eval z p := by
  induction p with
  | nil => rfl
  | cons kv r ih =>
    obtain ⟨k, v⟩ := kv
    simp only [qusoValue, eval_cons]
    rw [ih (fun kv h => hp kv (List.mem_cons_of_mem _ h)), qusoTerm_eq z (hp (k, v) List.mem_cons_self)]

end Qv
