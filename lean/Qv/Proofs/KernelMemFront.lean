import Qv.Proofs.AnnealFront
import Qv.Proofs.KernelMemPusoTop
/-!
# Qv.Proofs.KernelMemFront — the Python front end hands `WF` arguments to the C extension (T17.2),
and PCG32's `rand_int` stays below its bound
-/
namespace Qv.KMem
open Qv Qv.Kernel Qv.Anneal

/-! ## `rand_int` of the concrete source -/

theorem bounded_lt (bound : UInt32) (hb : 0 < bound.toNat) : ∀ (fuel : Nat) (r : Rng),
    (r.bounded bound fuel).2.toNat < bound.toNat
  | 0, r => by simpa [Rng.bounded] using hb
  | fuel + 1, r => by
    unfold Rng.bounded
    dsimp only
    split
    · simp only [UInt32.toNat_mod]
      exact Nat.mod_lt _ hb
    · exact bounded_lt bound hb fuel _

/-- `rand_int(rng, N)` of the PCG32 model is `< N` whenever `1 <= N <= INT_MAX` -/
theorem pcgSrc_indexOK {N : Nat} (h1 : 1 ≤ N) (h2 : N ≤ 2147483647) : IndexOK pcgSrc N := by
  intro r
  show (r.int N).2 < N
  unfold Rng.int
  have hN : (N.toUInt32).toNat = N := by
    simp only [Nat.toUInt32, UInt32.toNat_ofNat']
    omega
  have := bounded_lt N.toUInt32 (by omega) 64 r
  rw [hN] at this
  exact this

/-! ## sums of lengths -/

theorem sum_map_ofNat : ∀ (l : List Nat), ((l.map Int.ofNat).sum : Int) = ((l.sum : Nat) : Int)
  | [] => by simp
  | a :: r => by
    simp only [List.map_cons, List.sum_cons, sum_map_ofNat r]
    simp

theorem getD_mem_or {β : Type} (l : List β) (i : Nat) (d : β) : l.getD i d ∈ l ∨ l.getD i d = d := by
  by_cases h : i < l.length
  · exact Or.inl (getD_mem d h)
  · right
    have : l[i]? = none := List.getElem?_eq_none (by omega)
    simp [List.getD, this]

/-! ## anneal_quso: the flattening loop -/

/-- invariant of the loop over `model.items()` -/
def QFlat (N : Nat) (s : List Rat × List (List (Nat × Rat))) : Prop :=
  s.1.length = N ∧ s.2.length = N ∧ ∀ row ∈ s.2, ∀ p ∈ row, p.1 < N

theorem qstep_inv {N : Nat} {s s' : List Rat × List (List (Nat × Rat))} {kv : Key × Rat} (hs : QFlat N s)
    (h : qstep N s kv = .ok s') : QFlat N s' := by
  obtain ⟨h1, h2, h3⟩ := hs
  unfold qstep at h
  split at h
  · split at h
    · injection h with h; subst h
      exact ⟨by simp [h1], h2, h3⟩
    · cases h
  · rename_i i j _
    split at h
    · rename_i hij
      injection h with h; subst h
      refine ⟨h1, by simp [h2], ?_⟩
      intro row hrow p hp
      have step : ∀ (adj : List (List (Nat × Rat))) (a b : Nat) (v : Rat), b < N →
          (∀ row ∈ adj, ∀ p ∈ row, p.1 < N) →
          ∀ row ∈ adj.set a (adj.getD a [] ++ [(b, v)]), ∀ p ∈ row, p.1 < N := by
        intro adj a b v hb hadj row hrow p hp
        rcases List.mem_or_eq_of_mem_set hrow with hr | hr
        · exact hadj row hr p hp
        · subst hr
          rcases List.mem_append.mp hp with hp | hp
          · rcases getD_mem_or adj a [] with hm | hm
            · exact hadj _ hm p hp
            · rw [hm] at hp; cases hp
          · simp at hp; subst hp; exact hb
      exact step _ j i kv.2 hij.1 (step _ i j kv.2 hij.2 h3) row hrow p hp
    · cases h
  · injection h with h; subst h
    exact ⟨h1, h2, h3⟩

theorem foldlM_inv {σ β : Type} (P : σ → Prop) (f : σ → β → Except Err σ)
    (hf : ∀ s b s', P s → f s b = .ok s' → P s') : ∀ (l : List β) (s s' : σ), P s → l.foldlM f s = .ok s' → P s'
  | [], s, s', hs, h => by
    simp only [List.foldlM_nil, pure, Except.pure] at h
    injection h with h; subst h; exact hs
  | b :: l, s, s', hs, h => by
    simp only [List.foldlM_cons, bind_ok_iff] at h
    obtain ⟨s1, h1, h2⟩ := h
    exact foldlM_inv P f hf l s1 s' (hf s b s1 hs h1) h2

theorem flattenQuso_flat {N : Nat} {model : Poly} {h : List Rat} {adj : List (List (Nat × Rat))}
    (hf : flattenQuso N model = .ok (h, adj)) : QFlat N (h, adj) := by
  rw [flattenQuso_eq] at hf
  refine foldlM_inv (QFlat N) (qstep N) (fun s b s' hs h => qstep_inv hs h) model _ _ ?_ hf
  refine ⟨by simp, by simp, ?_⟩
  intro row hrow p hp
  rw [List.eq_of_mem_replicate hrow] at hp
  cases hp

/-- when every label of every key is `< N` the flattening loop does not raise -/
theorem flattenQuso_total {N : Nat} {model : Poly} (hl : ∀ kv ∈ model, ∀ l ∈ kv.1, l < N) :
    ∃ r, flattenQuso N model = .ok r := by
  rw [flattenQuso_eq]
  generalize (List.replicate N (0 : Rat), List.replicate N ([] : List (Nat × Rat))) = s
  induction model generalizing s with
  | nil => exact ⟨s, rfl⟩
  | cons kv model ih =>
    have hkv := hl kv (by simp)
    have : ∃ s1, qstep N s kv = .ok s1 := by
      unfold qstep
      split
      · rename_i a hk
        have : a < N := hkv a (by rw [hk]; simp)
        exact ⟨_, by rw [if_pos this]⟩
      · rename_i i j hk
        have hi : i < N := hkv i (by rw [hk]; simp)
        have hj : j < N := hkv j (by rw [hk]; simp)
        exact ⟨_, by rw [if_pos ⟨hi, hj⟩]⟩
      · exact ⟨s, rfl⟩
    obtain ⟨s1, hs1⟩ := this
    obtain ⟨r, hr⟩ := ih (fun kv' hkv' => hl kv' (by simp [hkv'])) s1
    refine ⟨r, ?_⟩
    simp only [List.foldlM_cons]
    rw [hs1]
    exact hr

/-- T17.2 (QUSO): the arguments `anneal_quso` builds are `WF` -/
theorem qusoArgs_wf {α : Type} (toNum : Rat → α) {N : Nat} {model : Poly} {h : List Rat}
    {adj : List (List (Nat × Rat))} (hf : flattenQuso N model = .ok (h, adj)) (hN : 1 ≤ N) (Ts : List α)
    (numAnneals : Int) (init : List Int)
    (hinit : init = [] ∨ (init.length = N ∧ ∀ x ∈ init, x = 1 ∨ x = -1))
    (hna : 1 ≤ numAnneals) (htot : numAnneals * (N : Int) ≤ INT_MAX)
    (hJ : (adj.flatten.length : Int) ≤ INT_MAX) (hTs : (Ts.length : Int) ≤ INT_MAX) :
    WFQuso (qusoArgs toNum h adj).h ((qusoArgs toNum h adj).nn.map Int.ofNat)
      ((qusoArgs toNum h adj).nb.map Int.ofNat) (qusoArgs toNum h adj).J Ts numAnneals init := by
  obtain ⟨h1, h2, h3⟩ := flattenQuso_flat hf
  simp only [qusoArgs, WFQuso, List.length_map]
  have h1' : h.length = N := h1
  have h2' : adj.length = N := h2
  rw [h1', h2']
  refine ⟨hN, by simp, ?_, ?_, by simp, ?_, hinit, hna, htot, hJ, hTs⟩
  · intro x hx
    simp only [List.mem_map] at hx
    obtain ⟨n, _, rfl⟩ := hx
    exact Int.natCast_nonneg n
  · rw [sum_map_ofNat, List.length_flatten]
  · intro x hx
    simp only [List.mem_map] at hx
    obtain ⟨n, ⟨p, hp, rfl⟩, rfl⟩ := hx
    obtain ⟨row, hrow, hpr⟩ := List.mem_flatten.mp hp
    have := h3 row hrow p hpr
    exact ⟨Int.natCast_nonneg _, Int.ofNat_lt.mpr this⟩

/-! ## anneal_puso: the flattening loop -/

/-- T17.2 (PUSO): the arguments `anneal_puso` builds are `WF` (whether there is a term is *not* guaranteed) -/
theorem flattenPuso_wf {α : Type} (toNum : Rat → α) {N : Nat} {model : Poly}
    (hl : ∀ kv ∈ model, ∀ l ∈ kv.1, l < N) (hN : 1 ≤ N) (Ts : List α) (numAnneals : Int) (init : List Int)
    (hinit : init = [] ∨ (init.length = N ∧ ∀ x ∈ init, x = 1 ∨ x = -1))
    (hna : 1 ≤ numAnneals) (htot : numAnneals * (N : Int) ≤ INT_MAX)
    (hterms : ((flattenPuso toNum model).terms.length : Int) < INT_MAX) (hTs : (Ts.length : Int) ≤ INT_MAX) :
    WFPuso (N : Int) ((flattenPuso toNum model).nc.map Int.ofNat) ((flattenPuso toNum model).terms.map Int.ofNat)
      (flattenPuso toNum model).cs Ts numAnneals init := by
  simp only [flattenPuso] at hterms ⊢
  simp only [WFPuso, List.length_map]
  refine ⟨by omega, trivial, ?_, ?_, ?_, ?_, hna, htot, hterms, hTs⟩
  · intro x hx
    simp only [List.mem_map] at hx
    obtain ⟨n, ⟨kv, hkv, rfl⟩, rfl⟩ := hx
    have hne : kv.1 ≠ [] := by
      have := (List.mem_filter.mp hkv).2
      intro e
      simp [e] at this
    have : 1 ≤ kv.1.length := by
      cases hk : kv.1 with
      | nil => exact absurd hk hne
      | cons a r => simp
    exact Int.ofNat_le.mpr this
  · rw [sum_map_ofNat, List.length_flatten, List.map_map]
    rfl
  · intro x hx
    simp only [List.mem_map] at hx
    obtain ⟨n, hn, rfl⟩ := hx
    obtain ⟨key, hkey, hnk⟩ := List.mem_flatten.mp hn
    simp only [List.mem_map] at hkey
    obtain ⟨kv, hkv, rfl⟩ := hkey
    have := hl kv (List.mem_filter.mp hkv).1 n hnk
    exact ⟨Int.natCast_nonneg _, Int.ofNat_lt.mpr this⟩
  · rcases hinit with h | ⟨h1, h2⟩
    · exact Or.inl h
    · exact Or.inr ⟨by exact_mod_cast h1, h2⟩

/-- the flattened model has a term iff some key is non-empty -/
theorem flattenPuso_has_term {α : Type} (toNum : Rat → α) {model : Poly} (h : ∃ kv ∈ model, kv.1 ≠ []) :
    1 ≤ (flattenPuso toNum model).cs.length := by
  obtain ⟨kv, hkv, hne⟩ := h
  simp only [flattenPuso, List.length_map]
  have : kv ∈ model.filter (fun kv => !kv.1.isEmpty) := by
    refine List.mem_filter.mpr ⟨hkv, ?_⟩
    cases hk : kv.1 with
    | nil => exact absurd hk hne
    | cons a r => simp
  exact List.length_pos_of_mem this

/-! ## `prep` : what reaches the C call -/

theorem prep_call {ρ α : Type} (dispatch : Obj → Except Err (Nat × Poly × List Var)) (L : Obj) (P : Params ρ α)
    (c : Call α) (h : prep dispatch L P = .ok (.call c))
    (hv : ∀ d, P.init = some d → ∀ p ∈ d, p.2 = 1 ∨ p.2 = -1) :
    1 ≤ P.numAnneals ∧ 1 ≤ c.N ∧ (c.init = [] ∨ (c.init.length = c.N ∧ ∀ x ∈ c.init, x = 1 ∨ x = -1)) := by
  rcases prep_cases dispatch L P _ h with ⟨_, hd⟩ | ⟨hpos, Ts, N, model, rev, _, _, hr⟩
  · cases hd
  · rcases hr with ⟨_, hd⟩ | ⟨hN, init, hinit, hc⟩
    · cases hd
    · injection hc with hc
      subst hc
      refine ⟨by omega, by simp only []; omega, ?_⟩
      rcases relabelInit_good N rev P.init init hv hinit with h | ⟨h1, h2⟩
      · exact Or.inl h
      · exact Or.inr ⟨h1, h2⟩

end Qv.KMem
