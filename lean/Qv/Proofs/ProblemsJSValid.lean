import Qv.Proofs.ProblemsRest
import Qv.Proofs.Unique
/-!
# JobSequencing: `is_solution_valid` on a converted solution (VALID)
-/
namespace Qv.Prob
open Qv

theorem js_mem_insertU {a i : Var} {l : Key} : i ∈ insertU a l ↔ i = a ∨ i ∈ l := by
  induction l with
  | nil => simp [insertU]
  | cons b bs ih =>
    unfold insertU
    split
    · simp
    · split
      · rename_i h; subst h; simp
      · simp only [List.mem_cons, ih]
        constructor
        · rintro (h | h | h)
          · exact Or.inr (Or.inl h)
          · exact Or.inl h
          · exact Or.inr (Or.inr h)
        · rintro (h | h | h)
          · exact Or.inr (Or.inl h)
          · exact Or.inl h
          · exact Or.inr (Or.inr h)

theorem js_mem_squashB {i : Var} {k : Key} : i ∈ squashB k ↔ i ∈ k := by
  induction k with
  | nil => simp [squashB]
  | cons a r ih =>
    show i ∈ insertU a (squashB r) ↔ _
    rw [js_mem_insertU, ih, List.mem_cons]

/-- two strictly sorted lists with the same members are equal -/
theorem js_ssorted_ext {l1 l2 : Key} (h1 : SSorted l1) (h2 : SSorted l2) (h : ∀ i, i ∈ l1 ↔ i ∈ l2) : l1 = l2 := by
  have pm : l1.Perm l2 := (List.perm_ext_iff_of_nodup (ssorted_nodup h1) (ssorted_nodup h2)).2 h
  exact pm.eq_of_pairwise (fun a b _ _ hab hba => absurd hab (Nat.lt_asymm hba))
    (ssorted_pairwise h1) (ssorted_pairwise h2)

/-- the loop of `is_solution_valid`: it fails iff a job repeats (or is already completed); otherwise it returns the
sorted set of the completed jobs -/
theorem js_scan_spec (l : List Var) (d0 : List Var) (h0 : SSorted d0) :
    match JS.scan d0 l with
    | none => ¬ (l.Nodup ∧ ∀ j ∈ l, j ∉ d0)
    | some d => (l.Nodup ∧ ∀ j ∈ l, j ∉ d0) ∧ SSorted d ∧ ∀ i, i ∈ d ↔ i ∈ d0 ∨ i ∈ l := by
  induction l generalizing d0 with
  | nil => simp [JS.scan, h0]
  | cons j r ih =>
    unfold JS.scan
    by_cases hc : d0.contains j = true
    · rw [if_pos hc]
      have hj : j ∈ d0 := by simpa using hc
      intro h
      exact h.2 j List.mem_cons_self hj
    · rw [if_neg hc]
      have hj : j ∉ d0 := by simpa using hc
      have := ih (insertU j d0) (insertU_sorted j h0).1
      cases hs : JS.scan (insertU j d0) r with
      | none =>
        rw [hs] at this
        simp only [] at this ⊢
        intro h
        apply this
        refine ⟨(List.nodup_cons.1 h.1).2, fun i hi hin => ?_⟩
        rcases js_mem_insertU.1 hin with rfl | hin
        · exact (List.nodup_cons.1 h.1).1 hi
        · exact h.2 i (List.mem_cons_of_mem _ hi) hin
      | some d =>
        rw [hs] at this
        simp only [] at this ⊢
        obtain ⟨⟨hnd, hnot⟩, hsd, hmem⟩ := this
        refine ⟨⟨List.nodup_cons.2 ⟨fun hjr => hnot j hjr (js_mem_insertU.2 (Or.inl rfl)), hnd⟩, fun i hi => ?_⟩, hsd,
          fun i => ?_⟩
        · rcases List.mem_cons.1 hi with rfl | hi
          · exact hj
          · exact fun hin => hnot i hi (js_mem_insertU.2 (Or.inr hin))
        · rw [hmem, js_mem_insertU, List.mem_cons]
          constructor
          · rintro ((h | h) | h)
            · exact Or.inr (Or.inl h)
            · exact Or.inl h
            · exact Or.inr (Or.inr h)
          · rintro (h | h | h)
            · exact Or.inl (Or.inr h)
            · exact Or.inl (Or.inl h)
            · exact Or.inr h

/-- **(VALID)** `is_solution_valid` on a converted solution accepts exactly the assignments in which every job occurs
exactly once: the flattened job lists have no repetition and their members are exactly the job labels. -/
theorem js_validConv_iff (p : JS) (c : List (List Var)) :
    p.validConv c = true ↔
      (c.flatMap id).Nodup ∧ ∀ j, j ∈ c.flatMap id ↔ j ∈ p.lengths.map Prod.fst := by
  unfold JS.validConv
  have hs := js_scan_spec (c.flatMap id) [] trivial
  cases h : JS.scan [] (c.flatMap id) with
  | none =>
    rw [h] at hs
    simp only [] at hs ⊢
    constructor
    · intro hf; cases hf
    · intro hv; exact absurd ⟨hv.1, fun _ _ hn => by cases hn⟩ hs
  | some d =>
    rw [h] at hs
    simp only [] at hs ⊢
    obtain ⟨⟨hnd, _⟩, hsd, hmem⟩ := hs
    rw [beq_iff_eq]
    constructor
    · intro he
      refine ⟨hnd, fun j => ?_⟩
      have := hmem j
      rw [he, js_mem_squashB] at this
      simpa using this.symm
    · intro hv
      refine js_ssorted_ext hsd (squashB_sorted _) (fun i => ?_)
      rw [hmem, js_mem_squashB, ← hv.2 i]
      simp

example : JS.validConv ⟨[(5, 1), (7, 2)], 2, true, 4⟩ [[7], [5]] = true := by decide +kernel
example : JS.validConv ⟨[(5, 1), (7, 2)], 2, true, 4⟩ [[7], [5, 7]] = false := by decide +kernel
example : JS.validConv ⟨[(5, 1), (7, 2)], 2, true, 4⟩ [[7], []] = false := by decide +kernel

end Qv.Prob
