import Qv.Proofs.LogicMethods
/-!
# The eight `add_constraint_eq_G` methods (namespace `Qv.Logic`)

Each proof computes the value of the polynomial `P` the method hands to `add_constraint_eq_zero` from the operand
values, proves the declared bounds (`(0,3)` resp. `(-1,1)`) and `P x = 0 ↔ a(x) = G(vs)(x)` by case analysis on
`{0,1}`-valued quantities, and instantiates the generic lemma.
-/
namespace Qv.Logic
open Qv

theorem eval_num (x : Var → Rat) (c : Rat) : Val.eval x (.num c) = c := rfl

/-! ### the polynomials, on `{0,1}`-valued quantities -/

section
variable {a b c : Rat}

theorem pAND (ha : a = 0 ∨ a = 1) (hb : b = 0 ∨ b = 1) (hc : c = 0 ∨ c = 1) :
    (3 * a + b * c - 2 * a * (b + c) = 0 ∨ 3 * a + b * c - 2 * a * (b + c) = 1 ∨
      3 * a + b * c - 2 * a * (b + c) = 3) ∧
    (3 * a + b * c - 2 * a * (b + c) = 0 ↔ (a = 1 ↔ b * c = 1)) := by
  rcases ha with rfl | rfl <;> rcases hb with rfl | rfl <;> rcases hc with rfl | rfl <;> norm_num

theorem pNAND (ha : a = 0 ∨ a = 1) (hb : b = 0 ∨ b = 1) (hc : c = 0 ∨ c = 1) :
    ((1 - a) * (3 - 2 * (b + c)) + b * c = 0 ∨ (1 - a) * (3 - 2 * (b + c)) + b * c = 1 ∨
      (1 - a) * (3 - 2 * (b + c)) + b * c = 3) ∧
    ((1 - a) * (3 - 2 * (b + c)) + b * c = 0 ↔ (a = 1 ↔ ¬ b * c = 1)) := by
  rcases ha with rfl | rfl <;> rcases hb with rfl | rfl <;> rcases hc with rfl | rfl <;> norm_num

theorem pOR2 (ha : a = 0 ∨ a = 1) (hb : b = 0 ∨ b = 1) (hc : c = 0 ∨ c = 1) :
    (a + b + c + b * c - 2 * a * (b + c) = 0 ∨ a + b + c + b * c - 2 * a * (b + c) = 1 ∨
      a + b + c + b * c - 2 * a * (b + c) = 3) ∧
    (a + b + c + b * c - 2 * a * (b + c) = 0 ↔ (a = 1 ↔ (b = 1 ∨ c = 1))) := by
  rcases ha with rfl | rfl <;> rcases hb with rfl | rfl <;> rcases hc with rfl | rfl <;> norm_num

theorem pNOR2 (ha : a = 0 ∨ a = 1) (hb : b = 0 ∨ b = 1) (hc : c = 0 ∨ c = 1) :
    (1 - a - b - c + b * c + 2 * a * (b + c) = 0 ∨ 1 - a - b - c + b * c + 2 * a * (b + c) = 1 ∨
      1 - a - b - c + b * c + 2 * a * (b + c) = 3) ∧
    (1 - a - b - c + b * c + 2 * a * (b + c) = 0 ↔ (a = 1 ↔ ¬ (b = 1 ∨ c = 1))) := by
  rcases ha with rfl | rfl <;> rcases hb with rfl | rfl <;> rcases hc with rfl | rfl <;> norm_num

/-- the squared-difference shape `g - a`, declared bounds `(-1, 1)` -/
theorem pDiff {g : Rat} (hg : g = 0 ∨ g = 1) (ha : a = 0 ∨ a = 1) :
    (g - a = -1 ∨ g - a = 0 ∨ g - a = 1) ∧ (g - a = 0 ↔ (a = 1 ↔ g = 1)) := by
  rcases ha with rfl | rfl <;> rcases hg with rfl | rfl <;> norm_num

theorem one_sub_01 (ha : a = 0 ∨ a = 1) : (1 - a = 0 ∨ 1 - a = 1) ∧ (1 - a = 1 ↔ ¬ a = 1) := by
  rcases ha with rfl | rfl <;> norm_num

end

/-! ### the two halves of `eq_AND` / `eq_NAND` -/

theorem andR_append (y : Var → Rat) (l1 l2 : List SVal) : andR y (l1 ++ l2) = andR y l1 * andR y l2 := by
  induction l1 with
  | nil => simp [andR]
  | cons v r ih => simp only [List.cons_append, andR, ih]; ring

theorem halves_sound {vs : List SVal} {bc : Val × Val} (hvs : ∀ v ∈ vs, OpOK v) (h : halves vs = .ok bc) :
    GoodB bc.1 ∧ GoodB bc.2 ∧ ∀ y, IsBool y →
      (bc.1.eval y = 0 ∨ bc.1.eval y = 1) ∧ (bc.2.eval y = 0 ∨ bc.2.eval y = 1) ∧
      bc.1.eval y * bc.2.eval y = andR y vs := by
  simp only [halves, bind_ok_iff, pure, Except.pure] at h
  obtain ⟨b, hb, c, hc, h⟩ := h
  injection h with h; subst h
  have h1 : ∀ v ∈ vs.take (vs.length / 2), OpOK v := fun v hv => hvs v (List.mem_of_mem_take hv)
  have h2 : ∀ v ∈ vs.drop (vs.length / 2), OpOK v := fun v hv => hvs v (List.mem_of_mem_drop hv)
  obtain ⟨gb, eb⟩ := andLoop_sound _ (acc := .num 1) trivial h1 hb
  obtain ⟨gc, ec⟩ := andLoop_sound _ (acc := .num 1) trivial h2 hc
  refine ⟨gb, gc, fun y hy => ?_⟩
  simp only [eb y hy, ec y hy, eval_num, one_mul]
  refine ⟨(andR_fact (allOK_ev01 h1 hy)).1, (andR_fact (allOK_ev01 h2 hy)).1, ?_⟩
  rw [← andR_append, List.take_append_drop]

theorem throw_ne {α : Type} {e : Err} {a : α} : (throw e : Except Err α) = .ok a → False := by
  intro h; cases h

section
variable {s s' : St} {lam : Rat} {x : Var → Rat}

/-! ### `eq_AND`, `eq_NAND` -/

theorem consEqAND_pen {a : SVal} {vs : List SVal} (ha : OpOK a) (hvs : ∀ v ∈ vs, OpOK v) (hlam : 0 < lam)
    (hx : IsBool x) (h : consEqAND s a vs lam = .ok s') :
    2 ≤ vs.length ∧ Penalises s s' lam x (T x a ↔ AllT x vs) := by
  simp only [consEqAND] at h
  split at h
  · simp only [bind_ok_iff] at h
    obtain ⟨_, h, _⟩ := h
    exact (throw_ne h).elim
  · rename_i hn
    simp only [bind_ok_iff] at h
    obtain ⟨a', ha', bc, hbc, P, hP, h⟩ := h
    obtain ⟨ga, ea⟩ := bufferV_sound ha' ha
    obtain ⟨gb, gc, ebc⟩ := halves_sound hvs hbc
    obtain ⟨hb01, hc01, hprod⟩ := ebc x hx
    obtain ⟨gP, eP⟩ := VE.run_sound _
      (by simp [VE.Good, ve_ofNat, ve_add, ve_sub, ve_mul, Val.Good, ga, gb, gc]) hP
    have eP' : P.eval x = 3 * SVal.ev x a + bc.1.eval x * bc.2.eval x
        - 2 * SVal.ev x a * (bc.1.eval x + bc.2.eval x) := by
      rw [eP x hx]
      simp only [VE.den, ve_ofNat, ve_add, ve_sub, ve_mul, eval_num, ea x hx]
      push_cast; ring
    obtain ⟨p1, p2⟩ := pAND (ha.ev01 hx) hb01 hc01
    refine ⟨by omega, (eqZeroV_spec013 hx hlam gP (by rw [eP']; exact p1) h).congr ?_⟩
    rw [eP', p2, hprod, (andR_fact (allOK_ev01 hvs hx)).2]; rfl

theorem consEqNAND_pen {a : SVal} {vs : List SVal} (ha : OpOK a) (hvs : ∀ v ∈ vs, OpOK v) (hlam : 0 < lam)
    (hx : IsBool x) (h : consEqNAND s a vs lam = .ok s') :
    2 ≤ vs.length ∧ Penalises s s' lam x (T x a ↔ ¬ AllT x vs) := by
  simp only [consEqNAND] at h
  split at h
  · simp only [bind_ok_iff] at h
    obtain ⟨_, h, _⟩ := h
    exact (throw_ne h).elim
  · rename_i hn
    simp only [bind_ok_iff] at h
    obtain ⟨bc, hbc, na, hna, P, hP, h⟩ := h
    obtain ⟨gna, ena⟩ := notV_sound hna ha
    obtain ⟨gb, gc, ebc⟩ := halves_sound hvs hbc
    obtain ⟨hb01, hc01, hprod⟩ := ebc x hx
    obtain ⟨gP, eP⟩ := VE.run_sound _
      (by simp [VE.Good, ve_ofNat, ve_add, ve_sub, ve_mul, Val.Good, gna, gb, gc]) hP
    have eP' : P.eval x = (1 - SVal.ev x a) * (3 - 2 * (bc.1.eval x + bc.2.eval x))
        + bc.1.eval x * bc.2.eval x := by
      rw [eP x hx]
      simp only [VE.den, ve_ofNat, ve_add, ve_sub, ve_mul, eval_num, ena x hx]
      push_cast; ring
    obtain ⟨p1, p2⟩ := pNAND (ha.ev01 hx) hb01 hc01
    refine ⟨by omega, (eqZeroV_spec013 hx hlam gP (by rw [eP']; exact p1) h).congr ?_⟩
    rw [eP', p2, hprod, (andR_fact (allOK_ev01 hvs hx)).2]; rfl

/-! ### the squared-difference shape: `P = g - a` with bounds `(-1, 1)` -/

theorem diff_pen {g a' P : Val} {gv av : Rat} (gg : GoodB g) (ga : GoodB a')
    (hx : IsBool x) (hlam : 0 < lam)
    (eg : g.eval x = gv) (ea : a'.eval x = av) (hg01 : gv = 0 ∨ gv = 1) (ha01 : av = 0 ∨ av = 1)
    (hP : VE.run (VE.leaf g - VE.leaf a') = .ok P) (h : eqZeroV s P lam (-1) 1 = .ok s') :
    Penalises s s' lam x (av = 1 ↔ gv = 1) := by
  obtain ⟨gP, eP⟩ := VE.run_sound _ (by simp [VE.Good, ve_sub, gg, ga]) hP
  have eP' : P.eval x = gv - av := by
    rw [eP x hx]; simp only [VE.den, ve_sub, eg, ea]
  obtain ⟨p1, p2⟩ := pDiff hg01 ha01
  exact (eqZeroV_specDiff hx hlam gP (by rw [eP']; exact p1) h).congr (by rw [eP', p2])

/-! ### `eq_OR`, `eq_NOR` -/

theorem consEqOR_pen {a : SVal} {vs : List SVal} (ha : OpOK a) (hvs : ∀ v ∈ vs, OpOK v) (hlam : 0 < lam)
    (hx : IsBool x) (h : consEqOR s a vs lam = .ok s') :
    2 ≤ vs.length ∧ Penalises s s' lam x (T x a ↔ AnyT x vs) := by
  simp only [consEqOR] at h
  split at h
  · simp only [bind_ok_iff] at h
    obtain ⟨_, h, _⟩ := h
    exact (throw_ne h).elim
  · rename_i hn
    refine ⟨by omega, ?_⟩
    simp only [bind_ok_iff] at h
    obtain ⟨a', ha', h⟩ := h
    obtain ⟨ga, ea⟩ := bufferV_sound ha' ha
    split at h
    · rename_i v0 v1
      simp only [bind_ok_iff] at h
      obtain ⟨b, hb, c, hc, P, hP, h⟩ := h
      obtain ⟨gb, eb⟩ := bufferV_sound hb (hvs v0 (by simp))
      obtain ⟨gc, ec⟩ := bufferV_sound hc (hvs v1 (by simp))
      obtain ⟨gP, eP⟩ := VE.run_sound _
        (by simp [VE.Good, ve_ofNat, ve_add, ve_sub, ve_mul, Val.Good, ga, gb, gc]) hP
      have eP' : P.eval x = SVal.ev x a + SVal.ev x v0 + SVal.ev x v1 + SVal.ev x v0 * SVal.ev x v1
          - 2 * SVal.ev x a * (SVal.ev x v0 + SVal.ev x v1) := by
        rw [eP x hx]
        simp only [VE.den, ve_ofNat, ve_add, ve_sub, ve_mul, eval_num, ea x hx, eb x hx, ec x hx]
        push_cast; ring
      obtain ⟨p1, p2⟩ := pOR2 (ha.ev01 hx) ((hvs v0 (by simp)).ev01 hx) ((hvs v1 (by simp)).ev01 hx)
      refine (eqZeroV_spec013 hx hlam gP (by rw [eP']; exact p1) h).congr ?_
      rw [eP', p2]; simp [AnyT, T]
    · simp only [bind_ok_iff] at h
      obtain ⟨inner, hi, P, hP, h⟩ := h
      obtain ⟨gi, ei⟩ := (consNOR_both hvs hi).inner
      have hne : vs ≠ [] := by rintro rfl; simp at hn
      obtain ⟨o1, o2⟩ := orG_fact hne (allOK_ev01 hvs hx)
      exact (diff_pen gi ga hx hlam (ei x hx) (ea x hx) o1 (ha.ev01 hx) hP h).congr (by rw [o2]; rfl)

theorem consEqNOR_pen {a : SVal} {vs : List SVal} (ha : OpOK a) (hvs : ∀ v ∈ vs, OpOK v) (hlam : 0 < lam)
    (hx : IsBool x) (h : consEqNOR s a vs lam = .ok s') :
    2 ≤ vs.length ∧ Penalises s s' lam x (T x a ↔ ¬ AnyT x vs) := by
  simp only [consEqNOR] at h
  split at h
  · simp only [bind_ok_iff] at h
    obtain ⟨_, h, _⟩ := h
    exact (throw_ne h).elim
  · rename_i hn
    refine ⟨by omega, ?_⟩
    simp only [bind_ok_iff] at h
    obtain ⟨a', ha', h⟩ := h
    obtain ⟨ga, ea⟩ := bufferV_sound ha' ha
    split at h
    · rename_i v0 v1
      simp only [bind_ok_iff] at h
      obtain ⟨b, hb, c, hc, P, hP, h⟩ := h
      obtain ⟨gb, eb⟩ := bufferV_sound hb (hvs v0 (by simp))
      obtain ⟨gc, ec⟩ := bufferV_sound hc (hvs v1 (by simp))
      obtain ⟨gP, eP⟩ := VE.run_sound _
        (by simp [VE.Good, ve_ofNat, ve_add, ve_sub, ve_mul, Val.Good, ga, gb, gc]) hP
      have eP' : P.eval x = 1 - SVal.ev x a - SVal.ev x v0 - SVal.ev x v1 + SVal.ev x v0 * SVal.ev x v1
          + 2 * SVal.ev x a * (SVal.ev x v0 + SVal.ev x v1) := by
        rw [eP x hx]
        simp only [VE.den, ve_ofNat, ve_add, ve_sub, ve_mul, eval_num, ea x hx, eb x hx, ec x hx]
        push_cast; ring
      obtain ⟨p1, p2⟩ := pNOR2 (ha.ev01 hx) ((hvs v0 (by simp)).ev01 hx) ((hvs v1 (by simp)).ev01 hx)
      refine (eqZeroV_spec013 hx hlam gP (by rw [eP']; exact p1) h).congr ?_
      rw [eP', p2]; simp [AnyT, T]
    · simp only [bind_ok_iff] at h
      obtain ⟨inner, hi, P, hP, h⟩ := h
      obtain ⟨gi, ei⟩ := (consOR_both hvs hi).inner
      have hne : vs ≠ [] := by rintro rfl; simp at hn
      obtain ⟨o1, o2⟩ := orG_fact hne (allOK_ev01 hvs hx)
      obtain ⟨n1, n2⟩ := one_sub_01 o1
      exact (diff_pen gi ga hx hlam (ei x hx) (ea x hx) n1 (ha.ev01 hx) hP h).congr (by rw [n2, o2]; rfl)

/-! ### `eq_XOR`, `eq_XNOR` -/

theorem consEqXOR_pen {a : SVal} {vs : List SVal} (ha : OpOK a) (hvs : ∀ v ∈ vs, OpOK v) (hne : vs ≠ [])
    (hlam : 0 < lam) (hx : IsBool x) (h : consEqXOR s a vs lam = .ok s') :
    Penalises s s' lam x (T x a ↔ OddT x vs) := by
  simp only [consEqXOR, bind_ok_iff] at h
  obtain ⟨inner, hi, a', ha', P, hP, h⟩ := h
  obtain ⟨ga, ea⟩ := bufferV_sound ha' ha
  obtain ⟨gi, ei⟩ := (consXNOR_both hvs hi).inner
  obtain ⟨o1, o2⟩ := xorG_fact hne (allOK_ev01 hvs hx)
  exact (diff_pen gi ga hx hlam (ei x hx) (ea x hx) o1 (ha.ev01 hx) hP h).congr (by rw [o2]; rfl)

theorem consEqXNOR_pen {a : SVal} {vs : List SVal} (ha : OpOK a) (hvs : ∀ v ∈ vs, OpOK v) (hne : vs ≠ [])
    (hlam : 0 < lam) (hx : IsBool x) (h : consEqXNOR s a vs lam = .ok s') :
    Penalises s s' lam x (T x a ↔ ¬ OddT x vs) := by
  simp only [consEqXNOR, bind_ok_iff] at h
  obtain ⟨inner, hi, a', ha', P, hP, h⟩ := h
  obtain ⟨ga, ea⟩ := bufferV_sound ha' ha
  obtain ⟨gi, ei⟩ := (consXOR_both hvs hi).inner
  obtain ⟨o1, o2⟩ := xorG_fact hne (allOK_ev01 hvs hx)
  obtain ⟨n1, n2⟩ := one_sub_01 o1
  exact (diff_pen gi ga hx hlam (ei x hx) (ea x hx) n1 (ha.ev01 hx) hP h).congr (by rw [n2, o2]; rfl)

/-! ### `eq_BUFFER`, `eq_NOT` -/

theorem consEqBUFFER_pen {a b : SVal} (ha : OpOK a) (hb : OpOK b) (hlam : 0 < lam) (hx : IsBool x)
    (h : consEqBUFFER s a b lam = .ok s') : Penalises s s' lam x (T x a ↔ T x b) := by
  simp only [consEqBUFFER, bind_ok_iff] at h
  obtain ⟨a', ha', b', hb', P, hP, h⟩ := h
  obtain ⟨ga, ea⟩ := bufferV_sound ha' ha
  obtain ⟨gb, eb⟩ := bufferV_sound hb' hb
  exact (diff_pen ga gb hx hlam (ea x hx) (eb x hx) (ha.ev01 hx) (hb.ev01 hx) hP h).congr
    (by unfold T; exact Iff.comm)

theorem consEqNOT_pen {a b : SVal} (ha : OpOK a) (hb : OpOK b) (hlam : 0 < lam) (hx : IsBool x)
    (h : consEqNOT s a b lam = .ok s') : Penalises s s' lam x (T x b ↔ ¬ T x a) := by
  simp only [consEqNOT, bind_ok_iff] at h
  obtain ⟨inner, hi, b', hb', P, hP, h⟩ := h
  obtain ⟨gb, eb⟩ := bufferV_sound hb' hb
  obtain ⟨gi, ei⟩ := (consBUFFER_both ha hi).inner
  obtain ⟨n1, n2⟩ := one_sub_01 (ha.ev01 hx)
  exact (diff_pen gi gb hx hlam (ei x hx) (eb x hx) n1 (hb.ev01 hx) hP h).congr (by rw [n2]; rfl)

end

/-! ### a nested sat expression is an admissible operand -/

theorem notOf_ok {g b : Val} (hop : OpOK (.val g)) (h : notV (.val g) = .ok b) : OpOK (.val b) := by
  obtain ⟨gb, eb⟩ := notV_sound h hop
  exact ⟨gb, fun y hy => by rw [eb y hy]; exact (one_sub_01 (hop.ev01 hy)).1⟩

/-- the value of any gate applied to admissible operands is again an admissible operand -/
theorem applyGate_ok {g : Gate} {vs : List SVal} {w : Val} (hvs : ∀ v ∈ vs, OpOK v)
    (h : applyGate g vs = .ok w) : OpOK (.val w) := by
  have hand : ∀ {u : Val}, andV vs = .ok u → OpOK (.val u) := fun hu =>
    ⟨(andV_sound hu hvs).1, fun y hy => by
      rw [(andV_sound hu hvs).2 y hy]; exact (andR_fact (allOK_ev01 hvs hy)).1⟩
  have hor : ∀ {u : Val}, orV vs = .ok u → OpOK (.val u) := fun hu =>
    ⟨(orV_sound hu hvs).1, fun y hy => by
      rw [(orV_sound hu hvs).2 y hy]; exact orG_01 (allOK_ev01 hvs hy)⟩
  have hxor : ∀ {u : Val}, xorV vs = .ok u → OpOK (.val u) := fun hu =>
    ⟨(xorV_sound hu hvs).1, fun y hy => by
      rw [(xorV_sound hu hvs).2 y hy]; exact xorG_01 (allOK_ev01 hvs hy)⟩
  cases g with
  | buffer =>
    rcases vs with _ | ⟨v, _ | ⟨_, _⟩⟩ <;> simp only [applyGate, reduceCtorEq] at h
    obtain ⟨gb, eb⟩ := bufferV_sound h (hvs v (by simp))
    exact ⟨gb, fun y hy => by rw [eb y hy]; exact (hvs v (by simp)).ev01 hy⟩
  | not =>
    rcases vs with _ | ⟨v, _ | ⟨_, _⟩⟩ <;> simp only [applyGate, reduceCtorEq] at h
    obtain ⟨gb, eb⟩ := notV_sound h (hvs v (by simp))
    exact ⟨gb, fun y hy => by rw [eb y hy]; exact (one_sub_01 ((hvs v (by simp)).ev01 hy)).1⟩
  | and => exact hand (by simpa [applyGate] using h)
  | or => exact hor (by simpa [applyGate] using h)
  | xor => exact hxor (by simpa [applyGate] using h)
  | nand =>
    simp only [applyGate, bind_ok_iff] at h
    obtain ⟨u, hu, h⟩ := h
    exact notOf_ok (hand hu) h
  | nor =>
    simp only [applyGate, bind_ok_iff] at h
    obtain ⟨u, hu, h⟩ := h
    exact notOf_ok (hor hu) h
  | xnor =>
    simp only [applyGate, bind_ok_iff] at h
    obtain ⟨u, hu, h⟩ := h
    exact notOf_ok (hxor hu) h

end Qv.Logic
