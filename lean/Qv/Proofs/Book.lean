import Qv.Model.Book
import Qv.Proofs.Canon
import Mathlib.Data.List.Nodup
import Mathlib.Data.List.Perm.Subperm
/-!
# Qv.Proofs.Book — the bookkeeping invariant of C14 and its preservation

`I1 … I4` of DESIGN.md §4/C14, a generic preservation principle ("every edit is a composition of
`__init__`, field assignments and `__setitem__` calls"), and its instances.
-/
namespace Qv.Book
open Qv

/-! ## the invariant -/

/-- **I1** cached `variables`, `degree`, `num_binary_variables` are upper bounds (and the count is the size
of the reported set). -/
def I1 (s : State) : Prop :=
  (∀ kv ∈ s.terms, ∀ i ∈ kv.1, i ∈ s.variables) ∧
  (∀ kv ∈ s.terms, ∃ d, s.degree = some d ∧ kv.1.length ≤ d) ∧
  s.variables.Nodup ∧ s.numVars = s.variables.length

/-- **I2** `mapping` and `reverse_mapping` are mutually inverse bijections between `dom mapping` and
`[0, nextLabel)`. -/
def I2 (s : State) : Prop :=
  (∀ p ∈ s.mapping, (p.2, p.1) ∈ s.reverse) ∧ (∀ p ∈ s.reverse, (p.2, p.1) ∈ s.mapping) ∧
  (s.mapping.map Prod.fst).Nodup ∧ (s.mapping.map Prod.snd).Nodup ∧
  (∀ i, i ∈ s.mapping.map Prod.snd ↔ i < s.nextLabel) ∧
  s.mapping.length = s.nextLabel

/-- **I3** the mapped labels are exactly the reported variables, and the next label is their number
(only for the labelled types; the matrix types have no mapping). -/
def I3 (s : State) : Prop :=
  hasBO s.kind = true →
    (∀ i ∈ mapDom s, i ∈ s.variables) ∧ (∀ i ∈ s.variables, i ∈ mapDom s) ∧ s.nextLabel = s.numVars

/-- every ancilla label the state mentions is below `ANC + a` -/
def AncB (a : Nat) (s : State) : Prop :=
  (∀ kv ∈ s.terms, KOK a kv.1) ∧ KOK a s.variables ∧ KOK a (mapDom s)

/-- **I4** (`AncInv`) every constraint-ancilla label the model mentions is below the ancilla counter, so
the next `_next_ancilla` is fresh. -/
def I4 (s : State) : Prop := AncB s.ancilla s

def Inv (s : State) : Prop := I1 s ∧ I2 s ∧ I3 s ∧ I4 s

instance (s : State) : Decidable (I3 s) := by unfold I3; infer_instance
instance (s : State) : Decidable (I4 s) := by unfold I4 AncB; infer_instance

theorem bind_ok_iff {α β : Type} {a : Except Err α} {f : α → Except Err β} {b : β} :
    (a >>= f) = .ok b ↔ ∃ a', a = .ok a' ∧ f a' = .ok b := by
  cases a <;> simp [bind, Except.bind]

/-! ## keys -/

theorem mem_insertU {a i : Var} {l : Key} (h : i ∈ insertU a l) : i = a ∨ i ∈ l := by
  induction l with
  | nil => simp [insertU] at h; exact Or.inl h
  | cons b bs ih =>
    unfold insertU at h
    split at h
    · simpa using h
    · split at h
      · exact Or.inr h
      · rcases List.mem_cons.mp h with h | h
        · exact Or.inr (by simp [h])
        · rcases ih h with h | h
          · exact Or.inl h
          · exact Or.inr (List.mem_cons_of_mem _ h)

theorem mem_toggleU {a i : Var} {l : Key} (h : i ∈ toggleU a l) : i = a ∨ i ∈ l := by
  induction l with
  | nil => simp [toggleU] at h; exact Or.inl h
  | cons b bs ih =>
    unfold toggleU at h
    split at h
    · simpa using h
    · split at h
      · exact Or.inr (List.mem_cons_of_mem _ h)
      · rcases List.mem_cons.mp h with h | h
        · exact Or.inr (by simp [h])
        · rcases ih h with h | h
          · exact Or.inl h
          · exact Or.inr (List.mem_cons_of_mem _ h)

theorem mem_squashB {i : Var} {k : Key} (h : i ∈ squashB k) : i ∈ k := by
  induction k with
  | nil => simp [squashB] at h
  | cons a r ih =>
    have h' : i ∈ insertU a (squashB r) := h
    rcases mem_insertU h' with h | h
    · simp [h]
    · exact List.mem_cons_of_mem _ (ih h)

theorem mem_squashS {i : Var} {k : Key} (h : i ∈ squashS k) : i ∈ k := by
  induction k with
  | nil => simp [squashS] at h
  | cons a r ih =>
    have h' : i ∈ toggleU a (squashS r) := h
    rcases mem_toggleU h' with h | h
    · simp [h]
    · exact List.mem_cons_of_mem _ (ih h)

/-- `squash_key` never invents a label -/
theorem mem_squash {κ : Kind} {k k' : Key} (h : squash κ k = .ok k') {i : Var} (hi : i ∈ k') : i ∈ k := by
  rcases squash_ok_cases h with ⟨_, rfl⟩ | ⟨_, _, rfl⟩ | ⟨_, _, rfl⟩
  · exact hi
  · exact mem_squashS hi
  · exact mem_squashB hi

theorem mem_set {p : Poly} {k : Key} {v : Rat} {kv : Key × Rat} (h : kv ∈ set p k v) :
    (kv = (k, v) ∧ v ≠ 0) ∨ kv ∈ p := by
  unfold set at h
  split at h
  · exact Or.inr (mem_erase_sub p k kv h)
  · rename_i hv
    rcases mem_put p k v kv h with h | h
    · exact Or.inl ⟨h, hv⟩
    · exact Or.inr h

/-! ## what the pieces of `__setitem__` touch -/

theorem addVar_fields (s : State) (i : Var) :
    (addVar s i).kind = s.kind ∧ (addVar s i).terms = s.terms ∧ (addVar s i).mapping = s.mapping ∧
    (addVar s i).reverse = s.reverse ∧ (addVar s i).nextLabel = s.nextLabel ∧
    (addVar s i).degree = s.degree ∧ (addVar s i).ancilla = s.ancilla ∧
    (addVar s i).constraints = s.constraints := by
  unfold addVar; split <;> simp

theorem foldl_addVar_fields (k : Key) (s : State) :
    (k.foldl addVar s).kind = s.kind ∧ (k.foldl addVar s).terms = s.terms ∧
    (k.foldl addVar s).mapping = s.mapping ∧
    (k.foldl addVar s).reverse = s.reverse ∧ (k.foldl addVar s).nextLabel = s.nextLabel ∧
    (k.foldl addVar s).degree = s.degree ∧ (k.foldl addVar s).ancilla = s.ancilla ∧
    (k.foldl addVar s).constraints = s.constraints := by
  induction k generalizing s with
  | nil => simp
  | cons a r ih =>
    simp only [List.foldl_cons]
    obtain ⟨h1, h2, h3, h4, h5, h6, h7, h8⟩ := ih (addVar s a)
    obtain ⟨g1, g2, g3, g4, g5, g6, g7, g8⟩ := addVar_fields s a
    exact ⟨h1.trans g1, h2.trans g2, h3.trans g3, h4.trans g4, h5.trans g5, h6.trans g6, h7.trans g7,
      h8.trans g8⟩

/-- the variable set after `for i in k: add` : old ones stay, exactly the labels of `k` are added, the
list stays duplicate-free and the counter stays its length -/
theorem foldl_addVar_vars (k : Key) (s : State) (hn : s.variables.Nodup) (hc : s.numVars = s.variables.length) :
    (∀ i, i ∈ (k.foldl addVar s).variables ↔ i ∈ s.variables ∨ i ∈ k) ∧
    (k.foldl addVar s).variables.Nodup ∧ (k.foldl addVar s).numVars = (k.foldl addVar s).variables.length := by
  induction k generalizing s with
  | nil => simp [hn, hc]
  | cons a r ih =>
    simp only [List.foldl_cons]
    have key : (∀ i, i ∈ (addVar s a).variables ↔ i ∈ s.variables ∨ i = a) ∧ (addVar s a).variables.Nodup ∧
        (addVar s a).numVars = (addVar s a).variables.length := by
      unfold addVar
      by_cases h : s.variables.contains a = true
      · rw [if_pos h]
        refine ⟨fun i => ⟨Or.inl, fun h' => h'.elim id (fun e => e ▸ ?_)⟩, hn, hc⟩
        simpa using h
      · rw [if_neg h]
        have ha : a ∉ s.variables := by simpa using h
        refine ⟨fun i => by simp, ?_, by simp [hc]⟩
        rw [List.nodup_append]
        refine ⟨hn, List.nodup_singleton a, ?_⟩
        intro x hx y hy
        simp at hy
        subst hy
        exact fun e => ha (e ▸ hx)
    obtain ⟨k1, k2, k3⟩ := key
    obtain ⟨h1, h2, h3⟩ := ih (addVar s a) k2 k3
    refine ⟨fun i => ?_, h2, h3⟩
    rw [h1 i, k1 i]
    simp only [List.mem_cons]
    tauto

theorem regLabel_fields (s : State) (i : Var) :
    (regLabel s i).kind = s.kind ∧ (regLabel s i).terms = s.terms ∧ (regLabel s i).variables = s.variables ∧
    (regLabel s i).numVars = s.numVars ∧ (regLabel s i).degree = s.degree ∧
    (regLabel s i).ancilla = s.ancilla ∧ (regLabel s i).constraints = s.constraints := by
  unfold regLabel; split <;> simp

theorem regLabels_fields (fx : Fix) (k : Key) (s : State) :
    (regLabels fx s k).kind = s.kind ∧ (regLabels fx s k).terms = s.terms ∧
    (regLabels fx s k).variables = s.variables ∧
    (regLabels fx s k).numVars = s.numVars ∧ (regLabels fx s k).degree = s.degree ∧
    (regLabels fx s k).ancilla = s.ancilla ∧ (regLabels fx s k).constraints = s.constraints := by
  unfold regLabels
  induction k generalizing s with
  | nil => simp
  | cons a r ih =>
    simp only [List.foldl_cons]
    split
    · exact ih s
    · obtain ⟨h1, h2, h3, h4, h5, h6, h7⟩ := ih (regLabel s a)
      obtain ⟨g1, g2, g3, g4, g5, g6, g7⟩ := regLabel_fields s a
      exact ⟨h1.trans g1, h2.trans g2, h3.trans g3, h4.trans g4, h5.trans g5, h6.trans g6, h7.trans g7⟩

/-- destructuring `PUBOMatrix.__setitem__` -/
theorem matSet_ok {s s' : State} {k : Key} {v : Rat} (h : matSet s k v = .ok s') :
    ∃ k', squash s.kind k = .ok k' ∧
      s' = { (if v = 0 then s else k'.foldl addVar { s with degree := maxDeg s.degree k'.length }) with
             terms := set (if v = 0 then s else k'.foldl addVar { s with degree := maxDeg s.degree k'.length }).terms k' v } := by
  simp only [matSet, bind_ok_iff, pure, Except.pure] at h
  obtain ⟨k', hk, h⟩ := h
  injection h with h
  exact ⟨k', hk, h.symm⟩

/-- destructuring `BO.__setitem__` -/
theorem setitem_ok {fx : Fix} {s s' : State} {k : Key} {v : Rat} (h : setitem fx s k v = .ok s') :
    ∃ m, matSet s k v = .ok m ∧ s' = (if hasBO s.kind then regLabels fx m k else m) := by
  simp only [setitem, bind_ok_iff, pure, Except.pure] at h
  obtain ⟨m, hm, h⟩ := h
  injection h with h
  exact ⟨m, hm, h.symm⟩

/-- summary of `PUBOMatrix.__setitem__`: the mapping part, kind, ancilla and constraints are untouched;
the terms are `set`; variables grow by the squashed key when the value is non-zero. -/
theorem matSet_spec {s m : State} {k : Key} {v : Rat} (h : matSet s k v = .ok m) :
    ∃ k', squash s.kind k = .ok k' ∧ m.kind = s.kind ∧ m.mapping = s.mapping ∧ m.reverse = s.reverse ∧
      m.nextLabel = s.nextLabel ∧ m.ancilla = s.ancilla ∧ m.constraints = s.constraints ∧
      m.terms = set s.terms k' v ∧
      (v = 0 → m.variables = s.variables ∧ m.numVars = s.numVars ∧ m.degree = s.degree) ∧
      (v ≠ 0 → m.degree = maxDeg s.degree k'.length ∧
        (s.variables.Nodup → s.numVars = s.variables.length →
          (∀ i, i ∈ m.variables ↔ i ∈ s.variables ∨ i ∈ k') ∧ m.variables.Nodup ∧
          m.numVars = m.variables.length)) := by
  obtain ⟨k', hk, rfl⟩ := matSet_ok h
  refine ⟨k', hk, ?_⟩
  by_cases hv : v = 0
  · simp [hv]
  · simp only [hv, if_false]
    obtain ⟨h1, h2, h3, h4, h5, h6, h7, h8⟩ :=
      foldl_addVar_fields k' { s with degree := maxDeg s.degree k'.length }
    refine ⟨h1, h3, h4, h5, h7, h8, by simp [h2], fun h => h.elim, fun _ => ⟨h6, fun hn hc => ?_⟩⟩
    exact foldl_addVar_vars k' { s with degree := maxDeg s.degree k'.length } hn hc

/-! ## the generic preservation principle -/

/-- `Q` holds of fresh objects, does not look at the `_ancilla`/`_constraints` attributes, and is kept by
`__setitem__` on keys satisfying `G` -/
structure Closed (fx : Fix) (Q : State → Prop) (G : Key → Prop) (K : Kind → Prop := fun _ => True) : Prop where
  init : ∀ κ, K κ → Q (init κ)
  kindOK : ∀ s, Q s → K s.kind
  remap : ∀ s, Q s → Q (remap s)
  field : ∀ s a c, Q s → Q { s with ancilla := a, constraints := c }
  set : ∀ s k v s', Q s → G k → setitem fx s k v = .ok s' → Q s'
  terms : ∀ s, Q s → ∀ kv ∈ s.terms, G kv.1
  nil : G []
  app : ∀ k k', G k → G k' → G (k ++ k')

/-- the keys of the operand of a copying operator satisfy `G` -/
def ArithOK (G : Key → Prop) : Arith → Prop
  | .addD q => ∀ kv ∈ q, G kv.1
  | .subD q => ∀ kv ∈ q, G kv.1
  | .mulD q => ∀ kv ∈ q, G kv.1
  | _ => True

/-- the keys an edit supplies satisfy `G` (and the class a constructor makes satisfies `K`) -/
def OpOK (G : Key → Prop) (K : Kind → Prop) (s : State) : Op → Prop
  | .setitem k _ => G k
  | .augitem k _ _ => G k
  | .iaddD q => ∀ kv ∈ q, G kv.1
  | .isubD q => ∀ kv ∈ q, G kv.1
  | .imulD q => ∀ kv ∈ q, G kv.1
  | .update q => ∀ kv ∈ q, G kv.1
  | .cons r P lam lt lo hi => ∀ kv ∈ (consDelta s.kind s.ancilla r P lam lt (lo, hi)).2.2, G kv.1
  | .bin a => ArithOK G a
  | .cast κ => K κ
  | .updateM _ q _ _ => ∀ kv ∈ q, G kv.1
  | _ => True

section principle
variable {fx : Fix} {Q : State → Prop} {G : Key → Prop} {K : Kind → Prop} (C : Closed fx Q G K)
include C

theorem augitem_pres {s s' : State} {k : Key} {a : Aug} {d : Rat} (hs : Q s) (hk : G k)
    (h : augitem fx s k a d = .ok s') : Q s' := by
  simp only [augitem, bind_ok_iff] at h
  obtain ⟨_, _, _, _, h⟩ := h
  exact C.set _ _ _ _ hs hk h

omit C in
theorem loop_pres {α : Type} {f : State → α → Except Err State} (l : List α)
    (hf : ∀ s a s', Q s → a ∈ l → f s a = .ok s' → Q s') {s : State} (hs : Q s) : Q (loop f s l).1 := by
  induction l generalizing s with
  | nil => exact hs
  | cons a r ih =>
    unfold loop
    cases hfa : f s a with
    | ok s' =>
      simp only
      exact ih (fun s a s' h1 h2 h3 => hf s a s' h1 (List.mem_cons_of_mem _ h2) h3)
        (hf s a s' hs (List.mem_cons_self) hfa)
    | error e => exact hs

theorem iaddLoop_pres {s : State} {q : Poly} (hq : ∀ kv ∈ q, G kv.1) (hs : Q s) : Q (iaddLoop fx s q).1 :=
  loop_pres q (fun _ kv _ h1 h2 h3 => augitem_pres C h1 (hq kv h2) h3) hs

theorem isubLoop_pres {s : State} {q : Poly} (hq : ∀ kv ∈ q, G kv.1) (hs : Q s) : Q (isubLoop fx s q).1 :=
  loop_pres q (fun _ kv _ h1 h2 h3 => augitem_pres C h1 (hq kv h2) h3) hs

theorem copy_pres {s : State} (hs : Q s) : Q (copy fx s).1 := by
  unfold copy
  exact C.field _ _ _ (iaddLoop_pres C (C.terms s hs) (C.init s.kind (C.kindOK s hs)))

theorem refresh_pres {s : State} (hs : Q s) : Q (refresh fx s).1 := by
  unfold refresh
  have h1 := copy_pres C hs
  cases hc : copy fx s with
  | mk d e =>
    rw [hc] at h1
    cases e with
    | none => exact copy_pres C h1
    | some e => exact hs

theorem products_ok {items q : Poly} (hi : ∀ kv ∈ items, G kv.1) (hq : ∀ kv ∈ q, G kv.1) :
    ∀ kv ∈ products items q, G kv.1 := by
  intro kv h
  simp only [products, List.mem_flatMap, List.mem_map] at h
  obtain ⟨a, ha, b, hb, rfl⟩ := h
  exact C.app _ _ (hi a ha) (hq b hb)

theorem clearForMul_pres {s : State} (hs : Q s) : Q (clearForMul fx s) := by
  unfold clearForMul
  split
  · exact C.field _ _ _ (C.init s.kind (C.kindOK s hs))
  · exact C.init s.kind (C.kindOK s hs)

theorem imulD_pres {s : State} {q : Poly} (hq : ∀ kv ∈ q, G kv.1) (hs : Q s) : Q (imulD fx s q).1 := by
  unfold imulD
  exact iaddLoop_pres C (products_ok C (C.terms s hs) hq) (clearForMul_pres C hs)

theorem scaleLoop_pres {s : State} {a : Aug} {c : Rat} (hs : Q s) : Q (scaleLoop fx s a c).1 := by
  unfold scaleLoop
  refine loop_pres _ (fun _ k _ h1 h2 h3 => augitem_pres C h1 ?_ h3) hs
  simp only [List.mem_map] at h2
  obtain ⟨kv, hkv, rfl⟩ := h2
  exact C.terms s hs kv hkv

theorem powLoop_pres {old : Poly} (ho : ∀ kv ∈ old, G kv.1) (n : Nat) {s : State} (hs : Q s) :
    Q (powLoop fx s old n).1 := by
  induction n generalizing s with
  | zero => exact hs
  | succ n ih =>
    unfold powLoop
    have h1 := imulD_pres C ho hs
    cases hc : imulD fx s old with
    | mk s' e =>
      rw [hc] at h1
      cases e with
      | none => exact ih h1
      | some e => exact h1

theorem ipow_pres {s : State} {e : Int} (hs : Q s) : Q (ipow fx s e).1 := by
  unfold ipow
  split
  · exact hs
  · split
    · exact hs
    · have h1 := copy_pres C hs
      cases hc : copy fx s with
      | mk old er =>
        rw [hc] at h1
        cases er with
        | none => exact powLoop_pres C (C.terms old h1) _ hs
        | some er => exact hs

omit C in
theorem ofExcept_pres {s : State} {r : Except Err State} (hs : Q s) (h : ∀ s', r = .ok s' → Q s') :
    Q (ofExcept s r).1 := by
  cases r with
  | ok s' => exact h s' rfl
  | error e => exact hs

/-- **every edit keeps `Q`** -/
theorem rebuildSet_pres {s : State} (g : Rat → Rat) (b : Bool) (hs : Q s) : Q (rebuildSet fx s g b).1 := by
  unfold rebuildSet
  have h1 : Q (loop (fun st kv => setitem fx st kv.1 (g kv.2)) (init s.kind) s.terms).1 :=
    loop_pres s.terms (fun _ kv _ h1 h2 h3 => C.set _ _ _ _ h1 (C.terms s hs kv h2) h3)
      (C.init s.kind (C.kindOK s hs))
  cases hc : loop (fun st kv => setitem fx st kv.1 (g kv.2)) (init s.kind) s.terms with
  | mk t e =>
    rw [hc] at h1
    cases e with
    | none => exact C.field _ _ _ h1
    | some e => exact hs

theorem cast_pres {s : State} (κ : Kind) (hκ : K κ) (hs : Q s) : Q (cast fx s κ).1 := by
  unfold cast
  have h1 : Q (iaddLoop fx (init κ) s.terms).1 := iaddLoop_pres C (C.terms s hs) (C.init κ hκ)
  cases hc : iaddLoop fx (init κ) s.terms with
  | mk t e =>
    rw [hc] at h1
    cases e with
    | none =>
      simp only
      split
      · exact C.field _ _ _ h1
      · exact h1
    | some e => exact hs

theorem stepA_pres {s : State} (a : Arith) (ha : ArithOK G a) (hs : Q s) : Q (stepA fx s a).1 := by
  cases a with
  | addC c => exact ofExcept_pres hs (fun s' h => augitem_pres C hs C.nil h)
  | subC c => exact ofExcept_pres hs (fun s' h => augitem_pres C hs C.nil h)
  | mulC c => exact scaleLoop_pres C hs
  | divC c => exact scaleLoop_pres C hs
  | pow e => exact ipow_pres C hs
  | addD q => exact iaddLoop_pres C ha hs
  | subD q => exact isubLoop_pres C ha hs
  | mulD q => exact imulD_pres C ha hs

theorem copyThen_pres {s : State} {f : State → State × Option Err} (hf : ∀ c, Q c → Q (f c).1) (hs : Q s) :
    Q (copyThen fx s f).1 := by
  unfold copyThen
  have h1 := copy_pres C hs
  cases hc : copy fx s with
  | mk c e =>
    rw [hc] at h1
    cases e with
    | none =>
      simp only
      have h2 := hf c h1
      cases hf2 : f c with
      | mk r e2 =>
        rw [hf2] at h2
        cases e2 with
        | none => exact h2
        | some e2 => exact hs
    | some e => exact hs

theorem updateM_pres {s : State} (κg : Kind) (q : Poly) (cs : List (Rel × Poly)) (a : Nat)
    (hq : ∀ kv ∈ q, G kv.1) (hs : Q s) : Q (updateM fx s κg q cs a).1 := by
  unfold updateM
  have h1 : Q (loop (fun st kv => setitem fx st kv.1 kv.2) s q).1 :=
    loop_pres q (fun _ kv _ h1 h2 h3 => C.set _ _ _ _ h1 (hq kv h2) h3) hs
  cases hc : loop (fun st kv => setitem fx st kv.1 kv.2) s q with
  | mk t e =>
    rw [hc] at h1
    cases e with
    | none =>
      simp only
      split
      · exact C.field _ _ _ h1
      · exact h1
    | some e => exact h1

theorem step_pres {s : State} (op : Op) (hop : OpOK G K s op) (hs : Q s) : Q (step fx s op).1 := by
  cases op with
  | setitem k v => exact ofExcept_pres hs (fun s' h => C.set _ _ _ _ hs hop h)
  | augitem k a d => exact ofExcept_pres hs (fun s' h => augitem_pres C hs hop h)
  | iaddD q => exact iaddLoop_pres C hop hs
  | isubD q => exact isubLoop_pres C hop hs
  | iaddC c => exact ofExcept_pres hs (fun s' h => augitem_pres C hs C.nil h)
  | isubC c => exact ofExcept_pres hs (fun s' h => augitem_pres C hs C.nil h)
  | imulD q => exact imulD_pres C hop hs
  | imulC c => exact scaleLoop_pres C hs
  | idivC c => exact scaleLoop_pres C hs
  | ipow e => exact ipow_pres C hs
  | update q => exact loop_pres q (fun _ kv _ h1 h2 h3 => C.set _ _ _ _ h1 (hop kv h2) h3) hs
  | clear => exact C.init s.kind (C.kindOK s hs)
  | refresh => exact refresh_pres C hs
  | round nd => exact rebuildSet_pres C _ _ hs
  | subs => exact rebuildSet_pres C _ _ hs
  | cast κ => exact cast_pres C κ hop hs
  | bin a => exact copyThen_pres C (fun c hc => stepA_pres C a hop hc) hs
  | rsubC c =>
    simp only [step]
    have h1 : Q (copyThen fx s (fun d => stepA fx d (.mulC (-1)))).1 :=
      copyThen_pres C (fun c hc => stepA_pres C (.mulC (-1)) trivial hc) hs
    cases hc : copyThen fx s (fun d => stepA fx d (.mulC (-1))) with
    | mk m e =>
      rw [hc] at h1
      cases e with
      | none => exact copyThen_pres C (fun c hc => stepA_pres C (.addC _) trivial hc) h1
      | some e => exact h1
  | updateM κg q cs a => exact updateM_pres C κg q cs a hop hs
  | remap =>
    simp only [step]
    split
    · exact C.remap s hs
    · exact hs
  | copy =>
    simp only [step]
    have h1 := copy_pres C hs
    cases hc : Book.copy fx s with
    | mk d e =>
      rw [hc] at h1
      cases e with
      | none => exact h1
      | some e => exact hs
  | cons r P lam lt lo hi =>
    simp only [step]
    split
    · exact iaddLoop_pres C hop (C.field _ _ _ hs)
    · exact hs
  | iaddSelf => exact iaddLoop_pres C (C.terms s hs) hs
  | isubSelf => exact isubLoop_pres C (C.terms s hs) hs
  | imulSelf => exact imulD_pres C (C.terms s hs) hs
  | updateSelf => exact updateM_pres C _ _ _ _ (C.terms s hs) hs
  | isubCopy =>
    simp only [step]
    have h1 := copy_pres C hs
    cases hc : Book.copy fx s with
    | mk c e =>
      rw [hc] at h1
      cases e with
      | none => exact isubLoop_pres C (C.terms c h1) hs
      | some e => exact hs

end principle

/-! ## I1 and I2 are kept by `__setitem__` (code as it is, and repaired) -/

theorem I1_congr {s s' : State} (h1 : s'.terms = s.terms) (h2 : s'.variables = s.variables)
    (h3 : s'.numVars = s.numVars) (h4 : s'.degree = s.degree) (h : I1 s) : I1 s' := by
  unfold I1 at *; rw [h1, h2, h3, h4]; exact h

theorem I2_congr {s s' : State} (h1 : s'.mapping = s.mapping) (h2 : s'.reverse = s.reverse)
    (h3 : s'.nextLabel = s.nextLabel) (h : I2 s) : I2 s' := by
  unfold I2 at *; rw [h1, h2, h3]; exact h

theorem maxDeg_spec (d : Option Nat) (n : Nat) :
    ∃ m, maxDeg d n = some m ∧ n ≤ m ∧ ∀ e, d = some e → e ≤ m := by
  cases d with
  | none => exact ⟨n, rfl, Nat.le_refl _, fun e h => by cases h⟩
  | some e0 =>
    refine ⟨max e0 n, rfl, Nat.le_max_right _ _, fun e h => ?_⟩
    injection h with h; subst h; exact Nat.le_max_left _ _

theorem matSet_I1 {s m : State} {k : Key} {v : Rat} (h : matSet s k v = .ok m) (hs : I1 s) : I1 m := by
  obtain ⟨k', hk, _, _, _, _, _, _, ht, h0, h1⟩ := matSet_spec h
  obtain ⟨a1, a2, a3, a4⟩ := hs
  by_cases hv : v = 0
  · obtain ⟨e1, e2, e3⟩ := h0 hv
    refine ⟨fun kv hkv i hi => ?_, fun kv hkv => ?_, e1 ▸ a3, by rw [e1, e2]; exact a4⟩
    · rw [ht] at hkv
      rcases mem_set hkv with ⟨_, h⟩ | h
      · exact absurd hv h
      · rw [e1]; exact a1 kv h i hi
    · rw [ht] at hkv
      rcases mem_set hkv with ⟨_, h⟩ | h
      · exact absurd hv h
      · rw [e3]; exact a2 kv h
  · obtain ⟨e1, e2⟩ := h1 hv
    obtain ⟨b1, b2, b3⟩ := e2 a3 a4
    obtain ⟨mm, hm, hn, hold⟩ := maxDeg_spec s.degree k'.length
    refine ⟨fun kv hkv i hi => ?_, fun kv hkv => ?_, b2, b3⟩
    · rw [ht] at hkv
      rcases mem_set hkv with ⟨rfl, _⟩ | h
      · exact (b1 i).mpr (Or.inr hi)
      · exact (b1 i).mpr (Or.inl (a1 kv h i hi))
    · rw [ht] at hkv
      rw [e1, hm]
      rcases mem_set hkv with ⟨rfl, _⟩ | h
      · exact ⟨mm, rfl, hn⟩
      · obtain ⟨d, hd, hle⟩ := a2 kv h
        exact ⟨mm, rfl, Nat.le_trans hle (hold d hd)⟩

theorem setitem_I1 {fx : Fix} {s s' : State} {k : Key} {v : Rat} (h : setitem fx s k v = .ok s')
    (hs : I1 s) : I1 s' := by
  obtain ⟨m, hm, rfl⟩ := setitem_ok h
  have hm1 := matSet_I1 hm hs
  split
  · obtain ⟨_, g2, g3, g4, g5, _, _⟩ := regLabels_fields fx k m
    exact I1_congr g2 g3 g4 g5 hm1
  · exact hm1

theorem regLabel_I2 (s : State) (i : Var) (hs : I2 s) : I2 (regLabel s i) := by
  unfold regLabel
  split
  · exact hs
  · rename_i hc
    have hi : i ∉ s.mapping.map Prod.fst := by simpa [mapDom] using hc
    obtain ⟨a1, a2, a3, a4, a5, a6⟩ := hs
    have hn : s.nextLabel ∉ s.mapping.map Prod.snd := fun h => Nat.lt_irrefl _ ((a5 _).mp h)
    refine ⟨?_, ?_, ?_, ?_, ?_, ?_⟩
    · intro p hp
      simp only [List.mem_append, List.mem_singleton] at hp ⊢
      rcases hp with hp | rfl
      · exact Or.inl (a1 p hp)
      · exact Or.inr rfl
    · intro p hp
      simp only [List.mem_append, List.mem_singleton] at hp ⊢
      rcases hp with hp | rfl
      · exact Or.inl (a2 p hp)
      · exact Or.inr rfl
    · simp only [List.map_append, List.map_cons, List.map_nil]
      rw [List.nodup_append]
      refine ⟨a3, List.nodup_singleton _, fun x hx y hy => ?_⟩
      simp at hy; subst hy
      exact fun e => hi (e ▸ hx)
    · simp only [List.map_append, List.map_cons, List.map_nil]
      rw [List.nodup_append]
      refine ⟨a4, List.nodup_singleton _, fun x hx y hy => ?_⟩
      simp at hy; subst hy
      exact fun e => hn (e ▸ hx)
    · intro j
      simp only [List.map_append, List.map_cons, List.map_nil, List.mem_append, List.mem_singleton]
      rw [a5 j]
      omega
    · simp [a6]

theorem regLabels_I2 (fx : Fix) (k : Key) (s : State) (hs : I2 s) : I2 (regLabels fx s k) := by
  unfold regLabels
  induction k generalizing s with
  | nil => exact hs
  | cons a r ih =>
    simp only [List.foldl_cons]
    split
    · exact ih s hs
    · exact ih _ (regLabel_I2 s a hs)

theorem setitem_I2 {fx : Fix} {s s' : State} {k : Key} {v : Rat} (h : setitem fx s k v = .ok s')
    (hs : I2 s) : I2 s' := by
  obtain ⟨m, hm, rfl⟩ := setitem_ok h
  obtain ⟨_, _, _, e2, e3, e4, _, _, _⟩ := matSet_spec hm
  have hm2 : I2 m := I2_congr e2 e3 e4 hs
  split
  · exact regLabels_I2 fx k m hm2
  · exact hm2

/-- the part of the invariant that holds of the code as it is -/
def PInv (s : State) : Prop := I1 s ∧ I2 s

theorem mapDom_remap (s : State) : mapDom (remap s) = mapDom s := by
  simp [mapDom, remap, List.map_map, Function.comp_def]

/-- `set_mapping` with a permutation of `0..n-1` keeps I2 (`_next_label` is untouched and still `n`) -/
theorem remap_I2 {s : State} (h : I2 s) : I2 (remap s) := by
  obtain ⟨_, _, a3, a4, a5, a6⟩ := h
  have hlt : ∀ p ∈ s.mapping, p.2 < s.nextLabel := fun p hp => (a5 p.2).mp (List.mem_map_of_mem hp)
  refine ⟨?_, ?_, ?_, ?_, ?_, ?_⟩
  · intro p hp
    simp only [remap, List.mem_map] at hp ⊢
    obtain ⟨q, hq, rfl⟩ := hp
    exact ⟨q, hq, rfl⟩
  · intro p hp
    simp only [remap, List.mem_map] at hp ⊢
    obtain ⟨q, hq, rfl⟩ := hp
    exact ⟨q, hq, rfl⟩
  · have : (remap s).mapping.map Prod.fst = s.mapping.map Prod.fst := by
      simp [remap, List.map_map, Function.comp_def]
    rw [this]; exact a3
  · have : (remap s).mapping.map Prod.snd = (s.mapping.map Prod.snd).map (fun i => s.nextLabel - 1 - i) := by
      simp [remap, List.map_map, Function.comp_def]
    rw [this]
    refine List.Nodup.map_on (fun x hx y hy hxy => ?_) a4
    have h1 := (a5 x).mp hx
    have h2 := (a5 y).mp hy
    omega
  · intro i
    have : (remap s).mapping.map Prod.snd = (s.mapping.map Prod.snd).map (fun i => s.nextLabel - 1 - i) := by
      simp [remap, List.map_map, Function.comp_def]
    rw [this, List.mem_map]
    show _ ↔ i < s.nextLabel
    constructor
    · rintro ⟨j, hj, rfl⟩
      have := (a5 j).mp hj
      omega
    · intro hi
      refine ⟨s.nextLabel - 1 - i, (a5 _).mpr (by omega), by omega⟩
  · simp [remap, a6]

theorem closed_PInv (fx : Fix) : Closed fx PInv (fun _ => True) where
  init κ _ := by
    refine ⟨⟨by simp [init], by simp [init], by simp [init], by simp [init]⟩,
      ⟨by simp [init], by simp [init], by simp [init], by simp [init], by simp [init], by simp [init]⟩⟩
  kindOK _ _ := trivial
  remap s h := ⟨I1_congr rfl rfl rfl rfl h.1, remap_I2 h.2⟩
  field s a c h := ⟨I1_congr rfl rfl rfl rfl h.1, I2_congr rfl rfl rfl h.2⟩
  set s k v s' h _ hset := ⟨setitem_I1 hset h.1, setitem_I2 hset h.2⟩
  terms _ _ _ _ := trivial
  nil := trivial
  app _ _ _ _ := trivial

theorem opOK_true (s : State) (op : Op) : OpOK (fun _ => True) (fun _ => True) s op := by
  cases op with
  | bin a => cases a <;> simp [OpOK, ArithOK]
  | _ => simp [OpOK]

/-! ## I3 for the repaired `BO.__setitem__` -/

theorem regLabel_dom (s : State) (a i : Var) : i ∈ mapDom (regLabel s a) ↔ i ∈ mapDom s ∨ i = a := by
  unfold regLabel
  split
  · rename_i hc
    have : a ∈ mapDom s := by simpa using hc
    exact ⟨Or.inl, fun h => h.elim id (fun e => e ▸ this)⟩
  · simp [mapDom]

theorem regLabels_dom (fx : Fix) (k : Key) (s : State) (i : Var) :
    i ∈ mapDom (regLabels fx s k) ↔
      i ∈ mapDom s ∨ (i ∈ k ∧ (fx.d1 = true → i ∈ s.variables)) := by
  unfold regLabels
  induction k generalizing s with
  | nil => simp
  | cons a r ih =>
    simp only [List.foldl_cons]
    by_cases hc : (fx.d1 && !s.variables.contains a) = true
    · rw [if_pos hc, ih s]
      simp only [Bool.and_eq_true, Bool.not_eq_true', List.contains_eq_mem, decide_eq_false_iff_not] at hc
      constructor
      · rintro (h | ⟨h1, h2⟩)
        · exact Or.inl h
        · exact Or.inr ⟨List.mem_cons_of_mem _ h1, h2⟩
      · rintro (h | ⟨h1, h2⟩)
        · exact Or.inl h
        · rcases List.mem_cons.mp h1 with rfl | h1
          · exact absurd (h2 hc.1) hc.2
          · exact Or.inr ⟨h1, h2⟩
    · rw [if_neg hc, ih (regLabel s a), regLabel_dom, (regLabel_fields s a).2.2.1]
      have hc' : fx.d1 = true → a ∈ s.variables := by
        intro h1
        by_contra h2
        exact hc (by simp [h1, h2])
      constructor
      · rintro ((h | rfl) | ⟨h1, h2⟩)
        · exact Or.inl h
        · exact Or.inr ⟨List.mem_cons_self, hc'⟩
        · exact Or.inr ⟨List.mem_cons_of_mem _ h1, h2⟩
      · rintro (h | ⟨h1, h2⟩)
        · exact Or.inl (Or.inl h)
        · rcases List.mem_cons.mp h1 with rfl | h1
          · exact Or.inl (Or.inr rfl)
          · exact Or.inr ⟨h1, h2⟩

/-- I3 from I1, I2 and equality of the two label sets (the counts then agree) -/
theorem I3_of_sets {s : State} (h1 : I1 s) (h2 : I2 s)
    (hm : ∀ i, i ∈ mapDom s ↔ i ∈ s.variables) : I3 s := by
  intro _
  refine ⟨fun i h => (hm i).mp h, fun i h => (hm i).mpr h, ?_⟩
  obtain ⟨_, _, a3, a4⟩ := h1
  obtain ⟨_, _, b3, _, _, b6⟩ := h2
  have hp : (mapDom s).Perm s.variables := (List.perm_ext_iff_of_nodup b3 a3).mpr hm
  have := hp.length_eq
  simp only [mapDom, List.length_map] at this
  omega

theorem setitem_I3 {fx : Fix} (hfx : fx.d1 = true) {s s' : State} {k : Key} {v : Rat}
    (h : setitem fx s k v = .ok s') (h1 : I1 s) (h2 : I2 s) (h3 : I3 s) : I3 s' := by
  have g1 := setitem_I1 h h1
  have g2 := setitem_I2 h h2
  obtain ⟨m, hm, rfl⟩ := setitem_ok h
  obtain ⟨k', hk, e1, e2, _, _, _, _, _, h0, hn0⟩ := matSet_spec hm
  by_cases hb : hasBO s.kind = true
  · rw [if_pos hb] at g1 g2 ⊢
    obtain ⟨c1, c2, _⟩ := h3 hb
    refine I3_of_sets g1 g2 (fun i => ?_)
    rw [regLabels_dom, (regLabels_fields fx k m).2.2.1]
    have hdm : mapDom m = mapDom s := by simp [mapDom, e2]
    rw [hdm]
    by_cases hv : v = 0
    · obtain ⟨e3, _, _⟩ := h0 hv
      rw [e3]
      constructor
      · rintro (h | ⟨_, h⟩)
        · exact c1 i h
        · exact h hfx
      · exact fun h => Or.inl (c2 i h)
    · obtain ⟨_, e4⟩ := hn0 hv
      obtain ⟨b1, _, _⟩ := e4 h1.2.2.1 h1.2.2.2
      constructor
      · rintro (h | ⟨_, h⟩)
        · exact (b1 i).mpr (Or.inl (c1 i h))
        · exact h hfx
      · intro h
        rcases (b1 i).mp h with h' | h'
        · exact Or.inl (c2 i h')
        · exact Or.inr ⟨mem_squash hk h', fun _ => h⟩
  · rw [if_neg hb]
    intro hb'
    rw [e1] at hb'
    exact absurd hb' hb

/-- I1 ∧ I2 ∧ I3 -/
def QInv (s : State) : Prop := I1 s ∧ I2 s ∧ I3 s

theorem closed_QInv (fx : Fix) (hfx : fx.d1 = true) : Closed fx QInv (fun _ => True) where
  init κ _ := ⟨(closed_PInv fx).init κ trivial |>.1, (closed_PInv fx).init κ trivial |>.2,
    by intro _; simp [init, mapDom]⟩
  kindOK _ _ := trivial
  remap s h := ⟨I1_congr rfl rfl rfl rfl h.1, remap_I2 h.2.1, fun hb => by
    have := h.2.2 hb
    rw [mapDom_remap]; exact this⟩
  field s a c h := ⟨I1_congr rfl rfl rfl rfl h.1, I2_congr rfl rfl rfl h.2.1, h.2.2⟩
  set s k v s' h _ hset :=
    ⟨setitem_I1 hset h.1, setitem_I2 hset h.2.1, setitem_I3 hfx hset h.1 h.2.1 h.2.2⟩
  terms _ _ _ _ := trivial
  nil := trivial
  app _ _ _ _ := trivial

/-! ## histories -/

theorem run_pres {fx : Fix} {Q : State → Prop} {G : Key → Prop} {K : Kind → Prop} (C : Closed fx Q G K) (κ : Kind)
    (ops : List Op) (hops : ∀ op ∈ ops, ∀ s, OpOK G K s op) (hκ : K κ := by trivial) : Q (run fx κ ops) := by
  unfold run
  suffices h : ∀ s, Q s → Q (ops.foldl (fun s o => (step fx s o).1) s) from h _ (C.init κ hκ)
  induction ops with
  | nil => exact fun s h => h
  | cons o r ih =>
    intro s hs
    simp only [List.foldl_cons]
    exact ih (fun op h => hops op (List.mem_cons_of_mem _ h)) _
      (step_pres C o (hops o List.mem_cons_self s) hs)

/-! ## I4: the ancilla counter -/

theorem KOK_mono {a b : Nat} (h : a ≤ b) {k : Key} (hk : KOK a k) : KOK b k :=
  fun i hi h1 => Nat.lt_of_lt_of_le (hk i hi h1) (Nat.add_le_add_left h _)

theorem AncB_mono {a b : Nat} (h : a ≤ b) {s : State} (hs : AncB a s) : AncB b s :=
  ⟨fun kv hkv => KOK_mono h (hs.1 kv hkv), KOK_mono h hs.2.1, KOK_mono h hs.2.2⟩

theorem foldl_addVar_mem (k : Key) (s : State) (i : Var) (h : i ∈ (k.foldl addVar s).variables) :
    i ∈ s.variables ∨ i ∈ k := by
  induction k generalizing s with
  | nil => exact Or.inl h
  | cons a r ih =>
    simp only [List.foldl_cons] at h
    rcases ih _ h with h | h
    · unfold addVar at h
      split at h
      · exact Or.inl h
      · simp only [List.mem_append, List.mem_singleton] at h
        rcases h with h | rfl
        · exact Or.inl h
        · exact Or.inr List.mem_cons_self
    · exact Or.inr (List.mem_cons_of_mem _ h)

theorem matSet_vars_sub {s m : State} {k : Key} {v : Rat} (h : matSet s k v = .ok m) (i : Var)
    (hi : i ∈ m.variables) : i ∈ s.variables ∨ i ∈ k := by
  obtain ⟨k', hk, rfl⟩ := matSet_ok h
  by_cases hv : v = 0
  · simp only [hv, if_true] at hi; exact Or.inl hi
  · simp only [hv, if_false] at hi
    rcases foldl_addVar_mem k' _ i hi with h | h
    · exact Or.inl h
    · exact Or.inr (mem_squash hk h)

theorem closed_AncB (fx : Fix) (a : Nat) : Closed fx (AncB a) (KOK a) where
  init κ _ := by simp [AncB, KOK, init, mapDom]
  kindOK _ _ := trivial
  remap s h := ⟨h.1, h.2.1, by rw [mapDom_remap]; exact h.2.2⟩
  field s a' c h := h
  set s k v s' h hk hset := by
    obtain ⟨m, hm, rfl⟩ := setitem_ok hset
    obtain ⟨k', hk', _, e2, _, _, _, _, ht, _, _⟩ := matSet_spec hm
    have hk'' : KOK a k' := fun i hi => hk i (mem_squash hk' hi)
    have hm' : AncB a m := by
      refine ⟨fun kv hkv => ?_, fun i hi => ?_, ?_⟩
      · rw [ht] at hkv
        rcases mem_set hkv with ⟨rfl, _⟩ | h'
        · exact hk''
        · exact h.1 kv h'
      · rcases matSet_vars_sub hm i hi with h' | h'
        · exact h.2.1 i h'
        · exact hk i h'
      · have : mapDom m = mapDom s := by simp [mapDom, e2]
        rw [this]; exact h.2.2
    split
    · obtain ⟨_, g2, g3, _⟩ := regLabels_fields fx k m
      refine ⟨by rw [g2]; exact hm'.1, by rw [g3]; exact hm'.2.1, fun i hi => ?_⟩
      rcases (regLabels_dom fx k m i).mp hi with h' | ⟨h', _⟩
      · exact hm'.2.2 i h'
      · exact hk i h'
    · exact hm'
  terms s h := h.1
  nil := by simp [KOK]
  app k k' h h' := fun i hi => by
    rcases List.mem_append.mp hi with hi | hi
    · exact h i hi
    · exact h' i hi

theorem setitem_anc {fx : Fix} {s s' : State} {k : Key} {v : Rat} (h : setitem fx s k v = .ok s') :
    s'.ancilla = s.ancilla := by
  obtain ⟨m, hm, rfl⟩ := setitem_ok h
  obtain ⟨_, _, _, _, _, _, e, _⟩ := matSet_spec hm
  split
  · exact (regLabels_fields fx k m).2.2.2.2.2.1.trans e
  · exact e

theorem augitem_anc {fx : Fix} {s s' : State} {k : Key} {a : Aug} {d : Rat}
    (h : augitem fx s k a d = .ok s') : s'.ancilla = s.ancilla := by
  simp only [augitem, bind_ok_iff] at h
  obtain ⟨_, _, _, _, h⟩ := h
  exact setitem_anc h

theorem loop_anc {α : Type} {f : State → α → Except Err State}
    (hf : ∀ s a s', f s a = .ok s' → s'.ancilla = s.ancilla) (l : List α) (s : State) :
    (loop f s l).1.ancilla = s.ancilla := by
  induction l generalizing s with
  | nil => rfl
  | cons a r ih =>
    unfold loop
    cases hfa : f s a with
    | ok s' => simp only; rw [ih s', hf s a s' hfa]
    | error e => rfl

theorem iaddLoop_anc (fx : Fix) (s : State) (q : Poly) : (iaddLoop fx s q).1.ancilla = s.ancilla :=
  loop_anc (fun _ _ _ h => augitem_anc h) q s

theorem isubLoop_anc (fx : Fix) (s : State) (q : Poly) : (isubLoop fx s q).1.ancilla = s.ancilla :=
  loop_anc (fun _ _ _ h => augitem_anc h) q s

theorem copy_anc (fx : Fix) (s : State) : (copy fx s).1.ancilla = s.ancilla := by
  unfold copy; rfl

theorem refresh_anc (fx : Fix) (s : State) : (refresh fx s).1.ancilla = s.ancilla := by
  unfold refresh
  have h1 := copy_anc fx s
  cases hc : copy fx s with
  | mk d e =>
    rw [hc] at h1
    cases e with
    | none => simp only; rw [copy_anc, h1]
    | some e => rfl

theorem imulD_anc {fx : Fix} (hfx : fx.d2 = true) (s : State) (q : Poly) :
    (imulD fx s q).1.ancilla = s.ancilla := by
  unfold imulD
  rw [iaddLoop_anc]
  simp [clearForMul, hfx]

theorem powLoop_anc {fx : Fix} (hfx : fx.d2 = true) (old : Poly) (n : Nat) (s : State) :
    (powLoop fx s old n).1.ancilla = s.ancilla := by
  induction n generalizing s with
  | zero => rfl
  | succ n ih =>
    unfold powLoop
    have h1 := imulD_anc hfx s old
    cases hc : imulD fx s old with
    | mk s' e =>
      rw [hc] at h1
      cases e with
      | none => simp only; rw [ih s', h1]
      | some e => exact h1

theorem ipow_anc {fx : Fix} (hfx : fx.d2 = true) (s : State) (e : Int) :
    (ipow fx s e).1.ancilla = s.ancilla := by
  unfold ipow
  split
  · rfl
  · split
    · rfl
    · cases hc : copy fx s with
      | mk old er =>
        cases er with
        | none => exact powLoop_anc hfx _ _ _
        | some er => rfl

/-- the edits that multiply by a dict (`*=` dict, `**=`): the ones that run `clear()` inside -/
def Arith.isDictMul : Arith → Bool
  | .pow _ => true
  | .mulD _ => true
  | _ => false

/-- the edits that multiply by a dict (`*=` dict, `**=`, and their copying forms): they run `clear()` inside -/
def Op.isDictMul : Op → Bool
  | .imulD _ => true
  | .ipow _ => true
  | .bin a => a.isDictMul
  | .imulSelf => true
  | _ => false

def Op.isRound : Op → Bool
  | .round _ => true
  | _ => false

/-- the repairs an edit relies on for the ancilla counter are switched on (8d2eba8 for dict products, 0d891c4
for `round`) -/
def FixOK (fx : Fix) (op : Op) : Prop :=
  (fx.d2 = true ∨ op.isDictMul = false) ∧ (fx.dr = true ∨ op.isRound = false)

theorem fixOK_fixed (op : Op) : FixOK Fix.fixed op := ⟨Or.inl rfl, Or.inl rfl⟩

/-- the ancilla counter after an edit: reset by `clear`, advanced by a constraint, raised to the argument's by
`update(model of the own class)`, `0` for a model made by the constructor of another class, otherwise unchanged -/
def ancAfter (fx : Fix) (s : State) : Op → Nat
  | .clear => 0
  | .cons r P lam lt lo hi =>
    if hasCons s.kind then (consDelta s.kind s.ancilla r P lam lt (lo, hi)).2.1 else s.ancilla
  | .cast κ =>
    match (iaddLoop fx (init κ) s.terms).2 with
    | none => if κ == s.kind then s.ancilla else 0
    | some _ => s.ancilla
  | .updateM κg _ _ a =>
    if hasCons s.kind && κg == s.kind then (if fx.d10 then max s.ancilla a else s.ancilla) else s.ancilla
  | _ => s.ancilla

theorem stepA_anc {fx : Fix} (s : State) (a : Arith) (hmul : fx.d2 = true ∨ a.isDictMul = false) :
    (stepA fx s a).1.ancilla = s.ancilla := by
  cases a with
  | addC c =>
    simp only [stepA]; cases h : augitem fx s [] .add c with
    | ok s' => exact augitem_anc h
    | error e => rfl
  | subC c =>
    simp only [stepA]; cases h : augitem fx s [] .sub c with
    | ok s' => exact augitem_anc h
    | error e => rfl
  | mulC c => exact loop_anc (fun _ _ _ h => augitem_anc h) _ s
  | divC c => exact loop_anc (fun _ _ _ h => augitem_anc h) _ s
  | pow e =>
    rcases hmul with h | h
    · exact ipow_anc h s e
    · simp [Arith.isDictMul] at h
  | addD q => exact iaddLoop_anc fx s q
  | subD q => exact isubLoop_anc fx s q
  | mulD q =>
    rcases hmul with h | h
    · exact imulD_anc h s q
    · simp [Arith.isDictMul] at h

theorem copyThen_anc {fx : Fix} (s : State) {f : State → State × Option Err}
    (hf : ∀ c, (f c).1.ancilla = c.ancilla) : (copyThen fx s f).1.ancilla = s.ancilla := by
  unfold copyThen
  have h1 := copy_anc fx s
  cases hc : copy fx s with
  | mk c e =>
    rw [hc] at h1
    cases e with
    | none =>
      simp only
      have h2 := hf c
      cases hf2 : f c with
      | mk r e2 =>
        rw [hf2] at h2
        cases e2 with
        | none => exact h2.trans h1
        | some e2 => rfl
    | some e => rfl

theorem rebuildSet_anc (fx : Fix) (s : State) (g : Rat → Rat) : (rebuildSet fx s g true).1.ancilla = s.ancilla := by
  unfold rebuildSet
  cases loop (fun st kv => setitem fx st kv.1 (g kv.2)) (init s.kind) s.terms with
  | mk t e => cases e <;> rfl

theorem squash_total {κ : Kind} (h : κ.isDeg2 = false) (k : Key) : ∃ k', squash κ k = .ok k' := by
  unfold squash
  cases κ <;> simp_all [Kind.isDeg2]

theorem setitem_total {fx : Fix} {s : State} (h : s.kind.isDeg2 = false) (k : Key) (v : Rat) :
    ∃ s', setitem fx s k v = .ok s' := by
  obtain ⟨k', hk⟩ := squash_total h k
  simp [setitem, matSet, hk, bind, Except.bind, pure, Except.pure]

theorem setitem_kind' {fx : Fix} {s s' : State} {k : Key} {v : Rat} (h : setitem fx s k v = .ok s') :
    s'.kind = s.kind := by
  obtain ⟨m, hm, rfl⟩ := setitem_ok h
  obtain ⟨_, _, e, _⟩ := matSet_spec hm
  split
  · exact (regLabels_fields fx k m).1.trans e
  · exact e

theorem loop_setitem_total {fx : Fix} (q : Poly) : ∀ s : State, s.kind.isDeg2 = false →
    (loop (fun st kv => setitem fx st kv.1 kv.2) s q).2 = none := by
  induction q with
  | nil => intro s _; rfl
  | cons a r ih =>
    intro s hs
    obtain ⟨s', h⟩ := setitem_total (fx := fx) hs a.1 a.2
    unfold loop
    simp only [h]
    exact ih s' (by rw [setitem_kind' h]; exact hs)

theorem hasCons_not_deg2 {κ : Kind} (h : hasCons κ = true) : κ.isDeg2 = false := by
  cases κ <;> simp_all [hasCons, Kind.isDeg2]

theorem step_anc {fx : Fix} (s : State) (op : Op) (hfix : FixOK fx op) :
    (step fx s op).1.ancilla = ancAfter fx s op := by
  obtain ⟨hmul, hr⟩ := hfix
  cases op with
  | setitem k v =>
    simp only [step]; cases h : setitem fx s k v with
    | ok s' => exact setitem_anc h
    | error e => rfl
  | augitem k a d =>
    simp only [step]; cases h : augitem fx s k a d with
    | ok s' => exact augitem_anc h
    | error e => rfl
  | iaddD q => exact iaddLoop_anc fx s q
  | isubD q => exact isubLoop_anc fx s q
  | iaddC c =>
    simp only [step]; cases h : augitem fx s [] .add c with
    | ok s' => exact augitem_anc h
    | error e => rfl
  | isubC c =>
    simp only [step]; cases h : augitem fx s [] .sub c with
    | ok s' => exact augitem_anc h
    | error e => rfl
  | imulD q =>
    rcases hmul with h | h
    · exact imulD_anc h s q
    · simp [Op.isDictMul] at h
  | imulC c => exact loop_anc (fun _ _ _ h => augitem_anc h) _ s
  | idivC c => exact loop_anc (fun _ _ _ h => augitem_anc h) _ s
  | ipow e =>
    rcases hmul with h | h
    · exact ipow_anc h s e
    · simp [Op.isDictMul] at h
  | update q => exact loop_anc (fun _ _ _ h => setitem_anc h) q s
  | clear => rfl
  | refresh => exact refresh_anc fx s
  | copy =>
    simp only [step]
    have h1 := copy_anc fx s
    cases hc : Book.copy fx s with
    | mk d e =>
      rw [hc] at h1
      cases e with
      | none => exact h1
      | some e => rfl
  | cons r P lam lt lo hi =>
    simp only [step, ancAfter]
    split
    · rw [iaddLoop_anc]
    · rfl
  | round nd =>
    have hb : (fx.dr || !hasCons s.kind) = true := by
      rcases hr with h | h
      · simp [h]
      · simp [Op.isRound] at h
    simp only [step, hb]
    exact rebuildSet_anc fx s _
  | subs => exact rebuildSet_anc fx s _
  | cast κ =>
    simp only [step, cast, ancAfter]
    have h1 := iaddLoop_anc fx (init κ) s.terms
    cases hc : iaddLoop fx (init κ) s.terms with
    | mk t e =>
      rw [hc] at h1
      cases e with
      | none =>
        simp only
        split
        · rfl
        · exact h1
      | some e => rfl
  | bin a =>
    exact copyThen_anc s (fun c => stepA_anc c a (by
      rcases hmul with h | h
      · exact Or.inl h
      · exact Or.inr (by simpa [Op.isDictMul] using h)))
  | rsubC c =>
    simp only [step]
    have h1 : (copyThen fx s (fun d => stepA fx d (.mulC (-1)))).1.ancilla = s.ancilla :=
      copyThen_anc s (fun c => stepA_anc c _ (Or.inr rfl))
    cases hc : copyThen fx s (fun d => stepA fx d (.mulC (-1))) with
    | mk m e =>
      rw [hc] at h1
      cases e with
      | none =>
        simp only
        exact (copyThen_anc m (fun c => stepA_anc c _ (Or.inr rfl))).trans h1
      | some e => exact h1
  | updateM κg q cs a =>
    simp only [step, updateM, ancAfter]
    have h1 := loop_anc (f := fun st kv => setitem fx st kv.1 kv.2) (fun _ _ _ h => setitem_anc h) q s
    cases hc : loop (fun st kv => setitem fx st kv.1 kv.2) s q with
    | mk t e =>
      rw [hc] at h1
      cases e with
      | none =>
        have h1' : t.ancilla = s.ancilla := h1
        simp only
        split
        · rw [h1']
        · exact h1
      | some e =>
        simp only
        split
        · rename_i hcond
          have hk : hasCons s.kind = true := by
            simp only [Bool.and_eq_true] at hcond; exact hcond.1
          have := loop_setitem_total (fx := fx) q s (hasCons_not_deg2 hk)
          rw [hc] at this
          cases this
        · exact h1
  | remap =>
    simp only [step]
    split <;> rfl
  | iaddSelf => exact iaddLoop_anc fx s _
  | isubSelf => exact isubLoop_anc fx s _
  | imulSelf =>
    rcases hmul with h | h
    · exact imulD_anc h s _
    · simp [Op.isDictMul] at h
  | updateSelf =>
    simp only [step, updateM, ancAfter]
    have h1 := loop_anc (f := fun st kv => setitem fx st kv.1 kv.2) (fun _ _ _ h => setitem_anc h) s.terms s
    cases hc : loop (fun st kv => setitem fx st kv.1 kv.2) s s.terms with
    | mk t e =>
      rw [hc] at h1
      have h1' : t.ancilla = s.ancilla := h1
      cases e with
      | none =>
        simp only
        split
        · simp only [h1']
          split <;> simp
        · exact h1
      | some e => exact h1
  | isubCopy =>
    simp only [step]
    cases hc : Book.copy fx s with
    | mk c e =>
      cases e with
      | none => exact isubLoop_anc fx s _
      | some e => rfl

/-- what an edit must satisfy for I4: user keys carry no label of the ancilla form beyond the counter, constraints
are `ConsFresh`, a constructor is that of the model's own class, and `update(G)` either gets a model of the own class
whose ancilla labels are below *its* counter (1495eb6 then raises the counter) or a dict with user keys -/
def OpAnc (fx : Fix) (s : State) : Op → Prop
  | .cons r P lam lt lo hi => hasCons s.kind = true → ConsFresh s.kind s.ancilla r P lam lt (lo, hi)
  | .cast κ => κ = s.kind
  | .updateM κg q _ a =>
    if hasCons s.kind && κg == s.kind then fx.d10 = true ∧ ∀ kv ∈ q, KOK a kv.1
    else ∀ kv ∈ q, KOK s.ancilla kv.1
  | op => OpOK (KOK s.ancilla) (fun _ => True) s op

/-- **I4 is kept by every edit** (before 8d2eba8 / 0d891c4 / 1495eb6: except by `*=` dict, `**=`, `round`,
`update(model)`) -/
theorem step_I4 {fx : Fix} (s : State) (op : Op) (hfix : FixOK fx op)
    (hop : OpAnc fx s op) (hs : I4 s) : I4 (step fx s op).1 := by
  unfold I4
  rw [step_anc s op hfix]
  cases op with
  | clear => exact (closed_AncB fx 0).init s.kind trivial
  | cons r P lam lt lo hi =>
    simp only [ancAfter]
    by_cases hc : hasCons s.kind = true
    · rw [if_pos hc]
      obtain ⟨h1, h2⟩ := hop hc
      exact step_pres (closed_AncB fx _) (.cons r P lam lt lo hi) h2 (AncB_mono h1 hs)
    · rw [if_neg hc]
      simp only [step, if_neg hc]
      exact hs
  | cast κ =>
    have hκ : κ = s.kind := hop
    have ha : ancAfter fx s (.cast κ) = s.ancilla := by
      simp only [ancAfter, hκ, beq_self_eq_true, if_true]
      cases (iaddLoop fx (init s.kind) s.terms).2 <;> rfl
    rw [ha]
    exact step_pres (closed_AncB fx _) (.cast κ) trivial hs
  | updateM κg q cs a =>
    simp only [ancAfter]
    simp only [OpAnc] at hop
    by_cases hc : (hasCons s.kind && κg == s.kind) = true
    · rw [if_pos hc] at hop ⊢
      obtain ⟨hd, hq⟩ := hop
      rw [if_pos hd]
      exact step_pres (closed_AncB fx _) (.updateM κg q cs a)
        (fun kv hkv => KOK_mono (Nat.le_max_right _ _) (hq kv hkv)) (AncB_mono (Nat.le_max_left _ _) hs)
    · rw [if_neg hc] at hop ⊢
      exact step_pres (closed_AncB fx _) (.updateM κg q cs a) hop hs
  | setitem k v => exact step_pres (closed_AncB fx _) _ hop hs
  | augitem k a d => exact step_pres (closed_AncB fx _) _ hop hs
  | iaddD q => exact step_pres (closed_AncB fx _) _ hop hs
  | isubD q => exact step_pres (closed_AncB fx _) _ hop hs
  | iaddC c => exact step_pres (closed_AncB fx _) _ hop hs
  | isubC c => exact step_pres (closed_AncB fx _) _ hop hs
  | imulD q => exact step_pres (closed_AncB fx _) _ hop hs
  | imulC c => exact step_pres (closed_AncB fx _) _ hop hs
  | idivC c => exact step_pres (closed_AncB fx _) _ hop hs
  | ipow e => exact step_pres (closed_AncB fx _) _ hop hs
  | update q => exact step_pres (closed_AncB fx _) _ hop hs
  | refresh => exact step_pres (closed_AncB fx _) _ hop hs
  | copy => exact step_pres (closed_AncB fx _) _ hop hs
  | round nd => exact step_pres (closed_AncB fx _) _ hop hs
  | subs => exact step_pres (closed_AncB fx _) _ hop hs
  | bin a => exact step_pres (closed_AncB fx _) _ hop hs
  | rsubC c => exact step_pres (closed_AncB fx _) _ hop hs
  | remap => exact step_pres (closed_AncB fx _) _ hop hs
  | iaddSelf => exact step_pres (closed_AncB fx _) _ hop hs
  | isubSelf => exact step_pres (closed_AncB fx _) _ hop hs
  | imulSelf => exact step_pres (closed_AncB fx _) _ hop hs
  | updateSelf => exact step_pres (closed_AncB fx _) _ hop hs
  | isubCopy => exact step_pres (closed_AncB fx _) _ hop hs

/-! ## I0: the terms are stored canonically (C05), for every history -/

def I0 (s : State) : Prop := WF (squash s.kind) s.terms

theorem setitem_kind {fx : Fix} {s s' : State} {k : Key} {v : Rat} (h : setitem fx s k v = .ok s') :
    s'.kind = s.kind := by
  obtain ⟨m, hm, rfl⟩ := setitem_ok h
  obtain ⟨_, _, e, _⟩ := matSet_spec hm
  split
  · exact (regLabels_fields fx k m).1.trans e
  · exact e

theorem setitem_terms {fx : Fix} {s s' : State} {k : Key} {v : Rat} (h : setitem fx s k v = .ok s') :
    ∃ k', squash s.kind k = .ok k' ∧ s'.terms = set s.terms k' v := by
  obtain ⟨m, hm, rfl⟩ := setitem_ok h
  obtain ⟨k', hk, _, _, _, _, _, _, e, _⟩ := matSet_spec hm
  refine ⟨k', hk, ?_⟩
  split
  · exact (regLabels_fields fx k m).2.1.trans e
  · exact e

theorem closed_I0 (fx : Fix) : Closed fx I0 (fun _ => True) where
  init κ _ := wf_nil _
  kindOK _ _ := trivial
  remap s h := h
  field s a c h := h
  set s k v s' h _ hset := by
    obtain ⟨k', hk, ht⟩ := setitem_terms hset
    unfold I0
    rw [setitem_kind hset, ht]
    exact wf_set h (squash_idem s.kind k k' hk) v
  terms _ _ _ _ := trivial
  nil := trivial
  app _ _ _ _ := trivial

/-! ## T14.2: `refresh` (and `copy`) rebuild exact bookkeeping and keep the terms -/

/-- the cached variable set and degree are the exact ones -/
def Exact (s : State) : Prop :=
  (∀ i, i ∈ s.variables ↔ ∃ kv ∈ s.terms, i ∈ kv.1) ∧ s.degree = trueDegree s.terms

theorem get_of_not_mem {p : Poly} {k : Key} (h : k ∉ keys p) : get p k = 0 := by
  induction p with
  | nil => rfl
  | cons a r ih =>
    obtain ⟨k0, v0⟩ := a
    simp only [keys, List.map_cons, List.mem_cons, not_or] at h
    unfold get
    rw [if_neg (fun e => h.1 e.symm)]
    exact ih h.2

theorem put_of_not_mem {p : Poly} {k : Key} (v : Rat) (h : k ∉ keys p) : put p k v = p ++ [(k, v)] := by
  induction p with
  | nil => rfl
  | cons a r ih =>
    obtain ⟨k0, v0⟩ := a
    simp only [keys, List.map_cons, List.mem_cons, not_or] at h
    unfold put
    rw [if_neg (fun e => h.1 e.symm)]
    simp [ih h.2]

theorem degree_append (p : Poly) (kv : Key × Rat) : Qv.degree (p ++ [kv]) = max (Qv.degree p) kv.1.length := by
  simp [Qv.degree, List.foldl_append]

theorem trueDegree_append (p : Poly) (kv : Key × Rat) :
    trueDegree (p ++ [kv]) = maxDeg (trueDegree p) kv.1.length := by
  unfold trueDegree
  cases p with
  | nil => simp [maxDeg, Qv.degree]
  | cons a r =>
    have h1 : ((a :: r) ++ [kv]).isEmpty = false := by simp
    have h2 : (a :: r).isEmpty = false := by simp
    simp only [h1, h2, maxDeg, degree_append]
    rfl

theorem rebuild (fx : Fix) (κ : Kind) (q : Poly) : ∀ (t : State), t.kind = κ →
    (keys (t.terms ++ q)).Nodup → (∀ kv ∈ q, squash κ kv.1 = .ok kv.1 ∧ kv.2 ≠ 0) →
    Exact t → I1 t → I2 t → I3 t →
    ∃ t', iaddLoop fx t q = (t', none) ∧ t'.kind = κ ∧ t'.terms = t.terms ++ q ∧
      Exact t' ∧ I1 t' ∧ I2 t' ∧ I3 t' := by
  induction q with
  | nil => intro t hk _ _ he h1 h2 h3; exact ⟨t, rfl, hk, by simp, he, h1, h2, h3⟩
  | cons a r ih =>
    intro t hκ hnd hq he h1 h2 h3
    obtain ⟨k, v⟩ := a
    obtain ⟨hk, hv⟩ := hq (k, v) List.mem_cons_self
    have hk' : squash t.kind k = .ok k := hκ ▸ hk
    have hnk : k ∉ keys t.terms := by
      intro hin
      simp only [keys, List.map_append, List.map_cons] at hnd hin
      rw [List.nodup_append] at hnd
      exact hnd.2.2 k hin k List.mem_cons_self rfl
    have haug : augitem fx t k .add v = setitem fx t k v := by
      simp [augitem, hk', augVal, get_of_not_mem hnk, bind, Except.bind]
    obtain ⟨s1, hs1⟩ : ∃ s1, setitem fx t k v = .ok s1 := by
      simp [setitem, matSet, hk', bind, Except.bind, pure, Except.pure]
    -- facts about s1
    have g1 := setitem_I1 hs1 h1
    have g2 := setitem_I2 hs1 h2
    have gk : s1.kind = κ := (setitem_kind hs1).trans hκ
    obtain ⟨k', hk'', ht⟩ := setitem_terms hs1
    have ek : k' = k := by rw [hk'] at hk''; injection hk'' with h; exact h.symm
    subst ek
    have ht' : s1.terms = t.terms ++ [(k', v)] := by
      rw [ht]; unfold set; rw [if_neg hv]; exact put_of_not_mem v hnk
    obtain ⟨m, hm, hs1m⟩ := setitem_ok hs1
    obtain ⟨k2, hk2, _, e2, _, _, _, _, _, _, hn0⟩ := matSet_spec hm
    have ek2 : k2 = k' := by rw [hk'] at hk2; injection hk2 with h; exact h.symm
    subst ek2
    obtain ⟨ed, ev⟩ := hn0 hv
    obtain ⟨b1, _, _⟩ := ev h1.2.2.1 h1.2.2.2
    have hvars : s1.variables = m.variables ∧ s1.degree = m.degree := by
      rw [hs1m]; split
      · exact ⟨(regLabels_fields fx k2 m).2.2.1, (regLabels_fields fx k2 m).2.2.2.2.1⟩
      · exact ⟨rfl, rfl⟩
    have gE : Exact s1 := by
      refine ⟨fun i => ?_, ?_⟩
      · rw [hvars.1, b1 i, he.1 i, ht']
        constructor
        · rintro (⟨kv, h, hi⟩ | h)
          · exact ⟨kv, List.mem_append_left _ h, hi⟩
          · exact ⟨(k2, v), by simp, h⟩
        · rintro ⟨kv, h, hi⟩
          rcases List.mem_append.mp h with h | h
          · exact Or.inl ⟨kv, h, hi⟩
          · simp at h; subst h; exact Or.inr hi
      · rw [hvars.2, ed, he.2, ht', trueDegree_append]
    have g3 : I3 s1 := by
      by_cases hb : hasBO t.kind = true
      · refine I3_of_sets g1 g2 (fun i => ?_)
        obtain ⟨c1, c2, _⟩ := h3 hb
        rw [hvars.1, hs1m, if_pos hb, regLabels_dom, b1 i]
        have hdm : mapDom m = mapDom t := by simp [mapDom, e2]
        rw [hdm]
        constructor
        · rintro (h | ⟨h, _⟩)
          · exact Or.inl (c1 i h)
          · exact Or.inr h
        · rintro (h | h)
          · exact Or.inl (c2 i h)
          · exact Or.inr ⟨h, fun _ => Or.inr h⟩
      · intro hb'
        rw [gk, ← hκ] at hb'
        exact absurd hb' hb
    have hnd' : (keys (s1.terms ++ r)).Nodup := by
      rw [ht', List.append_assoc]; exact hnd
    obtain ⟨t', hl, r1, r2, r3, r4, r5, r6⟩ :=
      ih s1 gk hnd' (fun kv h => hq kv (List.mem_cons_of_mem _ h)) gE g1 g2 g3
    refine ⟨t', ?_, r1, by rw [r2, ht', List.append_assoc]; rfl, r3, r4, r5, r6⟩
    unfold iaddLoop loop
    simp only [haug, hs1]
    exact hl

/-- `copy()` of a canonically stored model: no exception, the same terms, exact caches, `Inv`'s I1–I3 —
in the code as it is and with the repairs -/
theorem copy_spec (fx : Fix) (s : State) (h0 : I0 s) :
    ∃ c, copy fx s = (c, none) ∧ c.kind = s.kind ∧ c.terms = s.terms ∧ Exact c ∧ I1 c ∧ I2 c ∧ I3 c ∧
      c.ancilla = s.ancilla ∧ c.constraints = s.constraints := by
  have hi := (closed_QInv { fx with d1 := true } rfl).init s.kind trivial
  have hex : Exact (init s.kind) := by
    refine ⟨fun i => by simp [init], by simp [init, trueDegree]⟩
  obtain ⟨t', hl, r1, r2, r3, r4, r5, r6⟩ :=
    rebuild fx s.kind s.terms (init s.kind) rfl (by simpa [init] using h0.nodup)
      (fun kv h => ⟨h0.fixed kv.1 (List.mem_map_of_mem h), h0.nonzero kv h⟩) hex hi.1 hi.2.1 hi.2.2
  refine ⟨{ t' with ancilla := s.ancilla, constraints := s.constraints }, ?_, r1, by simpa [init] using r2,
    r3, I1_congr rfl rfl rfl rfl r4, I2_congr rfl rfl rfl r5, r6, rfl, rfl⟩
  unfold copy
  rw [hl]

theorem refresh_spec (fx : Fix) (s : State) (h0 : I0 s) :
    ∃ c, refresh fx s = (c, none) ∧ c.kind = s.kind ∧ c.terms = s.terms ∧ Exact c ∧ I1 c ∧ I2 c ∧ I3 c ∧
      c.ancilla = s.ancilla ∧ c.constraints = s.constraints := by
  obtain ⟨d, hd, d1, d2, _, _, _, _, d7, d8⟩ := copy_spec fx s h0
  have h0d : I0 d := by unfold I0; rw [d1, d2]; exact h0
  obtain ⟨c, hc, c1, c2, c3, c4, c5, c6, c7, c8⟩ := copy_spec fx d h0d
  refine ⟨c, ?_, c1.trans d1, c2.trans d2, c3, c4, c5, c6, c7.trans d7, c8.trans d8⟩
  unfold refresh
  rw [hd]
  exact hc

/-! ## histories and I4 -/

/-- a key supplied by the user: no label of the reserved ancilla form -/
def UserKey (k : Key) : Prop := ∀ i ∈ k, i < ANC

/-- all keys the edit supplies are user keys (a constructor `T(H)` and `update(model)` are judged by `Op.UserAt`) -/
def Op.User : Op → Prop
  | .setitem k _ => UserKey k
  | .augitem k _ _ => UserKey k
  | .iaddD q => ∀ kv ∈ q, UserKey kv.1
  | .isubD q => ∀ kv ∈ q, UserKey kv.1
  | .imulD q => ∀ kv ∈ q, UserKey kv.1
  | .update q => ∀ kv ∈ q, UserKey kv.1
  | .cons _ P _ _ _ _ => ∀ kv ∈ P, UserKey kv.1
  | .bin a => ArithOK UserKey a
  | .updateM _ q _ _ => ∀ kv ∈ q, UserKey kv.1
  | .cast _ => False
  | _ => True

/-- the edit is a user edit of a model of class `κ`: user keys; a constructor is `κ`'s own (`T(H)` with
`T = type(H)`, a copy); the argument of `update` is either a model of the own constrained class whose ancilla
labels are below its own counter `a` (a sound model), or has user keys only -/
def Op.UserAt (κ : Kind) : Op → Prop
  | .cast κ' => κ' = κ
  | .updateM κg q _ a =>
    if hasCons κ && κg == κ then ∀ kv ∈ q, KOK a kv.1 else ∀ kv ∈ q, UserKey kv.1
  | op => op.User

/-- the constraint edits are `ConsFresh` from every counter value -/
def Op.Fresh : Op → Prop
  | .cons r P lam lt lo hi => ∀ κ anc, ConsFresh κ anc r P lam lt (lo, hi)
  | _ => True

instance (k : Key) : Decidable (UserKey k) := by unfold UserKey; infer_instance
instance (a : Arith) : Decidable (ArithOK UserKey a) := by cases a <;> unfold ArithOK <;> infer_instance
instance (op : Op) : Decidable op.User := by cases op <;> unfold Op.User <;> infer_instance
instance (κ : Kind) (op : Op) : Decidable (op.UserAt κ) := by
  cases op <;> unfold Op.UserAt <;> infer_instance

theorem userKey_KOK {k : Key} (h : UserKey k) (a : Nat) : KOK a k :=
  fun i hi h1 => absurd (h i hi) (Nat.not_lt.mpr h1)

theorem userAt_of_user (κ : Kind) (op : Op) (h : op.User) : op.UserAt κ := by
  cases op with
  | cast κ' => exact h.elim
  | updateM κg q cs a =>
    simp only [Op.UserAt]
    split
    · exact fun kv hkv => userKey_KOK (h kv hkv) a
    · exact h
  | _ => exact h

theorem opAnc_of_user {fx : Fix} (hd : fx.d10 = true) (s : State) (op : Op) (hu : op.UserAt s.kind)
    (hf : op.Fresh) : OpAnc fx s op := by
  cases op with
  | cons r P lam lt lo hi => exact fun _ => hf s.kind s.ancilla
  | cast κ => exact hu
  | updateM κg q cs a =>
    simp only [Op.UserAt] at hu
    simp only [OpAnc]
    split
    · rename_i hc; rw [if_pos hc] at hu; exact ⟨hd, hu⟩
    · rename_i hc; rw [if_neg hc] at hu; exact fun kv hkv => userKey_KOK (hu kv hkv) _
  | setitem k v => exact userKey_KOK hu _
  | augitem k a d => exact userKey_KOK hu _
  | iaddD q => exact fun kv h => userKey_KOK (hu kv h) _
  | isubD q => exact fun kv h => userKey_KOK (hu kv h) _
  | imulD q => exact fun kv h => userKey_KOK (hu kv h) _
  | update q => exact fun kv h => userKey_KOK (hu kv h) _
  | bin a =>
    cases a with
    | addD q => exact fun kv h => userKey_KOK (hu kv h) _
    | subD q => exact fun kv h => userKey_KOK (hu kv h) _
    | mulD q => exact fun kv h => userKey_KOK (hu kv h) _
    | addC c => trivial
    | subC c => trivial
    | mulC c => trivial
    | divC c => trivial
    | pow e => trivial
  | iaddC c => trivial
  | isubC c => trivial
  | imulC c => trivial
  | idivC c => trivial
  | ipow e => trivial
  | clear => trivial
  | refresh => trivial
  | copy => trivial
  | round nd => trivial
  | subs => trivial
  | rsubC c => trivial
  | remap => trivial
  | iaddSelf => trivial
  | isubSelf => trivial
  | imulSelf => trivial
  | updateSelf => trivial
  | isubCopy => trivial

/-- the class of the model never changes along user edits (a constructor of the own class is a copy) -/
theorem closed_kind (fx : Fix) (κ : Kind) : Closed fx (fun s => s.kind = κ) (fun _ => True) (fun κ' => κ' = κ) where
  init κ' h := h
  kindOK s h := h
  remap s h := h
  field s a c h := h
  set s k v s' h _ hset := (setitem_kind hset).trans h
  terms _ _ _ _ := trivial
  nil := trivial
  app _ _ _ _ := trivial

theorem opOK_kind (κ : Kind) (s : State) (op : Op) (hu : op.UserAt κ) :
    OpOK (fun _ => True) (fun κ' => κ' = κ) s op := by
  cases op with
  | cast κ' => exact hu
  | bin a => cases a <;> simp [OpOK, ArithOK]
  | _ => simp [OpOK]

theorem run_I4 {fx : Fix} (κ : Kind) (ops : List Op) (hfix : ∀ op ∈ ops, FixOK fx op) (hd : fx.d10 = true)
    (hu : ∀ op ∈ ops, op.UserAt κ) (hf : ∀ op ∈ ops, op.Fresh) :
    (run fx κ ops).kind = κ ∧ I4 (run fx κ ops) := by
  unfold run
  suffices h : ∀ s, s.kind = κ → I4 s →
      (ops.foldl (fun s o => (step fx s o).1) s).kind = κ ∧ I4 (ops.foldl (fun s o => (step fx s o).1) s) from
    h _ rfl ((closed_AncB fx 0).init κ trivial)
  induction ops with
  | nil => exact fun s hk h => ⟨hk, h⟩
  | cons o r ih =>
    intro s hk hs
    simp only [List.foldl_cons]
    have huo := hu o List.mem_cons_self
    exact ih (fun op h => hfix op (List.mem_cons_of_mem _ h)) (fun op h => hu op (List.mem_cons_of_mem _ h))
      (fun op h => hf op (List.mem_cons_of_mem _ h)) _
      (step_pres (closed_kind fx κ) o (opOK_kind κ s o huo) hk)
      (step_I4 s o (hfix o List.mem_cons_self)
        (opAnc_of_user hd s o (hk ▸ huo) (hf o List.mem_cons_self)) hs)

/-! ## T14.3: labels of the enumerated and reduced forms -/

theorem lookup_some {m : List (Var × Nat)} {i : Var} {l : Nat} (h : lookup m i = some l) : (i, l) ∈ m := by
  unfold lookup at h
  cases hf : m.find? (fun p => p.1 == i) with
  | none => rw [hf] at h; cases h
  | some p =>
    rw [hf] at h
    simp only [Option.map_some, Option.some.injEq] at h
    have h1 := List.mem_of_find?_eq_some hf
    have h2 := List.find?_some hf
    simp only [beq_iff_eq] at h2
    obtain ⟨a, b⟩ := p
    simp only at h h2
    subst h h2
    exact h1

theorem lookup_of_mem_dom {m : List (Var × Nat)} {i : Var} (h : i ∈ m.map Prod.fst) :
    ∃ l, lookup m i = some l := by
  unfold lookup
  cases hf : m.find? (fun p => p.1 == i) with
  | none =>
    rw [List.find?_eq_none] at hf
    obtain ⟨p, hp, rfl⟩ := List.mem_map.mp h
    exact absurd (by simp) (hf p hp)
  | some p => exact ⟨p.2, rfl⟩

/-- every label occurring in the terms gets, in every enumerated form, a label below `num_binary_variables` -/
theorem var_label_lt {s : State} (hb : hasBO s.kind = true) (h1 : I1 s) (h2 : I2 s) (h3 : I3 s)
    (kv : Key × Rat) (hkv : kv ∈ s.terms) (i : Var) (hi : i ∈ kv.1) :
    ∃ l, lookup s.mapping i = some l ∧ l < s.numVars := by
  obtain ⟨_, c2, c3⟩ := h3 hb
  obtain ⟨l, hl⟩ := lookup_of_mem_dom (c2 i (h1.1 kv hkv i hi))
  refine ⟨l, hl, ?_⟩
  rw [← c3]
  exact (h2.2.2.2.2.1 l).mp (List.mem_map.mpr ⟨(i, l), lookup_some hl, rfl⟩)

theorem convBase_lt {s : State} (hb : hasBO s.kind = true) (h2 : I2 s) (h3 : I3 s) (l : Nat)
    (hl : l ∈ convBase s) : l < s.numVars := by
  unfold convBase at hl
  obtain ⟨v, _, hv⟩ := List.mem_filterMap.mp hl
  rw [← (h3 hb).2.2]
  exact (h2.2.2.2.2.1 l).mp (List.mem_map.mpr ⟨(v, l), lookup_some hv, rfl⟩)

theorem consFreshB_iff (κ : Kind) (anc : Nat) (r : Rel) (P : Poly) (lam : Rat) (lt : Bool)
    (b : Option Rat × Option Rat) : consFreshB κ anc r P lam lt b = true ↔ ConsFresh κ anc r P lam lt b := by
  simp only [consFreshB, ConsFresh, KOK, Bool.and_eq_true, decide_eq_true_eq, List.all_eq_true,
    Bool.or_eq_true, Bool.not_eq_true', decide_eq_false_iff_not]
  constructor
  · rintro ⟨h1, h2⟩
    exact ⟨h1, fun kv hkv i hi hge => (h2 kv hkv i hi).resolve_left (fun h => h hge)⟩
  · rintro ⟨h1, h2⟩
    refine ⟨h1, fun kv hkv i hi => ?_⟩
    by_cases hge : ANC ≤ i
    · exact Or.inr (h2 kv hkv i hi hge)
    · exact Or.inl hge

end Qv.Book
