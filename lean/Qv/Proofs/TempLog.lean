import Qv.Proofs.TempRange
import Mathlib.Analysis.SpecialFunctions.Log.Basic
/-!
# C15, real part: the temperatures `-dE / log p` over ℝ (Mathlib's `Real.log`)

`Temp.val t p` is the real number a returned temperature denotes: the literal `0`, or
`-dE / log p`.  Floating-point evaluation of `log` and `/` is outside (DESIGN.md §4 C15, §7).
-/
namespace Qv

/-- the real number denoted by a returned temperature, given the flip probability it was computed from -/
noncomputable def Temp.val (t : Temp) (p : ℚ) : ℝ :=
  match t with
  | .zero => 0
  | .ofDelta dE => -(dE : ℝ) / Real.log (p : ℝ)

@[simp] theorem Temp.val_zero (p : ℚ) : Temp.zero.val p = 0 := rfl
@[simp] theorem Temp.val_ofDelta (d p : ℚ) : (Temp.ofDelta d).val p = -(d : ℝ) / Real.log (p : ℝ) := rfl

/-- for `0 < pe ≤ ps < 1` and `a ≥ b ≥ 0`: `-a / log ps ≥ -b / log pe ≥ 0` -/
theorem real_temp_order (a b ps pe : ℝ) (hpe : 0 < pe) (hle : pe ≤ ps) (hps : ps < 1)
    (hb : 0 ≤ b) (hab : b ≤ a) :
    -a / Real.log ps ≥ -b / Real.log pe ∧ -b / Real.log pe ≥ 0 := by
  have hps0 : 0 < ps := lt_of_lt_of_le hpe hle
  have h1 : Real.log ps < 0 := Real.log_neg hps0 hps
  have h2 : Real.log pe ≤ Real.log ps := Real.log_le_log hpe hle
  have e1 : -a / Real.log ps = a / (-Real.log ps) := by rw [div_neg, neg_div]
  have e2 : -b / Real.log pe = b / (-Real.log pe) := by rw [div_neg, neg_div]
  rw [e1, e2]
  have hu : 0 < -Real.log ps := by linarith
  have hw : 0 < -Real.log pe := by linarith
  constructor
  · calc b / (-Real.log pe) ≤ b / (-Real.log ps) :=
          div_le_div_of_nonneg_left hb hu (by linarith)
      _ ≤ a / (-Real.log ps) := by gcongr
  · exact div_nonneg hb (le_of_lt hw)

/-- a single temperature `-a / log p` with `a ≥ 0`, `0 < p < 1` is non-negative -/
theorem real_temp_nonneg (a p : ℝ) (hp0 : 0 < p) (hp1 : p < 1) (ha : 0 ≤ a) : -a / Real.log p ≥ 0 := by
  have h1 : Real.log p < 0 := Real.log_neg hp0 hp1
  have e1 : -a / Real.log p = a / (-Real.log p) := by rw [div_neg, neg_div]
  rw [e1]
  exact div_nonneg ha (by linarith)

/-- every successful return of the model denotes `T0 ≥ Tf ≥ 0` -/
theorem tempRange_val_ordered {inp : Input} {ps pe : ℚ} {spin : Bool} {t0 tf : Temp}
    (h : tempRange inp ps pe spin = .ok (t0, tf)) :
    t0.val ps ≥ tf.val pe ∧ tf.val pe ≥ 0 := by
  obtain ⟨⟨h0, h1, h2⟩, h⟩ := tempRange_ok h
  rcases h with ⟨rfl, rfl⟩ | ⟨M, m, hm, hmM, rfl, rfl⟩
  · simp
  · by_cases hpe : pe = 0
    · by_cases hps : ps = 0
      · simp [hpe, hps]
      · have hps0 : (0 : ℝ) < (ps : ℝ) := by
          have : 0 < ps := lt_of_le_of_ne (le_trans h0 h1) (Ne.symm hps)
          exact_mod_cast this
        have hps1 : (ps : ℝ) < 1 := by exact_mod_cast h2
        have hM : (0 : ℝ) ≤ (M : ℝ) := by exact_mod_cast le_trans hm hmM
        simp only [hpe, hps, if_true, if_false, Temp.val_zero, Temp.val_ofDelta]
        exact ⟨real_temp_nonneg _ _ hps0 hps1 hM, le_refl _⟩
    · have hpe0 : 0 < pe := lt_of_le_of_ne h0 (Ne.symm hpe)
      have hps : ps ≠ 0 := ne_of_gt (lt_of_lt_of_le hpe0 h1)
      simp only [hpe, hps, if_false, Temp.val_ofDelta]
      exact real_temp_order _ _ _ _ (by exact_mod_cast hpe0) (by exact_mod_cast h1)
        (by exact_mod_cast h2) (by exact_mod_cast hm) (by exact_mod_cast hmM)

end Qv
